/-
Lemmas.Rest — the three remaining error-bound clauses.

 §1 DWTimesDW3 (`TwoFloat * TwoFloat`) with the paper's constant `5u²` EXACTLY (`F64.dwtimesdw_err_5u2_exact`,
    `TwoFloat.mul_tt_bound_5u2`).
 §2 DWDivFP3 (`TwoFloat / f64`) with the paper's constant `3u²` (`F64.divtf_3u2_int`, `F64.div_tf_val_3u2`).
-/
import TFV.Lemmas.PowiBound
import TFV.Lemmas.SqrtBound
import TFV.Lemmas.DivInv
import Mathlib.Analysis.SpecialFunctions.Pow.Real

set_option exponentiation.threshold 4000

namespace F64

/-! ## 1. DWTimesDW3 with the constant `5u²` exactly

The binade analysis of `dwtimesdw_err_5u2_j66` bounds the four rounding errors by `5κ + O(u³)` (`κ = u²·W`, `W` the
power of two just below `|xh·yh|`), which is not enough when `|x·y| < W(1 + u/10)`.  The missing observation: a high
word is either a power of two — then `2Prod` is exact (`cl1 = 0`) and `cl3 = RN(cl2) = cl2` is exact, so only
`3κ + O(u³)` of error remains — or it is at least one ulp above the power of two; if that holds for both words then
`|x·y| ≥ W(1 + u)²`, which absorbs the `O(u³)` term. -/

/-- a multiple of `2^k` of magnitude at least `2^52·2^k` is `2^52·2^k` or at least `(2^52+1)·2^k` in magnitude -/
theorem pow2_or_succ_of_dvd {b : Int} {k : Nat} (hd : (2 : Int) ^ k ∣ b) (f1 : 2 ^ 52 * 2 ^ k ≤ |b|) :
    |b| = 2 ^ 52 * 2 ^ k ∨ (2 ^ 52 + 1) * 2 ^ k ≤ |b| := by
  obtain ⟨m, hm⟩ := hd
  have pu := two_pow_pos' k
  generalize (2 : Int) ^ k = u at *
  have habs : |b| = u * |m| := by rw [hm, abs_mul, abs_of_pos pu]
  rw [habs] at f1 ⊢
  have hm52 : 2 ^ 52 ≤ |m| := by
    by_contra hlt
    have : |m| + 1 ≤ 2 ^ 52 := by omega
    have := mul_le_mul_of_nonneg_left this (le_of_lt pu)
    nlinarith
  rcases eq_or_lt_of_le hm52 with he | hlt
  · left; rw [← he]; ring
  · right
    have : 2 ^ 52 + 1 ≤ |m| := by omega
    have := mul_le_mul_of_nonneg_left this (le_of_lt pu)
    linarith

/-- a normal representable integer is a power of two (in its binade) or at least one ulp above it -/
theorem RepI.pow2_or_succ {b : Int} (hb : RepI b) (h : Nat.log2 b.natAbs - 52 ≠ 0) :
    |b| = 2 ^ 52 * 2 ^ (Nat.log2 b.natAbs - 52) ∨
      (2 ^ 52 + 1) * 2 ^ (Nat.log2 b.natAbs - 52) ≤ |b| :=
  pow2_or_succ_of_dvd hb.ulp_dvd (ulp_mul_le_abs h)

/-- a product by a power of two (in magnitude) divided by a power of two is representable -/
theorem repI_of_mul_pow2 {a b Q : Int} {w e : Nat} (hb : RepI b) (ha : |a| = 2 ^ e)
    (hQ : a * b = Q * (2 : Int) ^ w) : RepI Q := by
  have h1 : |a| * |b| = |Q| * 2 ^ w := by
    rw [← abs_mul, hQ, abs_mul, abs_two_pow]
  rw [ha, ← Int.natCast_natAbs b, ← Int.natCast_natAbs Q] at h1
  have h2 : 2 ^ e * b.natAbs = Q.natAbs * 2 ^ w := by exact_mod_cast h1
  have h3 : Rep (b.natAbs * 2 ^ e) := rep_mul_pow2 e hb
  rw [Nat.mul_comm, h2] at h3
  exact Rep.of_mul_pow2 h3

/-- **DWTimesDW3 in the crate's form, binade analysis with the power-of-two refinement: `5u²` exactly.** -/
theorem dwtimesdw_err_5u2_exact {xh xl yh yl Q : Int} {U j w : Nat} (hU : 0 < U) (hUw : U = 2 ^ w) (hxh : RepI xh) (hyh : RepI yh)
    (hx : 2 * |xl| ≤ 2 ^ (Nat.log2 xh.natAbs - 52)) (hy : 2 * |yl| ≤ 2 ^ (Nat.log2 yh.natAbs - 52))
    (hax : Nat.log2 xh.natAbs - 52 ≠ 0) (hay : Nat.log2 yh.natAbs - 52 ≠ 0)
    (hκ : (2 : Int) ^ (Nat.log2 xh.natAbs - 52) * 2 ^ (Nat.log2 yh.natAbs - 52) = 4 * ((U : Int) * 2 ^ j))
    (hj : 66 ≤ j) (hQ : xh * yh = Q * (U : Int))
    {tl0 tl1 cl2 cl3 : Int} (ht0 : tl0 = rqI (xl * yl) U) (ht1 : tl1 = rqI (xh * yl + tl0 * (U : Int)) U)
    (hc2 : cl2 = rqI (xl * yh + tl1 * (U : Int)) U) (hc3 : cl3 = rnI (Q - rnI Q + cl2)) :
    2 ^ 106 * |(rnI Q + cl3) * (U : Int) - (xh + xl) * (yh + yl)|
      ≤ 5 * |(xh + xl) * (yh + yl)| := by
  have dx := hxh.pow2_or_succ hax
  have dy := hyh.pow2_or_succ hay
  have hUc : (U : Int) = 2 ^ w := by rw [hUw]; norm_cast
  have c0x : |xh| = 2 ^ 52 * 2 ^ (Nat.log2 xh.natAbs - 52) → RepI Q := fun h =>
    repI_of_mul_pow2 (e := 52 + (Nat.log2 xh.natAbs - 52)) hyh (by rw [h, ← pow_add]) (by rw [hQ, hUc])
  have c0y : |yh| = 2 ^ 52 * 2 ^ (Nat.log2 yh.natAbs - 52) → RepI Q := fun h =>
    repI_of_mul_pow2 (e := 52 + (Nat.log2 yh.natAbs - 52)) hxh (by rw [h, ← pow_add])
      (by rw [mul_comm, hQ, hUc])
  have z0 : RepI Q → |Q - rnI Q| * (U : Int) = 0 ∧ |cl3 - (Q - rnI Q + cl2)| * (U : Int) = 0 := by
    intro hR
    have hc2R : RepI cl2 := by
      rw [hc2]; unfold RepI; rw [natAbs_rqI]; exact roundQ_rep _ _ hU
    rw [hc3, rnI_of_repI hR, sub_self, zero_add, rnI_of_repI hc2R, sub_self]
    simp
  have hUi : (0 : Int) < (U : Int) := Int.natCast_pos.2 hU
  have f1 := ulp_mul_le_abs hax
  have f2 := hxh.add_ulp_le
  have f3 := ulp_mul_le_abs hay
  have f4 := hyh.add_ulp_le
  have pux := two_pow_pos' (Nat.log2 xh.natAbs - 52)
  have puy := two_pow_pos' (Nat.log2 yh.natAbs - 52)
  generalize (2 : Int) ^ (Nat.log2 xh.natAbs - 52) = ux at *
  generalize (2 : Int) ^ (Nat.log2 yh.natAbs - 52) = uy at *
  have hUκ : 2 ^ 66 * (U : Int) ≤ (U : Int) * 2 ^ j := by
    rw [mul_comm]
    exact mul_le_mul_of_nonneg_left (pow_le_pow_right₀ (by norm_num) hj) (le_of_lt hUi)
  have e1 : (U : Int) * 2 ^ (j + 1) = 2 * ((U : Int) * 2 ^ j) := by rw [pow_succ]; ring
  have e2 : (U : Int) * 2 ^ (j + 2) = 4 * ((U : Int) * 2 ^ j) := by rw [pow_add]; ring
  have e3 : (U : Int) * 2 ^ (j + 3) = 8 * ((U : Int) * 2 ^ j) := by rw [pow_add]; ring
  have e54 : (U : Int) * 2 ^ (j + 54) = 2 ^ 54 * ((U : Int) * 2 ^ j) := by rw [pow_add]; ring
  have e55 : (U : Int) * 2 ^ (j + 55) = 2 ^ 55 * ((U : Int) * 2 ^ j) := by rw [pow_add]; ring
  have pκ : (0 : Int) < (U : Int) * 2 ^ j := mul_pos hUi (two_pow_pos' j)
  -- products of magnitudes
  have pAx := abs_nonneg xh
  have pAy := abs_nonneg yh
  have pLx := abs_nonneg xl
  have pLy := abs_nonneg yl
  have g1 : 2 ^ 54 * ((U : Int) * 2 ^ j) ≤ |xh| * uy := by
    have := mul_le_mul_of_nonneg_right f1 (le_of_lt puy)
    have e : (2 : Int) ^ 52 * ux * uy = 2 ^ 52 * (ux * uy) := by ring
    rw [e, hκ] at this
    linarith
  have g2 : |xh| * uy + 4 * ((U : Int) * 2 ^ j) ≤ 2 ^ 55 * ((U : Int) * 2 ^ j) := by
    have := mul_le_mul_of_nonneg_right f2 (le_of_lt puy)
    have e : (2 : Int) ^ 53 * ux * uy = 2 ^ 53 * (ux * uy) := by ring
    have e' : (|xh| + ux) * uy = |xh| * uy + ux * uy := by ring
    rw [e, e', hκ] at this
    linarith
  have g3 : 2 ^ 54 * ((U : Int) * 2 ^ j) ≤ ux * |yh| := by
    have := mul_le_mul_of_nonneg_left f3 (le_of_lt pux)
    have e : ux * ((2 : Int) ^ 52 * uy) = 2 ^ 52 * (ux * uy) := by ring
    rw [e, hκ] at this
    linarith
  have g4 : ux * |yh| + 4 * ((U : Int) * 2 ^ j) ≤ 2 ^ 55 * ((U : Int) * 2 ^ j) := by
    have := mul_le_mul_of_nonneg_left f4 (le_of_lt pux)
    have e : ux * ((2 : Int) ^ 53 * uy) = 2 ^ 53 * (ux * uy) := by ring
    have e' : ux * (|yh| + uy) = ux * |yh| + ux * uy := by ring
    rw [e, e', hκ] at this
    linarith
  have g5 : 2 * (|xh| * |yl|) ≤ |xh| * uy := by
    have := mul_le_mul_of_nonneg_left hy pAx
    linarith
  have g6 : 2 * (|xl| * |yh|) ≤ ux * |yh| := by
    have := mul_le_mul_of_nonneg_right hx pAy
    linarith
  have g7 : |xl| * |yl| ≤ (U : Int) * 2 ^ j := by
    have := mul_le_mul hx hy (by positivity) (le_of_lt pux)
    rw [hκ] at this
    linarith
  have g8 : 2 ^ 52 * (ux * |yh|) + 2 ^ 52 * (|xh| * uy) ≤ |xh| * |yh| + 2 ^ 106 * ((U : Int) * 2 ^ j) := by
    have := mul_nonneg (sub_nonneg.2 f1) (sub_nonneg.2 f3)
    have e : (|xh| - 2 ^ 52 * ux) * (|yh| - 2 ^ 52 * uy)
        = |xh| * |yh| - 2 ^ 52 * (ux * |yh|) - 2 ^ 52 * (|xh| * uy) + 2 ^ 104 * (ux * uy) := by ring
    rw [e, hκ] at this
    linarith
  have g9 : |xh| * |yh| < 2 ^ 108 * ((U : Int) * 2 ^ j) := by
    have h1 : |xh| < 2 ^ 53 * ux := by linarith
    have h2 : |yh| < 2 ^ 53 * uy := by linarith
    have := mul_lt_mul'' h1 h2 pAx pAy
    have e : (2 : Int) ^ 53 * ux * (2 ^ 53 * uy) = 2 ^ 106 * (ux * uy) := by ring
    rw [e, hκ] at this
    linarith
  -- lower bound of the exact product when neither high word is a power of two
  have hPl : (2 ^ 52 + 1) * ux ≤ |xh| → (2 ^ 52 + 1) * uy ≤ |yh| →
      (2 ^ 106 + 2 ^ 54 + 1) * ((U : Int) * 2 ^ j) ≤ |(xh + xl) * (yh + yl)| := by
    intro h1 h2
    have hX : |xh| ≤ |xh + xl| + |xl| := by
      have := abs_add_le (xh + xl) (-xl)
      rwa [abs_neg, add_neg_cancel_right] at this
    have hY : |yh| ≤ |yh + yl| + |yl| := by
      have := abs_add_le (yh + yl) (-yl)
      rwa [abs_neg, add_neg_cancel_right] at this
    have hX2 : (2 ^ 53 + 1) * ux ≤ 2 * |xh + xl| := by linarith
    have hY2 : (2 ^ 53 + 1) * uy ≤ 2 * |yh + yl| := by linarith
    have := mul_le_mul hX2 hY2 (by positivity) (by positivity)
    have e : (2 ^ 53 + 1) * ux * ((2 ^ 53 + 1) * uy) = (2 ^ 53 + 1) ^ 2 * (ux * uy) := by ring
    rw [e, hκ] at this
    rw [abs_mul]
    linarith
  -- abs of the products
  have a0 : |xh * yh| = |xh| * |yh| := abs_mul _ _
  have a1 : |xh * yl| = |xh| * |yl| := abs_mul _ _
  have a2 : |xl * yh| = |xl| * |yh| := abs_mul _ _
  have a3 : |xl * yl| = |xl| * |yl| := abs_mul _ _
  -- rounding errors
  have r1 := rqI_err_le (xl * yl) hU
  rw [← ht0] at r1
  have m0 : |tl0 * (U : Int)| ≤ |xl * yl| + |xl * yl + -tl0 * (U : Int)| := by
    have := abs_add_le (xl * yl) (-(xl * yl + -tl0 * (U : Int)))
    rw [abs_neg] at this
    have e : xl * yl + -(xl * yl + -tl0 * (U : Int)) = tl0 * (U : Int) := by ring
    rwa [e] at this
  have n2 := abs_add_le (xh * yl) (tl0 * (U : Int))
  have r2 := rqI_err_of_lt (p := xh * yl + tl0 * (U : Int)) (m := j + 1) hU (by rw [e1]; linarith)
  rw [← ht1, e1] at r2
  have m1 : |tl1 * (U : Int)| ≤ |xh * yl + tl0 * (U : Int)| + |xh * yl + tl0 * (U : Int) + -tl1 * (U : Int)| := by
    have := abs_add_le (xh * yl + tl0 * (U : Int)) (-(xh * yl + tl0 * (U : Int) + -tl1 * (U : Int)))
    rw [abs_neg] at this
    have e : xh * yl + tl0 * (U : Int) + -(xh * yl + tl0 * (U : Int) + -tl1 * (U : Int)) = tl1 * (U : Int) := by ring
    rwa [e] at this
  have n3 := abs_add_le (xl * yh) (tl1 * (U : Int))
  have r3 := rqI_err_of_lt (p := xl * yh + tl1 * (U : Int)) (m := j + 2) hU (by rw [e2]; linarith)
  rw [← hc2, e2] at r3
  have m2 : |cl2 * (U : Int)| ≤ |xl * yh + tl1 * (U : Int)| + |xl * yh + tl1 * (U : Int) + -cl2 * (U : Int)| := by
    have := abs_add_le (xl * yh + tl1 * (U : Int)) (-(xl * yh + tl1 * (U : Int) + -cl2 * (U : Int)))
    rw [abs_neg] at this
    have e : xl * yh + tl1 * (U : Int) + -(xl * yh + tl1 * (U : Int) + -cl2 * (U : Int)) = cl2 * (U : Int) := by ring
    rwa [e] at this
  have c1a : |xh * yh| < 2 ^ 107 * ((U : Int) * 2 ^ j) →
      2 * (|Q - rnI Q| * (U : Int)) ≤ 2 ^ 54 * ((U : Int) * 2 ^ j) := by
    intro h
    have := resid_le_of_lt (Q := Q) (m := j + 54) hU (by rw [← hQ, e54]; linarith)
    rwa [e54] at this
  have c1b : 2 * (|Q - rnI Q| * (U : Int)) ≤ 2 ^ 55 * ((U : Int) * 2 ^ j) := by
    have := resid_le_of_lt (Q := Q) (m := j + 55) hU (by rw [← hQ, e55, a0]; linarith)
    rwa [e55] at this
  have n4 : |Q - rnI Q + cl2| * (U : Int) ≤ |Q - rnI Q| * (U : Int) + |cl2 * (U : Int)| := by
    have := mul_le_mul_of_nonneg_right (abs_add_le (Q - rnI Q) cl2) (le_of_lt hUi)
    rw [abs_mul cl2, abs_of_pos hUi]
    linarith
  have r4a : |Q - rnI Q + cl2| * (U : Int) < 2 ^ 55 * ((U : Int) * 2 ^ j) →
      2 * (|cl3 - (Q - rnI Q + cl2)| * (U : Int)) ≤ 4 * ((U : Int) * 2 ^ j) := by
    intro h
    have := rnI_err_mul_of_lt (n := Q - rnI Q + cl2) (m := j + 2) hU (by rw [e2]; linarith)
    rwa [e2, ← hc3] at this
  have r4b : |Q - rnI Q + cl2| * (U : Int) < 2 ^ 56 * ((U : Int) * 2 ^ j) →
      2 * (|cl3 - (Q - rnI Q + cl2)| * (U : Int)) ≤ 8 * ((U : Int) * 2 ^ j) := by
    intro h
    have := rnI_err_mul_of_lt (n := Q - rnI Q + cl2) (m := j + 3) hU (by rw [e3]; linarith)
    rwa [e3, ← hc3] at this
  -- the error is the sum of the four rounding errors
  have herr : (rnI Q + cl3) * (U : Int) - (xh + xl) * (yh + yl)
      = -((xl * yl + -tl0 * (U : Int)) + (xh * yl + tl0 * (U : Int) + -tl1 * (U : Int))
          + (xl * yh + tl1 * (U : Int) + -cl2 * (U : Int))) + (cl3 - (Q - rnI Q + cl2)) * (U : Int) := by
    have : (xh + xl) * (yh + yl) = Q * (U : Int) + xh * yl + xl * yh + xl * yl := by rw [← hQ]; ring
    rw [this]; ring
  have t1 := abs_add_le (-((xl * yl + -tl0 * (U : Int)) + (xh * yl + tl0 * (U : Int) + -tl1 * (U : Int))
          + (xl * yh + tl1 * (U : Int) + -cl2 * (U : Int)))) ((cl3 - (Q - rnI Q + cl2)) * (U : Int))
  rw [abs_neg, abs_mul (cl3 - (Q - rnI Q + cl2)), abs_of_pos hUi] at t1
  have t2 := abs_add_le ((xl * yl + -tl0 * (U : Int)) + (xh * yl + tl0 * (U : Int) + -tl1 * (U : Int)))
    (xl * yh + tl1 * (U : Int) + -cl2 * (U : Int))
  have t3 := abs_add_le (xl * yl + -tl0 * (U : Int)) (xh * yl + tl0 * (U : Int) + -tl1 * (U : Int))
  have hP : |xh * yh| ≤ |(xh + xl) * (yh + yl)| + |xh * yl| + |xl * yh| + |xl * yl| := by
    have p1 := abs_add_le ((xh + xl) * (yh + yl)) (-(xh * yl + xl * yh + xl * yl))
    have p2 := abs_add_le (xh * yl + xl * yh) (xl * yl)
    have p3 := abs_add_le (xh * yl) (xl * yh)
    rw [abs_neg] at p1
    have e : (xh + xl) * (yh + yl) + -(xh * yl + xl * yh + xl * yl) = xh * yh := by ring
    rw [e] at p1
    linarith
  rw [herr]
  rw [a0] at hP c1a
  rw [a1] at hP n2
  rw [a2] at hP n3
  rw [a3] at hP m0 r1
  generalize |xl * yl + -tl0 * (U : Int)| = D1 at *
  generalize |xh * yl + tl0 * (U : Int) + -tl1 * (U : Int)| = D2 at *
  generalize |xl * yh + tl1 * (U : Int) + -cl2 * (U : Int)| = D3 at *
  generalize |cl3 - (Q - rnI Q + cl2)| * (U : Int) = D4 at *
  generalize |Q - rnI Q| * (U : Int) = C1 at *
  generalize |Q - rnI Q + cl2| * (U : Int) = N4 at *
  generalize |xh * yl + tl0 * (U : Int)| = N2 at *
  generalize |xl * yh + tl1 * (U : Int)| = N3 at *
  generalize |tl0 * (U : Int)| = T0 at *
  generalize |tl1 * (U : Int)| = T1 at *
  generalize |cl2 * (U : Int)| = C2 at *
  generalize |xh| * |yh| = A at *
  generalize |xh| * |yl| = B1 at *
  generalize |xl| * |yh| = B2 at *
  generalize |xl| * |yl| = Z at *
  generalize |xh| * uy = p at *
  generalize ux * |yh| = q at *
  generalize (U : Int) * 2 ^ j = κ at *
  generalize |(xh + xl) * (yh + yl)| = P at *
  have hpow : ∀ hR : RepI Q, 2 ^ 106 * (D1 + D2 + D3 + D4) ≤ 5 * P := by
    intro hR
    obtain ⟨hC0, hD0⟩ := z0 hR
    have hD2 := r2
    have hD3 := r3
    linarith
  rcases dx with hx2 | hx1
  · have := hpow (c0x hx2)
    linarith
  rcases dy with hy2 | hy1
  · have := hpow (c0y hy2)
    linarith
  have hP := hPl hx1 hy1
  rcases lt_or_ge A (2 ^ 107 * κ) with hA | hA
  · have hC1 := c1a hA
    rcases lt_or_ge N4 (2 ^ 55 * κ) with hN | hN
    · have hD4 := r4a hN
      linarith
    · have hD4 := r4b (by linarith)
      linarith
  · have hD4 := r4b (by linarith)
    linarith

end F64

namespace TwoFloat

open F64

/-- **`TwoFloat * TwoFloat` (DWTimesDW3), relative error `≤ 5u²` EXACTLY, wide range**: both high words normal, and
their product of magnitude in `[2^-901, 2^1021)` (scaled `[2^1247, 2^3169)`). -/
theorem mul_tt_bound_5u2_wide {x y : TwoFloat} (hvx : x.Valid) (hwx : x.WF) (hvy : y.Valid) (hwy : y.WF)
    (hx : 2 ^ 53 ≤ |x.hi.toInt|) (hy : 2 ^ 53 ≤ |y.hi.toInt|)
    (hlo : 2 ^ 1247 ≤ |x.hi.toInt * y.hi.toInt|) (hhi : |x.hi.toInt * y.hi.toInt| < 2 ^ 3169) :
    (arithmetic.impl_Mul_rTwoFloat_for_rTwoFloat.mul x y).Valid ∧
    |(arithmetic.impl_Mul_rTwoFloat_for_rTwoFloat.mul x y).V * (unit : Int) - x.V * y.V| * 2 ^ 106
      ≤ 5 * |x.V * y.V| := by
  have hr : x.hi.toInt * y.hi.toInt = 0 ∨
      ((2 : Int) ^ 1188 ≤ |x.hi.toInt * y.hi.toInt| ∧ |x.hi.toInt * y.hi.toInt| < (2 : Int) ^ 3169) :=
    Or.inr ⟨le_trans (pow_le_pow_right₀ (by norm_num) (by norm_num)) hlo, hhi⟩
  obtain ⟨Q, hQ, hV, hval⟩ := mul_tt_values hvx hwx hvy hwy hr
  refine ⟨hV, ?_⟩
  rw [hval]
  obtain ⟨hax, hay, j, hj, hκ⟩ := ulp_prod_of_prod_ge hx hy hlo
  have h := dwtimesdw_err_5u2_exact unit_pos unit_eq hwx.1.repI hwy.1.repI hvx.two_mul_abs_lo_le
    hvy.two_mul_abs_lo_le hax hay hκ hj hQ rfl rfl rfl rfl
  have eP : x.V * y.V = (x.hi.toInt + x.lo.toInt) * (y.hi.toInt + y.lo.toInt) := by unfold TwoFloat.V; ring
  rw [eP, mul_comm _ ((2 : Int) ^ 106)]
  exact h

/-- **C04, `TwoFloat * TwoFloat`: relative error `≤ 5u² = 5·2^-106` exactly** on the property's range (high words of
magnitude in `[2^-450, 2^450]`, scaled `[2^624, 2^1524]`). -/
theorem mul_tt_bound_5u2 {x y : TwoFloat} (hvx : x.Valid) (hwx : x.WF) (hvy : y.Valid) (hwy : y.WF)
    (hx : 2 ^ 624 ≤ x.hi.toInt.natAbs ∧ x.hi.toInt.natAbs ≤ 2 ^ 1524)
    (hy : 2 ^ 624 ≤ y.hi.toInt.natAbs ∧ y.hi.toInt.natAbs ≤ 2 ^ 1524) :
    (arithmetic.impl_Mul_rTwoFloat_for_rTwoFloat.mul x y).Valid ∧
    |(arithmetic.impl_Mul_rTwoFloat_for_rTwoFloat.mul x y).V * (unit : Int) - x.V * y.V| * 2 ^ 106
      ≤ 5 * |x.V * y.V| := by
  have h1 : (2 : Int) ^ 624 ≤ |x.hi.toInt| := by rw [← Int.natCast_natAbs]; exact_mod_cast hx.1
  have h2 : |x.hi.toInt| ≤ (2 : Int) ^ 1524 := by rw [← Int.natCast_natAbs]; exact_mod_cast hx.2
  have h3 : (2 : Int) ^ 624 ≤ |y.hi.toInt| := by rw [← Int.natCast_natAbs]; exact_mod_cast hy.1
  have h4 : |y.hi.toInt| ≤ (2 : Int) ^ 1524 := by rw [← Int.natCast_natAbs]; exact_mod_cast hy.2
  apply mul_tt_bound_5u2_wide hvx hwx hvy hwy
  · exact le_trans (pow_le_pow_right₀ (by norm_num) (by norm_num)) h1
  · exact le_trans (pow_le_pow_right₀ (by norm_num) (by norm_num)) h3
  · rw [abs_mul]
    calc (2 : Int) ^ 1247 ≤ 2 ^ 624 * 2 ^ 624 := by
          rw [← pow_add]; exact pow_le_pow_right₀ (by norm_num) (by norm_num)
      _ ≤ |x.hi.toInt| * |y.hi.toInt| := mul_le_mul h1 h3 (by positivity) (abs_nonneg _)
  · rw [abs_mul]
    calc |x.hi.toInt| * |y.hi.toInt| ≤ 2 ^ 1524 * 2 ^ 1524 := mul_le_mul h2 h4 (abs_nonneg _) (by positivity)
      _ < (2 : Int) ^ 3169 := by
          rw [← pow_add]; exact pow_lt_pow_right₀ (by norm_num) (by norm_num)

end TwoFloat

/-! ## 2. DWDivFP3 (`TwoFloat / f64`) with the paper's constant `3u²`

Joldes–Muller–Popescu 2017, Algorithm 15 / Theorem 4.1.  `T = RN(A·U/B)`, `T·B = Q·U` (2Prod exact), `A − Q` exact,
`δ = A − Q + Al`, `d = RN(δ)`, `tl = RN(d·U/B)`; the error is `(tl·B − d·U) + (d − δ)·U`.  With `ea, eb` the ulps of
`A, B` and `et = 2^54·g` the ulp of the exact quotient there are two exponent configurations
(`F64.div_exponents`): `ea·U = 2^52·et·eb` (quotient mantissa `≥` 1, "H") or `ea·U = 2^53·et·eb` ("L").
* L: `|δ| < ea`, errors `≤ 2^-54 ea` and `≤ 2^-53 et·|B|`; closes with `|A + Al| ≥ (2^52 − 1/4) ea` (`fix_lower`:
  inward low words at a binade boundary are at most a quarter ulp).
* H, `|δ| ≤ ea`: errors `≤ 2^-54 ea`, `≤ 2^-54 et·|B|`; closes with `|A|·eb ≥ |B|·ea`.
* H, `|δ| > ea`: then `B` is not a power of two and the quotient is not exact, hence `|A|·eb ≥ (|B| + eb)·ea`;
  errors `≤ 2^-53 ea`, and `|d·U/B| ≤ et` so the second error is `≤ 2^-54 et·|B|`. -/

namespace F64

open TwoFloat

/-- the error of a rounded quotient, factored by the sign of the numerator -/
theorem rdI_mul_sub (p q : Int) :
    rdI p q * q - p = Int.sign p * (((roundQ p.natAbs q.natAbs : Nat) : Int) * |q| - |p|) := by
  unfold rdI
  have h1 : Int.sign q * q = |q| := Int.sign_mul_self_eq_abs q
  have h2 : Int.sign p * |p| = p := Int.sign_mul_abs p
  calc Int.sign p * Int.sign q * ((roundQ p.natAbs q.natAbs : Nat) : Int) * q - p
      = Int.sign p * ((roundQ p.natAbs q.natAbs : Nat) : Int) * (Int.sign q * q)
          - Int.sign p * |p| := by rw [h2]; ring
    _ = _ := by rw [h1]; ring

/-- a quotient that is representable is computed exactly -/
theorem rdI_exact {p q : Int} {n : Nat} (hq : q ≠ 0) (hn : Rep n) (h : |p| = (n : Int) * |q|) :
    rdI p q * q = p := by
  have hqn : 0 < q.natAbs := Int.natAbs_pos.2 hq
  have e1 : p.natAbs = n * q.natAbs := by
    rw [← Int.natCast_natAbs p, ← Int.natCast_natAbs q] at h; exact_mod_cast h
  have e2 := rdI_mul_sub p q
  rw [e1, roundQ_mul_of_rep hqn hn, h, sub_self, mul_zero] at e2
  linarith

/-- half-ulp error of a rounded quotient of magnitude AT MOST `2^53·2^m` (the power of two itself is exact) -/
theorem rdI_err_cap {p q : Int} {m : Nat} (hq : q ≠ 0) (h : |p| ≤ 2 ^ 53 * (|q| * 2 ^ m)) :
    2 * |rdI p q * q - p| ≤ |q| * 2 ^ m := by
  rcases lt_or_eq_of_le h with h1 | h1
  · have he := rdI_err p hq
    have hqn : 0 < q.natAbs := Int.natAbs_pos.2 hq
    have hk : Nat.log2 (p.natAbs / q.natAbs) - 52 ≤ m := by
      apply log2_sub_le
      rw [Nat.div_lt_iff_lt_mul hqn]
      rw [← Int.natCast_natAbs p, ← Int.natCast_natAbs q] at h1
      have h' : p.natAbs < 2 ^ 53 * (q.natAbs * 2 ^ m) := by exact_mod_cast h1
      calc p.natAbs < 2 ^ 53 * (q.natAbs * 2 ^ m) := h'
        _ = 2 ^ 53 * 2 ^ m * q.natAbs := by ring
    have hp : (2 : Int) ^ (Nat.log2 (p.natAbs / q.natAbs) - 52) ≤ 2 ^ m := pow_le_pow_right₀ (by norm_num) hk
    exact le_trans he (mul_le_mul_of_nonneg_left hp (abs_nonneg q))
  · have := rdI_exact (n := 2 ^ 53 * 2 ^ m) hq (by rw [← Nat.pow_add]; exact rep_two_pow _)
      (by rw [h1]; push_cast; ring)
    rw [this, sub_self, abs_zero, mul_zero]; positivity

/-- closing step: from `ea·U = c·g·eb`, `ea·S ≤ 3·eb·X` and `2^106·E ≤ c·g·S` conclude `2^106·E ≤ 3·X·U` -/
theorem close3 {E X U ea eb g S c : Int} (heb : 0 < eb) (hU : 0 ≤ U) (hrel : ea * U = c * g * eb)
    (hkey : ea * S ≤ 3 * eb * X) (hE : 2 ^ 106 * E ≤ c * g * S) : 2 ^ 106 * E ≤ 3 * X * U := by
  have h1 := mul_le_mul_of_nonneg_right hkey hU
  have h2 := mul_le_mul_of_nonneg_right hE heb.le
  have h3 : c * g * S * eb = ea * S * U := by
    rw [show c * g * S * eb = (c * g * eb) * S by ring, ← hrel]; ring
  have h4 : 2 ^ 106 * E * eb ≤ 3 * X * U * eb := by rw [h3] at h2; linarith
  exact le_of_mul_le_mul_right h4 heb


/-- **DWDivFP3 (Joldes–Muller–Popescu 2017, Algorithm 15, Theorem 4.1) on scaled integers: `3u²`.** -/
theorem divtf_3u2_int {A Al B Q T d tl : Int} {U eA eB m0 u : Nat} (hU : U = 2 ^ u)
    (hfix : A = rnI (A + Al))
    (hA1 : 2 ^ 52 * 2 ^ eA ≤ |A|) (hAd : (2 : Int) ^ eA ∣ A) (heA : 1 ≤ eA)
    (hB1 : 2 ^ 52 * 2 ^ eB ≤ |B|) (hB2 : |B| + 2 ^ eB ≤ 2 ^ 53 * 2 ^ eB) (hBd : (2 : Int) ^ eB ∣ B)
    (hT : T = rdI (A * (U : Int)) B) (hTB : T * B = Q * (U : Int))
    (hres : 2 * (|A - Q| * (U : Int)) ≤ |B| * 2 ^ (m0 + 54))
    (hq1 : 2 ^ 52 * (|B| * 2 ^ (m0 + 54)) ≤ |A| * (U : Int))
    (hexp : eA + u = m0 + 54 + eB + 52 ∨ eA + u = m0 + 54 + eB + 53)
    (hAl : 2 * |Al| ≤ 2 ^ eA)
    (hd : d = rnI (A - Q + Al)) (htl : tl = rdI (d * (U : Int)) B) :
    2 ^ 106 * |(T + tl) * B - (A + Al) * (U : Int)| ≤ 3 * |(A + Al) * (U : Int)| := by
  have hUc : (U : Int) = 2 ^ u := by rw [hU]; norm_cast
  have hUi : (0 : Int) < (U : Int) := by rw [hUc]; positivity
  have pea := two_pow_pos' eA
  have peb := two_pow_pos' eB
  have pg := two_pow_pos' m0
  have hB0 : B ≠ 0 := by
    intro h; rw [h, abs_zero] at hB1
    have := mul_pos (two_pow_pos' 52) peb
    linarith
  have eet : (2 : Int) ^ (m0 + 54) = 2 ^ 54 * 2 ^ m0 := by rw [pow_add]; ring
  have e2g : (2 : Int) ^ (m0 + 1) = 2 * 2 ^ m0 := by rw [pow_succ]; ring
  have e4g : (2 : Int) ^ (m0 + 2) = 4 * 2 ^ m0 := by rw [pow_add]; ring
  have eea : (2 : Int) ^ (eA + 1) = 2 * 2 ^ eA := by rw [pow_succ]; ring
  have h106 : (2 : Int) ^ 106 * 2 ^ m0 * 2 ^ eB = 2 ^ (106 + m0 + eB) := by rw [pow_add, pow_add]
  have h107 : (2 : Int) ^ 107 * 2 ^ m0 * 2 ^ eB = 2 ^ (107 + m0 + eB) := by rw [pow_add, pow_add]
  have hrel : (2 : Int) ^ eA * (U : Int) = 2 ^ 106 * 2 ^ m0 * 2 ^ eB ∨
      (2 : Int) ^ eA * (U : Int) = 2 ^ 107 * 2 ^ m0 * 2 ^ eB := by
    rcases hexp with h | h
    · left; rw [hUc, h106, ← pow_add, h]; congr 1; omega
    · right; rw [hUc, h107, ← pow_add, h]; congr 1; omega
  -- the pair's value is at least a quarter ulp below the binade boundary
  have hFL : (2 ^ 54 - 1) * (2 : Int) ^ eA ≤ 4 * |A + Al| := by
    obtain ⟨k, hk⟩ : ∃ k, eA = k + 1 := ⟨eA - 1, by omega⟩
    have e : (2 : Int) ^ eA = 2 * 2 ^ k := by rw [hk, pow_succ]; ring
    have := fix_lower (e := k) hfix (by rw [e] at hA1; linarith)
    rw [e]; linarith
  -- rounding facts
  have R1 : |A - Q + Al| ≤ 2 ^ eA → 2 ^ 54 * |d - (A - Q + Al)| ≤ 2 ^ eA := by
    intro h; rw [hd]; exact err_le_of_abs_le_pow h
  have R1' : |A - Q + Al| < 2 * 2 ^ eA → 2 ^ 54 * |d - (A - Q + Al)| ≤ 2 * 2 ^ eA := by
    intro h; rw [hd, ← eea]; exact err_le_of_abs_lt_pow (by rw [eea]; exact h)
  have R2 : |A - Q + Al| ≤ 2 ^ eA → |d| ≤ 2 ^ eA := by
    intro h; rw [hd]; exact abs_rnI_le_pow h
  have R3 : |d| * (U : Int) ≤ 2 ^ 53 * (|B| * (4 * 2 ^ m0)) →
      2 * |tl * B - d * (U : Int)| ≤ |B| * (4 * 2 ^ m0) := by
    intro h; rw [htl, ← e4g]; exact rdI_err_cap hB0 (by rw [abs_mul, abs_of_pos hUi, e4g]; exact h)
  have R4 : |d| * (U : Int) ≤ 2 ^ 53 * (|B| * (2 * 2 ^ m0)) →
      2 * |tl * B - d * (U : Int)| ≤ |B| * (2 * 2 ^ m0) := by
    intro h; rw [htl, ← e2g]; exact rdI_err_cap hB0 (by rw [abs_mul, abs_of_pos hUi, e2g]; exact h)
  -- exact quotient
  have X1 : (2 : Int) ^ eA * (U : Int) = 2 ^ 106 * 2 ^ m0 * 2 ^ eB → |A| * 2 ^ eB = |B| * 2 ^ eA →
      |A - Q| = 0 := by
    intro hr he
    have h1 : |A * (U : Int)| = ((2 ^ (106 + m0) : Nat) : Int) * |B| := by
      rw [abs_mul, abs_of_pos hUi]; push_cast; rw [pow_add]
      have : (|A| * (U : Int)) * 2 ^ eB = (2 ^ 106 * 2 ^ m0 * |B|) * 2 ^ eB := by
        calc |A| * (U : Int) * 2 ^ eB = (|A| * 2 ^ eB) * (U : Int) := by ring
          _ = |B| * (2 ^ eA * (U : Int)) := by rw [he]; ring
          _ = _ := by rw [hr]; ring
      exact mul_right_cancel₀ (ne_of_gt peb) this
    have h2 := rdI_exact hB0 (rep_two_pow (106 + m0)) h1
    rw [← hT, hTB] at h2
    have h3 : Q = A := mul_right_cancel₀ (ne_of_gt hUi) h2
    rw [h3, sub_self, abs_zero]
  have DV1 := pow2_or_succ_of_dvd hBd hB1
  have DV2 : |B| * 2 ^ eA ≤ |A| * 2 ^ eB →
      |A| * 2 ^ eB = |B| * 2 ^ eA ∨ |B| * 2 ^ eA + 2 ^ eA * 2 ^ eB ≤ |A| * 2 ^ eB := by
    obtain ⟨m, hm⟩ := hAd
    obtain ⟨n, hn⟩ := hBd
    have ha : |A| = 2 ^ eA * |m| := by rw [hm, abs_mul, abs_of_pos pea]
    have hb : |B| = 2 ^ eB * |n| := by rw [hn, abs_mul, abs_of_pos peb]
    rw [ha, hb]; intro h
    have pp := mul_pos pea peb
    have hmn : |n| ≤ |m| := by
      by_contra hc
      have h1 : |m| + 1 ≤ |n| := by omega
      have := mul_le_mul_of_nonneg_left h1 (le_of_lt pp)
      linarith
    rcases eq_or_lt_of_le hmn with he | hlt
    · left; rw [he]; ring
    · right
      have h1 : |n| + 1 ≤ |m| := by omega
      have := mul_le_mul_of_nonneg_left h1 (le_of_lt pp)
      linarith
  -- triangle inequalities
  have F1 := abs_add_le (A - Q) Al
  have F2 : |A| ≤ |A + Al| + |Al| := by
    have := abs_add_le (A + Al) (-Al)
    rwa [abs_neg, add_neg_cancel_right] at this
  have F3 : |(T + tl) * B - (A + Al) * (U : Int)|
      ≤ |tl * B - d * (U : Int)| + |d - (A - Q + Al)| * (U : Int) := by
    have e : (T + tl) * B - (A + Al) * (U : Int)
        = (tl * B - d * (U : Int)) + (d - (A - Q + Al)) * (U : Int) := by linarith [hTB]
    rw [e]
    have := abs_add_le (tl * B - d * (U : Int)) ((d - (A - Q + Al)) * (U : Int))
    rwa [abs_mul (d - (A - Q + Al)), abs_of_pos hUi] at this
  have F4 : |(A + Al) * (U : Int)| = |A + Al| * (U : Int) := abs_mul_pos_right _ hUi
  have F5 := abs_le_add_abs_sub d (A - Q + Al)
  have n1 := abs_nonneg (A - Q)
  have n2 := abs_nonneg Al
  have n3 := abs_nonneg (d - (A - Q + Al))
  have n4 := abs_nonneg (tl * B - d * (U : Int))
  have n5 := abs_nonneg d
  have n6 := abs_nonneg (A + Al)
  have n7 := abs_nonneg (A - Q + Al)
  rw [F4]
  rw [eet] at hres hq1
  clear hT hTB hd htl hfix hAd hBd F4 eet e2g e4g eea h106 h107 hexp hUc hB0
  generalize |(T + tl) * B - (A + Al) * (U : Int)| = Eabs at *
  generalize |tl * B - d * (U : Int)| = e2 at *
  generalize |d - (A - Q + Al)| = e1 at *
  generalize |A - Q + Al| = dl at *
  generalize |d| = dd at *
  generalize |A - Q| = r at *
  generalize |Al| = l at *
  generalize |A + Al| = X at *
  generalize |A| = a at *
  generalize |B| = b at *
  generalize (2 : Int) ^ eA = ea at *
  generalize (2 : Int) ^ eB = eb at *
  generalize (2 : Int) ^ m0 = g at *
  generalize (U : Int) = Ui at *
  -- product facts
  have pee := mul_pos pea peb
  have pbg := mul_pos peb pg
  have pAe := mul_le_mul_of_nonneg_right hA1 peb.le
  have pBe := mul_le_mul_of_nonneg_right hB1 pea.le
  have pBg := mul_le_mul_of_nonneg_right hB1 pg.le
  have pB2g := mul_le_mul_of_nonneg_right hB2 pg.le
  have pB2e := mul_le_mul_of_nonneg_right hB2 pea.le
  have pLe := mul_le_mul_of_nonneg_right hAl peb.le
  have pXe := mul_le_mul_of_nonneg_right F2 peb.le
  have pFLe := mul_le_mul_of_nonneg_right hFL peb.le
  rcases hrel with hr | hr
  · -- quotient mantissa ≥ 1
    have hab : b * ea ≤ a * eb := by
      have h1 := mul_le_mul_of_nonneg_right hq1 peb.le
      have h3 : b * (ea * Ui) = b * (2 ^ 106 * g * eb) := by rw [hr]
      have : (b * ea) * Ui ≤ (a * eb) * Ui := by linarith
      exact le_of_mul_le_mul_right this hUi
    have s1 : r < ea := by
      have : r * Ui < ea * Ui := by linarith
      exact lt_of_mul_lt_mul_right this hUi.le
    have hdl2 : dl < 2 * ea := by linarith
    rcases le_or_gt dl ea with hdl | hdl
    · have h1 := R1 hdl
      have h2 := R2 hdl
      have h3 := mul_le_mul_of_nonneg_right h2 hUi.le
      have h4 := R4 (by linarith)
      have h5 := mul_le_mul_of_nonneg_right h1 hUi.le
      have key : ea * (b + 2 ^ 52 * eb) ≤ 3 * eb * X := by linarith
      have hE : 2 ^ 106 * Eabs ≤ 2 ^ 106 * g * (b + 2 ^ 52 * eb) := by linarith
      have := close3 peb hUi.le hr key hE
      linarith
    · -- the divisor is not a power of two
      have hb1 : (2 ^ 52 + 1) * eb ≤ b := by
        rcases DV1 with h | h
        · exfalso
          rw [h] at hres
          have : (2 * r) * Ui ≤ ea * Ui := by linarith
          have := le_of_mul_le_mul_right this hUi
          linarith
        · exact h
      -- the quotient is not exact
      have hab1 : b * ea + ea * eb ≤ a * eb := by
        rcases DV2 hab with h | h
        · exfalso
          have := X1 hr h
          linarith
        · exact h
      have h1 := R1' hdl2
      have hr53 : 2 ^ 53 * eb * r ≤ ea * b := by
        have h2 := mul_le_mul_of_nonneg_right hres (show (0 : Int) ≤ 2 ^ 52 * eb by positivity)
        have h3 : b * (ea * Ui) = b * (2 ^ 106 * g * eb) := by rw [hr]
        have : (2 ^ 53 * eb * r) * Ui ≤ (ea * b) * Ui := by linarith
        exact le_of_mul_le_mul_right this hUi
      have pdl := mul_le_mul_of_nonneg_left F1 (show (0 : Int) ≤ 2 ^ 53 * eb by positivity)
      have pe1 := mul_le_mul_of_nonneg_right h1 peb.le
      have pdd := mul_le_mul_of_nonneg_left F5 (show (0 : Int) ≤ 2 ^ 53 * eb by positivity)
      have pb1 := mul_le_mul_of_nonneg_right hb1 pea.le
      have hdd : 2 ^ 52 * eb * dd ≤ ea * b := by linarith
      have hddU : dd * Ui ≤ 2 ^ 53 * (b * (2 * g)) := by
        have h2 := mul_le_mul_of_nonneg_right hdd hUi.le
        have h3 : b * (ea * Ui) = b * (2 ^ 106 * g * eb) := by rw [hr]
        have : (2 ^ 52 * (dd * Ui)) * eb ≤ (2 ^ 106 * (b * g)) * eb := by linarith
        have := le_of_mul_le_mul_right this peb
        linarith
      have h4 := R4 hddU
      have h5 := mul_le_mul_of_nonneg_right h1 hUi.le
      have key : ea * (b + 2 ^ 53 * eb) ≤ 3 * eb * X := by linarith
      have hE : 2 ^ 106 * Eabs ≤ 2 ^ 106 * g * (b + 2 ^ 53 * eb) := by linarith
      have := close3 peb hUi.le hr key hE
      linarith
  · -- quotient mantissa < 1
    have s1 : 2 * r < ea := by
      have : (2 * r) * Ui < ea * Ui := by linarith
      exact lt_of_mul_lt_mul_right this hUi.le
    have hdl : dl ≤ ea := by linarith
    have h1 := R1 hdl
    have h2 := R2 hdl
    have h3 := mul_le_mul_of_nonneg_right h2 hUi.le
    have h4 := R3 (by linarith)
    have h5 := mul_le_mul_of_nonneg_right h1 hUi.le
    have key : ea * (b + 2 ^ 52 * eb) ≤ 3 * eb * X := by linarith
    have hE : 2 ^ 106 * Eabs ≤ 2 ^ 107 * g * (b + 2 ^ 52 * eb) := by linarith
    have := close3 peb hUi.le hr key hE
    linarith

/-- **`TwoFloat / f64` (DWDivFP3), value level, with the paper's constant `3u²`.**  Hypotheses as for
`div_tf_val_partial`: divisor normal, `|x.hi| ≥ 2^-969`, `|x.hi / c| ≥ 2^-954`, no overflow. -/
theorem div_tf_val_3u2 {x : TwoFloat} {c : F64} (hx : x.Valid) (hwx : x.WF) (hc : c.is_finite = true)
    (hwc : c.WF) (hB52 : 2 ^ 52 ≤ c.toInt.natAbs) (hA105 : 2 ^ 105 ≤ x.hi.toInt.natAbs)
    (hA2 : 2 * |x.hi.toInt| ≤ (maxFin : Int))
    (hq : 2 ^ 120 * c.toInt.natAbs ≤ x.hi.toInt.natAbs * unit)
    (hov : 2 * roundQ (x.hi.toInt.natAbs * unit) c.toInt.natAbs ≤ maxFin) :
    (arithmetic.impl_Div_rf64_for_rTwoFloat.div x c).Valid ∧
    2 ^ 106 * |(arithmetic.impl_Div_rf64_for_rTwoFloat.div x c).V * c.toInt - x.V * (unit : Int)|
      ≤ 3 * |x.V * (unit : Int)| := by
  have hUi := unit_pos_int
  have hq52 : 2 ^ 52 * c.toInt.natAbs ≤ x.hi.toInt.natAbs * unit :=
    Nat.le_trans (Nat.mul_le_mul_right _ (by norm_num)) hq
  obtain ⟨Q, hQ, r1, r2, r3, m1, m2, m3, m4, hres⟩ :=
    div_residual_int' unit_eq hwx.1.repI hwc.repI hB52 hA105 hq52
  have hB0 : c.toInt ≠ 0 := by
    intro h; rw [h] at hB52; simp at hB52
  have hbpos : 0 < c.toInt.natAbs := Int.natAbs_pos.2 hB0
  have hAmax := hwx.1.abs_toInt_le
  have hTabs := abs_rdI (x.hi.toInt * (unit : Int)) hB0
  rw [natAbs_mul_natCast] at hTabs
  -- th
  have hth : IsVal (F64.div x.hi c) (rdI (x.hi.toInt * (unit : Int)) c.toInt) :=
    div_spec hx.1 hc hB0 (by rw [natAbs_mul_natCast]; omega)
  -- 2Prod
  have hQmax : rn53 Q.natAbs ≤ maxFin := rn53_natAbs_le_maxFin (by omega)
  have hmul := new_mul_words_of (a := F64.div x.hi c) (b := c) hth.1 hc (Q := Q)
    (by rw [hth.2]; exact hQ) hQmax r1
  have hdh := (IsVal.of_finite hx.1).sub_exact hmul.1 r2 (by omega)
  have e1 : x.hi.toInt - rnI Q - (Q - rnI Q) = x.hi.toInt - Q := by ring
  have hdt := hdh.sub_exact hmul.2 (by rw [e1]; exact r3) (by rw [e1]; omega)
  rw [e1] at hdt
  -- the residual is at most `u |xh|`
  have hexp := roundQ_exp_le hbpos hq52
  have hexp' : (2 : Int) ^ 52 * (|c.toInt| * 2 ^ (Nat.log2 (x.hi.toInt.natAbs * unit / c.toInt.natAbs) - 52))
      ≤ |x.hi.toInt| * (unit : Int) := by
    rw [← Int.natCast_natAbs x.hi.toInt, ← Int.natCast_natAbs c.toInt]; exact_mod_cast hexp
  have hdtb : 2 ^ 53 * |(x.hi.toInt - Q) * (unit : Int)| ≤ |x.hi.toInt * (unit : Int)| := by
    rw [abs_mul_pos_right _ hUi, abs_mul_pos_right _ hUi]
    have h1 := hexp'
    generalize |c.toInt| * (2 : Int) ^ (Nat.log2 (x.hi.toInt.natAbs * unit / c.toInt.natAbs) - 52) = E at *
    omega
  have hxl := two_pow_mul_abs_le_of_half_ulp hx.two_mul_abs_lo_le
  have hdtb' : 2 ^ 53 * |x.hi.toInt - Q| ≤ |x.hi.toInt| := by
    rw [abs_mul_pos_right _ hUi, abs_mul_pos_right _ hUi] at hdtb
    have : (2 ^ 53 * |x.hi.toInt - Q|) * (unit : Int) ≤ |x.hi.toInt| * (unit : Int) := by linarith
    exact le_of_mul_le_mul_right this hUi
  have n0 := abs_nonneg x.hi.toInt
  have hsle : |x.hi.toInt - Q + x.lo.toInt| ≤ |x.hi.toInt| := by
    have := abs_add_le (x.hi.toInt - Q) x.lo.toInt
    omega
  -- d
  have hd := hdt.add (IsVal.of_finite hx.2.1) (by omega)
  have hdle : |rnI (x.hi.toInt - Q + x.lo.toInt)| ≤ |x.hi.toInt| := abs_rnI_le hwx.1.repI hsle
  -- tl
  have hmono : roundQ ((rnI (x.hi.toInt - Q + x.lo.toInt)).natAbs * unit) c.toInt.natAbs
      ≤ roundQ (x.hi.toInt.natAbs * unit) c.toInt.natAbs :=
    roundQ_mono _ hbpos (Nat.mul_le_mul_right _ (natAbs_le_of_abs_le (by rw [Int.natCast_natAbs]; exact hdle)))
  have htl : IsVal (F64.div (F64.add (F64.sub (F64.sub x.hi (TwoFloat.new_mul (F64.div x.hi c) c).hi)
      (TwoFloat.new_mul (F64.div x.hi c) c).lo) x.lo) c)
      (rdI (rnI (x.hi.toInt - Q + x.lo.toInt) * (unit : Int)) c.toInt) := by
    have := div_spec hd.1 hc hB0 (by rw [hd.2, natAbs_mul_natCast]; omega)
    rwa [hd.2] at this
  have htlabs := abs_rdI (rnI (x.hi.toInt - Q + x.lo.toInt) * (unit : Int)) hB0
  rw [natAbs_mul_natCast] at htlabs
  have hle : |rdI (rnI (x.hi.toInt - Q + x.lo.toInt) * (unit : Int)) c.toInt|
      ≤ |rdI (x.hi.toInt * (unit : Int)) c.toInt| := by
    rw [htlabs, hTabs]; exact Int.ofNat_le.2 hmono
  rw [div_tf_eq]
  have hf := fast_two_sum_words hth.1 htl.1 (div_WF _ _) (div_WF _ _)
    (by rw [hth.2, htl.2]; exact hle)
    (by
      rw [hth.2, htl.2]
      apply rn53_natAbs_le_maxFin
      have := abs_add_le (rdI (x.hi.toInt * (unit : Int)) c.toInt)
        (rdI (rnI (x.hi.toInt - Q + x.lo.toInt) * (unit : Int)) c.toInt)
      have h2 : |rdI (x.hi.toInt * (unit : Int)) c.toInt| * 2 ≤ (maxFin : Int) := by
        rw [hTabs]; exact_mod_cast (by omega : roundQ (x.hi.toInt.natAbs * unit) c.toInt.natAbs * 2 ≤ maxFin)
      omega)
  rw [hth.2, htl.2] at hf
  obtain ⟨-, pV, pValid, -⟩ := eft_package hf.1 hf.2 (fast_two_sum_WF _ _).1 (fast_two_sum_WF _ _).2
  refine ⟨pValid, ?_⟩
  rw [pV]
  -- exponent bookkeeping
  have ha52 : 2 ^ 52 ≤ x.hi.toInt.natAbs := Nat.le_trans (by norm_num) hA105
  have hq52' : 2 ^ 52 * c.toInt.natAbs ≤ x.hi.toInt.natAbs * 2 ^ 1074 := by rw [← unit_eq]; exact hq52
  obtain ⟨x1, x2⟩ := div_exponents ha52 hB52 hq52'
  rw [← unit_eq] at x1 x2
  have he68 : 68 ≤ Nat.log2 (x.hi.toInt.natAbs * unit / c.toInt.natAbs) - 52 := by
    have h1 : 2 ^ 120 ≤ x.hi.toInt.natAbs * unit / c.toInt.natAbs :=
      (Nat.le_div_iff_mul_le hbpos).2 hq
    have h2 : 120 ≤ Nat.log2 (x.hi.toInt.natAbs * unit / c.toInt.natAbs) :=
      (Nat.le_log2 (by omega)).2 h1
    omega
  obtain ⟨m0, hm0⟩ : ∃ m0, Nat.log2 (x.hi.toInt.natAbs * unit / c.toInt.natAbs) - 52 = m0 + 54 :=
    ⟨Nat.log2 (x.hi.toInt.natAbs * unit / c.toInt.natAbs) - 52 - 54, by omega⟩
  rw [hm0] at hres hexp' x1 x2
  have hA1 : (2 : Int) ^ 52 * 2 ^ (Nat.log2 x.hi.toInt.natAbs - 52) ≤ |x.hi.toInt| := by
    rw [← Int.natCast_natAbs x.hi.toInt]; exact_mod_cast (log2_sub_spec ha52).1
  have hB1 : (2 : Int) ^ 52 * 2 ^ (Nat.log2 c.toInt.natAbs - 52) ≤ |c.toInt| := by
    rw [← Int.natCast_natAbs c.toInt]; exact_mod_cast (log2_sub_spec hB52).1
  have heA : 1 ≤ Nat.log2 x.hi.toInt.natAbs - 52 := by
    have : 53 ≤ Nat.log2 x.hi.toInt.natAbs - 52 := by
      apply le_ulpexp_of_le_abs
      rw [← pow_add, ← Int.natCast_natAbs x.hi.toInt]; exact_mod_cast hA105
    omega
  have eV : x.V = x.hi.toInt + x.lo.toInt := rfl
  rw [eV]
  exact divtf_3u2_int (u := 1074) unit_eq hx.rnI_eq hA1 hwx.1.repI.ulp_dvd heA hB1 hwc.repI.add_ulp_le
    hwc.repI.ulp_dvd rfl hQ hres hexp' (by omega) hx.two_mul_abs_lo_le rfl rfl

end F64

namespace F64

/-! ## 3. the correctly rounded cube root -/

/-- the bisection of `icbrt` keeps the invariant `acc³ ≤ m < (acc + 2^k)³` -/
theorem icbrt_go_spec (m : Nat) : ∀ k acc : Nat, acc ^ 3 ≤ m → m < (acc + 2 ^ k) ^ 3 →
    (icbrt.go m k acc) ^ 3 ≤ m ∧ m < (icbrt.go m k acc + 1) ^ 3 := by
  intro k
  induction k with
  | zero =>
    intro acc h1 h2
    simp only [icbrt.go]
    exact ⟨h1, by simpa using h2⟩
  | succ k ih =>
    intro acc h1 h2
    simp only [icbrt.go]
    by_cases hc : (acc + 2 ^ k) * (acc + 2 ^ k) * (acc + 2 ^ k) ≤ m
    · rw [if_pos hc]
      apply ih
      · calc (acc + 2 ^ k) ^ 3 = (acc + 2 ^ k) * (acc + 2 ^ k) * (acc + 2 ^ k) := by ring
          _ ≤ m := hc
      · have : acc + 2 ^ k + 2 ^ k = acc + 2 ^ (k + 1) := by rw [pow_succ]; ring
        rw [this]; exact h2
    · rw [if_neg hc]
      apply ih _ h1
      have : (acc + 2 ^ k) ^ 3 = (acc + 2 ^ k) * (acc + 2 ^ k) * (acc + 2 ^ k) := by ring
      rw [this]; omega

/-- `icbrt m` is the floor of the cube root -/
theorem icbrt_spec (m : Nat) : (icbrt m) ^ 3 ≤ m ∧ m < (icbrt m + 1) ^ 3 := by
  unfold icbrt
  apply icbrt_go_spec m _ 0 (by simp)
  rw [Nat.zero_add, ← pow_mul]
  rcases Nat.eq_zero_or_pos m with h0 | hpos
  · subst h0; positivity
  · have h1 : m < 2 ^ (Nat.log2 m + 1) := Nat.lt_log2_self
    refine lt_of_lt_of_le h1 (Nat.pow_le_pow_right (by norm_num) ?_)
    have := Nat.div_add_mod (Nat.log2 m) 3
    have := Nat.mod_lt (Nat.log2 m) (show 3 > 0 by norm_num)
    omega


/-- the rounding core of `F64.cbrt`: nearest-even 53-bit rounding of `∛m` -/
def cbrtRound (m : Nat) : Nat :=
  let r := icbrt m
  let e := Nat.log2 r - 52
  let q := r / 2 ^ e
  let h := (2 * q + 1) * 2 ^ (e - 1)
  let q' := if m > h * h * h then q + 1 else if m < h * h * h then q else (if q % 2 = 0 then q else q + 1)
  q' * 2 ^ e

theorem cbrt_fin (s : Bool) (n : Nat) (hn : n ≠ 0) :
    F64.cbrt (fin s n) = fin s (cbrtRound (n * 2 ^ 2148)) := by
  rw [F64.cbrt, if_neg hn, pow_core_eq 2 2148]
  rfl


/-- the rounding step of `F64.cbrt` on the integer `m = n·2^2148` -/
theorem cbrt_round_nat (m : Nat) (hm : 2 ^ 159 ≤ m) :
    ∃ e0 : Nat, Nat.log2 (icbrt m) - 52 = e0 + 1 ∧
      (∀ q' : Nat,
        q' = (if m > ((2 * (icbrt m / 2 ^ (e0 + 1)) + 1) * 2 ^ e0) * ((2 * (icbrt m / 2 ^ (e0 + 1)) + 1) * 2 ^ e0)
                  * ((2 * (icbrt m / 2 ^ (e0 + 1)) + 1) * 2 ^ e0)
              then icbrt m / 2 ^ (e0 + 1) + 1
              else if m < ((2 * (icbrt m / 2 ^ (e0 + 1)) + 1) * 2 ^ e0) * ((2 * (icbrt m / 2 ^ (e0 + 1)) + 1) * 2 ^ e0)
                  * ((2 * (icbrt m / 2 ^ (e0 + 1)) + 1) * 2 ^ e0)
              then icbrt m / 2 ^ (e0 + 1)
              else (if (icbrt m / 2 ^ (e0 + 1)) % 2 = 0 then icbrt m / 2 ^ (e0 + 1)
                    else icbrt m / 2 ^ (e0 + 1) + 1)) →
        2 ^ 52 ≤ q' ∧ q' ≤ 2 ^ 53 ∧ (2 ^ 53 * 2 ^ e0) ^ 3 ≤ m ∧
          ((2 * q' - 1) * 2 ^ e0) ^ 3 ≤ m ∧ m ≤ ((2 * q' + 1) * 2 ^ e0) ^ 3) := by
  obtain ⟨hs1, hs2⟩ := icbrt_spec m
  have hr53 : 2 ^ 53 ≤ icbrt m := by
    by_contra hc
    have h1 : icbrt m + 1 ≤ 2 ^ 53 := by omega
    have h2 : (icbrt m + 1) ^ 3 ≤ (2 ^ 53) ^ 3 := Nat.pow_le_pow_left h1 3
    have h3 : ((2 : Nat) ^ 53) ^ 3 = 2 ^ 159 := by norm_num
    omega
  obtain ⟨hb1, hb2⟩ := log2_sub_spec (n := icbrt m) (by omega)
  have he1 : 1 ≤ Nat.log2 (icbrt m) - 52 := le_log2_sub (by
    calc 2 ^ 52 * 2 ^ 1 = 2 ^ 53 := by norm_num
      _ ≤ icbrt m := hr53)
  obtain ⟨e0, he0⟩ : ∃ e0, Nat.log2 (icbrt m) - 52 = e0 + 1 := ⟨Nat.log2 (icbrt m) - 52 - 1, by omega⟩
  refine ⟨e0, he0, ?_⟩
  rw [he0] at hb1 hb2
  generalize icbrt m = r at *
  have hE : 2 ^ (e0 + 1) = 2 * 2 ^ e0 := by rw [Nat.pow_succ, Nat.mul_comm]
  have hF : 0 < 2 ^ e0 := Nat.two_pow_pos e0
  rw [hE] at hb1 hb2 ⊢
  generalize 2 ^ e0 = F at *
  have hq1 : r / (2 * F) * (2 * F) ≤ r := Nat.div_mul_le_self r (2 * F)
  have hq2 : r < (r / (2 * F) + 1) * (2 * F) := by
    have := Nat.lt_div_mul_add (a := r) (b := 2 * F) (by omega)
    rw [Nat.add_mul, Nat.one_mul]; exact this
  have hq52 : 2 ^ 52 ≤ r / (2 * F) := by
    rw [Nat.le_div_iff_mul_le (by omega)]; exact hb1
  have hq53 : r / (2 * F) < 2 ^ 53 := by
    rw [Nat.div_lt_iff_lt_mul (by omega)]; exact hb2
  generalize r / (2 * F) = q at *
  -- cubes
  have hlow : (q * (2 * F)) ^ 3 ≤ m := le_trans (Nat.pow_le_pow_left hq1 3) hs1
  have hup : m < ((q + 1) * (2 * F)) ^ 3 :=
    lt_of_lt_of_le hs2 (Nat.pow_le_pow_left (by omega) 3)
  have h53 : (2 ^ 53 * F) ^ 3 ≤ m := by
    have : 2 ^ 53 * F ≤ r := by
      calc 2 ^ 53 * F = 2 ^ 52 * (2 * F) := by ring
        _ ≤ r := hb1
    exact le_trans (Nat.pow_le_pow_left this 3) hs1
  have eA : q * (2 * F) = (2 * q) * F := by ring
  have eB : (q + 1) * (2 * F) = (2 * (q + 1)) * F := by ring
  have eH : ((2 * q + 1) * F) * ((2 * q + 1) * F) * ((2 * q + 1) * F) = ((2 * q + 1) * F) ^ 3 := by ring
  rw [eA] at hlow; rw [eB] at hup; rw [eH]
  have mono : ∀ a b : Nat, a ≤ b → (a * F) ^ 3 ≤ (b * F) ^ 3 := fun a b h =>
    Nat.pow_le_pow_left (Nat.mul_le_mul_right F h) 3
  intro q' hq'
  by_cases c1 : m > ((2 * q + 1) * F) ^ 3
  · rw [if_pos c1] at hq'
    subst hq'
    refine ⟨by omega, by omega, h53, ?_, ?_⟩
    · have : 2 * (q + 1) - 1 = 2 * q + 1 := by omega
      rw [this]; exact Nat.le_of_lt c1
    · exact le_trans (Nat.le_of_lt hup) (mono _ _ (by omega))
  · rw [if_neg c1] at hq'
    by_cases c2 : m < ((2 * q + 1) * F) ^ 3
    · rw [if_pos c2] at hq'
      subst hq'
      refine ⟨by omega, by omega, h53, ?_, Nat.le_of_lt c2⟩
      exact le_trans (mono _ _ (by omega)) hlow
    · rw [if_neg c2] at hq'
      have c3 : m = ((2 * q + 1) * F) ^ 3 := by omega
      by_cases c4 : q % 2 = 0
      · rw [if_pos c4] at hq'
        subst hq'
        refine ⟨by omega, by omega, h53, ?_, Nat.le_of_eq c3⟩
        exact le_trans (mono _ _ (by omega)) hlow
      · rw [if_neg c4] at hq'
        subst hq'
        refine ⟨by omega, by omega, h53, ?_, ?_⟩
        · have : 2 * (q + 1) - 1 = 2 * q + 1 := by omega
          rw [this]; exact Nat.le_of_eq c3.symm
        · exact le_trans (Nat.le_of_lt hup) (mono _ _ (by omega))

theorem cbrtRound_spec (m : Nat) (hm : 2 ^ 159 ≤ m) :
    ∃ q' e0 : Nat, cbrtRound m = q' * 2 ^ (e0 + 1) ∧
      2 ^ 52 ≤ q' ∧ q' ≤ 2 ^ 53 ∧ (2 ^ 53 * 2 ^ e0) ^ 3 ≤ m ∧
      ((2 * q' - 1) * 2 ^ e0) ^ 3 ≤ m ∧ m ≤ ((2 * q' + 1) * 2 ^ e0) ^ 3 := by
  obtain ⟨e0, he0, H⟩ := cbrt_round_nat m hm
  unfold cbrtRound
  simp only []
  rw [he0]
  have e1 : e0 + 1 - 1 = e0 := by omega
  rw [e1]
  exact ⟨_, e0, rfl, H _ rfl⟩

/-- **`F64.cbrt` is correctly rounded** (integer statement): on a non-zero finite input `±n·2^-1074` the result is
`±r`, `r = q'·2^(e+1)` with `2^52 ≤ q' ≤ 2^53` and `(r - 2^e)³ ≤ n·2^2148 ≤ (r + 2^e)³` (`2^e` is half an ulp of `r`),
and `2^53·2^e ≤ ∛(n·2^2148)`. -/
theorem cbrt_spec (s : Bool) (n : Nat) (hn : 0 < n) :
    ∃ q' e0 : Nat, F64.cbrt (fin s n) = fin s (q' * 2 ^ (e0 + 1)) ∧
      2 ^ 52 ≤ q' ∧ q' ≤ 2 ^ 53 ∧ (2 ^ 53 * 2 ^ e0) ^ 3 ≤ n * 2 ^ 2148 ∧
      ((2 * q' - 1) * 2 ^ e0) ^ 3 ≤ n * 2 ^ 2148 ∧ n * 2 ^ 2148 ≤ ((2 * q' + 1) * 2 ^ e0) ^ 3 := by
  have hm : 2 ^ 159 ≤ n * 2 ^ 2148 := by
    calc 2 ^ 159 ≤ 1 * 2 ^ 2148 := by rw [Nat.one_mul]; exact Nat.pow_le_pow_right (by norm_num) (by norm_num)
      _ ≤ n * 2 ^ 2148 := Nat.mul_le_mul_right _ hn
  obtain ⟨q', e0, h1, h2⟩ := cbrtRound_spec (n * 2 ^ 2148) hm
  exact ⟨q', e0, by rw [cbrt_fin s n (by omega), h1], h2⟩

end F64

/-! ## 4. the Newton step of `cbrt` over the reals -/

namespace CbrtReal

open SqrtReal

theorem abs_le_of_sub {a b r : ℝ} (h : |a - b| ≤ r) : |a| ≤ |b| + r := by
  have := abs_add_le b (a - b)
  rw [add_sub_cancel] at this
  linarith

/-- Newton step, stage A: the two products -/
theorem newton_A {η E X P Q : ℝ} (hη0 : 0 < η) (hη : η ≤ 1 / 2 ^ 100)
    (hE0 : 0 ≤ E) (hE : E ≤ 1 / 2 ^ 50)
    (hX : |X - 1| ≤ E)
    (hP : |P - X ^ 2| ≤ 5 * η * X ^ 2)
    (hQ : |Q - P * X| ≤ 5 * η * |P * X|) :
    |X| ≤ 1 + E ∧ 1 - 2 * E ≤ X ^ 2 ∧
    |P - X ^ 2| ≤ (5001 / 1000) * η ∧ |P| ≤ 10001 / 10000 ∧ |Q - P * X| ≤ (5001 / 1000) * η ∧
    |(P - X ^ 2) * X| ≤ (5002 / 1000) * η ∧
    |Q - 1| ≤ (30001 / 10000) * E + (10003 / 1000) * η := by
  obtain ⟨e, rfl⟩ : ∃ e, X = 1 + e := ⟨X - 1, by ring⟩
  have he : |e| ≤ E := by simpa using hX
  obtain ⟨he1, he2⟩ := abs_le.1 he
  have hηE : η * E ≤ η * (1 / 2 ^ 50) := mul_le_mul_of_nonneg_left hE hη0.le
  have hEE : E * E ≤ E * (1 / 2 ^ 50) := mul_le_mul_of_nonneg_left hE hE0
  have hee : e * e ≤ E * E := by
    have := abs_mul_le' he he
    rw [abs_mul_self] at this; exact this
  have he0 : 0 ≤ e * e := mul_self_nonneg e
  have hXa : |1 + e| ≤ 1 + E := by
    have := abs_add_le (1 : ℝ) e; rw [abs_one] at this; linarith
  have hX2u : (1 + e) ^ 2 ≤ 1 + 3 * E := by nlinarith
  have hX2l : 1 - 2 * E ≤ (1 + e) ^ 2 := by nlinarith
  have hd1 : |P - (1 + e) ^ 2| ≤ (5001 / 1000) * η := by
    refine le_trans hP ?_
    have := mul_le_mul_of_nonneg_left hX2u (show (0 : ℝ) ≤ 5 * η by positivity)
    nlinarith
  have hPa : |P| ≤ 10001 / 10000 := by
    have := abs_le_of_sub hd1
    rw [abs_of_nonneg (sq_nonneg (1 + e))] at this
    linarith
  have hPX : |P * (1 + e)| ≤ 10002 / 10000 := by
    have := abs_mul_le' hPa hXa
    nlinarith
  have hd2 : |Q - P * (1 + e)| ≤ (5001 / 1000) * η := by
    refine le_trans hQ ?_
    have := mul_le_mul_of_nonneg_left hPX (show (0 : ℝ) ≤ 5 * η by positivity)
    linarith
  have hT : |(1 + e) ^ 3 - 1| ≤ (30001 / 10000) * E := by
    have e1 : (1 + e) ^ 3 - 1 = e * (3 + 3 * e + e * e) := by ring
    have h2 : |3 + 3 * e + e * e| ≤ 30001 / 10000 := by
      rw [abs_le]; constructor <;> nlinarith
    rw [e1]
    have := abs_mul_le' he h2
    linarith
  have hd1X : |(P - (1 + e) ^ 2) * (1 + e)| ≤ (5002 / 1000) * η := by
    have := abs_mul_le' hd1 hXa
    nlinarith
  refine ⟨hXa, hX2l, hd1, hPa, hd2, hd1X, ?_⟩
  have e1 : Q - 1 = ((1 + e) ^ 3 - 1) + (P - (1 + e) ^ 2) * (1 + e) + (Q - P * (1 + e)) := by ring
  rw [e1]
  have t1 := abs_add_le (((1 + e) ^ 3 - 1) + (P - (1 + e) ^ 2) * (1 + e)) (Q - P * (1 + e))
  have t2 := abs_add_le ((1 + e) ^ 3 - 1) ((P - (1 + e) ^ 2) * (1 + e))
  linarith

/-- Newton step, stage B: numerator, denominator, quotient -/
theorem newton_B {η τ B1 X2 P Q N M K : ℝ} (hη0 : 0 < η) (hη : η ≤ 1 / 2 ^ 100) (hτ0 : 0 ≤ τ)
    (hX2l : 99999 / 100000 ≤ X2)
    (hd1 : |P - X2| ≤ (5001 / 1000) * η) (hPa : |P| ≤ 10001 / 10000)
    (hQ1 : |Q - 1| ≤ B1)
    (hN : |N - (Q - 1)| ≤ (301 / 100) * η * |Q - 1|)
    (hM : |M - 3 * P| ≤ 2 * η * |3 * P|)
    (hK : |N - K * M| ≤ 16 * η * |N| + τ) :
    |N - (Q - 1)| ≤ (301 / 100) * (η * B1) ∧ |M - 3 * X2| ≤ (21004 / 1000) * η ∧
    |N - K * M| ≤ (16002 / 1000) * (η * B1) + τ ∧ |K| ≤ (34 / 100) * (B1 + τ) := by
  have hB0 : 0 ≤ B1 := le_trans (abs_nonneg _) hQ1
  have hηB0 : 0 ≤ η * B1 := mul_nonneg hη0.le hB0
  have h2 : η * B1 ≤ (1 / 2 ^ 100) * B1 := mul_le_mul_of_nonneg_right hη hB0
  have h3 : (1 : ℝ) / 2 ^ 100 ≤ 1 / 10 ^ 9 := by norm_num
  have h4 : (1 / 2 ^ 100) * B1 ≤ (1 / 10 ^ 9) * B1 := mul_le_mul_of_nonneg_right h3 hB0
  have hd3 : |N - (Q - 1)| ≤ (301 / 100) * (η * B1) := by
    refine le_trans hN ?_
    have := mul_le_mul_of_nonneg_left hQ1 (show (0 : ℝ) ≤ (301 / 100) * η by positivity)
    linarith
  have hNa : |N| ≤ (10001 / 10000) * B1 := by
    have := abs_le_of_sub hd3
    linarith
  have hd4 : |M - 3 * P| ≤ (6001 / 1000) * η := by
    refine le_trans hM ?_
    have h1 : |3 * P| ≤ 3 * (10001 / 10000) := by
      rw [abs_mul, abs_of_pos (by norm_num : (0 : ℝ) < 3)]; linarith
    have := mul_le_mul_of_nonneg_left h1 (show (0 : ℝ) ≤ 2 * η by positivity)
    linarith
  have hM3 : |M - 3 * X2| ≤ (21004 / 1000) * η := by
    have e1 : M - 3 * X2 = (M - 3 * P) + 3 * (P - X2) := by ring
    rw [e1]
    have t1 := abs_add_le (M - 3 * P) (3 * (P - X2))
    rw [abs_mul, abs_of_pos (by norm_num : (0 : ℝ) < 3)] at t1
    linarith
  have hMl : 29999 / 10000 ≤ M := by
    have := (abs_le.1 hM3).1
    linarith
  have hd5 : |N - K * M| ≤ (16002 / 1000) * (η * B1) + τ := by
    refine le_trans hK ?_
    have := mul_le_mul_of_nonneg_left hNa (show (0 : ℝ) ≤ 16 * η by positivity)
    linarith
  refine ⟨hd3, hM3, hd5, ?_⟩
  have h1 : |K * M| ≤ (10002 / 10000) * B1 + τ := by
    have e1 : K * M = N - (N - K * M) := by ring
    rw [e1]
    have t := abs_sub (N) (N - K * M)
    linarith
  rw [abs_mul, abs_of_pos (by linarith : (0 : ℝ) < M)] at h1
  have h5 : |K| * (29999 / 10000) ≤ |K| * M := mul_le_mul_of_nonneg_left hMl (abs_nonneg K)
  linarith


/-- Newton step, stage C: the Newton identity and the final subtraction -/
theorem newton_C {η τ E B1 X P Q N M K X' : ℝ} (hη0 : 0 < η) (hη : η ≤ 1 / 2 ^ 100)
    (_hτ0 : 0 ≤ τ) (hτ : τ ≤ η / 1000)
    (hE0 : 0 ≤ E) (hE : E ≤ 1 / 2 ^ 50) (hB0 : 0 ≤ B1) (hB1 : B1 ≤ 1 / 2 ^ 48)
    (hX : |X - 1| ≤ E) (hX2l : 1 - 2 * E ≤ X ^ 2)
    (hd2 : |Q - P * X| ≤ (5001 / 1000) * η) (hd1X : |(P - X ^ 2) * X| ≤ (5002 / 1000) * η)
    (hd3 : |N - (Q - 1)| ≤ (301 / 100) * (η * B1)) (hM3 : |M - 3 * X ^ 2| ≤ (21004 / 1000) * η)
    (hd5 : |N - K * M| ≤ (16002 / 1000) * (η * B1) + τ) (hKa : |K| ≤ (34 / 100) * (B1 + τ))
    (hX' : |X' - (X - K)| ≤ (301 / 100) * η * |X - K|) :
    |X' - 1| ≤ (1001 / 1000) * E ^ 2 + (13 / 2) * η := by
  obtain ⟨e, rfl⟩ : ∃ e, X = 1 + e := ⟨X - 1, by ring⟩
  have he : |e| ≤ E := by simpa using hX
  have hEE0 : 0 ≤ E * E := mul_nonneg hE0 hE0
  have hee : |e * e| ≤ E * E := abs_mul_le' he he
  have heee : |e * e * e| ≤ E * E * E := abs_mul_le' hee he
  have hEEE : E * E * E ≤ (E * E) * (1 / 2 ^ 50) := mul_le_mul_of_nonneg_left hE hEE0
  have hηB : η * B1 ≤ η * (1 / 2 ^ 48) := mul_le_mul_of_nonneg_left hB1 hη0.le
  have hηB0 : 0 ≤ η * B1 := mul_nonneg hη0.le hB0
  have key : 3 * (1 + e) ^ 2 * ((1 + e) - K - 1)
      = 3 * (e * e) + 2 * (e * e * e) - ((P - (1 + e) ^ 2) * (1 + e) + (Q - P * (1 + e)) + (N - (Q - 1)))
        + (N - K * M) + K * (M - 3 * (1 + e) ^ 2) := by ring
  have hKM : |K * (M - 3 * (1 + e) ^ 2)| ≤ (34 / 100) * (B1 + τ) * ((21004 / 1000) * η) := abs_mul_le' hKa hM3
  have hτη : τ * η ≤ (η / 1000) * η := mul_le_mul_of_nonneg_right hτ hη0.le
  have hηη : η * η ≤ η * (1 / 2 ^ 100) := mul_le_mul_of_nonneg_left hη hη0.le
  have h3 : (1 : ℝ) / 2 ^ 50 ≤ 1 / 10 ^ 9 := by norm_num
  have h4 : (1 : ℝ) / 2 ^ 48 ≤ 1 / 10 ^ 9 := by norm_num
  have hW3 : |3 * (1 + e) ^ 2 * ((1 + e) - K - 1)| ≤ (30001 / 10000) * (E * E) + (10006 / 1000) * η := by
    rw [key]
    have t1 := abs_add_le (3 * (e * e) + 2 * (e * e * e) - ((P - (1 + e) ^ 2) * (1 + e) + (Q - P * (1 + e)) + (N - (Q - 1)))
        + (N - K * M)) (K * (M - 3 * (1 + e) ^ 2))
    have t2 := abs_add_le (3 * (e * e) + 2 * (e * e * e) - ((P - (1 + e) ^ 2) * (1 + e) + (Q - P * (1 + e)) + (N - (Q - 1))))
        (N - K * M)
    have t3 := abs_sub (3 * (e * e) + 2 * (e * e * e)) ((P - (1 + e) ^ 2) * (1 + e) + (Q - P * (1 + e)) + (N - (Q - 1)))
    have t4 := abs_add_le (3 * (e * e)) (2 * (e * e * e))
    have t5 := abs_add_le ((P - (1 + e) ^ 2) * (1 + e) + (Q - P * (1 + e))) (N - (Q - 1))
    have t6 := abs_add_le ((P - (1 + e) ^ 2) * (1 + e)) (Q - P * (1 + e))
    rw [abs_mul (3 : ℝ), abs_of_pos (by norm_num : (0 : ℝ) < 3)] at t4
    rw [abs_mul (2 : ℝ), abs_of_pos (by norm_num : (0 : ℝ) < 2)] at t4
    have h10 : (1 : ℝ) / 2 ^ 100 ≤ 1 / 10 ^ 9 := by norm_num
    nlinarith
  -- divide by 3X²
  have hW : |(1 + e) - K - 1| ≤ (10001 / 10000) * (E * E) + (3337 / 1000) * η := by
    rw [abs_mul, abs_of_nonneg (by positivity : (0 : ℝ) ≤ 3 * (1 + e) ^ 2)] at hW3
    have h5 : (3 * (1 - 2 * E)) * |(1 + e) - K - 1| ≤ 3 * (1 + e) ^ 2 * |(1 + e) - K - 1| :=
      mul_le_mul_of_nonneg_right (by linarith) (abs_nonneg _)
    have h6 : E * |(1 + e) - K - 1| ≤ (1 / 10 ^ 9) * |(1 + e) - K - 1| :=
      mul_le_mul_of_nonneg_right (by linarith) (abs_nonneg _)
    have n0 := abs_nonneg ((1 + e) - K - 1)
    nlinarith
  -- final subtraction
  have hXK : |(1 + e) - K| ≤ 10001 / 10000 := by
    have e1 : (1 + e) - K = 1 + ((1 + e) - K - 1) := by ring
    rw [e1]
    have := abs_add_le (1 : ℝ) ((1 + e) - K - 1)
    rw [abs_one] at this
    have h7 : E * E ≤ E * (1 / 2 ^ 50) := mul_le_mul_of_nonneg_left hE hE0
    have h8 : E * (1 / 2 ^ 50) ≤ (1 / 2 ^ 50) * (1 / 2 ^ 50) := mul_le_mul_of_nonneg_right hE (by positivity)
    have h9 : (1 : ℝ) / 2 ^ 50 * (1 / 2 ^ 50) ≤ 1 / 10 ^ 9 := by norm_num
    have h10 : (1 : ℝ) / 2 ^ 100 ≤ 1 / 10 ^ 9 := by norm_num
    linarith
  have hd6 : |X' - ((1 + e) - K)| ≤ (3011 / 1000) * η := by
    refine le_trans hX' ?_
    have := mul_le_mul_of_nonneg_left hXK (show (0 : ℝ) ≤ (301 / 100) * η by positivity)
    linarith
  have e2 : X' - 1 = (X' - ((1 + e) - K)) + ((1 + e) - K - 1) := by ring
  rw [e2]
  have := abs_add_le (X' - ((1 + e) - K)) ((1 + e) - K - 1)
  have e3 : E ^ 2 = E * E := by ring
  rw [e3]
  linarith

/-- **one Newton step `x ↦ x − (x²·x − a)/(3x²)` in double-word arithmetic, normalised by the exact cube root**
(`c = 1`): `X ≈ 1` within `E ≤ 2^-50`; `P ≈ X²`, `Q ≈ P·X` (products, `5η`), `N ≈ Q − 1` (difference, `3.01η`),
`M ≈ 3P` (`2η`), `K ≈ N/M` (`16η`), `X' ≈ X − K` (`3.01η`).  Then `|X' − 1| ≤ 1.001E² + 6.5η`. -/
theorem newton_norm {η τ E X P Q N M K X' : ℝ} (hη0 : 0 < η) (hη : η ≤ 1 / 2 ^ 100)
    (hτ0 : 0 ≤ τ) (hτ : τ ≤ η / 1000)
    (hE0 : 0 ≤ E) (hE : E ≤ 1 / 2 ^ 50)
    (hX : |X - 1| ≤ E)
    (hP : |P - X ^ 2| ≤ 5 * η * X ^ 2)
    (hQ : |Q - P * X| ≤ 5 * η * |P * X|)
    (hN : |N - (Q - 1)| ≤ (301 / 100) * η * |Q - 1|)
    (hM : |M - 3 * P| ≤ 2 * η * |3 * P|)
    (hK : |N - K * M| ≤ 16 * η * |N| + τ)
    (hX' : |X' - (X - K)| ≤ (301 / 100) * η * |X - K|) :
    |X' - 1| ≤ (1001 / 1000) * E ^ 2 + (13 / 2) * η := by
  obtain ⟨hXa, hX2l, hd1, hPa, hd2, hd1X, hQ1⟩ := newton_A hη0 hη hE0 hE hX hP hQ
  have hB1 : (30001 / 10000) * E + (10003 / 1000) * η ≤ 1 / 2 ^ 48 := by
    have h1 : (1 : ℝ) / 2 ^ 100 ≤ (1 / 2 ^ 8) * (1 / 2 ^ 52) := by norm_num
    have h3 : (1 : ℝ) / 2 ^ 50 = 4 * (1 / 2 ^ 52) := by norm_num
    have h4 : (1 : ℝ) / 2 ^ 48 = 16 * (1 / 2 ^ 52) := by norm_num
    have h6 : (0 : ℝ) < 1 / 2 ^ 52 := by positivity
    linarith
  have hB0 : 0 ≤ (30001 / 10000) * E + (10003 / 1000) * η := by positivity
  have hX2l' : (99999 : ℝ) / 100000 ≤ X ^ 2 := by
    have : (1 : ℝ) / 2 ^ 50 ≤ 1 / 10 ^ 9 := by norm_num
    linarith
  obtain ⟨hd3, hM3, hd5, hKa⟩ := newton_B (X2 := X ^ 2) hη0 hη hτ0 hX2l' hd1 hPa hQ1 hN hM hK
  exact newton_C hη0 hη hτ0 hτ hE0 hE hB0 hB1 hX hX2l hd2 hd1X hd3 hM3 hd5 hKa hX'


theorem mul_rel {u v w κ : ℝ} (s : ℝ) (h : |u - v| ≤ κ * |w|) : |u * s - v * s| ≤ κ * |w * s| := by
  have e : u * s - v * s = (u - v) * s := by ring
  rw [e, abs_mul, abs_mul]
  have := mul_le_mul_of_nonneg_right h (abs_nonneg s)
  linarith

/-- **one Newton step on scaled values** (`U = 2^1074`; `xs, ps, … ` are the integer values `t.V` of the pairs, `C` the
scaled cube root, `C³ = as·U²`), hypotheses in the cross-multiplied form delivered by the error bounds of the
double-word operations -/
theorem newton_scaled {η τ E U C xs as ps qs ns ms ks xs' : ℝ} (hη0 : 0 < η) (hη : η ≤ 1 / 2 ^ 100)
    (hτ0 : 0 ≤ τ) (hτ : τ ≤ η / 1000)
    (hE0 : 0 ≤ E) (hE : E ≤ 1 / 2 ^ 50) (hU : 0 < U) (hC : C ≠ 0) (hCa : C ^ 3 = as * U ^ 2)
    (hX : |xs - C| ≤ E * |C|)
    (hP : |ps * U - xs * xs| ≤ 5 * η * |xs * xs|)
    (hQ : |qs * U - ps * xs| ≤ 5 * η * |ps * xs|)
    (hN : |ns - (qs - as)| ≤ (301 / 100) * η * |qs - as|)
    (hM : |ms * U - 3 * U * ps| ≤ 2 * η * |3 * U * ps|)
    (hK : |ns * U - ks * ms| ≤ 16 * η * |ns * U| + τ * (|C| ^ 3 / U))
    (hX' : |xs' - (xs - ks)| ≤ (301 / 100) * η * |xs - ks|) :
    |xs' - C| ≤ ((1001 / 1000) * E ^ 2 + (13 / 2) * η) * |C| := by
  have hU0 : U ≠ 0 := ne_of_gt hU
  have h := newton_norm (X := xs / C) (P := ps * U / C ^ 2) (Q := qs * U ^ 2 / C ^ 3) (N := ns * U ^ 2 / C ^ 3)
    (M := ms * U / C ^ 2) (K := ks / C) (X' := xs' / C) hη0 hη hτ0 hτ hE0 hE
    (by
      have := mul_rel (1 / C) hX
      have e1 : xs * (1 / C) - C * (1 / C) = xs / C - 1 := by field_simp
      have e2 : |C * (1 / C)| = 1 := by rw [mul_one_div_cancel hC, abs_one]
      rw [e1, e2, mul_one] at this
      exact this)
    (by
      have := mul_rel (1 / C ^ 2) hP
      have e1 : ps * U * (1 / C ^ 2) - xs * xs * (1 / C ^ 2) = ps * U / C ^ 2 - (xs / C) ^ 2 := by
        field_simp
      have e2 : |xs * xs * (1 / C ^ 2)| = (xs / C) ^ 2 := by
        have e3 : xs * xs * (1 / C ^ 2) = (xs / C) ^ 2 := by field_simp
        rw [e3, abs_of_nonneg (sq_nonneg _)]
      rw [e1, e2] at this
      exact this)
    (by
      have := mul_rel (U / C ^ 3) hQ
      have e1 : qs * U * (U / C ^ 3) - ps * xs * (U / C ^ 3) = qs * U ^ 2 / C ^ 3 - ps * U / C ^ 2 * (xs / C) := by
        field_simp
      have e2 : ps * xs * (U / C ^ 3) = ps * U / C ^ 2 * (xs / C) := by field_simp
      rw [e1, e2] at this
      exact this)
    (by
      have := mul_rel (U ^ 2 / C ^ 3) hN
      have e3 : (qs - as) * (U ^ 2 / C ^ 3) = qs * U ^ 2 / C ^ 3 - 1 := by
        have : as * U ^ 2 / C ^ 3 = 1 := by rw [← hCa]; field_simp
        rw [sub_mul, mul_div_assoc', mul_div_assoc', this]
      have e1 : ns * (U ^ 2 / C ^ 3) - (qs - as) * (U ^ 2 / C ^ 3) = ns * U ^ 2 / C ^ 3 - (qs * U ^ 2 / C ^ 3 - 1) := by
        rw [e3]; ring
      rw [e1, e3] at this
      exact this)
    (by
      have := mul_rel (1 / C ^ 2) hM
      have e2 : 3 * U * ps * (1 / C ^ 2) = 3 * (ps * U / C ^ 2) := by field_simp
      have e1 : ms * U * (1 / C ^ 2) - 3 * U * ps * (1 / C ^ 2) = ms * U / C ^ 2 - 3 * (ps * U / C ^ 2) := by
        rw [e2]; ring
      rw [e1, e2] at this
      exact this)
    (by
      have hCp : 0 < |C| := abs_pos.2 hC
      have e2 : ns * U * (U / C ^ 3) = ns * U ^ 2 / C ^ 3 := by field_simp
      have e1 : ns * U ^ 2 / C ^ 3 - ks / C * (ms * U / C ^ 2) = (ns * U - ks * ms) * (U / C ^ 3) := by
        field_simp
      have e3 : |U / C ^ 3| = U / |C| ^ 3 := by rw [abs_div, abs_of_pos hU, abs_pow]
      rw [e1, abs_mul, ← e2, abs_mul, e3]
      have := mul_le_mul_of_nonneg_right hK (show 0 ≤ U / |C| ^ 3 by positivity)
      have e4 : τ * (|C| ^ 3 / U) * (U / |C| ^ 3) = τ := by field_simp
      nlinarith [this, e4])
    (by
      have := mul_rel (1 / C) hX'
      have e2 : (xs - ks) * (1 / C) = xs / C - ks / C := by field_simp
      have e1 : xs' * (1 / C) - (xs - ks) * (1 / C) = xs' / C - (xs / C - ks / C) := by
        rw [e2]; ring
      rw [e1, e2] at this
      exact this)
  have hCp : 0 < |C| := abs_pos.2 hC
  have e : xs' - C = (xs' / C - 1) * C := by field_simp
  rw [e, abs_mul]
  exact mul_le_mul_of_nonneg_right h hCp.le

end CbrtReal

/-! ## 5. the double-word operations over the reals -/

namespace CbrtBound

open F64 TwoFloat


/-- `TwoFloat * TwoFloat` over the reals -/
theorem mul_tt_real {x y : TwoFloat} (hvx : x.Valid) (hwx : x.WF) (hvy : y.Valid) (hwy : y.WF)
    (hx : 2 ^ 53 ≤ |x.hi.toInt|) (hy : 2 ^ 53 ≤ |y.hi.toInt|)
    (hlo : 2 ^ 1247 ≤ |x.hi.toInt * y.hi.toInt|) (hhi : |x.hi.toInt * y.hi.toInt| < 2 ^ 3169) :
    (arithmetic.impl_Mul_rTwoFloat_for_rTwoFloat.mul x y).Valid ∧
    (arithmetic.impl_Mul_rTwoFloat_for_rTwoFloat.mul x y).WF ∧
    |((arithmetic.impl_Mul_rTwoFloat_for_rTwoFloat.mul x y).V : ℝ) * 2 ^ 1074 - (x.V : ℝ) * (y.V : ℝ)|
      ≤ 5 * (1 / 2 ^ 106) * |(x.V : ℝ) * (y.V : ℝ)| := by
  obtain ⟨hV, hb⟩ := mul_tt_bound_5u2_wide hvx hwx hvy hwy hx hy hlo hhi
  refine ⟨hV, mul_tt_WF x y, ?_⟩
  have h2 : |((arithmetic.impl_Mul_rTwoFloat_for_rTwoFloat.mul x y).V : ℝ) * ((unit : Nat) : ℝ)
      - (x.V : ℝ) * (y.V : ℝ)| * 2 ^ 106 ≤ 5 * |(x.V : ℝ) * (y.V : ℝ)| := by exact_mod_cast hb
  rw [unit_real] at h2
  have hp : (0 : ℝ) < 2 ^ 106 := by positivity
  rw [show (5 : ℝ) * (1 / 2 ^ 106) * |(x.V : ℝ) * (y.V : ℝ)| = 5 * |(x.V : ℝ) * (y.V : ℝ)| / 2 ^ 106 by ring,
    le_div_iff₀ hp]
  exact h2

/-- `TwoFloat - TwoFloat` over the reals (`3u² + 13u³ ≤ 3.01u²`) -/
theorem sub_tt_real {x y : TwoFloat} (hvx : x.Valid) (hwx : x.WF) (hvy : y.Valid) (hwy : y.WF)
    (bx : |x.hi.toInt| < 2 ^ 2094) (by' : |y.hi.toInt| < 2 ^ 2094) :
    (arithmetic.impl_Sub_rTwoFloat_for_rTwoFloat.sub x y).Valid ∧
    (arithmetic.impl_Sub_rTwoFloat_for_rTwoFloat.sub x y).WF ∧
    |((arithmetic.impl_Sub_rTwoFloat_for_rTwoFloat.sub x y).V : ℝ) - ((x.V : ℝ) - (y.V : ℝ))|
      ≤ (301 / 100) * (1 / 2 ^ 106) * |(x.V : ℝ) - (y.V : ℝ)| := by
  have bx' : x.hi.toInt.natAbs < 2 ^ 2094 := by
    have : ((x.hi.toInt.natAbs : Nat) : Int) < ((2 ^ 2094 : Nat) : Int) := by
      rw [Int.natCast_natAbs]; push_cast; exact bx
    exact_mod_cast this
  have by'' : y.hi.toInt.natAbs < 2 ^ 2094 := by
    have : ((y.hi.toInt.natAbs : Nat) : Int) < ((2 ^ 2094 : Nat) : Int) := by
      rw [Int.natCast_natAbs]; push_cast; exact by'
    exact_mod_cast this
  obtain ⟨hV, hb⟩ := sub_tt_bound hvx hwx hvy hwy bx' by''
  refine ⟨hV, sub_tt_WF x y, ?_⟩
  have h2 : |((arithmetic.impl_Sub_rTwoFloat_for_rTwoFloat.sub x y).V : ℝ) - ((x.V : ℝ) - (y.V : ℝ))| * 2 ^ 159
      ≤ (3 * 2 ^ 53 + 13) * |(x.V : ℝ) - (y.V : ℝ)| := by exact_mod_cast hb
  have hp : (0 : ℝ) < 2 ^ 159 := by positivity
  have n0 := abs_nonneg ((x.V : ℝ) - (y.V : ℝ))
  have h3 : |((arithmetic.impl_Sub_rTwoFloat_for_rTwoFloat.sub x y).V : ℝ) - ((x.V : ℝ) - (y.V : ℝ))|
      ≤ (3 * 2 ^ 53 + 13) * |(x.V : ℝ) - (y.V : ℝ)| / 2 ^ 159 := by
    rw [le_div_iff₀ hp]; exact h2
  refine le_trans h3 ?_
  rw [div_le_iff₀ hp]
  have : ((3 : ℝ) * 2 ^ 53 + 13) ≤ (301 / 100) * (1 / 2 ^ 106) * 2 ^ 159 := by norm_num
  nlinarith

/-- `f64 * TwoFloat` over the reals -/
theorem mul_ft_real {x : TwoFloat} {f : F64} (hv : x.Valid) (hw : x.WF)
    (hff : f.is_finite = true) (hwf : f.WF)
    (hr : (2 : Int) ^ 1188 ≤ |x.hi.toInt * f.toInt| ∧ |x.hi.toInt * f.toInt| < (2 : Int) ^ 3169) :
    (arithmetic.impl_Mul_rTwoFloat_for_rf64.mul f x).Valid ∧
    (arithmetic.impl_Mul_rTwoFloat_for_rf64.mul f x).WF ∧
    |((arithmetic.impl_Mul_rTwoFloat_for_rf64.mul f x).V : ℝ) * 2 ^ 1074 - (f.toInt : ℝ) * (x.V : ℝ)|
      ≤ 2 * (1 / 2 ^ 106) * |(f.toInt : ℝ) * (x.V : ℝ)| := by
  obtain ⟨hV, hb⟩ := mul_ft_bound hv hw hff hwf (Or.inr hr)
  refine ⟨hV, fast_two_sum_WF _ _, ?_⟩
  have h2 : |((arithmetic.impl_Mul_rTwoFloat_for_rf64.mul f x).V : ℝ) * ((unit : Nat) : ℝ)
      - (f.toInt : ℝ) * (x.V : ℝ)| * 2 ^ 105 ≤ |(f.toInt : ℝ) * (x.V : ℝ)| := by exact_mod_cast hb
  rw [unit_real] at h2
  have hp : (0 : ℝ) < 2 ^ 105 := by positivity
  have h3 : |((arithmetic.impl_Mul_rTwoFloat_for_rf64.mul f x).V : ℝ) * 2 ^ 1074 - (f.toInt : ℝ) * (x.V : ℝ)|
      ≤ |(f.toInt : ℝ) * (x.V : ℝ)| / 2 ^ 105 := by
    rw [le_div_iff₀ hp]; exact h2
  refine le_trans h3 (le_of_eq ?_)
  rw [show (2 : ℝ) ^ 106 = 2 * 2 ^ 105 by norm_num]
  field_simp

/-- `TwoFloat / TwoFloat` over the reals -/
theorem div_tt_real {a b : TwoFloat} (ha : a.Valid) (hwa : a.WF) (hb : b.Valid)
    (R : DivRange a.hi.toInt b.hi.toInt)
    (hB : 2 ^ 110 * |b.hi.toInt| ≤ |a.hi.toInt * (unit : Int)|) (hA : 2 ^ 110 ≤ |a.hi.toInt|) :
    (arithmetic.impl_Div_rTwoFloat_for_rTwoFloat.div a b).Valid ∧
    (arithmetic.impl_Div_rTwoFloat_for_rTwoFloat.div a b).WF ∧
    |(a.V : ℝ) * 2 ^ 1074 - ((arithmetic.impl_Div_rTwoFloat_for_rTwoFloat.div a b).V : ℝ) * (b.V : ℝ)|
      ≤ 16 * (1 / 2 ^ 106) * |(a.V : ℝ) * 2 ^ 1074| := by
  obtain ⟨hV, hW⟩ := div_tt_valid_of_range ha hwa hb R
  refine ⟨hV, hW, ?_⟩
  have hb' := div_tt_acc ha hwa hb R hB hA
  have h2 : 2 ^ 102 * |(a.V : ℝ) * ((unit : Nat) : ℝ)
      - ((arithmetic.impl_Div_rTwoFloat_for_rTwoFloat.div a b).V : ℝ) * (b.V : ℝ)|
      ≤ |(a.V : ℝ) * ((unit : Nat) : ℝ)| := by exact_mod_cast hb'
  rw [unit_real] at h2
  have hp : (0 : ℝ) < 2 ^ 102 := by positivity
  have h3 : |(a.V : ℝ) * 2 ^ 1074 - ((arithmetic.impl_Div_rTwoFloat_for_rTwoFloat.div a b).V : ℝ) * (b.V : ℝ)|
      ≤ |(a.V : ℝ) * 2 ^ 1074| / 2 ^ 102 := by
    rw [le_div_iff₀ hp, mul_comm]; exact h2
  refine le_trans h3 (le_of_eq ?_)
  rw [show (2 : ℝ) ^ 106 = 16 * 2 ^ 102 by norm_num]
  field_simp

/-- high word against value, over the reals -/
theorem hi_real {t : TwoFloat} (hv : t.Valid) :
    (1 - 1 / 2 ^ 53) * |(t.hi.toInt : ℝ)| ≤ |(t.V : ℝ)| ∧ |(t.V : ℝ)| ≤ (1 + 1 / 2 ^ 53) * |(t.hi.toInt : ℝ)| := by
  obtain ⟨h1, h2⟩ := PowiBound.hi_bounds hv
  have c1 : (2 ^ 53 - 1) * |(t.hi.toInt : ℝ)| ≤ 2 ^ 53 * |(t.V : ℝ)| := by exact_mod_cast h1
  have c2 : 2 ^ 53 * |(t.V : ℝ)| ≤ (2 ^ 53 + 1) * |(t.hi.toInt : ℝ)| := by exact_mod_cast h2
  constructor
  · have : (1 - 1 / 2 ^ 53) * |(t.hi.toInt : ℝ)| = (2 ^ 53 - 1) * |(t.hi.toInt : ℝ)| / 2 ^ 53 := by
      field_simp
    rw [this, div_le_iff₀ (by positivity)]; linarith
  · have : (1 + 1 / 2 ^ 53) * |(t.hi.toInt : ℝ)| = (2 ^ 53 + 1) * |(t.hi.toInt : ℝ)| / 2 ^ 53 := by
      field_simp
    rw [this, le_div_iff₀ (by positivity)]; linarith

end CbrtBound
