/-
Lemmas.Bounds — the numerical error bounds of the double-word operators (properties C03 / C04), on scaled
integers and on the generated model.

 1. rounding-error helpers (`err_le_of_abs_le_pow`, `half_ulp_of_fix`, `fix_lower`);
 2. `dwplusfp_err`: DWPlusFP (Joldes–Muller–Popescu 2017, Alg. 4, Thm 2.2), relative error `≤ 2u² = 2^-105`,
    as a statement about integers;
 3. the model-level theorems for `TwoFloat ± f64`, `f64 ± TwoFloat`;
 4. `dwtimesfp_err`: DWTimesFP3 (Alg. 9), relative error `≤ 2u²`, and the model-level theorems.
-/
import TFV.Lemmas.Inv
import TFV.Lemmas.ArithExact

set_option exponentiation.threshold 3000

namespace F64

/-! ## 1. helpers -/

/-- rounding error of a number below `2^m`: at most `2^(m-54)` -/
theorem err_le_of_abs_lt_pow {w : Int} {m : Nat} (h : |w| < 2 ^ m) : 2 ^ 54 * |rnI w - w| ≤ 2 ^ m := by
  have he := two_mul_abs_rnI_sub_le w
  rcases Nat.lt_or_ge m 53 with hm | hm
  · have h53 : |w| < 2 ^ 53 :=
      lt_of_lt_of_le h (pow_le_pow_right₀ (by norm_num) (by omega))
    have hn : w.natAbs < 2 ^ 53 := by
      rw [← Int.natCast_natAbs w] at h53; exact_mod_cast h53
    rw [log2_sub_eq_zero hn] at he
    have h0 : |rnI w - w| = 0 := by
      have := abs_nonneg (rnI w - w)
      simp only [pow_zero, Nat.cast_one] at he
      omega
    rw [h0]; positivity
  · obtain ⟨j, rfl⟩ : ∃ j, m = 53 + j := ⟨m - 53, by omega⟩
    have hk := ulpexp_le_of_abs_lt (z := w) (e := j) (by rwa [← pow_add])
    have hp : (2 : Int) ^ (Nat.log2 w.natAbs - 52) ≤ 2 ^ j := pow_le_pow_right₀ (by norm_num) hk
    push_cast at he
    rw [pow_add]
    omega

/-- rounding error of a number of magnitude at most `2^m`: at most `2^(m-54)` -/
theorem err_le_of_abs_le_pow {w : Int} {m : Nat} (h : |w| ≤ 2 ^ m) : 2 ^ 54 * |rnI w - w| ≤ 2 ^ m := by
  rcases lt_or_eq_of_le h with h1 | h1
  · exact err_le_of_abs_lt_pow h1
  · have hr : RepI w := by
      have h2 := repI_two_pow m
      rcases abs_cases w with ⟨e, _⟩ | ⟨e, _⟩
      · rw [e] at h1; rw [h1]; exact h2
      · rw [e] at h1
        have : w = -(2 ^ m) := by omega
        rw [this]; exact h2.neg
    rw [rnI_of_repI hr, sub_self, abs_zero]
    positivity

/-- the half-ulp bound of a normalised pair, on integers -/
theorem half_ulp_of_fix {h l : Int} (hfix : h = rnI (h + l)) :
    2 * |l| ≤ 2 ^ (Nat.log2 h.natAbs - 52) := by
  have he := two_mul_abs_rnI_sub_le (h + l)
  have hn : h.natAbs = rn53 (h + l).natAbs := by
    conv_lhs => rw [hfix]
    exact natAbs_rnI _
  have hm := log2_le_log2_rn53 (h + l).natAbs
  rw [← hn] at hm
  have hp : (2 : Int) ^ (Nat.log2 (h + l).natAbs - 52) ≤ 2 ^ (Nat.log2 h.natAbs - 52) :=
    pow_le_pow_right₀ (by norm_num) (by omega)
  have e : rnI (h + l) - (h + l) = -l := by rw [← hfix]; ring
  rw [e, abs_neg, Int.natCast_pow] at he
  exact le_trans he hp

/-- a rounded value of magnitude at least `2^52·2^e` whenever the argument has ulp exponent `e ≠ 0` -/
theorem ulp_mul_le_abs_rnI {v : Int} (h : Nat.log2 v.natAbs - 52 ≠ 0) :
    2 ^ 52 * 2 ^ (Nat.log2 v.natAbs - 52) ≤ |rnI v| := by
  have hlw := ulp_mul_le_abs h
  have hr : RepI ((2 : Int) ^ 52 * 2 ^ (Nat.log2 v.natAbs - 52)) := by
    rw [← pow_add]
    exact repI_two_pow _
  have := le_abs_rnI (v := v) hr (by rw [abs_of_pos (by positivity)]; exact hlw)
  rwa [abs_of_pos (by positivity)] at this

/-- representability of `(2^53 - 1)·2^e` -/
theorem repI_pred_pow (e : Nat) : RepI ((2 ^ 53 - 1) * (2 : Int) ^ e) := by
  have h := rep_mul_pow_of_lt (m := 2 ^ 53 - 1) e (by norm_num)
  have := repI_natCast.2 h
  push_cast at this
  exact this

/-- if the high word of a normalised pair has magnitude at least `2^53·T` (`T = 2^e`), the pair's value is at
least `2^53·T - T/2` in magnitude: a low word cannot reach below the midpoint under a binade boundary -/
theorem fix_lower {xh xl : Int} {e : Nat} (hfix : xh = rnI (xh + xl)) (hx : 2 ^ 53 * 2 ^ e ≤ |xh|) :
    2 ^ 54 * 2 ^ e - 2 ^ e ≤ 2 * |xh + xl| := by
  have hc := repI_pred_pow e
  have h1 := rnI_nearest (xh + xl) hc
  have h2 := rnI_nearest (xh + xl) hc.neg
  rw [← hfix] at h1 h2
  have hT := two_pow_pos' e
  generalize (2 : Int) ^ e = T at *
  rcases abs_cases xh with ⟨e1, _⟩ | ⟨e1, _⟩ <;>
  rcases abs_cases (xh - (xh + xl)) with ⟨e2, _⟩ | ⟨e2, _⟩ <;>
  rcases abs_cases ((2 ^ 53 - 1) * T - (xh + xl)) with ⟨e3, _⟩ | ⟨e3, _⟩ <;>
  rcases abs_cases (-((2 ^ 53 - 1) * T) - (xh + xl)) with ⟨e4, _⟩ | ⟨e4, _⟩ <;>
  rcases abs_cases (xh + xl) with ⟨e5, _⟩ | ⟨e5, _⟩ <;>
  rw [e1] at hx <;> rw [e2, e3] at h1 <;> rw [e2, e4] at h2 <;> rw [e5] <;> omega

/-! ## 2. DWPlusFP on integers -/

/-- **DWPlusFP (Joldes–Muller–Popescu 2017, Algorithm 4, Theorem 2.2), scaled integers.**
`(xh, xl)` a normalised pair, `f` a double, `s = RN(xh + f)`, `sl = xh + f - s` (2Sum), `v = RN(xl + sl)`: the
rounding error of `v` — which is the total error of the algorithm, Fast2Sum being exact — is at most
`2u² = 2^-105` times the exact sum. -/
theorem dwplusfp_err {xh xl f : Int} (hxh : RepI xh) (hf : RepI f) (hxl : RepI xl)
    (hfix : xh = rnI (xh + xl)) :
    2 ^ 105 * |rnI (xl + (xh + f - rnI (xh + f))) - (xl + (xh + f - rnI (xh + f)))| ≤ |xh + xl + f| := by
  by_cases he : xh + f - rnI (xh + f) = 0
  · rw [he, add_zero, rnI_of_repI hxl, sub_self, abs_zero, mul_zero]
    exact abs_nonneg _
  · have hnr : ¬ RepI (xh + f) := fun hr => he (by rw [rnI_of_repI hr]; ring)
    have hew : Nat.log2 (xh + f).natAbs - 52 ≠ 0 := by
      intro h0
      apply hnr
      apply repI_of_dvd_ulp (k := 0) (by simp) (by omega)
    have hl := half_ulp_of_fix hfix
    have dx := hxh.ulp_dvd
    have df := hf.ulp_dvd
    have bf := hf.add_ulp_le
    have lx := @ulp_mul_le_abs xh
    have bw := abs_lt_ulp_mul (xh + f)
    have hS := ulp_mul_le_abs_rnI hew
    have ew := two_mul_abs_rnI_sub_le (xh + f)
    rw [abs_sub_comm] at ew
    push_cast at ew
    have pT := two_pow_pos' (Nat.log2 (xh + f).natAbs - 52)
    -- the exact sum is `s + w`
    have hSum : xh + xl + f = rnI (xh + f) + (xl + (xh + f - rnI (xh + f))) := by ring
    have htri := abs_add_le xl (xh + f - rnI (xh + f))
    rcases le_or_gt (2 * |xl|) (2 ^ (Nat.log2 (xh + f).natAbs - 52)) with hc | hc
    · -- B1: the low word is below half an ulp of the sum
      have hw : |xl + (xh + f - rnI (xh + f))| ≤ 2 ^ (Nat.log2 (xh + f).natAbs - 52) := by omega
      have herr := err_le_of_abs_le_pow hw
      have h3 : |rnI (xh + f)| ≤ |xh + xl + f| + |xl + (xh + f - rnI (xh + f))| := by
        have := abs_add_le (xh + xl + f) (-(xl + (xh + f - rnI (xh + f))))
        rw [abs_neg] at this
        have e : xh + xl + f + -(xl + (xh + f - rnI (xh + f))) = rnI (xh + f) := by ring
        rwa [e] at this
      generalize (2 : Int) ^ (Nat.log2 (xh + f).natAbs - 52) = T at *
      omega
    · -- B2: cancellation by exactly one binade; `ulp xh = 2 ulp (xh + f)`
      have hae : Nat.log2 (xh + f).natAbs - 52 < Nat.log2 xh.natAbs - 52 := by
        by_contra hcon
        have : (2 : Int) ^ (Nat.log2 xh.natAbs - 52) ≤ 2 ^ (Nat.log2 (xh + f).natAbs - 52) :=
          pow_le_pow_right₀ (by norm_num) (by omega)
        omega
      have h2a := two_mul_pow_le_of_lt hae
      have hlx := lx (by omega)
      have hbe : Nat.log2 f.natAbs - 52 < Nat.log2 (xh + f).natAbs - 52 := by
        by_contra hcon
        apply hnr
        apply repI_of_dvd_ulp (k := Nat.log2 (xh + f).natAbs - 52) _ (le_refl _)
        exact dvd_add (dvd_trans (pow_dvd_pow 2 (by omega)) dx) (dvd_trans (pow_dvd_pow 2 (by omega)) df)
      have h2b := two_mul_pow_le_of_lt hbe
      have pB := two_pow_pos' (Nat.log2 f.natAbs - 52)
      have hxw : |xh| ≤ |xh + f| + |f| := by
        have := abs_add_le (xh + f) (-f)
        rwa [abs_neg, add_neg_cancel_right] at this
      -- `ulp xh ≤ 2 ulp (xh + f)`
      have hae2 : Nat.log2 xh.natAbs - 52 ≤ Nat.log2 (xh + f).natAbs - 52 + 1 := by
        apply ulpexp_le_of_abs_lt
        rw [pow_succ]
        omega
      have h2c : (2 : Int) ^ (Nat.log2 xh.natAbs - 52) ≤ 2 ^ (Nat.log2 (xh + f).natAbs - 52 + 1) :=
        pow_le_pow_right₀ (by norm_num) hae2
      rw [pow_succ] at h2c
      have hw : |xl + (xh + f - rnI (xh + f))| < 2 ^ (Nat.log2 (xh + f).natAbs - 52 + 1) := by
        rw [pow_succ]; omega
      have herr := err_le_of_abs_lt_pow hw
      rw [pow_succ] at herr
      have hx53 : 2 ^ 53 * 2 ^ (Nat.log2 (xh + f).natAbs - 52) ≤ |xh| := by omega
      have hfl := fix_lower hfix hx53
      have h3 : |xh + xl| ≤ |xh + xl + f| + |f| := by
        have := abs_add_le (xh + xl + f) (-f)
        rwa [abs_neg, add_neg_cancel_right] at this
      generalize (2 : Int) ^ (Nat.log2 (xh + f).natAbs - 52) = T at *
      generalize (2 : Int) ^ (Nat.log2 f.natAbs - 52) = B at *
      trace_state
      omega

end F64
