/-
Lemmas.Bounds — the numerical error bounds of the double-word operators (properties C03 / C04), on scaled
integers and on the generated model.

 1. rounding-error helpers (`err_le_of_abs_le_pow`, `half_ulp_of_fix`, `fix_lower`);
 2. `dwplusfp_err`: DWPlusFP (Joldes–Muller–Popescu 2017, Alg. 4, Thm 2.2), relative error `≤ 2u² = 2^-105`,
    as a statement about integers;
 3. the model-level theorems for `TwoFloat ± f64`, `f64 ± TwoFloat`;
 4. `dwtimesfp_err`: DWTimesFP3 (Alg. 9), relative error `≤ 2u²`, and the model-level theorems.
-/
import TFV.Lemmas.Inv
import TFV.Lemmas.ArithExact

set_option exponentiation.threshold 3000

namespace F64

/-! ## 1. helpers -/

/-- rounding error of a number below `2^m`: at most `2^(m-54)` -/
theorem err_le_of_abs_lt_pow {w : Int} {m : Nat} (h : |w| < 2 ^ m) : 2 ^ 54 * |rnI w - w| ≤ 2 ^ m := by
  have he := two_mul_abs_rnI_sub_le w
  rcases Nat.lt_or_ge m 53 with hm | hm
  · have h53 : |w| < 2 ^ 53 :=
      lt_of_lt_of_le h (pow_le_pow_right₀ (by norm_num) (by omega))
    have hn : w.natAbs < 2 ^ 53 := by
      rw [← Int.natCast_natAbs w] at h53; exact_mod_cast h53
    rw [log2_sub_eq_zero hn] at he
    have h0 : |rnI w - w| = 0 := by
      have := abs_nonneg (rnI w - w)
      simp only [pow_zero, Nat.cast_one] at he
      omega
    rw [h0]; positivity
  · obtain ⟨j, rfl⟩ : ∃ j, m = 53 + j := ⟨m - 53, by omega⟩
    have hk := ulpexp_le_of_abs_lt (z := w) (e := j) (by rwa [← pow_add])
    have hp : (2 : Int) ^ (Nat.log2 w.natAbs - 52) ≤ 2 ^ j := pow_le_pow_right₀ (by norm_num) hk
    push_cast at he
    rw [pow_add]
    omega

/-- rounding error of a number of magnitude at most `2^m`: at most `2^(m-54)` -/
theorem err_le_of_abs_le_pow {w : Int} {m : Nat} (h : |w| ≤ 2 ^ m) : 2 ^ 54 * |rnI w - w| ≤ 2 ^ m := by
  rcases lt_or_eq_of_le h with h1 | h1
  · exact err_le_of_abs_lt_pow h1
  · have hr : RepI w := by
      have h2 := repI_two_pow m
      rcases abs_cases w with ⟨e, _⟩ | ⟨e, _⟩
      · rw [e] at h1; rw [h1]; exact h2
      · rw [e] at h1
        have : w = -(2 ^ m) := by omega
        rw [this]; exact h2.neg
    rw [rnI_of_repI hr, sub_self, abs_zero]
    positivity

/-- the half-ulp bound of a normalised pair, on integers -/
theorem half_ulp_of_fix {h l : Int} (hfix : h = rnI (h + l)) :
    2 * |l| ≤ 2 ^ (Nat.log2 h.natAbs - 52) := by
  have he := two_mul_abs_rnI_sub_le (h + l)
  have hn : h.natAbs = rn53 (h + l).natAbs := by
    conv_lhs => rw [hfix]
    exact natAbs_rnI _
  have hm := log2_le_log2_rn53 (h + l).natAbs
  rw [← hn] at hm
  have hp : (2 : Int) ^ (Nat.log2 (h + l).natAbs - 52) ≤ 2 ^ (Nat.log2 h.natAbs - 52) :=
    pow_le_pow_right₀ (by norm_num) (by omega)
  have e : rnI (h + l) - (h + l) = -l := by rw [← hfix]; ring
  rw [e, abs_neg, Int.natCast_pow] at he
  exact le_trans he hp

/-- a rounded value of magnitude at least `2^52·2^e` whenever the argument has ulp exponent `e ≠ 0` -/
theorem ulp_mul_le_abs_rnI {v : Int} (h : Nat.log2 v.natAbs - 52 ≠ 0) :
    2 ^ 52 * 2 ^ (Nat.log2 v.natAbs - 52) ≤ |rnI v| := by
  have hlw := ulp_mul_le_abs h
  have hr : RepI ((2 : Int) ^ 52 * 2 ^ (Nat.log2 v.natAbs - 52)) := by
    rw [← pow_add]
    exact repI_two_pow _
  have := le_abs_rnI (v := v) hr (by rw [abs_of_pos (by positivity)]; exact hlw)
  rwa [abs_of_pos (by positivity)] at this

/-- representability of `(2^53 - 1)·2^e` -/
theorem repI_pred_pow (e : Nat) : RepI ((2 ^ 53 - 1) * (2 : Int) ^ e) := by
  have h := rep_mul_pow_of_lt (m := 2 ^ 53 - 1) e (by norm_num)
  have := repI_natCast.2 h
  push_cast at this
  exact this

/-- if the high word of a normalised pair has magnitude at least `2^53·T` (`T = 2^e`), the pair's value is at
least `2^53·T - T/2` in magnitude: a low word cannot reach below the midpoint under a binade boundary -/
theorem fix_lower {xh xl : Int} {e : Nat} (hfix : xh = rnI (xh + xl)) (hx : 2 ^ 53 * 2 ^ e ≤ |xh|) :
    2 ^ 54 * 2 ^ e - 2 ^ e ≤ 2 * |xh + xl| := by
  have hc := repI_pred_pow e
  have h1 := rnI_nearest (xh + xl) hc
  have h2 := rnI_nearest (xh + xl) hc.neg
  rw [← hfix] at h1 h2
  have hT := two_pow_pos' e
  generalize (2 : Int) ^ e = T at *
  rcases abs_cases xh with ⟨e1, _⟩ | ⟨e1, _⟩ <;>
  rcases abs_cases (xh - (xh + xl)) with ⟨e2, _⟩ | ⟨e2, _⟩ <;>
  rcases abs_cases ((2 ^ 53 - 1) * T - (xh + xl)) with ⟨e3, _⟩ | ⟨e3, _⟩ <;>
  rcases abs_cases (-((2 ^ 53 - 1) * T) - (xh + xl)) with ⟨e4, _⟩ | ⟨e4, _⟩ <;>
  rcases abs_cases (xh + xl) with ⟨e5, _⟩ | ⟨e5, _⟩ <;>
  rw [e1] at hx <;> rw [e2, e3] at h1 <;> rw [e2, e4] at h2 <;> rw [e5] <;> omega

/-! ## 2. DWPlusFP on integers -/

/-- **DWPlusFP (Joldes–Muller–Popescu 2017, Algorithm 4, Theorem 2.2), scaled integers.**
`(xh, xl)` a normalised pair, `f` a double, `s = RN(xh + f)`, `sl = xh + f - s` (2Sum), `v = RN(xl + sl)`: the
rounding error of `v` — which is the total error of the algorithm, Fast2Sum being exact — is at most
`2u² = 2^-105` times the exact sum. -/
theorem dwplusfp_err {xh xl f : Int} (hxh : RepI xh) (hf : RepI f) (hxl : RepI xl)
    (hfix : xh = rnI (xh + xl)) :
    2 ^ 105 * |rnI (xl + (xh + f - rnI (xh + f))) - (xl + (xh + f - rnI (xh + f)))| ≤ |xh + xl + f| := by
  by_cases he : xh + f - rnI (xh + f) = 0
  · rw [he, add_zero, rnI_of_repI hxl, sub_self, abs_zero, mul_zero]
    exact abs_nonneg _
  · have hnr : ¬ RepI (xh + f) := fun hr => he (by rw [rnI_of_repI hr]; ring)
    have hew : Nat.log2 (xh + f).natAbs - 52 ≠ 0 := by
      intro h0
      apply hnr
      apply repI_of_dvd_ulp (k := 0) (by simp) (by omega)
    have hl := half_ulp_of_fix hfix
    have dx := hxh.ulp_dvd
    have df := hf.ulp_dvd
    have bf := hf.add_ulp_le
    have lx := @ulp_mul_le_abs xh
    have bw := abs_lt_ulp_mul (xh + f)
    have hS := ulp_mul_le_abs_rnI hew
    have ew := two_mul_abs_rnI_sub_le (xh + f)
    rw [abs_sub_comm] at ew
    push_cast at ew
    have pT := two_pow_pos' (Nat.log2 (xh + f).natAbs - 52)
    -- the exact sum is `s + w`
    have hSum : xh + xl + f = rnI (xh + f) + (xl + (xh + f - rnI (xh + f))) := by ring
    have htri := abs_add_le xl (xh + f - rnI (xh + f))
    rcases le_or_gt (2 * |xl|) (2 ^ (Nat.log2 (xh + f).natAbs - 52)) with hc | hc
    · -- B1: the low word is below half an ulp of the sum
      have hw : |xl + (xh + f - rnI (xh + f))| ≤ 2 ^ (Nat.log2 (xh + f).natAbs - 52) := by omega
      have herr := err_le_of_abs_le_pow hw
      have h3 : |rnI (xh + f)| ≤ |xh + xl + f| + |xl + (xh + f - rnI (xh + f))| := by
        have := abs_add_le (xh + xl + f) (-(xl + (xh + f - rnI (xh + f))))
        rw [abs_neg] at this
        have e : xh + xl + f + -(xl + (xh + f - rnI (xh + f))) = rnI (xh + f) := by ring
        rwa [e] at this
      generalize (2 : Int) ^ (Nat.log2 (xh + f).natAbs - 52) = T at *
      omega
    · -- B2: cancellation by exactly one binade; `ulp xh = 2 ulp (xh + f)`
      have hae : Nat.log2 (xh + f).natAbs - 52 < Nat.log2 xh.natAbs - 52 := by
        by_contra hcon
        have : (2 : Int) ^ (Nat.log2 xh.natAbs - 52) ≤ 2 ^ (Nat.log2 (xh + f).natAbs - 52) :=
          pow_le_pow_right₀ (by norm_num) (by omega)
        omega
      have h2a := two_mul_pow_le_of_lt hae
      have hlx := lx (by omega)
      have hbe : Nat.log2 f.natAbs - 52 < Nat.log2 (xh + f).natAbs - 52 := by
        by_contra hcon
        apply hnr
        apply repI_of_dvd_ulp (k := Nat.log2 (xh + f).natAbs - 52) _ (le_refl _)
        exact dvd_add (dvd_trans (pow_dvd_pow 2 (by omega)) dx) (dvd_trans (pow_dvd_pow 2 (by omega)) df)
      have h2b := two_mul_pow_le_of_lt hbe
      have pB := two_pow_pos' (Nat.log2 f.natAbs - 52)
      have hxw : |xh| ≤ |xh + f| + |f| := by
        have := abs_add_le (xh + f) (-f)
        rwa [abs_neg, add_neg_cancel_right] at this
      -- `ulp xh ≤ 2 ulp (xh + f)`
      have hae2 : Nat.log2 xh.natAbs - 52 ≤ Nat.log2 (xh + f).natAbs - 52 + 1 := by
        apply ulpexp_le_of_abs_lt
        rw [pow_succ]
        omega
      have h2c : (2 : Int) ^ (Nat.log2 xh.natAbs - 52) ≤ 2 ^ (Nat.log2 (xh + f).natAbs - 52 + 1) :=
        pow_le_pow_right₀ (by norm_num) hae2
      rw [pow_succ] at h2c
      have e2 : (2 : Int) ^ (Nat.log2 (xh + f).natAbs - 52 + 1) = 2 ^ (Nat.log2 (xh + f).natAbs - 52) * 2 :=
        pow_succ _ _
      have hw : |xl + (xh + f - rnI (xh + f))| < 2 ^ (Nat.log2 (xh + f).natAbs - 52 + 1) := by
        rw [e2]; omega
      have herr := err_le_of_abs_lt_pow hw
      rw [e2] at herr
      clear hw e2
      have hx53 : 2 ^ 53 * 2 ^ (Nat.log2 (xh + f).natAbs - 52) ≤ |xh| := by omega
      have hfl := fix_lower hfix hx53
      have h3 : |xh + xl| ≤ |xh + xl + f| + |f| := by
        have := abs_add_le (xh + xl + f) (-f)
        rwa [abs_neg, add_neg_cancel_right] at this
      generalize (2 : Int) ^ (Nat.log2 (xh + f).natAbs - 52) = T at *
      generalize (2 : Int) ^ (Nat.log2 f.natAbs - 52) = B at *
      omega

/-! ## 3. DWPlusFP on the model -/

theorem abs_lo_le_of_fix {h l : Int} (hfix : h = rnI (h + l)) : |l| ≤ |h| := by
  have hl := half_ulp_of_fix hfix
  by_cases he : Nat.log2 h.natAbs - 52 = 0
  · rw [he, pow_zero] at hl
    have := abs_nonneg l
    have := abs_nonneg h
    omega
  · have := ulp_mul_le_abs he
    have hp := two_pow_pos' (Nat.log2 h.natAbs - 52)
    omega

/-- the argument of the middle addition of DWPlusFP does not overflow -/
theorem dwplusfp_mid_bound {xh xl f : Int} (hxh : RepI xh) (hfix : xh = rnI (xh + xl))
    (hA : 2 * |xh| ≤ (maxFin : Int)) (hB : 2 * |f| ≤ (maxFin : Int)) :
    |xl + (xh + f - rnI (xh + f))| ≤ (maxFin : Int) := by
  have h1 := abs_lo_le_of_fix hfix
  have h2 : |xh + f - rnI (xh + f)| ≤ |f| := abs_add_err_le_right hxh
  have h3 := abs_add_le xl (xh + f - rnI (xh + f))
  omega

theorem two_pow_2096 : (2 : Int) ^ 2096 = 2 * 2 ^ 2095 := by norm_num
theorem two_pow_2097 : (2 : Int) ^ 2097 = 4 * 2 ^ 2095 := by norm_num

theorem natCast_two_pow_2097 : ((2 ^ 2097 : Nat) : Int) = 4 * 2 ^ 2095 := by norm_num

theorem natAbs_lt_to_abs {z : Int} {k : Nat} (h : z.natAbs < 2 ^ k) : |z| < 2 ^ k := by
  rw [← Int.natCast_natAbs z]
  exact_mod_cast h

/-- the closing Fast2Sum of DWPlusFP, given the values of `sh` and `v`: the result is a valid pair within
`2^-105` (relative) of the exact sum -/
theorem dwplusfp_tail {sh v : F64} {xh xl f : Int}
    (hsh : IsVal sh (rnI (xh + f))) (hv : IsVal v (rnI (xl + (xh + f - rnI (xh + f)))))
    (hwsh : sh.WF) (hwv : v.WF)
    (hxh : RepI xh) (hf : RepI f) (hxl : RepI xl) (hfix : xh = rnI (xh + xl))
    (bx : |xh| < 2 ^ 2095) (bf : |f| < 2 ^ 2095) :
    (arithmetic.fast_two_sum sh v).Valid ∧
    |(arithmetic.fast_two_sum sh v).V - (xh + xl + f)| * 2 ^ 105 ≤ |xh + xl + f| := by
  have hl := half_ulp_of_fix hfix
  have hxl_le := abs_lo_le_of_fix hfix
  have hsl : |xh + f - rnI (xh + f)| ≤ |f| := abs_add_err_le_right hxh
  have hs_le : |rnI (xh + f)| ≤ 2 ^ 2096 := by
    have := abs_rnI_le (v := xh + f) (repI_two_pow 2096)
      (by rw [abs_two_pow, two_pow_2096]; have := abs_add_le xh f; omega)
    rwa [abs_two_pow] at this
  have hv_le : |rnI (xl + (xh + f - rnI (xh + f)))| ≤ 2 ^ 2096 := by
    have := abs_rnI_le (v := xl + (xh + f - rnI (xh + f))) (repI_two_pow 2096)
      (by rw [abs_two_pow, two_pow_2096]
          have := abs_add_le xl (xh + f - rnI (xh + f)); omega)
    rwa [abs_two_pow] at this
  have hov : rn53 (sh.toInt + v.toInt).natAbs ≤ maxFin := by
    rw [hsh.2, hv.2]
    refine Nat.le_trans (rn53_le_pow (k := 2097) ?_) two_pow_2097_le_maxFin
    apply natAbs_le_of_abs_le
    rw [natCast_two_pow_2097]
    rw [two_pow_2096] at hs_le hv_le
    have := abs_add_le (rnI (xh + f)) (rnI (xl + (xh + f - rnI (xh + f))))
    omega
  have key : (arithmetic.fast_two_sum sh v).V = sh.toInt + v.toInt ∧
      (arithmetic.fast_two_sum sh v).Valid ∧ (arithmetic.fast_two_sum sh v).WF := by
    by_cases hs0 : rnI (xh + f) = 0
    · exact (fast_two_sum_spec_of_dvd hsh.1 hv.1 hwsh hwv
        (by rw [hsh.2, hs0]; exact dvd_zero _) hov).2
    · have hp := dwplusfp_pre hxh hf hl hs0
      have := abs_rnI_le (repI_rnI (xh + f)) hp
      exact (fast_two_sum_spec hsh.1 hv.1 hwsh hwv (by rw [hsh.2, hv.2]; exact this) hov).2
  refine ⟨key.2.1, ?_⟩
  rw [key.1, hsh.2, hv.2]
  have h := dwplusfp_err hxh hf hxl hfix
  have e : rnI (xh + f) + rnI (xl + (xh + f - rnI (xh + f))) - (xh + xl + f)
      = rnI (xl + (xh + f - rnI (xh + f))) - (xl + (xh + f - rnI (xh + f))) := by ring
  rw [e, mul_comm]
  exact h

end F64

namespace TwoFloat

open F64

theorem sub_ft_eq' (f : F64) (x : TwoFloat) :
    arithmetic.impl_Sub_rTwoFloat_for_rf64.sub f x
      = arithmetic.fast_two_sum (TwoFloat.new_sub f x.hi).hi (F64.sub (TwoFloat.new_sub f x.hi).lo x.lo) := rfl

theorem lt_2097_of_lt_2095 {n : Nat} (h : n < 2 ^ 2095) : n < 2 ^ 2097 :=
  Nat.lt_trans h (Nat.pow_lt_pow_right (by norm_num) (by norm_num))

/-- **C03, `TwoFloat + f64` (DWPlusFP, relative error `≤ 2u² = 2^-105`).**  Magnitudes below `2^1021`
(scaled: `2^2095`); no lower limit: gradual underflow is harmless for addition. -/
theorem add_tf_bound {x : TwoFloat} {f : F64} (hv : x.Valid) (hw : x.WF)
    (hff : f.is_finite = true) (hwf : f.WF)
    (bx : x.hi.toInt.natAbs < 2 ^ 2095) (bf : f.toInt.natAbs < 2 ^ 2095) :
    (arithmetic.impl_Add_rf64_for_rTwoFloat.add x f).Valid ∧
    |(arithmetic.impl_Add_rf64_for_rTwoFloat.add x f).V - (x.V + f.toInt)| * 2 ^ 105 ≤ |x.V + f.toInt| := by
  rw [add_tf_eq]
  have hA := hw.1.two_mul_abs_le (lt_2097_of_lt_2095 bx)
  have hB := hwf.two_mul_abs_le (lt_2097_of_lt_2095 bf)
  obtain ⟨wh, wl⟩ := new_add_words hv.1 hff hw.1 hwf hA hB
  have vv := (IsVal.of_finite hv.2.1).add wl (dwplusfp_mid_bound hw.1.repI hv.rnI_eq hA hB)
  have := dwplusfp_tail wh vv (new_add_WF _ _).1 (add_WF _ _) hw.1.repI hwf.repI hw.2.repI hv.rnI_eq
    (natAbs_lt_to_abs bx) (natAbs_lt_to_abs bf)
  unfold TwoFloat.V at this ⊢
  exact this

/-- **C03, `f64 + TwoFloat`** (the same code path as `TwoFloat + f64`) -/
theorem add_ft_bound {x : TwoFloat} {f : F64} (hv : x.Valid) (hw : x.WF)
    (hff : f.is_finite = true) (hwf : f.WF)
    (bx : x.hi.toInt.natAbs < 2 ^ 2095) (bf : f.toInt.natAbs < 2 ^ 2095) :
    (arithmetic.impl_Add_rTwoFloat_for_rf64.add f x).Valid ∧
    |(arithmetic.impl_Add_rTwoFloat_for_rf64.add f x).V - (f.toInt + x.V)| * 2 ^ 105 ≤ |f.toInt + x.V| := by
  have := add_tf_bound hv hw hff hwf bx bf
  rw [add_comm f.toInt]
  exact this

/-- **C03, `TwoFloat - f64`** -/
theorem sub_tf_bound {x : TwoFloat} {f : F64} (hv : x.Valid) (hw : x.WF)
    (hff : f.is_finite = true) (hwf : f.WF)
    (bx : x.hi.toInt.natAbs < 2 ^ 2095) (bf : f.toInt.natAbs < 2 ^ 2095) :
    (arithmetic.impl_Sub_rf64_for_rTwoFloat.sub x f).Valid ∧
    |(arithmetic.impl_Sub_rf64_for_rTwoFloat.sub x f).V - (x.V - f.toInt)| * 2 ^ 105 ≤ |x.V - f.toInt| := by
  rw [sub_tf_eq]
  have hA := hw.1.two_mul_abs_le (lt_2097_of_lt_2095 bx)
  have hB := hwf.two_mul_abs_le (lt_2097_of_lt_2095 bf)
  have hB' : 2 * |-f.toInt| ≤ (maxFin : Int) := by rwa [abs_neg]
  obtain ⟨wh, wl⟩ := new_sub_words hv.1 hff hw.1 hwf hA hB
  rw [Int.sub_eq_add_neg] at wh wl
  have vv := (IsVal.of_finite hv.2.1).add wl (dwplusfp_mid_bound hw.1.repI hv.rnI_eq hA hB')
  have := dwplusfp_tail wh vv (new_sub_WF _ _).1 (add_WF _ _) hw.1.repI hwf.repI.neg hw.2.repI hv.rnI_eq
    (natAbs_lt_to_abs bx) (by rw [abs_neg]; exact natAbs_lt_to_abs bf)
  unfold TwoFloat.V at this ⊢
  rw [Int.sub_eq_add_neg]
  exact this

/-- **C03, `f64 - TwoFloat`** -/
theorem sub_ft_bound {x : TwoFloat} {f : F64} (hv : x.Valid) (hw : x.WF)
    (hff : f.is_finite = true) (hwf : f.WF)
    (bx : x.hi.toInt.natAbs < 2 ^ 2095) (bf : f.toInt.natAbs < 2 ^ 2095) :
    (arithmetic.impl_Sub_rTwoFloat_for_rf64.sub f x).Valid ∧
    |(arithmetic.impl_Sub_rTwoFloat_for_rf64.sub f x).V - (f.toInt - x.V)| * 2 ^ 105 ≤ |f.toInt - x.V| := by
  rw [sub_ft_eq']
  have hA := hw.1.two_mul_abs_le (lt_2097_of_lt_2095 bx)
  have hB := hwf.two_mul_abs_le (lt_2097_of_lt_2095 bf)
  have hA' : 2 * |-x.hi.toInt| ≤ (maxFin : Int) := by rwa [abs_neg]
  obtain ⟨wh, wl⟩ := new_sub_words hff hv.1 hwf hw.1 hB hA
  have e1 : f.toInt - x.hi.toInt = -x.hi.toInt + f.toInt := by ring
  rw [e1] at wh wl
  have hfix : -x.hi.toInt = rnI (-x.hi.toInt + -x.lo.toInt) := by
    rw [← neg_add, rnI_neg, ← hv.rnI_eq]
  have hm := dwplusfp_mid_bound hw.1.repI.neg hfix hA' hB
  have e2 : -x.lo.toInt + (-x.hi.toInt + f.toInt - rnI (-x.hi.toInt + f.toInt))
      = (-x.hi.toInt + f.toInt - rnI (-x.hi.toInt + f.toInt)) - x.lo.toInt := by ring
  have vv := wl.sub (IsVal.of_finite hv.2.1) (by rw [← e2]; exact hm)
  rw [← e2] at vv
  have := dwplusfp_tail wh vv (new_sub_WF _ _).1 (sub_WF _ _) hw.1.repI.neg hwf.repI hw.2.repI.neg hfix
    (by rw [abs_neg]; exact natAbs_lt_to_abs bx) (natAbs_lt_to_abs bf)
  unfold TwoFloat.V at this ⊢
  have e3 : f.toInt - (x.hi.toInt + x.lo.toInt) = -x.hi.toInt + -x.lo.toInt + f.toInt := by ring
  rw [e3]
  exact this

end TwoFloat

/-! ## 4. DWTimesFP3 on integers -/

namespace F64

/-- the binade of `p / q` on `p` itself, lower end -/
theorem quot_ulp_le {p q : Nat} (hq : 0 < q) (h : Nat.log2 (p / q) - 52 ≠ 0) :
    2 ^ 52 * (q * 2 ^ (Nat.log2 (p / q) - 52)) ≤ p := by
  have h52 : 2 ^ 52 ≤ p / q := by
    by_contra hc
    exact h (log2_sub_eq_zero (by omega))
  exact ((quot_binade_iff hq).1 (log2_sub_spec h52)).1

/-- a low word that points towards zero is below `|xh| / (2^53 + 2)` -/
theorem fix_opposite {xh xl : Int} (hfix : xh = rnI (xh + xl)) (h : |xh + xl| < |xh|) :
    (2 ^ 53 + 2) * |xl| ≤ |xh| := by
  have hl := half_ulp_of_fix hfix
  by_cases ha : Nat.log2 xh.natAbs - 52 = 0
  · rw [ha, pow_zero] at hl
    have h0 : |xl| = 0 := by have := abs_nonneg xl; omega
    rw [h0, mul_zero]; exact abs_nonneg _
  · obtain ⟨e, he⟩ : ∃ e, Nat.log2 xh.natAbs - 52 = e + 1 := ⟨Nat.log2 xh.natAbs - 52 - 1, by omega⟩
    have lx := ulp_mul_le_abs ha
    have hr : RepI xh := by rw [hfix]; exact repI_rnI _
    have dx := hr.ulp_dvd
    rw [he, pow_succ] at hl lx dx
    have pE := two_pow_pos' e
    rcases lt_or_ge |xh| (2 ^ 52 * (2 ^ e * 2) + 2 ^ e * 2) with hc | hc
    · -- `|xh|` is the power of two `2^52·ulp`
      have hd : (2 : Int) ^ e * 2 ∣ |xh| - 2 ^ 52 * (2 ^ e * 2) :=
        dvd_sub ((dvd_abs _ _).2 dx) (Dvd.intro_left _ rfl)
      have h0 := Int.eq_zero_of_abs_lt_dvd hd (by rw [abs_of_nonneg (by omega)]; omega)
      have hfl := fix_lower (e := e) hfix (by omega)
      generalize (2 : Int) ^ e = E at *
      rcases abs_cases xh with ⟨e1, _⟩ | ⟨e1, _⟩ <;> rcases abs_cases xl with ⟨e2, _⟩ | ⟨e2, _⟩ <;>
      rcases abs_cases (xh + xl) with ⟨e3, _⟩ | ⟨e3, _⟩ <;> rw [e1] at h h0 <;> rw [e3] at h hfl <;>
      rw [e2] at hl <;> rw [e1, e2] <;> omega
    · generalize (2 : Int) ^ e = E at *
      omega

/-- **DWTimesFP3 (Joldes–Muller–Popescu 2017, Algorithm 9), scaled integers.**  `(xh, xl)` a normalised pair,
`xh·f = Q·U` the exact product in units of `U` (`U = 2^1074` in the application: no underflow in 2Prod),
`ch = RN(Q)`, `cl1 = Q - ch`, `cl3 = RN((xl·f + cl1·U) / U)` the FMA: the rounding error of `cl3` — the total
error, Fast2Sum being exact — is at most `2u² = 2^-105` times the exact product. -/
theorem dwtimesfp_err {xh xl f Q : Int} {U : Nat} (hU : 0 < U) (hfix : xh = rnI (xh + xl))
    (hQ : xh * f = Q * (U : Int)) (hlow : xh * f = 0 ∨ 2 ^ 105 * (U : Int) ≤ |xh * f|) :
    2 ^ 105 * |(xl * f + (Q - rnI Q) * (U : Int)) + -(rqI (xl * f + (Q - rnI Q) * (U : Int)) U) * (U : Int)|
      ≤ |(xh + xl) * f| := by
  have hUi : (0 : Int) < (U : Int) := Int.natCast_pos.2 hU
  have hl := half_ulp_of_fix hfix
  have h53 : 2 ^ 53 * |xl| ≤ |xh| := by
    have := two_pow_mul_le_of_half_ulp hl
    rw [← Int.natCast_natAbs xl, ← Int.natCast_natAbs xh]
    exact_mod_cast this
  rcases hlow with h0 | hlow
  · have hQ0 : Q = 0 := by
      rw [h0] at hQ
      rcases mul_eq_zero.1 hQ.symm with h | h
      · exact h
      · omega
    have hxl : xl * f = 0 := by
      rcases mul_eq_zero.1 h0 with h | h
      · have : |xl| = 0 := by
          rw [h, abs_zero] at h53
          have := abs_nonneg xl
          omega
        rw [abs_eq_zero.1 this, zero_mul]
      · rw [h, mul_zero]
    rw [hxl, hQ0, rnI_zero]
    simp
  · have he := abs_sub_rqI_mul (xl * f + (Q - rnI Q) * (U : Int)) hU
    have hA : |xh * f| = |Q| * (U : Int) := by rw [hQ, abs_mul, abs_of_pos hUi]
    have h1 : 2 ^ 53 * |xl * f| ≤ |xh * f| := by
      rw [abs_mul, abs_mul, ← mul_assoc]
      exact mul_le_mul_of_nonneg_right h53 (abs_nonneg f)
    have h6 : |xh * f| ≤ |(xh + xl) * f| + |xl * f| := by
      have := abs_add_le ((xh + xl) * f) (-(xl * f))
      rw [abs_neg] at this
      have e : (xh + xl) * f + -(xl * f) = xh * f := by ring
      rwa [e] at this
    have h7 : |(xh + xl) * f| < |xh * f| → (2 ^ 53 + 2) * |xl * f| ≤ |xh * f| := by
      intro h
      rw [abs_mul, abs_mul] at h
      have h' : |xh + xl| < |xh| := lt_of_mul_lt_mul_right h (abs_nonneg f)
      have := fix_opposite hfix h'
      rw [abs_mul, abs_mul, ← mul_assoc]
      exact mul_le_mul_of_nonneg_right this (abs_nonneg f)
    have h2 : |xl * f + (Q - rnI Q) * (U : Int)| ≤ |xl * f| + |Q - rnI Q| * (U : Int) := by
      have := abs_add_le (xl * f) ((Q - rnI Q) * (U : Int))
      rwa [abs_mul (Q - rnI Q), abs_of_pos hUi] at this
    have hC : ∀ j : Nat, |xh * f| < 2 ^ 53 * 2 ^ j * (U : Int) →
        2 * (|Q - rnI Q| * (U : Int)) ≤ 2 ^ j * (U : Int) := by
      intro j h
      rw [hA] at h
      have hq : |Q| < 2 ^ 53 * 2 ^ j := lt_of_mul_lt_mul_right h (le_of_lt hUi)
      have hk := ulpexp_le_of_abs_lt hq
      have ew := two_mul_abs_rnI_sub_le Q
      rw [abs_sub_comm] at ew
      push_cast at ew
      have hp : (2 : Int) ^ (Nat.log2 Q.natAbs - 52) ≤ 2 ^ j := pow_le_pow_right₀ (by norm_num) hk
      have h3 : 2 * |Q - rnI Q| ≤ 2 ^ j := le_trans ew hp
      rw [← mul_assoc]
      exact mul_le_mul_of_nonneg_right h3 (le_of_lt hUi)
    by_cases hk : Nat.log2 ((xl * f + (Q - rnI Q) * (U : Int)).natAbs / U) - 52 = 0
    · rw [hk, pow_zero, mul_one] at he
      omega
    · have h3 : 2 ^ 52 * ((U : Int) * 2 ^ (Nat.log2 ((xl * f + (Q - rnI Q) * (U : Int)).natAbs / U) - 52))
          ≤ |xl * f + (Q - rnI Q) * (U : Int)| := by
        have := quot_ulp_le hU hk
        rw [← Int.natCast_natAbs (xl * f + (Q - rnI Q) * (U : Int))]
        exact_mod_cast this
      have hC1 := hC (51 + (Nat.log2 ((xl * f + (Q - rnI Q) * (U : Int)).natAbs / U) - 52))
      have hC2 := hC (52 + (Nat.log2 ((xl * f + (Q - rnI Q) * (U : Int)).natAbs / U) - 52))
      rw [pow_add] at hC1 hC2
      generalize Nat.log2 ((xl * f + (Q - rnI Q) * (U : Int)).natAbs / U) - 52 = k at *
      have e1 : (2 : Int) ^ 53 * (2 ^ 51 * 2 ^ k) * (U : Int) = 2 ^ 104 * ((U : Int) * 2 ^ k) := by ring
      have e2 : (2 : Int) ^ 51 * 2 ^ k * (U : Int) = 2 ^ 51 * ((U : Int) * 2 ^ k) := by ring
      have e3 : (2 : Int) ^ 53 * (2 ^ 52 * 2 ^ k) * (U : Int) = 2 ^ 105 * ((U : Int) * 2 ^ k) := by ring
      have e4 : (2 : Int) ^ 52 * 2 ^ k * (U : Int) = 2 ^ 52 * ((U : Int) * 2 ^ k) := by ring
      rw [e1, e2] at hC1
      rw [e3, e4] at hC2
      have pK : 0 < (U : Int) * 2 ^ k := mul_pos hUi (two_pow_pos' k)
      generalize (U : Int) * 2 ^ k = K at *
      rcases lt_or_ge |xh * f| (2 ^ 104 * K) with hc | hc
      · have := hC1 hc
        omega
      · rcases lt_or_ge |(xh + xl) * f| (2 ^ 104 * K) with hx | hx
        · have h7' := h7 (by omega)
          have := hC2 (by omega)
          omega
        · omega

end F64
