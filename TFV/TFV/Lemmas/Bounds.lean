/-
Lemmas.Bounds — the numerical error bounds of the double-word operators (properties C03 / C04), on scaled
integers and on the generated model.  `u = 2^-53`; all finite doubles are integers in units of `2^-1074`.

 1. rounding-error helpers (`err_le_of_abs_le_pow`, `half_ulp_of_fix`, `fix_lower`);
 2. `dwplusfp_err`: DWPlusFP (Joldes–Muller–Popescu 2017, Alg. 4, Thm 2.2), relative error `≤ 2u² = 2^-105`,
    as a statement about integers;
 3. the model: `TwoFloat.add_tf_bound`, `add_ft_bound`, `sub_tf_bound`, `sub_ft_bound` (`TwoFloat ± f64`, `f64 ± TwoFloat`);
 4. `dwtimesfp_err`: DWTimesFP3 (Alg. 9), relative error `≤ 2u²`, on integers;
 5. the model: `TwoFloat.mul_tf_bound`, `mul_ft_bound`;
 6. `dwplusdw_err`: AccurateDWPlusDW (Alg. 6, Thm 3.1), relative error `≤ 3u² + 13u³`, on integers
    (`dwplusdw_err_inexact`: the high sum rounds; `dwplusdw_err_exact`: it does not);
 7. the model: `TwoFloat.add_tt_bound`, `sub_tt_bound`;
 8. `dwtimesdw_err_7u2`: DWTimesDW3 (Alg. 12, crate's order), first-order analysis, `≤ 7u²` (partial);
 9. the model: `TwoFloat.mul_tt_values` (all intermediate values, validity), `mul_tt_bound_7u2_partial`;
10. `dwtimesdw_err_5u2`: binade analysis of DWTimesDW3, `≤ 5u² + 12u³` (partial: the paper's constant is `5u²`);
11. the model: `TwoFloat.mul_tt_bound_5u2_12u3_partial` on the property's range.
-/
import TFV.Lemmas.Inv
import TFV.Lemmas.ArithExact

set_option exponentiation.threshold 3000

namespace F64

/-! ## 1. helpers -/

/-- rounding error of a number below `2^m`: at most `2^(m-54)` -/
theorem err_le_of_abs_lt_pow {w : Int} {m : Nat} (h : |w| < 2 ^ m) : 2 ^ 54 * |rnI w - w| ≤ 2 ^ m := by
  have he := two_mul_abs_rnI_sub_le w
  rcases Nat.lt_or_ge m 53 with hm | hm
  · have h53 : |w| < 2 ^ 53 :=
      lt_of_lt_of_le h (pow_le_pow_right₀ (by norm_num) (by omega))
    have hn : w.natAbs < 2 ^ 53 := by
      rw [← Int.natCast_natAbs w] at h53; exact_mod_cast h53
    rw [log2_sub_eq_zero hn] at he
    have h0 : |rnI w - w| = 0 := by
      have := abs_nonneg (rnI w - w)
      simp only [pow_zero, Nat.cast_one] at he
      omega
    rw [h0]; positivity
  · obtain ⟨j, rfl⟩ : ∃ j, m = 53 + j := ⟨m - 53, by omega⟩
    have hk := ulpexp_le_of_abs_lt (z := w) (e := j) (by rwa [← pow_add])
    have hp : (2 : Int) ^ (Nat.log2 w.natAbs - 52) ≤ 2 ^ j := pow_le_pow_right₀ (by norm_num) hk
    push_cast at he
    rw [pow_add]
    omega

/-- rounding error of a number of magnitude at most `2^m`: at most `2^(m-54)` -/
theorem err_le_of_abs_le_pow {w : Int} {m : Nat} (h : |w| ≤ 2 ^ m) : 2 ^ 54 * |rnI w - w| ≤ 2 ^ m := by
  rcases lt_or_eq_of_le h with h1 | h1
  · exact err_le_of_abs_lt_pow h1
  · have hr : RepI w := by
      have h2 := repI_two_pow m
      rcases abs_cases w with ⟨e, _⟩ | ⟨e, _⟩
      · rw [e] at h1; rw [h1]; exact h2
      · rw [e] at h1
        have : w = -(2 ^ m) := by omega
        rw [this]; exact h2.neg
    rw [rnI_of_repI hr, sub_self, abs_zero]
    positivity

/-- the half-ulp bound of a normalised pair, on integers -/
theorem half_ulp_of_fix {h l : Int} (hfix : h = rnI (h + l)) :
    2 * |l| ≤ 2 ^ (Nat.log2 h.natAbs - 52) := by
  have he := two_mul_abs_rnI_sub_le (h + l)
  have hn : h.natAbs = rn53 (h + l).natAbs := by
    conv_lhs => rw [hfix]
    exact natAbs_rnI _
  have hm := log2_le_log2_rn53 (h + l).natAbs
  rw [← hn] at hm
  have hp : (2 : Int) ^ (Nat.log2 (h + l).natAbs - 52) ≤ 2 ^ (Nat.log2 h.natAbs - 52) :=
    pow_le_pow_right₀ (by norm_num) (by omega)
  have e : rnI (h + l) - (h + l) = -l := by rw [← hfix]; ring
  rw [e, abs_neg, Int.natCast_pow] at he
  exact le_trans he hp

/-- a rounded value of magnitude at least `2^52·2^e` whenever the argument has ulp exponent `e ≠ 0` -/
theorem ulp_mul_le_abs_rnI {v : Int} (h : Nat.log2 v.natAbs - 52 ≠ 0) :
    2 ^ 52 * 2 ^ (Nat.log2 v.natAbs - 52) ≤ |rnI v| := by
  have hlw := ulp_mul_le_abs h
  have hr : RepI ((2 : Int) ^ 52 * 2 ^ (Nat.log2 v.natAbs - 52)) := by
    rw [← pow_add]
    exact repI_two_pow _
  have := le_abs_rnI (v := v) hr (by rw [abs_of_pos (by positivity)]; exact hlw)
  rwa [abs_of_pos (by positivity)] at this

/-- representability of `(2^53 - 1)·2^e` -/
theorem repI_pred_pow (e : Nat) : RepI ((2 ^ 53 - 1) * (2 : Int) ^ e) := by
  have h := rep_mul_pow_of_lt (m := 2 ^ 53 - 1) e (by norm_num)
  have := repI_natCast.2 h
  push_cast at this
  exact this

/-- if the high word of a normalised pair has magnitude at least `2^53·T` (`T = 2^e`), the pair's value is at
least `2^53·T - T/2` in magnitude: a low word cannot reach below the midpoint under a binade boundary -/
theorem fix_lower {xh xl : Int} {e : Nat} (hfix : xh = rnI (xh + xl)) (hx : 2 ^ 53 * 2 ^ e ≤ |xh|) :
    2 ^ 54 * 2 ^ e - 2 ^ e ≤ 2 * |xh + xl| := by
  have hc := repI_pred_pow e
  have h1 := rnI_nearest (xh + xl) hc
  have h2 := rnI_nearest (xh + xl) hc.neg
  rw [← hfix] at h1 h2
  have hT := two_pow_pos' e
  generalize (2 : Int) ^ e = T at *
  rcases abs_cases xh with ⟨e1, _⟩ | ⟨e1, _⟩ <;>
  rcases abs_cases (xh - (xh + xl)) with ⟨e2, _⟩ | ⟨e2, _⟩ <;>
  rcases abs_cases ((2 ^ 53 - 1) * T - (xh + xl)) with ⟨e3, _⟩ | ⟨e3, _⟩ <;>
  rcases abs_cases (-((2 ^ 53 - 1) * T) - (xh + xl)) with ⟨e4, _⟩ | ⟨e4, _⟩ <;>
  rcases abs_cases (xh + xl) with ⟨e5, _⟩ | ⟨e5, _⟩ <;>
  rw [e1] at hx <;> rw [e2, e3] at h1 <;> rw [e2, e4] at h2 <;> rw [e5] <;> omega

/-! ## 2. DWPlusFP on integers -/

/-- **DWPlusFP (Joldes–Muller–Popescu 2017, Algorithm 4, Theorem 2.2), scaled integers.**
`(xh, xl)` a normalised pair, `f` a double, `s = RN(xh + f)`, `sl = xh + f - s` (2Sum), `v = RN(xl + sl)`: the
rounding error of `v` — which is the total error of the algorithm, Fast2Sum being exact — is at most
`2u² = 2^-105` times the exact sum. -/
theorem dwplusfp_err {xh xl f : Int} (hxh : RepI xh) (hf : RepI f) (hxl : RepI xl)
    (hfix : xh = rnI (xh + xl)) :
    2 ^ 105 * |rnI (xl + (xh + f - rnI (xh + f))) - (xl + (xh + f - rnI (xh + f)))| ≤ |xh + xl + f| := by
  by_cases he : xh + f - rnI (xh + f) = 0
  · rw [he, add_zero, rnI_of_repI hxl, sub_self, abs_zero, mul_zero]
    exact abs_nonneg _
  · have hnr : ¬ RepI (xh + f) := fun hr => he (by rw [rnI_of_repI hr]; ring)
    have hew : Nat.log2 (xh + f).natAbs - 52 ≠ 0 := by
      intro h0
      apply hnr
      apply repI_of_dvd_ulp (k := 0) (by simp) (by omega)
    have hl := half_ulp_of_fix hfix
    have dx := hxh.ulp_dvd
    have df := hf.ulp_dvd
    have bf := hf.add_ulp_le
    have lx := @ulp_mul_le_abs xh
    have bw := abs_lt_ulp_mul (xh + f)
    have hS := ulp_mul_le_abs_rnI hew
    have ew := two_mul_abs_rnI_sub_le (xh + f)
    rw [abs_sub_comm] at ew
    push_cast at ew
    have pT := two_pow_pos' (Nat.log2 (xh + f).natAbs - 52)
    -- the exact sum is `s + w`
    have hSum : xh + xl + f = rnI (xh + f) + (xl + (xh + f - rnI (xh + f))) := by ring
    have htri := abs_add_le xl (xh + f - rnI (xh + f))
    rcases le_or_gt (2 * |xl|) (2 ^ (Nat.log2 (xh + f).natAbs - 52)) with hc | hc
    · -- B1: the low word is below half an ulp of the sum
      have hw : |xl + (xh + f - rnI (xh + f))| ≤ 2 ^ (Nat.log2 (xh + f).natAbs - 52) := by omega
      have herr := err_le_of_abs_le_pow hw
      have h3 : |rnI (xh + f)| ≤ |xh + xl + f| + |xl + (xh + f - rnI (xh + f))| := by
        have := abs_add_le (xh + xl + f) (-(xl + (xh + f - rnI (xh + f))))
        rw [abs_neg] at this
        have e : xh + xl + f + -(xl + (xh + f - rnI (xh + f))) = rnI (xh + f) := by ring
        rwa [e] at this
      generalize (2 : Int) ^ (Nat.log2 (xh + f).natAbs - 52) = T at *
      omega
    · -- B2: cancellation by exactly one binade; `ulp xh = 2 ulp (xh + f)`
      have hae : Nat.log2 (xh + f).natAbs - 52 < Nat.log2 xh.natAbs - 52 := by
        by_contra hcon
        have : (2 : Int) ^ (Nat.log2 xh.natAbs - 52) ≤ 2 ^ (Nat.log2 (xh + f).natAbs - 52) :=
          pow_le_pow_right₀ (by norm_num) (by omega)
        omega
      have h2a := two_mul_pow_le_of_lt hae
      have hlx := lx (by omega)
      have hbe : Nat.log2 f.natAbs - 52 < Nat.log2 (xh + f).natAbs - 52 := by
        by_contra hcon
        apply hnr
        apply repI_of_dvd_ulp (k := Nat.log2 (xh + f).natAbs - 52) _ (le_refl _)
        exact dvd_add (dvd_trans (pow_dvd_pow 2 (by omega)) dx) (dvd_trans (pow_dvd_pow 2 (by omega)) df)
      have h2b := two_mul_pow_le_of_lt hbe
      have pB := two_pow_pos' (Nat.log2 f.natAbs - 52)
      have hxw : |xh| ≤ |xh + f| + |f| := by
        have := abs_add_le (xh + f) (-f)
        rwa [abs_neg, add_neg_cancel_right] at this
      -- `ulp xh ≤ 2 ulp (xh + f)`
      have hae2 : Nat.log2 xh.natAbs - 52 ≤ Nat.log2 (xh + f).natAbs - 52 + 1 := by
        apply ulpexp_le_of_abs_lt
        rw [pow_succ]
        omega
      have h2c : (2 : Int) ^ (Nat.log2 xh.natAbs - 52) ≤ 2 ^ (Nat.log2 (xh + f).natAbs - 52 + 1) :=
        pow_le_pow_right₀ (by norm_num) hae2
      rw [pow_succ] at h2c
      have e2 : (2 : Int) ^ (Nat.log2 (xh + f).natAbs - 52 + 1) = 2 ^ (Nat.log2 (xh + f).natAbs - 52) * 2 :=
        pow_succ _ _
      have hw : |xl + (xh + f - rnI (xh + f))| < 2 ^ (Nat.log2 (xh + f).natAbs - 52 + 1) := by
        rw [e2]; omega
      have herr := err_le_of_abs_lt_pow hw
      rw [e2] at herr
      clear hw e2
      have hx53 : 2 ^ 53 * 2 ^ (Nat.log2 (xh + f).natAbs - 52) ≤ |xh| := by omega
      have hfl := fix_lower hfix hx53
      have h3 : |xh + xl| ≤ |xh + xl + f| + |f| := by
        have := abs_add_le (xh + xl + f) (-f)
        rwa [abs_neg, add_neg_cancel_right] at this
      generalize (2 : Int) ^ (Nat.log2 (xh + f).natAbs - 52) = T at *
      generalize (2 : Int) ^ (Nat.log2 f.natAbs - 52) = B at *
      omega

/-! ## 3. DWPlusFP on the model -/

theorem abs_lo_le_of_fix {h l : Int} (hfix : h = rnI (h + l)) : |l| ≤ |h| := by
  have hl := half_ulp_of_fix hfix
  by_cases he : Nat.log2 h.natAbs - 52 = 0
  · rw [he, pow_zero] at hl
    have := abs_nonneg l
    have := abs_nonneg h
    omega
  · have := ulp_mul_le_abs he
    have hp := two_pow_pos' (Nat.log2 h.natAbs - 52)
    omega

/-- the argument of the middle addition of DWPlusFP does not overflow -/
theorem dwplusfp_mid_bound {xh xl f : Int} (hxh : RepI xh) (hfix : xh = rnI (xh + xl))
    (hA : 2 * |xh| ≤ (maxFin : Int)) (hB : 2 * |f| ≤ (maxFin : Int)) :
    |xl + (xh + f - rnI (xh + f))| ≤ (maxFin : Int) := by
  have h1 := abs_lo_le_of_fix hfix
  have h2 : |xh + f - rnI (xh + f)| ≤ |f| := abs_add_err_le_right hxh
  have h3 := abs_add_le xl (xh + f - rnI (xh + f))
  omega

theorem two_pow_2096 : (2 : Int) ^ 2096 = 2 * 2 ^ 2095 := by norm_num
theorem two_pow_2097 : (2 : Int) ^ 2097 = 4 * 2 ^ 2095 := by norm_num

theorem natCast_two_pow_2097 : ((2 ^ 2097 : Nat) : Int) = 4 * 2 ^ 2095 := by norm_num

theorem natAbs_lt_to_abs {z : Int} {k : Nat} (h : z.natAbs < 2 ^ k) : |z| < 2 ^ k := by
  rw [← Int.natCast_natAbs z]
  exact_mod_cast h

/-- the closing Fast2Sum of DWPlusFP, given the values of `sh` and `v`: the result is a valid pair within
`2^-105` (relative) of the exact sum -/
theorem dwplusfp_tail {sh v : F64} {xh xl f : Int}
    (hsh : IsVal sh (rnI (xh + f))) (hv : IsVal v (rnI (xl + (xh + f - rnI (xh + f)))))
    (hwsh : sh.WF) (hwv : v.WF)
    (hxh : RepI xh) (hf : RepI f) (hxl : RepI xl) (hfix : xh = rnI (xh + xl))
    (bx : |xh| < 2 ^ 2095) (bf : |f| < 2 ^ 2095) :
    (arithmetic.fast_two_sum sh v).Valid ∧
    |(arithmetic.fast_two_sum sh v).V - (xh + xl + f)| * 2 ^ 105 ≤ |xh + xl + f| := by
  have hl := half_ulp_of_fix hfix
  have hxl_le := abs_lo_le_of_fix hfix
  have hsl : |xh + f - rnI (xh + f)| ≤ |f| := abs_add_err_le_right hxh
  have hs_le : |rnI (xh + f)| ≤ 2 ^ 2096 := by
    have := abs_rnI_le (v := xh + f) (repI_two_pow 2096)
      (by rw [abs_two_pow, two_pow_2096]; have := abs_add_le xh f; omega)
    rwa [abs_two_pow] at this
  have hv_le : |rnI (xl + (xh + f - rnI (xh + f)))| ≤ 2 ^ 2096 := by
    have := abs_rnI_le (v := xl + (xh + f - rnI (xh + f))) (repI_two_pow 2096)
      (by rw [abs_two_pow, two_pow_2096]
          have := abs_add_le xl (xh + f - rnI (xh + f)); omega)
    rwa [abs_two_pow] at this
  have hov : rn53 (sh.toInt + v.toInt).natAbs ≤ maxFin := by
    rw [hsh.2, hv.2]
    refine Nat.le_trans (rn53_le_pow (k := 2097) ?_) two_pow_2097_le_maxFin
    apply natAbs_le_of_abs_le
    rw [natCast_two_pow_2097]
    rw [two_pow_2096] at hs_le hv_le
    have := abs_add_le (rnI (xh + f)) (rnI (xl + (xh + f - rnI (xh + f))))
    omega
  have key : (arithmetic.fast_two_sum sh v).V = sh.toInt + v.toInt ∧
      (arithmetic.fast_two_sum sh v).Valid ∧ (arithmetic.fast_two_sum sh v).WF := by
    by_cases hs0 : rnI (xh + f) = 0
    · exact (fast_two_sum_spec_of_dvd hsh.1 hv.1 hwsh hwv
        (by rw [hsh.2, hs0]; exact dvd_zero _) hov).2
    · have hp := dwplusfp_pre hxh hf hl hs0
      have := abs_rnI_le (repI_rnI (xh + f)) hp
      exact (fast_two_sum_spec hsh.1 hv.1 hwsh hwv (by rw [hsh.2, hv.2]; exact this) hov).2
  refine ⟨key.2.1, ?_⟩
  rw [key.1, hsh.2, hv.2]
  have h := dwplusfp_err hxh hf hxl hfix
  have e : rnI (xh + f) + rnI (xl + (xh + f - rnI (xh + f))) - (xh + xl + f)
      = rnI (xl + (xh + f - rnI (xh + f))) - (xl + (xh + f - rnI (xh + f))) := by ring
  rw [e, mul_comm]
  exact h

end F64

namespace TwoFloat

open F64

theorem sub_ft_eq' (f : F64) (x : TwoFloat) :
    arithmetic.impl_Sub_rTwoFloat_for_rf64.sub f x
      = arithmetic.fast_two_sum (TwoFloat.new_sub f x.hi).hi (F64.sub (TwoFloat.new_sub f x.hi).lo x.lo) := rfl

theorem lt_2097_of_lt_2095 {n : Nat} (h : n < 2 ^ 2095) : n < 2 ^ 2097 :=
  Nat.lt_trans h (Nat.pow_lt_pow_right (by norm_num) (by norm_num))

/-- **C03, `TwoFloat + f64` (DWPlusFP, relative error `≤ 2u² = 2^-105`).**  Magnitudes below `2^1021`
(scaled: `2^2095`); no lower limit: gradual underflow is harmless for addition. -/
theorem add_tf_bound {x : TwoFloat} {f : F64} (hv : x.Valid) (hw : x.WF)
    (hff : f.is_finite = true) (hwf : f.WF)
    (bx : x.hi.toInt.natAbs < 2 ^ 2095) (bf : f.toInt.natAbs < 2 ^ 2095) :
    (arithmetic.impl_Add_rf64_for_rTwoFloat.add x f).Valid ∧
    |(arithmetic.impl_Add_rf64_for_rTwoFloat.add x f).V - (x.V + f.toInt)| * 2 ^ 105 ≤ |x.V + f.toInt| := by
  rw [add_tf_eq]
  have hA := hw.1.two_mul_abs_le (lt_2097_of_lt_2095 bx)
  have hB := hwf.two_mul_abs_le (lt_2097_of_lt_2095 bf)
  obtain ⟨wh, wl⟩ := new_add_words hv.1 hff hw.1 hwf hA hB
  have vv := (IsVal.of_finite hv.2.1).add wl (dwplusfp_mid_bound hw.1.repI hv.rnI_eq hA hB)
  have := dwplusfp_tail wh vv (new_add_WF _ _).1 (add_WF _ _) hw.1.repI hwf.repI hw.2.repI hv.rnI_eq
    (natAbs_lt_to_abs bx) (natAbs_lt_to_abs bf)
  unfold TwoFloat.V at this ⊢
  exact this

/-- **C03, `f64 + TwoFloat`** (the same code path as `TwoFloat + f64`) -/
theorem add_ft_bound {x : TwoFloat} {f : F64} (hv : x.Valid) (hw : x.WF)
    (hff : f.is_finite = true) (hwf : f.WF)
    (bx : x.hi.toInt.natAbs < 2 ^ 2095) (bf : f.toInt.natAbs < 2 ^ 2095) :
    (arithmetic.impl_Add_rTwoFloat_for_rf64.add f x).Valid ∧
    |(arithmetic.impl_Add_rTwoFloat_for_rf64.add f x).V - (f.toInt + x.V)| * 2 ^ 105 ≤ |f.toInt + x.V| := by
  have := add_tf_bound hv hw hff hwf bx bf
  rw [add_comm f.toInt]
  exact this

/-- **C03, `TwoFloat - f64`** -/
theorem sub_tf_bound {x : TwoFloat} {f : F64} (hv : x.Valid) (hw : x.WF)
    (hff : f.is_finite = true) (hwf : f.WF)
    (bx : x.hi.toInt.natAbs < 2 ^ 2095) (bf : f.toInt.natAbs < 2 ^ 2095) :
    (arithmetic.impl_Sub_rf64_for_rTwoFloat.sub x f).Valid ∧
    |(arithmetic.impl_Sub_rf64_for_rTwoFloat.sub x f).V - (x.V - f.toInt)| * 2 ^ 105 ≤ |x.V - f.toInt| := by
  rw [sub_tf_eq]
  have hA := hw.1.two_mul_abs_le (lt_2097_of_lt_2095 bx)
  have hB := hwf.two_mul_abs_le (lt_2097_of_lt_2095 bf)
  have hB' : 2 * |-f.toInt| ≤ (maxFin : Int) := by rwa [abs_neg]
  obtain ⟨wh, wl⟩ := new_sub_words hv.1 hff hw.1 hwf hA hB
  rw [Int.sub_eq_add_neg] at wh wl
  have vv := (IsVal.of_finite hv.2.1).add wl (dwplusfp_mid_bound hw.1.repI hv.rnI_eq hA hB')
  have := dwplusfp_tail wh vv (new_sub_WF _ _).1 (add_WF _ _) hw.1.repI hwf.repI.neg hw.2.repI hv.rnI_eq
    (natAbs_lt_to_abs bx) (by rw [abs_neg]; exact natAbs_lt_to_abs bf)
  unfold TwoFloat.V at this ⊢
  rw [Int.sub_eq_add_neg]
  exact this

/-- **C03, `f64 - TwoFloat`** -/
theorem sub_ft_bound {x : TwoFloat} {f : F64} (hv : x.Valid) (hw : x.WF)
    (hff : f.is_finite = true) (hwf : f.WF)
    (bx : x.hi.toInt.natAbs < 2 ^ 2095) (bf : f.toInt.natAbs < 2 ^ 2095) :
    (arithmetic.impl_Sub_rTwoFloat_for_rf64.sub f x).Valid ∧
    |(arithmetic.impl_Sub_rTwoFloat_for_rf64.sub f x).V - (f.toInt - x.V)| * 2 ^ 105 ≤ |f.toInt - x.V| := by
  rw [sub_ft_eq']
  have hA := hw.1.two_mul_abs_le (lt_2097_of_lt_2095 bx)
  have hB := hwf.two_mul_abs_le (lt_2097_of_lt_2095 bf)
  have hA' : 2 * |-x.hi.toInt| ≤ (maxFin : Int) := by rwa [abs_neg]
  obtain ⟨wh, wl⟩ := new_sub_words hff hv.1 hwf hw.1 hB hA
  have e1 : f.toInt - x.hi.toInt = -x.hi.toInt + f.toInt := by ring
  rw [e1] at wh wl
  have hfix : -x.hi.toInt = rnI (-x.hi.toInt + -x.lo.toInt) := by
    rw [← neg_add, rnI_neg, ← hv.rnI_eq]
  have hm := dwplusfp_mid_bound hw.1.repI.neg hfix hA' hB
  have e2 : -x.lo.toInt + (-x.hi.toInt + f.toInt - rnI (-x.hi.toInt + f.toInt))
      = (-x.hi.toInt + f.toInt - rnI (-x.hi.toInt + f.toInt)) - x.lo.toInt := by ring
  have vv := wl.sub (IsVal.of_finite hv.2.1) (by rw [← e2]; exact hm)
  rw [← e2] at vv
  have := dwplusfp_tail wh vv (new_sub_WF _ _).1 (sub_WF _ _) hw.1.repI.neg hwf.repI hw.2.repI.neg hfix
    (by rw [abs_neg]; exact natAbs_lt_to_abs bx) (natAbs_lt_to_abs bf)
  unfold TwoFloat.V at this ⊢
  have e3 : f.toInt - (x.hi.toInt + x.lo.toInt) = -x.hi.toInt + -x.lo.toInt + f.toInt := by ring
  rw [e3]
  exact this

end TwoFloat

/-! ## 4. DWTimesFP3 on integers -/

namespace F64

/-- the binade of `p / q` on `p` itself, lower end -/
theorem quot_ulp_le {p q : Nat} (hq : 0 < q) (h : Nat.log2 (p / q) - 52 ≠ 0) :
    2 ^ 52 * (q * 2 ^ (Nat.log2 (p / q) - 52)) ≤ p := by
  have h52 : 2 ^ 52 ≤ p / q := by
    by_contra hc
    exact h (log2_sub_eq_zero (by omega))
  exact ((quot_binade_iff hq).1 (log2_sub_spec h52)).1

/-- a low word that points towards zero is below `|xh| / (2^53 + 2)` -/
theorem fix_opposite {xh xl : Int} (hfix : xh = rnI (xh + xl)) (h : |xh + xl| < |xh|) :
    (2 ^ 53 + 2) * |xl| ≤ |xh| := by
  have hl := half_ulp_of_fix hfix
  by_cases ha : Nat.log2 xh.natAbs - 52 = 0
  · rw [ha, pow_zero] at hl
    have h0 : |xl| = 0 := by have := abs_nonneg xl; omega
    rw [h0, mul_zero]; exact abs_nonneg _
  · obtain ⟨e, he⟩ : ∃ e, Nat.log2 xh.natAbs - 52 = e + 1 := ⟨Nat.log2 xh.natAbs - 52 - 1, by omega⟩
    have lx := ulp_mul_le_abs ha
    have hr : RepI xh := by rw [hfix]; exact repI_rnI _
    have dx := hr.ulp_dvd
    rw [he, pow_succ] at hl lx dx
    have pE := two_pow_pos' e
    rcases lt_or_ge |xh| (2 ^ 52 * (2 ^ e * 2) + 2 ^ e * 2) with hc | hc
    · -- `|xh|` is the power of two `2^52·ulp`
      have hd : (2 : Int) ^ e * 2 ∣ |xh| - 2 ^ 52 * (2 ^ e * 2) :=
        dvd_sub ((dvd_abs _ _).2 dx) (Dvd.intro_left _ rfl)
      have h0 := Int.eq_zero_of_abs_lt_dvd hd (by rw [abs_of_nonneg (by omega)]; omega)
      have hfl := fix_lower (e := e) hfix (by omega)
      generalize (2 : Int) ^ e = E at *
      rcases abs_cases xh with ⟨e1, _⟩ | ⟨e1, _⟩ <;> rcases abs_cases xl with ⟨e2, _⟩ | ⟨e2, _⟩ <;>
      rcases abs_cases (xh + xl) with ⟨e3, _⟩ | ⟨e3, _⟩ <;> rw [e1] at h h0 <;> rw [e3] at h hfl <;>
      rw [e2] at hl <;> rw [e1, e2] <;> omega
    · generalize (2 : Int) ^ e = E at *
      omega

/-- **DWTimesFP3 (Joldes–Muller–Popescu 2017, Algorithm 9), scaled integers.**  `(xh, xl)` a normalised pair,
`xh·f = Q·U` the exact product in units of `U` (`U = 2^1074` in the application: no underflow in 2Prod),
`ch = RN(Q)`, `cl1 = Q - ch`, `cl3 = RN((xl·f + cl1·U) / U)` the FMA: the rounding error of `cl3` — the total
error, Fast2Sum being exact — is at most `2u² = 2^-105` times the exact product. -/
theorem dwtimesfp_err {xh xl f Q : Int} {U : Nat} (hU : 0 < U) (hfix : xh = rnI (xh + xl))
    (hQ : xh * f = Q * (U : Int)) (hlow : xh * f = 0 ∨ 2 ^ 105 * (U : Int) ≤ |xh * f|) :
    2 ^ 105 * |(xl * f + (Q - rnI Q) * (U : Int)) + -(rqI (xl * f + (Q - rnI Q) * (U : Int)) U) * (U : Int)|
      ≤ |(xh + xl) * f| := by
  have hUi : (0 : Int) < (U : Int) := Int.natCast_pos.2 hU
  have hl := half_ulp_of_fix hfix
  have h53 : 2 ^ 53 * |xl| ≤ |xh| := by
    have := two_pow_mul_le_of_half_ulp hl
    rw [← Int.natCast_natAbs xl, ← Int.natCast_natAbs xh]
    exact_mod_cast this
  rcases hlow with h0 | hlow
  · have hQ0 : Q = 0 := by
      rw [h0] at hQ
      rcases mul_eq_zero.1 hQ.symm with h | h
      · exact h
      · omega
    have hxl : xl * f = 0 := by
      rcases mul_eq_zero.1 h0 with h | h
      · have : |xl| = 0 := by
          rw [h, abs_zero] at h53
          have := abs_nonneg xl
          omega
        rw [abs_eq_zero.1 this, zero_mul]
      · rw [h, mul_zero]
    rw [hxl, hQ0, rnI_zero]
    simp only [sub_self, zero_mul, add_zero, rqI_zero, neg_zero, abs_zero, mul_zero]
    exact abs_nonneg _
  · have he := abs_sub_rqI_mul (xl * f + (Q - rnI Q) * (U : Int)) hU
    have hA : |xh * f| = |Q| * (U : Int) := by rw [hQ, abs_mul, abs_of_pos hUi]
    have h1 : 2 ^ 53 * |xl * f| ≤ |xh * f| := by
      rw [abs_mul, abs_mul, ← mul_assoc]
      exact mul_le_mul_of_nonneg_right h53 (abs_nonneg f)
    have h6 : |xh * f| ≤ |(xh + xl) * f| + |xl * f| := by
      have := abs_add_le ((xh + xl) * f) (-(xl * f))
      rw [abs_neg] at this
      have e : (xh + xl) * f + -(xl * f) = xh * f := by ring
      rwa [e] at this
    have h7 : |(xh + xl) * f| < |xh * f| → (2 ^ 53 + 2) * |xl * f| ≤ |xh * f| := by
      intro h
      rw [abs_mul, abs_mul] at h
      have h' : |xh + xl| < |xh| := lt_of_mul_lt_mul_right h (abs_nonneg f)
      have := fix_opposite hfix h'
      rw [abs_mul, abs_mul, ← mul_assoc]
      exact mul_le_mul_of_nonneg_right this (abs_nonneg f)
    have h2 : |xl * f + (Q - rnI Q) * (U : Int)| ≤ |xl * f| + |Q - rnI Q| * (U : Int) := by
      have := abs_add_le (xl * f) ((Q - rnI Q) * (U : Int))
      rwa [abs_mul (Q - rnI Q), abs_of_pos hUi] at this
    have hC : ∀ j : Nat, |xh * f| < 2 ^ 53 * 2 ^ j * (U : Int) →
        2 * (|Q - rnI Q| * (U : Int)) ≤ 2 ^ j * (U : Int) := by
      intro j h
      rw [hA] at h
      have hq : |Q| < 2 ^ 53 * 2 ^ j := lt_of_mul_lt_mul_right h (le_of_lt hUi)
      have hk := ulpexp_le_of_abs_lt hq
      have ew := two_mul_abs_rnI_sub_le Q
      rw [abs_sub_comm] at ew
      push_cast at ew
      have hp : (2 : Int) ^ (Nat.log2 Q.natAbs - 52) ≤ 2 ^ j := pow_le_pow_right₀ (by norm_num) hk
      have h3 : 2 * |Q - rnI Q| ≤ 2 ^ j := le_trans ew hp
      rw [← mul_assoc]
      exact mul_le_mul_of_nonneg_right h3 (le_of_lt hUi)
    by_cases hk : Nat.log2 ((xl * f + (Q - rnI Q) * (U : Int)).natAbs / U) - 52 = 0
    · rw [hk, pow_zero, mul_one] at he
      omega
    · have h3 : 2 ^ 52 * ((U : Int) * 2 ^ (Nat.log2 ((xl * f + (Q - rnI Q) * (U : Int)).natAbs / U) - 52))
          ≤ |xl * f + (Q - rnI Q) * (U : Int)| := by
        have := quot_ulp_le hU hk
        rw [← Int.natCast_natAbs (xl * f + (Q - rnI Q) * (U : Int))]
        exact_mod_cast this
      have hC1 := hC (51 + (Nat.log2 ((xl * f + (Q - rnI Q) * (U : Int)).natAbs / U) - 52))
      have hC2 := hC (52 + (Nat.log2 ((xl * f + (Q - rnI Q) * (U : Int)).natAbs / U) - 52))
      rw [pow_add] at hC1 hC2
      generalize Nat.log2 ((xl * f + (Q - rnI Q) * (U : Int)).natAbs / U) - 52 = k at *
      have e1 : (2 : Int) ^ 53 * (2 ^ 51 * 2 ^ k) * (U : Int) = 2 ^ 104 * ((U : Int) * 2 ^ k) := by ring
      have e2 : (2 : Int) ^ 51 * 2 ^ k * (U : Int) = 2 ^ 51 * ((U : Int) * 2 ^ k) := by ring
      have e3 : (2 : Int) ^ 53 * (2 ^ 52 * 2 ^ k) * (U : Int) = 2 ^ 105 * ((U : Int) * 2 ^ k) := by ring
      have e4 : (2 : Int) ^ 52 * 2 ^ k * (U : Int) = 2 ^ 52 * ((U : Int) * 2 ^ k) := by ring
      rw [e1, e2] at hC1
      rw [e3, e4] at hC2
      have pK : 0 < (U : Int) * 2 ^ k := mul_pos hUi (two_pow_pos' k)
      generalize (U : Int) * 2 ^ k = K at *
      rcases lt_or_ge |xh * f| (2 ^ 104 * K) with hc | hc
      · have := hC1 hc
        omega
      · rcases lt_or_ge |(xh + xl) * f| (2 ^ 104 * K) with hx | hx
        · have h7' := h7 (by omega)
          have := hC2 (by omega)
          omega
        · omega

end F64

/-! ## 5. DWTimesFP3 on the model -/

namespace F64

theorem unit_cast_eq : ((unit : Nat) : Int) = 2 ^ 1074 := by
  rw [unit_eq]; push_cast

theorem two_pow_3169 : (2 : Int) ^ 3169 = 2 ^ 2095 * 2 ^ 1074 := by rw [← pow_add]
theorem two_pow_1188 : (2 : Int) ^ 1188 = 2 ^ 114 * 2 ^ 1074 := by rw [← pow_add]

/-- the magnitude facts of DWTimesFP3: the FMA result is bounded by the rounded product -/
theorem dwtimesfp_mag {xh xl f Q : Int} (hfix : xh = rnI (xh + xl))
    (hQ : xh * f = Q * (unit : Int)) (hc : RepI (Q - rnI Q)) :
    roundQ (xl * f + (Q - rnI Q) * (unit : Int)).natAbs unit ≤ (rnI Q).natAbs := by
  have hl := half_ulp_of_fix hfix
  have hL := two_pow_mul_le_of_half_ulp hl
  have hXY : xh.natAbs * f.natAbs = Q.natAbs * unit := by
    have := congrArg Int.natAbs hQ
    rwa [Int.natAbs_mul, Int.natAbs_mul, Int.natAbs_natCast] at this
  by_cases hQ0 : Q = 0
  · have h0 : xh * f = 0 := by rw [hQ, hQ0, zero_mul]
    have hxl : xl * f = 0 := by
      rcases mul_eq_zero.1 h0 with h | h
      · rw [h, Int.natAbs_zero] at hL
        have : xl.natAbs = 0 := by omega
        rw [Int.natAbs_eq_zero.1 this, zero_mul]
      · rw [h, mul_zero]
    rw [hxl, hQ0, rnI_zero]
    simp
  · have hdiv : xh.natAbs * f.natAbs / unit = Q.natAbs := by
      rw [hXY, Nat.mul_div_cancel _ unit_pos]
    have hD : 2 * ((Q - rnI Q).natAbs * unit)
        ≤ unit * 2 ^ (Nat.log2 (xh.natAbs * f.natAbs / unit) - 52) := by
      rw [hdiv]
      have h1 := two_mul_abs_rnI_sub_le Q
      rw [abs_sub_comm, ← Int.natCast_natAbs] at h1
      have h2 : 2 * (Q - rnI Q).natAbs ≤ 2 ^ (Nat.log2 Q.natAbs - 52) := by exact_mod_cast h1
      calc 2 * ((Q - rnI Q).natAbs * unit) = (2 * (Q - rnI Q).natAbs) * unit := by ring
        _ ≤ 2 ^ (Nat.log2 Q.natAbs - 52) * unit := Nat.mul_le_mul_right _ h2
        _ = unit * 2 ^ (Nat.log2 Q.natAbs - 52) := Nat.mul_comm _ _
    have hN : (xl * f + (Q - rnI Q) * (unit : Int)).natAbs
        ≤ xl.natAbs * f.natAbs + roundQ ((Q - rnI Q).natAbs * unit) unit * unit := by
      rw [roundQ_mul_of_rep unit_pos hc]
      refine le_trans (Int.natAbs_add_le _ _) ?_
      rw [Int.natAbs_mul, Int.natAbs_mul, Int.natAbs_natCast]
    have key := dwtimesfp_nat unit_pos hL hD hN
    have hch : roundQ (xh.natAbs * f.natAbs) unit = (rnI Q).natAbs := by
      rw [hXY, roundQ_mul_right_eq_rn53 _ _ unit_pos, natAbs_rnI]
    rw [hch] at key
    rcases key with k0 | k1
    · exact absurd (rnI_eq_zero_iff.1 (Int.natAbs_eq_zero.1 k0)) hQ0
    · exact k1

end F64

namespace TwoFloat

open F64

/-- **C04, `TwoFloat * f64` (DWTimesFP3, relative error `≤ 2u² = 2^-105`).**  The product of the high word and
the factor is `0`, or in `[2^-960, 2^1021)` (scaled by `2^-2148`: `[2^1188, 2^3169)`): no underflow in the
error-free product, no overflow.  The exact product `x·f` is `x.V * f.toInt` in units of `2^-2148`, the result is
`r.V * 2^1074` in the same units. -/
theorem mul_tf_bound {x : TwoFloat} {f : F64} (hv : x.Valid) (hw : x.WF)
    (hff : f.is_finite = true) (hwf : f.WF)
    (hr : x.hi.toInt * f.toInt = 0 ∨
      ((2 : Int) ^ 1188 ≤ |x.hi.toInt * f.toInt| ∧ |x.hi.toInt * f.toInt| < (2 : Int) ^ 3169)) :
    (arithmetic.impl_Mul_rf64_for_rTwoFloat.mul x f).Valid ∧
    |(arithmetic.impl_Mul_rf64_for_rTwoFloat.mul x f).V * (unit : Int) - x.V * f.toInt| * 2 ^ 105
      ≤ |x.V * f.toInt| := by
  rw [mul_tf_eq]
  have hr' : x.hi.toInt * f.toInt = 0 ∨
      ((2 : Int) ^ 1188 ≤ |x.hi.toInt * f.toInt| ∧ |x.hi.toInt * f.toInt| < (2 : Int) ^ 3171) := by
    rcases hr with h | ⟨h1, h2⟩
    · exact Or.inl h
    · exact Or.inr ⟨h1, lt_trans h2 (pow_lt_pow_right₀ (by norm_num) (by norm_num))⟩
  obtain ⟨Q, hQ, wh, wl⟩ := new_mul_words hv.1 hff hw.1 hwf hr'
  have hfix := hv.rnI_eq
  have hc : RepI (Q - rnI Q) := wl.repI (new_mul_WF _ _).2
  have hUi : (0 : Int) < (unit : Int) := Int.natCast_pos.2 unit_pos
  -- magnitude of `Q`
  have hQlt : |Q| < 2 ^ 2095 := by
    rcases hr with h | ⟨_, h2⟩
    · rw [h] at hQ
      rcases mul_eq_zero.1 hQ.symm with h | h
      · rw [h, abs_zero]; positivity
      · omega
    · rw [hQ, abs_mul, abs_of_pos hUi, two_pow_3169, unit_cast_eq] at h2
      exact lt_of_mul_lt_mul_right h2 (by positivity)
  have hch_le : |rnI Q| ≤ 2 ^ 2095 := by
    have := abs_rnI_le (v := Q) (repI_two_pow 2095) (by rw [abs_two_pow]; exact le_of_lt hQlt)
    rwa [abs_two_pow] at this
  have hmag := dwtimesfp_mag hfix hQ hc
  have hch_nat : (rnI Q).natAbs ≤ 2 ^ 2095 := by
    apply natAbs_le_of_abs_le
    rw [Int.natCast_pow]; exact hch_le
  have h2095 : 2 ^ 2095 ≤ maxFin :=
    Nat.le_trans (Nat.pow_le_pow_right (by norm_num) (by norm_num)) two_pow_2097_le_maxFin
  -- the FMA
  have v3 := fma_spec hv.2.1 hff wl.1 (by rw [wl.2]; exact Nat.le_trans hmag (Nat.le_trans hch_nat h2095))
  rw [wl.2] at v3
  -- the closing Fast2Sum
  have hab : |(F64.fma x.lo f (TwoFloat.new_mul x.hi f).lo).toInt| ≤ |(TwoFloat.new_mul x.hi f).hi.toInt| := by
    rw [v3.2, wh.2, ← Int.natCast_natAbs, ← Int.natCast_natAbs (rnI Q), natAbs_rqI]
    exact_mod_cast hmag
  have hov : rn53 ((TwoFloat.new_mul x.hi f).hi.toInt +
      (F64.fma x.lo f (TwoFloat.new_mul x.hi f).lo).toInt).natAbs ≤ maxFin := by
    refine Nat.le_trans (rn53_le_pow (k := 2097) ?_) two_pow_2097_le_maxFin
    apply natAbs_le_of_abs_le
    rw [natCast_two_pow_2097]
    have := abs_add_le (TwoFloat.new_mul x.hi f).hi.toInt (F64.fma x.lo f (TwoFloat.new_mul x.hi f).lo).toInt
    rw [wh.2] at hab this ⊢
    omega
  have key := fast_two_sum_spec wh.1 v3.1 (new_mul_WF _ _).1 (fma_WF _ _ _) hab hov
  refine ⟨key.2.2.1, ?_⟩
  rw [key.2.1, wh.2, v3.2]
  have hlow : x.hi.toInt * f.toInt = 0 ∨ 2 ^ 105 * (unit : Int) ≤ |x.hi.toInt * f.toInt| := by
    rcases hr with h | ⟨h1, _⟩
    · exact Or.inl h
    · refine Or.inr (le_trans ?_ h1)
      rw [two_pow_1188, unit_cast_eq]
      exact mul_le_mul_of_nonneg_right (pow_le_pow_right₀ (by norm_num) (by norm_num)) (by positivity)
  have h := dwtimesfp_err unit_pos hfix hQ hlow
  have e : (rnI Q + rqI (x.lo.toInt * f.toInt + (Q - rnI Q) * (unit : Int)) unit) * (unit : Int)
        - x.V * f.toInt
      = -((x.lo.toInt * f.toInt + (Q - rnI Q) * (unit : Int))
          + -(rqI (x.lo.toInt * f.toInt + (Q - rnI Q) * (unit : Int)) unit) * (unit : Int)) := by
    unfold TwoFloat.V
    have : (x.hi.toInt + x.lo.toInt) * f.toInt = Q * (unit : Int) + x.lo.toInt * f.toInt := by
      rw [← hQ]; ring
    rw [this]; ring
  rw [e, abs_neg, mul_comm]
  unfold TwoFloat.V
  exact h

/-- **C04, `f64 * TwoFloat`** (the same computation as `TwoFloat * f64`) -/
theorem mul_ft_bound {x : TwoFloat} {f : F64} (hv : x.Valid) (hw : x.WF)
    (hff : f.is_finite = true) (hwf : f.WF)
    (hr : x.hi.toInt * f.toInt = 0 ∨
      ((2 : Int) ^ 1188 ≤ |x.hi.toInt * f.toInt| ∧ |x.hi.toInt * f.toInt| < (2 : Int) ^ 3169)) :
    (arithmetic.impl_Mul_rTwoFloat_for_rf64.mul f x).Valid ∧
    |(arithmetic.impl_Mul_rTwoFloat_for_rf64.mul f x).V * (unit : Int) - f.toInt * x.V| * 2 ^ 105
      ≤ |f.toInt * x.V| := by
  have := mul_tf_bound hv hw hff hwf hr
  rw [mul_comm f.toInt]
  exact this

end TwoFloat

/-! ## 6. AccurateDWPlusDW on integers -/

namespace F64

theorem le_ulpexp_of_le_abs {z : Int} {e : Nat} (h : 2 ^ 52 * 2 ^ e ≤ |z|) : e ≤ Nat.log2 z.natAbs - 52 := by
  apply le_log2_sub
  rw [← Int.natCast_natAbs z] at h
  exact_mod_cast h

/-- AccurateDWPlusDW, the case of an inexact high sum (`sl ≠ 0`) -/
theorem dwplusdw_err_inexact {xh xl yh yl : Int} (hxh : RepI xh) (hyh : RepI yh)
    (hx : 2 * |xl| ≤ 2 ^ (Nat.log2 xh.natAbs - 52)) (hy : 2 * |yl| ≤ 2 ^ (Nat.log2 yh.natAbs - 52))
    (hexy : Nat.log2 yh.natAbs - 52 ≤ Nat.log2 xh.natAbs - 52)
    {sh sl th tl c vh vl w : Int}
    (hsh : sh = rnI (xh + yh)) (hsl : sl = xh + yh - sh) (hth : th = rnI (xl + yl)) (htl : tl = xl + yl - th)
    (hc : c = rnI (sl + th)) (hvh : vh = rnI (sh + c)) (hvl : vl = sh + c - vh) (hw : w = rnI (tl + vl))
    (hne : sl ≠ 0) :
    2 ^ 159 * |(c - (sl + th)) + (w - (tl + vl))| ≤ (3 * 2 ^ 53 + 13) * |xh + yh + (xl + yl)| := by
  have dx := hxh.ulp_dvd
  have dy := hyh.ulp_dvd
  have by' := abs_lt_ulp_mul yh
  have hxS : |xh| ≤ |xh + yh| + |yh| := by
    have := abs_add_le (xh + yh) (-yh)
    rwa [abs_neg, add_neg_cancel_right] at this
  have hTb := abs_add_le xl yl
  generalize hS : xh + yh = S at *
  generalize hT : xl + yl = T at *
  have hnr : ¬ RepI S := fun hr => hne (by rw [hsl, hsh, rnI_of_repI hr]; ring)
  have heS : Nat.log2 S.natAbs - 52 ≠ 0 := by
    intro h0
    exact hnr (repI_of_dvd_ulp (k := 0) (by simp) (by omega))
  have hbe : Nat.log2 yh.natAbs - 52 < Nat.log2 S.natAbs - 52 := by
    by_contra hcon
    apply hnr
    apply repI_of_dvd_ulp (k := Nat.log2 S.natAbs - 52) _ (le_refl _)
    have hd : (2 : Int) ^ (Nat.log2 S.natAbs - 52) ∣ xh + yh :=
      dvd_add (dvd_trans (pow_dvd_pow 2 (by omega)) dx) (dvd_trans (pow_dvd_pow 2 (by omega)) dy)
    rwa [hS] at hd
  have lS := ulp_mul_le_abs heS
  have bS := abs_lt_ulp_mul S
  have h2b := two_mul_pow_le_of_lt hbe
  have pB := two_pow_pos' (Nat.log2 yh.natAbs - 52)
  have hae : Nat.log2 xh.natAbs - 52 ≤ Nat.log2 S.natAbs - 52 + 1 := by
    apply ulpexp_le_of_abs_lt
    rw [pow_succ]
    omega
  have h2a : (2 : Int) ^ (Nat.log2 xh.natAbs - 52) ≤ 2 ^ (Nat.log2 S.natAbs - 52 + 1) :=
    pow_le_pow_right₀ (by norm_num) hae
  -- the high sum
  have hSh := ulp_mul_le_abs_rnI heS
  have hShU : |rnI S| ≤ 2 ^ 53 * 2 ^ (Nat.log2 S.natAbs - 52) := by
    have hr : RepI ((2 : Int) ^ 53 * 2 ^ (Nat.log2 S.natAbs - 52)) := by
      rw [← pow_add]; exact repI_two_pow _
    have hp : (0 : Int) < 2 ^ 53 * 2 ^ (Nat.log2 S.natAbs - 52) := by positivity
    have := abs_rnI_le (v := S) hr (by rw [abs_of_pos hp]; omega)
    rwa [abs_of_pos hp] at this
  have hsl2 : 2 * |sl| ≤ 2 ^ (Nat.log2 S.natAbs - 52) := by
    have := two_mul_abs_rnI_sub_le S
    rw [abs_sub_comm] at this
    push_cast at this
    rw [hsl, hsh]; exact this
  obtain ⟨e, he⟩ : ∃ e, Nat.log2 S.natAbs - 52 = e + 1 := ⟨Nat.log2 S.natAbs - 52 - 1, by omega⟩
  rw [he] at lS bS h2b h2a hSh hShU hsl2
  have e2 : (2 : Int) ^ (e + 1 + 1) = 2 ^ e * 2 * 2 := by rw [pow_succ, pow_succ]
  have e1 : (2 : Int) ^ (e + 1) = 2 ^ e * 2 := pow_succ _ _
  have pE := two_pow_pos' e
  -- the low sum
  have hTlt : |T| < 2 ^ (e + 1 + 1) := by rw [e2]; rw [e2] at h2a; rw [e1] at h2b; omega
  have htl54 := err_le_of_abs_lt_pow hTlt
  rw [abs_sub_comm, ← hth, ← htl] at htl54
  have hthb : |th| ≤ |T| + |tl| := by
    have := abs_add_le T (-tl)
    rw [abs_neg] at this
    have e : T + -tl = th := by rw [htl]; ring
    rwa [e] at this
  have hslth := abs_add_le sl th
  have hclt : |sl + th| < 2 ^ (e + 1 + 1) := by
    rw [e2] at h2a htl54 ⊢; rw [e1] at h2b hsl2; omega
  have herr1 := err_le_of_abs_lt_pow hclt
  rw [← hc] at herr1
  have hcb : |c| ≤ 2 ^ (e + 1 + 1) := by
    have := abs_rnI_le (v := sl + th) (repI_two_pow (e + 1 + 1)) (by rw [abs_two_pow]; exact le_of_lt hclt)
    rwa [abs_two_pow, ← hc] at this
  rw [← hsh] at hSh hShU
  -- `V = sh + c`
  have hVl : |sh| ≤ |sh + c| + |c| := by
    have := abs_add_le (sh + c) (-c)
    rwa [abs_neg, add_neg_cancel_right] at this
  have hVu := abs_add_le sh c
  -- the exact sum is `V - ε1 + tl`
  have hZ : |sh + c| ≤ |S + T| + |c - (sl + th)| + |tl| := by
    have h1 := abs_add_le (S + T + (c - (sl + th))) (-tl)
    have h2 := abs_add_le (S + T) (c - (sl + th))
    rw [abs_neg] at h1
    have e : S + T + (c - (sl + th)) + -tl = sh + c := by rw [hsl, htl]; ring
    rw [e] at h1
    omega
  have hfin := abs_add_le (c - (sl + th)) (w - (tl + vl))
  generalize hV : sh + c = V at *
  have hqU : Nat.log2 V.natAbs - 52 ≤ e + 1 + 1 := by
    apply ulpexp_le_of_abs_lt
    rw [e2]; rw [e2] at hcb; rw [e1] at hShU; omega
  have hqL : e ≤ Nat.log2 V.natAbs - 52 := by
    apply le_ulpexp_of_le_abs
    rw [e2] at hcb; rw [e1] at hSh; omega
  have hvl2 : 2 * |vl| ≤ 2 ^ (Nat.log2 V.natAbs - 52) := by
    have := two_mul_abs_rnI_sub_le V
    rw [abs_sub_comm] at this
    push_cast at this
    rw [hvl, hvh]; exact this
  have lV := @ulp_mul_le_abs V
  have htv := abs_add_le tl vl
  rw [e2] at hcb herr1 htl54
  rw [e1] at hSh hShU
  have hcases : Nat.log2 V.natAbs - 52 = e ∨ Nat.log2 V.natAbs - 52 = e + 1 ∨
      Nat.log2 V.natAbs - 52 = e + 1 + 1 := by omega
  rcases hcases with hq | hq | hq
  · rw [hq] at hvl2
    have herr2 := err_le_of_abs_le_pow (w := tl + vl) (m := e) (by omega)
    rw [← hw] at herr2
    generalize (2 : Int) ^ e = E at *
    omega
  · rw [hq] at hvl2 lV
    have lV' := lV (by omega)
    have herr2 := err_le_of_abs_le_pow (w := tl + vl) (m := e + 1) (by rw [e1]; rw [e1] at hvl2; omega)
    rw [← hw] at herr2
    rw [e1] at herr2 lV'
    generalize (2 : Int) ^ e = E at *
    omega
  · rw [hq] at hvl2 lV
    have lV' := lV (by omega)
    have herr2 := err_le_of_abs_le_pow (w := tl + vl) (m := e + 1 + 1) (by rw [e2]; rw [e2] at hvl2; omega)
    rw [← hw] at herr2
    rw [e2] at herr2 lV'
    generalize (2 : Int) ^ e = E at *
    omega

/-- AccurateDWPlusDW, the case of an exact high sum (`sl = 0`): only the last addition rounds -/
theorem dwplusdw_err_exact {xh xl yh yl : Int} (hxh : RepI xh) (hyh : RepI yh) (hxl : RepI xl) (hyl : RepI yl)
    (hx : 2 * |xl| ≤ 2 ^ (Nat.log2 xh.natAbs - 52)) (hy : 2 * |yl| ≤ 2 ^ (Nat.log2 yh.natAbs - 52))
    (hexy : Nat.log2 yh.natAbs - 52 ≤ Nat.log2 xh.natAbs - 52)
    {sh sl th tl c vh vl w : Int}
    (hsh : sh = rnI (xh + yh)) (hsl : sl = xh + yh - sh) (hth : th = rnI (xl + yl)) (htl : tl = xl + yl - th)
    (hc : c = rnI (sl + th)) (hvh : vh = rnI (sh + c)) (hvl : vl = sh + c - vh) (hw : w = rnI (tl + vl))
    (h0 : sl = 0) :
    2 ^ 159 * |(c - (sl + th)) + (w - (tl + vl))| ≤ (3 * 2 ^ 53 + 13) * |xh + yh + (xl + yl)| := by
  have dx := hxh.ulp_dvd
  have dy := hyh.ulp_dvd
  have by' := abs_lt_ulp_mul yh
  have lx := @ulp_mul_le_abs xh
  have hTb := abs_add_le xl yl
  have hrtl : RepI tl := by rw [htl, hth]; exact repI_add_err hxl hyl
  have hule : (2 : Int) ^ (Nat.log2 yh.natAbs - 52) ≤ 2 ^ (Nat.log2 xh.natAbs - 52) :=
    pow_le_pow_right₀ (by norm_num) hexy
  have pA := two_pow_pos' (Nat.log2 xh.natAbs - 52)
  have pB := two_pow_pos' (Nat.log2 yh.natAbs - 52)
  have hc' : c = th := by rw [hc, h0, zero_add, hth, rnI_of_repI (repI_rnI _)]
  have hshS : sh = xh + yh := by omega
  have e1 : c - (sl + th) = 0 := by rw [hc', h0]; ring
  rw [e1, zero_add]
  by_cases hvl0 : vl = 0
  · rw [hw, hvl0, add_zero, rnI_of_repI hrtl, sub_self, abs_zero, mul_zero]
    exact mul_nonneg (by norm_num) (abs_nonneg _)
  · have hxV : |xh| ≤ |sh + c| + |yh| + |th| := by
      have h1 := abs_add_le (sh + c + -yh) (-th)
      have h2 := abs_add_le (sh + c) (-yh)
      rw [abs_neg] at h1 h2
      have e : sh + c + -yh + -th = xh := by rw [hshS, hc']; ring
      rw [e] at h1
      omega
    have hdV : ∀ k : Nat, k ≤ Nat.log2 yh.natAbs - 52 → (2 : Int) ^ k ∣ th → (2 : Int) ^ k ∣ sh + c := by
      intro k hk hd
      rw [hshS, hc']
      exact dvd_add (dvd_add (dvd_trans (pow_dvd_pow 2 (by omega)) dx) (dvd_trans (pow_dvd_pow 2 hk) dy)) hd
    have hZ : |sh + c| ≤ |xh + yh + (xl + yl)| + |tl| := by
      have := abs_add_le (xh + yh + (xl + yl)) (-tl)
      rw [abs_neg] at this
      have e : xh + yh + (xl + yl) + -tl = sh + c := by rw [hshS, hc', htl]; ring
      rwa [e] at this
    generalize hT : xl + yl = T at *
    generalize hV : sh + c = V at *
    have hnr : ¬ RepI V := fun hr => hvl0 (by rw [hvl, hvh, rnI_of_repI hr]; ring)
    have heV : Nat.log2 V.natAbs - 52 ≠ 0 := by
      intro h0
      exact hnr (repI_of_dvd_ulp (k := 0) (by simp) (by omega))
    have lV := ulp_mul_le_abs heV
    have bV := abs_lt_ulp_mul V
    have pQ := two_pow_pos' (Nat.log2 V.natAbs - 52)
    have hvl2 : 2 * |vl| ≤ 2 ^ (Nat.log2 V.natAbs - 52) := by
      have := two_mul_abs_rnI_sub_le V
      rw [abs_sub_comm] at this
      push_cast at this
      rw [hvl, hvh]; exact this
    have htl2 : 2 * |tl| ≤ 2 ^ (Nat.log2 T.natAbs - 52) := by
      have := two_mul_abs_rnI_sub_le T
      rw [abs_sub_comm] at this
      push_cast at this
      rw [htl, hth]; exact this
    have hkey : 2 * |tl| ≤ 2 ^ (Nat.log2 V.natAbs - 52) := by
      by_contra hcon
      have hlt : Nat.log2 V.natAbs - 52 < Nat.log2 T.natAbs - 52 := by
        by_contra hc2
        have : (2 : Int) ^ (Nat.log2 T.natAbs - 52) ≤ 2 ^ (Nat.log2 V.natAbs - 52) :=
          pow_le_pow_right₀ (by norm_num) (by omega)
        omega
      have h2q := two_mul_pow_le_of_lt hlt
      have lT := ulp_mul_le_abs (z := T) (by omega)
      have dth : (2 : Int) ^ (Nat.log2 V.natAbs - 52) ∣ th := by
        have h1 := (repI_rnI T).ulp_dvd
        have h2 := ulpexp_le_ulpexp_rnI T
        rw [hth]
        exact dvd_trans (pow_dvd_pow 2 (by omega)) h1
      have hbq : Nat.log2 yh.natAbs - 52 < Nat.log2 V.natAbs - 52 := by
        by_contra hc2
        exact hnr (repI_of_dvd_ulp (k := Nat.log2 V.natAbs - 52) (hdV _ (by omega) dth) (le_refl _))
      have h2b := two_mul_pow_le_of_lt hbq
      have ha0 : Nat.log2 xh.natAbs - 52 ≠ 0 := by
        intro ha
        rw [ha, pow_zero] at hx hule
        omega
      have lx' := lx ha0
      have hthb : |th| ≤ 2 ^ (Nat.log2 xh.natAbs - 52) := by
        have := abs_rnI_le (v := T) (repI_two_pow (Nat.log2 xh.natAbs - 52)) (by rw [abs_two_pow]; omega)
        rwa [abs_two_pow, ← hth] at this
      generalize (2 : Int) ^ (Nat.log2 xh.natAbs - 52) = A at *
      generalize (2 : Int) ^ (Nat.log2 yh.natAbs - 52) = B at *
      generalize (2 : Int) ^ (Nat.log2 V.natAbs - 52) = Q at *
      generalize (2 : Int) ^ (Nat.log2 T.natAbs - 52) = K at *
      omega
    have htv := abs_add_le tl vl
    have herr2 := err_le_of_abs_le_pow (w := tl + vl) (m := Nat.log2 V.natAbs - 52) (by omega)
    rw [← hw] at herr2
    generalize (2 : Int) ^ (Nat.log2 V.natAbs - 52) = Q at *
    omega

/-- **AccurateDWPlusDW (Joldes–Muller–Popescu 2017, Algorithm 6, Theorem 3.1), scaled integers.**
`(xh, xl)`, `(yh, yl)` pairs of doubles with low words at most half an ulp of the high words;
`(sh, sl) = 2Sum(xh, yh)`, `(th, tl) = 2Sum(xl, yl)`, `c = RN(sl + th)`, `(vh, vl) = Fast2Sum(sh, c)`,
`w = RN(tl + vl)`.  The two rounding errors (of `c` and of `w`) — which make up the total error of the algorithm —
are together at most `3u² + 13u³` times the exact sum (`u = 2^-53`): `2^159·|err| ≤ (3·2^53 + 13)·|x + y|`. -/
theorem dwplusdw_err {xh xl yh yl : Int} (hxh : RepI xh) (hyh : RepI yh) (hxl : RepI xl) (hyl : RepI yl)
    (hx : 2 * |xl| ≤ 2 ^ (Nat.log2 xh.natAbs - 52)) (hy : 2 * |yl| ≤ 2 ^ (Nat.log2 yh.natAbs - 52))
    {sh sl th tl c vh vl w : Int}
    (hsh : sh = rnI (xh + yh)) (hsl : sl = xh + yh - sh) (hth : th = rnI (xl + yl)) (htl : tl = xl + yl - th)
    (hc : c = rnI (sl + th)) (hvh : vh = rnI (sh + c)) (hvl : vl = sh + c - vh) (hw : w = rnI (tl + vl)) :
    2 ^ 159 * |(c - (sl + th)) + (w - (tl + vl))| ≤ (3 * 2 ^ 53 + 13) * |xh + yh + (xl + yl)| := by
  rcases Nat.le_total (Nat.log2 yh.natAbs - 52) (Nat.log2 xh.natAbs - 52) with hexy | hexy
  · by_cases h0 : sl = 0
    · exact dwplusdw_err_exact hxh hyh hxl hyl hx hy hexy hsh hsl hth htl hc hvh hvl hw h0
    · exact dwplusdw_err_inexact hxh hyh hx hy hexy hsh hsl hth htl hc hvh hvl hw h0
  · rw [add_comm xh yh] at hsh hsl
    rw [add_comm xl yl] at hth htl
    rw [add_comm xh yh, add_comm xl yl]
    by_cases h0 : sl = 0
    · exact dwplusdw_err_exact hyh hxh hyl hxl hy hx hexy hsh hsl hth htl hc hvh hvl hw h0
    · exact dwplusdw_err_inexact hyh hxh hy hx hexy hsh hsl hth htl hc hvh hvl hw h0

end F64

/-! ## 7. AccurateDWPlusDW on the model -/

namespace F64

open TwoFloat

theorem abs_lo_le_of_half_ulp {h l : Int} (hl : 2 * |l| ≤ 2 ^ (Nat.log2 h.natAbs - 52)) : 2 ^ 53 * |l| ≤ |h| := by
  have := two_pow_mul_le_of_half_ulp hl
  rw [← Int.natCast_natAbs l, ← Int.natCast_natAbs h]
  exact_mod_cast this

theorem abs_rnI_le_pow {v : Int} {k : Nat} (h : |v| ≤ 2 ^ k) : |rnI v| ≤ 2 ^ k := by
  have := abs_rnI_le (v := v) (repI_two_pow k) (by rwa [abs_two_pow])
  rwa [abs_two_pow] at this

theorem rn53_natAbs_le_of_abs_le_2097 {z : Int} (h : |z| ≤ 2 ^ 2097) : rn53 z.natAbs ≤ maxFin := by
  refine Nat.le_trans (rn53_le_pow (k := 2097) ?_) two_pow_2097_le_maxFin
  apply natAbs_le_of_abs_le
  rw [Int.natCast_pow]
  exact h

theorem two_pow_2097_le_maxFin_int : (2 : Int) ^ 2097 ≤ (maxFin : Int) := by
  have := two_pow_2097_le_maxFin
  exact_mod_cast this

/-- the tail of `TwoFloat ± TwoFloat` from the values of the two 2Sums: a valid result within
`3u² + 13u³` (relative) of the exact sum -/
theorem dwplusdw_tail {s t : TwoFloat} {xh xl yh yl : Int}
    (hs : s.IsV (rnI (xh + yh)) (xh + yh - rnI (xh + yh)))
    (ht : t.IsV (rnI (xl + yl)) (xl + yl - rnI (xl + yl))) (hws : s.WF)
    (hxh : RepI xh) (hyh : RepI yh) (hxl : RepI xl) (hyl : RepI yl)
    (hx : 2 * |xl| ≤ 2 ^ (Nat.log2 xh.natAbs - 52)) (hy : 2 * |yl| ≤ 2 ^ (Nat.log2 yh.natAbs - 52))
    (bx : |xh| < 2 ^ 2094) (by' : |yh| < 2 ^ 2094) :
    (addCore s t).Valid ∧
    |(addCore s t).V - (xh + yh + (xl + yl))| * 2 ^ 159 ≤ (3 * 2 ^ 53 + 13) * |xh + yh + (xl + yl)| := by
  unfold addCore
  obtain ⟨P1, P2⟩ := dwplusdw_pre hxh hyh hx hy
  -- magnitudes
  have mxl := abs_lo_le_of_half_ulp hx
  have myl := abs_lo_le_of_half_ulp hy
  have mS := abs_add_le xh yh
  have mT := abs_add_le xl yl
  have msh : |rnI (xh + yh)| ≤ 2 ^ 2095 := abs_rnI_le_pow (by omega)
  have msl := rel_err_rnI (xh + yh)
  rw [abs_sub_comm] at msl
  have mth : |rnI (xl + yl)| ≤ 2 ^ 2042 := abs_rnI_le_pow (by omega)
  have mtl : |xl + yl - rnI (xl + yl)| ≤ |yl| := abs_add_err_le_right hxl
  have mc0 := abs_add_le (xh + yh - rnI (xh + yh)) (rnI (xl + yl))
  have mc : |rnI (xh + yh - rnI (xh + yh) + rnI (xl + yl))| ≤ 2 ^ 2043 := abs_rnI_le_pow (by omega)
  have mV0 := abs_add_le (rnI (xh + yh)) (rnI (xh + yh - rnI (xh + yh) + rnI (xl + yl)))
  -- `c`
  have vc := hs.2.add ht.1 (le_trans (by omega) two_pow_2097_le_maxFin_int)
  generalize hcdef : rnI (xh + yh - rnI (xh + yh) + rnI (xl + yl)) = c at *
  -- `v`
  have hov1 : rn53 (s.hi.toInt + (F64.add s.lo t.hi).toInt).natAbs ≤ maxFin := by
    rw [hs.1.2, vc.2]
    exact rn53_natAbs_le_of_abs_le_2097 (by omega)
  have Vw : IsVal (arithmetic.fast_two_sum s.hi (F64.add s.lo t.hi)).hi (rnI (rnI (xh + yh) + c)) ∧
      IsVal (arithmetic.fast_two_sum s.hi (F64.add s.lo t.hi)).lo
        (rnI (xh + yh) + c - rnI (rnI (xh + yh) + c)) := by
    have := (by
      rcases P1 with p | p
      · exact fast_two_sum_words hs.1.1 vc.1 hws.1 (add_WF _ _) (by rw [hs.1.2, vc.2]; exact p) hov1
      · exact fast_two_sum_words_of_dvd hs.1.1 vc.1 hws.1 (add_WF _ _) (by rw [hs.1.2, vc.2]; exact p) hov1 :
      IsVal (arithmetic.fast_two_sum s.hi (F64.add s.lo t.hi)).hi
          (rnI (s.hi.toInt + (F64.add s.lo t.hi).toInt)) ∧
        IsVal (arithmetic.fast_two_sum s.hi (F64.add s.lo t.hi)).lo
          (s.hi.toInt + (F64.add s.lo t.hi).toInt - rnI (s.hi.toInt + (F64.add s.lo t.hi).toInt)))
    rwa [hs.1.2, vc.2] at this
  have mvh : |rnI (rnI (xh + yh) + c)| ≤ 2 ^ 2096 := abs_rnI_le_pow (by omega)
  have mvl : |rnI (xh + yh) + c - rnI (rnI (xh + yh) + c)| ≤ |c| := abs_add_err_le_right (repI_rnI _)
  have mw0 := abs_add_le (xl + yl - rnI (xl + yl)) (rnI (xh + yh) + c - rnI (rnI (xh + yh) + c))
  have mw : |rnI (xl + yl - rnI (xl + yl) + (rnI (xh + yh) + c - rnI (rnI (xh + yh) + c)))| ≤ 2 ^ 2044 :=
    abs_rnI_le_pow (by omega)
  -- `w`
  have vw := ht.2.add Vw.2 (le_trans (by omega) two_pow_2097_le_maxFin_int)
  have mR0 := abs_add_le (rnI (rnI (xh + yh) + c))
    (rnI (xl + yl - rnI (xl + yl) + (rnI (xh + yh) + c - rnI (rnI (xh + yh) + c))))
  have hov2 : rn53 ((arithmetic.fast_two_sum s.hi (F64.add s.lo t.hi)).hi.toInt +
      (F64.add t.lo (arithmetic.fast_two_sum s.hi (F64.add s.lo t.hi)).lo).toInt).natAbs ≤ maxFin := by
    rw [Vw.1.2, vw.2]
    exact rn53_natAbs_le_of_abs_le_2097 (by omega)
  have key : _ ∧ _ ∧ _ ∧ _ := (by
    rcases P2 with p | p
    · exact fast_two_sum_spec_of_dvd Vw.1.1 vw.1 (fast_two_sum_WF _ _).1 (add_WF _ _)
        (by rw [Vw.1.2, p]; exact dvd_zero _) hov2
    · exact fast_two_sum_spec Vw.1.1 vw.1 (fast_two_sum_WF _ _).1 (add_WF _ _)
        (by rw [vw.2, Vw.1.2]; exact abs_rnI_le (repI_rnI _) p) hov2 :
    (arithmetic.fast_two_sum (arithmetic.fast_two_sum s.hi (F64.add s.lo t.hi)).hi
        (F64.add t.lo (arithmetic.fast_two_sum s.hi (F64.add s.lo t.hi)).lo)).hi.toInt = _ ∧
    (arithmetic.fast_two_sum (arithmetic.fast_two_sum s.hi (F64.add s.lo t.hi)).hi
        (F64.add t.lo (arithmetic.fast_two_sum s.hi (F64.add s.lo t.hi)).lo)).V = _ ∧
    (arithmetic.fast_two_sum (arithmetic.fast_two_sum s.hi (F64.add s.lo t.hi)).hi
        (F64.add t.lo (arithmetic.fast_two_sum s.hi (F64.add s.lo t.hi)).lo)).Valid ∧
    (arithmetic.fast_two_sum (arithmetic.fast_two_sum s.hi (F64.add s.lo t.hi)).hi
        (F64.add t.lo (arithmetic.fast_two_sum s.hi (F64.add s.lo t.hi)).lo)).WF)
  refine ⟨key.2.2.1, ?_⟩
  rw [key.2.1, Vw.1.2, vw.2]
  have h := dwplusdw_err hxh hyh hxl hyl hx hy (sh := rnI (xh + yh)) rfl rfl rfl rfl hcdef.symm rfl rfl rfl
  have e : rnI (rnI (xh + yh) + c)
        + rnI (xl + yl - rnI (xl + yl) + (rnI (xh + yh) + c - rnI (rnI (xh + yh) + c)))
        - (xh + yh + (xl + yl))
      = (c - (xh + yh - rnI (xh + yh) + rnI (xl + yl)))
        + (rnI (xl + yl - rnI (xl + yl) + (rnI (xh + yh) + c - rnI (rnI (xh + yh) + c)))
          - (xl + yl - rnI (xl + yl) + (rnI (xh + yh) + c - rnI (rnI (xh + yh) + c)))) := by ring
  rw [e, mul_comm]
  exact h

end F64

namespace TwoFloat

open F64

theorem lt_2097_of_lt_2094 {n : Nat} (h : n < 2 ^ 2094) : n < 2 ^ 2097 :=
  Nat.lt_trans h (Nat.pow_lt_pow_right (by norm_num) (by norm_num))

theorem Valid.two_mul_abs_lo_le_maxFin {x : TwoFloat} (hv : x.Valid) (hw : x.WF)
    (bx : x.hi.toInt.natAbs < 2 ^ 2097) : 2 * |x.lo.toInt| ≤ (maxFin : Int) := by
  have h1 := hw.1.two_mul_abs_le bx
  have h2 := hv.abs_lo_le
  omega

/-- **C03, `TwoFloat + TwoFloat` (AccurateDWPlusDW, relative error `≤ 3u² + 13u³`, `u = 2^-53`).**
High words below `2^1020` in magnitude (scaled: `2^2094`); no lower limit. -/
theorem add_tt_bound {x y : TwoFloat} (hvx : x.Valid) (hwx : x.WF) (hvy : y.Valid) (hwy : y.WF)
    (bx : x.hi.toInt.natAbs < 2 ^ 2094) (by' : y.hi.toInt.natAbs < 2 ^ 2094) :
    (arithmetic.impl_Add_rTwoFloat_for_rTwoFloat.add x y).Valid ∧
    |(arithmetic.impl_Add_rTwoFloat_for_rTwoFloat.add x y).V - (x.V + y.V)| * 2 ^ 159
      ≤ (3 * 2 ^ 53 + 13) * |x.V + y.V| := by
  rw [add_tt_eq]
  have hs := new_add_words hvx.1 hvy.1 hwx.1 hwy.1 (hwx.1.two_mul_abs_le (lt_2097_of_lt_2094 bx))
    (hwy.1.two_mul_abs_le (lt_2097_of_lt_2094 by'))
  have ht := new_add_words hvx.2.1 hvy.2.1 hwx.2 hwy.2
    (hvx.two_mul_abs_lo_le_maxFin hwx (lt_2097_of_lt_2094 bx))
    (hvy.two_mul_abs_lo_le_maxFin hwy (lt_2097_of_lt_2094 by'))
  have := dwplusdw_tail (s := TwoFloat.new_add x.hi y.hi) (t := TwoFloat.new_add x.lo y.lo) hs ht
    (new_add_WF _ _) hwx.1.repI hwy.1.repI hwx.2.repI hwy.2.repI
    hvx.two_mul_abs_lo_le hvy.two_mul_abs_lo_le (natAbs_lt_to_abs bx) (natAbs_lt_to_abs by')
  have e : x.V + y.V = x.hi.toInt + y.hi.toInt + (x.lo.toInt + y.lo.toInt) := by unfold TwoFloat.V; ring
  rw [e]
  exact this

/-- **C03, `TwoFloat - TwoFloat`** -/
theorem sub_tt_bound {x y : TwoFloat} (hvx : x.Valid) (hwx : x.WF) (hvy : y.Valid) (hwy : y.WF)
    (bx : x.hi.toInt.natAbs < 2 ^ 2094) (by' : y.hi.toInt.natAbs < 2 ^ 2094) :
    (arithmetic.impl_Sub_rTwoFloat_for_rTwoFloat.sub x y).Valid ∧
    |(arithmetic.impl_Sub_rTwoFloat_for_rTwoFloat.sub x y).V - (x.V - y.V)| * 2 ^ 159
      ≤ (3 * 2 ^ 53 + 13) * |x.V - y.V| := by
  rw [sub_tt_eq]
  have hs := new_sub_words hvx.1 hvy.1 hwx.1 hwy.1 (hwx.1.two_mul_abs_le (lt_2097_of_lt_2094 bx))
    (hwy.1.two_mul_abs_le (lt_2097_of_lt_2094 by'))
  have ht := new_sub_words hvx.2.1 hvy.2.1 hwx.2 hwy.2
    (hvx.two_mul_abs_lo_le_maxFin hwx (lt_2097_of_lt_2094 bx))
    (hvy.two_mul_abs_lo_le_maxFin hwy (lt_2097_of_lt_2094 by'))
  rw [Int.sub_eq_add_neg] at hs ht
  have hy : 2 * |-y.lo.toInt| ≤ 2 ^ (Nat.log2 (-y.hi.toInt).natAbs - 52) := by
    rw [abs_neg, Int.natAbs_neg]; exact hvy.two_mul_abs_lo_le
  have := dwplusdw_tail (s := TwoFloat.new_sub x.hi y.hi) (t := TwoFloat.new_sub x.lo y.lo) hs ht
    (new_sub_WF _ _) hwx.1.repI hwy.1.repI.neg hwx.2.repI hwy.2.repI.neg
    hvx.two_mul_abs_lo_le hy (natAbs_lt_to_abs bx) (by rw [abs_neg]; exact natAbs_lt_to_abs by')
  have e : x.V - y.V = x.hi.toInt + -y.hi.toInt + (x.lo.toInt + -y.lo.toInt) := by unfold TwoFloat.V; ring
  rw [e]
  exact this

end TwoFloat

/-! ## 8. DWTimesDW3 (`TwoFloat * TwoFloat`) on integers: the first-order bound `7u²` -/

namespace F64

/-- relative-plus-underflow error bound of a rounded quotient: `|p - RN(p/U)·U| ≤ 2^-53 |p| + U/2` -/
theorem rqI_err_le (p : Int) {U : Nat} (hU : 0 < U) :
    2 ^ 53 * |p + -(rqI p U) * (U : Int)| ≤ |p| + 2 ^ 52 * (U : Int) := by
  have he := abs_sub_rqI_mul p hU
  have hUi : (0 : Int) < (U : Int) := Int.natCast_pos.2 hU
  have hp := abs_nonneg p
  by_cases hk : Nat.log2 (p.natAbs / U) - 52 = 0
  · rw [hk, pow_zero, mul_one] at he
    omega
  · have h3 : 2 ^ 52 * ((U : Int) * 2 ^ (Nat.log2 (p.natAbs / U) - 52)) ≤ |p| := by
      have := quot_ulp_le hU hk
      rw [← Int.natCast_natAbs p]
      exact_mod_cast this
    generalize (U : Int) * 2 ^ (Nat.log2 (p.natAbs / U) - 52) = K at *
    omega

/-- **DWTimesDW3 in the crate's form (Joldes–Muller–Popescu 2017, Algorithm 12), scaled integers, first-order
analysis.**  `a = xh·yh = Q·U`, `b1 = xh·yl`, `b2 = xl·yh`, `z = xl·yl` (cross terms at most `2^-53 |a|`, `2^-106 |a|`),
`tl0 = RN(z/U)`, `tl1 = RN((b1 + tl0·U)/U)`, `cl2 = RN((b2 + tl1·U)/U)`, `cl3 = RN(cl1 + cl2)` with
`cl1 = Q - RN(Q)`: the result `RN(Q) + cl3` is within `7u²` of the exact product `a + b1 + b2 + z`
(the paper's constant is `5u²`; the four rounding errors are bounded here by their relative size only). -/
theorem dwtimesdw_err_7u2 {a b1 b2 z Q : Int} {U : Nat} (hU : 0 < U) (ha : a = Q * (U : Int))
    (h1 : 2 ^ 53 * |b1| ≤ |a|) (h2 : 2 ^ 53 * |b2| ≤ |a|) (hz : 2 ^ 106 * |z| ≤ |a|)
    (hlow : 2 ^ 114 * (U : Int) ≤ |a|)
    {tl0 tl1 cl2 cl3 : Int} (ht0 : tl0 = rqI z U) (ht1 : tl1 = rqI (b1 + tl0 * (U : Int)) U)
    (hc2 : cl2 = rqI (b2 + tl1 * (U : Int)) U) (hc3 : cl3 = rnI (Q - rnI Q + cl2)) :
    2 ^ 106 * |(rnI Q + cl3) * (U : Int) - (a + b1 + b2 + z)| ≤ 7 * |a + b1 + b2 + z| := by
  have hUi : (0 : Int) < (U : Int) := Int.natCast_pos.2 hU
  have d1 := rqI_err_le z hU
  have d2 := rqI_err_le (b1 + tl0 * (U : Int)) hU
  have d3 := rqI_err_le (b2 + tl1 * (U : Int)) hU
  rw [← ht0] at d1
  rw [← ht1] at d2
  rw [← hc2] at d3
  have d4 := rel_err_rnI (Q - rnI Q + cl2)
  rw [← hc3] at d4
  have hq := rel_err_rnI Q
  rw [abs_sub_comm] at hq
  -- multiply the integer-level facts by `U`
  have hA : |a| = |Q| * (U : Int) := by rw [ha, abs_mul, abs_of_pos hUi]
  have hc1U : 2 ^ 53 * (|Q - rnI Q| * (U : Int)) ≤ |a| := by
    rw [hA, ← mul_assoc]
    exact mul_le_mul_of_nonneg_right hq (le_of_lt hUi)
  have hc2U : |cl2| * (U : Int) = |cl2 * (U : Int)| := by rw [abs_mul, abs_of_pos hUi]
  have hd4U : 2 ^ 53 * (|cl3 - (Q - rnI Q + cl2)| * (U : Int))
      ≤ |Q - rnI Q| * (U : Int) + |cl2 * (U : Int)| := by
    have h := le_trans d4 (abs_add_le (Q - rnI Q) cl2)
    have := mul_le_mul_of_nonneg_right h (le_of_lt hUi)
    rw [← hc2U]
    linarith
  -- the error is the sum of the four rounding errors
  have herr : (rnI Q + cl3) * (U : Int) - (a + b1 + b2 + z)
      = -((z + -tl0 * (U : Int)) + (b1 + tl0 * (U : Int) + -tl1 * (U : Int))
          + (b2 + tl1 * (U : Int) + -cl2 * (U : Int))) + (cl3 - (Q - rnI Q + cl2)) * (U : Int) := by
    rw [ha]; ring
  have t1 := abs_add_le (-((z + -tl0 * (U : Int)) + (b1 + tl0 * (U : Int) + -tl1 * (U : Int))
          + (b2 + tl1 * (U : Int) + -cl2 * (U : Int)))) ((cl3 - (Q - rnI Q + cl2)) * (U : Int))
  rw [abs_neg, abs_mul (cl3 - (Q - rnI Q + cl2)), abs_of_pos hUi] at t1
  have t2 := abs_add_le ((z + -tl0 * (U : Int)) + (b1 + tl0 * (U : Int) + -tl1 * (U : Int)))
    (b2 + tl1 * (U : Int) + -cl2 * (U : Int))
  have t3 := abs_add_le (z + -tl0 * (U : Int)) (b1 + tl0 * (U : Int) + -tl1 * (U : Int))
  -- magnitudes of the intermediate values
  have m0 : |tl0 * (U : Int)| ≤ |z| + |z + -tl0 * (U : Int)| := by
    have := abs_add_le z (-(z + -tl0 * (U : Int)))
    rw [abs_neg] at this
    have e : z + -(z + -tl0 * (U : Int)) = tl0 * (U : Int) := by ring
    rwa [e] at this
  have n1 := abs_add_le b1 (tl0 * (U : Int))
  have m1 : |tl1 * (U : Int)| ≤ |b1 + tl0 * (U : Int)| + |b1 + tl0 * (U : Int) + -tl1 * (U : Int)| := by
    have := abs_add_le (b1 + tl0 * (U : Int)) (-(b1 + tl0 * (U : Int) + -tl1 * (U : Int)))
    rw [abs_neg] at this
    have e : b1 + tl0 * (U : Int) + -(b1 + tl0 * (U : Int) + -tl1 * (U : Int)) = tl1 * (U : Int) := by ring
    rwa [e] at this
  have n2 := abs_add_le b2 (tl1 * (U : Int))
  have m2 : |cl2 * (U : Int)| ≤ |b2 + tl1 * (U : Int)| + |b2 + tl1 * (U : Int) + -cl2 * (U : Int)| := by
    have := abs_add_le (b2 + tl1 * (U : Int)) (-(b2 + tl1 * (U : Int) + -cl2 * (U : Int)))
    rw [abs_neg] at this
    have e : b2 + tl1 * (U : Int) + -(b2 + tl1 * (U : Int) + -cl2 * (U : Int)) = cl2 * (U : Int) := by ring
    rwa [e] at this
  -- the exact product from below
  have hP : |a| ≤ |a + b1 + b2 + z| + |b1| + |b2| + |z| := by
    have p1 := abs_add_le (a + b1 + b2 + z) (-z)
    have p2 := abs_add_le (a + b1 + b2) (-b2)
    have p3 := abs_add_le (a + b1) (-b1)
    rw [abs_neg] at p1 p2 p3
    have e1 : a + b1 + b2 + z + -z = a + b1 + b2 := by ring
    have e2 : a + b1 + b2 + -b2 = a + b1 := by ring
    have e3 : a + b1 + -b1 = a := by ring
    rw [e1] at p1; rw [e2] at p2; rw [e3] at p3
    omega
  rw [herr]
  generalize |z + -tl0 * (U : Int)| = D1 at *
  generalize |b1 + tl0 * (U : Int) + -tl1 * (U : Int)| = D2 at *
  generalize |b2 + tl1 * (U : Int) + -cl2 * (U : Int)| = D3 at *
  generalize |cl3 - (Q - rnI Q + cl2)| * (U : Int) = D4 at *
  generalize |Q - rnI Q| * (U : Int) = C1 at *
  omega

end F64

/-! ## 9. DWTimesDW3 on the model (bound `7u²`, partial) -/

namespace F64

/-- the zero case included -/
theorem dwtimesdw_err_7u2' {a b1 b2 z Q : Int} {U : Nat} (hU : 0 < U) (ha : a = Q * (U : Int))
    (h1 : 2 ^ 53 * |b1| ≤ |a|) (h2 : 2 ^ 53 * |b2| ≤ |a|) (hz : 2 ^ 106 * |z| ≤ |a|)
    (hlow : a = 0 ∨ 2 ^ 114 * (U : Int) ≤ |a|)
    {tl0 tl1 cl2 cl3 : Int} (ht0 : tl0 = rqI z U) (ht1 : tl1 = rqI (b1 + tl0 * (U : Int)) U)
    (hc2 : cl2 = rqI (b2 + tl1 * (U : Int)) U) (hc3 : cl3 = rnI (Q - rnI Q + cl2)) :
    2 ^ 106 * |(rnI Q + cl3) * (U : Int) - (a + b1 + b2 + z)| ≤ 7 * |a + b1 + b2 + z| := by
  rcases hlow with h0 | hlow
  · have hUi : (0 : Int) < (U : Int) := Int.natCast_pos.2 hU
    rw [h0, abs_zero] at h1 h2 hz
    have e1 : b1 = 0 := abs_eq_zero.1 (by have := abs_nonneg b1; omega)
    have e2 : b2 = 0 := abs_eq_zero.1 (by have := abs_nonneg b2; omega)
    have e3 : z = 0 := abs_eq_zero.1 (by have := abs_nonneg z; omega)
    have eQ : Q = 0 := by
      rw [h0] at ha
      rcases mul_eq_zero.1 ha.symm with h | h
      · exact h
      · omega
    subst e1 e2 e3 eQ
    rw [rqI_zero] at ht0
    subst ht0
    rw [zero_mul, add_zero, rqI_zero] at ht1
    subst ht1
    rw [zero_mul, add_zero, rqI_zero] at hc2
    subst hc2
    rw [rnI_zero, sub_zero, add_zero, rnI_zero] at hc3
    subst hc3
    rw [h0]; simp
  · exact dwtimesdw_err_7u2 hU ha h1 h2 hz hlow ht0 ht1 hc2 hc3

theorem abs_rqI_mul_le (p : Int) {U : Nat} (hU : 0 < U) : |rqI p U * (U : Int)| ≤ 2 * |p| := by
  have h := roundQ_mul_le_two_mul p.natAbs U hU
  rw [abs_mul, abs_of_nonneg (Int.natCast_nonneg U), ← Int.natCast_natAbs (rqI p U), natAbs_rqI,
    ← Int.natCast_natAbs p]
  exact_mod_cast h

/-- a rounded quotient below `2^1023` is finite -/
theorem roundQ_natAbs_le_maxFin {N : Int} (h : |N| ≤ 2 ^ 2097 * (unit : Int)) :
    roundQ N.natAbs unit ≤ maxFin := by
  refine Nat.le_trans (roundQ_le_of_le unit_pos (rep_two_pow 2097) ?_) two_pow_2097_le_maxFin
  rw [← Int.natCast_natAbs N] at h
  exact_mod_cast h

end F64

namespace TwoFloat

open F64

/-- the value of `TwoFloat * TwoFloat` (DWTimesDW3 in the crate's form) when `x.hi·y.hi` is `0` or in
`[2^-960, 2^1021)`: every intermediate operation is finite, the closing Fast2Sum is exact, the result is valid -/
theorem mul_tt_values {x y : TwoFloat} (hvx : x.Valid) (hwx : x.WF) (hvy : y.Valid) (hwy : y.WF)
    (hr : x.hi.toInt * y.hi.toInt = 0 ∨
      ((2 : Int) ^ 1188 ≤ |x.hi.toInt * y.hi.toInt| ∧ |x.hi.toInt * y.hi.toInt| < (2 : Int) ^ 3169)) :
    ∃ Q : Int, x.hi.toInt * y.hi.toInt = Q * (unit : Int) ∧
      (arithmetic.impl_Mul_rTwoFloat_for_rTwoFloat.mul x y).Valid ∧
      (arithmetic.impl_Mul_rTwoFloat_for_rTwoFloat.mul x y).V
        = rnI Q + rnI (Q - rnI Q + rqI (x.lo.toInt * y.hi.toInt
            + rqI (x.hi.toInt * y.lo.toInt + rqI (x.lo.toInt * y.lo.toInt) unit * (unit : Int)) unit
              * (unit : Int)) unit) := by
  rw [mul_tt_eq]
  have hr' : x.hi.toInt * y.hi.toInt = 0 ∨
      ((2 : Int) ^ 1188 ≤ |x.hi.toInt * y.hi.toInt| ∧ |x.hi.toInt * y.hi.toInt| < (2 : Int) ^ 3171) := by
    rcases hr with h | ⟨h1, h2⟩
    · exact Or.inl h
    · exact Or.inr ⟨h1, lt_trans h2 (pow_lt_pow_right₀ (by norm_num) (by norm_num))⟩
  obtain ⟨Q, hQ, wh, wl⟩ := new_mul_words hvx.1 hvy.1 hwx.1 hwy.1 hr'
  refine ⟨Q, hQ, ?_⟩
  have hUi : (0 : Int) < (unit : Int) := Int.natCast_pos.2 unit_pos
  have mx := abs_lo_le_of_half_ulp hvx.two_mul_abs_lo_le
  have my := abs_lo_le_of_half_ulp hvy.two_mul_abs_lo_le
  -- the cross terms
  have h1 : 2 ^ 53 * |x.hi.toInt * y.lo.toInt| ≤ |x.hi.toInt * y.hi.toInt| := by
    rw [abs_mul, abs_mul, mul_left_comm]
    exact mul_le_mul_of_nonneg_left my (abs_nonneg _)
  have h2 : 2 ^ 53 * |x.lo.toInt * y.hi.toInt| ≤ |x.hi.toInt * y.hi.toInt| := by
    rw [abs_mul, abs_mul, ← mul_assoc]
    exact mul_le_mul_of_nonneg_right mx (abs_nonneg _)
  have hz : 2 ^ 106 * |x.lo.toInt * y.lo.toInt| ≤ |x.hi.toInt * y.hi.toInt| := by
    rw [abs_mul, abs_mul]
    have := mul_le_mul mx my (by positivity) (abs_nonneg _)
    have e : (2 : Int) ^ 53 * |x.lo.toInt| * (2 ^ 53 * |y.lo.toInt|)
        = 2 ^ 106 * (|x.lo.toInt| * |y.lo.toInt|) := by ring
    rwa [e] at this
  -- the magnitude of the leading product
  have hAlt : |x.hi.toInt * y.hi.toInt| < 2 ^ 2095 * (unit : Int) := by
    rcases hr with h | ⟨_, h⟩
    · rw [h, abs_zero]; positivity
    · rwa [two_pow_3169, ← unit_cast_eq] at h
  have hQlt : |Q| < 2 ^ 2095 := by
    rw [hQ, abs_mul, abs_of_pos hUi] at hAlt
    exact lt_of_mul_lt_mul_right hAlt (le_of_lt hUi)
  have e2097 : (2 : Int) ^ 2097 * (unit : Int) = 4 * (2 ^ 2095 * (unit : Int)) := by
    rw [two_pow_2097]; ring
  -- `tl0`
  have b0 := abs_rqI_mul_le (x.lo.toInt * y.lo.toInt) unit_pos
  have v0 := mul_spec hvx.2.1 hvy.2.1 (roundQ_natAbs_le_maxFin (by rw [e2097]; have := abs_nonneg (x.lo.toInt * y.lo.toInt); omega))
  -- `tl1`
  have n1 := abs_add_le (x.hi.toInt * y.lo.toInt) (rqI (x.lo.toInt * y.lo.toInt) unit * (unit : Int))
  have b1 := abs_rqI_mul_le (x.hi.toInt * y.lo.toInt + rqI (x.lo.toInt * y.lo.toInt) unit * (unit : Int)) unit_pos
  have v1 := fma_spec hvx.1 hvy.2.1 v0.1 (by
    rw [v0.2]; exact roundQ_natAbs_le_maxFin (by
      rw [e2097]; have := abs_nonneg (x.lo.toInt * y.lo.toInt); have := abs_nonneg (x.hi.toInt * y.lo.toInt); omega))
  rw [v0.2] at v1
  generalize htl0 : rqI (x.lo.toInt * y.lo.toInt) unit = tl0 at *
  -- `cl2`
  have n2 := abs_add_le (x.lo.toInt * y.hi.toInt) (rqI (x.hi.toInt * y.lo.toInt + tl0 * (unit : Int)) unit * (unit : Int))
  have b2 := abs_rqI_mul_le (x.lo.toInt * y.hi.toInt
    + rqI (x.hi.toInt * y.lo.toInt + tl0 * (unit : Int)) unit * (unit : Int)) unit_pos
  have pz := abs_nonneg (x.lo.toInt * y.lo.toInt)
  have pb1 := abs_nonneg (x.hi.toInt * y.lo.toInt)
  have pb2 := abs_nonneg (x.lo.toInt * y.hi.toInt)
  have v2 := fma_spec hvx.2.1 hvy.1 v1.1 (by
    rw [v1.2]; exact roundQ_natAbs_le_maxFin (by rw [e2097]; omega))
  rw [v1.2] at v2
  generalize htl1 : rqI (x.hi.toInt * y.lo.toInt + tl0 * (unit : Int)) unit = tl1 at *
  generalize hcl2 : rqI (x.lo.toInt * y.hi.toInt + tl1 * (unit : Int)) unit = cl2 at *
  -- `|cl2| ≤ 2^-49 |Q|`, `|cl1| ≤ 2^-53 |Q|`
  have hcl2Q : 2 ^ 49 * |cl2| ≤ |Q| := by
    have h : 2 ^ 49 * |cl2| * (unit : Int) ≤ |Q| * (unit : Int) := by
      have e : 2 ^ 49 * |cl2| * (unit : Int) = 2 ^ 49 * |cl2 * (unit : Int)| := by
        rw [abs_mul, abs_of_pos hUi]; ring
      rw [e, ← abs_of_pos hUi, ← abs_mul, ← hQ, abs_of_pos hUi]
      omega
    exact le_of_mul_le_mul_right h hUi
  have hcl1Q := rel_err_rnI Q
  rw [abs_sub_comm] at hcl1Q
  have hQ2 : |Q| ≤ 2 * |rnI Q| := by
    rw [abs_rnI, ← Int.natCast_natAbs Q]
    have := le_two_mul_rn53 Q.natAbs
    exact_mod_cast this
  have n3 := abs_add_le (Q - rnI Q) cl2
  -- `cl3`
  have v3 := wl.add ⟨v2.1, v2.2⟩ (le_trans (by omega) two_pow_2097_le_maxFin_int)
  have hab : |(F64.add (TwoFloat.new_mul x.hi y.hi).lo
      (F64.fma x.lo y.hi (F64.fma x.hi y.lo (F64.mul x.lo y.lo)))).toInt|
      ≤ |(TwoFloat.new_mul x.hi y.hi).hi.toInt| := by
    rw [v3.2, wh.2]
    exact abs_rnI_le (repI_rnI Q) (by have := abs_nonneg Q; linarith)
  have mch : |rnI Q| ≤ 2 ^ 2095 := abs_rnI_le_pow (le_of_lt hQlt)
  have hov : rn53 ((TwoFloat.new_mul x.hi y.hi).hi.toInt + (F64.add (TwoFloat.new_mul x.hi y.hi).lo
      (F64.fma x.lo y.hi (F64.fma x.hi y.lo (F64.mul x.lo y.lo)))).toInt).natAbs ≤ maxFin := by
    apply rn53_natAbs_le_of_abs_le_2097
    have := abs_add_le (TwoFloat.new_mul x.hi y.hi).hi.toInt (F64.add (TwoFloat.new_mul x.hi y.hi).lo
      (F64.fma x.lo y.hi (F64.fma x.hi y.lo (F64.mul x.lo y.lo)))).toInt
    rw [wh.2] at hab this ⊢
    rw [two_pow_2097]
    omega
  have key := fast_two_sum_spec wh.1 v3.1 (new_mul_WF _ _).1 (add_WF _ _) hab hov
  refine ⟨key.2.2.1, ?_⟩
  rw [key.2.1, wh.2, v3.2]

theorem cross_bounds {x y : TwoFloat} (hvx : x.Valid) (hvy : y.Valid) :
    2 ^ 53 * |x.hi.toInt * y.lo.toInt| ≤ |x.hi.toInt * y.hi.toInt| ∧
    2 ^ 53 * |x.lo.toInt * y.hi.toInt| ≤ |x.hi.toInt * y.hi.toInt| ∧
    2 ^ 106 * |x.lo.toInt * y.lo.toInt| ≤ |x.hi.toInt * y.hi.toInt| := by
  have mx := abs_lo_le_of_half_ulp hvx.two_mul_abs_lo_le
  have my := abs_lo_le_of_half_ulp hvy.two_mul_abs_lo_le
  refine ⟨?_, ?_, ?_⟩
  · rw [abs_mul, abs_mul, mul_left_comm]
    exact mul_le_mul_of_nonneg_left my (abs_nonneg _)
  · rw [abs_mul, abs_mul, ← mul_assoc]
    exact mul_le_mul_of_nonneg_right mx (abs_nonneg _)
  · rw [abs_mul, abs_mul]
    have := mul_le_mul mx my (by positivity) (abs_nonneg _)
    have e : (2 : Int) ^ 53 * |x.lo.toInt| * (2 ^ 53 * |y.lo.toInt|)
        = 2 ^ 106 * (|x.lo.toInt| * |y.lo.toInt|) := by ring
    rwa [e] at this

/-- **C04, `TwoFloat * TwoFloat` (DWTimesDW3), PARTIAL: relative error `≤ 7u²`** on the wide range
"`x.hi·y.hi` is `0` or in `[2^-960, 2^1021)`" (the paper's / the property's constant is `5u² = 5·2^-106`; see
`mul_tt_bound_5u2_12u3_partial` for the sharper statement on the property's word range). -/
theorem mul_tt_bound_7u2_partial {x y : TwoFloat} (hvx : x.Valid) (hwx : x.WF) (hvy : y.Valid) (hwy : y.WF)
    (hr : x.hi.toInt * y.hi.toInt = 0 ∨
      ((2 : Int) ^ 1188 ≤ |x.hi.toInt * y.hi.toInt| ∧ |x.hi.toInt * y.hi.toInt| < (2 : Int) ^ 3169)) :
    (arithmetic.impl_Mul_rTwoFloat_for_rTwoFloat.mul x y).Valid ∧
    |(arithmetic.impl_Mul_rTwoFloat_for_rTwoFloat.mul x y).V * (unit : Int) - x.V * y.V| * 2 ^ 106
      ≤ 7 * |x.V * y.V| := by
  obtain ⟨Q, hQ, hV, hval⟩ := mul_tt_values hvx hwx hvy hwy hr
  refine ⟨hV, ?_⟩
  rw [hval]
  obtain ⟨h1, h2, hz⟩ := cross_bounds hvx hvy
  have hlow : x.hi.toInt * y.hi.toInt = 0 ∨ 2 ^ 114 * (unit : Int) ≤ |x.hi.toInt * y.hi.toInt| := by
    rcases hr with h | ⟨h, _⟩
    · exact Or.inl h
    · right; rwa [two_pow_1188, ← unit_cast_eq] at h
  have h := dwtimesdw_err_7u2' unit_pos hQ h1 h2 hz hlow rfl rfl rfl rfl
  have eP : x.V * y.V = x.hi.toInt * y.hi.toInt + x.hi.toInt * y.lo.toInt + x.lo.toInt * y.hi.toInt
      + x.lo.toInt * y.lo.toInt := by unfold TwoFloat.V; ring
  rw [eP, mul_comm _ ((2 : Int) ^ 106)]
  exact h

end TwoFloat

/-! ## 10. DWTimesDW3 on integers: the binade analysis, `5u² + 12u³` -/

namespace F64

/-- half-ulp error of a rounded quotient below `2^53·(U·2^m)` -/
theorem rqI_err_of_lt {p : Int} {U m : Nat} (hU : 0 < U) (h : |p| < 2 ^ 53 * ((U : Int) * 2 ^ m)) :
    2 * |p + -(rqI p U) * (U : Int)| ≤ (U : Int) * 2 ^ m := by
  have he := abs_sub_rqI_mul p hU
  have hk : Nat.log2 (p.natAbs / U) - 52 ≤ m := by
    apply log2_sub_le
    rw [Nat.div_lt_iff_lt_mul hU]
    rw [← Int.natCast_natAbs p] at h
    have h' : p.natAbs < 2 ^ 53 * (U * 2 ^ m) := by exact_mod_cast h
    calc p.natAbs < 2 ^ 53 * (U * 2 ^ m) := h'
      _ = 2 ^ 53 * 2 ^ m * U := by ring
  have hp : (2 : Int) ^ (Nat.log2 (p.natAbs / U) - 52) ≤ 2 ^ m := pow_le_pow_right₀ (by norm_num) hk
  exact le_trans he (mul_le_mul_of_nonneg_left hp (Int.natCast_nonneg U))

/-- the 2Prod residual `(Q - RN Q)·U` when `|Q·U| < 2^53·(U·2^m)` -/
theorem resid_le_of_lt {Q : Int} {U m : Nat} (hU : 0 < U) (h : |Q * (U : Int)| < 2 ^ 53 * ((U : Int) * 2 ^ m)) :
    2 * (|Q - rnI Q| * (U : Int)) ≤ (U : Int) * 2 ^ m := by
  have hUi : (0 : Int) < (U : Int) := Int.natCast_pos.2 hU
  rw [abs_mul, abs_of_pos hUi] at h
  have hq : |Q| < 2 ^ 53 * 2 ^ m := by
    have e : (2 : Int) ^ 53 * ((U : Int) * 2 ^ m) = 2 ^ 53 * 2 ^ m * (U : Int) := by ring
    rw [e] at h
    exact lt_of_mul_lt_mul_right h (le_of_lt hUi)
  have hk := ulpexp_le_of_abs_lt hq
  have ew := two_mul_abs_rnI_sub_le Q
  rw [abs_sub_comm] at ew
  push_cast at ew
  have hp : (2 : Int) ^ (Nat.log2 Q.natAbs - 52) ≤ 2 ^ m := pow_le_pow_right₀ (by norm_num) hk
  have h3 : 2 * |Q - rnI Q| ≤ 2 ^ m := le_trans ew hp
  calc 2 * (|Q - rnI Q| * (U : Int)) = (2 * |Q - rnI Q|) * (U : Int) := by ring
    _ ≤ 2 ^ m * (U : Int) := mul_le_mul_of_nonneg_right h3 (le_of_lt hUi)
    _ = (U : Int) * 2 ^ m := by ring

/-- rounding error (times `U`) of an integer `n` with `|n|·U < 2^53·(U·2^m)` -/
theorem rnI_err_mul_of_lt {n : Int} {U m : Nat} (hU : 0 < U) (h : |n| * (U : Int) < 2 ^ 53 * ((U : Int) * 2 ^ m)) :
    2 * (|rnI n - n| * (U : Int)) ≤ (U : Int) * 2 ^ m := by
  have hUi : (0 : Int) < (U : Int) := Int.natCast_pos.2 hU
  have hq : |n| < 2 ^ 53 * 2 ^ m := by
    have e : (2 : Int) ^ 53 * ((U : Int) * 2 ^ m) = 2 ^ 53 * 2 ^ m * (U : Int) := by ring
    rw [e] at h
    exact lt_of_mul_lt_mul_right h (le_of_lt hUi)
  have hk := ulpexp_le_of_abs_lt hq
  have ew := two_mul_abs_rnI_sub_le n
  push_cast at ew
  have hp : (2 : Int) ^ (Nat.log2 n.natAbs - 52) ≤ 2 ^ m := pow_le_pow_right₀ (by norm_num) hk
  have h3 : 2 * |rnI n - n| ≤ 2 ^ m := le_trans ew hp
  calc 2 * (|rnI n - n| * (U : Int)) = (2 * |rnI n - n|) * (U : Int) := by ring
    _ ≤ 2 ^ m * (U : Int) := mul_le_mul_of_nonneg_right h3 (le_of_lt hUi)
    _ = (U : Int) * 2 ^ m := by ring

end F64

namespace F64

/-- **DWTimesDW3 in the crate's form, binade analysis.**  High words normal (`ulp` exponents `ax, ay ≠ 0`), low
words at most half an ulp, `ulp(xh)·ulp(yh) = 4·U·2^j` with `j ≥ 67` (no underflow anywhere near the `u³` level):
the four rounding errors together are at most `(5u² + 12u³)` times the exact product. -/
theorem dwtimesdw_err_5u2 {xh xl yh yl Q : Int} {U j : Nat} (hU : 0 < U) (hxh : RepI xh) (hyh : RepI yh)
    (hx : 2 * |xl| ≤ 2 ^ (Nat.log2 xh.natAbs - 52)) (hy : 2 * |yl| ≤ 2 ^ (Nat.log2 yh.natAbs - 52))
    (hax : Nat.log2 xh.natAbs - 52 ≠ 0) (hay : Nat.log2 yh.natAbs - 52 ≠ 0)
    (hκ : (2 : Int) ^ (Nat.log2 xh.natAbs - 52) * 2 ^ (Nat.log2 yh.natAbs - 52) = 4 * ((U : Int) * 2 ^ j))
    (hj : 67 ≤ j) (hQ : xh * yh = Q * (U : Int))
    {tl0 tl1 cl2 cl3 : Int} (ht0 : tl0 = rqI (xl * yl) U) (ht1 : tl1 = rqI (xh * yl + tl0 * (U : Int)) U)
    (hc2 : cl2 = rqI (xl * yh + tl1 * (U : Int)) U) (hc3 : cl3 = rnI (Q - rnI Q + cl2)) :
    2 ^ 159 * |(rnI Q + cl3) * (U : Int) - (xh + xl) * (yh + yl)|
      ≤ (5 * 2 ^ 53 + 12) * |(xh + xl) * (yh + yl)| := by
  have hUi : (0 : Int) < (U : Int) := Int.natCast_pos.2 hU
  have f1 := ulp_mul_le_abs hax
  have f2 := hxh.add_ulp_le
  have f3 := ulp_mul_le_abs hay
  have f4 := hyh.add_ulp_le
  have pux := two_pow_pos' (Nat.log2 xh.natAbs - 52)
  have puy := two_pow_pos' (Nat.log2 yh.natAbs - 52)
  generalize (2 : Int) ^ (Nat.log2 xh.natAbs - 52) = ux at *
  generalize (2 : Int) ^ (Nat.log2 yh.natAbs - 52) = uy at *
  have hUκ : 2 ^ 67 * (U : Int) ≤ (U : Int) * 2 ^ j := by
    rw [mul_comm]
    exact mul_le_mul_of_nonneg_left (pow_le_pow_right₀ (by norm_num) hj) (le_of_lt hUi)
  have e1 : (U : Int) * 2 ^ (j + 1) = 2 * ((U : Int) * 2 ^ j) := by rw [pow_succ]; ring
  have e2 : (U : Int) * 2 ^ (j + 2) = 4 * ((U : Int) * 2 ^ j) := by rw [pow_add]; ring
  have e3 : (U : Int) * 2 ^ (j + 3) = 8 * ((U : Int) * 2 ^ j) := by rw [pow_add]; ring
  have e54 : (U : Int) * 2 ^ (j + 54) = 2 ^ 54 * ((U : Int) * 2 ^ j) := by rw [pow_add]; ring
  have e55 : (U : Int) * 2 ^ (j + 55) = 2 ^ 55 * ((U : Int) * 2 ^ j) := by rw [pow_add]; ring
  have pκ : (0 : Int) < (U : Int) * 2 ^ j := mul_pos hUi (two_pow_pos' j)
  -- products of magnitudes
  have pAx := abs_nonneg xh
  have pAy := abs_nonneg yh
  have pLx := abs_nonneg xl
  have pLy := abs_nonneg yl
  have g1 : 2 ^ 54 * ((U : Int) * 2 ^ j) ≤ |xh| * uy := by
    have := mul_le_mul_of_nonneg_right f1 (le_of_lt puy)
    have e : (2 : Int) ^ 52 * ux * uy = 2 ^ 52 * (ux * uy) := by ring
    rw [e, hκ] at this
    linarith
  have g2 : |xh| * uy + 4 * ((U : Int) * 2 ^ j) ≤ 2 ^ 55 * ((U : Int) * 2 ^ j) := by
    have := mul_le_mul_of_nonneg_right f2 (le_of_lt puy)
    have e : (2 : Int) ^ 53 * ux * uy = 2 ^ 53 * (ux * uy) := by ring
    have e' : (|xh| + ux) * uy = |xh| * uy + ux * uy := by ring
    rw [e, e', hκ] at this
    linarith
  have g3 : 2 ^ 54 * ((U : Int) * 2 ^ j) ≤ ux * |yh| := by
    have := mul_le_mul_of_nonneg_left f3 (le_of_lt pux)
    have e : ux * ((2 : Int) ^ 52 * uy) = 2 ^ 52 * (ux * uy) := by ring
    rw [e, hκ] at this
    linarith
  have g4 : ux * |yh| + 4 * ((U : Int) * 2 ^ j) ≤ 2 ^ 55 * ((U : Int) * 2 ^ j) := by
    have := mul_le_mul_of_nonneg_left f4 (le_of_lt pux)
    have e : ux * ((2 : Int) ^ 53 * uy) = 2 ^ 53 * (ux * uy) := by ring
    have e' : ux * (|yh| + uy) = ux * |yh| + ux * uy := by ring
    rw [e, e', hκ] at this
    linarith
  have g5 : 2 * (|xh| * |yl|) ≤ |xh| * uy := by
    have := mul_le_mul_of_nonneg_left hy pAx
    linarith
  have g6 : 2 * (|xl| * |yh|) ≤ ux * |yh| := by
    have := mul_le_mul_of_nonneg_right hx pAy
    linarith
  have g7 : |xl| * |yl| ≤ (U : Int) * 2 ^ j := by
    have := mul_le_mul hx hy (by positivity) (le_of_lt pux)
    rw [hκ] at this
    linarith
  have g8 : 2 ^ 52 * (ux * |yh|) + 2 ^ 52 * (|xh| * uy) ≤ |xh| * |yh| + 2 ^ 106 * ((U : Int) * 2 ^ j) := by
    have := mul_nonneg (sub_nonneg.2 f1) (sub_nonneg.2 f3)
    have e : (|xh| - 2 ^ 52 * ux) * (|yh| - 2 ^ 52 * uy)
        = |xh| * |yh| - 2 ^ 52 * (ux * |yh|) - 2 ^ 52 * (|xh| * uy) + 2 ^ 104 * (ux * uy) := by ring
    rw [e, hκ] at this
    linarith
  have g9 : |xh| * |yh| < 2 ^ 108 * ((U : Int) * 2 ^ j) := by
    have h1 : |xh| < 2 ^ 53 * ux := by linarith
    have h2 : |yh| < 2 ^ 53 * uy := by linarith
    have := mul_lt_mul'' h1 h2 pAx pAy
    have e : (2 : Int) ^ 53 * ux * (2 ^ 53 * uy) = 2 ^ 106 * (ux * uy) := by ring
    rw [e, hκ] at this
    linarith
  -- abs of the products
  have a0 : |xh * yh| = |xh| * |yh| := abs_mul _ _
  have a1 : |xh * yl| = |xh| * |yl| := abs_mul _ _
  have a2 : |xl * yh| = |xl| * |yh| := abs_mul _ _
  have a3 : |xl * yl| = |xl| * |yl| := abs_mul _ _
  -- rounding errors
  have r1 := rqI_err_le (xl * yl) hU
  rw [← ht0] at r1
  have m0 : |tl0 * (U : Int)| ≤ |xl * yl| + |xl * yl + -tl0 * (U : Int)| := by
    have := abs_add_le (xl * yl) (-(xl * yl + -tl0 * (U : Int)))
    rw [abs_neg] at this
    have e : xl * yl + -(xl * yl + -tl0 * (U : Int)) = tl0 * (U : Int) := by ring
    rwa [e] at this
  have n2 := abs_add_le (xh * yl) (tl0 * (U : Int))
  have r2 := rqI_err_of_lt (p := xh * yl + tl0 * (U : Int)) (m := j + 1) hU (by rw [e1]; linarith)
  rw [← ht1, e1] at r2
  have m1 : |tl1 * (U : Int)| ≤ |xh * yl + tl0 * (U : Int)| + |xh * yl + tl0 * (U : Int) + -tl1 * (U : Int)| := by
    have := abs_add_le (xh * yl + tl0 * (U : Int)) (-(xh * yl + tl0 * (U : Int) + -tl1 * (U : Int)))
    rw [abs_neg] at this
    have e : xh * yl + tl0 * (U : Int) + -(xh * yl + tl0 * (U : Int) + -tl1 * (U : Int)) = tl1 * (U : Int) := by ring
    rwa [e] at this
  have n3 := abs_add_le (xl * yh) (tl1 * (U : Int))
  have r3 := rqI_err_of_lt (p := xl * yh + tl1 * (U : Int)) (m := j + 2) hU (by rw [e2]; linarith)
  rw [← hc2, e2] at r3
  have m2 : |cl2 * (U : Int)| ≤ |xl * yh + tl1 * (U : Int)| + |xl * yh + tl1 * (U : Int) + -cl2 * (U : Int)| := by
    have := abs_add_le (xl * yh + tl1 * (U : Int)) (-(xl * yh + tl1 * (U : Int) + -cl2 * (U : Int)))
    rw [abs_neg] at this
    have e : xl * yh + tl1 * (U : Int) + -(xl * yh + tl1 * (U : Int) + -cl2 * (U : Int)) = cl2 * (U : Int) := by ring
    rwa [e] at this
  have c1a : |xh * yh| < 2 ^ 107 * ((U : Int) * 2 ^ j) →
      2 * (|Q - rnI Q| * (U : Int)) ≤ 2 ^ 54 * ((U : Int) * 2 ^ j) := by
    intro h
    have := resid_le_of_lt (Q := Q) (m := j + 54) hU (by rw [← hQ, e54]; linarith)
    rwa [e54] at this
  have c1b : 2 * (|Q - rnI Q| * (U : Int)) ≤ 2 ^ 55 * ((U : Int) * 2 ^ j) := by
    have := resid_le_of_lt (Q := Q) (m := j + 55) hU (by rw [← hQ, e55, a0]; linarith)
    rwa [e55] at this
  have n4 : |Q - rnI Q + cl2| * (U : Int) ≤ |Q - rnI Q| * (U : Int) + |cl2 * (U : Int)| := by
    have := mul_le_mul_of_nonneg_right (abs_add_le (Q - rnI Q) cl2) (le_of_lt hUi)
    rw [abs_mul cl2, abs_of_pos hUi]
    linarith
  have r4a : |Q - rnI Q + cl2| * (U : Int) < 2 ^ 55 * ((U : Int) * 2 ^ j) →
      2 * (|cl3 - (Q - rnI Q + cl2)| * (U : Int)) ≤ 4 * ((U : Int) * 2 ^ j) := by
    intro h
    have := rnI_err_mul_of_lt (n := Q - rnI Q + cl2) (m := j + 2) hU (by rw [e2]; linarith)
    rwa [e2, ← hc3] at this
  have r4b : |Q - rnI Q + cl2| * (U : Int) < 2 ^ 56 * ((U : Int) * 2 ^ j) →
      2 * (|cl3 - (Q - rnI Q + cl2)| * (U : Int)) ≤ 8 * ((U : Int) * 2 ^ j) := by
    intro h
    have := rnI_err_mul_of_lt (n := Q - rnI Q + cl2) (m := j + 3) hU (by rw [e3]; linarith)
    rwa [e3, ← hc3] at this
  -- the error is the sum of the four rounding errors
  have herr : (rnI Q + cl3) * (U : Int) - (xh + xl) * (yh + yl)
      = -((xl * yl + -tl0 * (U : Int)) + (xh * yl + tl0 * (U : Int) + -tl1 * (U : Int))
          + (xl * yh + tl1 * (U : Int) + -cl2 * (U : Int))) + (cl3 - (Q - rnI Q + cl2)) * (U : Int) := by
    have : (xh + xl) * (yh + yl) = Q * (U : Int) + xh * yl + xl * yh + xl * yl := by rw [← hQ]; ring
    rw [this]; ring
  have t1 := abs_add_le (-((xl * yl + -tl0 * (U : Int)) + (xh * yl + tl0 * (U : Int) + -tl1 * (U : Int))
          + (xl * yh + tl1 * (U : Int) + -cl2 * (U : Int)))) ((cl3 - (Q - rnI Q + cl2)) * (U : Int))
  rw [abs_neg, abs_mul (cl3 - (Q - rnI Q + cl2)), abs_of_pos hUi] at t1
  have t2 := abs_add_le ((xl * yl + -tl0 * (U : Int)) + (xh * yl + tl0 * (U : Int) + -tl1 * (U : Int)))
    (xl * yh + tl1 * (U : Int) + -cl2 * (U : Int))
  have t3 := abs_add_le (xl * yl + -tl0 * (U : Int)) (xh * yl + tl0 * (U : Int) + -tl1 * (U : Int))
  have hP : |xh * yh| ≤ |(xh + xl) * (yh + yl)| + |xh * yl| + |xl * yh| + |xl * yl| := by
    have p1 := abs_add_le ((xh + xl) * (yh + yl)) (-(xh * yl + xl * yh + xl * yl))
    have p2 := abs_add_le (xh * yl + xl * yh) (xl * yl)
    have p3 := abs_add_le (xh * yl) (xl * yh)
    rw [abs_neg] at p1
    have e : (xh + xl) * (yh + yl) + -(xh * yl + xl * yh + xl * yl) = xh * yh := by ring
    rw [e] at p1
    linarith
  rw [herr]
  rw [a0] at hP c1a
  rw [a1] at hP n2
  rw [a2] at hP n3
  rw [a3] at hP m0 r1
  generalize |xl * yl + -tl0 * (U : Int)| = D1 at *
  generalize |xh * yl + tl0 * (U : Int) + -tl1 * (U : Int)| = D2 at *
  generalize |xl * yh + tl1 * (U : Int) + -cl2 * (U : Int)| = D3 at *
  generalize |cl3 - (Q - rnI Q + cl2)| * (U : Int) = D4 at *
  generalize |Q - rnI Q| * (U : Int) = C1 at *
  generalize |Q - rnI Q + cl2| * (U : Int) = N4 at *
  generalize |xh * yl + tl0 * (U : Int)| = N2 at *
  generalize |xl * yh + tl1 * (U : Int)| = N3 at *
  generalize |tl0 * (U : Int)| = T0 at *
  generalize |tl1 * (U : Int)| = T1 at *
  generalize |cl2 * (U : Int)| = C2 at *
  generalize |xh| * |yh| = A at *
  generalize |xh| * |yl| = B1 at *
  generalize |xl| * |yh| = B2 at *
  generalize |xl| * |yl| = Z at *
  generalize |xh| * uy = p at *
  generalize ux * |yh| = q at *
  generalize (U : Int) * 2 ^ j = κ at *
  generalize |(xh + xl) * (yh + yl)| = P at *
  rcases lt_or_ge A (2 ^ 107 * κ) with hA | hA
  · have hC1 := c1a hA
    rcases lt_or_ge N4 (2 ^ 55 * κ) with hN | hN
    · have hD4 := r4a hN
      linarith
    · have hD4 := r4b (by linarith)
      linarith
  · have hD4 := r4b (by linarith)
    linarith

end F64

/-! ## 11. DWTimesDW3 on the model, `5u² + 12u³` on the property's range -/

namespace TwoFloat

open F64

/-- the ulp exponents of two doubles of magnitude at least `2^-450` (scaled `2^624`) -/
theorem ulp_prod_of_ge {a b : Int} (ha : 2 ^ 624 ≤ |a|) (hb : 2 ^ 624 ≤ |b|) :
    Nat.log2 a.natAbs - 52 ≠ 0 ∧ Nat.log2 b.natAbs - 52 ≠ 0 ∧
    ∃ j : Nat, 67 ≤ j ∧ (2 : Int) ^ (Nat.log2 a.natAbs - 52) * 2 ^ (Nat.log2 b.natAbs - 52)
      = 4 * ((unit : Int) * 2 ^ j) := by
  have h1 : 572 ≤ Nat.log2 a.natAbs - 52 :=
    le_ulpexp_of_le_abs (by rw [← pow_add]; exact ha)
  have h2 : 572 ≤ Nat.log2 b.natAbs - 52 :=
    le_ulpexp_of_le_abs (by rw [← pow_add]; exact hb)
  obtain ⟨j, hj⟩ : ∃ j, Nat.log2 a.natAbs - 52 + (Nat.log2 b.natAbs - 52) = 2 + (1074 + j) :=
    ⟨Nat.log2 a.natAbs - 52 + (Nat.log2 b.natAbs - 52) - 1076, by omega⟩
  refine ⟨by omega, by omega, j, by omega, ?_⟩
  rw [← pow_add, unit_cast_eq, hj, pow_add, pow_add]
  norm_num

/-- **C04, `TwoFloat * TwoFloat` (DWTimesDW3), PARTIAL: relative error `≤ 5u² + 12u³`** on the property's range
(high words of magnitude in `[2^-450, 2^450]`, scaled `[2^624, 2^1524]`): `2^159·|err| ≤ (5·2^53 + 12)·|x·y|`.
The property asks for `5u²` exactly (`|err|·2^106 ≤ 5·|x·y|`): the `12u³` term is the open gap. -/
theorem mul_tt_bound_5u2_12u3_partial {x y : TwoFloat} (hvx : x.Valid) (hwx : x.WF) (hvy : y.Valid) (hwy : y.WF)
    (hx : 2 ^ 624 ≤ x.hi.toInt.natAbs ∧ x.hi.toInt.natAbs ≤ 2 ^ 1524)
    (hy : 2 ^ 624 ≤ y.hi.toInt.natAbs ∧ y.hi.toInt.natAbs ≤ 2 ^ 1524) :
    (arithmetic.impl_Mul_rTwoFloat_for_rTwoFloat.mul x y).Valid ∧
    |(arithmetic.impl_Mul_rTwoFloat_for_rTwoFloat.mul x y).V * (unit : Int) - x.V * y.V| * 2 ^ 159
      ≤ (5 * 2 ^ 53 + 12) * |x.V * y.V| := by
  have h1 : (2 : Int) ^ 624 ≤ |x.hi.toInt| := by rw [← Int.natCast_natAbs]; exact_mod_cast hx.1
  have h2 : |x.hi.toInt| ≤ (2 : Int) ^ 1524 := by rw [← Int.natCast_natAbs]; exact_mod_cast hx.2
  have h3 : (2 : Int) ^ 624 ≤ |y.hi.toInt| := by rw [← Int.natCast_natAbs]; exact_mod_cast hy.1
  have h4 : |y.hi.toInt| ≤ (2 : Int) ^ 1524 := by rw [← Int.natCast_natAbs]; exact_mod_cast hy.2
  have hr : x.hi.toInt * y.hi.toInt = 0 ∨
      ((2 : Int) ^ 1188 ≤ |x.hi.toInt * y.hi.toInt| ∧ |x.hi.toInt * y.hi.toInt| < (2 : Int) ^ 3169) := by
    right
    rw [abs_mul]
    constructor
    · calc (2 : Int) ^ 1188 ≤ 2 ^ 624 * 2 ^ 624 := by
            rw [← pow_add]; exact pow_le_pow_right₀ (by norm_num) (by norm_num)
        _ ≤ |x.hi.toInt| * |y.hi.toInt| := mul_le_mul h1 h3 (by positivity) (abs_nonneg _)
    · calc |x.hi.toInt| * |y.hi.toInt| ≤ 2 ^ 1524 * 2 ^ 1524 := mul_le_mul h2 h4 (abs_nonneg _) (by positivity)
        _ < (2 : Int) ^ 3169 := by
            rw [← pow_add]; exact pow_lt_pow_right₀ (by norm_num) (by norm_num)
  obtain ⟨Q, hQ, hV, hval⟩ := mul_tt_values hvx hwx hvy hwy hr
  refine ⟨hV, ?_⟩
  rw [hval]
  obtain ⟨hax, hay, j, hj, hκ⟩ := ulp_prod_of_ge h1 h3
  have h := dwtimesdw_err_5u2 unit_pos hwx.1.repI hwy.1.repI hvx.two_mul_abs_lo_le hvy.two_mul_abs_lo_le
    hax hay hκ hj hQ rfl rfl rfl rfl
  have eP : x.V * y.V = (x.hi.toInt + x.lo.toInt) * (y.hi.toInt + y.lo.toInt) := by unfold TwoFloat.V; ring
  rw [eP, mul_comm _ ((2 : Int) ^ 159)]
  exact h

end TwoFloat
