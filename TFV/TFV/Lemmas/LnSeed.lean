/-
Lemmas.LnSeed — coarse accuracy of the libm `log` port (the Newton seed of `TwoFloat::ln`).

* §A real-valued specifications of the four primitives in terms of `ExpBound.fv` (`add_fv`, `sub_fv`, `mul_fv`,
  `div_fv`: relative error `2^-53`, plus `2^-1075` absolute for `mul`/`div`), exact values of the constants of the
  port (`fv_LG1` … `fv_LN2_LO`), and the predicate `Ap x r δ B` (finite, `|fv x − r| ≤ δ`, `|r| ≤ B`) with combination
  lemmas for magnitudes below `2^12` (every rounding error `≤ 2^-40`);
* §D `goBody` (= the body of `Libm.log.go`, `go_eq` by `rfl`) and `goBody_ap`: the computed value is within `30·2^-40` of
  the exactly evaluated formula `G k f`;
* §C `G_approx`: `|G k f − (k log 2 + log (1+f))| ≤ 2^-25` (Mercator series via `Real.abs_log_sub_add_sum_range_le`, the
  coefficients against `2/(2j+1)`, `LN2_HI + LN2_LO` against `ConstBounds.log_two_encl`); `goBody_coarse`;
* §B `reduce_spec`: the bit-level argument reduction `Libm.reduce` on the pattern of a normal double;
* §E `go_normal`, `libm_log_coarse24`, `libm_log_coarse`.
-/
import TFV.Lemmas.ExpBound

set_option exponentiation.threshold 4000

namespace LnSeed
open F64 ExpBound

attribute [local irreducible] F64.pack

/-! ## A. real-valued specifications of the four primitives -/

theorem core_rel {r v U : ℝ} (hU : 0 < U) (h : 2 ^ 53 * |r - v| ≤ |v|) :
    |r / U - v / U| ≤ |v / U| / 2 ^ 53 := by
  rw [← sub_div, abs_div, abs_div, abs_of_pos hU, div_div, div_le_div_iff₀ hU (by positivity)]
  nlinarith [abs_nonneg (r - v), abs_nonneg v]

theorem core_q {r p U : ℝ} (hU : 0 < U) (h : 2 ^ 53 * |r * U - p| ≤ 2 ^ 52 * U + |p|) :
    |r / U - p / (U * U)| ≤ |p / (U * U)| / 2 ^ 53 + 1 / (2 * U) := by
  have e : r / U - p / (U * U) = (r * U - p) / (U * U) := by field_simp
  have hUU : 0 < U * U := by positivity
  rw [e, abs_div, abs_div, abs_of_pos hUU]
  have e2 : |p| / (U * U) / 2 ^ 53 + 1 / (2 * U) = (|p| + 2 ^ 52 * U) / (2 ^ 53 * (U * U)) := by
    field_simp
  rw [e2, div_le_div_iff₀ hUU (by positivity)]
  nlinarith [abs_nonneg (r * U - p), abs_nonneg p]

theorem core_d {r p q U : ℝ} (hU : 0 < U) (hq : q ≠ 0)
    (h : 2 ^ 53 * |r * q - p * U| ≤ 2 ^ 52 * |q| + |p * U|) :
    |r / U - (p / U) / (q / U)| ≤ |(p / U) / (q / U)| / 2 ^ 53 + 1 / (2 * U) := by
  have hq' : 0 < |q| := abs_pos.2 hq
  have e0 : (p / U) / (q / U) = p / q := by field_simp
  have e : r / U - p / q = (r * q - p * U) / (U * q) := by field_simp
  rw [e0, e, abs_div, abs_div, abs_mul, abs_of_pos hU]
  have e2 : |p| / |q| / 2 ^ 53 + 1 / (2 * U) = (|p| * U + 2 ^ 52 * |q|) / (2 ^ 53 * (U * |q|)) := by
    field_simp
  rw [e2, div_le_div_iff₀ (by positivity) (by positivity)]
  rw [abs_mul, abs_of_pos hU] at h
  nlinarith [abs_nonneg (r * q - p * U), abs_nonneg p, mul_pos hU hq']

theorem int_le_maxFin_of_real {v : ℤ} (h : |(v : ℝ)| ≤ 2 ^ 1000 * 2 ^ 1074) : |v| ≤ (maxFin : ℤ) := by
  rw [← pow_add] at h
  have h2 : |v| ≤ (2 : ℤ) ^ (1000 + 1074) := by exact_mod_cast h
  exact le_trans h2 (le_trans (pow_le_pow_right₀ (by norm_num) (by norm_num)) two_pow_2097_le_maxFin_int)

theorem add_fv {x y : F64} (hx : x.is_finite = true) (hy : y.is_finite = true)
    (hb : |fv x + fv y| ≤ 2 ^ 1000) :
    (F64.add x y).is_finite = true ∧
      |fv (F64.add x y) - (fv x + fv y)| ≤ |fv x + fv y| / 2 ^ 53 := by
  have hU : (0 : ℝ) < 2 ^ 1074 := by positivity
  have e : fv x + fv y = ((x.toInt + y.toInt : ℤ) : ℝ) / 2 ^ 1074 := by
    unfold fv; push_cast; ring
  rw [e] at hb ⊢
  rw [abs_div, abs_of_pos hU, div_le_iff₀ hU] at hb
  obtain ⟨hf, hv⟩ := add_spec hx hy (rn53_natAbs_le_maxFin (int_le_maxFin_of_real hb))
  refine ⟨hf, ?_⟩
  have hr := rel_err_rnI (x.toInt + y.toInt)
  unfold fv; rw [hv]
  generalize x.toInt + y.toInt = v at *
  have hr' : (2 : ℝ) ^ 53 * |((rnI v : ℤ) : ℝ) - (v : ℝ)| ≤ |(v : ℝ)| := by exact_mod_cast hr
  exact core_rel hU hr'

theorem sub_fv {x y : F64} (hx : x.is_finite = true) (hy : y.is_finite = true)
    (hb : |fv x - fv y| ≤ 2 ^ 1000) :
    (F64.sub x y).is_finite = true ∧
      |fv (F64.sub x y) - (fv x - fv y)| ≤ |fv x - fv y| / 2 ^ 53 := by
  have hU : (0 : ℝ) < 2 ^ 1074 := by positivity
  have e : fv x - fv y = ((x.toInt - y.toInt : ℤ) : ℝ) / 2 ^ 1074 := by
    unfold fv; push_cast; ring
  rw [e] at hb ⊢
  rw [abs_div, abs_of_pos hU, div_le_iff₀ hU] at hb
  obtain ⟨hf, hv⟩ := sub_spec hx hy (rn53_natAbs_le_maxFin (int_le_maxFin_of_real hb))
  refine ⟨hf, ?_⟩
  have hr := rel_err_rnI (x.toInt - y.toInt)
  unfold fv; rw [hv]
  generalize x.toInt - y.toInt = v at *
  have hr' : (2 : ℝ) ^ 53 * |((rnI v : ℤ) : ℝ) - (v : ℝ)| ≤ |(v : ℝ)| := by exact_mod_cast hr
  exact core_rel hU hr'

theorem unit_real : ((unit : ℕ) : ℝ) = 2 ^ 1074 := by
  have := unit_cast_eq
  have h2 : (((unit : ℕ) : ℤ) : ℝ) = ((2 ^ 1074 : ℤ) : ℝ) := by rw [this]
  rw [Int.cast_natCast, Int.cast_pow, Int.cast_ofNat] at h2
  exact h2

theorem mul_fv {x y : F64} (hx : x.is_finite = true) (hy : y.is_finite = true)
    (hb : |fv x * fv y| ≤ 2 ^ 1000) :
    (F64.mul x y).is_finite = true ∧
      |fv (F64.mul x y) - fv x * fv y| ≤ |fv x * fv y| / 2 ^ 53 + 1 / 2 ^ 1075 := by
  have hU : (0 : ℝ) < 2 ^ 1074 := by positivity
  have e : fv x * fv y = ((x.toInt * y.toInt : ℤ) : ℝ) / (2 ^ 1074 * 2 ^ 1074) := by
    unfold fv; push_cast; field_simp
  rw [e] at hb ⊢
  have hUU : (0 : ℝ) < 2 ^ 1074 * 2 ^ 1074 := by positivity
  rw [abs_div, abs_of_pos hUU, div_le_iff₀ hUU] at hb
  have hbI : |x.toInt * y.toInt| ≤ 2 ^ 2074 * (unit : ℤ) := by
    rw [unit_cast_eq]
    have h1 : |((x.toInt * y.toInt : ℤ) : ℝ)| ≤ 2 ^ 2074 * 2 ^ 1074 := by
      rw [show (2074 : ℕ) = 1000 + 1074 from rfl, pow_add]; linarith
    exact_mod_cast h1
  obtain ⟨hf, hv⟩ := mul_spec hx hy (roundQ_le_maxFin_of_abs_le 2074 (by norm_num) unit_pos hbI)
  refine ⟨hf, ?_⟩
  have hr := rqI_err_gen (x.toInt * y.toInt) unit_pos
  unfold fv; rw [hv]
  generalize x.toInt * y.toInt = p at *
  have hr' : (2 : ℝ) ^ 53 * |((rqI p unit : ℤ) : ℝ) * ((unit : ℕ) : ℝ) - (p : ℝ)|
      ≤ 2 ^ 52 * ((unit : ℕ) : ℝ) + |(p : ℝ)| := by exact_mod_cast hr
  rw [unit_real] at hr'
  have := core_q hU hr'
  rwa [show (2 : ℝ) * 2 ^ 1074 = 2 ^ 1075 by rw [show (1075 : ℕ) = 1074 + 1 from rfl, pow_succ]; ring]
    at this

theorem div_fv {x y : F64} (hx : x.is_finite = true) (hy : y.is_finite = true) (hy0 : fv y ≠ 0)
    (hb : |fv x| ≤ 2 ^ 1000 * |fv y|) :
    (F64.div x y).is_finite = true ∧
      |fv (F64.div x y) - fv x / fv y| ≤ |fv x / fv y| / 2 ^ 53 + 1 / 2 ^ 1075 := by
  have hU : (0 : ℝ) < 2 ^ 1074 := by positivity
  have hq0 : y.toInt ≠ 0 := by
    intro h; apply hy0; unfold fv; rw [h]; simp
  have hq0' : (y.toInt : ℝ) ≠ 0 := by exact_mod_cast hq0
  have hbI : |x.toInt * (unit : ℤ)| ≤ 2 ^ 2074 * ((y.toInt.natAbs : ℕ) : ℤ) := by
    rw [Int.natCast_natAbs, unit_cast_eq]
    unfold fv at hb
    rw [abs_div, abs_div, abs_of_pos hU, ← mul_div_assoc, div_le_div_iff_of_pos_right hU] at hb
    have h1 : |((x.toInt * 2 ^ 1074 : ℤ) : ℝ)| ≤ 2 ^ 2074 * |(y.toInt : ℝ)| := by
      rw [Int.cast_mul, Int.cast_pow, Int.cast_ofNat]
      rw [abs_mul, abs_of_pos hU, show (2074 : ℕ) = 1000 + 1074 from rfl, pow_add]
      nlinarith [abs_nonneg (x.toInt : ℝ), abs_nonneg (y.toInt : ℝ)]
    exact_mod_cast h1
  obtain ⟨hf, hv⟩ := div_spec hx hy hq0
    (roundQ_le_maxFin_of_abs_le 2074 (by norm_num) (Int.natAbs_pos.2 hq0) hbI)
  refine ⟨hf, ?_⟩
  have hr := rdI_err_gen (x.toInt * (unit : ℤ)) hq0
  unfold fv; rw [hv]
  generalize rdI (x.toInt * (unit : ℤ)) y.toInt = r at *
  have hr' : (2 : ℝ) ^ 53 * |(r : ℝ) * (y.toInt : ℝ) - (x.toInt : ℝ) * ((unit : ℕ) : ℝ)|
      ≤ 2 ^ 52 * |(y.toInt : ℝ)| + |(x.toInt : ℝ) * ((unit : ℕ) : ℝ)| := by exact_mod_cast hr
  rw [unit_real] at hr'
  have := core_d hU hq0' hr'
  rwa [show (2 : ℝ) * 2 ^ 1074 = 2 ^ 1075 by rw [show (1075 : ℕ) = 1074 + 1 from rfl, pow_succ]; ring]
    at this

/-! ### exact values of constants -/

theorem fv_of_toInt {x : F64} {m : ℤ} {e : ℕ} (he : e ≤ 1074) (h : x.toInt = m * 2 ^ e) :
    fv x = (m : ℝ) / 2 ^ (1074 - e) := by
  unfold fv
  rw [h, Int.cast_mul, Int.cast_pow, Int.cast_ofNat]
  have e1 : (2 : ℝ) ^ 1074 = 2 ^ e * 2 ^ (1074 - e) := by
    rw [← pow_add]; congr 1; omega
  rw [e1]
  have : (0 : ℝ) < 2 ^ e := by positivity
  field_simp

theorem fv_of_toInt' {x : F64} {m : ℤ} {e : ℕ} (h : x.toInt = m * 2 ^ (1074 + e)) :
    fv x = (m : ℝ) * 2 ^ e := by
  unfold fv
  rw [h, Int.cast_mul, Int.cast_pow, Int.cast_ofNat, pow_add]
  have : (0 : ℝ) < 2 ^ 1074 := by positivity
  field_simp

theorem LG1_toInt : Libm.LG1.toInt = 6004799503160723 * 2 ^ 1021 := by decide +kernel
theorem LG2_toInt : Libm.LG2.toInt = 1801439850921601 * 2 ^ 1022 := by decide +kernel
theorem LG3_toInt : Libm.LG3.toInt = 5146971033736025 * 2 ^ 1020 := by decide +kernel
theorem LG4_toInt : Libm.LG4.toInt = 8006390766270639 * 2 ^ 1019 := by decide +kernel
theorem LG5_toInt : Libm.LG5.toInt = 3275661152453103 * 2 ^ 1020 := by decide +kernel
theorem LG6_toInt : Libm.LG6.toInt = 5517391500461727 * 2 ^ 1019 := by decide +kernel
theorem LG7_toInt : Libm.LG7.toInt = 1332903234475153 * 2 ^ 1021 := by decide +kernel
theorem LN2_HI_toInt : Libm.LN2_HI.toInt = 2977044471 * 2 ^ 1042 := by decide +kernel
theorem LN2_LO_toInt : Libm.LN2_LO.toInt = 3691024475790907 * 2 ^ 990 := by decide +kernel
theorem c1_toInt : Libm.c1.toInt = 1 * 2 ^ 1074 := by decide +kernel
theorem c2_toInt : Libm.c2.toInt = 1 * 2 ^ (1074 + 1) := by decide +kernel
theorem chalf_toInt : Libm.chalf.toInt = 1 * 2 ^ 1073 := by decide +kernel

theorem fv_LG1 : fv Libm.LG1 = 6004799503160723 / 2 ^ 53 := by
  rw [fv_of_toInt (by norm_num) LG1_toInt]; norm_num
theorem fv_LG2 : fv Libm.LG2 = 1801439850921601 / 2 ^ 52 := by
  rw [fv_of_toInt (by norm_num) LG2_toInt]; norm_num
theorem fv_LG3 : fv Libm.LG3 = 5146971033736025 / 2 ^ 54 := by
  rw [fv_of_toInt (by norm_num) LG3_toInt]; norm_num
theorem fv_LG4 : fv Libm.LG4 = 8006390766270639 / 2 ^ 55 := by
  rw [fv_of_toInt (by norm_num) LG4_toInt]; norm_num
theorem fv_LG5 : fv Libm.LG5 = 3275661152453103 / 2 ^ 54 := by
  rw [fv_of_toInt (by norm_num) LG5_toInt]; norm_num
theorem fv_LG6 : fv Libm.LG6 = 5517391500461727 / 2 ^ 55 := by
  rw [fv_of_toInt (by norm_num) LG6_toInt]; norm_num
theorem fv_LG7 : fv Libm.LG7 = 1332903234475153 / 2 ^ 53 := by
  rw [fv_of_toInt (by norm_num) LG7_toInt]; norm_num
theorem fv_LN2_HI : fv Libm.LN2_HI = 2977044471 / 2 ^ 32 := by
  rw [fv_of_toInt (by norm_num) LN2_HI_toInt]; norm_num
theorem fv_LN2_LO : fv Libm.LN2_LO = 3691024475790907 / 2 ^ 84 := by
  rw [fv_of_toInt (by norm_num) LN2_LO_toInt]; norm_num
theorem fv_c1 : fv Libm.c1 = 1 := by
  rw [fv_of_toInt (by norm_num) c1_toInt]; norm_num
theorem fv_c2 : fv Libm.c2 = 2 := by
  rw [fv_of_toInt' c2_toInt]; norm_num
theorem fv_chalf : fv Libm.chalf = 1 / 2 := by
  rw [fv_of_toInt (by norm_num) chalf_toInt]; norm_num

/-! ### approximation predicate with magnitudes below `2^12`: every rounding error is at most `2^-40` -/

/-- `x` is finite, its value is within `δ` of the real `r`, and `|r| ≤ B` -/
def Ap (x : F64) (r δ B : ℝ) : Prop := x.is_finite = true ∧ |fv x - r| ≤ δ ∧ |r| ≤ B

theorem Ap.abs_fv_le {x : F64} {r δ B : ℝ} (h : Ap x r δ B) : |fv x| ≤ B + δ := by
  have := abs_add_le (fv x - r) r
  rw [sub_add_cancel] at this
  linarith [h.2.1, h.2.2]

theorem Ap.const {x : F64} {c B : ℝ} (hx : x.is_finite = true) (hv : fv x = c) (hB : |c| ≤ B) :
    Ap x c 0 B := ⟨hx, by rw [hv, sub_self, abs_zero], hB⟩

theorem Ap.congr {x : F64} {r r' δ B : ℝ} (h : Ap x r δ B) (e : r = r') : Ap x r' δ B := e ▸ h

theorem Ap.bound {x : F64} {r δ B B' : ℝ} (h : Ap x r δ B) (hB : |r| ≤ B') : Ap x r δ B' :=
  ⟨h.1, h.2.1, hB⟩

theorem Ap.mono {x : F64} {r δ δ' B : ℝ} (h : Ap x r δ B) (hδ : δ ≤ δ') : Ap x r δ' B :=
  ⟨h.1, le_trans h.2.1 hδ, h.2.2⟩

theorem big_le : (4096 : ℝ) ≤ 2 ^ 1000 := by
  calc (4096 : ℝ) = 2 ^ 12 := by norm_num
    _ ≤ 2 ^ 1000 := pow_le_pow_right₀ (by norm_num) (by norm_num)

theorem tiny_le : (1 : ℝ) / 2 ^ 1075 ≤ 1 / 2 ^ 41 :=
  one_div_le_one_div_of_le (by positivity) (pow_le_pow_right₀ (by norm_num) (by norm_num))

theorem Ap.add {x y : F64} {a b δa δb A B δ C : ℝ} (hx : Ap x a δa A) (hy : Ap y b δb B)
    (hm : A + δa + (B + δb) ≤ 4096) (hδ : δa + δb + 1 / 2 ^ 40 ≤ δ) (hC : A + B ≤ C) :
    Ap (F64.add x y) (a + b) δ C := by
  have h1 := hx.abs_fv_le
  have h2 := hy.abs_fv_le
  have hs : |fv x + fv y| ≤ 4096 := le_trans (abs_add_le _ _) (by linarith)
  obtain ⟨hf, he⟩ := add_fv hx.1 hy.1 (le_trans hs big_le)
  refine ⟨hf, ?_, le_trans (abs_add_le _ _) (by linarith [hx.2.2, hy.2.2])⟩
  have e : fv (F64.add x y) - (a + b)
      = (fv (F64.add x y) - (fv x + fv y)) + ((fv x - a) + (fv y - b)) := by ring
  rw [e]
  refine le_trans (abs_add_le _ _) ?_
  have h3 := abs_add_le (fv x - a) (fv y - b)
  have h4 : |fv x + fv y| / 2 ^ 53 ≤ 1 / 2 ^ 40 := by
    rw [div_le_iff₀ (by positivity)]; norm_num; linarith
  linarith [hx.2.1, hy.2.1]

theorem Ap.sub {x y : F64} {a b δa δb A B δ C : ℝ} (hx : Ap x a δa A) (hy : Ap y b δb B)
    (hm : A + δa + (B + δb) ≤ 4096) (hδ : δa + δb + 1 / 2 ^ 40 ≤ δ) (hC : A + B ≤ C) :
    Ap (F64.sub x y) (a - b) δ C := by
  have h1 := hx.abs_fv_le
  have h2 := hy.abs_fv_le
  have hs : |fv x - fv y| ≤ 4096 := le_trans (abs_sub _ _) (by linarith)
  obtain ⟨hf, he⟩ := sub_fv hx.1 hy.1 (le_trans hs big_le)
  refine ⟨hf, ?_, le_trans (abs_sub _ _) (by linarith [hx.2.2, hy.2.2])⟩
  have e : fv (F64.sub x y) - (a - b)
      = (fv (F64.sub x y) - (fv x - fv y)) + ((fv x - a) - (fv y - b)) := by ring
  rw [e]
  refine le_trans (abs_add_le _ _) ?_
  have h3 := abs_sub (fv x - a) (fv y - b)
  have h4 : |fv x - fv y| / 2 ^ 53 ≤ 1 / 2 ^ 40 := by
    rw [div_le_iff₀ (by positivity)]; norm_num; linarith
  linarith [hx.2.1, hy.2.1]

theorem Ap.mul {x y : F64} {a b δa δb A B δ C : ℝ} (hx : Ap x a δa A) (hy : Ap y b δb B)
    (hm : (A + δa) * (B + δb) ≤ 4096) (hδ : δa * (B + δb) + A * δb + 1 / 2 ^ 40 ≤ δ)
    (hC : A * B ≤ C) : Ap (F64.mul x y) (a * b) δ C := by
  have h1 := hx.abs_fv_le
  have h2 := hy.abs_fv_le
  have hA : 0 ≤ A := le_trans (abs_nonneg _) hx.2.2
  have hB : 0 ≤ B := le_trans (abs_nonneg _) hy.2.2
  have hda : 0 ≤ δa := le_trans (abs_nonneg _) hx.2.1
  have hdb : 0 ≤ δb := le_trans (abs_nonneg _) hy.2.1
  have hs : |fv x * fv y| ≤ 4096 := by
    rw [abs_mul]
    exact le_trans (mul_le_mul h1 h2 (abs_nonneg _) (by linarith)) hm
  obtain ⟨hf, he⟩ := mul_fv hx.1 hy.1 (le_trans hs big_le)
  refine ⟨hf, ?_, ?_⟩
  · have e : fv (F64.mul x y) - a * b
        = (fv (F64.mul x y) - fv x * fv y) + ((fv x - a) * fv y + a * (fv y - b)) := by ring
    rw [e]
    refine le_trans (abs_add_le _ _) ?_
    have h3 := abs_add_le ((fv x - a) * fv y) (a * (fv y - b))
    rw [abs_mul, abs_mul] at h3
    have h5 : |fv x - a| * |fv y| ≤ δa * (B + δb) := mul_le_mul hx.2.1 h2 (abs_nonneg _) hda
    have h6 : |a| * |fv y - b| ≤ A * δb := mul_le_mul hx.2.2 hy.2.1 (abs_nonneg _) hA
    have h4 : |fv x * fv y| / 2 ^ 53 ≤ 1 / 2 ^ 41 := by
      have : |fv x * fv y| / 2 ^ 53 ≤ 4096 / 2 ^ 53 := div_le_div_of_nonneg_right hs (by positivity)
      linarith [show (4096 : ℝ) / 2 ^ 53 = 1 / 2 ^ 41 by norm_num]
    have h7 := tiny_le
    have h8 : (1 : ℝ) / 2 ^ 41 + 1 / 2 ^ 41 = 1 / 2 ^ 40 := by norm_num
    linarith
  · rw [abs_mul]
    exact le_trans (mul_le_mul hx.2.2 hy.2.2 (abs_nonneg _) hA) hC

theorem Ap.div {x y : F64} {a b δa δb A B δ : ℝ} (hx : Ap x a δa A) (hy : Ap y b δb B)
    (hb1 : 1 + δb ≤ b) (hm : A + δa ≤ 4096) (hδ : δa + A * δb + 1 / 2 ^ 40 ≤ δ) :
    Ap (F64.div x y) (a / b) δ A := by
  have h1 := hx.abs_fv_le
  have hA : 0 ≤ A := le_trans (abs_nonneg _) hx.2.2
  have hda : 0 ≤ δa := le_trans (abs_nonneg _) hx.2.1
  have hdb : 0 ≤ δb := le_trans (abs_nonneg _) hy.2.1
  have hb : 1 ≤ b := by linarith
  have hy1 : 1 ≤ fv y := by
    have := (abs_le.1 hy.2.1).1; linarith
  have hy0 : fv y ≠ 0 := by linarith
  have hyabs : |fv y| = fv y := abs_of_pos (by linarith)
  have hq : |fv x / fv y| ≤ |fv x| := by
    rw [abs_div, hyabs]; exact div_le_self (abs_nonneg _) hy1
  obtain ⟨hf, he⟩ := div_fv hx.1 hy.1 hy0 (by
    rw [hyabs]
    have : (1 : ℝ) ≤ 2 ^ 1000 := le_trans (by norm_num) big_le
    nlinarith [abs_nonneg (fv x)])
  refine ⟨hf, ?_, ?_⟩
  · have e : fv (F64.div x y) - a / b
        = (fv (F64.div x y) - fv x / fv y) + ((fv x - a) / fv y - a * (fv y - b) / (fv y * b)) := by
      field_simp; ring
    rw [e]
    refine le_trans (abs_add_le _ _) ?_
    have h3 := abs_sub ((fv x - a) / fv y) (a * (fv y - b) / (fv y * b))
    have h5 : |(fv x - a) / fv y| ≤ δa := by
      rw [abs_div, hyabs]
      exact le_trans (div_le_self (abs_nonneg _) hy1) hx.2.1
    have h6 : |a * (fv y - b) / (fv y * b)| ≤ A * δb := by
      rw [abs_div, abs_mul, abs_of_pos (by positivity : 0 < fv y * b)]
      have : (1 : ℝ) ≤ fv y * b := by nlinarith
      exact le_trans (div_le_self (by positivity) this)
        (mul_le_mul hx.2.2 hy.2.1 (abs_nonneg _) hA)
    have h4 : |fv x / fv y| / 2 ^ 53 ≤ 1 / 2 ^ 41 := by
      have : |fv x / fv y| / 2 ^ 53 ≤ 4096 / 2 ^ 53 :=
        div_le_div_of_nonneg_right (by linarith) (by positivity)
      linarith [show (4096 : ℝ) / 2 ^ 53 = 1 / 2 ^ 41 by norm_num]
    have h7 := tiny_le
    have h8 : (1 : ℝ) / 2 ^ 41 + 1 / 2 ^ 41 = 1 / 2 ^ 40 := by norm_num
    linarith
  · rw [abs_div, abs_of_pos (by linarith : 0 < b)]
    exact le_trans (div_le_self (abs_nonneg _) hb) hx.2.2

/-! ## D. rounding-error propagation through the body of `Libm.log.go` -/

open Libm in
/-- the floating-point body of `Libm.log.go` as a function of the exponent `k` and the reduced argument `x` -/
def goBody (k : ℤ) (x : F64) : F64 :=
  let f := F64.sub x c1
  let hfsq := F64.mul (F64.mul chalf f) f
  let s := F64.div f (F64.add c2 f)
  let z := F64.mul s s
  let w := F64.mul z z
  let t1 := F64.mul w (F64.add LG2 (F64.mul w (F64.add LG4 (F64.mul w LG6))))
  let t2 := F64.mul z (F64.add LG1 (F64.mul w (F64.add LG3 (F64.mul w (F64.add LG5 (F64.mul w LG7))))))
  let r := F64.add t2 t1
  let dk := F64.ofInt k
  F64.add (F64.add (F64.sub (F64.add (F64.mul s (F64.add hfsq r)) (F64.mul dk LN2_LO)) hfsq) f)
    (F64.mul dk LN2_HI)

theorem go_eq (k0 : ℤ) (ui : ℕ) :
    Libm.log.go k0 ui = goBody (k0 + (Libm.reduce ui).1) (Libm.reduce ui).2 := rfl

/-- ideal (exactly evaluated) odd/even polynomial parts -/
noncomputable def T1 (w : ℝ) : ℝ := w * (fv Libm.LG2 + w * (fv Libm.LG4 + w * fv Libm.LG6))
noncomputable def T2 (z w : ℝ) : ℝ :=
  z * (fv Libm.LG1 + w * (fv Libm.LG3 + w * (fv Libm.LG5 + w * fv Libm.LG7)))

/-- the exactly evaluated body: `f = x - 1`, `k` the exponent -/
noncomputable def G (k f : ℝ) : ℝ :=
  ((f / (2 + f) * (1 / 2 * f * f
      + (T2 (f / (2 + f) * (f / (2 + f))) (f / (2 + f) * (f / (2 + f)) * (f / (2 + f) * (f / (2 + f))))
          + T1 (f / (2 + f) * (f / (2 + f)) * (f / (2 + f) * (f / (2 + f))))))
      + k * fv Libm.LN2_LO) - 1 / 2 * f * f + f) + k * fv Libm.LN2_HI

theorem apLG1 : Ap Libm.LG1 (fv Libm.LG1) 0 1 := Ap.const rfl rfl (by rw [fv_LG1]; norm_num [abs_le])
theorem apLG2 : Ap Libm.LG2 (fv Libm.LG2) 0 1 := Ap.const rfl rfl (by rw [fv_LG2]; norm_num [abs_le])
theorem apLG3 : Ap Libm.LG3 (fv Libm.LG3) 0 1 := Ap.const rfl rfl (by rw [fv_LG3]; norm_num [abs_le])
theorem apLG4 : Ap Libm.LG4 (fv Libm.LG4) 0 1 := Ap.const rfl rfl (by rw [fv_LG4]; norm_num [abs_le])
theorem apLG5 : Ap Libm.LG5 (fv Libm.LG5) 0 1 := Ap.const rfl rfl (by rw [fv_LG5]; norm_num [abs_le])
theorem apLG6 : Ap Libm.LG6 (fv Libm.LG6) 0 1 := Ap.const rfl rfl (by rw [fv_LG6]; norm_num [abs_le])
theorem apLG7 : Ap Libm.LG7 (fv Libm.LG7) 0 1 := Ap.const rfl rfl (by rw [fv_LG7]; norm_num [abs_le])
theorem apLN2HI : Ap Libm.LN2_HI (fv Libm.LN2_HI) 0 (7 / 10) :=
  Ap.const rfl rfl (by rw [fv_LN2_HI]; norm_num [abs_le])
theorem apLN2LO : Ap Libm.LN2_LO (fv Libm.LN2_LO) 0 (1 / 2 ^ 30) :=
  Ap.const rfl rfl (by rw [fv_LN2_LO]; norm_num [abs_le])
theorem apc1 : Ap Libm.c1 1 0 1 := Ap.const rfl fv_c1 (by norm_num)
theorem apc2 : Ap Libm.c2 2 0 2 := Ap.const rfl fv_c2 (by norm_num)
theorem apchalf : Ap Libm.chalf (1 / 2) 0 (1 / 2) := Ap.const rfl fv_chalf (by norm_num [abs_le])

theorem f_ap {X : F64} (hX : X.is_finite = true) (h1 : 7071 / 10000 ≤ fv X)
    (h2 : fv X ≤ 141422 / 100000) :
    Ap (F64.sub X Libm.c1) (fv X - 1) (1 / 2 ^ 40) (1 / 2) := by
  have hx : Ap X (fv X) 0 (3 / 2) := Ap.const hX rfl (by rw [abs_le]; constructor <;> linarith)
  exact (hx.sub apc1 (C := 5 / 2) (by norm_num) (by norm_num) (by norm_num)).bound
    (by rw [abs_le]; constructor <;> linarith)

theorem kernel_ap {F : F64} {f : ℝ} (hF : Ap F f (1 / 2 ^ 40) (1 / 2)) (hf : -3 / 10 ≤ f) :
    Ap (F64.mul (F64.mul Libm.chalf F) F) (1 / 2 * f * f) (3 / 2 ^ 40) (1 / 8) ∧
    Ap (F64.div F (F64.add Libm.c2 F)) (f / (2 + f)) (3 / 2 ^ 40) (1 / 2) := by
  have m1 : Ap (F64.mul Libm.chalf F) (1 / 2 * f) (2 / 2 ^ 40) (1 / 4) :=
    apchalf.mul hF (by norm_num) (by norm_num) (by norm_num)
  have m2 := m1.mul hF (δ := 3 / 2 ^ 40) (C := 1 / 8) (by norm_num) (by norm_num) (by norm_num)
  have d : Ap (F64.add Libm.c2 F) (2 + f) (2 / 2 ^ 40) (5 / 2) :=
    apc2.add hF (by norm_num) (by norm_num) (by norm_num)
  have hb1 : (1 : ℝ) + 2 / 2 ^ 40 ≤ 2 + f := by
    have : (2 : ℝ) / 2 ^ 40 ≤ 1 / 10 := by norm_num
    linarith
  exact ⟨m2, hF.div d hb1 (by norm_num) (by norm_num)⟩

theorem zw_ap {S : F64} {s : ℝ} (hS : Ap S s (3 / 2 ^ 40) (1 / 2)) :
    Ap (F64.mul S S) (s * s) (5 / 2 ^ 40) (1 / 4) ∧
    Ap (F64.mul (F64.mul S S) (F64.mul S S)) (s * s * (s * s)) (4 / 2 ^ 40) (1 / 16) := by
  have z := hS.mul hS (δ := 5 / 2 ^ 40) (C := 1 / 4) (by norm_num) (by norm_num) (by norm_num)
  exact ⟨z, z.mul z (by norm_num) (by norm_num) (by norm_num)⟩

theorem t1_ap {W : F64} {w : ℝ} (hW : Ap W w (4 / 2 ^ 40) (1 / 16)) :
    Ap (F64.mul W (F64.add Libm.LG2 (F64.mul W (F64.add Libm.LG4 (F64.mul W Libm.LG6)))))
      (T1 w) (10 / 2 ^ 40) (1 / 8) := by
  have a1 : Ap (F64.mul W Libm.LG6) (w * fv Libm.LG6) (5 / 2 ^ 40) (1 / 16) :=
    hW.mul apLG6 (by norm_num) (by norm_num) (by norm_num)
  have a2 : Ap (F64.add Libm.LG4 (F64.mul W Libm.LG6)) (fv Libm.LG4 + w * fv Libm.LG6)
      (6 / 2 ^ 40) 2 := apLG4.add a1 (by norm_num) (by norm_num) (by norm_num)
  have a3 := hW.mul a2 (δ := 10 / 2 ^ 40) (C := 1 / 8) (by norm_num) (by norm_num) (by norm_num)
  have a4 := apLG2.add a3 (δ := 11 / 2 ^ 40) (C := 2) (by norm_num) (by norm_num) (by norm_num)
  exact hW.mul a4 (by norm_num) (by norm_num) (by norm_num)

theorem t2_ap {Z W : F64} {z w : ℝ} (hZ : Ap Z z (5 / 2 ^ 40) (1 / 4))
    (hW : Ap W w (4 / 2 ^ 40) (1 / 16)) :
    Ap (F64.mul Z (F64.add Libm.LG1 (F64.mul W (F64.add Libm.LG3 (F64.mul W
        (F64.add Libm.LG5 (F64.mul W Libm.LG7)))))))
      (T2 z w) (14 / 2 ^ 40) (1 / 2) := by
  have a1 : Ap (F64.mul W Libm.LG7) (w * fv Libm.LG7) (5 / 2 ^ 40) (1 / 16) :=
    hW.mul apLG7 (by norm_num) (by norm_num) (by norm_num)
  have a2 := apLG5.add a1 (δ := 6 / 2 ^ 40) (C := 2) (by norm_num) (by norm_num) (by norm_num)
  have a3 := hW.mul a2 (δ := 10 / 2 ^ 40) (C := 1 / 8) (by norm_num) (by norm_num) (by norm_num)
  have a4 := apLG3.add a3 (δ := 11 / 2 ^ 40) (C := 2) (by norm_num) (by norm_num) (by norm_num)
  have a5 := hW.mul a4 (δ := 10 / 2 ^ 40) (C := 1 / 8) (by norm_num) (by norm_num) (by norm_num)
  have a6 := apLG1.add a5 (δ := 11 / 2 ^ 40) (C := 2) (by norm_num) (by norm_num) (by norm_num)
  exact hZ.mul a6 (by norm_num) (by norm_num) (by norm_num)

theorem tail_ap {S HF R Fv DK : F64} {s h r f k : ℝ} (hS : Ap S s (3 / 2 ^ 40) (1 / 2))
    (hH : Ap HF h (3 / 2 ^ 40) (1 / 8)) (hR : Ap R r (25 / 2 ^ 40) 1)
    (hF : Ap Fv f (1 / 2 ^ 40) (1 / 2)) (hK : Ap DK k 0 1100) :
    Ap (F64.add (F64.add (F64.sub (F64.add (F64.mul S (F64.add HF R)) (F64.mul DK Libm.LN2_LO)) HF) Fv)
        (F64.mul DK Libm.LN2_HI))
      (((s * (h + r) + k * fv Libm.LN2_LO) - h + f) + k * fv Libm.LN2_HI) (30 / 2 ^ 40) 774 := by
  have a1 := hH.add hR (δ := 29 / 2 ^ 40) (C := 9 / 8) (by norm_num) (by norm_num) (by norm_num)
  have a2 := hS.mul a1 (δ := 20 / 2 ^ 40) (C := 9 / 16) (by norm_num) (by norm_num) (by norm_num)
  have a3 := hK.mul apLN2LO (δ := 1 / 2 ^ 40) (C := 1) (by norm_num) (by norm_num) (by norm_num)
  have a4 := a2.add a3 (δ := 22 / 2 ^ 40) (C := 2) (by norm_num) (by norm_num) (by norm_num)
  have a5 := a4.sub hH (δ := 26 / 2 ^ 40) (C := 3) (by norm_num) (by norm_num) (by norm_num)
  have a6 := a5.add hF (δ := 28 / 2 ^ 40) (C := 4) (by norm_num) (by norm_num) (by norm_num)
  have a7 := hK.mul apLN2HI (δ := 1 / 2 ^ 40) (C := 770) (by norm_num) (by norm_num) (by norm_num)
  exact a6.add a7 (by norm_num) (by norm_num) (by norm_num)

theorem ofInt_ap {k : ℤ} (hk : |k| ≤ 1100) : Ap (F64.ofInt k) (k : ℝ) 0 1100 := by
  have hk' : k.natAbs < 2 ^ 53 := by
    have : (k.natAbs : ℤ) ≤ 1100 := by rw [Int.natCast_natAbs]; exact hk
    omega
  obtain ⟨e1, e2, _⟩ := F64.ofInt_exact_of_lt k hk'
  refine Ap.const (by rw [e1]; rfl) ?_ (by exact_mod_cast hk)
  unfold fv
  rw [e2, Int.cast_mul, Int.cast_natCast, unit_real]
  exact mul_div_cancel_right₀ _ (by positivity)

/-- **rounding errors of the body**: the computed value is within `30·2^-40` of the exactly evaluated formula -/
theorem goBody_ap {k : ℤ} {X : F64} (hX : X.is_finite = true) (h1 : 7071 / 10000 ≤ fv X)
    (h2 : fv X ≤ 141422 / 100000) (hk : |k| ≤ 1100) :
    Ap (goBody k X) (G (k : ℝ) (fv X - 1)) (30 / 2 ^ 40) 774 := by
  have hF := f_ap hX h1 h2
  obtain ⟨hH, hS⟩ := kernel_ap hF (by linarith)
  obtain ⟨hZ, hW⟩ := zw_ap hS
  have hR := (t2_ap hZ hW).add (t1_ap hW) (δ := 25 / 2 ^ 40) (C := 1) (by norm_num) (by norm_num)
    (by norm_num)
  exact tail_ap hS hH hR hF (ofInt_ap hk)

/-! ## C. real analysis: the exactly evaluated body against `k·log 2 + log (1 + f)` -/

theorem sum16 (x : ℝ) : ∑ i ∈ Finset.range 16, x ^ (i + 1) / ((i : ℝ) + 1)
    = x + x ^ 2 / 2 + x ^ 3 / 3 + x ^ 4 / 4 + x ^ 5 / 5 + x ^ 6 / 6 + x ^ 7 / 7 + x ^ 8 / 8 + x ^ 9 / 9
      + x ^ 10 / 10 + x ^ 11 / 11 + x ^ 12 / 12 + x ^ 13 / 13 + x ^ 14 / 14 + x ^ 15 / 15
      + x ^ 16 / 16 := by
  simp only [Finset.sum_range_succ, Finset.sum_range_zero]
  norm_num

/-- the odd series of `log ((1+s)/(1-s))`, written with `z = s²` -/
noncomputable def Q (z : ℝ) : ℝ :=
  z * (2 / 3 + z * (2 / 5 + z * (2 / 7 + z * (2 / 9 + z * (2 / 11 + z * (2 / 13 + z * (2 / 15)))))))

theorem tail_bound {s : ℝ} (hs : |s| ≤ 3 / 16) : |s| ^ 17 / (1 - |s|) ≤ 1 / 2 ^ 40 := by
  have h0 := abs_nonneg s
  have h1 : |s| ^ 17 ≤ (3 / 16) ^ 17 := pow_le_pow_left₀ h0 hs 17
  have h2 : (13 : ℝ) / 16 ≤ 1 - |s| := by linarith
  calc |s| ^ 17 / (1 - |s|) ≤ (3 / 16) ^ 17 / (13 / 16) :=
        div_le_div₀ (by positivity) h1 (by norm_num) h2
    _ ≤ 1 / 2 ^ 40 := by norm_num

theorem log_series {s : ℝ} (hs : |s| ≤ 3 / 16) :
    |Real.log (1 + s) - Real.log (1 - s) - (2 * s + s * Q (s * s))| ≤ 2 / 2 ^ 40 := by
  have hlt : |s| < 1 := lt_of_le_of_lt hs (by norm_num)
  have hlt' : |-s| < 1 := by rwa [abs_neg]
  have h1 := Real.abs_log_sub_add_sum_range_le hlt 16
  have h2 := Real.abs_log_sub_add_sum_range_le hlt' 16
  rw [sum16] at h1 h2
  rw [abs_neg, sub_neg_eq_add] at h2
  have t := tail_bound hs
  have e : Real.log (1 + s) - Real.log (1 - s) - (2 * s + s * Q (s * s))
      = ((-s) + (-s) ^ 2 / 2 + (-s) ^ 3 / 3 + (-s) ^ 4 / 4 + (-s) ^ 5 / 5 + (-s) ^ 6 / 6 + (-s) ^ 7 / 7
          + (-s) ^ 8 / 8 + (-s) ^ 9 / 9 + (-s) ^ 10 / 10 + (-s) ^ 11 / 11 + (-s) ^ 12 / 12
          + (-s) ^ 13 / 13 + (-s) ^ 14 / 14 + (-s) ^ 15 / 15 + (-s) ^ 16 / 16 + Real.log (1 + s))
        - (s + s ^ 2 / 2 + s ^ 3 / 3 + s ^ 4 / 4 + s ^ 5 / 5 + s ^ 6 / 6 + s ^ 7 / 7 + s ^ 8 / 8
          + s ^ 9 / 9 + s ^ 10 / 10 + s ^ 11 / 11 + s ^ 12 / 12 + s ^ 13 / 13 + s ^ 14 / 14
          + s ^ 15 / 15 + s ^ 16 / 16 + Real.log (1 - s)) := by
    unfold Q; ring
  rw [e]
  refine le_trans (abs_sub _ _) ?_
  linarith

theorem horner_step {e u z d D Z : ℝ} (he : |e| ≤ d) (hu : |u| ≤ D) (hz0 : 0 ≤ z) (hz : z ≤ Z) :
    |e + z * u| ≤ d + Z * D := by
  refine le_trans (abs_add_le _ _) ?_
  rw [abs_mul, abs_of_nonneg hz0]
  have : z * |u| ≤ Z * D := mul_le_mul hz hu (abs_nonneg _) (le_trans hz0 hz)
  linarith

/-- the polynomial of the port against the truncated series, for `0 ≤ z ≤ 9/256` -/
theorem poly_diff {z : ℝ} (hz0 : 0 ≤ z) (hz : z ≤ 9 / 256) :
    |T2 z (z * z) + T1 (z * z) - Q z| ≤ 1 / 2 ^ 24 := by
  have e : T2 z (z * z) + T1 (z * z) - Q z
      = z * ((fv Libm.LG1 - 2 / 3) + z * ((fv Libm.LG2 - 2 / 5) + z * ((fv Libm.LG3 - 2 / 7)
          + z * ((fv Libm.LG4 - 2 / 9) + z * ((fv Libm.LG5 - 2 / 11) + z * ((fv Libm.LG6 - 2 / 13)
          + z * (fv Libm.LG7 - 2 / 15))))))) := by
    unfold T1 T2 Q; ring
  rw [e]
  have d1 : |fv Libm.LG1 - 2 / 3| ≤ 1 / 2 ^ 20 := by rw [fv_LG1, abs_le]; constructor <;> norm_num
  have d2 : |fv Libm.LG2 - 2 / 5| ≤ 1 / 2 ^ 20 := by rw [fv_LG2, abs_le]; constructor <;> norm_num
  have d3 : |fv Libm.LG3 - 2 / 7| ≤ 1 / 2 ^ 20 := by rw [fv_LG3, abs_le]; constructor <;> norm_num
  have d4 : |fv Libm.LG4 - 2 / 9| ≤ 1 / 2 ^ 20 := by rw [fv_LG4, abs_le]; constructor <;> norm_num
  have d5 : |fv Libm.LG5 - 2 / 11| ≤ 1 / 2 ^ 15 := by rw [fv_LG5, abs_le]; constructor <;> norm_num
  have d6 : |fv Libm.LG6 - 2 / 13| ≤ 1 / 2 ^ 10 := by rw [fv_LG6, abs_le]; constructor <;> norm_num
  have d7 : |fv Libm.LG7 - 2 / 15| ≤ 1 / 2 ^ 6 := by rw [fv_LG7, abs_le]; constructor <;> norm_num
  have s6 := horner_step d6 d7 hz0 hz
  have s5 := horner_step d5 s6 hz0 hz
  have s4 := horner_step d4 s5 hz0 hz
  have s3 := horner_step d3 s4 hz0 hz
  have s2 := horner_step d2 s3 hz0 hz
  have s1 := horner_step d1 s2 hz0 hz
  rw [abs_mul, abs_of_nonneg hz0]
  refine le_trans (mul_le_mul hz s1 (abs_nonneg _) (by norm_num)) ?_
  norm_num

theorem ln2_sum_close : |fv Libm.LN2_HI + fv Libm.LN2_LO - Real.log 2| ≤ 1 / 2 ^ 60 := by
  obtain ⟨h1, h2⟩ := ConstBounds.log_two_encl
  have a : (2977044471 / 2 ^ 32 + 3691024475790907 / 2 ^ 84 - 1 / 2 ^ 60 : ℚ) ≤ ConstBounds.ln2Lo := by
    decide +kernel
  have b : ConstBounds.ln2Hi ≤ (2977044471 / 2 ^ 32 + 3691024475790907 / 2 ^ 84 + 1 / 2 ^ 60 : ℚ) := by
    decide +kernel
  have a' := (Rat.cast_le (K := ℝ)).2 a
  have b' := (Rat.cast_le (K := ℝ)).2 b
  push_cast at a' b'
  rw [fv_LN2_HI, fv_LN2_LO, abs_le]
  constructor <;> linarith

theorem body_alg (f r a b : ℝ) (hf : 2 + f ≠ 0) :
    ((f / (2 + f) * (1 / 2 * f * f + r) + a) - 1 / 2 * f * f + f) + b
      = 2 * (f / (2 + f)) + f / (2 + f) * r + (a + b) := by
  field_simp; ring

/-- **the exactly evaluated body is within `2^-25` of `k·log 2 + log (1 + f)`** -/
theorem G_approx {k f : ℝ} (hk : |k| ≤ 1100) (hf1 : -2929 / 10000 ≤ f) (hf2 : f ≤ 41422 / 100000) :
    |G k f - (k * Real.log 2 + Real.log (1 + f))| ≤ 1 / 2 ^ 25 := by
  have hd : 0 < 2 + f := by linarith
  obtain ⟨s, hsdef⟩ : ∃ s : ℝ, s = f / (2 + f) := ⟨_, rfl⟩
  have hs1 : s ≤ 3 / 16 := by rw [hsdef, div_le_iff₀ hd]; linarith
  have hs2 : -(3 / 16) ≤ s := by rw [hsdef, le_div_iff₀ hd]; linarith
  have hs : |s| ≤ 3 / 16 := abs_le.2 ⟨hs2, hs1⟩
  have hz0 : 0 ≤ s * s := mul_self_nonneg s
  have hz : s * s ≤ 9 / 256 := by
    have := abs_le.1 hs; nlinarith
  have hG : G k f = 2 * s + s * (T2 (s * s) (s * s * (s * s)) + T1 (s * s * (s * s)))
      + (k * fv Libm.LN2_LO + k * fv Libm.LN2_HI) := by
    unfold G; rw [body_alg _ _ _ _ hd.ne', ← hsdef]
  have hlog : Real.log (1 + f) = Real.log (1 + s) - Real.log (1 - s) := by
    have p1 : 0 < 1 + s := by linarith
    have p2 : 0 < 1 - s := by linarith
    rw [← Real.log_div p1.ne' p2.ne']
    congr 1
    rw [hsdef]; field_simp; ring
  have c1 := log_series hs
  have c2 := poly_diff hz0 hz
  have c3 := ln2_sum_close
  have e : G k f - (k * Real.log 2 + Real.log (1 + f))
      = s * (T2 (s * s) (s * s * (s * s)) + T1 (s * s * (s * s)) - Q (s * s))
        - (Real.log (1 + s) - Real.log (1 - s) - (2 * s + s * Q (s * s)))
        + k * (fv Libm.LN2_HI + fv Libm.LN2_LO - Real.log 2) := by
    rw [hG, hlog]; ring
  rw [e]
  have t1 : |s * (T2 (s * s) (s * s * (s * s)) + T1 (s * s * (s * s)) - Q (s * s))|
      ≤ 3 / 16 * (1 / 2 ^ 24) := by
    rw [abs_mul]; exact mul_le_mul hs c2 (abs_nonneg _) (by norm_num)
  have t3 : |k * (fv Libm.LN2_HI + fv Libm.LN2_LO - Real.log 2)| ≤ 1100 * (1 / 2 ^ 60) := by
    rw [abs_mul]; exact mul_le_mul hk c3 (abs_nonneg _) (by norm_num)
  refine le_trans (abs_add_le _ _) (le_trans (add_le_add (abs_sub _ _) le_rfl) ?_)
  have n : (3 : ℝ) / 16 * (1 / 2 ^ 24) + 2 / 2 ^ 40 + 1100 * (1 / 2 ^ 60) ≤ 1 / 2 ^ 25 := by norm_num
  linarith

/-- **`goBody`, coarse accuracy** -/
theorem goBody_coarse {k : ℤ} {X : F64} (hX : X.is_finite = true) (h1 : 7071 / 10000 ≤ fv X)
    (h2 : fv X ≤ 141422 / 100000) (hk : |k| ≤ 1100) :
    (goBody k X).is_finite = true ∧
      |fv (goBody k X) - ((k : ℝ) * Real.log 2 + Real.log (fv X))| ≤ 1 / 2 ^ 24 := by
  obtain ⟨hf, he, _⟩ := goBody_ap hX h1 h2 hk
  refine ⟨hf, ?_⟩
  have hk' : |(k : ℝ)| ≤ 1100 := by exact_mod_cast hk
  have hg := G_approx (k := (k : ℝ)) (f := fv X - 1) hk' (by linarith) (by linarith)
  rw [show (1 : ℝ) + (fv X - 1) = fv X by ring] at hg
  have e : fv (goBody k X) - ((k : ℝ) * Real.log 2 + Real.log (fv X))
      = (fv (goBody k X) - G (k : ℝ) (fv X - 1))
        + (G (k : ℝ) (fv X - 1) - ((k : ℝ) * Real.log 2 + Real.log (fv X))) := by ring
  rw [e]
  refine le_trans (abs_add_le _ _) ?_
  have n : (30 : ℝ) / 2 ^ 40 + 1 / 2 ^ 25 ≤ 1 / 2 ^ 24 := by norm_num
  linarith

/-! ## B. bit-level argument reduction -/

theorem from_bits_normal {e m : ℕ} (he1 : 0 < e) (he2 : e < 2047) (hm : m < 2 ^ 52) :
    from_bits_nat (e * 2 ^ 52 + m) = fin false ((2 ^ 52 + m) * 2 ^ (e - 1)) := by
  have a1 : (e * 2 ^ 52 + m) / 2 ^ 63 % 2 = 0 := by omega
  have a2 : (e * 2 ^ 52 + m) / 2 ^ 52 % 2048 = e := by omega
  have a3 : (e * 2 ^ 52 + m) % 2 ^ 52 = m := by omega
  unfold from_bits_nat
  simp only [Nat.reducePow] at a1 a2 a3 ⊢
  simp only [a1, a2, a3]
  rw [if_neg (by omega), if_neg (by omega)]
  simp

theorem reduce_nat {m s : ℕ} (hm : m < 2 ^ 52) :
    Libm.reduce ((s + 1) * 2 ^ 52 + m) =
      if m / 2 ^ 32 + 0x95F62 < 2 ^ 20 then ((s : ℤ) - 1022, from_bits_nat (1023 * 2 ^ 52 + m))
      else ((s : ℤ) - 1021, from_bits_nat (1022 * 2 ^ 52 + m)) := by
  unfold Libm.reduce
  simp only [Nat.reducePow, Nat.reduceSub]
  split_ifs with h
  · refine Prod.ext ?_ ?_
    · dsimp only
      omega
    · dsimp only
      refine congrArg from_bits_nat ?_
      omega
  · refine Prod.ext ?_ ?_
    · dsimp only
      omega
    · dsimp only
      refine congrArg from_bits_nat ?_
      omega

theorem from_bits_3ff {m : ℕ} (hm : m < 2 ^ 52) :
    from_bits_nat (1023 * 2 ^ 52 + m) = fin false ((2 ^ 52 + m) * 2 ^ 1022) :=
  from_bits_normal (e := 1023) (by norm_num) (by norm_num) hm

theorem from_bits_3fe {m : ℕ} (hm : m < 2 ^ 52) :
    from_bits_nat (1022 * 2 ^ 52 + m) = fin false ((2 ^ 52 + m) * 2 ^ 1021) :=
  from_bits_normal (e := 1022) (by norm_num) (by norm_num) hm

theorem fv_fin_nat (n : ℕ) : fv (fin false n) = (n : ℝ) / 2 ^ 1074 := by
  show (((n : ℤ)) : ℝ) / 2 ^ 1074 = _
  rw [Int.cast_natCast]

theorem fv_fin_pow (q : ℕ) {e : ℕ} (he : e ≤ 1074) :
    fv (fin false (q * 2 ^ e)) = (q : ℝ) / 2 ^ (1074 - e) := by
  apply fv_of_toInt he
  show ((q * 2 ^ e : ℕ) : ℤ) = _
  rw [Nat.cast_mul, Nat.cast_pow, Nat.cast_ofNat]

theorem scale_eq (q s e : ℕ) :
    fv (fin false (q * 2 ^ s)) = (2 : ℝ) ^ ((s : ℤ) - (e : ℤ)) * fv (fin false (q * 2 ^ e)) := by
  rw [fv_fin_nat, fv_fin_nat, Nat.cast_mul, Nat.cast_mul, Nat.cast_pow, Nat.cast_pow, Nat.cast_ofNat,
    zpow_sub₀ (by norm_num), zpow_natCast, zpow_natCast]
  have h1 : (0 : ℝ) < 2 ^ s := by positivity
  have h2 : (0 : ℝ) < 2 ^ e := by positivity
  have h3 : (0 : ℝ) < 2 ^ 1074 := by positivity
  generalize (2 : ℝ) ^ s = S at *
  generalize (2 : ℝ) ^ e = E at *
  generalize (2 : ℝ) ^ 1074 = U at *
  field_simp

theorem reduce_spec {q s : ℕ} (hq : 2 ^ 52 ≤ q) (hq' : q < 2 ^ 53) (hs : s ≤ 2045) :
    ∃ (k : ℤ) (x : F64), Libm.reduce ((s + 1) * 2 ^ 52 + (q - 2 ^ 52)) = (k, x) ∧
      x.is_finite = true ∧ -1022 ≤ k ∧ k ≤ 1025 ∧ 7071 / 10000 ≤ fv x ∧ fv x ≤ 141422 / 100000 ∧
      fv (fin false (q * 2 ^ s)) = (2 : ℝ) ^ k * fv x := by
  have hm : q - 2 ^ 52 < 2 ^ 52 := by omega
  have hq1 : (4503599627370496 : ℝ) ≤ (q : ℝ) := by
    have : 4503599627370496 ≤ q := by omega
    exact_mod_cast this
  have hq2 : (q : ℝ) < 9007199254740992 := by
    have : q < 9007199254740992 := by omega
    exact_mod_cast this
  rw [reduce_nat hm]
  split_ifs with h
  · rw [from_bits_3ff hm, Nat.add_sub_cancel' hq]
    refine ⟨_, _, rfl, rfl, by omega, by omega, ?_, ?_, ?_⟩
    · rw [fv_fin_pow q (by norm_num), le_div_iff₀ (by positivity)]
      norm_num; linarith
    · have h' : q < 6369049952911360 := by omega
      have h'' : (q : ℝ) < 6369049952911360 := by exact_mod_cast h'
      rw [fv_fin_pow q (by norm_num), div_le_iff₀ (by positivity)]
      norm_num; linarith
    · have := scale_eq q s 1022
      rwa [show ((1022 : ℕ) : ℤ) = 1022 from rfl] at this
  · rw [from_bits_3fe hm, Nat.add_sub_cancel' hq]
    refine ⟨_, _, rfl, rfl, by omega, by omega, ?_, ?_, ?_⟩
    · have h' : 6369049952911360 ≤ q := by omega
      have h'' : (6369049952911360 : ℝ) ≤ (q : ℝ) := by exact_mod_cast h'
      rw [fv_fin_pow q (by norm_num), le_div_iff₀ (by positivity)]
      norm_num; linarith
    · rw [fv_fin_pow q (by norm_num), div_le_iff₀ (by positivity)]
      norm_num; linarith
    · have := scale_eq q s 1021
      rwa [show ((1021 : ℕ) : ℤ) = 1021 from rfl] at this

/-! ## E. assembly -/

theorem go_normal {k0 : ℤ} (hk0 : -54 ≤ k0) (hk0' : k0 ≤ 0) {N : ℕ} (hN : 2 ^ 52 ≤ N)
    (hw : (fin false N).WF) :
    (Libm.log.go k0 (fin false N).to_bits_nat).is_finite = true ∧
      |fv (Libm.log.go k0 (fin false N).to_bits_nat)
        - ((k0 : ℝ) * Real.log 2 + Real.log (fv (fin false N)))| ≤ 1 / 2 ^ 24 := by
  obtain ⟨q, s, rfl, hq, hq', hs⟩ := F64.Bits.wf_normal_decomp hN hw.1 hw.2
  rw [F64.Bits.to_bits_nat_normal false hq hq']
  simp only [Bool.false_eq_true, if_false, Nat.zero_add]
  obtain ⟨k, x, hr, hxf, hk1, hk2, hx1, hx2, hval⟩ := reduce_spec hq hq' hs
  rw [go_eq, hr]
  obtain ⟨hf, he⟩ := goBody_coarse (k := k0 + k) hxf hx1 hx2 (by rw [abs_le]; constructor <;> omega)
  refine ⟨hf, ?_⟩
  have hxpos : 0 < fv x := by linarith
  rw [hval, Real.log_mul (zpow_ne_zero _ two_ne_zero) hxpos.ne', Real.log_zpow]
  push_cast at he
  convert he using 2
  ring

theorem log_unfold (x0 : F64) : Libm.log x0 =
    if x0.to_bits_nat / 2 ^ 32 < 0x00100000 ∨ x0.to_bits_nat / 2 ^ 32 / 2 ^ 31 ≠ 0 then
      if (x0.to_bits_nat * 2) % 2 ^ 64 = 0 then F64.div Libm.cm1 (F64.mul x0 x0)
      else if x0.to_bits_nat / 2 ^ 32 / 2 ^ 31 ≠ 0 then F64.div (F64.sub x0 x0) Libm.c0
      else Libm.log.go (-54) (F64.mul x0 Libm.x1p54).to_bits_nat
    else if x0.to_bits_nat / 2 ^ 32 ≥ 0x7ff00000 then x0
    else if x0.to_bits_nat / 2 ^ 32 = 0x3ff00000 ∧ x0.to_bits_nat % 2 ^ 32 = 0 then Libm.c0
    else Libm.log.go 0 x0.to_bits_nat := rfl

theorem to_bits_small {n : ℕ} (h : n < 2 ^ 53) : (fin false n).to_bits_nat = n := by
  unfold to_bits_nat
  simp only [Nat.reducePow] at h ⊢
  rw [if_pos h]
  simp

theorem c0_toInt : Libm.c0.toInt = 0 := by decide +kernel
theorem x1p54_toInt : Libm.x1p54.toInt = 2 ^ 54 * 2 ^ 1074 := by decide +kernel

theorem eq_fin_of_toInt {x : F64} {N : ℕ} (hx : x.is_finite = true) (hN : 0 < N)
    (h : x.toInt = (N : ℤ)) : x = fin false N := by
  obtain ⟨s, a, rfl⟩ := is_finite_iff.mp hx
  cases s
  · simp only [toInt] at h
    have : a = N := by exact_mod_cast h
    rw [this]
  · simp only [toInt] at h
    omega

theorem mul_x1p54 {n : ℕ} (hn : 0 < n) (h : n < 2 ^ 52) :
    F64.mul (fin false n) Libm.x1p54 = fin false (n * 2 ^ 54) := by
  have hr : RepI (((n * 2 ^ 54 : ℕ) : ℤ)) := repI_natCast.2 (rep_mul_pow2_iff.2 (rep_of_lt (by omega)))
  have hm : |((n * 2 ^ 54 : ℕ) : ℤ)| ≤ (maxFin : ℤ) := by
    rw [abs_of_nonneg (Int.natCast_nonneg _)]
    have : n * 2 ^ 54 ≤ 2 ^ 2097 := by
      calc n * 2 ^ 54 ≤ 2 ^ 52 * 2 ^ 54 := Nat.mul_le_mul_right _ h.le
        _ ≤ 2 ^ 2097 := by rw [← pow_add]; exact Nat.pow_le_pow_right (by norm_num) (by norm_num)
    exact_mod_cast le_trans this two_pow_2097_le_maxFin
  obtain ⟨hf, hv⟩ := mul_exact (x := fin false n) (y := Libm.x1p54) rfl rfl
    (q := ((n * 2 ^ 54 : ℕ) : ℤ)) (by
      rw [x1p54_toInt, unit_cast_eq]
      show (n : ℤ) * _ = _
      rw [Nat.cast_mul, Nat.cast_pow, Nat.cast_ofNat]; ring) hr hm
  exact eq_fin_of_toInt hf (by positivity) hv

/-- the same with the bound `2^-24` that the proof actually delivers -/
theorem libm_log_coarse24 (n : ℕ) (hn : 0 < n) (hw : (F64.fin false n).WF) :
    (Libm.log (F64.fin false n)).is_finite = true ∧
    |fv (Libm.log (F64.fin false n)) - Real.log (fv (F64.fin false n))| ≤ 1 / 2 ^ 24 := by
  have h2420 : (1 : ℝ) / 2 ^ 24 ≤ 1 / 2 ^ 24 := le_rfl
  rw [log_unfold]
  by_cases hN : 2 ^ 52 ≤ n
  · -- normal
    obtain ⟨q, s, hnq, hq, hq', hs⟩ := F64.Bits.wf_normal_decomp hN hw.1 hw.2
    have hbits := F64.Bits.to_bits_nat_normal false hq hq' (s := s)
    simp only [Bool.false_eq_true, if_false, Nat.zero_add] at hbits
    rw [← hnq] at hbits
    have hg := go_normal (k0 := 0) (by norm_num) le_rfl hN hw
    rw [hbits] at hg ⊢
    rw [if_neg (by omega), if_neg (by omega)]
    by_cases h3 : ((s + 1) * 2 ^ 52 + (q - 2 ^ 52)) / 2 ^ 32 = 0x3ff00000 ∧
        ((s + 1) * 2 ^ 52 + (q - 2 ^ 52)) % 2 ^ 32 = 0
    · rw [if_pos h3]
      have hs' : s = 1022 := by omega
      have hq'' : q = 2 ^ 52 := by omega
      refine ⟨rfl, ?_⟩
      have e0 : fv Libm.c0 = 0 := by unfold fv; rw [c0_toInt]; simp
      have e1 : fv (fin false n) = 1 := by
        rw [hnq, hs', fv_fin_pow q (by norm_num), hq'']
        norm_num
      rw [e0, e1, Real.log_one, sub_zero, abs_zero]
      positivity
    · rw [if_neg h3]
      refine ⟨hg.1, le_trans ?_ h2420⟩
      have := hg.2
      rwa [Int.cast_zero, zero_mul, zero_add] at this
  · -- subnormal
    have hlt : n < 2 ^ 52 := by omega
    rw [to_bits_small (by omega : n < 2 ^ 53)]
    rw [if_pos (Or.inl (by omega)), if_neg (by omega), if_neg (by omega), mul_x1p54 hn hlt]
    have hw' : (fin false (n * 2 ^ 54)).WF := by
      rw [← mul_x1p54 hn hlt]; exact mul_WF _ _
    have hN' : 2 ^ 52 ≤ n * 2 ^ 54 := by
      calc 2 ^ 52 ≤ 1 * 2 ^ 54 := by norm_num
        _ ≤ n * 2 ^ 54 := Nat.mul_le_mul_right _ hn
    obtain ⟨hf, he⟩ := go_normal (k0 := -54) le_rfl (by norm_num) hN' hw'
    refine ⟨hf, le_trans ?_ h2420⟩
    have hpos : 0 < fv (fin false n) := by
      rw [fv_fin_nat]; have : (0 : ℝ) < n := by exact_mod_cast hn
      positivity
    have hsc : fv (fin false (n * 2 ^ 54)) = 2 ^ 54 * fv (fin false n) := by
      rw [fv_fin_nat, fv_fin_nat, Nat.cast_mul, Nat.cast_pow, Nat.cast_ofNat]; ring
    rw [hsc, Real.log_mul (by positivity) hpos.ne', Real.log_pow] at he
    have e : ((-54 : ℤ) : ℝ) * Real.log 2 + (((54 : ℕ) : ℝ) * Real.log 2 + Real.log (fv (fin false n)))
        = Real.log (fv (fin false n)) := by push_cast; ring
    rw [e] at he
    exact he

open ExpBound in
/-- coarse accuracy of the libm port: every finite positive double (normal or subnormal) -/
theorem libm_log_coarse (n : ℕ) (hn : 0 < n) (hw : (F64.fin false n).WF) :
    (Libm.log (F64.fin false n)).is_finite = true ∧
    |fv (Libm.log (F64.fin false n)) - Real.log (fv (F64.fin false n))| ≤ 1 / 2 ^ 20 := by
  obtain ⟨h1, h2⟩ := libm_log_coarse24 n hn hw
  exact ⟨h1, le_trans h2 (by norm_num)⟩

end LnSeed
