/-
Lemmas.ATrigBound — real-analysis layer for C16 (tan) and C17 (asin / acos / atan).

 1. more list-polynomial operations on top of `TrigBound` (`padd`, `pmul`, `pderiv`, `peven`, `podd`) with their
    soundness lemmas, a mean-value wrapper `poly_approx_of_deriv`, and a one-evaluation cell checker `checkAll1`.
 2. `arcsin_approx` / `arctan_approx`: ANY odd-type polynomial `A` whose derivative `D` nearly solves
    `D²·(1 − r²) = 1` resp. `D·(1 + r²) = 1` (two closed rational facts, checked by the kernel) approximates
    `arcsin` resp. `arctan` — this yields Taylor polynomials of arbitrary degree with explicit remainders without any
    series theory: `arcsin_taylor` (degree 51, `2^-50` on `|r| ≤ 1/2 + 2^-17`), `arctan_taylor` (degree 71, `2^-85` on
    `|r| ≤ 7/16 + 2^-20`), `arctan_half_encl`, `arctan_fifth_encl` (rational enclosures to `2^-120`, `2^-130`).
 3. `restricted_asin`: `asin_poly_rel` (`|arcsin r − P(r)| ≤ |r|·(2^-45 + 2^-50)`; true maximum `≈ 2^-45.27`),
    `asin_poly_abs` (`9·2^-50`), `arcsin_half_angle`, `arcsin_lipschitz`.
 4. `restricted_tan`: `tan_poly_rel` (`|tan r − P(r)| ≤ 9·2^-54·|tan r|` on `|r| ≤ 0.786`; true maximum `≈ 2^-52.97`),
    via `tan = sin / cos` and the Taylor polynomials of `TrigBound`; `tan_perturb`.
 5. `restricted_atan`: `atan_poly_rel` (`|arctan r − P(r)| ≤ |r|·(2^-72 + 2^-85)`; true maximum `≈ 2^-73.19`),
    `abs_arctan_ge`, `arctan_sub_const` (the reduction identity), `arctan_three_halves`.

No dependency on the model: `Properties/C16u.lean` / `C17t.lean` prove that the literal tables here are the
model's tables.
-/
import TFV.Lemmas.TrigBound
import Mathlib.Analysis.SpecialFunctions.Trigonometric.InverseDeriv
import Mathlib.Analysis.SpecialFunctions.Trigonometric.ArctanDeriv
import Mathlib.Analysis.Calculus.MeanValue

set_option exponentiation.threshold 3000

namespace ATrigBound

open TrigBound Finset

/-! ## 1. list polynomials: sum, product, derivative, even / odd substitution -/

/-- coefficientwise sum -/
def padd : List ℚ → List ℚ → List ℚ
  | [], q => q
  | p, [] => p
  | a :: p, b :: q => (a + b) :: padd p q

theorem peval_padd (p q : List ℚ) (x : ℝ) : peval (padd p q) x = peval p x + peval q x := by
  induction p generalizing q with
  | nil => simp [padd]
  | cons a p ih =>
    cases q with
    | nil => simp [padd]
    | cons b q => simp only [padd, peval_cons, ih]; push_cast; ring

/-- multiplication by a constant -/
def psmul (a : ℚ) (q : List ℚ) : List ℚ := q.map (fun c => a * c)

theorem peval_psmul (a : ℚ) (q : List ℚ) (x : ℝ) : peval (psmul a q) x = (a : ℝ) * peval q x := by
  induction q with
  | nil => simp [psmul]
  | cons c q ih =>
    have e : psmul a (c :: q) = (a * c) :: psmul a q := rfl
    rw [e, peval_cons, peval_cons, ih]; push_cast; ring

/-- product -/
def pmul : List ℚ → List ℚ → List ℚ
  | [], _ => []
  | a :: p, q => padd (psmul a q) (0 :: pmul p q)

theorem peval_pmul (p q : List ℚ) (x : ℝ) : peval (pmul p q) x = peval p x * peval q x := by
  induction p with
  | nil => simp [pmul]
  | cons a p ih =>
    simp only [pmul, peval_padd, peval_psmul, peval_cons, ih]; push_cast; ring

/-- derivative -/
def pderiv : List ℚ → List ℚ
  | [] => []
  | _ :: p => padd p (0 :: pderiv p)

theorem hasDerivAt_peval (p : List ℚ) (x : ℝ) : HasDerivAt (peval p) (peval (pderiv p) x) x := by
  induction p with
  | nil => exact hasDerivAt_const x 0
  | cons c p ih =>
    have e : peval (c :: p) = fun y => (c : ℝ) + y * peval p y := by funext y; rfl
    rw [e]
    have h := ((hasDerivAt_id' x).mul ih).const_add (c : ℝ)
    have e2 : peval (pderiv (c :: p)) x = 1 * peval p x + x * peval (pderiv p) x := by
      simp only [pderiv, peval_padd, peval_cons]; push_cast; ring
    rw [e2]; exact h

/-- `p(r²)` as a polynomial in `r` -/
def peven : List ℚ → List ℚ
  | [] => []
  | c :: p => c :: 0 :: peven p

theorem peval_peven (p : List ℚ) (r : ℝ) : peval (peven p) r = peval p (r ^ 2) := by
  induction p with
  | nil => rfl
  | cons c p ih => simp only [peven, peval_cons, ih]; push_cast; ring

/-- `r·p(r²)` as a polynomial in `r` -/
def podd (p : List ℚ) : List ℚ := 0 :: peven p

theorem peval_podd (p : List ℚ) (r : ℝ) : peval (podd p) r = r * peval p (r ^ 2) := by
  unfold podd; rw [peval_cons, peval_peven]; push_cast; ring

/-- **mean-value wrapper**: if `f(0) = 0 = A(0)` … more precisely `f 0 = peval A 0`, and `|f' − A'| ≤ δ` on `[−ρ, ρ]`,
then `|f r − A(r)| ≤ δ·|r|` there -/
theorem poly_approx_of_deriv {f f' : ℝ → ℝ} {A : List ℚ} {ρ δ : ℝ}
    (h0 : f 0 = peval A 0)
    (hd : ∀ s, |s| ≤ ρ → HasDerivAt f (f' s) s)
    (hb : ∀ s, |s| ≤ ρ → |f' s - peval (pderiv A) s| ≤ δ)
    {r : ℝ} (hr : |r| ≤ ρ) : |f r - peval A r| ≤ δ * |r| := by
  have hρ : 0 ≤ ρ := le_trans (abs_nonneg _) hr
  have hconv : Convex ℝ (Set.Icc (-ρ) ρ) := convex_Icc _ _
  have key := hconv.norm_image_sub_le_of_norm_hasDerivWithin_le
    (f := fun s => f s - peval A s) (f' := fun s => f' s - peval (pderiv A) s) (C := δ)
    (x := 0) (y := r)
    (fun s hs => ((hd s (abs_le.2 hs)).sub (hasDerivAt_peval A s)).hasDerivWithinAt)
    (fun s hs => by rw [Real.norm_eq_abs]; exact hb s (abs_le.2 hs))
    ⟨by linarith, hρ⟩ (abs_le.1 hr)
  simp only [Real.norm_eq_abs, sub_zero] at key
  rw [h0, sub_self, sub_zero] at key
  exact key

/-- run the bounder on `n` cells of `[lo, lo + n·w]`: on every cell `|p| ≤ B` (one evaluation per cell) -/
def checkAll1 (p : List ℚ) (lo w : ℚ) (n : ℕ) (B : ℚ) : Bool :=
  (List.range n).all fun i => decide (cellBound p lo w i ≤ B)

theorem checkAll1_sound {p : List ℚ} {lo w : ℚ} {n : ℕ} {B : ℚ} (hw : 0 < w) (hn : 0 < n)
    (h : checkAll1 p lo w n B = true)
    {x : ℝ} (h1 : (lo : ℝ) ≤ x) (h2 : x ≤ (lo : ℝ) + (n : ℝ) * (w : ℝ)) : |peval p x| ≤ (B : ℝ) := by
  obtain ⟨i, hi, hx1, hx2⟩ := exists_cell hw hn h1 h2
  have hc := (List.all_eq_true.1 h) i (List.mem_range.2 hi)
  have hc1 : cellBound p lo w i ≤ B := of_decide_eq_true hc
  exact le_trans (cell_sound p lo w i hx1 hx2) (by exact_mod_cast hc1)

/-! ## 2. Taylor polynomials of `arcsin` and `arctan` with remainder, by the derivative argument -/

theorem peval_one (x : ℝ) : peval [1] x = 1 := by simp

/-- **any odd-type polynomial `A` whose derivative `D` nearly solves `D²·(1 − r²) = 1` approximates `arcsin`**:
the two hypotheses are closed rational facts (checked by the kernel for the Taylor polynomial) -/
theorem arcsin_approx {A : List ℚ} {ρ δ : ℚ} (hρ : ρ ^ 2 ≤ 111 / 400) (h0 : pevalQ A 0 = 0)
    (h1 : absb (psub (pderiv A) [1]) ρ ≤ 1 / 5)
    (h2 : absb (psub [1] (pmul (pmul (pderiv A) (pderiv A)) [1, 0, -1])) ρ ≤ δ)
    {r : ℝ} (hr : |r| ≤ (ρ : ℝ)) : |Real.arcsin r - peval A r| ≤ 20 / 17 * (δ : ℝ) * |r| := by
  have hρr : (ρ : ℝ) ^ 2 ≤ 111 / 400 := by
    have := (Rat.cast_le (K := ℝ)).2 hρ
    push_cast at this
    exact this
  have hsq : ∀ s : ℝ, |s| ≤ (ρ : ℝ) → s ^ 2 ≤ 111 / 400 := fun s hs => by
    have := pow_le_pow_left₀ (abs_nonneg s) hs 2
    rw [sq_abs] at this
    linarith
  refine poly_approx_of_deriv (f := Real.arcsin) (f' := fun s => 1 / Real.sqrt (1 - s ^ 2)) ?_ ?_ ?_ hr
  · have := pevalQ_cast A 0
    rw [h0] at this
    rw [Real.arcsin_zero]
    simpa using this
  · intro s hs
    have h := hsq s hs
    refine Real.hasDerivAt_arcsin ?_ ?_
    · intro e; rw [e] at h; norm_num at h
    · intro e; rw [e] at h; norm_num at h
  · intro s hs
    have h := hsq s hs
    have hD := peval_le_absb (psub (pderiv A) [1]) hs
    rw [peval_psub, peval_one] at hD
    have hD' : |peval (pderiv A) s - 1| ≤ 1 / 5 := by
      refine le_trans hD ?_
      have := (Rat.cast_le (K := ℝ)).2 h1
      push_cast at this
      exact this
    have hN := peval_le_absb (psub [1] (pmul (pmul (pderiv A) (pderiv A)) [1, 0, -1])) hs
    rw [peval_psub, peval_one, peval_pmul, peval_pmul] at hN
    have hN' := le_trans hN ((Rat.cast_le (K := ℝ)).2 h2)
    set D := peval (pderiv A) s with hDdef
    have e3 : peval [1, 0, -1] s = 1 - s ^ 2 := by simp; ring
    rw [e3] at hN'
    have hu2 : (0 : ℝ) ≤ 1 - s ^ 2 := by linarith
    set u := Real.sqrt (1 - s ^ 2) with hu
    have husq : u ^ 2 = 1 - s ^ 2 := Real.sq_sqrt hu2
    have hu1 : (17 : ℝ) / 20 ≤ u := by
      rw [hu]; refine Real.le_sqrt_of_sq_le ?_
      norm_num; linarith
    have hDl : (4 : ℝ) / 5 ≤ D := by have := (abs_le.1 hD').1; linarith
    have hDu : 0 ≤ D * u := by positivity
    have hupos : 0 < u := by linarith
    have e4 : 1 / u - D = (1 - D * D * (1 - s ^ 2)) / (u * (1 + D * u)) := by
      rw [← husq]
      field_simp
      ring
    rw [e4, abs_div, div_le_iff₀ (by positivity)]
    have e5 : |u * (1 + D * u)| = u * (1 + D * u) := abs_of_pos (by positivity)
    rw [e5]
    have h6 : 17 / 20 * 1 ≤ u * (1 + D * u) := mul_le_mul hu1 (by linarith) (by norm_num) hupos.le
    have hδ : (0 : ℝ) ≤ (δ : ℝ) := le_trans (abs_nonneg _) hN'
    calc |1 - D * D * (1 - s ^ 2)| ≤ (δ : ℝ) := hN'
      _ = 20 / 17 * (δ : ℝ) * (17 / 20 * 1) := by ring
      _ ≤ 20 / 17 * (δ : ℝ) * (u * (1 + D * u)) := mul_le_mul_of_nonneg_left h6 (by positivity)

/-- **any odd-type polynomial `A` whose derivative `D` nearly solves `D·(1 + r²) = 1` approximates `arctan`** -/
theorem arctan_approx {A : List ℚ} {ρ δ : ℚ} (h0 : pevalQ A 0 = 0)
    (h2 : absb (psub [1] (pmul (pderiv A) [1, 0, 1])) ρ ≤ δ)
    {r : ℝ} (hr : |r| ≤ (ρ : ℝ)) : |Real.arctan r - peval A r| ≤ (δ : ℝ) * |r| := by
  refine poly_approx_of_deriv (f := Real.arctan) (f' := fun s => 1 / (1 + s ^ 2)) ?_ ?_ ?_ hr
  · have := pevalQ_cast A 0
    rw [h0] at this
    rw [Real.arctan_zero]
    simpa using this
  · intro s _
    exact Real.hasDerivAt_arctan s
  · intro s hs
    have hN := peval_le_absb (psub [1] (pmul (pderiv A) [1, 0, 1])) hs
    rw [peval_psub, peval_one, peval_pmul] at hN
    have hN' := le_trans hN ((Rat.cast_le (K := ℝ)).2 h2)
    set D := peval (pderiv A) s with hDdef
    have e3 : peval [1, 0, 1] s = 1 + s ^ 2 := by simp; ring
    rw [e3] at hN'
    have hp : (0 : ℝ) < 1 + s ^ 2 := by positivity
    have e4 : 1 / (1 + s ^ 2) - D = (1 - D * (1 + s ^ 2)) / (1 + s ^ 2) := by field_simp
    rw [e4, abs_div, abs_of_pos hp, div_le_iff₀ hp]
    have hδ : (0 : ℝ) ≤ (δ : ℝ) := le_trans (abs_nonneg _) hN'
    nlinarith [sq_nonneg s]

/-- central binomial ratios `C(2k,k)/4^k` -/
def asinB : ℕ → ℚ
  | 0 => 1
  | k + 1 => asinB k * (2 * k + 1) / (2 * k + 2)

/-- Taylor coefficients of `arcsin r / r` in `t = r²` -/
def asinT (n : ℕ) : List ℚ := (List.range n).map fun (k : ℕ) => asinB k / (2 * (k : ℚ) + 1)

/-- Taylor coefficients of `arctan r / r` in `t = r²` -/
def atanT (n : ℕ) : List ℚ := (List.range n).map fun (k : ℕ) => (-1 : ℚ) ^ k / (2 * (k : ℚ) + 1)

/-! ## 3. `restricted_asin`: table and approximation error -/

/-- `hi + lo` of the ten entries of the crate's `ASIN_COEFFS`, exactly
(`C17t.ASIN_COEFFS_val` proves that these are the model's values) -/
def asinCoeffs : List ℚ :=
  [(54086425606798395455002516395541 : ℚ) / 2 ^ 108,
   (389422270422399705658318136535045 : ℚ) / 2 ^ 112,
   (231798655488052668893501198296811 : ℚ) / 2 ^ 112,
   (646187452217578555777970401375733089 : ℚ) / 2 ^ 124,
   (116023418995772467670709220659447 : ℚ) / 2 ^ 112,
   (91538425169457962847424410974433 : ℚ) / 2 ^ 112,
   (125950138612859044623534508594275 : ℚ) / 2 ^ 113,
   (400599859778323502689681621983331 : ℚ) / 2 ^ 114,
   (-811577769046803894410361761327465 : ℚ) / 2 ^ 116,
   (86705512020038085772292854924743 : ℚ) / 2 ^ 111]

/-- the exact polynomial behind `restricted_asin`: `r·(r²·P(r²) + 1)` -/
noncomputable def AsinPoly (r : ℝ) : ℝ := r * (r ^ 2 * peval asinCoeffs (r ^ 2) + 1)

def asinPolyQ (r : ℚ) : ℚ := r * (r ^ 2 * pevalQ asinCoeffs (r ^ 2) + 1)

theorem asinPolyQ_cast (r : ℚ) : ((asinPolyQ r : ℚ) : ℝ) = AsinPoly (r : ℝ) := by
  unfold asinPolyQ AsinPoly; push_cast; rw [pevalQ_cast]; push_cast; ring

/-- the squared interval end of `restricted_asin`: `t = r² ≤ 1/4 + 2^-16` -/
def asinT0 : ℚ := 1 / 4 + 1 / 2 ^ 16

/-- the Taylor polynomial of `arcsin` of degree 51 -/
def asinA : List ℚ := podd (asinT 26)

/-- `(1/2 + 2^-17)² ≤ 1/4 + 2^-16` -/
def asinRho : ℚ := 1 / 2 + 1 / 2 ^ 17

set_option maxRecDepth 100000 in
theorem asinA_check1 : absb (psub (pderiv asinA) [1]) asinRho ≤ 1 / 5 := by decide +kernel

set_option maxRecDepth 100000 in
theorem asinA_check2 :
    absb (psub [1] (pmul (pmul (pderiv asinA) (pderiv asinA)) [1, 0, -1])) asinRho ≤ 1 / 2 ^ 51 := by
  decide +kernel

/-- **Taylor polynomial of `arcsin` of degree 51 on `|r| ≤ 1/2 + 2^-17`**: relative remainder `≤ 2^-50` -/
theorem arcsin_taylor {r : ℝ} (hr : |r| ≤ (asinRho : ℝ)) :
    |Real.arcsin r - r * peval (asinT 26) (r ^ 2)| ≤ 1 / 2 ^ 50 * |r| := by
  have h := arcsin_approx (A := asinA) (ρ := asinRho) (δ := 1 / 2 ^ 51) (by unfold asinRho; norm_num)
    (by decide +kernel) asinA_check1 asinA_check2 hr
  unfold asinA at h
  rw [peval_podd] at h
  refine le_trans h (mul_le_mul_of_nonneg_right ?_ (abs_nonneg _))
  push_cast
  norm_num

/-- `Taylor − table`: `arcsin r − AsinPoly r = r · asinG(r²) + Taylor remainder` -/
def asinG : List ℚ := psub (asinT 26) (1 :: asinCoeffs)

set_option maxRecDepth 100000 in
/-- kernel-evaluated: 8 cells of `[0, T/8]`, `T = 1/4 + 2^-16`: `|asinG| ≤ 2^-45` -/
theorem asinG_checkA : checkAll1 asinG 0 (asinT0 / 64) 8 (1 / 2 ^ 45) = true := by
  decide +kernel

set_option maxRecDepth 100000 in
/-- kernel-evaluated: 14 cells of `[T/8, T]`: `|asinG| ≤ 2^-46` -/
theorem asinG_checkB : checkAll1 asinG (asinT0 / 8) (asinT0 / 16) 14 (1 / 2 ^ 46) = true := by
  decide +kernel

theorem asin_decomp (r : ℝ) :
    Real.arcsin r - AsinPoly r
      = (Real.arcsin r - r * peval (asinT 26) (r ^ 2)) + r * peval asinG (r ^ 2) := by
  unfold AsinPoly asinG
  rw [peval_psub, peval_cons]
  push_cast
  ring

theorem asin_sq_range {r : ℝ} (hr : |r| ≤ (asinRho : ℝ)) : r ^ 2 ≤ (asinT0 : ℝ) := by
  have h := pow_le_pow_left₀ (abs_nonneg r) hr 2
  rw [sq_abs] at h
  refine le_trans h ?_
  unfold asinRho asinT0
  push_cast
  norm_num

/-- the cell bounds of `asinG`, by region -/
theorem asinG_bound {r : ℝ} (hr : |r| ≤ (asinRho : ℝ)) :
    |peval asinG (r ^ 2)| ≤ 1 / 2 ^ 45 ∧ |r * peval asinG (r ^ 2)| ≤ 33 / 64 / 2 ^ 46 := by
  have ht := asin_sq_range hr
  have h0 : (0 : ℝ) ≤ r ^ 2 := sq_nonneg r
  have hr2 : |r| ≤ 33 / 64 := by
    refine le_trans hr ?_
    unfold asinRho; push_cast; norm_num
  by_cases hc : r ^ 2 ≤ (asinT0 : ℝ) / 8
  · have hA := checkAll1_sound (by unfold asinT0; norm_num) (by norm_num) asinG_checkA
      (x := r ^ 2) (by simpa using h0) (by push_cast; linarith)
    have eA : ((1 / 2 ^ 45 : ℚ) : ℝ) = 1 / 2 ^ 45 := by push_cast; rfl
    rw [eA] at hA
    refine ⟨hA, ?_⟩
    have h5 : |r| ≤ 1 / 5 := by
      have : (asinT0 : ℝ) / 8 ≤ (1 / 5) ^ 2 := by unfold asinT0; push_cast; norm_num
      exact abs_le_of_sq_le_sq (by linarith) (by norm_num)
    rw [abs_mul]
    have := mul_le_mul h5 hA (abs_nonneg _) (by norm_num)
    refine le_trans this ?_
    norm_num
  · have hc' : (asinT0 : ℝ) / 8 ≤ r ^ 2 := (not_le.1 hc).le
    have hB := checkAll1_sound (by unfold asinT0; norm_num) (by norm_num) asinG_checkB
      (x := r ^ 2) (by push_cast; linarith) (by push_cast; linarith)
    have eB : ((1 / 2 ^ 46 : ℚ) : ℝ) = 1 / 2 ^ 46 := by push_cast; rfl
    rw [eB] at hB
    refine ⟨le_trans hB (by norm_num), ?_⟩
    rw [abs_mul]
    have := mul_le_mul hr2 hB (abs_nonneg _) (by norm_num)
    refine le_trans this ?_
    norm_num

/-- **approximation error of the arcsine polynomial, relative to `|r|`**: `2^-45 + 2^-50`, on `|r| ≤ 1/2 + 2^-17`
(the true maximum of the relative error is `≈ 2^-45.27` at `r ≈ 0.08`) -/
theorem asin_poly_rel {r : ℝ} (hr : |r| ≤ (asinRho : ℝ)) :
    |Real.arcsin r - AsinPoly r| ≤ |r| * (1 / 2 ^ 45 + 1 / 2 ^ 50) := by
  rw [asin_decomp]
  refine le_trans (abs_add_le _ _) ?_
  have h1 := arcsin_taylor hr
  have h2 := (asinG_bound hr).1
  rw [abs_mul]
  have h3 := mul_le_mul_of_nonneg_left h2 (abs_nonneg r)
  linarith

/-- **approximation error of the arcsine polynomial, absolute**: `9·2^-50 < 2^-46.8` on `|r| ≤ 1/2 + 2^-17` -/
theorem asin_poly_abs {r : ℝ} (hr : |r| ≤ (asinRho : ℝ)) : |Real.arcsin r - AsinPoly r| ≤ 9 / 2 ^ 50 := by
  rw [asin_decomp]
  refine le_trans (abs_add_le _ _) ?_
  have h1 := arcsin_taylor hr
  have h2 := (asinG_bound hr).2
  have hr2 : |r| ≤ 33 / 64 := by
    refine le_trans hr ?_
    unfold asinRho; push_cast; norm_num
  have h3 : 1 / 2 ^ 50 * |r| ≤ 1 / 2 ^ 50 * (33 / 64) := mul_le_mul_of_nonneg_left hr2 (by positivity)
  have : (1 : ℝ) / 2 ^ 50 * (33 / 64) + 33 / 64 / 2 ^ 46 ≤ 9 / 2 ^ 50 := by norm_num
  linarith

/-- `arcsin x = π/2 − 2·arcsin √((1 − x)/2)` for `0 ≤ x ≤ 1` (the half-angle reduction of the crate) -/
theorem arcsin_half_angle {x : ℝ} (h0 : 0 ≤ x) (h1 : x ≤ 1) :
    Real.arcsin x = Real.pi / 2 - 2 * Real.arcsin (Real.sqrt ((1 - x) / 2)) := by
  set s := Real.sqrt ((1 - x) / 2) with hs
  have hs0 : 0 ≤ s := Real.sqrt_nonneg _
  have hsq : s ^ 2 = (1 - x) / 2 := Real.sq_sqrt (by linarith)
  have hs1 : s ≤ 1 := by
    rw [hs]; refine Real.sqrt_le_one.2 ?_ |> fun h => h
    linarith
  set θ := Real.arcsin s with hθ
  have hθ0 : 0 ≤ θ := Real.arcsin_nonneg.2 hs0
  have hθ1 : θ ≤ Real.pi / 2 := Real.arcsin_le_pi_div_two s
  have hsin : Real.sin θ = s := Real.sin_arcsin (by linarith) hs1
  have hcos : Real.cos (2 * θ) = x := by
    rw [Real.cos_two_mul, Real.cos_sq', hsin, hsq]; ring
  have : Real.arccos x = 2 * θ := by
    rw [← hcos]; exact Real.arccos_cos (by linarith) (by linarith)
  rw [Real.arcsin_eq_pi_div_two_sub_arccos, this]

/-- `arcsin` is `20/17`-Lipschitz on `|s| ≤ 33/64` -/
theorem arcsin_lipschitz {a b : ℝ} (ha : |a| ≤ 33 / 64) (hb : |b| ≤ 33 / 64) :
    |Real.arcsin a - Real.arcsin b| ≤ 20 / 17 * |a - b| := by
  have hconv : Convex ℝ (Set.Icc (-(33 / 64 : ℝ)) (33 / 64)) := convex_Icc _ _
  have key := hconv.norm_image_sub_le_of_norm_hasDerivWithin_le
    (f := Real.arcsin) (f' := fun s => 1 / Real.sqrt (1 - s ^ 2)) (C := 20 / 17) (x := b) (y := a)
    (fun s hs => by
      have h : s ^ 2 ≤ (33 / 64) ^ 2 := by
        rw [← sq_abs]; exact pow_le_pow_left₀ (abs_nonneg _) (abs_le.2 hs) 2
      refine (Real.hasDerivAt_arcsin ?_ ?_).hasDerivWithinAt
      · intro e; rw [e] at h; norm_num at h
      · intro e; rw [e] at h; norm_num at h)
    (fun s hs => by
      have h : s ^ 2 ≤ (33 / 64) ^ 2 := by
        rw [← sq_abs]; exact pow_le_pow_left₀ (abs_nonneg _) (abs_le.2 hs) 2
      have hu1 : (17 : ℝ) / 20 ≤ Real.sqrt (1 - s ^ 2) := by
        refine Real.le_sqrt_of_sq_le ?_
        norm_num at h ⊢; linarith
      have hpos : 0 < Real.sqrt (1 - s ^ 2) := by linarith
      rw [Real.norm_eq_abs, abs_of_pos (by positivity), div_le_iff₀ hpos]
      linarith)
    (abs_le.1 hb) (abs_le.1 ha)
  simpa [Real.norm_eq_abs] using key

/-- `y ≤ arcsin y` for `0 ≤ y ≤ 1` -/
theorem le_arcsin {y : ℝ} (h0 : 0 ≤ y) (h1 : y ≤ 1) : y ≤ Real.arcsin y := by
  have h := Real.sin_arcsin (by linarith) h1
  have h2 : 0 ≤ Real.arcsin y := Real.arcsin_nonneg.2 h0
  rcases h2.eq_or_lt with h3 | h3
  · rw [← h3, Real.sin_zero] at h; linarith
  · have := Real.sin_lt h3; linarith

/-! ## 4. `restricted_tan`: table and approximation error (via `tan = sin / cos`) -/

/-- `hi + lo` of the fourteen entries of the crate's `TAN_COEFFS`, exactly -/
def tanCoeffs : List ℚ :=
  [(13521606402433134963057248079801 : ℚ) / 2 ^ 105,
   (21634570244396606238223534090029 : ℚ) / 2 ^ 107,
   (560438389826539756193435792588055 : ℚ) / 2 ^ 113,
   (227105779878089454029902674377263 : ℚ) / 2 ^ 113,
   (184081500221250358656813615725923 : ℚ) / 2 ^ 114,
   (149223377751435613958162555856347 : ℚ) / 2 ^ 115,
   (120798077092238921997284586792159 : ℚ) / 2 ^ 116,
   (198616448825962035871737875136771 : ℚ) / 2 ^ 118,
   (572698854980726802615404727070795 : ℚ) / 2 ^ 121,
   (198777714197251024143215338756651 : ℚ) / 2 ^ 120,
   (-1838146241238958388428208632497489 : ℚ) / 2 ^ 125,
   (275798470081708823847458695990779 : ℚ) / 2 ^ 121,
   (-138375253862439008513795631819037 : ℚ) / 2 ^ 121,
   (29876329288237549927180096300023 : ℚ) / 2 ^ 120]

/-- the exact polynomial behind `restricted_tan`: `r·(r²·P(r²) + 1)` -/
noncomputable def TanPoly (r : ℝ) : ℝ := r * (r ^ 2 * peval tanCoeffs (r ^ 2) + 1)

def tanPolyQ (r : ℚ) : ℚ := r * (r ^ 2 * pevalQ tanCoeffs (r ^ 2) + 1)

theorem tanPolyQ_cast (r : ℚ) : ((tanPolyQ r : ℚ) : ℝ) = TanPoly (r : ℝ) := by
  unfold tanPolyQ TanPoly; push_cast; rw [pevalQ_cast]; push_cast; ring

/-- `s(t) − W(t)·c(t)`: `sin r − TanPoly r · cos r = r · tanG(r²) + Taylor remainders` -/
def tanG : List ℚ := psub (1 :: sinTaylor 10) (pmul (1 :: tanCoeffs) (1 :: -(1 / 2) :: cosTaylor 10))

set_option maxRecDepth 100000 in
/-- kernel-evaluated: 16 cells of `[0, 0.786²]`; `|tanG| ≤ 2^-51` -/
theorem tanG_check : checkAll1 tanG 0 ((393 / 500) ^ 2 / 16) 16 (1 / 2 ^ 51) = true := by
  decide +kernel

theorem tanQ_abs : absb tanCoeffs ((393 / 500) ^ 2) ≤ 1 := by decide +kernel

theorem tan_sq_range {r : ℝ} (hr : |r| ≤ 393 / 500) : 0 ≤ r ^ 2 ∧ r ^ 2 ≤ (393 / 500) ^ 2 := by
  have h := pow_le_pow_left₀ (abs_nonneg r) hr 2
  rw [sq_abs] at h
  exact ⟨sq_nonneg r, h⟩

theorem cos_rem_le {r : ℝ} (hr : |r| ≤ 393 / 500) :
    |Real.cos r - ∑ k ∈ range 12, (-1) ^ k * r ^ (2 * k) / ((2 * k).factorial : ℝ)| ≤ 1 / 2 ^ 77 := by
  refine le_trans (cos_taylor r (le_trans hr (by norm_num)) 12 (by norm_num)) ?_
  have h24 : |r| ^ (2 * 12) ≤ ((393 : ℝ) / 500) ^ 24 := pow_le_pow_left₀ (abs_nonneg r) hr 24
  exact le_trans (mul_le_mul_of_nonneg_right h24 (by positivity)) cos_rem_num

theorem tanPoly_le {r : ℝ} (hr : |r| ≤ 393 / 500) : |TanPoly r| ≤ 2 * |r| := by
  obtain ⟨h0, h1⟩ := tan_sq_range hr
  unfold TanPoly
  rw [abs_mul, mul_comm 2]
  refine mul_le_mul_of_nonneg_left ?_ (abs_nonneg _)
  have hq := peval_le_absb tanCoeffs (h := (393 / 500) ^ 2) (s := r ^ 2)
    (by rw [abs_of_nonneg h0]; push_cast; exact h1)
  have hq' : |peval tanCoeffs (r ^ 2)| ≤ 1 := le_trans hq (by exact_mod_cast tanQ_abs)
  refine le_trans (abs_add_le _ _) ?_
  rw [abs_mul, abs_of_nonneg h0, abs_one]
  have := mul_le_mul h1 hq' (abs_nonneg _) (by positivity)
  norm_num at this ⊢
  linarith

theorem tan_decomp (r : ℝ) :
    Real.sin r - TanPoly r * Real.cos r
      = (Real.sin r - ∑ k ∈ range 11, (-1) ^ k * r ^ (2 * k + 1) / ((2 * k + 1).factorial : ℝ))
        - TanPoly r * (Real.cos r - ∑ k ∈ range 12, (-1) ^ k * r ^ (2 * k) / ((2 * k).factorial : ℝ))
        + r * peval tanG (r ^ 2) := by
  rw [sin_sum_11, cos_sum_12]
  unfold TanPoly tanG
  rw [peval_psub, peval_pmul, peval_cons, peval_cons, peval_cons, peval_cons]
  push_cast
  ring

theorem cos_pos_small {r : ℝ} (hr : |r| ≤ 4 / 5) : 0 < Real.cos r := by
  have hpi := Real.one_le_pi_div_two
  obtain ⟨h1, h2⟩ := abs_le.1 hr
  exact Real.cos_pos_of_mem_Ioo ⟨by linarith, by linarith⟩

/-- **approximation error of the tangent polynomial, relative to `tan r`**: `9·2^-54 < 2^-50.8` on `|r| ≤ 0.786`
(the true maximum is `≈ 2^-52.97` at `r ≈ 0.09`) -/
theorem tan_poly_rel {r : ℝ} (hr : |r| ≤ 393 / 500) : |Real.tan r - TanPoly r| ≤ 9 / 2 ^ 54 * |Real.tan r| := by
  obtain ⟨h0, h1⟩ := tan_sq_range hr
  have hG := checkAll1_sound (by norm_num) (by norm_num) tanG_check (x := r ^ 2)
    (by simpa using h0) (by push_cast; linarith)
  have eG : ((1 / 2 ^ 51 : ℚ) : ℝ) = 1 / 2 ^ 51 := by push_cast; rfl
  rw [eG] at hG
  have hs := sin_rem_le hr
  have hc := cos_rem_le hr
  have hW := tanPoly_le hr
  have hcos := cos_pos_small (le_trans hr (by norm_num))
  have hsin := abs_sin_ge' hr
  have key : |Real.sin r - TanPoly r * Real.cos r| ≤ 9 / 2 ^ 54 * |Real.sin r| := by
    rw [tan_decomp]
    refine le_trans (abs_add_le _ _) ?_
    refine le_trans (add_le_add_left (abs_sub _ _) _) ?_
    rw [abs_mul, abs_mul]
    have p1 : |TanPoly r| * |Real.cos r - ∑ k ∈ range 12, (-1) ^ k * r ^ (2 * k) / ((2 * k).factorial : ℝ)|
        ≤ 2 * |r| * (1 / 2 ^ 77) := mul_le_mul hW hc (abs_nonneg _) (by positivity)
    have p2 : |r| * |peval tanG (r ^ 2)| ≤ |r| * (1 / 2 ^ 51) := mul_le_mul_of_nonneg_left hG (abs_nonneg _)
    have p3 : |r| * (1 / 2 ^ 76) + 2 * |r| * (1 / 2 ^ 77) + |r| * (1 / 2 ^ 51)
        ≤ 9 / 2 ^ 54 * (|r| * (897 / 1000)) := by
      have : (1 : ℝ) / 2 ^ 76 + 2 * (1 / 2 ^ 77) + 1 / 2 ^ 51 ≤ 9 / 2 ^ 54 * (897 / 1000) := by norm_num
      have := mul_le_mul_of_nonneg_left this (abs_nonneg r)
      linarith
    have p4 := mul_le_mul_of_nonneg_left hsin (by positivity : (0 : ℝ) ≤ 9 / 2 ^ 54)
    linarith
  rw [Real.tan_eq_sin_div_cos]
  have e : Real.sin r / Real.cos r - TanPoly r = (Real.sin r - TanPoly r * Real.cos r) / Real.cos r := by
    field_simp
  rw [e, abs_div, abs_div, abs_of_pos hcos, ← mul_div_assoc]
  exact div_le_div_of_nonneg_right key hcos.le

/-- `cos r ≥ 0.69` on `|r| ≤ 0.787` -/
theorem cos_ge_small {r : ℝ} (hr : |r| ≤ 787 / 1000) : 69 / 100 ≤ Real.cos r := by
  have h := Real.one_sub_sq_div_two_le_cos (x := r)
  have h2 := pow_le_pow_left₀ (abs_nonneg r) hr 2
  rw [sq_abs] at h2
  norm_num at h2
  linarith

/-- `tan a − tan b = sin (a − b) / (cos a · cos b)`, hence a perturbation `δ` of the argument changes `tan` by at most
`δ·(1 + 2^-50)·(1 + tan² b)` (near `0`) -/
theorem tan_perturb {a b δ : ℝ} (ha : |a| ≤ 787 / 1000) (hb : |b| ≤ 787 / 1000) (h : |a - b| ≤ δ)
    (hδ : δ ≤ 1 / 2 ^ 60) :
    |Real.tan a - Real.tan b| ≤ δ * (1 + 1 / 2 ^ 50) * (1 + Real.tan b ^ 2) := by
  have ca := cos_ge_small ha
  have cb := cos_ge_small hb
  have hca : 0 < Real.cos a := by linarith
  have hcb : 0 < Real.cos b := by linarith
  have e1 : Real.tan a - Real.tan b = Real.sin (a - b) / (Real.cos a * Real.cos b) := by
    rw [Real.tan_eq_sin_div_cos, Real.tan_eq_sin_div_cos, Real.sin_sub]
    field_simp
  have e2 : 1 + Real.tan b ^ 2 = 1 / Real.cos b ^ 2 := by
    rw [Real.tan_eq_sin_div_cos]
    have := Real.sin_sq_add_cos_sq b
    field_simp
    linarith
  have hs : |Real.sin (a - b)| ≤ δ := le_trans Real.abs_sin_le_abs h
  have hδ0 : 0 ≤ δ := le_trans (abs_nonneg _) h
  have hk : Real.cos b ≤ (1 + 1 / 2 ^ 50) * Real.cos a := by
    have h3 := Real.abs_cos_sub_cos_le b a
    rw [abs_sub_comm b a] at h3
    have h4 := (abs_le.1 (le_trans h3 h)).2
    have : (1 : ℝ) / 2 ^ 60 ≤ 1 / 2 ^ 50 * (69 / 100) := by norm_num
    have : 1 / 2 ^ 50 * (69 / 100) ≤ 1 / 2 ^ 50 * Real.cos a := mul_le_mul_of_nonneg_left ca (by positivity)
    linarith
  rw [e1, e2, abs_div, abs_of_pos (mul_pos hca hcb), div_le_iff₀ (mul_pos hca hcb)]
  have e3 : δ * (1 + 1 / 2 ^ 50) * (1 / Real.cos b ^ 2) * (Real.cos a * Real.cos b)
      = δ * ((1 + 1 / 2 ^ 50) * Real.cos a / Real.cos b) := by field_simp
  rw [e3]
  have h1 : 1 ≤ (1 + 1 / 2 ^ 50) * Real.cos a / Real.cos b := by rw [le_div_iff₀ hcb]; linarith
  exact le_trans hs (le_mul_of_one_le_right hδ0 h1)

/-! ## 5. `restricted_atan`: table, approximation error, and the constants of the reduction -/

/-- `hi + lo` of the fifteen entries of the crate's `ATAN_COEFFS`, exactly -/
def atanCoeffs : List ℚ :=
  [(-108172851219475575562256158586797 : ℚ) / 2 ^ 108,
   (129807421463370667615927032406121 : ℚ) / 2 ^ 109,
   (-92719586759547089182393881400889 : ℚ) / 2 ^ 109,
   (1153843746336682555257785729730401 : ℚ) / 2 ^ 113,
   (-118006746757321853012237387095231 : ℚ) / 2 ^ 110,
   (49925930867520178010502760608357 : ℚ) / 2 ^ 109,
   (-1384612143214808930819068161217361 : ℚ) / 2 ^ 114,
   (152713857038176183033413277248343 : ℚ) / 2 ^ 111,
   (-34157452006783155472897516623997 : ℚ) / 2 ^ 109,
   (988285862667502016002567745310465 : ℚ) / 2 ^ 114,
   (-56120306007482183258549918906299 : ℚ) / 2 ^ 110,
   (100538879961375791786491082729797 : ℚ) / 2 ^ 111,
   (-5225544337091309046103208945429 : ℚ) / 2 ^ 107,
   (891332001134996502090896760283589 : ℚ) / 2 ^ 115,
   (-84252875439496068270083444054627 : ℚ) / 2 ^ 113]

/-- the exact polynomial behind `restricted_atan`: `r·(r²·P(r²) + 1)` -/
noncomputable def AtanPoly (r : ℝ) : ℝ := r * (r ^ 2 * peval atanCoeffs (r ^ 2) + 1)

def atanPolyQ (r : ℚ) : ℚ := r * (r ^ 2 * pevalQ atanCoeffs (r ^ 2) + 1)

theorem atanPolyQ_cast (r : ℚ) : ((atanPolyQ r : ℚ) : ℝ) = AtanPoly (r : ℝ) := by
  unfold atanPolyQ AtanPoly; push_cast; rw [pevalQ_cast]; push_cast; ring

/-- the interval of `restricted_atan`: `|r| ≤ 7/16 + 2^-20` -/
def atanRho : ℚ := 7 / 16 + 1 / 2 ^ 20

def atanT0 : ℚ := atanRho ^ 2

/-- the Taylor polynomial of `arctan` of degree 71 -/
def atanA : List ℚ := podd (atanT 36)

set_option maxRecDepth 100000 in
theorem atanA_check : absb (psub [1] (pmul (pderiv atanA) [1, 0, 1])) atanRho ≤ 1 / 2 ^ 85 := by
  decide +kernel

/-- **Taylor polynomial of `arctan` of degree 71 on `|r| ≤ 7/16 + 2^-20`**: relative remainder `≤ 2^-85` -/
theorem arctan_taylor {r : ℝ} (hr : |r| ≤ (atanRho : ℝ)) :
    |Real.arctan r - r * peval (atanT 36) (r ^ 2)| ≤ 1 / 2 ^ 85 * |r| := by
  have h := arctan_approx (A := atanA) (ρ := atanRho) (δ := 1 / 2 ^ 85) (by decide +kernel) atanA_check hr
  unfold atanA at h
  rw [peval_podd] at h
  refine le_trans h (mul_le_mul_of_nonneg_right ?_ (abs_nonneg _))
  push_cast
  norm_num

/-- `Taylor − table` -/
def atanG : List ℚ := psub (atanT 36) (1 :: atanCoeffs)

set_option maxRecDepth 100000 in
/-- kernel-evaluated: 4 cells of `[0, T/16]`, `T = (7/16 + 2^-20)²`: `|atanG| ≤ 2^-72` -/
theorem atanG_checkA : checkAll1 atanG 0 (atanT0 / 64) 4 (1 / 2 ^ 72) = true := by
  decide +kernel

set_option maxRecDepth 100000 in
/-- kernel-evaluated: 15 cells of `[T/16, T]`: `|atanG| ≤ 2^-73` -/
theorem atanG_checkB : checkAll1 atanG (atanT0 / 16) (atanT0 / 16) 15 (1 / 2 ^ 73) = true := by
  decide +kernel

theorem atan_decomp (r : ℝ) :
    Real.arctan r - AtanPoly r
      = (Real.arctan r - r * peval (atanT 36) (r ^ 2)) + r * peval atanG (r ^ 2) := by
  unfold AtanPoly atanG
  rw [peval_psub, peval_cons]
  push_cast
  ring

theorem atan_sq_range {r : ℝ} (hr : |r| ≤ (atanRho : ℝ)) : r ^ 2 ≤ (atanT0 : ℝ) := by
  have h := pow_le_pow_left₀ (abs_nonneg r) hr 2
  rw [sq_abs] at h
  unfold atanT0
  push_cast
  exact h

theorem atanG_bound {r : ℝ} (hr : |r| ≤ (atanRho : ℝ)) : |peval atanG (r ^ 2)| ≤ 1 / 2 ^ 72 := by
  have ht := atan_sq_range hr
  have h0 : (0 : ℝ) ≤ r ^ 2 := sq_nonneg r
  have hT0 : (0 : ℚ) < atanT0 := by unfold atanT0 atanRho; positivity
  by_cases hc : r ^ 2 ≤ (atanT0 : ℝ) / 16
  · have hA := checkAll1_sound (by linarith [hT0] : (0 : ℚ) < atanT0 / 64) (by norm_num) atanG_checkA
      (x := r ^ 2) (by simpa using h0) (by push_cast; linarith)
    have eA : ((1 / 2 ^ 72 : ℚ) : ℝ) = 1 / 2 ^ 72 := by push_cast; rfl
    rw [eA] at hA
    exact hA
  · have hc' : (atanT0 : ℝ) / 16 ≤ r ^ 2 := (not_le.1 hc).le
    have hB := checkAll1_sound (by linarith [hT0] : (0 : ℚ) < atanT0 / 16) (by norm_num) atanG_checkB
      (x := r ^ 2) (by push_cast; linarith) (by push_cast; linarith)
    have eB : ((1 / 2 ^ 73 : ℚ) : ℝ) = 1 / 2 ^ 73 := by push_cast; rfl
    rw [eB] at hB
    exact le_trans hB (by norm_num)

/-- **approximation error of the arctangent polynomial, relative to `|r|`**: `2^-72 + 2^-85`, on `|r| ≤ 7/16 + 2^-20`
(the true maximum of the error relative to `arctan r` is `≈ 2^-73.19` at `r ≈ 0.05`) -/
theorem atan_poly_rel {r : ℝ} (hr : |r| ≤ (atanRho : ℝ)) :
    |Real.arctan r - AtanPoly r| ≤ |r| * (1 / 2 ^ 72 + 1 / 2 ^ 85) := by
  rw [atan_decomp]
  refine le_trans (abs_add_le _ _) ?_
  have h1 := arctan_taylor hr
  have h2 := atanG_bound hr
  rw [abs_mul]
  have h3 := mul_le_mul_of_nonneg_left h2 (abs_nonneg r)
  linarith

theorem atanT_split : atanT 36 = 1 :: (atanT 36).tail := by decide +kernel

theorem atanTail_abs : absb (atanT 36).tail atanT0 ≤ 2 / 5 := by decide +kernel

/-- `|arctan r| ≥ 0.9·|r|` on `|r| ≤ 7/16 + 2^-20` -/
theorem abs_arctan_ge {r : ℝ} (hr : |r| ≤ (atanRho : ℝ)) : 9 / 10 * |r| ≤ |Real.arctan r| := by
  have ht := atan_sq_range hr
  have h0 : (0 : ℝ) ≤ r ^ 2 := sq_nonneg r
  have h1 := arctan_taylor hr
  have hq := peval_le_absb (atanT 36).tail (h := atanT0) (s := r ^ 2) (by rw [abs_of_nonneg h0]; exact ht)
  have hq' : |peval (atanT 36).tail (r ^ 2)| ≤ 2 / 5 := by
    refine le_trans hq ?_
    have := (Rat.cast_le (K := ℝ)).2 atanTail_abs
    push_cast at this
    exact this
  have hT : (atanT0 : ℝ) ≤ 1 / 5 := by unfold atanT0 atanRho; push_cast; norm_num
  have hP : |peval (atanT 36) (r ^ 2) - 1| ≤ 2 / 25 := by
    rw [atanT_split, peval_cons]
    push_cast
    rw [add_sub_cancel_left, abs_mul, abs_of_nonneg h0]
    have := mul_le_mul (le_trans ht hT) hq' (abs_nonneg _) (by norm_num)
    linarith
  have hP1 : 23 / 25 ≤ |peval (atanT 36) (r ^ 2)| := by
    have := abs_sub_abs_le_abs_sub (1 : ℝ) (peval (atanT 36) (r ^ 2))
    rw [abs_one, abs_sub_comm] at this
    linarith
  have h2 : |r * peval (atanT 36) (r ^ 2)| ≤ |Real.arctan r| + 1 / 2 ^ 85 * |r| := by
    have := abs_add_le (r * peval (atanT 36) (r ^ 2) - Real.arctan r) (Real.arctan r)
    rw [sub_add_cancel, abs_sub_comm] at this
    linarith
  rw [abs_mul] at h2
  have h3 : |r| * (23 / 25) ≤ |r| * |peval (atanT 36) (r ^ 2)| := mul_le_mul_of_nonneg_left hP1 (abs_nonneg _)
  have h4 : (1 : ℝ) / 2 ^ 85 * |r| ≤ 1 / 50 * |r| := mul_le_mul_of_nonneg_right (by norm_num) (abs_nonneg _)
  linarith

/-- `arctan x = arctan c + arctan ((x − c)/(1 + c·x))` for `x, c ≥ 0` (the reduction of the crate) -/
theorem arctan_sub_const {x c : ℝ} (hx : 0 ≤ x) (hc : 0 ≤ c) :
    Real.arctan x = Real.arctan c + Real.arctan ((x - c) / (1 + c * x)) := by
  have hp : 0 < 1 + c * x := by positivity
  have hlt : c * ((x - c) / (1 + c * x)) < 1 := by
    rw [mul_div_assoc', div_lt_one hp]
    nlinarith [sq_nonneg c]
  have h1 : 0 < 1 + c ^ 2 := by positivity
  have h2 : 1 - c * ((x - c) / (1 + c * x)) = (1 + c ^ 2) / (1 + c * x) := by field_simp; ring
  have h3 : c + (x - c) / (1 + c * x) = x * (1 + c ^ 2) / (1 + c * x) := by field_simp; ring
  have e : (c + (x - c) / (1 + c * x)) / (1 - c * ((x - c) / (1 + c * x))) = x := by
    rw [h2, h3, div_div_div_cancel_right₀ hp.ne', mul_div_assoc, div_self h1.ne', mul_one]
  rw [Real.arctan_add hlt, e]

theorem arctan_three_halves : Real.arctan (3 / 2) = Real.pi / 4 + Real.arctan (1 / 5) := by
  rw [← Real.arctan_one, Real.arctan_add (by norm_num)]
  congr 1
  norm_num

set_option maxRecDepth 100000 in
theorem atanHalf_check : absb (psub [1] (pmul (pderiv (podd (atanT 60))) [1, 0, 1])) (1 / 2) ≤ 1 / 2 ^ 119 := by
  decide +kernel

set_option maxRecDepth 100000 in
theorem atanFifth_check : absb (psub [1] (pmul (pderiv (podd (atanT 30))) [1, 0, 1])) (1 / 5) ≤ 1 / 2 ^ 130 := by
  decide +kernel

/-- rational enclosure of `arctan (1/2)` to `2^-120` -/
theorem arctan_half_encl :
    |Real.arctan (1 / 2) - ((pevalQ (podd (atanT 60)) (1 / 2) : ℚ) : ℝ)| ≤ 1 / 2 ^ 120 := by
  have h := arctan_approx (A := podd (atanT 60)) (ρ := 1 / 2) (δ := 1 / 2 ^ 119) (by decide +kernel)
    atanHalf_check (r := 1 / 2) (by push_cast; norm_num)
  rw [pevalQ_cast]
  push_cast at h ⊢
  refine le_trans h ?_
  norm_num

/-- rational enclosure of `arctan (1/5)` to `2^-130` -/
theorem arctan_fifth_encl :
    |Real.arctan (1 / 5) - ((pevalQ (podd (atanT 30)) (1 / 5) : ℚ) : ℝ)| ≤ 1 / 2 ^ 130 := by
  have h := arctan_approx (A := podd (atanT 30)) (ρ := 1 / 5) (δ := 1 / 2 ^ 130) (by decide +kernel)
    atanFifth_check (r := 1 / 5) (by push_cast; norm_num)
  rw [pevalQ_cast]
  push_cast at h ⊢
  refine le_trans h ?_
  norm_num

end ATrigBound
