/-
Lemmas.Slivers2 — helper lemmas for the last "sliver" ranges of C15 (`ln`, `log10`, `ln_1p`) and C18 (`atanh` domain
error), used by `TFV/Properties/C15q.lean` and `TFV/Properties/C18k.lean`.

 §1  `TwoFloat::ln` of ANY pair with a non-finite high word is `NAN` (both words NaN), whatever the low word.
 §2  the sign of a long division `TwoFloat / TwoFloat`, for ALL magnitudes: if the quotient is a valid pair and the
     first quotient digit is at most `-32` units (`-2^-1069`), the value of the quotient is non-positive.
 §3  the first quotient digit of operands of opposite signs.
 §4  crude sign/magnitude of `1.0 + x`, `1.0 - x` for huge `x` (no magnitude restriction, only finiteness of the result).
 §5  (`namespace LnWide`) the accuracy of `TwoFloat * TwoFloat` (`7u²`), `exp` and the Newton steps of `ln` with the lower
     limit of the leading product moved from `2^-960` to `2^-961`: `LnWide.ln_bound_w`, the `ln` floor for every valid
     argument with high word in `[2^-1000, 2^960]` (`LnBound.ln_bound` stops at `2^960 − 2^944`).
 §6  the operations of `ln_1p` on a tiny argument, word for word: `libm::log1p(h) = h`, `(c, 0)/(1, h) = (c, 0)`,
     `(H, 0) − (−L, 0) = (H, L)`, `(H, L) + 1.0 = (1, H)`.
-/
import TFV.Lemmas.Slivers
import TFV.Lemmas.DivAll
import TFV.Properties.C01m
import TFV.Lemmas.Log1pBound
import TFV.Lemmas.PowfTight

set_option exponentiation.threshold 4000

namespace Slivers2

open F64 TwoFloat ExpBound Slivers

/-! ## 1. `ln` of a pair with a non-finite high word -/

theorem mul_any_NAN (h : F64) (s : Bool) (n : ℕ) (hh : h.is_finite = false) :
    arithmetic.impl_Mul_TwoFloat_for_TwoFloat.mul ⟨h, fin s n⟩ TwoFloat.NAN = TwoFloat.NAN := by
  cases h with
  | nan => rfl
  | inf b => rfl
  | fin t m => cases hh

theorem mul_nan_NAN (s : Bool) (n : ℕ) :
    arithmetic.impl_Mul_TwoFloat_for_TwoFloat.mul ⟨nan, fin s n⟩ TwoFloat.NAN = TwoFloat.NAN := rfl

theorem mul_pinf_NAN (s : Bool) (n : ℕ) :
    arithmetic.impl_Mul_TwoFloat_for_TwoFloat.mul ⟨inf false, fin s n⟩ TwoFloat.NAN = TwoFloat.NAN := rfl

theorem exp_neg_from_log_nan :
    TwoFloat.exp (arithmetic.impl_Neg_for_TwoFloat.neg (convert.impl_From_f64_for_TwoFloat.from (Libm.log nan)))
      = TwoFloat.NAN := by decide +kernel

theorem exp_neg_from_log_inf :
    TwoFloat.exp (arithmetic.impl_Neg_for_TwoFloat.neg
      (convert.impl_From_f64_for_TwoFloat.from (Libm.log (inf false)))) = ⟨fin false 0, fin false 0⟩ := by
  decide +kernel

theorem ln_step_inf :
    arithmetic.impl_AddAssign_TwoFloat_for_TwoFloat.add_assign
      (convert.impl_From_f64_for_TwoFloat.from (Libm.log (inf false)))
      (arithmetic.impl_Sub_f64_for_TwoFloat.sub TwoFloat.NAN (f64lit 0x3ff0000000000000)) = TwoFloat.NAN := by
  decide +kernel

theorem ln_step_from_nan :
    arithmetic.impl_AddAssign_TwoFloat_for_TwoFloat.add_assign
      (convert.impl_From_f64_for_TwoFloat.from (Libm.log nan))
      (arithmetic.impl_Sub_f64_for_TwoFloat.sub TwoFloat.NAN (f64lit 0x3ff0000000000000)) = TwoFloat.NAN := by
  decide +kernel

theorem ln_step_nan :
    arithmetic.impl_AddAssign_TwoFloat_for_TwoFloat.add_assign TwoFloat.NAN
      (arithmetic.impl_Sub_f64_for_TwoFloat.sub TwoFloat.NAN (f64lit 0x3ff0000000000000)) = TwoFloat.NAN := by
  decide +kernel

theorem exp_neg_NAN : TwoFloat.exp (arithmetic.impl_Neg_for_TwoFloat.neg TwoFloat.NAN) = TwoFloat.NAN := by
  decide +kernel

theorem ln_last_nan :
    arithmetic.impl_Sub_f64_for_TwoFloat.sub (arithmetic.impl_Add_TwoFloat_for_TwoFloat.add TwoFloat.NAN TwoFloat.NAN)
      (f64lit 0x3ff0000000000000) = TwoFloat.NAN := by decide +kernel

theorem nan_not_tiny : (F64.nan <. LnCore.tinyLim) = false := by decide +kernel
theorem pinf_not_tiny : (F64.inf false <. LnCore.tinyLim) = false := by decide +kernel

theorem ln_nan_fin (s : Bool) (n : ℕ) : TwoFloat.ln ⟨nan, fin s n⟩ = TwoFloat.NAN := by
  rw [LnCore.ln_eq_lnCore ⟨nan, fin s n⟩ nan_not_tiny]
  unfold TwoFloat.lnCore
  rw [show base.impl_PartialEq_f64_for_TwoFloat.eq ⟨nan, fin s n⟩ (f64lit 0x3ff0000000000000) = false from rfl,
    show ROrd.isLe (base.impl_PartialOrd_f64_for_TwoFloat.partial_cmp (⟨nan, fin s n⟩ : TwoFloat)
      (f64lit 0x0000000000000000)) = false from rfl]
  simp only [Bool.false_eq_true, if_false, exp_neg_from_log_nan, mul_nan_NAN, ln_step_from_nan,
    exp_neg_NAN, ln_step_nan, ln_last_nan]

theorem ln_pinf_fin (s : Bool) (n : ℕ) : TwoFloat.ln ⟨inf false, fin s n⟩ = TwoFloat.NAN := by
  rw [LnCore.ln_eq_lnCore ⟨inf false, fin s n⟩ pinf_not_tiny]
  unfold TwoFloat.lnCore
  rw [show base.impl_PartialEq_f64_for_TwoFloat.eq ⟨inf false, fin s n⟩ (f64lit 0x3ff0000000000000) = false from rfl,
    show ROrd.isLe (base.impl_PartialOrd_f64_for_TwoFloat.partial_cmp (⟨inf false, fin s n⟩ : TwoFloat)
      (f64lit 0x0000000000000000)) = false from rfl]
  simp only [Bool.false_eq_true, if_false, exp_neg_from_log_inf]
  rw [show arithmetic.impl_Mul_TwoFloat_for_TwoFloat.mul ⟨inf false, fin s n⟩ ⟨fin false 0, fin false 0⟩
    = TwoFloat.NAN from rfl]
  simp only [ln_step_inf, exp_neg_NAN, mul_pinf_NAN, ln_step_nan, ln_last_nan]

/-- **`ln` of a pair whose high word is not finite** (`NaN`, `+∞` or `−∞`) is `TwoFloat::NAN`, for EVERY low word -/
theorem ln_of_hi_not_finite {q : TwoFloat} (h : q.hi.is_finite = false) : TwoFloat.ln q = TwoFloat.NAN := by
  rcases q with ⟨hi, lo⟩
  cases hi with
  | fin t m => cases h
  | nan =>
    cases lo with
    | nan => decide +kernel
    | inf b => cases b <;> decide +kernel
    | fin s n => exact ln_nan_fin s n
  | inf b =>
    cases b with
    | true =>
      cases lo with
      | nan => decide +kernel
      | inf c => cases c <;> decide +kernel
      | fin s n => exact LnCore.ln_go_succ_nonpos 7 _ rfl rfl
    | false =>
      cases lo with
      | nan => decide +kernel
      | inf c => cases c <;> decide +kernel
      | fin s n => exact ln_pinf_fin s n

/-! ## 2. the sign of a long division -/

/-- **the quotient digits of `TwoFloat / TwoFloat` decrease**, all magnitudes, in the sharp form of
`F64.digit_crude_int`: each digit is at most `2^-43` of the previous one plus `8` units (`F64.div_digits` states the
weaker `2^-40 |q1| + 2^10`).  Only finiteness of the three digits is assumed. -/
theorem div_digits43 {a y : TwoFloat} (ha : a.Valid) (hwa : a.WF) (hy : y.Valid)
    (f1 : (F64.div a.hi y.hi).is_finite = true)
    (f2 : (F64.div (divStep a y).hi y.hi).is_finite = true)
    (f3 : (F64.div (divStep (divStep a y) y).hi y.hi).is_finite = true) :
    2 ^ 43 * |(F64.div (divStep a y).hi y.hi).toInt| ≤ |(F64.div a.hi y.hi).toInt| + 2 ^ 46 ∧
    2 ^ 43 * |(F64.div (divStep (divStep a y) y).hi y.hi).toInt|
      ≤ |(F64.div (divStep a y).hi y.hi).toInt| + 2 ^ 46 := by
  have fx := ha.1
  have hwx := hwa.1
  have hxl := two_pow_mul_abs_le_of_half_ulp ha.two_mul_abs_lo_le
  have hy0 : y.hi.toInt ≠ 0 := by
    intro h0
    rw [div_zero_not_finite fx hy.1 h0] at f1
    cases f1
  -- first step
  have fr1 : (divStep a y).hi.is_finite = true := is_finite_of_div f2
  have fP1 := (subTT_hi_finite fr1).2
  have pv1 := (mul_tf_crude hy fP1 hwx.repI).1
  obtain ⟨rv1, hR1⟩ := sub_tt_crude ha pv1 hwa (mul_tf_WF _ _) fr1
  have rw1 : (divStep a y).WF := divStep_WF _ _
  have S1 := step_crude (R := divStep a y) hy fx hwx hy0 hxl f1 fP1 hR1
  have vq1 := div_spec_of_finite fx hy.1 hy0 f1
  have hq1 := rdI_err_gen (a.hi.toInt * (unit : ℤ)) hy0
  rw [← vq1] at hq1
  change (divStep a y).Valid at rv1
  generalize hr1 : divStep a y = r1 at *
  have vq2 := div_spec_of_finite rv1.1 hy.1 hy0 f2
  have hq2 := rdI_err_gen (r1.hi.toInt * (unit : ℤ)) hy0
  rw [← vq2] at hq2
  have D2 := digit_crude_int hy0 hq1 hq2 S1
  -- second step
  have fr2 : (divStep r1 y).hi.is_finite = true := is_finite_of_div f3
  have fP2 := (subTT_hi_finite fr2).2
  have pv2 := (mul_tf_crude hy fP2 rw1.1.repI).1
  obtain ⟨-, hR2⟩ := sub_tt_crude rv1 pv2 rw1 (mul_tf_WF _ _) fr2
  have S2 := step_crude (R := divStep r1 y) hy rv1.1 rw1.1 hy0
    (two_pow_mul_abs_le_of_half_ulp rv1.two_mul_abs_lo_le) f2 fP2 hR2
  have vq3 := div_spec_of_finite (x := (divStep r1 y).hi) fr2 hy.1 hy0 f3
  have hq3 := rdI_err_gen ((divStep r1 y).hi.toInt * (unit : ℤ)) hy0
  rw [← vq3] at hq3
  have D3 := digit_crude_int hy0 hq2 hq3 S2
  exact ⟨D2, D3⟩

/-- integer core: a dominating negative first digit makes the middle sum of `renorm3` non-positive -/
theorem renorm3_sign_int {a b c : ℤ} (ha : a ≤ -32) (hb : 2 ^ 43 * |b| ≤ |a| + 2 ^ 46)
    (hc : 2 ^ 43 * |c| ≤ |b| + 2 ^ 46) : rnI (c + rnI (a + b)) ≤ 0 := by
  have r1 := rel_err_rnI (a + b)
  have hA : |a| = -a := abs_of_neg (by omega)
  have t1 : a + b ≤ a + |b| := by have := le_abs_self b; omega
  have t2 : c ≤ |c| := le_abs_self c
  have t3 := abs_add_le a b
  have t4 : rnI (a + b) ≤ (a + b) + |rnI (a + b) - (a + b)| := by
    have := le_abs_self (rnI (a + b) - (a + b)); omega
  have n1 := abs_nonneg b
  have n2 := abs_nonneg c
  have key : c + rnI (a + b) ≤ 0 := by
    generalize rnI (a + b) = uh at *
    generalize |uh - (a + b)| = e at *
    generalize |a + b| = ab at *
    generalize |b| = xb at *
    generalize |c| = xc at *
    generalize |a| = xa at *
    omega
  have := rnI_mono key
  rwa [rnI_zero] at this

/-- **the sign of `TwoFloat / TwoFloat`**, all magnitudes: if the long division returns a valid pair and its first
quotient digit `RN(a.hi / b.hi)` is at most `-32` units (`-2^-1069`), the value of the quotient is non-positive -/
theorem div_tt_V_nonpos {a b : TwoFloat} (ha : a.Valid) (hwa : a.WF) (hb : b.Valid) (_hwb : b.WF)
    (hQ : (arithmetic.impl_Div_rTwoFloat_for_rTwoFloat.div a b).Valid)
    (hq1 : (F64.div a.hi b.hi).toInt ≤ -32) :
    (arithmetic.impl_Div_rTwoFloat_for_rTwoFloat.div a b).V ≤ 0 := by
  have hpos := hQ.hi_pos_iff F64.roundFacts
  have hfin := hQ.1
  rw [div_tt_eq] at hfin hpos ⊢
  rw [renorm3_eq', fast_two_sum_eq] at hfin
  simp only at hfin
  obtain ⟨fs, fw⟩ := is_finite_of_add hfin
  rw [fast_two_sum_eq] at fs
  simp only at fs
  rw [fast_two_sum_eq (F64.div a.hi b.hi)] at fs
  simp only at fs
  obtain ⟨f3, fuh⟩ := is_finite_of_add fs
  obtain ⟨f1, f2⟩ := is_finite_of_add fuh
  obtain ⟨hb', hc'⟩ := div_digits43 ha hwa hb f1 f2 f3
  generalize F64.div a.hi b.hi = q1 at *
  generalize F64.div (divStep a b).hi b.hi = q2 at *
  generalize F64.div (divStep (divStep a b) b).hi b.hi = q3 at *
  change (F64.add (arithmetic.fast_two_sum q1 q2).lo (arithmetic.fast_two_sum q3 (F64.add q1 q2)).lo).is_finite
    = true at fw
  change (F64.add (F64.add q3 (F64.add q1 q2))
    (F64.add (arithmetic.fast_two_sum q1 q2).lo (arithmetic.fast_two_sum q3 (F64.add q1 q2)).lo)).is_finite
    = true at hfin
  obtain ⟨ful, fvl⟩ := is_finite_of_add fw
  rw [fast_two_sum_eq] at ful fvl
  simp only at ful fvl
  obtain ⟨-, ft⟩ := is_finite_of_sub ful
  obtain ⟨-, fz⟩ := is_finite_of_sub fvl
  have v1 := IsVal.of_finite f1
  have v2 := IsVal.of_finite f2
  have v3 := IsVal.of_finite f3
  have vuh := v1.add_of_finite v2 fuh
  have vt := vuh.sub_of_finite v1 ft
  have vul := v2.sub_of_finite vt ful
  have vs := v3.add_of_finite vuh fs
  have vz := vs.sub_of_finite v3 fz
  have vvl := vuh.sub_of_finite vz fvl
  have vw : IsVal (F64.add (arithmetic.fast_two_sum q1 q2).lo (arithmetic.fast_two_sum q3 (F64.add q1 q2)).lo) _ :=
    vul.add_of_finite vvl fw
  have hW := renorm3_int (a := q1.toInt) (b := q2.toInt) (c := q3.toInt)
    (by have := abs_nonneg q1.toInt; omega)
    (by have := abs_nonneg q1.toInt; have := abs_nonneg q2.toInt; omega)
  have hS := renorm3_sign_int hq1 hb' hc'
  have vhi := vs.add_of_finite vw hfin
  have ehi : (arithmetic.renorm3 q1 q2 q3).hi = F64.add (F64.add q3 (F64.add q1 q2))
      (F64.add (arithmetic.fast_two_sum q1 q2).lo (arithmetic.fast_two_sum q3 (F64.add q1 q2)).lo) := rfl
  have hle : (arithmetic.renorm3 q1 q2 q3).hi.toInt ≤ 0 := by
    rw [ehi, vhi.2]
    have : rnI (q3.toInt + rnI (q1.toInt + q2.toInt))
        + rnI (rnI (q2.toInt - rnI (rnI (q1.toInt + q2.toInt) - q1.toInt))
          + rnI (rnI (q1.toInt + q2.toInt) - rnI (rnI (q3.toInt + rnI (q1.toInt + q2.toInt)) - q3.toInt))) ≤ 0 := by
      generalize rnI (q3.toInt + rnI (q1.toInt + q2.toInt)) = S at *
      generalize rnI (rnI (q2.toInt - rnI (rnI (q1.toInt + q2.toInt) - q1.toInt))
          + rnI (rnI (q1.toInt + q2.toInt) - rnI (S - q3.toInt))) = W at *
      have := le_abs_self W
      rw [abs_of_nonpos hS] at hW
      omega
    have := rnI_mono this
    rwa [rnI_zero] at this
  by_contra hc
  have := hpos.2 (not_le.1 hc)
  omega

/-! ## 3. the first quotient digit of operands of opposite signs -/

/-- `RN(A / B)` (scaled) for `A`, `B` of opposite signs with `|A/B| ≥ 33` units: at most `-32` units -/
theorem rdI_le_of_opposite {A B : ℤ} (hs : (0 < A ∧ B < 0) ∨ (A < 0 ∧ 0 < B))
    (hr : 33 * |B| ≤ |A| * (unit : ℤ)) : rdI (A * (unit : ℤ)) B ≤ -32 := by
  have hU := unit_pos_int
  have hB0 : B ≠ 0 := by rcases hs with h | h <;> omega
  have he := rdI_err_gen (A * (unit : ℤ)) hB0
  rw [abs_mul, abs_of_pos hU] at he
  generalize hq : rdI (A * (unit : ℤ)) B = q at *
  rcases hs with ⟨hA, hB⟩ | ⟨hA, hB⟩
  · rw [abs_of_pos hA] at hr he
    rw [abs_of_neg hB] at hr he
    have h1 := neg_abs_le (q * B - A * (unit : ℤ))
    have key : (-32) * B ≤ q * B := by
      generalize q * B = X at *
      generalize A * (unit : ℤ) = P at *
      generalize |X - P| = E at *
      omega
    by_contra hc
    have hq' : -32 < q := by omega
    have := mul_lt_mul_of_neg_right hq' hB
    omega
  · rw [abs_of_neg hA] at hr he
    rw [abs_of_pos hB] at hr he
    have h1 := le_abs_self (q * B - A * (unit : ℤ))
    have key : q * B ≤ (-32) * B := by
      have e : -A * (unit : ℤ) = -(A * (unit : ℤ)) := by ring
      rw [e] at hr he
      generalize q * B = X at *
      generalize A * (unit : ℤ) = P at *
      generalize |X - P| = E at *
      omega
    have := le_of_mul_le_mul_right key hB
    omega

/-- the first quotient digit, `F64` level -/
theorem q1_le_of_opposite {a b : F64} (fa : a.is_finite = true) (fb : b.is_finite = true)
    (hs : (0 < a.toInt ∧ b.toInt < 0) ∨ (a.toInt < 0 ∧ 0 < b.toInt))
    (hr : 33 * |b.toInt| ≤ |a.toInt| * (unit : ℤ)) (fq : (F64.div a b).is_finite = true) :
    (F64.div a b).toInt ≤ -32 := by
  have hb0 : b.toInt ≠ 0 := by rcases hs with h | h <;> omega
  rw [div_spec_of_finite fa fb hb0 fq]
  exact rdI_le_of_opposite hs hr

theorem q1_finite_of_div_hi_finite {a b : TwoFloat}
    (h : (arithmetic.impl_Div_rTwoFloat_for_rTwoFloat.div a b).hi.is_finite = true) :
    (F64.div a.hi b.hi).is_finite = true := by
  rw [div_tt_eq, renorm3_eq', fast_two_sum_eq] at h
  simp only at h
  obtain ⟨fs, -⟩ := is_finite_of_add h
  rw [fast_two_sum_eq] at fs
  simp only at fs
  rw [fast_two_sum_eq (F64.div a.hi b.hi)] at fs
  simp only at fs
  obtain ⟨-, fuh⟩ := is_finite_of_add fs
  exact (is_finite_of_add fuh).1

/-- **a valid quotient of operands of opposite signs with `|a.hi / b.hi| ≥ 33` units is non-positive** -/
theorem div_tt_nonpos_of_signs {a b : TwoFloat} (ha : a.Valid) (hwa : a.WF) (hb : b.Valid) (hwb : b.WF)
    (hQ : (arithmetic.impl_Div_rTwoFloat_for_rTwoFloat.div a b).Valid)
    (hs : (0 < a.hi.toInt ∧ b.hi.toInt < 0) ∨ (a.hi.toInt < 0 ∧ 0 < b.hi.toInt))
    (hr : 33 * |b.hi.toInt| ≤ |a.hi.toInt| * (unit : ℤ)) :
    (arithmetic.impl_Div_rTwoFloat_for_rTwoFloat.div a b).V ≤ 0 :=
  div_tt_V_nonpos ha hwa hb hwb hQ
    (q1_le_of_opposite ha.1 hb.1 hs hr (q1_finite_of_div_hi_finite hQ.1))

/-! ## 4. `1.0 + x` and `1.0 - x` for huge `x` -/

/-- integer core of `one_add_huge`: `S = RN(a + U)`, `v = RN(l + (a + U - S))`, `H = RN(S + v)` -/
theorem one_add_huge_int {a l S v H : ℤ} (hl : 2 ^ 53 * |l| ≤ |a|) (hbig : 2 ^ 2000 ≤ |a|)
    (eS : 2 ^ 53 * |S - (a + 2 ^ 1074)| ≤ |a + 2 ^ 1074|)
    (ev : |v| ≤ 2 * |l + (a + 2 ^ 1074 - S)|)
    (eH : 2 ^ 53 * |H - (S + v)| ≤ |S + v|) :
    (0 < a → a ≤ 2 * H ∧ H ≤ 2 * a) ∧ (a < 0 → 2 * H ≤ a ∧ 2 * a ≤ H) := by
  have t1 := abs_add_le l (a + 2 ^ 1074 - S)
  have t2 : |a + 2 ^ 1074 - S| = |S - (a + 2 ^ 1074)| := abs_sub_comm _ _
  have t3 := abs_le.1 (le_refl |S - (a + 2 ^ 1074)|)
  have t4 := abs_le.1 (le_refl |v|)
  have t5 := abs_le.1 (le_refl |H - (S + v)|)
  have n1 := abs_nonneg l
  constructor
  · intro h0
    rw [abs_of_pos h0] at hl hbig
    rw [abs_of_pos (by omega : 0 < a + 2 ^ 1074)] at eS
    have hSv : 0 < S + v := by
      generalize |S - (a + 2 ^ 1074)| = e1 at *
      generalize |l + (a + 2 ^ 1074 - S)| = e2 at *
      generalize |a + 2 ^ 1074 - S| = e3 at *
      generalize |v| = e4 at *
      generalize |l| = e5 at *
      omega
    rw [abs_of_pos hSv] at eH
    generalize |S - (a + 2 ^ 1074)| = e1 at *
    generalize |l + (a + 2 ^ 1074 - S)| = e2 at *
    generalize |a + 2 ^ 1074 - S| = e3 at *
    generalize |v| = e4 at *
    generalize |l| = e5 at *
    generalize |H - (S + v)| = e6 at *
    omega
  · intro h0
    rw [abs_of_neg h0] at hl hbig
    rw [abs_of_neg (by omega : a + 2 ^ 1074 < 0)] at eS
    have hSv : S + v < 0 := by
      generalize |S - (a + 2 ^ 1074)| = e1 at *
      generalize |l + (a + 2 ^ 1074 - S)| = e2 at *
      generalize |a + 2 ^ 1074 - S| = e3 at *
      generalize |v| = e4 at *
      generalize |l| = e5 at *
      omega
    rw [abs_of_neg hSv] at eH
    generalize |S - (a + 2 ^ 1074)| = e1 at *
    generalize |l + (a + 2 ^ 1074 - S)| = e2 at *
    generalize |a + 2 ^ 1074 - S| = e3 at *
    generalize |v| = e4 at *
    generalize |l| = e5 at *
    generalize |H - (S + v)| = e6 at *
    omega

/-- **`1.0 + x` for a huge valid `x`** (`|x.hi| ≥ 2^926`, no upper limit), given only that the high word of the result is
finite: it has the sign of `x` and lies between `|x.hi|/2` and `2|x.hi|` -/
theorem one_add_huge {x : TwoFloat} (hv : x.Valid) (hw : x.WF) (hbig : 2 ^ 2000 ≤ |x.hi.toInt|)
    (hf : (arithmetic.impl_Add_rTwoFloat_for_rf64.add (f64lit 0x3ff0000000000000) x).hi.is_finite = true) :
    (0 < x.hi.toInt → x.hi.toInt ≤ 2 * (arithmetic.impl_Add_rTwoFloat_for_rf64.add
        (f64lit 0x3ff0000000000000) x).hi.toInt ∧
      (arithmetic.impl_Add_rTwoFloat_for_rf64.add (f64lit 0x3ff0000000000000) x).hi.toInt ≤ 2 * x.hi.toInt) ∧
    (x.hi.toInt < 0 → 2 * (arithmetic.impl_Add_rTwoFloat_for_rf64.add
        (f64lit 0x3ff0000000000000) x).hi.toInt ≤ x.hi.toInt ∧
      2 * x.hi.toInt ≤ (arithmetic.impl_Add_rTwoFloat_for_rf64.add (f64lit 0x3ff0000000000000) x).hi.toInt) := by
  have e0 : arithmetic.impl_Add_rTwoFloat_for_rf64.add (f64lit 0x3ff0000000000000) x
      = arithmetic.fast_two_sum (TwoFloat.new_add x.hi (f64lit 0x3ff0000000000000)).hi
          (F64.add x.lo (TwoFloat.new_add x.hi (f64lit 0x3ff0000000000000)).lo) := rfl
  rw [e0, fast_two_sum_eq] at hf ⊢
  simp only at hf ⊢
  obtain ⟨fsh, fv⟩ := is_finite_of_add hf
  obtain ⟨-, fsl⟩ := is_finite_of_add fv
  obtain ⟨vsh, vsl⟩ := new_add_words_of_lo_finite hv.1 C01d.one_isVal.1 hw.1 C01d.one_WF fsl
  rw [C01d.one_isVal.2, C01d.unit_int_eq] at vsh vsl
  have vv := (IsVal.of_finite hv.2.1).add_of_finite vsl fv
  have vhi := vsh.add_of_finite vv hf
  rw [vhi.2]
  exact one_add_huge_int (two_pow_mul_abs_le_of_half_ulp hv.two_mul_abs_lo_le) hbig (rel_err_rnI _)
    (abs_rnI_le_two_mul _) (rel_err_rnI _)

/-- **`1.0 - x` for a huge valid `x`**, given only that the high word of the result is finite: the result is a valid
pair, has the sign of `-x` and magnitude between `|x.hi|/2` and `2|x.hi|` -/
theorem one_sub_huge {x : TwoFloat} (hv : x.Valid) (hw : x.WF) (hbig : 2 ^ 2000 ≤ |x.hi.toInt|)
    (hf : (arithmetic.impl_Sub_rTwoFloat_for_rf64.sub (f64lit 0x3ff0000000000000) x).hi.is_finite = true) :
    (0 < x.hi.toInt → 2 * (arithmetic.impl_Sub_rTwoFloat_for_rf64.sub
        (f64lit 0x3ff0000000000000) x).hi.toInt ≤ -x.hi.toInt ∧
      -(2 * x.hi.toInt) ≤ (arithmetic.impl_Sub_rTwoFloat_for_rf64.sub (f64lit 0x3ff0000000000000) x).hi.toInt) ∧
    (x.hi.toInt < 0 → -x.hi.toInt ≤ 2 * (arithmetic.impl_Sub_rTwoFloat_for_rf64.sub
        (f64lit 0x3ff0000000000000) x).hi.toInt ∧
      (arithmetic.impl_Sub_rTwoFloat_for_rf64.sub (f64lit 0x3ff0000000000000) x).hi.toInt ≤ -(2 * x.hi.toInt)) := by
  obtain ⟨-, hc⟩ := sub_ft_crude C01d.one_isVal.1 C01d.one_WF hv hw hf
  rw [C01d.one_isVal.2, C01d.unit_int_eq] at hc
  have hl := two_pow_mul_abs_le_of_half_ulp hv.two_mul_abs_lo_le
  have eV : x.V = x.hi.toInt + x.lo.toInt := rfl
  rw [eV] at hc
  generalize (arithmetic.impl_Sub_rTwoFloat_for_rf64.sub (f64lit 0x3ff0000000000000) x).hi.toInt = H at *
  generalize x.hi.toInt = a at *
  generalize x.lo.toInt = l at *
  have t5 := abs_le.1 (le_refl |H - (2 ^ 1074 + 0 - (a + l))|)
  have t6 := abs_le.1 (le_refl |l|)
  rw [abs_of_pos (by positivity : (0 : ℤ) < 2 ^ 1074)] at hc
  constructor
  · intro h0
    rw [abs_of_pos h0] at hl hbig hc
    generalize |H - (2 ^ 1074 + 0 - (a + l))| = e1 at *
    generalize |l| = e2 at *
    omega
  · intro h0
    rw [abs_of_neg h0] at hl hbig hc
    generalize |H - (2 ^ 1074 + 0 - (a + l))| = e1 at *
    generalize |l| = e2 at *
    omega

end Slivers2

/-! ## 5. `ln` up to the top of its range (`2^960`): `TwoFloat * TwoFloat`, `exp` and the Newton steps just below `2^-960`

`LnBound.ln_bound` stops at a high word of `2^960 − 2^944` because the Newton steps evaluate `exp(−x)` at `x` up to
`2^-19` above `ln v`, so that `exp(−x)` may be slightly BELOW `2^-960`, the lower limit of the proved relative bound of
`TwoFloat * TwoFloat` (`mul_tt_bound_7u2_partial`: leading product `≥ 2^-960`).  That limit is not essential: 2Prod is
exact as soon as the leading product is at least `2^-968` (`F64.mul_quot_exists` with `L ≥ 1074 + 106`), and the integer
analysis `dwtimesdw_err_7u2` still gives `7u²` when the leading product is only `≥ 2^-961` (the three half-unit rounding
errors of the low-order terms are then `2^-8 u²` each instead of `2^-9 u²`).  Below: the same chain of proofs
(`Bounds.lean` §9, `LnBound.lean` §0–§4) with the threshold `2^-961`, the names suffixed `_w`. -/

namespace LnWide

open ConstBounds ExpBound LnBound

section mulw
open F64 TwoFloat

theorem two_pow_1187 : (2 : Int) ^ 1187 = 2 ^ 113 * 2 ^ 1074 := by rw [← pow_add]

/-- `F64.dwtimesdw_err_7u2` with the lower limit `2^113` units (`2^-961`) on the leading product -/
theorem dwtimesdw_err_7u2_w {a b1 b2 z Q : Int} {U : Nat} (hU : 0 < U) (ha : a = Q * (U : Int))
    (h1 : 2 ^ 53 * |b1| ≤ |a|) (h2 : 2 ^ 53 * |b2| ≤ |a|) (hz : 2 ^ 106 * |z| ≤ |a|)
    (hlow : 2 ^ 113 * (U : Int) ≤ |a|)
    {tl0 tl1 cl2 cl3 : Int} (ht0 : tl0 = rqI z U) (ht1 : tl1 = rqI (b1 + tl0 * (U : Int)) U)
    (hc2 : cl2 = rqI (b2 + tl1 * (U : Int)) U) (hc3 : cl3 = rnI (Q - rnI Q + cl2)) :
    2 ^ 106 * |(rnI Q + cl3) * (U : Int) - (a + b1 + b2 + z)| ≤ 7 * |a + b1 + b2 + z| := by
  have hUi : (0 : Int) < (U : Int) := Int.natCast_pos.2 hU
  have d1 := rqI_err_le z hU
  have d2 := rqI_err_le (b1 + tl0 * (U : Int)) hU
  have d3 := rqI_err_le (b2 + tl1 * (U : Int)) hU
  rw [← ht0] at d1
  rw [← ht1] at d2
  rw [← hc2] at d3
  have d4 := rel_err_rnI (Q - rnI Q + cl2)
  rw [← hc3] at d4
  have hq := rel_err_rnI Q
  rw [abs_sub_comm] at hq
  -- multiply the integer-level facts by `U`
  have hA : |a| = |Q| * (U : Int) := by rw [ha, abs_mul, abs_of_pos hUi]
  have hc1U : 2 ^ 53 * (|Q - rnI Q| * (U : Int)) ≤ |a| := by
    rw [hA, ← mul_assoc]
    exact mul_le_mul_of_nonneg_right hq (le_of_lt hUi)
  have hc2U : |cl2| * (U : Int) = |cl2 * (U : Int)| := by rw [abs_mul, abs_of_pos hUi]
  have hd4U : 2 ^ 53 * (|cl3 - (Q - rnI Q + cl2)| * (U : Int))
      ≤ |Q - rnI Q| * (U : Int) + |cl2 * (U : Int)| := by
    have h := le_trans d4 (abs_add_le (Q - rnI Q) cl2)
    have := mul_le_mul_of_nonneg_right h (le_of_lt hUi)
    rw [← hc2U]
    linarith
  -- the error is the sum of the four rounding errors
  have herr : (rnI Q + cl3) * (U : Int) - (a + b1 + b2 + z)
      = -((z + -tl0 * (U : Int)) + (b1 + tl0 * (U : Int) + -tl1 * (U : Int))
          + (b2 + tl1 * (U : Int) + -cl2 * (U : Int))) + (cl3 - (Q - rnI Q + cl2)) * (U : Int) := by
    rw [ha]; ring
  have t1 := abs_add_le (-((z + -tl0 * (U : Int)) + (b1 + tl0 * (U : Int) + -tl1 * (U : Int))
          + (b2 + tl1 * (U : Int) + -cl2 * (U : Int)))) ((cl3 - (Q - rnI Q + cl2)) * (U : Int))
  rw [abs_neg, abs_mul (cl3 - (Q - rnI Q + cl2)), abs_of_pos hUi] at t1
  have t2 := abs_add_le ((z + -tl0 * (U : Int)) + (b1 + tl0 * (U : Int) + -tl1 * (U : Int)))
    (b2 + tl1 * (U : Int) + -cl2 * (U : Int))
  have t3 := abs_add_le (z + -tl0 * (U : Int)) (b1 + tl0 * (U : Int) + -tl1 * (U : Int))
  -- magnitudes of the intermediate values
  have m0 : |tl0 * (U : Int)| ≤ |z| + |z + -tl0 * (U : Int)| := by
    have := abs_add_le z (-(z + -tl0 * (U : Int)))
    rw [abs_neg] at this
    have e : z + -(z + -tl0 * (U : Int)) = tl0 * (U : Int) := by ring
    rwa [e] at this
  have n1 := abs_add_le b1 (tl0 * (U : Int))
  have m1 : |tl1 * (U : Int)| ≤ |b1 + tl0 * (U : Int)| + |b1 + tl0 * (U : Int) + -tl1 * (U : Int)| := by
    have := abs_add_le (b1 + tl0 * (U : Int)) (-(b1 + tl0 * (U : Int) + -tl1 * (U : Int)))
    rw [abs_neg] at this
    have e : b1 + tl0 * (U : Int) + -(b1 + tl0 * (U : Int) + -tl1 * (U : Int)) = tl1 * (U : Int) := by ring
    rwa [e] at this
  have n2 := abs_add_le b2 (tl1 * (U : Int))
  have m2 : |cl2 * (U : Int)| ≤ |b2 + tl1 * (U : Int)| + |b2 + tl1 * (U : Int) + -cl2 * (U : Int)| := by
    have := abs_add_le (b2 + tl1 * (U : Int)) (-(b2 + tl1 * (U : Int) + -cl2 * (U : Int)))
    rw [abs_neg] at this
    have e : b2 + tl1 * (U : Int) + -(b2 + tl1 * (U : Int) + -cl2 * (U : Int)) = cl2 * (U : Int) := by ring
    rwa [e] at this
  -- the exact product from below
  have hP : |a| ≤ |a + b1 + b2 + z| + |b1| + |b2| + |z| := by
    have p1 := abs_add_le (a + b1 + b2 + z) (-z)
    have p2 := abs_add_le (a + b1 + b2) (-b2)
    have p3 := abs_add_le (a + b1) (-b1)
    rw [abs_neg] at p1 p2 p3
    have e1 : a + b1 + b2 + z + -z = a + b1 + b2 := by ring
    have e2 : a + b1 + b2 + -b2 = a + b1 := by ring
    have e3 : a + b1 + -b1 = a := by ring
    rw [e1] at p1; rw [e2] at p2; rw [e3] at p3
    omega
  rw [herr]
  generalize |z + -tl0 * (U : Int)| = D1 at *
  generalize |b1 + tl0 * (U : Int) + -tl1 * (U : Int)| = D2 at *
  generalize |b2 + tl1 * (U : Int) + -cl2 * (U : Int)| = D3 at *
  generalize |cl3 - (Q - rnI Q + cl2)| * (U : Int) = D4 at *
  generalize |Q - rnI Q| * (U : Int) = C1 at *
  omega

/-- the zero case included -/
theorem dwtimesdw_err_7u2_w' {a b1 b2 z Q : Int} {U : Nat} (hU : 0 < U) (ha : a = Q * (U : Int))
    (h1 : 2 ^ 53 * |b1| ≤ |a|) (h2 : 2 ^ 53 * |b2| ≤ |a|) (hz : 2 ^ 106 * |z| ≤ |a|)
    (hlow : a = 0 ∨ 2 ^ 113 * (U : Int) ≤ |a|)
    {tl0 tl1 cl2 cl3 : Int} (ht0 : tl0 = rqI z U) (ht1 : tl1 = rqI (b1 + tl0 * (U : Int)) U)
    (hc2 : cl2 = rqI (b2 + tl1 * (U : Int)) U) (hc3 : cl3 = rnI (Q - rnI Q + cl2)) :
    2 ^ 106 * |(rnI Q + cl3) * (U : Int) - (a + b1 + b2 + z)| ≤ 7 * |a + b1 + b2 + z| := by
  rcases hlow with h0 | hlow
  · have hUi : (0 : Int) < (U : Int) := Int.natCast_pos.2 hU
    rw [h0, abs_zero] at h1 h2 hz
    have e1 : b1 = 0 := abs_eq_zero.1 (by have := abs_nonneg b1; omega)
    have e2 : b2 = 0 := abs_eq_zero.1 (by have := abs_nonneg b2; omega)
    have e3 : z = 0 := abs_eq_zero.1 (by have := abs_nonneg z; omega)
    have eQ : Q = 0 := by
      rw [h0] at ha
      rcases mul_eq_zero.1 ha.symm with h | h
      · exact h
      · omega
    subst e1 e2 e3 eQ
    rw [rqI_zero] at ht0
    subst ht0
    rw [zero_mul, add_zero, rqI_zero] at ht1
    subst ht1
    rw [zero_mul, add_zero, rqI_zero] at hc2
    subst hc2
    rw [rnI_zero, sub_zero, add_zero, rnI_zero] at hc3
    subst hc3
    rw [h0]; simp
  · exact dwtimesdw_err_7u2_w hU ha h1 h2 hz hlow ht0 ht1 hc2 hc3

/-- 2Prod, word level (`F64.new_mul_words`), exact product `0` or in `[2^-961, 2^1023)` -/
theorem new_mul_words_w {a b : F64} (ha : a.is_finite = true) (hb : b.is_finite = true)
    (hwa : a.WF) (hwb : b.WF)
    (h : a.toInt * b.toInt = 0 ∨
      ((2 : Int) ^ 1187 ≤ |a.toInt * b.toInt| ∧ |a.toInt * b.toInt| < (2 : Int) ^ 3171)) :
    ∃ Q : Int, a.toInt * b.toInt = Q * (unit : Int) ∧
      IsVal (TwoFloat.new_mul a b).hi (rnI Q) ∧ IsVal (TwoFloat.new_mul a b).lo (Q - rnI Q) := by
  rcases h with h0 | ⟨hlo, hhi⟩
  · refine ⟨0, by rw [h0, Int.zero_mul], ?_⟩
    exact new_mul_words_of ha hb (by rw [h0, Int.zero_mul])
      (by rw [Int.natAbs_zero, rn53_zero]; exact Nat.zero_le _) (by simpa using repI_zero)
  · have hN : (a.toInt * b.toInt).natAbs = a.toInt.natAbs * b.toInt.natAbs := Int.natAbs_mul _ _
    have hlo' : 2 ^ 1187 ≤ a.toInt.natAbs * b.toInt.natAbs := by
      rw [← hN]; rw [← Int.natCast_natAbs] at hlo; exact_mod_cast hlo
    have hhi' : a.toInt.natAbs * b.toInt.natAbs < 2 ^ 3171 := by
      rw [← hN]; rw [← Int.natCast_natAbs] at hhi; exact_mod_cast hhi
    obtain ⟨Q0, k, hQ0, hd, hlt⟩ :=
      mul_quot_exists (U := 1074) (L := 1187) hwa.repI hwb.repI (by norm_num) hlo'
    have hP0 : a.toInt * b.toInt ≠ 0 := by
      intro h0
      rw [h0, abs_zero] at hlo
      have : (0 : Int) < 2 ^ 1187 := by positivity
      omega
    have hQ : a.toInt * b.toInt = (Int.sign (a.toInt * b.toInt) * (Q0 : Int)) * (unit : Int) := by
      rw [← unit_eq] at hQ0
      conv_lhs => rw [← Int.sign_mul_natAbs (a.toInt * b.toInt), hN, hQ0]
      push_cast; ring
    have hQabs : (Int.sign (a.toInt * b.toInt) * (Q0 : Int)).natAbs = Q0 := by
      rw [Int.natAbs_mul, Int.natAbs_sign_of_ne_zero hP0, Nat.one_mul, Int.natAbs_natCast]
    have hQlt : Q0 < 2 ^ 2097 := by
      have e : (2 : Nat) ^ 3171 = 2 ^ 2097 * 2 ^ 1074 := by rw [← Nat.pow_add]
      rw [hQ0, e] at hhi'
      exact Nat.lt_of_mul_lt_mul_right hhi'
    refine ⟨_, hQ, new_mul_words_of ha hb hQ ?_ ?_⟩
    · rw [hQabs]
      exact Nat.le_trans (rn53_le_pow (Nat.le_of_lt hQlt)) two_pow_2097_le_maxFin
    · apply repI_sub_rnI_of_dvd (k := k)
      · rw [hQabs]; exact hd
      · rw [hQabs]; exact hlt

/-- `TwoFloat.mul_tt_values`, leading product `0` or in `[2^-961, 2^1021)` -/
theorem mul_tt_values_w {x y : TwoFloat} (hvx : x.Valid) (hwx : x.WF) (hvy : y.Valid) (hwy : y.WF)
    (hr : x.hi.toInt * y.hi.toInt = 0 ∨
      ((2 : Int) ^ 1187 ≤ |x.hi.toInt * y.hi.toInt| ∧ |x.hi.toInt * y.hi.toInt| < (2 : Int) ^ 3169)) :
    ∃ Q : Int, x.hi.toInt * y.hi.toInt = Q * (unit : Int) ∧
      (arithmetic.impl_Mul_rTwoFloat_for_rTwoFloat.mul x y).Valid ∧
      (arithmetic.impl_Mul_rTwoFloat_for_rTwoFloat.mul x y).V
        = rnI Q + rnI (Q - rnI Q + rqI (x.lo.toInt * y.hi.toInt
            + rqI (x.hi.toInt * y.lo.toInt + rqI (x.lo.toInt * y.lo.toInt) unit * (unit : Int)) unit
              * (unit : Int)) unit) := by
  rw [mul_tt_eq]
  have hr' : x.hi.toInt * y.hi.toInt = 0 ∨
      ((2 : Int) ^ 1187 ≤ |x.hi.toInt * y.hi.toInt| ∧ |x.hi.toInt * y.hi.toInt| < (2 : Int) ^ 3171) := by
    rcases hr with h | ⟨h1, h2⟩
    · exact Or.inl h
    · exact Or.inr ⟨h1, lt_trans h2 (pow_lt_pow_right₀ (by norm_num) (by norm_num))⟩
  obtain ⟨Q, hQ, wh, wl⟩ := new_mul_words_w hvx.1 hvy.1 hwx.1 hwy.1 hr'
  refine ⟨Q, hQ, ?_⟩
  have hUi : (0 : Int) < (unit : Int) := Int.natCast_pos.2 unit_pos
  have mx := abs_lo_le_of_half_ulp hvx.two_mul_abs_lo_le
  have my := abs_lo_le_of_half_ulp hvy.two_mul_abs_lo_le
  -- the cross terms
  have h1 : 2 ^ 53 * |x.hi.toInt * y.lo.toInt| ≤ |x.hi.toInt * y.hi.toInt| := by
    rw [abs_mul, abs_mul, mul_left_comm]
    exact mul_le_mul_of_nonneg_left my (abs_nonneg _)
  have h2 : 2 ^ 53 * |x.lo.toInt * y.hi.toInt| ≤ |x.hi.toInt * y.hi.toInt| := by
    rw [abs_mul, abs_mul, ← mul_assoc]
    exact mul_le_mul_of_nonneg_right mx (abs_nonneg _)
  have hz : 2 ^ 106 * |x.lo.toInt * y.lo.toInt| ≤ |x.hi.toInt * y.hi.toInt| := by
    rw [abs_mul, abs_mul]
    have := mul_le_mul mx my (by positivity) (abs_nonneg _)
    have e : (2 : Int) ^ 53 * |x.lo.toInt| * (2 ^ 53 * |y.lo.toInt|)
        = 2 ^ 106 * (|x.lo.toInt| * |y.lo.toInt|) := by ring
    rwa [e] at this
  -- the magnitude of the leading product
  have hAlt : |x.hi.toInt * y.hi.toInt| < 2 ^ 2095 * (unit : Int) := by
    rcases hr with h | ⟨_, h⟩
    · rw [h, abs_zero]; positivity
    · rwa [two_pow_3169, ← unit_cast_eq] at h
  have hQlt : |Q| < 2 ^ 2095 := by
    rw [hQ, abs_mul, abs_of_pos hUi] at hAlt
    exact lt_of_mul_lt_mul_right hAlt (le_of_lt hUi)
  have e2097 : (2 : Int) ^ 2097 * (unit : Int) = 4 * (2 ^ 2095 * (unit : Int)) := by
    rw [two_pow_2097]; ring
  -- `tl0`
  have b0 := abs_rqI_mul_le (x.lo.toInt * y.lo.toInt) unit_pos
  have v0 := mul_spec hvx.2.1 hvy.2.1 (roundQ_natAbs_le_maxFin (by rw [e2097]; have := abs_nonneg (x.lo.toInt * y.lo.toInt); omega))
  -- `tl1`
  have n1 := abs_add_le (x.hi.toInt * y.lo.toInt) (rqI (x.lo.toInt * y.lo.toInt) unit * (unit : Int))
  have b1 := abs_rqI_mul_le (x.hi.toInt * y.lo.toInt + rqI (x.lo.toInt * y.lo.toInt) unit * (unit : Int)) unit_pos
  have v1 := fma_spec hvx.1 hvy.2.1 v0.1 (by
    rw [v0.2]; exact roundQ_natAbs_le_maxFin (by
      rw [e2097]; have := abs_nonneg (x.lo.toInt * y.lo.toInt); have := abs_nonneg (x.hi.toInt * y.lo.toInt); omega))
  rw [v0.2] at v1
  generalize htl0 : rqI (x.lo.toInt * y.lo.toInt) unit = tl0 at *
  -- `cl2`
  have n2 := abs_add_le (x.lo.toInt * y.hi.toInt) (rqI (x.hi.toInt * y.lo.toInt + tl0 * (unit : Int)) unit * (unit : Int))
  have b2 := abs_rqI_mul_le (x.lo.toInt * y.hi.toInt
    + rqI (x.hi.toInt * y.lo.toInt + tl0 * (unit : Int)) unit * (unit : Int)) unit_pos
  have pz := abs_nonneg (x.lo.toInt * y.lo.toInt)
  have pb1 := abs_nonneg (x.hi.toInt * y.lo.toInt)
  have pb2 := abs_nonneg (x.lo.toInt * y.hi.toInt)
  have v2 := fma_spec hvx.2.1 hvy.1 v1.1 (by
    rw [v1.2]; exact roundQ_natAbs_le_maxFin (by rw [e2097]; omega))
  rw [v1.2] at v2
  generalize htl1 : rqI (x.hi.toInt * y.lo.toInt + tl0 * (unit : Int)) unit = tl1 at *
  generalize hcl2 : rqI (x.lo.toInt * y.hi.toInt + tl1 * (unit : Int)) unit = cl2 at *
  -- `|cl2| ≤ 2^-49 |Q|`, `|cl1| ≤ 2^-53 |Q|`
  have hcl2Q : 2 ^ 49 * |cl2| ≤ |Q| := by
    have h : 2 ^ 49 * |cl2| * (unit : Int) ≤ |Q| * (unit : Int) := by
      have e : 2 ^ 49 * |cl2| * (unit : Int) = 2 ^ 49 * |cl2 * (unit : Int)| := by
        rw [abs_mul, abs_of_pos hUi]; ring
      rw [e, ← abs_of_pos hUi, ← abs_mul, ← hQ, abs_of_pos hUi]
      omega
    exact le_of_mul_le_mul_right h hUi
  have hcl1Q := rel_err_rnI Q
  rw [abs_sub_comm] at hcl1Q
  have hQ2 : |Q| ≤ 2 * |rnI Q| := by
    rw [abs_rnI, ← Int.natCast_natAbs Q]
    have := le_two_mul_rn53 Q.natAbs
    exact_mod_cast this
  have n3 := abs_add_le (Q - rnI Q) cl2
  -- `cl3`
  have v3 := wl.add ⟨v2.1, v2.2⟩ (le_trans (by omega) two_pow_2097_le_maxFin_int)
  have hab : |(F64.add (TwoFloat.new_mul x.hi y.hi).lo
      (F64.fma x.lo y.hi (F64.fma x.hi y.lo (F64.mul x.lo y.lo)))).toInt|
      ≤ |(TwoFloat.new_mul x.hi y.hi).hi.toInt| := by
    rw [v3.2, wh.2]
    exact abs_rnI_le (repI_rnI Q) (by have := abs_nonneg Q; linarith)
  have mch : |rnI Q| ≤ 2 ^ 2095 := F64.abs_rnI_le_pow (le_of_lt hQlt)
  have hov : rn53 ((TwoFloat.new_mul x.hi y.hi).hi.toInt + (F64.add (TwoFloat.new_mul x.hi y.hi).lo
      (F64.fma x.lo y.hi (F64.fma x.hi y.lo (F64.mul x.lo y.lo)))).toInt).natAbs ≤ maxFin := by
    apply rn53_natAbs_le_of_abs_le_2097
    have := abs_add_le (TwoFloat.new_mul x.hi y.hi).hi.toInt (F64.add (TwoFloat.new_mul x.hi y.hi).lo
      (F64.fma x.lo y.hi (F64.fma x.hi y.lo (F64.mul x.lo y.lo)))).toInt
    rw [wh.2] at hab this ⊢
    rw [two_pow_2097]
    omega
  have key := fast_two_sum_spec wh.1 v3.1 (new_mul_WF _ _).1 (add_WF _ _) hab hov
  refine ⟨key.2.2.1, ?_⟩
  rw [key.2.1, wh.2, v3.2]



/-- **`TwoFloat * TwoFloat`, relative error `7u²`, leading product `0` or in `[2^-961, 2^1021)`** -/
theorem mul_tt_bound_7u2_w {x y : TwoFloat} (hvx : x.Valid) (hwx : x.WF) (hvy : y.Valid) (hwy : y.WF)
    (hr : x.hi.toInt * y.hi.toInt = 0 ∨
      ((2 : Int) ^ 1187 ≤ |x.hi.toInt * y.hi.toInt| ∧ |x.hi.toInt * y.hi.toInt| < (2 : Int) ^ 3169)) :
    (arithmetic.impl_Mul_rTwoFloat_for_rTwoFloat.mul x y).Valid ∧
    |(arithmetic.impl_Mul_rTwoFloat_for_rTwoFloat.mul x y).V * (unit : Int) - x.V * y.V| * 2 ^ 106
      ≤ 7 * |x.V * y.V| := by
  obtain ⟨Q, hQ, hV, hval⟩ := mul_tt_values_w hvx hwx hvy hwy hr
  refine ⟨hV, ?_⟩
  rw [hval]
  obtain ⟨h1, h2, hz⟩ := cross_bounds hvx hvy
  have hlow : x.hi.toInt * y.hi.toInt = 0 ∨ 2 ^ 113 * (unit : Int) ≤ |x.hi.toInt * y.hi.toInt| := by
    rcases hr with h | ⟨h, _⟩
    · exact Or.inl h
    · right; rwa [two_pow_1187, ← unit_cast_eq] at h
  have h := dwtimesdw_err_7u2_w' unit_pos hQ h1 h2 hz hlow rfl rfl rfl rfl
  have eP : x.V * y.V = x.hi.toInt * y.hi.toInt + x.hi.toInt * y.lo.toInt + x.lo.toInt * y.hi.toInt
      + x.lo.toInt * y.lo.toInt := by unfold TwoFloat.V; ring
  rw [eP, mul_comm _ ((2 : Int) ^ 106)]
  exact h

/-- **`TwoFloat * TwoFloat`, purely relative**: product of magnitude in `[2^-961·(1 + 2^-41), 2^1019]` -/
theorem mul_rv_rel_w {x y : TwoFloat} (hx : VW x) (hy : VW y)
    (hlo : (1 + 1 / 2 ^ 41) / 2 ^ 961 ≤ |rv x * rv y|)
    (hhi : |rv x * rv y| ≤ 2 ^ 1019) :
    VW (arithmetic.impl_Mul_TwoFloat_for_TwoFloat.mul x y) ∧
    |rv (arithmetic.impl_Mul_TwoFloat_for_TwoFloat.mul x y) - rv x * rv y| ≤ 7 / 2 ^ 106 * |rv x * rv y| := by
  show VW (arithmetic.impl_Mul_rTwoFloat_for_rTwoFloat.mul x y) ∧
    |rv (arithmetic.impl_Mul_rTwoFloat_for_rTwoFloat.mul x y) - rv x * rv y| ≤ 7 / 2 ^ 106 * |rv x * rv y|
  obtain ⟨bx1, bx2⟩ := PowiBound.hi_bounds hx.1
  obtain ⟨by1, by2⟩ := PowiBound.hi_bounds hy.1
  have hU : (0 : ℝ) < 2 ^ 1074 := by positivity
  have eprod : rv x * rv y = ((x.V * y.V : ℤ) : ℝ) / (2 ^ 1074 * 2 ^ 1074) := by
    unfold rv; push_cast; field_simp
  have hVV : |x.V * y.V| ≤ (2 : ℤ) ^ 3167 := by
    rw [eprod, abs_div, abs_of_pos (by positivity : (0 : ℝ) < 2 ^ 1074 * 2 ^ 1074), div_le_iff₀ (by positivity),
      ← Int.cast_abs] at hhi
    have e : (2 : ℝ) ^ 1019 * (2 ^ 1074 * 2 ^ 1074) = 2 ^ 3167 := by rw [← pow_add, ← pow_add]
    rw [e] at hhi
    exact_mod_cast hhi
  have hVVlo : ((2 : ℤ) ^ 41 + 1) * 2 ^ 1146 ≤ |x.V * y.V| := by
    rw [eprod, abs_div, abs_of_pos (by positivity : (0 : ℝ) < 2 ^ 1074 * 2 ^ 1074), le_div_iff₀ (by positivity),
      ← Int.cast_abs] at hlo
    have e : (1 + 1 / 2 ^ 41 : ℝ) / 2 ^ 961 * (2 ^ 1074 * 2 ^ 1074) = (2 ^ 41 + 1) * 2 ^ 1146 := by
      have a : (2 : ℝ) ^ 1074 * 2 ^ 1074 = 2 ^ 961 * (2 ^ 41 * 2 ^ 1146) := by rw [← pow_add, ← pow_add, ← pow_add]
      rw [a]; field_simp
    rw [e] at hlo
    exact_mod_cast hlo
  have pX := abs_nonneg x.hi.toInt
  have pY := abs_nonneg y.hi.toInt
  have pVx := abs_nonneg x.V
  have pVy := abs_nonneg y.V
  have u1 : (2 ^ 53 * |x.V|) * (2 ^ 53 * |y.V|) ≤ ((2 ^ 53 + 1) * |x.hi.toInt|) * ((2 ^ 53 + 1) * |y.hi.toInt|) :=
    mul_le_mul bx2 by2 (by positivity) (by positivity)
  have u2 : ((2 ^ 53 - 1) * |x.hi.toInt|) * ((2 ^ 53 - 1) * |y.hi.toInt|) ≤ (2 ^ 53 * |x.V|) * (2 ^ 53 * |y.V|) :=
    mul_le_mul bx1 by1 (by positivity) (by positivity)
  have e1 : (2 ^ 53 * |x.V|) * (2 ^ 53 * |y.V|) = 2 ^ 106 * |x.V * y.V| := by rw [abs_mul]; ring
  have e2 : ((2 ^ 53 + 1) * |x.hi.toInt|) * ((2 ^ 53 + 1) * |y.hi.toInt|)
      = (2 ^ 53 + 1) ^ 2 * |x.hi.toInt * y.hi.toInt| := by rw [abs_mul]; ring
  have e3 : ((2 ^ 53 - 1) * |x.hi.toInt|) * ((2 ^ 53 - 1) * |y.hi.toInt|)
      = (2 ^ 53 - 1) ^ 2 * |x.hi.toInt * y.hi.toInt| := by rw [abs_mul]; ring
  rw [e1, e2] at u1
  rw [e1, e3] at u2
  have hbig : (2 : ℤ) ^ 1187 ≤ |x.hi.toInt * y.hi.toInt| := by
    have k : (2 : ℤ) ^ 1187 = 2 ^ 41 * 2 ^ 1146 := by rw [← pow_add]
    rw [k]
    have hS : (0 : ℤ) < 2 ^ 1146 := by positivity
    generalize (2 : ℤ) ^ 1147 = S at *
    generalize |x.hi.toInt * y.hi.toInt| = AB at *
    generalize |x.V * y.V| = PR at *
    norm_num at u1 hVVlo ⊢
    linarith
  have hlt : |x.hi.toInt * y.hi.toInt| < (2 : ℤ) ^ 3169 := by
    have k2 : (2 : ℤ) ^ 3169 = 4 * 2 ^ 3167 := by norm_num
    rw [k2]
    generalize (2 : ℤ) ^ 3167 = S at *
    generalize |x.hi.toInt * y.hi.toInt| = AB at *
    generalize |x.V * y.V| = PR at *
    norm_num at u2 ⊢
    linarith
  obtain ⟨hV, hb⟩ := mul_tt_bound_7u2_w hx.1 hx.2 hy.1 hy.2 (Or.inr ⟨hbig, hlt⟩)
  refine ⟨⟨hV, TwoFloat.mul_tt_WF x y⟩, ?_⟩
  generalize arithmetic.impl_Mul_rTwoFloat_for_rTwoFloat.mul x y = R at *
  rw [unit_cast_eq] at hb
  have hq : |(R.V : ℝ) * 2 ^ 1074 - x.V * y.V| * 2 ^ 106 ≤ 7 * |(x.V : ℝ) * y.V| := by
    exact_mod_cast hb
  have e4 : rv R - rv x * rv y = ((R.V : ℝ) * 2 ^ 1074 - x.V * y.V) / (2 ^ 1074 * 2 ^ 1074) := by
    unfold rv; field_simp
  have e5 : rv x * rv y = ((x.V : ℝ) * y.V) / (2 ^ 1074 * 2 ^ 1074) := by unfold rv; field_simp
  rw [e4, e5, abs_div, abs_div, abs_of_pos (by positivity : (0 : ℝ) < 2 ^ 1074 * 2 ^ 1074), ← mul_div_assoc,
    div_le_div_iff_of_pos_right (by positivity), div_mul_eq_mul_div, le_div_iff₀ (by positivity)]
  exact hq

end mulw

section expw
open F64 TwoFloat

/-- `LnBound.exp_bound_k` down to `e^x ≥ 2^-961·(1 + 2^-40)` -/
theorem exp_bound_k_w (x : TwoFloat) (hv : x.Valid) (hw : x.WF) (hlo : -666 ≤ rv x) (hhi : rv x ≤ 700)
    (hprod : (1 + 1 / 2 ^ 40) / 2 ^ 961 ≤ Real.exp (rv x)) :
    VW (TwoFloat.exp x) ∧ ∃ k : ℤ, -1332 ≤ k ∧ k ≤ 1400 ∧ |rv x - (k : ℝ) / 2| ≤ 2501 / 10000 ∧
      ∀ β ε : ℝ, |rv (explog.exp_half (⟨k⟩ : I32)) - Real.exp ((k : ℝ) / 2)| ≤ β * Real.exp ((k : ℝ) / 2) →
        (52 / 10 / 2 ^ 106 + β + 52 / 10 / 2 ^ 106 * β)
          + 7 / 2 ^ 106 * (1 + (52 / 10 / 2 ^ 106 + β + 52 / 10 / 2 ^ 106 * β)) ≤ ε →
        |rv (TwoFloat.exp x) - Real.exp (rv x)| ≤ ε * Real.exp (rv x) := by
  have hU : (0 : ℝ) < 2 ^ 1074 := by positivity
  -- the high word is inside (−709, 709)
  have hVabs : |x.V| ≤ 700 * 2 ^ 1074 := by
    have h1 : |rv x| ≤ 700 := abs_le.2 ⟨by linarith, hhi⟩
    rw [rv_abs, div_le_iff₀ hU] at h1
    exact_mod_cast h1
  obtain ⟨b1, _⟩ := PowiBound.hi_bounds hv
  have hhiabs : |x.hi.toInt| < 709 * (F64.unit : ℤ) := by
    rw [unit_cast_eq]
    have hT : (0 : ℤ) < 2 ^ 1074 := by positivity
    generalize (2 : ℤ) ^ 1074 = T at *
    have : (0 : ℤ) ≤ |x.hi.toInt| := abs_nonneg _
    norm_num at b1
    omega
  obtain ⟨hl, hh⟩ := abs_lt.1 hhiabs
  have hl' : -(709 * (F64.unit : Int)) < x.hi.toInt := by linarith
  unfold TwoFloat.exp
  split_ifs with c1 c2 c3 c4
  · exfalso
    rw [PF.rle_eq, PF.EXP_LOWER_val, le_iff_toInt hv.1 rfl] at c1
    have : (fin true (709 * F64.unit)).toInt = -(709 * (F64.unit : Int)) := by
      show -((709 * F64.unit : Nat) : Int) = _; push_cast; rfl
    rw [this] at c1; omega
  · exfalso
    rw [PF.rge_eq', PF.EXP_UPPER_val, ge_iff_toInt hv.1 rfl] at c2
    have : (fin false (709 * F64.unit)).toInt = 709 * (F64.unit : Int) := by
      show ((709 * F64.unit : Nat) : Int) = _; push_cast; rfl
    rw [this] at c2; omega
  · -- x.hi = ±0, hence x = 0
    have h0 : x.hi.toInt = 0 := by
      rcases Ident.f64_eq_zero_cases _ c3 with e | e <;> rw [e] <;> rfl
    have hl0 : x.lo.toInt = 0 := by
      have := hv.abs_lo_le
      rw [h0, abs_zero] at this
      exact abs_eq_zero.1 (le_antisymm this (abs_nonneg _))
    have hx0 : rv x = 0 := by unfold rv TwoFloat.V; rw [h0, hl0]; simp
    have h1 : (convert.impl_From_f64_for_TwoFloat.from (f64lit 0x3ff0000000000000)).Valid := by decide +kernel
    have h2 : (convert.impl_From_f64_for_TwoFloat.from (f64lit 0x3ff0000000000000)).WF := by decide +kernel
    have h3 : (convert.impl_From_f64_for_TwoFloat.from (f64lit 0x3ff0000000000000)).V = (2 : ℤ) ^ 1074 := by
      decide +kernel
    refine ⟨⟨h1, h2⟩, ?_⟩
    have : rv (convert.impl_From_f64_for_TwoFloat.from (f64lit 0x3ff0000000000000)) = 1 := by
      unfold rv; rw [h3]
      simp only [Int.cast_pow, Int.cast_ofNat]
      exact div_self (by positivity : ((2 : ℝ) ^ 1074) ≠ 0)
    refine ⟨0, by norm_num, by norm_num, by rw [hx0]; norm_num, ?_⟩
    intro β ε hβ hε
    rw [this, hx0, Real.exp_zero]
    have hβ0 : 0 ≤ β := by
      have h1 := le_trans (abs_nonneg _) hβ
      have h2 := Real.exp_pos (((0 : ℤ) : ℝ) / 2)
      by_contra hc
      have : β * Real.exp (((0 : ℤ) : ℝ) / 2) < 0 := mul_neg_of_neg_of_pos (not_le.1 hc) h2
      linarith
    have : (0 : ℝ) ≤ ε := by
      have : (0:ℝ) ≤ 52 / 10 / 2 ^ 106 * β := by positivity
      have : (0:ℝ) ≤ 7 / 2 ^ 106 * (1 + (52 / 10 / 2 ^ 106 + β + 52 / 10 / 2 ^ 106 * β)) := by positivity
      linarith
    simpa using this
  · exfalso
    have := hv.1
    cases hx : x.hi <;> rw [hx] at c4 this <;> simp_all [F64.is_nan, F64.is_finite]
  · -- the main branch
    obtain ⟨⟨zf, zb⟩, k, hyf, hyk, hkb⟩ := PF.exp_reduce x hv hw hl' hh
    dsimp only
    unfold TwoFloat.hi_m
    rw [PF.cast_f64_i32 hyf hyk (by omega)]
    generalize hy : (TwoFloat.round (arithmetic.impl_Mul_TwoFloat_for_f64.mul (f64lit 0x4000000000000000) x)).hi
      = y at *
    have hdiv : (y /. f64lit 0x4000000000000000) = F64.div y (f64lit 0x4000000000000000) := rfl
    rw [hdiv]
    -- y / 2 = k/2 exactly
    have htwo : IsVal (f64lit 0x4000000000000000) (2 * (F64.unit : Int)) := by
      rw [PF.lit_two]
      exact ⟨rfl, by show ((2 * F64.unit : Nat) : Int) = _; push_cast; ring⟩
    have hkabs : |k| ≤ 1418 := by rw [← Int.natCast_natAbs]; exact_mod_cast hkb
    have hM : (2 : Int) ^ 1090 ≤ (maxFin : Int) := by exact_mod_cast PF.maxFin_ge
    have hUz : (F64.unit : ℤ) = 2 ^ 1074 := unit_cast_eq
    have hP : (0 : ℤ) < 2 ^ 1073 := by positivity
    have hW : IsVal (F64.div y (f64lit 0x4000000000000000)) (k * 2 ^ 1073) := by
      apply IsVal.div_exact ⟨hyf, hyk⟩ htwo
      · rw [hUz]; positivity
      · rw [hUz]; ring
      · exact PF.repI_small_mul_pow2 _ (by omega)
      · rw [abs_mul, abs_of_pos hP]
        calc |k| * 2 ^ 1073 ≤ 1418 * 2 ^ 1073 := by nlinarith
          _ ≤ 2 ^ 1090 := by norm_num
          _ ≤ _ := hM
    have hWWF : (F64.div y (f64lit 0x4000000000000000)).WF := div_WF _ _
    generalize F64.div y (f64lit 0x4000000000000000) = Wf at *
    have hfvW : fv Wf = (k : ℝ) / 2 := by
      unfold fv; rw [hW.2]; push_cast
      rw [div_eq_div_iff (by positivity) (by norm_num)]
      have : (2 : ℝ) ^ 1074 = 2 ^ 1073 * 2 := by norm_num
      rw [this]; ring
    have hWb : Wf.toInt.natAbs < 2 ^ 2095 := by
      rw [hW.2]
      apply ExpBound.natAbs_lt_of_abs_lt
      rw [abs_mul, abs_of_pos hP]
      calc |k| * 2 ^ 1073 ≤ 1418 * 2 ^ 1073 := by nlinarith
        _ < 2 ^ 2095 := by norm_num
    have hxabs : |rv x| ≤ 2 ^ 1000 := by
      have : |rv x| ≤ 700 := abs_le.2 ⟨by linarith, hhi⟩
      exact le_trans this (by norm_num)
    obtain ⟨zvw, hz⟩ := sub_tf_rv ⟨hv, hw⟩ hW.1 hWWF hxabs hWb
    rw [hfvW] at hz
    generalize arithmetic.impl_Sub_f64_for_TwoFloat.sub x Wf = z at *
    -- |rv z| ≤ (1 + 2^-53)/4 and hence |D| ≤ 0.2501
    set D := rv x - (k : ℝ) / 2 with hD
    have hzabs : |rv z| ≤ 25001 / 100000 := by
      obtain ⟨_, c2⟩ := PowiBound.hi_bounds zvw.1
      have hzb : |z.hi.toInt| ≤ 2 ^ 1072 := by
        have := abs_le_of_natAbs_le zb; exact_mod_cast this
      have hzV : |z.V| ≤ 2 ^ 1072 + 2 ^ 1020 := by
        have e1 : (2 : ℤ) ^ 1072 = 2 ^ 52 * 2 ^ 1020 := by norm_num
        rw [e1] at hzb ⊢
        generalize (2 : ℤ) ^ 1020 = T at *
        norm_num at c2 ⊢
        omega
      rw [rv_abs, div_le_iff₀ hU]
      have : ((|z.V| : ℤ) : ℝ) ≤ (((2 : ℤ) ^ 1072 + 2 ^ 1020 : ℤ) : ℝ) := by exact_mod_cast hzV
      refine le_trans this ?_
      push_cast
      norm_num
    have hDabs : |D| ≤ 2501 / 10000 := by
      have h1 := abs_sub_abs_le_abs_sub D (rv z)
      rw [abs_sub_comm D (rv z)] at h1
      have h2 : (1 : ℝ) / 2 ^ 105 * |D| ≤ 1 / 1000000 * |D| :=
        mul_le_mul_of_nonneg_right (by norm_num) (abs_nonneg _)
      linarith
    -- the range of k
    have hk1 : -1332 ≤ k := by
      obtain ⟨d1, d2⟩ := abs_le.1 hDabs
      have : (-1333 : ℝ) < (k : ℝ) := by rw [hD] at d1 d2; linarith
      have : (-1333 : ℤ) < k := by exact_mod_cast this
      omega
    have hk2 : k ≤ 1400 := by
      obtain ⟨_, d2⟩ := abs_le.1 hDabs
      have : (k : ℝ) < 1401 := by rw [hD] at d2; linarith
      have : k < (1401 : ℤ) := by exact_mod_cast this
      omega
    obtain ⟨rvw, hr, hrabs⟩ := expm1_quarter_bound zvw zb
    obtain ⟨ezvw, hez⟩ := add_one_rv rvw (le_trans hrabs (by norm_num))
    obtain ⟨eyvw, hey⟩ := exp_half_bound_wide k hk1 (by omega)
    have hey0 : 0 ≤ k → |rv (explog.exp_half (⟨k⟩ : I32)) - Real.exp ((k : ℝ) / 2)|
        ≤ 81 / 10 / 2 ^ 106 * Real.exp ((k : ℝ) / 2) := fun h => (exp_half_nonneg 1 k h (by omega)).2
    have y2 := exp_half_upper hk2
    have hY := Real.exp_pos ((k : ℝ) / 2)
    generalize TwoFloat.expm1_quarter z = r at *
    generalize arithmetic.impl_Add_f64_for_TwoFloat.add r (f64lit 0x3ff0000000000000) = ez at *
    generalize heyq : explog.exp_half (⟨k⟩ : I32) = ey at *
    -- crude ranges for the final product
    have hezr : 499 / 1000 ≤ |rv ez| ∧ |rv ez| ≤ 2 := by
      have h1 := abs_sub_abs_le_abs_sub (rv ez) (rv r + 1)
      have h2 := abs_sub_abs_le_abs_sub (rv r + 1) (rv ez)
      rw [abs_sub_comm] at h2
      obtain ⟨r1, r2⟩ := abs_le.1 hrabs
      have h3 : |rv r + 1| = rv r + 1 := abs_of_pos (by linarith)
      rw [h3] at h1 h2 hez
      have h4 : (1 : ℝ) / 2 ^ 105 * (rv r + 1) ≤ 1 / 2 ^ 105 * (3 / 2) :=
        mul_le_mul_of_nonneg_left (by linarith) (by positivity)
      have e : (1 : ℝ) / 2 ^ 105 * (3 / 2) ≤ 1 / 1000 := by norm_num
      constructor <;> linarith
    have heyr : 999 / 1000 * Real.exp ((k : ℝ) / 2) ≤ |rv ey| ∧ |rv ey| ≤ 2 * Real.exp ((k : ℝ) / 2) := by
      have h1 := abs_sub_abs_le_abs_sub (rv ey) (Real.exp ((k : ℝ) / 2))
      have h2 := abs_sub_abs_le_abs_sub (Real.exp ((k : ℝ) / 2)) (rv ey)
      rw [abs_sub_comm] at h2
      rw [abs_of_pos hY] at h1 h2
      have : (242 : ℝ) / 10 / 2 ^ 106 * Real.exp ((k : ℝ) / 2) ≤ 1 / 1000 * Real.exp ((k : ℝ) / 2) :=
        mul_le_mul_of_nonneg_right (by norm_num) hY.le
      constructor <;> linarith
    have hp1 : |rv ez * rv ey| ≤ 2 ^ 1019 := by
      rw [abs_mul]
      calc |rv ez| * |rv ey| ≤ 2 * (2 * Real.exp ((k : ℝ) / 2)) :=
            mul_le_mul hezr.2 heyr.2 (abs_nonneg _) (by norm_num)
        _ ≤ 2 * (2 * 2 ^ 1011) := by linarith
        _ ≤ 2 ^ 1019 := by norm_num
    have e : Real.exp D * Real.exp ((k : ℝ) / 2) = Real.exp (rv x) := by
      rw [← Real.exp_add, hD]; congr 1; ring
    -- the exact product is within `37u²` of `e^x` (the final estimate with a rounding-free product), hence not small
    have hp0 : (1 + 1 / 2 ^ 41) / 2 ^ 961 ≤ |rv ez * rv ey| := by
      have h0 := (exp_final_real hDabs hz hr hez hY hey (res := rv ez * rv ey) (ε := 37 / 2 ^ 106)
        (by rw [sub_self, abs_zero]; positivity) (by norm_num)).1
      rw [e] at h0
      have hE := Real.exp_pos (rv x)
      have h1 := abs_sub_abs_le_abs_sub (Real.exp (rv x)) (rv ez * rv ey)
      rw [abs_sub_comm, abs_of_pos hE] at h1
      have h2 : (1 - 37 / 2 ^ 106) * ((1 + 1 / 2 ^ 40) / 2 ^ 961) ≤ (1 - 37 / 2 ^ 106) * Real.exp (rv x) :=
        mul_le_mul_of_nonneg_left hprod (by norm_num)
      have h3 : (1 + 1 / 2 ^ 41 : ℝ) / 2 ^ 961 ≤ (1 - 37 / 2 ^ 106) * ((1 + 1 / 2 ^ 40) / 2 ^ 961) := by
        rw [← mul_div_assoc, div_le_div_iff_of_pos_right (by positivity)]; norm_num
      linarith
    obtain ⟨resvw, hres⟩ := mul_rv_rel_w ezvw eyvw hp0 hp1
    refine ⟨resvw, k, hk1, hk2, ?_, ?_⟩
    · exact hDabs
    · intro β ε hβ hε
      rw [heyq] at hβ
      have fin := (exp_final_real hDabs hz hr hez hY hβ hres hε).1
      rw [e] at fin
      exact fin

/-- `LnBound.exp_bound_sharp` down to `e^x ≥ 2^-961·(1 + 2^-40)` -/
theorem exp_bound_sharp_w (x : TwoFloat) (hv : x.Valid) (hw : x.WF) (hlo : -666 ≤ rv x)
    (hhi : rv x ≤ 700) (hprod : (1 + 1 / 2 ^ 40) / 2 ^ 961 ≤ Real.exp (rv x)) :
    VW (TwoFloat.exp x) ∧ ∃ d : ℝ, |rv (TwoFloat.exp x) - Real.exp (rv x)| ≤ d * Real.exp (rv x) ∧
      (d = 21 / 2 ^ 106 ∨ (d = 37 / 2 ^ 106 ∧ rv x ≤ -(7499 / 10000))) := by
  obtain ⟨vw, k, hk1, hk2, hD, hk⟩ := exp_bound_k_w x hv hw hlo hhi hprod
  refine ⟨vw, ?_⟩
  by_cases h0 : 0 ≤ k
  · exact ⟨21 / 2 ^ 106, hk _ _ (exp_half_nonneg 1 k h0 (by omega)).2 (by norm_num), Or.inl rfl⟩
  · by_cases h1 : k = -1
    · subst h1
      exact ⟨21 / 2 ^ 106, hk _ _ exp_half_m1 (by norm_num), Or.inl rfl⟩
    · refine ⟨37 / 2 ^ 106, hk _ _ (exp_half_bound_wide k hk1 (by omega)).2 (by norm_num), Or.inr ⟨rfl, ?_⟩⟩
      have hk' : (k : ℝ) ≤ -2 := by exact_mod_cast (by omega : k ≤ -2)
      obtain ⟨_, d2⟩ := abs_le.1 hD
      linarith

end expw

section tfw
open F64 TwoFloat

/-- the product `v·exp(−x)` for `x` within `2^-19` of `L = ln v`, `−694 ≤ L ≤ 664.23`: a valid pair `P`, and the data
of `prod_near` with `E = exp(−x)` computed (`d = 21u²`, or `37u²` when `x ≥ 0.7499`) -/
theorem prod_tf_w {v x : TwoFloat} (hv : VW v) (hx : VW x) (hpos : 0 < rv v)
    (hL1 : -694 ≤ Real.log (rv v)) (hL2 : Real.log (rv v) ≤ 66543 / 100)
    (hvhi : rv v ≤ 2 ^ 960 * (1 + 1 / 2 ^ 52))
    (he : |rv x - Real.log (rv v)| ≤ 1 / 2 ^ 19) :
    VW (arithmetic.impl_Mul_TwoFloat_for_TwoFloat.mul v (TwoFloat.exp (arithmetic.impl_Neg_for_TwoFloat.neg x))) ∧
    ∃ E d : ℝ, 0 ≤ d ∧ (d = 21 / 2 ^ 106 ∨ (d = 37 / 2 ^ 106 ∧ 7499 / 10000 ≤ rv x)) ∧
      |E - Real.exp (-(Real.log (rv v) + (rv x - Real.log (rv v))))|
        ≤ d * Real.exp (-(Real.log (rv v) + (rv x - Real.log (rv v)))) ∧
      |rv (arithmetic.impl_Mul_TwoFloat_for_TwoFloat.mul v (TwoFloat.exp (arithmetic.impl_Neg_for_TwoFloat.neg x)))
        - Real.exp (Real.log (rv v)) * E| ≤ 7 / 2 ^ 106 * |Real.exp (Real.log (rv v)) * E| ∧
      |rv (arithmetic.impl_Mul_TwoFloat_for_TwoFloat.mul v (TwoFloat.exp (arithmetic.impl_Neg_for_TwoFloat.neg x)))|
        ≤ 4 := by
  obtain ⟨e1, e2⟩ := abs_le.1 he
  have hN := VW_neg hx
  have hNr := rv_neg x
  have h19 : (1 : ℝ) / 2 ^ 19 ≤ 1 / 10 := by norm_num
  have hprod : (1 + 1 / 2 ^ 40) / 2 ^ 961 ≤ Real.exp (-rv x) := by
    have e0 : -rv x = -Real.log (rv v) + -(rv x - Real.log (rv v)) := by ring
    rw [e0, Real.exp_add, Real.exp_neg, Real.exp_log hpos]
    have h1 : 1 - 1 / 2 ^ 19 ≤ Real.exp (-(rv x - Real.log (rv v))) := by
      have := Real.add_one_le_exp (-(rv x - Real.log (rv v)))
      linarith
    have hK : (0 : ℝ) < 2 ^ 961 := by positivity
    have hden : (0 : ℝ) < 2 ^ 960 * (1 + 1 / 2 ^ 52) := by positivity
    have h2 : (2 ^ 960 * (1 + 1 / 2 ^ 52))⁻¹ ≤ (rv v)⁻¹ := inv_anti₀ hpos hvhi
    have c : (1 + 1 / 2 ^ 40 : ℝ) * (1 + 1 / 2 ^ 52) ≤ (1 - 1 / 2 ^ 19) * 2 := by norm_num
    calc (1 + 1 / 2 ^ 40 : ℝ) / 2 ^ 961 ≤ (2 ^ 960 * (1 + 1 / 2 ^ 52))⁻¹ * (1 - 1 / 2 ^ 19) := by
          rw [inv_mul_eq_div, div_le_div_iff₀ hK hden]
          calc (1 + 1 / 2 ^ 40 : ℝ) * (2 ^ 960 * (1 + 1 / 2 ^ 52))
              = 2 ^ 960 * ((1 + 1 / 2 ^ 40) * (1 + 1 / 2 ^ 52)) := by ring
            _ ≤ 2 ^ 960 * ((1 - 1 / 2 ^ 19) * 2) := mul_le_mul_of_nonneg_left c (by positivity)
            _ = (1 - 1 / 2 ^ 19) * 2 ^ 961 := by ring
      _ ≤ (rv v)⁻¹ * Real.exp (-(rv x - Real.log (rv v))) :=
          mul_le_mul h2 h1 (by norm_num) (inv_nonneg.2 hpos.le)
  obtain ⟨hE, d, hEb, hd⟩ := exp_bound_sharp_w (arithmetic.impl_Neg_for_TwoFloat.neg x) hN.1 hN.2
    (by rw [hNr]; linarith) (by rw [hNr]; linarith) (by rw [hNr]; exact hprod)
  rw [hNr] at hEb hd
  generalize TwoFloat.exp (arithmetic.impl_Neg_for_TwoFloat.neg x) = Ex at *
  have hd0 : 0 ≤ d := by rcases hd with h | ⟨h, _⟩ <;> rw [h] <;> positivity
  have hd37 : d ≤ 37 / 2 ^ 106 := by rcases hd with h | ⟨h, _⟩ <;> (rw [h]; try norm_num)
  have hexpL : Real.exp (Real.log (rv v)) = rv v := Real.exp_log hpos
  have eqx : -(Real.log (rv v) + (rv x - Real.log (rv v))) = -rv x := by ring
  have hEb' : |rv Ex - Real.exp (-(Real.log (rv v) + (rv x - Real.log (rv v))))|
      ≤ d * Real.exp (-(Real.log (rv v) + (rv x - Real.log (rv v)))) := by rw [eqx]; exact hEb
  obtain ⟨r1, r2⟩ := prod_range he hd37 hEb'
  rw [hexpL] at r1 r2
  have habs : |rv v * rv Ex| = rv v * rv Ex := abs_of_pos (by linarith)
  obtain ⟨hP, hPb⟩ := mul_rv_rel hv hE (by rw [habs]; exact le_trans (by norm_num) r1)
    (by rw [habs]; exact le_trans r2 (by norm_num))
  refine ⟨hP, rv Ex, d, hd0, ?_, hEb', by rw [hexpL]; exact hPb, ?_⟩
  · rcases hd with h | ⟨h, h'⟩
    · exact Or.inl h
    · exact Or.inr ⟨h, by linarith⟩
  · rw [habs] at hPb
    obtain ⟨p1, p2⟩ := abs_le.1 hPb
    rw [abs_le]
    constructor <;> nlinarith

/-- **an intermediate Newton step of `ln`**, `x ← x + (v·exp(−x) − 1)`: from an error `|x − ln v| ≤ 2^-19` to
`(x − ln v)² + 2^-92` -/
theorem step_bound_w {v x : TwoFloat} (hv : VW v) (hx : VW x) (hpos : 0 < rv v)
    (hL1 : -694 ≤ Real.log (rv v)) (hL2 : Real.log (rv v) ≤ 66543 / 100)
    (hvhi : rv v ≤ 2 ^ 960 * (1 + 1 / 2 ^ 52))
    (he : |rv x - Real.log (rv v)| ≤ 1 / 2 ^ 19) :
    VW (arithmetic.impl_AddAssign_TwoFloat_for_TwoFloat.add_assign x (corr v x)) ∧
    |rv (arithmetic.impl_AddAssign_TwoFloat_for_TwoFloat.add_assign x (corr v x)) - Real.log (rv v)|
      ≤ (rv x - Real.log (rv v)) ^ 2 + 1 / 2 ^ 92 := by
  obtain ⟨hP, E, d, hd0, hd, hE, hPb, hP4⟩ := prod_tf_w hv hx hpos hL1 hL2 hvhi he
  have hd37 : d ≤ 37 / 2 ^ 106 := by rcases hd with h | ⟨h, _⟩ <;> (rw [h]; try norm_num)
  unfold corr
  generalize arithmetic.impl_Mul_TwoFloat_for_TwoFloat.mul v (TwoFloat.exp (arithmetic.impl_Neg_for_TwoFloat.neg x))
    = P at *
  obtain ⟨hS, hSb⟩ := sub_one_rv hP (le_trans hP4 (by norm_num))
  generalize arithmetic.impl_Sub_f64_for_TwoFloat.sub P (f64lit 0x3ff0000000000000) = S at *
  have hLabs : |Real.log (rv v)| ≤ 700 := abs_le.2 ⟨by linarith, by linarith⟩
  obtain ⟨e1, e2⟩ := abs_le.1 he
  have h19 : (1 : ℝ) / 2 ^ 19 ≤ 1 / 10 := by norm_num
  have hxabs : |rv x| ≤ 2 ^ 1000 := by
    have : |rv x| ≤ 701 := abs_le.2 ⟨by linarith, by linarith⟩
    exact le_trans this (by norm_num)
  have hSabs : |rv S| ≤ 2 ^ 1000 := by
    obtain ⟨p1, p2⟩ := abs_le.1 hP4
    have h1 : |rv P - 1| ≤ 5 := abs_le.2 ⟨by linarith, by linarith⟩
    have h2 := abs_sub_abs_le_abs_sub (rv S) (rv P - 1)
    have h3 : (1 : ℝ) / 2 ^ 105 * |rv P - 1| ≤ 1 * 5 := mul_le_mul (by norm_num) h1 (abs_nonneg _) (by norm_num)
    have : |rv S| ≤ 10 := by linarith
    exact le_trans this (by norm_num)
  obtain ⟨hX, hXb⟩ := add_rv hx hS hxabs hSabs
  refine ⟨hX, ?_⟩
  have e3 : rv x = Real.log (rv v) + (rv x - Real.log (rv v)) := by ring
  rw [e3] at hXb
  exact newton_step_real hLabs he hd0 hd37 hE hPb hSb hXb

/-- **the last Newton step of `ln`**, `(x + v·exp(−x)) − 1` with `|x − ln v| ≤ 2^-70`: error at most
`2^-101·(1 + |ln v|)` -/
theorem final_bound_w {v x : TwoFloat} (hv : VW v) (hx : VW x) (hpos : 0 < rv v)
    (hL1 : -694 ≤ Real.log (rv v)) (hL2 : Real.log (rv v) ≤ 66543 / 100)
    (hvhi : rv v ≤ 2 ^ 960 * (1 + 1 / 2 ^ 52))
    (he : |rv x - Real.log (rv v)| ≤ 1 / 2 ^ 70) :
    VW (arithmetic.impl_Sub_f64_for_TwoFloat.sub (arithmetic.impl_Add_TwoFloat_for_TwoFloat.add x
      (arithmetic.impl_Mul_TwoFloat_for_TwoFloat.mul v (TwoFloat.exp (arithmetic.impl_Neg_for_TwoFloat.neg x))))
      (f64lit 0x3ff0000000000000)) ∧
    |rv (arithmetic.impl_Sub_f64_for_TwoFloat.sub (arithmetic.impl_Add_TwoFloat_for_TwoFloat.add x
      (arithmetic.impl_Mul_TwoFloat_for_TwoFloat.mul v (TwoFloat.exp (arithmetic.impl_Neg_for_TwoFloat.neg x))))
      (f64lit 0x3ff0000000000000)) - Real.log (rv v)| ≤ 1 / 2 ^ 101 * (1 + |Real.log (rv v)|) := by
  have he19 : |rv x - Real.log (rv v)| ≤ 1 / 2 ^ 19 := le_trans he (by norm_num)
  obtain ⟨hP, E, d, hd0, hd, hE, hPb, hP4⟩ := prod_tf_w hv hx hpos hL1 hL2 hvhi he19
  have hd37 : d ≤ 37 / 2 ^ 106 := by rcases hd with h | ⟨h, _⟩ <;> (rw [h]; try norm_num)
  generalize arithmetic.impl_Mul_TwoFloat_for_TwoFloat.mul v (TwoFloat.exp (arithmetic.impl_Neg_for_TwoFloat.neg x))
    = P at *
  have hLabs : |Real.log (rv v)| ≤ 700 := abs_le.2 ⟨by linarith, by linarith⟩
  obtain ⟨e1, e2⟩ := abs_le.1 he
  have h70 : (1 : ℝ) / 2 ^ 70 ≤ 1 / 10000 := by norm_num
  have hxabs : |rv x| ≤ 2 ^ 1000 := by
    have : |rv x| ≤ 701 := abs_le.2 ⟨by linarith, by linarith⟩
    exact le_trans this (by norm_num)
  obtain ⟨hA, hAb⟩ := add_rv hx hP hxabs (le_trans hP4 (by norm_num))
  generalize arithmetic.impl_Add_TwoFloat_for_TwoFloat.add x P = A at *
  have hAabs : |rv A| ≤ 2 ^ 1000 := by
    obtain ⟨p1, p2⟩ := abs_le.1 hP4
    have h1 : |rv x + rv P| ≤ 705 := abs_le.2 ⟨by linarith, by linarith⟩
    have h2 := abs_sub_abs_le_abs_sub (rv A) (rv x + rv P)
    have h3 : cA * |rv x + rv P| ≤ 1 * 705 :=
      mul_le_mul (le_trans cA_le (by norm_num)) h1 (abs_nonneg _) (by norm_num)
    have : |rv A| ≤ 1410 := by linarith
    exact le_trans this (by norm_num)
  obtain ⟨hR, hRb⟩ := sub_one_rv hA hAabs
  refine ⟨hR, ?_⟩
  generalize arithmetic.impl_Sub_f64_for_TwoFloat.sub A (f64lit 0x3ff0000000000000) = R at *
  have e3 : rv x = Real.log (rv v) + (rv x - Real.log (rv v)) := by ring
  rw [e3] at hAb
  have key := newton_final_real hLabs he hd0 hd37 hE hPb hAb hRb
  refine le_trans key ?_
  have hLa := abs_nonneg (Real.log (rv v))
  rcases hd with h | ⟨h, hx7⟩
  · rw [h]
    have e : (1 : ℝ) / 2 ^ 101 = 32 / 2 ^ 106 := by norm_num
    rw [e]
    nlinarith
  · rw [h]
    have hLge : 7498 / 10000 ≤ |Real.log (rv v)| := by
      have : 7498 / 10000 ≤ Real.log (rv v) := by linarith
      exact le_trans this (le_abs_self _)
    have e : (1 : ℝ) / 2 ^ 101 = 32 / 2 ^ 106 := by norm_num
    rw [e]
    nlinarith

end tfw

section assemblyw
open F64 TwoFloat

/-- **accuracy of `TwoFloat::ln`, given the accuracy of the seed**: for a valid `v` with high word in
`[2^-1000, 2^960 − 2^944]`, `|ln(v) − ln v| ≤ 2^-101·(1 + |ln v|)` -/
theorem ln_bound_of_seed_w (v : TwoFloat) (hv : v.Valid) (hw : v.WF)
    (hlo : 1 / 2 ^ 1000 ≤ fv v.hi) (hhi : fv v.hi ≤ 2 ^ 960)
    (hseed : (Libm.log v.hi).is_finite = true ∧ |fv (Libm.log v.hi) - Real.log (fv v.hi)| ≤ 1 / 2 ^ 20) :
    VW (TwoFloat.ln v) ∧
    |rv (TwoFloat.ln v) - Real.log (rv v)| ≤ 1 / 2 ^ 101 * (1 + |Real.log (rv v)|) := by
  have hhpos : 0 < fv v.hi := lt_of_lt_of_le (by positivity) hlo
  obtain ⟨hpos, hnear, hvle⟩ := log_rv_near_hi hv hhpos
  have hhi' : fv v.hi ≤ 2 ^ 960 := hhi
  obtain ⟨g1, g2⟩ := log_hi_range hlo hhi'
  have hvhi : rv v ≤ 2 ^ 960 * (1 + 1 / 2 ^ 52) := by
    have h1 : (1 + 1 / 2 ^ 53 : ℝ) * fv v.hi ≤ (1 + 1 / 2 ^ 53) * 2 ^ 960 :=
      mul_le_mul_of_nonneg_left hhi (by positivity)
    have h2 : (1 + 1 / 2 ^ 53 : ℝ) * 2 ^ 960 ≤ 2 ^ 960 * (1 + 1 / 2 ^ 52) := by
      have hK : (0 : ℝ) < 2 ^ 960 := by positivity
      have c : (1 + 1 / 2 ^ 53 : ℝ) ≤ 1 + 1 / 2 ^ 52 := by norm_num
      nlinarith
    linarith
  obtain ⟨n1, n2⟩ := abs_le.1 hnear
  have h52 : (1 : ℝ) / 2 ^ 52 ≤ 1 / 10 := by norm_num
  have hL1 : -694 ≤ Real.log (rv v) := by linarith
  have hL2 : Real.log (rv v) ≤ 66543 / 100 := by linarith
  have hVpos : 0 < v.V := by
    have : (0 : ℝ) < (v.V : ℝ) := by
      have : rv v = (v.V : ℝ) / 2 ^ 1074 := rfl
      rw [this] at hpos
      exact (div_pos_iff_of_pos_right (by positivity)).1 hpos
    exact_mod_cast this
  cases hone : base.impl_PartialEq_f64_for_TwoFloat.eq v (f64lit 0x3ff0000000000000)
  · -- the generic branch
    have hle : ROrd.isLe (base.impl_PartialOrd_f64_for_TwoFloat.partial_cmp v (f64lit 0)) = false := by
      rw [Ident.f64lit_zero, partial_cmp_tf_exact_of F64.roundFacts hv (WF_zero false) rfl, Bool.eq_false_iff]
      intro hc
      have := ROrd.isLe_ofInts.1 hc
      rw [toInt_zero] at this
      omega
    rw [ln_eq_steps v hone hle (LnBound.not_tiny_of_fv hv.1 hlo)]
    dsimp only
    -- the seed
    have hLw : (Libm.log v.hi).WF := PF.libm_log_WF hw.1
    have hx0 : VW (convert.impl_From_f64_for_TwoFloat.from (Libm.log v.hi)) ∧
        rv (convert.impl_From_f64_for_TwoFloat.from (Libm.log v.hi)) = fv (Libm.log v.hi) := by
      rw [from_eq]
      obtain ⟨p1, p2, p3⟩ := pair_zero_spec hseed.1 hLw
      refine ⟨⟨p2, p3⟩, ?_⟩
      unfold rv fv; rw [p1]
    generalize convert.impl_From_f64_for_TwoFloat.from (Libm.log v.hi) = x0 at *
    have he0 : |rv x0 - Real.log (rv v)| ≤ 1 / 2 ^ 19 := by
      rw [hx0.2]
      obtain ⟨s1, s2⟩ := abs_le.1 hseed.2
      rw [abs_le]
      have : (1 : ℝ) / 2 ^ 20 + 1 / 2 ^ 52 ≤ 1 / 2 ^ 19 := by norm_num
      constructor <;> linarith
    obtain ⟨hx1, hb1⟩ := step_bound_w ⟨hv, hw⟩ hx0.1 hpos hL1 hL2 hvhi he0
    generalize arithmetic.impl_AddAssign_TwoFloat_for_TwoFloat.add_assign x0 (corr v x0) = x1 at *
    have he1 : |rv x1 - Real.log (rv v)| ≤ 1 / 2 ^ 37 := by
      refine le_trans hb1 ?_
      have : (rv x0 - Real.log (rv v)) ^ 2 ≤ (1 / 2 ^ 19) ^ 2 := by
        rw [← sq_abs]; exact pow_le_pow_left₀ (abs_nonneg _) he0 2
      have e : ((1 : ℝ) / 2 ^ 19) ^ 2 + 1 / 2 ^ 92 ≤ 1 / 2 ^ 37 := by norm_num
      linarith
    obtain ⟨hx2, hb2⟩ := step_bound_w ⟨hv, hw⟩ hx1 hpos hL1 hL2 hvhi (le_trans he1 (by norm_num))
    generalize arithmetic.impl_AddAssign_TwoFloat_for_TwoFloat.add_assign x1 (corr v x1) = x2 at *
    have he2 : |rv x2 - Real.log (rv v)| ≤ 1 / 2 ^ 70 := by
      refine le_trans hb2 ?_
      have : (rv x1 - Real.log (rv v)) ^ 2 ≤ (1 / 2 ^ 37) ^ 2 := by
        rw [← sq_abs]; exact pow_le_pow_left₀ (abs_nonneg _) he1 2
      have e : ((1 : ℝ) / 2 ^ 37) ^ 2 + 1 / 2 ^ 92 ≤ 1 / 2 ^ 70 := by norm_num
      linarith
    exact final_bound_w ⟨hv, hw⟩ hx2 hpos hL1 hL2 hvhi he2
  · -- `v == 1.0`: the result is exactly `0 = ln 1`
    rw [C15.ln_one v hone, C15.zero_words]
    have hV1 : rv v = 1 := by
      unfold base.impl_PartialEq_f64_for_TwoFloat.eq at hone
      rw [Bool.and_eq_true, req_eq, req_eq, eq_iff_toInt hv.1 C01d.one_isVal.1, Ident.f64lit_zero,
        eq_iff_toInt hv.2.1 rfl, C01d.one_isVal.2, toInt_zero] at hone
      unfold rv TwoFloat.V
      rw [hone.1, hone.2, unit_cast_eq]
      simp only [add_zero, Int.cast_pow, Int.cast_ofNat]
      exact div_self (by positivity : ((2 : ℝ) ^ 1074) ≠ 0)
    have hz : VW (⟨F64.zero, F64.zero⟩ : TwoFloat) := ⟨by decide +kernel, by decide +kernel⟩
    have hz0 : rv (⟨F64.zero, F64.zero⟩ : TwoFloat) = 0 := by
      unfold rv
      rw [show (⟨F64.zero, F64.zero⟩ : TwoFloat).V = 0 by decide +kernel]
      simp
    refine ⟨hz, ?_⟩
    rw [hz0, hV1, Real.log_one]
    norm_num

/-- **accuracy of `TwoFloat::ln`, full range**: valid `v` with high word in `[2^-1000, 2^960]` -/
theorem ln_bound_w (v : TwoFloat) (hv : v.Valid) (hw : v.WF)
    (hlo : 1 / 2 ^ 1000 ≤ fv v.hi) (hhi : fv v.hi ≤ 2 ^ 960) :
    VW (TwoFloat.ln v) ∧
    |rv (TwoFloat.ln v) - Real.log (rv v)| ≤ 1 / 2 ^ 101 * (1 + |Real.log (rv v)|) :=
  ln_bound_of_seed_w v hv hw hlo hhi (seed_ok hv.1 hw.1 (lt_of_lt_of_le (by positivity) hlo))

/-- `|ln v| ≤ 700` on the full range -/
theorem log_abs_le_w (v : TwoFloat) (hv : v.Valid) (hlo : 1 / 2 ^ 1000 ≤ fv v.hi) (hhi : fv v.hi ≤ 2 ^ 960) :
    |Real.log (rv v)| ≤ 700 := by
  obtain ⟨_, hnear, _⟩ := log_rv_near_hi hv (lt_of_lt_of_le (by positivity) hlo)
  obtain ⟨g1, g2⟩ := log_hi_range hlo hhi
  obtain ⟨n1, n2⟩ := abs_le.1 hnear
  have h52 : (1 : ℝ) / 2 ^ 52 ≤ 1 / 10 := by norm_num
  exact abs_le.2 ⟨by linarith, by linarith⟩

end assemblyw

end LnWide

/-! ## 6. `ln_1p` of a tiny argument, word for word -/

namespace Slivers2

open F64 TwoFloat ExpBound Slivers

/-- `libm::log1p` returns a tiny argument (`|h| < 2^-53`) itself -/
theorem log1p_tiny_id {sg : Bool} {n : ℕ} (hw : (fin sg n).WF) (hn : n < 2 ^ 1021) :
    Libm.log1p (fin sg n) = fin sg n := by
  obtain ⟨hbits, hlt⟩ := Log1pBound.hiw_sg sg hw
  have i1 := Log1pBound.hiw_lt_iff hw.1 hw.2 (e := 970) (m := 0) (by norm_num) (by norm_num)
  have c1 : Log1pBound.hiw n < 970 * 2 ^ 20 + 0 := i1.2 (by
    have e : (2 ^ 52 + 0 * 2 ^ 32) * 2 ^ (970 - 1) = 2 ^ 1021 := by norm_num
    rw [e]; exact hn)
  rw [Log1pBound.log1p_unfold, hbits]
  generalize Log1pBound.hiw n = H at *
  cases sg
  · simp only [Bool.false_eq_true, if_false, Nat.zero_add, Nat.reducePow, Nat.reduceMul, Nat.reduceMod] at hlt c1 ⊢
    rw [if_pos (by omega), if_neg (by omega), if_pos (by omega)]
  · simp only [if_true, Nat.reducePow, Nat.reduceMul, Nat.reduceMod] at hlt c1 ⊢
    rw [if_pos (by omega), if_neg (by omega), if_pos (by omega)]

/-- `(1, h) * q` for a tiny cross term `|h·q| < 2^-1075`: the product is `(q, 0)` -/
theorem mul_tf_one_plus {y : TwoFloat} {q : F64} {h c : ℤ} (hy : y.IsV (unit : ℤ) h) (hq : IsVal q c) (hwq : q.WF)
    (hs : 2 * |h * c| < (unit : ℤ)) :
    (arithmetic.impl_Mul_rf64_for_rTwoFloat.mul y q).IsV c 0 := by
  rw [mul_tf_eq]
  have hcr := hq.repI hwq
  have hcm := hq.abs_le hwq
  have hc := new_mul_isV_exact hy.1 hq (q := c) (by ring) hcr hcm
  have e3 : rqI (y.lo.toInt * q.toInt + (TwoFloat.new_mul y.hi q).lo.toInt * (unit : ℤ)) unit = 0 := by
    rw [hc.2.2, hy.2.2, hq.2]
    apply rqI_eq_of_near unit_pos (by simp)
    rw [zero_mul, add_zero, sub_zero]; exact hs
  have hcl : IsVal (F64.fma y.lo q (TwoFloat.new_mul y.hi q).lo) 0 := by
    have := fma_spec hy.2.1 hq.1 hc.2.1 (by rw [← natAbs_rqI, e3]; simp)
    rwa [e3] at this
  have := f2s_isV_exact hc.1 hcl (new_mul_WF _ _).1 (fma_WF _ _ _) (by rw [add_zero]; exact hcr)
    (by rw [add_zero]; exact hcm)
  rwa [add_zero] at this

/-- `(c, 0) / (1, h)` for a tiny cross term `|h·c| < 2^-1075`: the quotient is `(c, 0)` — the first digit is `c`, the
remainder `c − (1, h)·c` is computed as exactly zero -/
theorem div_tt_one_plus {a y : TwoFloat} {h c : ℤ} (ha : a.IsV c 0) (hwa : a.WF) (hy : y.IsV (unit : ℤ) h)
    (hs : 2 * |h * c| < (unit : ℤ)) :
    (arithmetic.impl_Div_rTwoFloat_for_rTwoFloat.div a y).IsV c 0 := by
  have hU0 : (unit : ℤ) ≠ 0 := unit_pos_int.ne'
  have hcr := ha.1.repI hwa.1
  have hcm := ha.1.abs_le hwa.1
  rw [div_tt_eq]
  have q1 : IsVal (F64.div a.hi y.hi) c := ha.1.div_exact hy.1 hU0 rfl hcr hcm
  have hP := mul_tf_one_plus hy q1 (div_WF _ _) hs
  have r1 : (divStep a y).IsV 0 0 := by
    have := sub_tt_isV_hi_cancel ha hP hwa (mul_tf_WF _ _) (by rw [sub_self]; exact repI_zero)
      (by rw [sub_self]; exact abs_zero_le_maxFin)
    rwa [sub_self] at this
  obtain ⟨q2, r2⟩ := divStep_zero r1 hy hU0
  obtain ⟨q3, _⟩ := divStep_zero r2 hy hU0
  exact renorm3_isV q1 q2 q3 (div_WF _ _) (div_WF _ _) (div_WF _ _)
    (by rw [add_zero, rnI_of_repI hcr])

/-- `(H, 0) − (−L, 0)` for a normalised pair `(H, L)`: the 2Sum of the high words is error-free and returns `(H, L)` -/
theorem sub_tt_rebuild {a b : TwoFloat} {H L : ℤ} (ha : a.IsV H 0) (hb : b.IsV (-L) 0) (hwa : a.WF) (hwb : b.WF)
    (hfix : H = rnI (H + L)) (hH : 2 * |H| ≤ (maxFin : ℤ)) (hL : 2 * |L| ≤ (maxFin : ℤ))
    (hLr : RepI L) :
    (arithmetic.impl_Sub_rTwoFloat_for_rTwoFloat.sub a b).IsV H L := by
  rw [sub_tt_eq]
  obtain ⟨s1, s2⟩ := new_sub_words ha.1.1 hb.1.1 hwa.1 hwb.1 (by rw [ha.1.2]; exact hH)
    (by rw [hb.1.2, abs_neg]; exact hL)
  rw [ha.1.2, hb.1.2, sub_neg_eq_add, ← hfix] at s1 s2
  rw [add_sub_cancel_left] at s2
  have t := new_sub_isV_exact ha.2 hb.2 hwa.2 hwb.2 (by rw [sub_self]; exact repI_zero)
    (by rw [sub_self]; exact abs_zero_le_maxFin)
  rw [sub_self] at t
  have hHm : |H| ≤ (maxFin : ℤ) := by have := abs_nonneg H; omega
  have hLm : |L| ≤ (maxFin : ℤ) := by have := abs_nonneg L; omega
  unfold addCore
  have hc : IsVal (F64.add (TwoFloat.new_sub a.hi b.hi).lo (TwoFloat.new_sub a.lo b.lo).hi) L := by
    have := s2.add_exact t.1 (by rw [add_zero]; exact hLr) (by rw [add_zero]; exact hLm)
    rwa [add_zero] at this
  have hv := f2s_isV_fixed s1 hc (new_sub_WF _ _).1 (add_WF _ _) hfix
  have hw' : IsVal (F64.add (TwoFloat.new_sub a.lo b.lo).lo
      (arithmetic.fast_two_sum (TwoFloat.new_sub a.hi b.hi).hi
        (F64.add (TwoFloat.new_sub a.hi b.hi).lo (TwoFloat.new_sub a.lo b.lo).hi)).lo) L := by
    have := t.2.add_exact hv.2 (by rw [zero_add]; exact hLr) (by rw [zero_add]; exact hLm)
    rwa [zero_add] at this
  exact f2s_isV_fixed hv.1 hw' (fast_two_sum_WF _ _).1 (add_WF _ _) hfix

/-- `x + 1.0` for a normalised tiny pair `x = (H, L)` (`|H| ≤ 2^-55`): `(1, H)` — the low word `L` is absorbed -/
theorem add_tf_one_tiny {x : TwoFloat} {H L : ℤ} (hx : x.IsV H L) (hwx : x.WF) (hfix : H = rnI (H + L))
    (hH : 2 ^ 55 * |H| ≤ (unit : ℤ)) :
    (arithmetic.impl_Add_rf64_for_rTwoFloat.add x (f64lit 0x3ff0000000000000)).IsV (unit : ℤ) H := by
  have hUe := C01d.unit_int_eq
  have hUp := unit_pos_int
  have hHr := hx.1.repI hwx.1
  have hm : (2 : ℤ) ^ 1090 ≤ (maxFin : ℤ) := two_pow_le_maxFin' (k := 1090) (by norm_num)
  have hHb : |H| ≤ 2 ^ 1019 := by
    have e : (2 : ℤ) ^ 1074 = 2 ^ 55 * 2 ^ 1019 := by norm_num
    rw [hUe, e] at hH
    exact le_of_mul_le_mul_left hH (by positivity)
  have hfixU : (unit : ℤ) = rnI ((unit : ℤ) + H) := by
    rw [rnI_add_small repI_unit (by rw [abs_of_pos hUp]; exact hH)]
  rw [add_tf_eq]
  obtain ⟨s1, s2⟩ := new_add_words hx.1.1 C01d.one_isVal.1 hwx.1 C01d.one_WF
    (by rw [hx.1.2]; have : (2 : ℤ) ^ 1020 ≤ 2 ^ 1090 := by norm_num
        omega)
    (by rw [C01d.one_isVal.2, hUe]; have : 2 * (2 : ℤ) ^ 1074 ≤ 2 ^ 1090 := by norm_num
        rw [abs_of_pos (by positivity)]; omega)
  rw [hx.1.2, C01d.one_isVal.2, add_comm H, ← hfixU] at s1 s2
  rw [add_sub_cancel_left] at s2
  have hv : IsVal (F64.add x.lo (TwoFloat.new_add x.hi (f64lit 0x3ff0000000000000)).lo) H := by
    have := hx.2.add s2 (by
      have hL := hx.2.abs_le hwx.2
      have := abs_add_le L H
      have : (2 : ℤ) ^ 1019 ≤ 2 ^ 1090 := by norm_num
      have e := abs_rnI_le_two_mul (H + L)
      rw [← hfix] at e
      have t : |L| ≤ |H + L| + |H| := by
        have := abs_add_le (H + L) (-H); rwa [abs_neg, add_neg_cancel_comm] at this
      rw [add_comm L H]
      have t2 := abs_add_le H L
      have hLb : |L| ≤ |H| := by
        by_cases h0 : H = 0
        · have h1 : rnI (H + L) = 0 := by rw [← hfix]; exact h0
          have h2 : H + L = 0 := rnI_eq_zero_iff.1 h1
          have : L = 0 := by omega
          rw [this, h0]
        · have r := rel_err_rnI (H + L)
          rw [← hfix] at r
          have e2 : H - (H + L) = -L := by ring
          rw [e2, abs_neg] at r
          have := abs_nonneg H
          omega
      omega)
    rwa [add_comm L H, ← hfix] at this
  exact f2s_isV_fixed s1 hv (new_add_WF _ _).1 (add_WF _ _) hfixU

end Slivers2
