/-
Lemmas.Cmp — helper lemmas for property C06 (comparisons, min/max, abs, sign functions).

Stage 1: pure case analysis on the generated comparison code (`TwoFloat.is_valid` is treated as an
opaque Bool).  Stage 2: value semantics (`F64.toInt`, `TwoFloat.V`) for finite words.
-/
import TFV.Spec.Defs
import TFV.Spec.Rounding
import Mathlib.Tactic.Ring
import Mathlib.Tactic.Linarith
import Mathlib.Algebra.Order.Group.Abs
import Mathlib.Algebra.Order.Ring.Abs

/-! ## orderings -/

namespace ROrdering

/-- the converse ordering -/
def swap : ROrdering → ROrdering
  | Less => Greater
  | Equal => Equal
  | Greater => Less

@[simp] theorem swap_swap (o : ROrdering) : o.swap.swap = o := by cases o <;> rfl
@[simp] theorem swap_Less : Less.swap = Greater := rfl
@[simp] theorem swap_Equal : Equal.swap = Equal := rfl
@[simp] theorem swap_Greater : Greater.swap = Less := rfl

/-- three-way comparison of integers -/
def ofInts (x y : Int) : ROrdering :=
  if x < y then Less else if x = y then Equal else Greater

theorem ofInts_swap (x y : Int) : ofInts y x = (ofInts x y).swap := by
  unfold ofInts
  by_cases h1 : x < y
  · have h2 : ¬ y < x := by omega
    have h3 : ¬ y = x := by omega
    simp [h1, h2, h3]
  · by_cases h2 : x = y
    · subst h2; simp
    · have h3 : y < x := by omega
      simp [h1, h2, h3]

theorem ofInts_eq_Less {x y : Int} : ofInts x y = Less ↔ x < y := by
  unfold ofInts
  by_cases h1 : x < y
  · simp [h1]
  · by_cases h2 : x = y <;> simp [h1, h2]

theorem ofInts_eq_Equal {x y : Int} : ofInts x y = Equal ↔ x = y := by
  unfold ofInts
  by_cases h1 : x < y
  · have : x ≠ y := by omega
    simp [h1, this]
  · by_cases h2 : x = y <;> simp [h1, h2]

theorem ofInts_eq_Greater {x y : Int} : ofInts x y = Greater ↔ y < x := by
  unfold ofInts
  by_cases h1 : x < y
  · have : ¬ y < x := by omega
    simp [h1, this]
  · by_cases h2 : x = y
    · subst h2; simp
    · have : y < x := by omega
      simp [h1, h2, this]

theorem ofInts_self (x : Int) : ofInts x x = Equal := ofInts_eq_Equal.mpr rfl

theorem ofInts_neg_neg (x y : Int) : ofInts (-x) (-y) = (ofInts x y).swap := by
  rw [← ofInts_swap]
  unfold ofInts
  by_cases h1 : y < x
  · have h2 : -x < -y := by omega
    simp [h1, h2]
  · by_cases h2 : y = x
    · subst h2; simp
    · have h3 : ¬ -x < -y := by omega
      have h4 : ¬ -x = -y := by omega
      simp [h1, h2, h3, h4]

/-- `ofInts x y` only depends on `x - y` -/
theorem ofInts_sub (x y : Int) : ofInts x y = ofInts (x - y) 0 := by
  unfold ofInts
  by_cases h1 : x < y
  · have h2 : x - y < 0 := by omega
    simp [h1, h2]
  · by_cases h2 : x = y
    · subst h2; simp
    · have h3 : ¬ x - y < 0 := by omega
      have h4 : ¬ x - y = 0 := by omega
      simp [h1, h2, h3, h4]

end ROrdering

namespace ROrd

/-- converse of an optional ordering -/
def swap (p : Option ROrdering) : Option ROrdering := p.map ROrdering.swap

@[simp] theorem swap_none : swap none = none := rfl
@[simp] theorem swap_some (o : ROrdering) : swap (some o) = some o.swap := rfl
@[simp] theorem swap_swap (p : Option ROrdering) : swap (swap p) = p := by
  cases p with
  | none => rfl
  | some o => simp

theorem isLt_swap (p : Option ROrdering) : isLt (swap p) = isGt p := by
  rcases p with _ | o
  · rfl
  · cases o <;> rfl
theorem isGt_swap (p : Option ROrdering) : isGt (swap p) = isLt p := by
  rcases p with _ | o
  · rfl
  · cases o <;> rfl
theorem isLe_swap (p : Option ROrdering) : isLe (swap p) = isGe p := by
  rcases p with _ | o
  · rfl
  · cases o <;> rfl
theorem isGe_swap (p : Option ROrdering) : isGe (swap p) = isLe p := by
  rcases p with _ | o
  · rfl
  · cases o <;> rfl

theorem swap_eq_some_Equal {p : Option ROrdering} : swap p = some .Equal ↔ p = some .Equal := by
  rcases p with _ | o
  · simp
  · cases o <;> simp

theorem isLe_eq (p : Option ROrdering) : isLe p = (isLt p || (p == some .Equal)) := by
  rcases p with _ | o
  · rfl
  · cases o <;> rfl
theorem isGe_eq (p : Option ROrdering) : isGe p = (isGt p || (p == some .Equal)) := by
  rcases p with _ | o
  · rfl
  · cases o <;> rfl

end ROrd

/-! ## F64 comparisons -/

namespace F64

theorem f64lit_zero : f64lit 0x0000000000000000 = fin false 0 := by decide

@[simp] theorem req_eq (x y : F64) : (x ==. y) = F64.eq x y := rfl
@[simp] theorem rpc_eq (x y : F64) : RPartialOrd.partial_cmp x y = F64.partial_cmp x y := rfl

theorem rlt_eq (x y : F64) : (x <. y) = ROrd.isLt (F64.partial_cmp x y) := by
  show (match F64.partial_cmp x y with | some .Less => true | _ => false) = _
  rcases F64.partial_cmp x y with _ | o
  · rfl
  · cases o <;> rfl
theorem rgt_eq (x y : F64) : (x >. y) = ROrd.isGt (F64.partial_cmp x y) := by
  show (match F64.partial_cmp x y with | some .Greater => true | _ => false) = _
  rcases F64.partial_cmp x y with _ | o
  · rfl
  · cases o <;> rfl

theorem partial_cmp_fin (s t : Bool) (a b : Nat) :
    F64.partial_cmp (fin s a) (fin t b) = some (ROrdering.ofInts (fin s a).toInt (fin t b).toInt) := rfl

/-- IEEE comparison is antisymmetric: swapping the operands gives the converse ordering -/
theorem partial_cmp_swap (x y : F64) : F64.partial_cmp y x = ROrd.swap (F64.partial_cmp x y) := by
  cases x with
  | nan => cases y <;> rfl
  | inf s =>
    cases y with
    | nan => rfl
    | inf t => cases s <;> cases t <;> rfl
    | fin t b => cases s <;> rfl
  | fin s a =>
    cases y with
    | nan => rfl
    | inf t => cases t <;> rfl
    | fin t b =>
      rw [partial_cmp_fin, partial_cmp_fin, ROrdering.ofInts_swap]; rfl

theorem eq_def (x y : F64) : F64.eq x y = (F64.partial_cmp x y == some .Equal) := rfl

theorem eq_true_iff {x y : F64} : F64.eq x y = true ↔ F64.partial_cmp x y = some .Equal := by
  rw [eq_def]; exact beq_iff_eq

/-- `==` on f64 is symmetric -/
theorem eq_symm (x y : F64) : F64.eq x y = F64.eq y x := by
  rw [eq_def, eq_def, partial_cmp_swap x y]
  rcases F64.partial_cmp x y with _ | o
  · rfl
  · cases o <;> rfl

theorem partial_cmp_nan_left (y : F64) : F64.partial_cmp nan y = none := by cases y <;> rfl
theorem partial_cmp_nan_right (x : F64) : F64.partial_cmp x nan = none := by cases x <;> rfl

theorem partial_cmp_eq_none_iff {x y : F64} :
    F64.partial_cmp x y = none ↔ x = nan ∨ y = nan := by
  cases x <;> cases y <;> simp [F64.partial_cmp]

theorem lt_eq_isLt (x y : F64) : F64.lt x y = ROrd.isLt (F64.partial_cmp x y) := by
  unfold F64.lt
  rcases F64.partial_cmp x y with _ | o
  · rfl
  · cases o <;> rfl
theorem gt_eq_isGt (x y : F64) : F64.gt x y = ROrd.isGt (F64.partial_cmp x y) := by
  unfold F64.gt
  rcases F64.partial_cmp x y with _ | o
  · rfl
  · cases o <;> rfl
theorem le_eq_isLe (x y : F64) : F64.le x y = ROrd.isLe (F64.partial_cmp x y) := by
  unfold F64.le
  rcases F64.partial_cmp x y with _ | o
  · rfl
  · cases o <;> rfl
theorem ge_eq_isGe (x y : F64) : F64.ge x y = ROrd.isGe (F64.partial_cmp x y) := by
  unfold F64.ge
  rcases F64.partial_cmp x y with _ | o
  · rfl
  · cases o <;> rfl

theorem lt_swap (x y : F64) : F64.lt x y = F64.gt y x := by
  rw [lt_eq_isLt, gt_eq_isGt, partial_cmp_swap x y, ROrd.isGt_swap]
theorem le_swap (x y : F64) : F64.le x y = F64.ge y x := by
  rw [le_eq_isLe, ge_eq_isGe, partial_cmp_swap x y, ROrd.isGe_swap]

@[simp] theorem neg_neg (x : F64) : F64.neg (F64.neg x) = x := by
  cases x <;> simp [F64.neg]

@[simp] theorem abs_abs (x : F64) : F64.abs (F64.abs x) = F64.abs x := by
  cases x <;> rfl

theorem is_sign_negative_eq_not_pos (x : F64) : x.is_sign_negative = !x.is_sign_positive := by
  simp [F64.is_sign_positive]

theorem is_sign_positive_neg {x : F64} (h : x ≠ nan) :
    (F64.neg x).is_sign_positive = !x.is_sign_positive := by
  cases x with
  | nan => exact absurd rfl h
  | inf s => simp [F64.neg, F64.is_sign_positive, F64.is_sign_negative]
  | fin s n => simp [F64.neg, F64.is_sign_positive, F64.is_sign_negative]

end F64

/-! ## TwoFloat comparisons: normal forms (Stage 1, `is_valid` opaque) -/

namespace TwoFloat

/-- some word of `a` or `b` is NaN -/
def anyNan (a b : TwoFloat) : Bool :=
  a.hi.is_nan || a.lo.is_nan || b.hi.is_nan || b.lo.is_nan

theorem anyNan_symm (a b : TwoFloat) : anyNan a b = anyNan b a := by
  unfold anyNan
  cases a.hi.is_nan <;> cases a.lo.is_nan <;> cases b.hi.is_nan <;> cases b.lo.is_nan <;> rfl

theorem is_nan_iff {x : F64} : x.is_nan = true ↔ x = F64.nan := by
  cases x <;> simp [F64.is_nan]

theorem anyNan_iff {a b : TwoFloat} :
    anyNan a b = true ↔ (a.hi = F64.nan ∨ a.lo = F64.nan ∨ b.hi = F64.nan ∨ b.lo = F64.nan) := by
  unfold anyNan
  simp only [Bool.or_eq_true, is_nan_iff, or_assoc]

/-- lexicographic combination of two word comparisons: the second decides when the first is `Equal` -/
def lex (p q : Option ROrdering) : Option ROrdering :=
  if p == some ROrdering.Equal then q else p

theorem lex_swap (p q : Option ROrdering) : lex (ROrd.swap p) (ROrd.swap q) = ROrd.swap (lex p q) := by
  unfold lex
  rcases p with _ | o
  · rfl
  · cases o <;> rfl

theorem lex_eq_some_Equal {p q : Option ROrdering} :
    lex p q = some .Equal ↔ p = some .Equal ∧ q = some .Equal := by
  unfold lex
  rcases p with _ | o
  · simp
  · cases o <;> simp

/-- normal form of `TwoFloat == TwoFloat` -/
theorem eq_nf (a b : TwoFloat) :
    base.impl_PartialEq_TwoFloat_for_TwoFloat.eq a b =
      (if anyNan a b then false
       else if TwoFloat.is_valid a != TwoFloat.is_valid b then false
       else if TwoFloat.is_valid a then F64.eq a.hi b.hi && F64.eq a.lo b.lo
       else true) := by
  unfold base.impl_PartialEq_TwoFloat_for_TwoFloat.eq anyNan
  show (if ((((TwoFloat.is_valid a != TwoFloat.is_valid b) || _) || _) || _) || _ then _ else _) = _
  simp only [F64.req_eq]
  generalize TwoFloat.is_valid a = va
  generalize TwoFloat.is_valid b = vb
  cases va <;> cases vb <;>
    cases a.hi.is_nan <;> cases a.lo.is_nan <;> cases b.hi.is_nan <;> cases b.lo.is_nan <;> rfl

/-- normal form of `TwoFloat::partial_cmp(&TwoFloat)` -/
theorem partial_cmp_nf (a b : TwoFloat) :
    base.impl_PartialOrd_TwoFloat_for_TwoFloat.partial_cmp a b =
      (if anyNan a b then none
       else match TwoFloat.is_valid a, TwoFloat.is_valid b with
         | true, true => lex (F64.partial_cmp a.hi b.hi) (F64.partial_cmp a.lo b.lo)
         | true, false => some .Less
         | false, true => some .Greater
         | false, false => some .Equal) := by
  unfold base.impl_PartialOrd_TwoFloat_for_TwoFloat.partial_cmp anyNan lex
  simp only [F64.rpc_eq]
  generalize TwoFloat.is_valid a = va
  generalize TwoFloat.is_valid b = vb
  by_cases hn : (a.hi.is_nan || a.lo.is_nan || b.hi.is_nan || b.lo.is_nan) = true
  · simp only [hn, if_true]
  · simp only [hn]
    cases va <;> cases vb <;> try rfl
    rcases F64.partial_cmp a.hi b.hi with _ | o
    · rfl
    · cases o <;> rfl

/-- normal form of `TwoFloat::partial_cmp(&f64)` -/
theorem partial_cmp_tf_nf (t : TwoFloat) (c : F64) :
    base.impl_PartialOrd_f64_for_TwoFloat.partial_cmp t c =
      lex (F64.partial_cmp t.hi c) (F64.partial_cmp t.lo (F64.fin false 0)) := by
  unfold base.impl_PartialOrd_f64_for_TwoFloat.partial_cmp lex
  simp only [F64.rpc_eq, F64.f64lit_zero]

/-- normal form of `f64::partial_cmp(&TwoFloat)` -/
theorem partial_cmp_ft_nf (c : F64) (t : TwoFloat) :
    base.impl_PartialOrd_TwoFloat_for_f64.partial_cmp c t =
      lex (F64.partial_cmp c t.hi) (F64.partial_cmp (F64.fin false 0) t.lo) := by
  unfold base.impl_PartialOrd_TwoFloat_for_f64.partial_cmp lex
  simp only [F64.rpc_eq, F64.f64lit_zero]

theorem eq_tf_nf (t : TwoFloat) (c : F64) :
    base.impl_PartialEq_f64_for_TwoFloat.eq t c =
      (F64.eq t.hi c && F64.eq t.lo (F64.fin false 0)) := by
  unfold base.impl_PartialEq_f64_for_TwoFloat.eq
  simp only [F64.req_eq, F64.f64lit_zero]

theorem eq_ft_nf (c : F64) (t : TwoFloat) :
    base.impl_PartialEq_TwoFloat_for_f64.eq c t =
      (F64.eq c t.hi && F64.eq t.lo (F64.fin false 0)) := by
  unfold base.impl_PartialEq_TwoFloat_for_f64.eq
  simp only [F64.req_eq, F64.f64lit_zero]

end TwoFloat

/-! ## Stage 2 — value semantics of the f64 comparisons on finite words -/

namespace ROrdering

/-- Lean's `Ordering` as a Rust `Ordering` -/
def ofOrdering : Ordering → ROrdering
  | .lt => Less
  | .eq => Equal
  | .gt => Greater

/-- `ofInts` is Lean's `compare` on `Int` -/
theorem ofInts_eq_compare (x y : Int) : ofInts x y = ofOrdering (compare x y) := by
  unfold ofInts
  by_cases h1 : x < y
  · rw [if_pos h1, compare_lt_iff_lt.mpr h1]; rfl
  · by_cases h2 : x = y
    · rw [if_neg h1, if_pos h2, compare_eq_iff_eq.mpr h2]; rfl
    · have h3 : y < x := by omega
      rw [if_neg h1, if_neg h2, compare_gt_iff_gt.mpr h3]; rfl

end ROrdering

namespace ROrd
theorem isLt_some_iff {o : ROrdering} : isLt (some o) = true ↔ o = .Less := by cases o <;> simp [isLt]
theorem isGt_some_iff {o : ROrdering} : isGt (some o) = true ↔ o = .Greater := by cases o <;> simp [isGt]
theorem isLe_some_iff {o : ROrdering} : isLe (some o) = true ↔ o ≠ .Greater := by cases o <;> simp [isLe]
theorem isGe_some_iff {o : ROrdering} : isGe (some o) = true ↔ o ≠ .Less := by cases o <;> simp [isGe]

theorem isLt_ofInts {x y : Int} : isLt (some (ROrdering.ofInts x y)) = true ↔ x < y := by
  rw [isLt_some_iff, ROrdering.ofInts_eq_Less]
theorem isGt_ofInts {x y : Int} : isGt (some (ROrdering.ofInts x y)) = true ↔ y < x := by
  rw [isGt_some_iff, ROrdering.ofInts_eq_Greater]
theorem isLe_ofInts {x y : Int} : isLe (some (ROrdering.ofInts x y)) = true ↔ x ≤ y := by
  rw [isLe_some_iff, Ne, ROrdering.ofInts_eq_Greater]; omega
theorem isGe_ofInts {x y : Int} : isGe (some (ROrdering.ofInts x y)) = true ↔ y ≤ x := by
  rw [isGe_some_iff, Ne, ROrdering.ofInts_eq_Less]; omega
end ROrd

namespace F64

theorem is_finite_iff {x : F64} : x.is_finite = true ↔ ∃ s n, x = fin s n := by
  cases x <;> simp [is_finite]

/-- comparison of finite doubles is comparison of their scaled-integer values -/
theorem partial_cmp_finite {x y : F64} (hx : x.is_finite = true) (hy : y.is_finite = true) :
    F64.partial_cmp x y = some (ROrdering.ofInts x.toInt y.toInt) := by
  obtain ⟨s, a, rfl⟩ := is_finite_iff.mp hx
  obtain ⟨t, b, rfl⟩ := is_finite_iff.mp hy
  rfl

theorem partial_cmp_finite_compare {x y : F64} (hx : x.is_finite = true) (hy : y.is_finite = true) :
    F64.partial_cmp x y = some (ROrdering.ofOrdering (compare x.toInt y.toInt)) := by
  rw [partial_cmp_finite hx hy, ROrdering.ofInts_eq_compare]

theorem eq_iff_toInt {x y : F64} (hx : x.is_finite = true) (hy : y.is_finite = true) :
    F64.eq x y = true ↔ x.toInt = y.toInt := by
  rw [eq_true_iff, partial_cmp_finite hx hy, Option.some.injEq, ROrdering.ofInts_eq_Equal]

theorem ne_iff_toInt {x y : F64} (hx : x.is_finite = true) (hy : y.is_finite = true) :
    F64.ne x y = true ↔ x.toInt ≠ y.toInt := by
  unfold F64.ne
  rw [Bool.not_eq_true', ← Bool.not_eq_true, eq_iff_toInt hx hy]

theorem lt_iff_toInt {x y : F64} (hx : x.is_finite = true) (hy : y.is_finite = true) :
    F64.lt x y = true ↔ x.toInt < y.toInt := by
  rw [lt_eq_isLt, partial_cmp_finite hx hy, ROrd.isLt_ofInts]
theorem le_iff_toInt {x y : F64} (hx : x.is_finite = true) (hy : y.is_finite = true) :
    F64.le x y = true ↔ x.toInt ≤ y.toInt := by
  rw [le_eq_isLe, partial_cmp_finite hx hy, ROrd.isLe_ofInts]
theorem gt_iff_toInt {x y : F64} (hx : x.is_finite = true) (hy : y.is_finite = true) :
    F64.gt x y = true ↔ y.toInt < x.toInt := by
  rw [gt_eq_isGt, partial_cmp_finite hx hy, ROrd.isGt_ofInts]
theorem ge_iff_toInt {x y : F64} (hx : x.is_finite = true) (hy : y.is_finite = true) :
    F64.ge x y = true ↔ y.toInt ≤ x.toInt := by
  rw [ge_eq_isGe, partial_cmp_finite hx hy, ROrd.isGe_ofInts]

@[simp] theorem toInt_neg (x : F64) : (F64.neg x).toInt = - x.toInt := by
  cases x with
  | nan => rfl
  | inf s => rfl
  | fin s n => cases s <;> simp [F64.neg, toInt]

@[simp] theorem toInt_abs (x : F64) : (F64.abs x).toInt = |x.toInt| := by
  cases x with
  | nan => rfl
  | inf s => rfl
  | fin s n => cases s <;> simp [F64.abs, toInt]

@[simp] theorem toInt_zero (s : Bool) : (fin s 0).toInt = 0 := by cases s <;> rfl

@[simp] theorem is_finite_neg (x : F64) : (F64.neg x).is_finite = x.is_finite := by cases x <;> rfl
@[simp] theorem is_finite_abs (x : F64) : (F64.abs x).is_finite = x.is_finite := by cases x <;> rfl
@[simp] theorem is_finite_fin (s : Bool) (n : Nat) : (fin s n).is_finite = true := rfl

/-- the sign bit of a finite double with non-zero value is the sign of the value -/
theorem is_sign_negative_iff_toInt {x : F64} (hx : x.is_finite = true) (h0 : x.toInt ≠ 0) :
    x.is_sign_negative = true ↔ x.toInt < 0 := by
  obtain ⟨s, n, rfl⟩ := is_finite_iff.mp hx
  cases s
  · simp [is_sign_negative, toInt] at h0 ⊢
  · simp [is_sign_negative, toInt] at h0 ⊢; omega

theorem toInt_nonpos_of_sign_negative {x : F64} (h : x.is_sign_negative = true) : x.toInt ≤ 0 := by
  cases x with
  | nan => simp [toInt]
  | inf s => simp [toInt]
  | fin s n => cases s <;> simp [is_sign_negative, toInt] at h ⊢

theorem toInt_nonneg_of_sign_positive {x : F64} (h : x.is_sign_positive = true) : 0 ≤ x.toInt := by
  cases x with
  | nan => simp [toInt]
  | inf s => simp [toInt]
  | fin s n => cases s <;> simp [is_sign_positive, is_sign_negative, toInt] at h ⊢

/-- comparison with +0 -/
theorem gt_zero_iff {x : F64} (hx : x.is_finite = true) : F64.gt x (fin false 0) = true ↔ 0 < x.toInt := by
  rw [gt_iff_toInt hx rfl]; rfl
theorem eq_zero_iff {x : F64} (hx : x.is_finite = true) : F64.eq x (fin false 0) = true ↔ x.toInt = 0 := by
  rw [eq_iff_toInt hx rfl]; rfl

end F64

/-! ## Stage 2 — signed rounding and the spec-level validity `hi = RN(hi + lo)` -/

namespace F64

/-- signed round-to-nearest-even on scaled integers (no overflow handling) -/
def rnI (v : Int) : Int :=
  if v < 0 then -((rn53 v.natAbs : Nat) : Int) else ((rn53 v.natAbs : Nat) : Int)

@[simp] theorem rnI_zero : rnI 0 = 0 := by simp [rnI, rn53_zero]

theorem rnI_of_nonneg {v : Int} (h : 0 ≤ v) : rnI v = ((rn53 v.natAbs : Nat) : Int) := by
  unfold rnI; rw [if_neg (by omega)]
theorem rnI_of_neg {v : Int} (h : v < 0) : rnI v = -((rn53 v.natAbs : Nat) : Int) := by
  unfold rnI; rw [if_pos h]

theorem rnI_neg (v : Int) : rnI (-v) = - rnI v := by
  rcases Int.lt_trichotomy v 0 with h | h | h
  · rw [rnI_of_neg h, rnI_of_nonneg (by omega), Int.natAbs_neg]; omega
  · subst h; simp
  · rw [rnI_of_neg (by omega : -v < 0), rnI_of_nonneg (by omega), Int.natAbs_neg]

theorem rnI_nonneg {v : Int} (h : 0 ≤ v) : 0 ≤ rnI v := by
  rw [rnI_of_nonneg h]; exact Int.natCast_nonneg _
theorem rnI_nonpos {v : Int} (h : v ≤ 0) : rnI v ≤ 0 := by
  rcases Int.lt_or_eq_of_le h with h | h
  · rw [rnI_of_neg h]; have := Int.natCast_nonneg (rn53 v.natAbs); omega
  · subst h; simp

/-- `0 < RN(v)` forces `0 < v` (no rounding theory needed) -/
theorem pos_of_rnI_pos {v : Int} (h : 0 < rnI v) : 0 < v := by
  by_contra hc
  have := rnI_nonpos (by omega : v ≤ 0); omega
theorem neg_of_rnI_neg {v : Int} (h : rnI v < 0) : v < 0 := by
  by_contra hc
  have := rnI_nonneg (by omega : 0 ≤ v); omega

/-- The three facts about `rn53` (round to 53 significant bits) used by the order theory of valid
pairs.  They are supplied by `TFV.Spec.Rounding` (`rn53_mono`, `rn53_of_rep`, `rn53_pos`). -/
structure RoundFacts : Prop where
  mono : ∀ {m n : Nat}, m ≤ n → rn53 m ≤ rn53 n
  rep : ∀ {n : Nat}, Rep n → rn53 n = n
  pos : ∀ {n : Nat}, 0 < n → 0 < rn53 n

namespace RoundFacts
variable (R : RoundFacts)
include R

theorem rnI_mono {v w : Int} (h : v ≤ w) : rnI v ≤ rnI w := by
  by_cases hv : v < 0
  · by_cases hw : w < 0
    · rw [rnI_of_neg hv, rnI_of_neg hw]
      have : rn53 w.natAbs ≤ rn53 v.natAbs := R.mono (by omega)
      omega
    · have := rnI_nonpos (by omega : v ≤ 0)
      have := rnI_nonneg (by omega : 0 ≤ w)
      omega
  · rw [rnI_of_nonneg (by omega), rnI_of_nonneg (by omega)]
    have : rn53 v.natAbs ≤ rn53 w.natAbs := R.mono (by omega)
    omega

theorem rnI_pos {v : Int} (h : 0 < v) : 0 < rnI v := by
  rw [rnI_of_nonneg (by omega)]
  have : 0 < rn53 v.natAbs := R.pos (by omega)
  omega

theorem rnI_neg' {v : Int} (h : v < 0) : rnI v < 0 := by
  rw [rnI_of_neg h]
  have : 0 < rn53 v.natAbs := R.pos (by omega)
  omega

theorem rnI_eq_zero_iff {v : Int} : rnI v = 0 ↔ v = 0 := by
  constructor
  · intro h
    rcases Int.lt_trichotomy v 0 with hv | hv | hv
    · have := R.rnI_neg' hv; omega
    · exact hv
    · have := R.rnI_pos hv; omega
  · rintro rfl; simp

theorem rnI_pos_iff {v : Int} : 0 < rnI v ↔ 0 < v := ⟨pos_of_rnI_pos, R.rnI_pos⟩
theorem rnI_neg_iff {v : Int} : rnI v < 0 ↔ v < 0 := ⟨neg_of_rnI_neg, R.rnI_neg'⟩

/-- a representable value rounds to itself -/
theorem rnI_toInt {c : F64} (hc : c.WF) : rnI c.toInt = c.toInt := by
  cases c with
  | nan => simp [toInt]
  | inf s => simp [toInt]
  | fin s n =>
    have hr : rn53 n = n := R.rep hc.1
    cases s
    · rw [rnI_of_nonneg (by simp [toInt])]; simp [toInt, hr]
    · by_cases hn : n = 0
      · subst hn; simp [toInt]
      · rw [rnI_of_neg (by simp [toInt]; omega)]; simp [toInt, hr]

end RoundFacts

end F64

namespace TwoFloat

/-- the spec-level validity `hi = RN(hi + lo)` in scaled integers -/
theorem Valid.hi_toInt {t : TwoFloat} (h : t.Valid) : t.hi.toInt = F64.rnI t.V := by
  obtain ⟨h1, h2, h3⟩ := h
  rcases t with ⟨hi, lo⟩
  simp only at h1 h2 h3
  obtain ⟨s, a, rfl⟩ := F64.is_finite_iff.mp h1
  obtain ⟨u, b, rfl⟩ := F64.is_finite_iff.mp h2
  unfold V
  simp only
  generalize hv : (F64.fin s a).toInt + (F64.fin u b).toInt = v
  have hadd : F64.add (F64.fin s a) (F64.fin u b) = F64.roundSigned v 1 (s && u) := by
    rw [← hv]; rfl
  unfold F64.addEq at h3
  rw [hadd] at h3
  unfold F64.roundSigned at h3
  by_cases h0 : v = 0
  · rw [if_pos h0] at h3
    have := (F64.eq_iff_toInt (x := F64.fin (s && u) 0) rfl rfl).mp h3
    rw [h0, F64.rnI_zero, ← this, F64.toInt_zero]
  · rw [if_neg h0] at h3
    unfold F64.pack at h3
    by_cases hm : F64.roundQ v.natAbs 1 > F64.maxFin
    · rw [if_pos hm] at h3
      exact absurd h3 (by cases decide (v < 0) <;> simp [F64.eq, F64.partial_cmp])
    · rw [if_neg hm] at h3
      have := (F64.eq_iff_toInt (x := F64.fin (decide (v < 0)) (F64.roundQ v.natAbs 1)) rfl rfl).mp h3
      rw [← this]
      by_cases hneg : v < 0
      · rw [F64.rnI_of_neg hneg]; simp [hneg, F64.toInt, F64.rn53]
      · rw [F64.rnI_of_nonneg (by omega)]; simp [hneg, F64.toInt, F64.rn53]

theorem Valid.hi_finite {t : TwoFloat} (h : t.Valid) : t.hi.is_finite = true := h.1
theorem Valid.lo_finite {t : TwoFloat} (h : t.Valid) : t.lo.is_finite = true := h.2.1

theorem Valid.not_anyNan {a b : TwoFloat} (ha : a.Valid) (hb : b.Valid) : anyNan a b = false := by
  obtain ⟨s1, n1, e1⟩ := F64.is_finite_iff.mp ha.1
  obtain ⟨s2, n2, e2⟩ := F64.is_finite_iff.mp ha.2.1
  obtain ⟨s3, n3, e3⟩ := F64.is_finite_iff.mp hb.1
  obtain ⟨s4, n4, e4⟩ := F64.is_finite_iff.mp hb.2.1
  simp [anyNan, e1, e2, e3, e4, F64.is_nan]

/-- T5 (order): for valid pairs a smaller high word means a smaller exact value -/
theorem Valid.V_lt_of_hi_lt (R : F64.RoundFacts) {a b : TwoFloat} (ha : a.Valid) (hb : b.Valid)
    (h : a.hi.toInt < b.hi.toInt) : a.V < b.V := by
  by_contra hc
  have := R.rnI_mono (by omega : b.V ≤ a.V)
  rw [← ha.hi_toInt, ← hb.hi_toInt] at this
  omega

/-- the same against a single (well-formed) double -/
theorem Valid.V_lt_of_hi_lt_f64 (R : F64.RoundFacts) {t : TwoFloat} (ht : t.Valid) {c : F64} (hc : c.WF)
    (h : t.hi.toInt < c.toInt) : t.V < c.toInt := by
  by_contra hcon
  have := R.rnI_mono (by omega : c.toInt ≤ t.V)
  rw [← ht.hi_toInt, R.rnI_toInt hc] at this
  omega

theorem Valid.V_gt_of_hi_gt_f64 (R : F64.RoundFacts) {t : TwoFloat} (ht : t.Valid) {c : F64} (hc : c.WF)
    (h : c.toInt < t.hi.toInt) : c.toInt < t.V := by
  by_contra hcon
  have := R.rnI_mono (by omega : t.V ≤ c.toInt)
  rw [← ht.hi_toInt, R.rnI_toInt hc] at this
  omega

/-- the high word of a valid pair carries the sign of the exact value -/
theorem Valid.hi_pos_iff (R : F64.RoundFacts) {t : TwoFloat} (ht : t.Valid) : 0 < t.hi.toInt ↔ 0 < t.V := by
  rw [ht.hi_toInt]; exact R.rnI_pos_iff
theorem Valid.hi_neg_iff (R : F64.RoundFacts) {t : TwoFloat} (ht : t.Valid) : t.hi.toInt < 0 ↔ t.V < 0 := by
  rw [ht.hi_toInt]; exact R.rnI_neg_iff
theorem Valid.hi_zero_iff (R : F64.RoundFacts) {t : TwoFloat} (ht : t.Valid) : t.hi.toInt = 0 ↔ t.V = 0 := by
  rw [ht.hi_toInt]; exact R.rnI_eq_zero_iff

/-- `0 < hi → 0 < V` and `hi < 0 → V < 0` need no rounding theory -/
theorem Valid.V_pos_of_hi_pos {t : TwoFloat} (ht : t.Valid) (h : 0 < t.hi.toInt) : 0 < t.V := by
  rw [ht.hi_toInt] at h; exact F64.pos_of_rnI_pos h
theorem Valid.V_neg_of_hi_neg {t : TwoFloat} (ht : t.Valid) (h : t.hi.toInt < 0) : t.V < 0 := by
  rw [ht.hi_toInt] at h; exact F64.neg_of_rnI_neg h

@[simp] theorem V_neg (t : TwoFloat) : (arithmetic.impl_Neg_for_rTwoFloat.neg t).V = - t.V := by
  unfold arithmetic.impl_Neg_for_rTwoFloat.neg V
  simp only [F64.toInt_neg]; omega

end TwoFloat

/-! ## Stage 2 — exactness of the TwoFloat comparisons, given `RoundFacts` -/

namespace TwoFloat

open ROrdering in
/-- lexicographic comparison of (hi, lo) equals comparison of hi + lo, provided that a strictly
smaller first component forces a strictly smaller sum (in both directions) -/
theorem lex_ofInts {h1 l1 h2 l2 : Int}
    (hlt : h1 < h2 → h1 + l1 < h2 + l2) (hgt : h2 < h1 → h2 + l2 < h1 + l1) :
    lex (some (ofInts h1 h2)) (some (ofInts l1 l2)) = some (ofInts (h1 + l1) (h2 + l2)) := by
  unfold lex
  rcases Int.lt_trichotomy h1 h2 with h | h | h
  · rw [ofInts_eq_Less.mpr h, ofInts_eq_Less.mpr (hlt h)]; rfl
  · subst h
    rw [ofInts_self]
    simp only [beq_self_eq_true, if_true]
    rw [ofInts_sub l1 l2, ofInts_sub (h1 + l1) (h1 + l2)]
    congr 2; omega
  · rw [ofInts_eq_Greater.mpr h, ofInts_eq_Greater.mpr (hgt h)]; rfl

/-- word-wise comparison of two pairs with finite words -/
theorem lex_words {a b : TwoFloat} (ha1 : a.hi.is_finite = true) (ha2 : a.lo.is_finite = true)
    (hb1 : b.hi.is_finite = true) (hb2 : b.lo.is_finite = true)
    (hlt : a.hi.toInt < b.hi.toInt → a.V < b.V) (hgt : b.hi.toInt < a.hi.toInt → b.V < a.V) :
    lex (F64.partial_cmp a.hi b.hi) (F64.partial_cmp a.lo b.lo) = some (ROrdering.ofInts a.V b.V) := by
  rw [F64.partial_cmp_finite ha1 hb1, F64.partial_cmp_finite ha2 hb2]
  exact lex_ofInts hlt hgt

/-- `partial_cmp` of two valid pairs is the comparison of the exact values -/
theorem partial_cmp_exact_of (R : F64.RoundFacts) {a b : TwoFloat}
    (hva : TwoFloat.is_valid a = true) (hvb : TwoFloat.is_valid b = true) (ha : a.Valid) (hb : b.Valid) :
    base.impl_PartialOrd_TwoFloat_for_TwoFloat.partial_cmp a b = some (ROrdering.ofInts a.V b.V) := by
  rw [partial_cmp_nf, Valid.not_anyNan ha hb, hva, hvb]
  simp only [Bool.false_eq_true, if_false]
  exact lex_words ha.1 ha.2.1 hb.1 hb.2.1 (Valid.V_lt_of_hi_lt R ha hb) (Valid.V_lt_of_hi_lt R hb ha)

/-- the same when the two high words are equal: no rounding theory needed -/
theorem partial_cmp_exact_of_hi_eq {a b : TwoFloat}
    (hva : TwoFloat.is_valid a = true) (hvb : TwoFloat.is_valid b = true) (ha : a.Valid) (hb : b.Valid)
    (h : a.hi.toInt = b.hi.toInt) :
    base.impl_PartialOrd_TwoFloat_for_TwoFloat.partial_cmp a b = some (ROrdering.ofInts a.V b.V) := by
  rw [partial_cmp_nf, Valid.not_anyNan ha hb, hva, hvb]
  simp only [Bool.false_eq_true, if_false]
  exact lex_words ha.1 ha.2.1 hb.1 hb.2.1 (fun h' => by omega) (fun h' => by omega)

/-- `TwoFloat.partial_cmp(&f64)` for a valid pair and a finite well-formed double -/
theorem partial_cmp_tf_exact_of (R : F64.RoundFacts) {t : TwoFloat} (ht : t.Valid) {c : F64}
    (hc : c.WF) (hcf : c.is_finite = true) :
    base.impl_PartialOrd_f64_for_TwoFloat.partial_cmp t c = some (ROrdering.ofInts t.V c.toInt) := by
  rw [partial_cmp_tf_nf]
  have := lex_words (a := t) (b := ⟨c, F64.fin false 0⟩) ht.1 ht.2.1 hcf rfl
    (by simpa [V] using Valid.V_lt_of_hi_lt_f64 R ht hc)
    (by simpa [V] using Valid.V_gt_of_hi_gt_f64 R ht hc)
  simpa [V] using this

/-- the same when `hi = c`: no rounding theory needed -/
theorem partial_cmp_tf_exact_of_hi_eq {t : TwoFloat} (ht : t.Valid) {c : F64}
    (hcf : c.is_finite = true) (h : t.hi.toInt = c.toInt) :
    base.impl_PartialOrd_f64_for_TwoFloat.partial_cmp t c = some (ROrdering.ofInts t.V c.toInt) := by
  rw [partial_cmp_tf_nf]
  have := lex_words (a := t) (b := ⟨c, F64.fin false 0⟩) ht.1 ht.2.1 hcf rfl
    (by intro h'; simp only at h'; omega) (by intro h'; simp only at h'; omega)
  simpa [V] using this

/-- against ±∞ the high word decides -/
theorem partial_cmp_tf_inf {t : TwoFloat} (ht : t.hi.is_finite = true) (s : Bool) :
    base.impl_PartialOrd_f64_for_TwoFloat.partial_cmp t (F64.inf s) =
      some (if s then .Greater else .Less) := by
  rw [partial_cmp_tf_nf]
  obtain ⟨u, n, e⟩ := F64.is_finite_iff.mp ht
  rw [e]
  cases s <;> rfl

end TwoFloat

/-! ## Stage 2 — abs, signs -/

namespace TwoFloat

theorem is_valid_finite {t : TwoFloat} (h : TwoFloat.is_valid t = true) :
    t.hi.is_finite = true ∧ t.lo.is_finite = true := by
  unfold TwoFloat.is_valid at h
  simp only [Bool.and_eq_true] at h
  exact h.1

theorem toInt_eq_zero_iff {s : Bool} {n : Nat} : (F64.fin s n).toInt = 0 ↔ n = 0 := by
  cases s <;> simp [F64.toInt]

/-- code-level validity: a zero high word forces a zero low word (`no_overlap`, `Zero` arm) -/
theorem lo_zero_of_is_valid {t : TwoFloat} (h : TwoFloat.is_valid t = true) (h0 : t.hi.toInt = 0) :
    t.lo.toInt = 0 := by
  have hf := is_valid_finite h
  unfold TwoFloat.is_valid at h
  simp only [Bool.and_eq_true] at h
  have hno := h.2
  obtain ⟨s, n, e⟩ := F64.is_finite_iff.mp hf.1
  rw [e] at h0 hno
  have hn : n = 0 := toInt_eq_zero_iff.mp h0
  subst hn
  have hc : F64.classify (F64.fin s 0) = FpCategory.Zero := rfl
  unfold base.no_overlap at hno
  rw [hc] at hno
  simp only [F64.req_eq, F64.f64lit_zero] at hno
  exact (F64.eq_zero_iff hf.2).mp hno

/-- code- and spec-level validity together: `V = 0` exactly when the high word is zero -/
theorem V_zero_iff_hi_zero {t : TwoFloat} (hv : TwoFloat.is_valid t = true) (ht : t.Valid) :
    t.V = 0 ↔ t.hi.toInt = 0 := by
  constructor
  · intro h
    rcases Int.lt_trichotomy t.hi.toInt 0 with h' | h' | h'
    · have := ht.V_neg_of_hi_neg h'; omega
    · exact h'
    · have := ht.V_pos_of_hi_pos h'; omega
  · intro h
    have := lo_zero_of_is_valid hv h
    unfold V; omega

theorem V_pos_iff_hi_pos {t : TwoFloat} (hv : TwoFloat.is_valid t = true) (ht : t.Valid) :
    0 < t.V ↔ 0 < t.hi.toInt := by
  constructor
  · intro h
    rcases Int.lt_trichotomy t.hi.toInt 0 with h' | h' | h'
    · have := ht.V_neg_of_hi_neg h'; omega
    · have := (V_zero_iff_hi_zero hv ht).mpr h'; omega
    · exact h'
  · exact ht.V_pos_of_hi_pos

theorem V_neg_iff_hi_neg {t : TwoFloat} (hv : TwoFloat.is_valid t = true) (ht : t.Valid) :
    t.V < 0 ↔ t.hi.toInt < 0 := by
  constructor
  · intro h
    rcases Int.lt_trichotomy t.hi.toInt 0 with h' | h' | h'
    · exact h'
    · have := (V_zero_iff_hi_zero hv ht).mpr h'; omega
    · have := ht.V_pos_of_hi_pos h'; omega
  · exact ht.V_neg_of_hi_neg

/-- normal form of `TwoFloat::abs` -/
theorem abs_nf (t : TwoFloat) :
    TwoFloat.abs t =
      if (F64.gt t.hi (F64.fin false 0) ||
          (F64.eq t.hi (F64.fin false 0) && t.hi.is_sign_positive && t.lo.is_sign_positive)) = true
      then t else arithmetic.impl_Neg_for_rTwoFloat.neg t := by
  unfold TwoFloat.abs
  simp only [F64.rgt_eq, F64.req_eq, F64.f64lit_zero, F64.gt_eq_isGt]

/-- the sign bit of the high word of a valid non-zero pair is the sign of the exact value -/
theorem hi_sign_negative_iff {t : TwoFloat} (hv : TwoFloat.is_valid t = true) (ht : t.Valid)
    (h0 : t.V ≠ 0) : t.hi.is_sign_negative = true ↔ t.V < 0 := by
  have hh : t.hi.toInt ≠ 0 := fun h => h0 ((V_zero_iff_hi_zero hv ht).mpr h)
  rw [F64.is_sign_negative_iff_toInt ht.1 hh, V_neg_iff_hi_neg hv ht]

theorem hi_sign_positive_iff {t : TwoFloat} (hv : TwoFloat.is_valid t = true) (ht : t.Valid)
    (h0 : t.V ≠ 0) : t.hi.is_sign_positive = true ↔ 0 < t.V := by
  unfold F64.is_sign_positive
  rw [Bool.not_eq_true', ← Bool.not_eq_true, hi_sign_negative_iff hv ht h0]
  omega

end TwoFloat

/-! ## the rounding facts, from `TFV.Spec.Rounding` -/

namespace F64

theorem roundFacts : RoundFacts where
  mono := fun h => rn53_mono h
  rep := fun h => rn53_of_rep h
  pos := fun h => rn53_pos h

end F64

namespace TwoFloat

/-- T5 (order) -/
theorem Valid.V_lt_of_hi_lt' {a b : TwoFloat} (ha : a.Valid) (hb : b.Valid)
    (h : a.hi.toInt < b.hi.toInt) : a.V < b.V := Valid.V_lt_of_hi_lt F64.roundFacts ha hb h

/-- T5 (uniqueness): valid pairs with the same exact value have the same words up to the sign of zero -/
theorem Valid.words_eq_of_V_eq {a b : TwoFloat} (ha : a.Valid) (hb : b.Valid) (h : a.V = b.V) :
    a.hi.toInt = b.hi.toInt ∧ a.lo.toInt = b.lo.toInt := by
  have h1 : a.hi.toInt = b.hi.toInt := by rw [ha.hi_toInt, hb.hi_toInt, h]
  refine ⟨h1, ?_⟩
  unfold V at h; omega

/-- spec-level validity alone: `V = 0` exactly when the high word is zero -/
theorem Valid.V_zero_iff {t : TwoFloat} (ht : t.Valid) : t.V = 0 ↔ t.hi.toInt = 0 :=
  (Valid.hi_zero_iff F64.roundFacts ht).symm

end TwoFloat
