/-
Lemmas.LnCore — the non-recursive core of `TwoFloat::ln`.

Since the repair of `ln` for arguments below `2^-1000` (where `exp(−x)` overflowed inside the Newton steps) the
function is recursive: `if self.hi < 2^-1000 { (self * 2^200).ln() − 200·LN_2 } else { Newton body }`, and the model is
`TwoFloat.ln = TwoFloat.ln.go 8` with a fuel argument.  This file

* defines `TwoFloat.lnCore` / `TwoFloat.lnCore.pf` : the three leading tests (`== 1`, `<= 0`) followed by the Newton body
  (the function `ln` of the crate before the repair);
* unfolds `ln.go` once: `ln_go_succ_of_ge` (`fuel + 1`, high word not below `2^-1000`: `ln.go = lnCore`),
  `ln_go_succ_tiny` (the new branch), and hence `ln_eq_lnCore`, `ln_pf_eq_lnCore`, `ln_tiny_eq`, `ln_pf_tiny_eq`.

Nothing here needs arithmetic: the statements are about the branch structure only.
-/
import TFV.Gen

/-- the body of `TwoFloat::ln` without the rescaling branch for tiny arguments -/
def TwoFloat.lnCore (self : TwoFloat) : TwoFloat :=
  if base.impl_PartialEq_f64_for_TwoFloat.eq self (f64lit 0x3ff0000000000000) then
    convert.impl_From_f64_for_TwoFloat.from (f64lit 0x0000000000000000)
  else if ROrd.isLe (base.impl_PartialOrd_f64_for_TwoFloat.partial_cmp self (f64lit 0x0000000000000000)) then
    TwoFloat.NAN
  else
    let x := convert.impl_From_f64_for_TwoFloat.from (Libm.log self.hi)
    let x := arithmetic.impl_AddAssign_TwoFloat_for_TwoFloat.add_assign x (arithmetic.impl_Sub_f64_for_TwoFloat.sub (arithmetic.impl_Mul_TwoFloat_for_TwoFloat.mul self (TwoFloat.exp (arithmetic.impl_Neg_for_TwoFloat.neg x))) (f64lit 0x3ff0000000000000))
    let x := arithmetic.impl_AddAssign_TwoFloat_for_TwoFloat.add_assign x (arithmetic.impl_Sub_f64_for_TwoFloat.sub (arithmetic.impl_Mul_TwoFloat_for_TwoFloat.mul self (TwoFloat.exp (arithmetic.impl_Neg_for_TwoFloat.neg x))) (f64lit 0x3ff0000000000000))
    arithmetic.impl_Sub_f64_for_TwoFloat.sub (arithmetic.impl_Add_TwoFloat_for_TwoFloat.add x (arithmetic.impl_Mul_TwoFloat_for_TwoFloat.mul self (TwoFloat.exp (arithmetic.impl_Neg_for_TwoFloat.neg x)))) (f64lit 0x3ff0000000000000)

/-- panic-freedom predicate of `lnCore` -/
def TwoFloat.lnCore.pf (self : TwoFloat) : Bool :=
  if base.impl_PartialEq_f64_for_TwoFloat.eq self (f64lit 0x3ff0000000000000) then
    true
  else if ROrd.isLe (base.impl_PartialOrd_f64_for_TwoFloat.partial_cmp self (f64lit 0x0000000000000000)) then
    true
  else
    let x := convert.impl_From_f64_for_TwoFloat.from (Libm.log self.hi)
    (TwoFloat.exp.pf (arithmetic.impl_Neg_for_TwoFloat.neg x)) && (let x := arithmetic.impl_AddAssign_TwoFloat_for_TwoFloat.add_assign x (arithmetic.impl_Sub_f64_for_TwoFloat.sub (arithmetic.impl_Mul_TwoFloat_for_TwoFloat.mul self (TwoFloat.exp (arithmetic.impl_Neg_for_TwoFloat.neg x))) (f64lit 0x3ff0000000000000)); (TwoFloat.exp.pf (arithmetic.impl_Neg_for_TwoFloat.neg x)) && (let x := arithmetic.impl_AddAssign_TwoFloat_for_TwoFloat.add_assign x (arithmetic.impl_Sub_f64_for_TwoFloat.sub (arithmetic.impl_Mul_TwoFloat_for_TwoFloat.mul self (TwoFloat.exp (arithmetic.impl_Neg_for_TwoFloat.neg x))) (f64lit 0x3ff0000000000000)); TwoFloat.exp.pf (arithmetic.impl_Neg_for_TwoFloat.neg x)))

namespace LnCore

/-- `2^-1000`, the threshold below which `ln` rescales -/
abbrev tinyLim : F64 := f64lit 0x0170000000000000
/-- `2^200`, the scale factor -/
abbrev scale : F64 := f64lit 0x4c70000000000000
/-- `200.0 * LN_2`, the correction subtracted after rescaling -/
abbrev shift : TwoFloat := arithmetic.impl_Mul_TwoFloat_for_f64.mul (f64lit 0x4069000000000000) consts.LN_2

/-- the rescaled argument `x * 2^200` -/
abbrev scaled (x : TwoFloat) : TwoFloat := arithmetic.impl_Mul_f64_for_TwoFloat.mul x scale

/-! ## `ln.go` unfolded once -/

theorem ln_go_zero (x : TwoFloat) : TwoFloat.ln.go 0 x = default := rfl
theorem ln_go_pf_zero (x : TwoFloat) : TwoFloat.ln.go.pf 0 x = false := rfl

/-- `self == 1.0` -/
theorem ln_go_succ_one (fuel : Nat) (x : TwoFloat)
    (h : base.impl_PartialEq_f64_for_TwoFloat.eq x (f64lit 0x3ff0000000000000) = true) :
    TwoFloat.ln.go (fuel + 1) x = convert.impl_From_f64_for_TwoFloat.from (f64lit 0x0000000000000000) := by
  unfold TwoFloat.ln.go
  simp only [h, if_true]

theorem lnCore_one (x : TwoFloat)
    (h : base.impl_PartialEq_f64_for_TwoFloat.eq x (f64lit 0x3ff0000000000000) = true) :
    TwoFloat.lnCore x = convert.impl_From_f64_for_TwoFloat.from (f64lit 0x0000000000000000) := by
  unfold TwoFloat.lnCore
  simp only [h, if_true]

/-- `self <= 0.0` (and not `== 1.0`) -/
theorem ln_go_succ_nonpos (fuel : Nat) (x : TwoFloat)
    (h1 : base.impl_PartialEq_f64_for_TwoFloat.eq x (f64lit 0x3ff0000000000000) = false)
    (h2 : ROrd.isLe (base.impl_PartialOrd_f64_for_TwoFloat.partial_cmp x (f64lit 0x0000000000000000)) = true) :
    TwoFloat.ln.go (fuel + 1) x = TwoFloat.NAN := by
  unfold TwoFloat.ln.go
  simp only [h1, h2, if_true, Bool.false_eq_true, if_false]

theorem lnCore_nonpos (x : TwoFloat)
    (h1 : base.impl_PartialEq_f64_for_TwoFloat.eq x (f64lit 0x3ff0000000000000) = false)
    (h2 : ROrd.isLe (base.impl_PartialOrd_f64_for_TwoFloat.partial_cmp x (f64lit 0x0000000000000000)) = true) :
    TwoFloat.lnCore x = TwoFloat.NAN := by
  unfold TwoFloat.lnCore
  simp only [h1, h2, if_true, Bool.false_eq_true, if_false]

/-- high word not below `2^-1000` (this includes a NaN high word): one level of `ln.go` is `lnCore` -/
theorem ln_go_succ_of_ge (fuel : Nat) (x : TwoFloat) (h : (x.hi <. tinyLim) = false) :
    TwoFloat.ln.go (fuel + 1) x = TwoFloat.lnCore x := by
  unfold TwoFloat.ln.go TwoFloat.lnCore
  simp only [h, Bool.false_eq_true, if_false]

/-- the rescaling branch -/
theorem ln_go_succ_tiny (fuel : Nat) (x : TwoFloat)
    (h1 : base.impl_PartialEq_f64_for_TwoFloat.eq x (f64lit 0x3ff0000000000000) = false)
    (h2 : ROrd.isLe (base.impl_PartialOrd_f64_for_TwoFloat.partial_cmp x (f64lit 0x0000000000000000)) = false)
    (h3 : (x.hi <. tinyLim) = true) :
    TwoFloat.ln.go (fuel + 1) x
      = arithmetic.impl_Sub_TwoFloat_for_TwoFloat.sub (TwoFloat.ln.go fuel (scaled x)) shift := by
  rw [TwoFloat.ln.go]
  simp only [h1, h2, h3, if_true, Bool.false_eq_true, if_false]

/-- `ln.go (fuel+1)` in the first two branches agrees with `lnCore` whatever the high word -/
theorem ln_go_succ_of_one (fuel : Nat) (x : TwoFloat)
    (h : base.impl_PartialEq_f64_for_TwoFloat.eq x (f64lit 0x3ff0000000000000) = true) :
    TwoFloat.ln.go (fuel + 1) x = TwoFloat.lnCore x := by
  rw [ln_go_succ_one fuel x h, lnCore_one x h]

theorem ln_go_succ_of_nonpos (fuel : Nat) (x : TwoFloat)
    (h : ROrd.isLe (base.impl_PartialOrd_f64_for_TwoFloat.partial_cmp x (f64lit 0x0000000000000000)) = true) :
    TwoFloat.ln.go (fuel + 1) x = TwoFloat.lnCore x := by
  cases h1 : base.impl_PartialEq_f64_for_TwoFloat.eq x (f64lit 0x3ff0000000000000)
  · rw [ln_go_succ_nonpos fuel x h1 h, lnCore_nonpos x h1 h]
  · exact ln_go_succ_of_one fuel x h1

/-! ### the same for the panic-freedom predicate -/

theorem ln_go_pf_succ_of_ge (fuel : Nat) (x : TwoFloat) (h : (x.hi <. tinyLim) = false) :
    TwoFloat.ln.go.pf (fuel + 1) x = TwoFloat.lnCore.pf x := by
  unfold TwoFloat.ln.go.pf TwoFloat.lnCore.pf
  simp only [h, Bool.false_eq_true, if_false]

theorem ln_go_pf_succ_one (fuel : Nat) (x : TwoFloat)
    (h : base.impl_PartialEq_f64_for_TwoFloat.eq x (f64lit 0x3ff0000000000000) = true) :
    TwoFloat.ln.go.pf (fuel + 1) x = true := by
  unfold TwoFloat.ln.go.pf
  simp only [h, if_true]

theorem ln_go_pf_succ_nonpos (fuel : Nat) (x : TwoFloat)
    (h2 : ROrd.isLe (base.impl_PartialOrd_f64_for_TwoFloat.partial_cmp x (f64lit 0x0000000000000000)) = true) :
    TwoFloat.ln.go.pf (fuel + 1) x = true := by
  unfold TwoFloat.ln.go.pf
  simp only [h2, if_true, ite_self]

theorem ln_go_pf_succ_tiny (fuel : Nat) (x : TwoFloat)
    (h1 : base.impl_PartialEq_f64_for_TwoFloat.eq x (f64lit 0x3ff0000000000000) = false)
    (h2 : ROrd.isLe (base.impl_PartialOrd_f64_for_TwoFloat.partial_cmp x (f64lit 0x0000000000000000)) = false)
    (h3 : (x.hi <. tinyLim) = true) :
    TwoFloat.ln.go.pf (fuel + 1) x = TwoFloat.ln.go.pf fuel (scaled x) := by
  rw [TwoFloat.ln.go.pf]
  simp only [h1, h2, h3, if_true, Bool.false_eq_true, if_false]

/-! ## `ln` itself (fuel `8 = 7 + 1`) -/

/-- **`ln = lnCore`** for a high word not below `2^-1000` -/
theorem ln_eq_lnCore (x : TwoFloat) (h : (x.hi <. f64lit 0x0170000000000000) = false) :
    TwoFloat.ln x = TwoFloat.lnCore x := ln_go_succ_of_ge 7 x h

theorem ln_eq_lnCore_of_one (x : TwoFloat)
    (h : base.impl_PartialEq_f64_for_TwoFloat.eq x (f64lit 0x3ff0000000000000) = true) :
    TwoFloat.ln x = TwoFloat.lnCore x := ln_go_succ_of_one 7 x h

theorem ln_eq_lnCore_of_nonpos (x : TwoFloat)
    (h : ROrd.isLe (base.impl_PartialOrd_f64_for_TwoFloat.partial_cmp x (f64lit 0x0000000000000000)) = true) :
    TwoFloat.ln x = TwoFloat.lnCore x := ln_go_succ_of_nonpos 7 x h

/-- **`ln.pf = lnCore.pf`** for a high word not below `2^-1000` -/
theorem ln_pf_eq_lnCore (x : TwoFloat) (h : (x.hi <. f64lit 0x0170000000000000) = false) :
    TwoFloat.ln.pf x = TwoFloat.lnCore.pf x := ln_go_pf_succ_of_ge 7 x h

/-- **the new branch**: for a positive argument with high word below `2^-1000` whose rescaled high word is not below
`2^-1000`, `ln x = lnCore (x · 2^200) − 200·LN_2` -/
theorem ln_tiny_eq (x : TwoFloat)
    (h1 : base.impl_PartialEq_f64_for_TwoFloat.eq x (f64lit 0x3ff0000000000000) = false)
    (h2 : ROrd.isLe (base.impl_PartialOrd_f64_for_TwoFloat.partial_cmp x (f64lit 0x0000000000000000)) = false)
    (h3 : (x.hi <. tinyLim) = true) (h4 : ((scaled x).hi <. tinyLim) = false) :
    TwoFloat.ln x = arithmetic.impl_Sub_TwoFloat_for_TwoFloat.sub (TwoFloat.lnCore (scaled x)) shift := by
  show TwoFloat.ln.go (7 + 1) x = _
  rw [ln_go_succ_tiny 7 x h1 h2 h3, show (7 : Nat) = 6 + 1 from rfl, ln_go_succ_of_ge 6 _ h4]

theorem ln_pf_tiny_eq (x : TwoFloat)
    (h1 : base.impl_PartialEq_f64_for_TwoFloat.eq x (f64lit 0x3ff0000000000000) = false)
    (h2 : ROrd.isLe (base.impl_PartialOrd_f64_for_TwoFloat.partial_cmp x (f64lit 0x0000000000000000)) = false)
    (h3 : (x.hi <. tinyLim) = true) (h4 : ((scaled x).hi <. tinyLim) = false) :
    TwoFloat.ln.pf x = TwoFloat.lnCore.pf (scaled x) := by
  show TwoFloat.ln.go.pf (7 + 1) x = _
  rw [ln_go_pf_succ_tiny 7 x h1 h2 h3, show (7 : Nat) = 6 + 1 from rfl, ln_go_pf_succ_of_ge 6 _ h4]

/-- the value of `ln.go` on an argument with high word not below `2^-1000` does not depend on the fuel (`≥ 1`): the
recursive call of the rescaling branch is again `ln` -/
theorem ln_go_succ_eq_ln (fuel : Nat) (x : TwoFloat) (h : (x.hi <. tinyLim) = false) :
    TwoFloat.ln.go (fuel + 1) x = TwoFloat.ln x := by
  rw [ln_go_succ_of_ge fuel x h, ln_eq_lnCore x h]

/-- `ln x = ln (x · 2^200) − 200·LN_2` in the new branch -/
theorem ln_tiny_eq_ln (x : TwoFloat)
    (h1 : base.impl_PartialEq_f64_for_TwoFloat.eq x (f64lit 0x3ff0000000000000) = false)
    (h2 : ROrd.isLe (base.impl_PartialOrd_f64_for_TwoFloat.partial_cmp x (f64lit 0x0000000000000000)) = false)
    (h3 : (x.hi <. tinyLim) = true) (h4 : ((scaled x).hi <. tinyLim) = false) :
    TwoFloat.ln x = arithmetic.impl_Sub_TwoFloat_for_TwoFloat.sub (TwoFloat.ln (scaled x)) shift := by
  rw [ln_tiny_eq x h1 h2 h3 h4, ln_eq_lnCore _ h4]

end LnCore
