/-
Lemmas.Ident — small helper lemmas for the "structural identity" property files (C03–C05, C10–C19).
-/
import TFV.Spec.Defs

namespace Ident

theorem f64_neg_neg (a : F64) : F64.neg (F64.neg a) = a := by
  cases a <;> simp [F64.neg]

theorem tf_neg_neg (x : TwoFloat) :
    arithmetic.impl_Neg_for_rTwoFloat.neg (arithmetic.impl_Neg_for_rTwoFloat.neg x) = x := by
  cases x
  simp [arithmetic.impl_Neg_for_rTwoFloat.neg, f64_neg_neg]

/-! ### f64 comparisons as the generated code spells them -/

theorem f64_eq_iff (a b : F64) : (a ==. b) = true ↔ F64.partial_cmp a b = some .Equal := by
  simp [RPartialEq.eq, F64.eq]

theorem f64_lt_iff (a b : F64) : (a <. b) = true ↔ F64.partial_cmp a b = some .Less := by
  show (match F64.partial_cmp a b with | some .Less => true | _ => false) = true ↔ _
  split <;> simp_all

theorem f64_eq_imp_not_lt (a b : F64) (h : (a ==. b) = true) : (a <. b) = false := by
  have h' := (f64_eq_iff a b).mp h
  simp [RPartialOrd.lt, RPartialOrd.partial_cmp, h']

theorem f64_eq_imp_not_gt (a b : F64) (h : (a ==. b) = true) : (a >. b) = false := by
  have h' := (f64_eq_iff a b).mp h
  simp [RPartialOrd.gt, RPartialOrd.partial_cmp, h']

theorem f64_eq_imp_le (a b : F64) (h : (a ==. b) = true) : (a <=. b) = true := by
  have h' := (f64_eq_iff a b).mp h
  simp [RPartialOrd.le, RPartialOrd.partial_cmp, h']

theorem f64_eq_imp_ge (a b : F64) (h : (a ==. b) = true) : (a >=. b) = true := by
  have h' := (f64_eq_iff a b).mp h
  simp [RPartialOrd.ge, RPartialOrd.partial_cmp, h']

theorem f64_lt_imp_not_eq (a b : F64) (h : (a <. b) = true) : (a ==. b) = false := by
  have h' := (f64_lt_iff a b).mp h
  simp [RPartialEq.eq, F64.eq, h']

/-! ### u32 loop counter of `powi` -/

theorem u32_gt_zero (n : U32) : (n >. (0 : U32)) = decide (0 < n.v) := by
  show (match (some (if n.v < (0:Int) then ROrdering.Less else if n.v = 0 then .Equal else .Greater)) with
        | some .Greater => true | _ => false) = _
  by_cases h1 : n.v < 0
  · have : ¬ (0 < n.v) := by omega
    simp [h1, this]
  · by_cases h2 : n.v = 0
    · simp [h2]
    · have : 0 < n.v := by omega
      simp [h1, h2, this]

theorem u32_shr_one (n : U32) : (n >>> (1 : U32)) = ⟨n.v / 2⟩ := rfl

/-- the square-and-multiply loop of `powi` terminates within `k+1` units of fuel when the counter is below `2^k` -/
theorem powi_loop_pf (k : Nat) : ∀ (r v : TwoFloat) (n : U32), n.v < 2^k →
    TwoFloat.powi.loop1.pf (k+1) r v n = true := by
  induction k with
  | zero =>
    intro r v n h
    have : ¬ (0 < n.v) := by simp at h; omega
    simp [TwoFloat.powi.loop1.pf, u32_gt_zero, this]
  | succ k ih =>
    intro r v n h
    unfold TwoFloat.powi.loop1.pf
    rw [u32_gt_zero]
    by_cases h0 : 0 < n.v
    · simp only [h0, decide_true, if_true]
      apply ih
      rw [u32_shr_one]
      show n.v / 2 < 2^k
      have : (2:Int)^(k+1) = 2 * 2^k := by rw [Int.pow_succ]; omega
      omega
    · simp [h0]

theorem i32_unsigned_abs_lt (n : I32) (h : n.inRange = true) : (IntN.unsigned_abs n).v < 2^32 := by
  have h' : (-(2^31 : Nat) : Int) ≤ n.v ∧ n.v ≤ ((2^31 : Nat) : Int) - 1 := by
    simpa [IntN.inRange, IntN.fits, IntN.minV, IntN.maxV] using h
  show ((n.v.natAbs : Nat) : Int) < 2^32
  omega

end Ident
