/-
Lemmas.Ident — small helper lemmas for the "structural identity" property files (C03–C05, C10–C19).
-/
import TFV.Spec.Defs

namespace Ident

theorem f64_neg_neg (a : F64) : F64.neg (F64.neg a) = a := by
  cases a <;> simp [F64.neg]

theorem tf_neg_neg (x : TwoFloat) :
    arithmetic.impl_Neg_for_rTwoFloat.neg (arithmetic.impl_Neg_for_rTwoFloat.neg x) = x := by
  cases x
  simp [arithmetic.impl_Neg_for_rTwoFloat.neg, f64_neg_neg]

/-! ### f64 comparisons as the generated code spells them -/

theorem f64_eq_iff (a b : F64) : (a ==. b) = true ↔ F64.partial_cmp a b = some .Equal := by
  simp [RPartialEq.eq, F64.eq]

theorem f64_lt_iff (a b : F64) : (a <. b) = true ↔ F64.partial_cmp a b = some .Less := by
  show (match F64.partial_cmp a b with | some .Less => true | _ => false) = true ↔ _
  split <;> simp_all

theorem f64_eq_imp_not_lt (a b : F64) (h : (a ==. b) = true) : (a <. b) = false := by
  have h' := (f64_eq_iff a b).mp h
  simp [RPartialOrd.lt, RPartialOrd.partial_cmp, h']

theorem f64_eq_imp_not_gt (a b : F64) (h : (a ==. b) = true) : (a >. b) = false := by
  have h' := (f64_eq_iff a b).mp h
  simp [RPartialOrd.gt, RPartialOrd.partial_cmp, h']

theorem f64_eq_imp_le (a b : F64) (h : (a ==. b) = true) : (a <=. b) = true := by
  have h' := (f64_eq_iff a b).mp h
  simp [RPartialOrd.le, RPartialOrd.partial_cmp, h']

theorem f64_eq_imp_ge (a b : F64) (h : (a ==. b) = true) : (a >=. b) = true := by
  have h' := (f64_eq_iff a b).mp h
  simp [RPartialOrd.ge, RPartialOrd.partial_cmp, h']

theorem f64_lt_imp_not_eq (a b : F64) (h : (a <. b) = true) : (a ==. b) = false := by
  have h' := (f64_lt_iff a b).mp h
  simp [RPartialEq.eq, F64.eq, h']

/-! ### u32 loop counter of `powi` -/

theorem u32_gt_zero (n : U32) : (n >. (0 : U32)) = decide (0 < n.v) := by
  show (match (some (if n.v < (0:Int) then ROrdering.Less else if n.v = 0 then .Equal else .Greater)) with
        | some .Greater => true | _ => false) = _
  by_cases h1 : n.v < 0
  · have : ¬ (0 < n.v) := by omega
    simp [h1, this]
  · by_cases h2 : n.v = 0
    · simp [h2]
    · have : 0 < n.v := by omega
      simp [h1, h2, this]

theorem u32_shr_one (n : U32) : (n >>> (1 : U32)) = ⟨n.v / 2⟩ := rfl

/-- the square-and-multiply loop of `powi` terminates within `k+1` units of fuel when the counter is below `2^k` -/
theorem powi_loop_pf (k : Nat) : ∀ (r v : TwoFloat) (n : U32), n.v < 2^k →
    TwoFloat.powi.loop1.pf (k+1) r v n = true := by
  induction k with
  | zero =>
    intro r v n h
    have : ¬ (0 < n.v) := by simp at h; omega
    simp [TwoFloat.powi.loop1.pf, u32_gt_zero, this]
  | succ k ih =>
    intro r v n h
    unfold TwoFloat.powi.loop1.pf
    rw [u32_gt_zero]
    by_cases h0 : 0 < n.v
    · simp only [h0, decide_true, if_true]
      apply ih
      rw [u32_shr_one]
      show n.v / 2 < 2^k
      have : (2:Int)^(k+1) = 2 * 2^k := by rw [Int.pow_succ]; omega
      omega
    · simp [h0]

theorem i32_unsigned_abs_lt (n : I32) (h : n.inRange = true) : (IntN.unsigned_abs n).v < 2^32 := by
  have h' : (-(2^31 : Nat) : Int) ≤ n.v ∧ n.v ≤ ((2^31 : Nat) : Int) - 1 := by
    simpa [IntN.inRange, IntN.fits, IntN.minV, IntN.maxV] using h
  show ((n.v.natAbs : Nat) : Int) < 2^32
  omega

/-! ### IEEE equality with a literal pins the operand -/

theorem f64lit_zero : f64lit 0 = F64.fin false 0 := by decide +kernel

/-- IEEE-equal to a finite non-NaN double with magnitude m: same magnitude, and same sign unless m = 0 -/
theorem f64_eq_fin_cases (a : F64) (t : Bool) (m : Nat) (h : (a ==. F64.fin t m) = true) :
    ∃ s, a = F64.fin s m ∧ (m ≠ 0 → s = t) := by
  rw [f64_eq_iff] at h
  cases a with
  | nan => simp [F64.partial_cmp] at h
  | inf s => cases s <;> simp [F64.partial_cmp] at h
  | fin s n =>
    have h2 : (F64.fin s n).toInt = (F64.fin t m).toInt := by
      simp only [F64.partial_cmp] at h
      by_cases c1 : (F64.fin s n).toInt < (F64.fin t m).toInt
      · simp [c1] at h
      · by_cases c2 : (F64.fin s n).toInt = (F64.fin t m).toInt
        · exact c2
        · simp [c1, c2] at h
    cases s <;> cases t <;> simp [F64.toInt] at h2
    · have : n = m := by omega
      exact ⟨false, by rw [this], fun _ => rfl⟩
    · have : n = 0 ∧ m = 0 := by omega
      exact ⟨false, by rw [this.1, this.2], fun h => absurd this.2 h⟩
    · have : n = 0 ∧ m = 0 := by omega
      exact ⟨true, by rw [this.1, this.2], fun h => absurd this.2 h⟩
    · have : n = m := by omega
      exact ⟨true, by rw [this], fun _ => rfl⟩

theorem f64_eq_zero_cases (a : F64) (h : (a ==. f64lit 0) = true) : a = F64.fin false 0 ∨ a = F64.fin true 0 := by
  rw [f64lit_zero] at h
  obtain ⟨s, hs, _⟩ := f64_eq_fin_cases a false 0 h
  cases s
  · exact Or.inl hs
  · exact Or.inr hs

theorem f64lit_one : f64lit 0x3ff0000000000000 = F64.fin false (2^1074) := by decide +kernel

theorem f64_eq_one (a : F64) (h : (a ==. f64lit 0x3ff0000000000000) = true) : a = F64.one := by
  rw [f64lit_one] at h
  obtain ⟨s, hs, hsign⟩ := f64_eq_fin_cases a false (2^1074) h
  rw [hs, hsign (Nat.ne_of_gt (Nat.two_pow_pos 1074))]
  rfl

theorem f64_ge_ge (a : F64) (m : Nat) (hm : 0 < m) (h : (a >=. F64.fin false m) = true) :
    (a <=. F64.fin true m) = false := by
  cases a with
  | nan => rfl
  | inf s =>
    cases s
    · rfl
    · simp [RPartialOrd.ge, RPartialOrd.partial_cmp, F64.partial_cmp] at h
  | fin s n =>
    revert h
    show (match F64.partial_cmp (F64.fin s n) (F64.fin false m) with
          | some .Greater => true | some .Equal => true | _ => false) = true →
         (match F64.partial_cmp (F64.fin s n) (F64.fin true m) with
          | some .Less => true | some .Equal => true | _ => false) = false
    simp only [F64.partial_cmp]
    cases s <;> simp only [F64.toInt]
    · intro _
      have c1 : ¬ ((n : Int) < -(m : Int)) := by omega
      have c2 : ¬ ((n : Int) = -(m : Int)) := by omega
      simp [c1, c2]
    · intro h
      have c1 : (-(n : Int) < (m : Int)) := by omega
      simp [c1] at h

/-- the TwoFloat-vs-f64 comparison of the generated code -/
theorem tf_pcmp_f64 (x : TwoFloat) (c : F64) :
    base.impl_PartialOrd_f64_for_TwoFloat.partial_cmp x c
      = if F64.partial_cmp x.hi c = some .Equal then F64.partial_cmp x.lo (f64lit 0) else F64.partial_cmp x.hi c := by
  unfold base.impl_PartialOrd_f64_for_TwoFloat.partial_cmp
  simp [RPartialOrd.partial_cmp]

theorem tf_eq_f64 (x : TwoFloat) (c : F64) :
    base.impl_PartialEq_f64_for_TwoFloat.eq x c = ((x.hi ==. c) && (x.lo ==. f64lit 0)) := rfl

theorem tf_le_zero_imp_ne_one (x : TwoFloat)
    (h : ROrd.isLe (base.impl_PartialOrd_f64_for_TwoFloat.partial_cmp x (f64lit 0)) = true) :
    base.impl_PartialEq_f64_for_TwoFloat.eq x (f64lit 0x3ff0000000000000) = false := by
  cases hq : base.impl_PartialEq_f64_for_TwoFloat.eq x (f64lit 0x3ff0000000000000)
  · rfl
  · exfalso
    rw [tf_eq_f64, Bool.and_eq_true] at hq
    have h1 := f64_eq_one _ hq.1
    rw [tf_pcmp_f64, h1] at h
    revert h
    rw [show F64.partial_cmp F64.one (f64lit 0) = some .Greater by decide +kernel]
    simp [ROrd.isLe]

theorem tf_le_neg_one_imp_ne_zero (x : TwoFloat)
    (h : ROrd.isLe (base.impl_PartialOrd_f64_for_TwoFloat.partial_cmp x (F64.neg (f64lit 0x3ff0000000000000))) = true) :
    base.impl_PartialEq_f64_for_TwoFloat.eq x (f64lit 0) = false := by
  cases hq : base.impl_PartialEq_f64_for_TwoFloat.eq x (f64lit 0)
  · rfl
  · exfalso
    rw [tf_eq_f64, Bool.and_eq_true] at hq
    rw [tf_pcmp_f64] at h
    revert h
    rcases f64_eq_zero_cases _ hq.1 with h1 | h1 <;> rw [h1]
    · rw [show F64.partial_cmp (F64.fin false 0) (F64.neg (f64lit 0x3ff0000000000000)) = some .Greater by decide +kernel]
      simp [ROrd.isLe]
    · rw [show F64.partial_cmp (F64.fin true 0) (F64.neg (f64lit 0x3ff0000000000000)) = some .Greater by decide +kernel]
      simp [ROrd.isLe]

end Ident
