/-
Lemmas.PowfBound — composition lemmas for the functions that are built from `ln`, `exp`, `sqrt` and the arithmetic
operators: `powf = exp(y·ln x)` (property C14) and the inverse hyperbolic functions (property C18, `Properties/C18i`).

 1. generic real analysis: chaining of relative errors (`rel_trans`), perturbation of `log` (`log_pert`) and of `sqrt`
    (`sqrt_pert`);
 2. operators over `ℝ` that were not yet available: `f64 + TwoFloat`, `f64 − TwoFloat` with the literal `1.0`
    (`one_add_rv`, `one_sub_rv`), `TwoFloat::sqrt` (`sqrt_rv`), `ln` with a real-valued range (`ln_rv`);
 3. `powf` for a positive base: `powf_real` (error propagation) and `powf_bound_gen`.
-/
import TFV.Lemmas.LnBound
import TFV.Lemmas.Exp2Bound
import TFV.Properties.C13s
import TFV.Properties.C14
import Mathlib.Analysis.SpecialFunctions.Pow.Real

set_option exponentiation.threshold 4000

namespace PowfBound

open ConstBounds ExpBound

/-! ## 1. real analysis -/

section real

/-- chaining of relative errors -/
theorem rel_trans {a b c α β : ℝ} (hα : 0 ≤ α) (h1 : |a - b| ≤ α * |b|) (h2 : |b - c| ≤ β * |c|) :
    |a - c| ≤ (α + β + α * β) * |c| := by
  have h3 : |b| ≤ (1 + β) * |c| := by
    have := abs_sub_abs_le_abs_sub b c
    linarith
  have h4 := abs_add_le (a - b) (b - c)
  rw [show a - b + (b - c) = a - c by ring] at h4
  have h5 : α * |b| ≤ α * ((1 + β) * |c|) := mul_le_mul_of_nonneg_left h3 hα
  nlinarith

/-- weakening of the constant of a relative error -/
theorem rel_mono {a b α α' : ℝ} (h : |a - b| ≤ α * |b|) (hα : α ≤ α') : |a - b| ≤ α' * |b| :=
  le_trans h (mul_le_mul_of_nonneg_right hα (abs_nonneg _))

/-- **perturbation of `log`**: a relative error `ε ≤ 1/2` of the argument is an absolute error `ε(1 + 2ε)` of the
logarithm -/
theorem log_pert {a a' ε : ℝ} (ha : 0 < a) (hε : ε ≤ 1 / 2) (h : |a' - a| ≤ ε * a) :
    0 < a' ∧ |Real.log a' - Real.log a| ≤ ε * (1 + 2 * ε) := by
  have hε0 : 0 ≤ ε := by
    by_contra hc
    rw [not_le] at hc
    have : ε * a < 0 := mul_neg_of_neg_of_pos hc ha
    have := abs_nonneg (a' - a)
    linarith
  obtain ⟨h1, h2⟩ := abs_le.1 h
  have hεa : ε * a ≤ 1 / 2 * a := mul_le_mul_of_nonneg_right hε ha.le
  have ha' : 0 < a' := by linarith
  refine ⟨ha', ?_⟩
  have hr : 0 < a' / a := div_pos ha' ha
  have e : Real.log a' - Real.log a = Real.log (a' / a) := (Real.log_div ha'.ne' ha.ne').symm
  rw [e]
  have hr1 : a' / a ≤ 1 + ε := by rw [div_le_iff₀ ha]; linarith
  have hr2 : 1 - ε ≤ a' / a := by rw [le_div_iff₀ ha]; linarith
  have up := Real.log_le_sub_one_of_pos hr
  have lo := Real.one_sub_inv_le_log_of_pos hr
  have hinv : (a' / a)⁻¹ ≤ 1 + ε * (1 + 2 * ε) := by
    rw [inv_le_comm₀ hr (by positivity)]
    refine le_trans ?_ hr2
    rw [inv_le_iff_one_le_mul₀ (by positivity)]
    have e3 := mul_nonneg (mul_nonneg hε0 hε0) (by linarith : (0 : ℝ) ≤ 1 - 2 * ε)
    nlinarith
  rw [abs_le]
  constructor
  · linarith
  · nlinarith

/-- **perturbation of `sqrt`**: a relative error `η ≤ 1/2` of the argument is a relative error `η/2 + η²` of the root -/
theorem sqrt_pert {s W η : ℝ} (hW : 0 < W) (hη0 : 0 ≤ η) (hη : η ≤ 1 / 2) (h : |s - W| ≤ η * W) :
    |Real.sqrt s - Real.sqrt W| ≤ (η / 2 + η ^ 2) * Real.sqrt W := by
  have hS : 0 < Real.sqrt W := Real.sqrt_pos.2 hW
  have hSS : Real.sqrt W ^ 2 = W := Real.sq_sqrt hW.le
  obtain ⟨h1, h2⟩ := abs_le.1 h
  have up : Real.sqrt s ≤ Real.sqrt W * (1 + η / 2) := by
    rw [Real.sqrt_le_left (by positivity)]
    rw [mul_pow, hSS]
    nlinarith
  have lo : Real.sqrt W * (1 - η / 2 - η ^ 2) ≤ Real.sqrt s := by
    have hpos : 0 < Real.sqrt W * (1 - η / 2 - η ^ 2) := by
      apply mul_pos hS
      nlinarith
    rw [Real.le_sqrt' hpos, mul_pow, hSS]
    have : (1 - η / 2 - η ^ 2) ^ 2 ≤ 1 - η := by
      have e2 := mul_nonneg hη0 hη0
      have e3 := mul_nonneg e2 hη0
      have e4 := mul_nonneg e2 e2
      nlinarith
    calc W * (1 - η / 2 - η ^ 2) ^ 2 ≤ W * (1 - η) := mul_le_mul_of_nonneg_left this hW.le
      _ ≤ s := by linarith
  rw [abs_le]
  constructor <;> nlinarith

end real

/-! ## 2. operators over `ℝ` -/

section ops
open F64 TwoFloat

theorem one_natAbs_lt : (f64lit 0x3ff0000000000000).toInt.natAbs < 2 ^ 2095 := by
  rw [C01d.one_isVal.2, Int.natAbs_natCast, F64.unit_eq]; norm_num

/-- **`f64 + TwoFloat` over `ℝ`**: relative error `2u²` -/
theorem add_ft_rv {x : TwoFloat} {f : F64} (hx : VW x) (hff : f.is_finite = true) (hwf : f.WF)
    (bx : |rv x| ≤ 2 ^ 1000) (bf : f.toInt.natAbs < 2 ^ 2095) :
    VW (arithmetic.impl_Add_TwoFloat_for_f64.add f x) ∧
    |rv (arithmetic.impl_Add_TwoFloat_for_f64.add f x) - (fv f + rv x)| ≤ 1 / 2 ^ 105 * |fv f + rv x| := by
  show VW (arithmetic.impl_Add_rTwoFloat_for_rf64.add f x) ∧
    |rv (arithmetic.impl_Add_rTwoFloat_for_rf64.add f x) - (fv f + rv x)| ≤ 1 / 2 ^ 105 * |fv f + rv x|
  obtain ⟨hV, hb⟩ := TwoFloat.add_ft_bound hx.1 hx.2 hff hwf (hi_natAbs_lt_2095 hx.1 bx) bf
  refine ⟨⟨hV, PF.add_ft_WF _ x⟩, ?_⟩
  generalize arithmetic.impl_Add_rTwoFloat_for_rf64.add f x = R at *
  have hq : |(R.V : ℝ) - (f.toInt + x.V)| * 2 ^ 105 ≤ |(f.toInt : ℝ) + x.V| := by exact_mod_cast hb
  unfold rv fv
  have e1 : (R.V : ℝ) / 2 ^ 1074 - ((f.toInt : ℝ) / 2 ^ 1074 + (x.V : ℝ) / 2 ^ 1074)
      = ((R.V : ℝ) - (f.toInt + x.V)) / 2 ^ 1074 := by field_simp
  have e2 : (f.toInt : ℝ) / 2 ^ 1074 + (x.V : ℝ) / 2 ^ 1074 = ((f.toInt : ℝ) + x.V) / 2 ^ 1074 := by field_simp
  rw [e1, e2, abs_div, abs_div, abs_of_pos (by positivity : (0 : ℝ) < 2 ^ 1074), ← mul_div_assoc,
    div_le_div_iff_of_pos_right (by positivity), one_div_mul_eq_div, le_div_iff₀ (by positivity)]
  exact hq

/-- **`f64 − TwoFloat` over `ℝ`**: relative error `2u²` -/
theorem sub_ft_rv {x : TwoFloat} {f : F64} (hx : VW x) (hff : f.is_finite = true) (hwf : f.WF)
    (bx : |rv x| ≤ 2 ^ 1000) (bf : f.toInt.natAbs < 2 ^ 2095) :
    VW (arithmetic.impl_Sub_TwoFloat_for_f64.sub f x) ∧
    |rv (arithmetic.impl_Sub_TwoFloat_for_f64.sub f x) - (fv f - rv x)| ≤ 1 / 2 ^ 105 * |fv f - rv x| := by
  show VW (arithmetic.impl_Sub_rTwoFloat_for_rf64.sub f x) ∧
    |rv (arithmetic.impl_Sub_rTwoFloat_for_rf64.sub f x) - (fv f - rv x)| ≤ 1 / 2 ^ 105 * |fv f - rv x|
  obtain ⟨hV, hb⟩ := TwoFloat.sub_ft_bound hx.1 hx.2 hff hwf (hi_natAbs_lt_2095 hx.1 bx) bf
  refine ⟨⟨hV, TwoFloat.sub_ft_WF _ x⟩, ?_⟩
  generalize arithmetic.impl_Sub_rTwoFloat_for_rf64.sub f x = R at *
  have hq : |(R.V : ℝ) - (f.toInt - x.V)| * 2 ^ 105 ≤ |(f.toInt : ℝ) - x.V| := by exact_mod_cast hb
  unfold rv fv
  have e1 : (R.V : ℝ) / 2 ^ 1074 - ((f.toInt : ℝ) / 2 ^ 1074 - (x.V : ℝ) / 2 ^ 1074)
      = ((R.V : ℝ) - (f.toInt - x.V)) / 2 ^ 1074 := by field_simp
  have e2 : (f.toInt : ℝ) / 2 ^ 1074 - (x.V : ℝ) / 2 ^ 1074 = ((f.toInt : ℝ) - x.V) / 2 ^ 1074 := by field_simp
  rw [e1, e2, abs_div, abs_div, abs_of_pos (by positivity : (0 : ℝ) < 2 ^ 1074), ← mul_div_assoc,
    div_le_div_iff_of_pos_right (by positivity), one_div_mul_eq_div, le_div_iff₀ (by positivity)]
  exact hq

/-- `1.0 + x` -/
theorem one_add_rv {x : TwoFloat} (hx : VW x) (bx : |rv x| ≤ 2 ^ 1000) :
    VW (arithmetic.impl_Add_TwoFloat_for_f64.add (f64lit 0x3ff0000000000000) x) ∧
    |rv (arithmetic.impl_Add_TwoFloat_for_f64.add (f64lit 0x3ff0000000000000) x) - (1 + rv x)|
      ≤ 1 / 2 ^ 105 * |1 + rv x| := by
  have h := add_ft_rv hx C01d.one_isVal.1 C01d.one_WF bx one_natAbs_lt
  rwa [fv_one] at h

/-- `1.0 − x` -/
theorem one_sub_rv {x : TwoFloat} (hx : VW x) (bx : |rv x| ≤ 2 ^ 1000) :
    VW (arithmetic.impl_Sub_TwoFloat_for_f64.sub (f64lit 0x3ff0000000000000) x) ∧
    |rv (arithmetic.impl_Sub_TwoFloat_for_f64.sub (f64lit 0x3ff0000000000000) x) - (1 - rv x)|
      ≤ 1 / 2 ^ 105 * |1 - rv x| := by
  have h := sub_ft_rv hx C01d.one_isVal.1 C01d.one_WF bx one_natAbs_lt
  rwa [fv_one] at h

theorem rv_pos_iff {t : TwoFloat} : 0 < rv t ↔ 0 < t.V := by
  unfold rv
  rw [div_pos_iff_of_pos_right (by positivity)]
  exact_mod_cast Iff.rfl

/-- **`TwoFloat::sqrt` over `ℝ`**: relative error `21u²` for a valid argument in `[2^-890, 2^990]` -/
theorem sqrt_rv {s : TwoFloat} (hs : VW s) (h1 : 1 / 2 ^ 890 ≤ rv s) (h2 : rv s ≤ 2 ^ 990) :
    VW (TwoFloat.sqrt s) ∧
    |rv (TwoFloat.sqrt s) - Real.sqrt (rv s)| ≤ 21 / 2 ^ 106 * Real.sqrt (rv s) := by
  have hpos : 0 < rv s := lt_of_lt_of_le (by positivity) h1
  have habs : |rv s| = rv s := abs_of_pos hpos
  obtain ⟨w1, w2, -, -⟩ := Exp2Bound.hi_window hs.1 (p := 890) (q := 990) (by norm_num) (by rw [habs]; exact h1)
    (by rw [habs]; exact h2)
  have hVpos : 0 < s.V := rv_pos_iff.1 hpos
  have hlo : 2 ^ 174 ≤ s.hi.toInt.natAbs := by
    have : (2 : ℤ) ^ 174 ≤ |s.hi.toInt| := le_trans (by norm_num) w1
    rw [← Int.natCast_natAbs] at this
    exact_mod_cast this
  have hhi : s.hi.toInt.natAbs ≤ 2 ^ 2074 := by
    have : |s.hi.toInt| ≤ (2 : ℤ) ^ 2074 := le_trans w2 (by norm_num)
    rw [← Int.natCast_natAbs] at this
    exact_mod_cast this
  obtain ⟨hV, hW, hb⟩ := C13s.sqrt_bound_21u2 hs.1 hs.2 hVpos hlo hhi
  refine ⟨⟨hV, hW⟩, ?_⟩
  generalize TwoFloat.sqrt s = R at *
  have hU : ((unit : ℕ) : ℝ) = 2 ^ 1074 := by rw [F64.unit_eq]; norm_num
  rw [hU] at hb
  have e : ((s.V : ℤ) : ℝ) * 2 ^ 1074 = rv s * (2 ^ 1074 * 2 ^ 1074) := by unfold rv; field_simp
  rw [e, Real.sqrt_mul hpos.le, Real.sqrt_mul_self (by positivity)] at hb
  have hR : ((R.V : ℤ) : ℝ) = rv R * 2 ^ 1074 := by unfold rv; field_simp
  rw [hR, ← sub_mul, abs_mul, abs_of_pos (by positivity : (0 : ℝ) < 2 ^ 1074)] at hb
  have hp : (0 : ℝ) < 2 ^ 1074 := by positivity
  have h3 : 2 ^ 106 * |rv R - Real.sqrt (rv s)| ≤ 21 * Real.sqrt (rv s) := by
    have : (2 ^ 106 * |rv R - Real.sqrt (rv s)|) * 2 ^ 1074 ≤ (21 * Real.sqrt (rv s)) * 2 ^ 1074 := by linarith
    exact le_of_mul_le_mul_right this hp
  rw [div_mul_eq_mul_div, le_div_iff₀ (by positivity)]
  linarith

/-- **`TwoFloat::ln` over `ℝ`** with the range stated on the value: `2^-990 ≤ v ≤ 2^950` -/
theorem ln_rv {a : TwoFloat} (ha : VW a) (h1 : 1 / 2 ^ 990 ≤ rv a) (h2 : rv a ≤ 2 ^ 950) :
    VW (TwoFloat.ln a) ∧
    |rv (TwoFloat.ln a) - Real.log (rv a)| ≤ 1 / 2 ^ 101 * (1 + |Real.log (rv a)|) := by
  have hpos : 0 < rv a := lt_of_lt_of_le (by positivity) h1
  have hVpos : 0 < a.V := rv_pos_iff.1 hpos
  have hhipos : 0 < a.hi.toInt := (ha.1.hi_pos_iff F64.roundFacts).2 hVpos
  obtain ⟨b1, b2⟩ := PowiBound.hi_bounds ha.1
  rw [abs_of_pos hVpos, abs_of_pos hhipos] at b1 b2
  have c1 : ((2 : ℝ) ^ 53 - 1) * (a.hi.toInt : ℝ) ≤ 2 ^ 53 * (a.V : ℝ) := by exact_mod_cast b1
  have c2 : (2 : ℝ) ^ 53 * (a.V : ℝ) ≤ (2 ^ 53 + 1) * (a.hi.toInt : ℝ) := by exact_mod_cast b2
  have hp : (0 : ℝ) < 2 ^ 1074 := by positivity
  have eV : (a.V : ℝ) = rv a * 2 ^ 1074 := by unfold rv; field_simp
  have eH : (a.hi.toInt : ℝ) = fv a.hi * 2 ^ 1074 := by unfold fv; field_simp
  rw [eV, eH] at c1 c2
  have d1 : ((2 : ℝ) ^ 53 - 1) * fv a.hi ≤ 2 ^ 53 * rv a := by
    have : (((2 : ℝ) ^ 53 - 1) * fv a.hi) * 2 ^ 1074 ≤ (2 ^ 53 * rv a) * 2 ^ 1074 := by linarith
    exact le_of_mul_le_mul_right this hp
  have d2 : (2 : ℝ) ^ 53 * rv a ≤ (2 ^ 53 + 1) * fv a.hi := by
    have : ((2 : ℝ) ^ 53 * rv a) * 2 ^ 1074 ≤ ((2 ^ 53 + 1) * fv a.hi) * 2 ^ 1074 := by linarith
    exact le_of_mul_le_mul_right this hp
  have hlo : 1 / 2 ^ 1000 ≤ fv a.hi := by
    have e : (1 : ℝ) / 2 ^ 990 = 1024 * (1 / 2 ^ 1000) := by norm_num
    rw [e] at h1
    generalize (1 : ℝ) / 2 ^ 1000 = c at *
    norm_num at d2
    linarith
  have hhi : fv a.hi ≤ 2 ^ 960 - 2 ^ 944 := by
    have e : (2 : ℝ) ^ 960 - 2 ^ 944 = 2 ^ 950 * 1023 + 2 ^ 944 * 63 := by norm_num
    have hf0 : 0 ≤ fv a.hi := le_trans (by positivity) hlo
    have : fv a.hi ≤ 2 * rv a := by norm_num at d1; linarith
    have h950 : (0 : ℝ) < 2 ^ 950 := by positivity
    have h944 : (0 : ℝ) < 2 ^ 944 := by positivity
    rw [e]
    nlinarith
  exact LnBound.ln_bound a ha.1 ha.2 hlo hhi

end ops

/-! ## 3. `powf`, positive base -/

section powf_real

/-- **error propagation of `exp(y·ln x)`**: `L = ln v`, `T` the computed logarithm (absolute error `32u²(1 + |L|)`),
`P` the computed product (`7u²` + underflow term), `E` the computed exponential (relative `d`).  The relative error of
`E` against `exp(y·L) = v^y` is at most `d + 32u²·|y| + 39.1u²·|y·L| + 0.01u²`. -/
theorem powf_real {L T y P E d : ℝ} (hL : |L| ≤ 21) (hy : |y| ≤ 10)
    (hT : |T - L| ≤ 1 / 2 ^ 101 * (1 + |L|))
    (hP : |P - y * T| ≤ 7 / 2 ^ 106 * |y * T| + 1 / 2 ^ 950)
    (hd0 : 0 ≤ d) (hd : d ≤ 37 / 2 ^ 106)
    (hE : |E - Real.exp P| ≤ d * Real.exp P) :
    |P - y * L| ≤ 1 / 2 ^ 92 ∧
    |E - Real.exp (y * L)| ≤ (d + 1 / 2 ^ 101 * |y| + 391 / 10 / 2 ^ 106 * |y * L| + 1 / 100 / 2 ^ 106)
      * Real.exp (y * L) := by
  have hya := abs_nonneg y
  have hLa := abs_nonneg L
  have hyL : |y * L| = |y| * |L| := abs_mul y L
  have hyLb : |y| * |L| ≤ 210 := by nlinarith
  -- |y·T − y·L|
  have h1 : |y * T - y * L| ≤ 1 / 2 ^ 101 * (|y| + |y| * |L|) := by
    rw [← mul_sub, abs_mul]
    have := mul_le_mul_of_nonneg_left hT hya
    nlinarith
  have h2 : |y * T| ≤ |y| * |L| + 1 / 2 ^ 101 * (|y| + |y| * |L|) := by
    have := abs_sub_abs_le_abs_sub (y * T) (y * L)
    rw [hyL] at this
    linarith
  have hP' : |P - y * T| ≤ 7 / 2 ^ 106 * (|y| * |L| + 1 / 2 ^ 101 * (|y| + |y| * |L|)) + 1 / 2 ^ 950 := by
    refine le_trans hP ?_
    have := mul_le_mul_of_nonneg_left h2 (by positivity : (0 : ℝ) ≤ 7 / 2 ^ 106)
    linarith
  -- δ = P − y·L
  have hδ : |P - y * L| ≤ (1 / 2 ^ 101 + 1 / 2 ^ 200) * |y| + 39001 / 1000 / 2 ^ 106 * (|y| * |L|) + 1 / 2 ^ 950 := by
    have h3 := abs_add_le (P - y * T) (y * T - y * L)
    rw [show P - y * T + (y * T - y * L) = P - y * L by ring] at h3
    have e : (7 : ℝ) / 2 ^ 106 * (|y| * |L| + 1 / 2 ^ 101 * (|y| + |y| * |L|)) + 1 / 2 ^ 950
        + 1 / 2 ^ 101 * (|y| + |y| * |L|)
        = (1 / 2 ^ 101 * (1 + 7 / 2 ^ 106)) * |y| + (7 / 2 ^ 106 + 1 / 2 ^ 101 * (1 + 7 / 2 ^ 106)) * (|y| * |L|)
          + 1 / 2 ^ 950 := by ring
    have c1 : (1 : ℝ) / 2 ^ 101 * (1 + 7 / 2 ^ 106) ≤ 1 / 2 ^ 101 + 1 / 2 ^ 200 := by norm_num
    have c2 : (7 : ℝ) / 2 ^ 106 + 1 / 2 ^ 101 * (1 + 7 / 2 ^ 106) ≤ 39001 / 1000 / 2 ^ 106 := by norm_num
    have := mul_le_mul_of_nonneg_right c1 hya
    have := mul_le_mul_of_nonneg_right c2 (mul_nonneg hya hLa)
    linarith
  have hδs : |P - y * L| ≤ 1 / 2 ^ 92 := by
    refine le_trans hδ ?_
    have := mul_le_mul_of_nonneg_left hy (by positivity : (0 : ℝ) ≤ 1 / 2 ^ 101 + 1 / 2 ^ 200)
    have := mul_le_mul_of_nonneg_left hyLb (by positivity : (0 : ℝ) ≤ 39001 / 1000 / 2 ^ 106)
    have : ((1 : ℝ) / 2 ^ 101 + 1 / 2 ^ 200) * 10 + 39001 / 1000 / 2 ^ 106 * 210 + 1 / 2 ^ 950 ≤ 1 / 2 ^ 92 := by
      norm_num
    linarith
  refine ⟨hδs, ?_⟩
  generalize hδdef : P - y * L = δ at *
  have hPe : P = y * L + δ := by rw [← hδdef]; ring
  have hδ1 : |δ| ≤ 1 := le_trans hδs (by norm_num)
  have hx2 := Real.abs_exp_sub_one_sub_id_le hδ1
  have hδ2 : δ ^ 2 ≤ 1 / 2 ^ 184 := by
    rw [← sq_abs]
    calc |δ| ^ 2 ≤ (1 / 2 ^ 92) ^ 2 := pow_le_pow_left₀ (abs_nonneg _) hδs 2
      _ = 1 / 2 ^ 184 := by norm_num
  have hexpδ : |Real.exp δ - 1| ≤ |δ| + 1 / 2 ^ 184 := by
    have := abs_add_le (Real.exp δ - 1 - δ) δ
    rw [show Real.exp δ - 1 - δ + δ = Real.exp δ - 1 by ring] at this
    linarith
  have hG := Real.exp_pos (y * L)
  rw [hPe, Real.exp_add] at hE
  obtain ⟨g1, g2⟩ := abs_le.1 hexpδ
  have hexpδ2 : Real.exp δ ≤ 1 + 1 / 2 ^ 91 := by
    have : (1 : ℝ) / 2 ^ 92 + 1 / 2 ^ 184 ≤ 1 / 2 ^ 91 := by norm_num
    linarith
  -- assemble
  have h5 : |E - Real.exp (y * L)| ≤ d * (Real.exp (y * L) * Real.exp δ)
      + Real.exp (y * L) * (|δ| + 1 / 2 ^ 184) := by
    have h6 := abs_add_le (E - Real.exp (y * L) * Real.exp δ) (Real.exp (y * L) * (Real.exp δ - 1))
    rw [show E - Real.exp (y * L) * Real.exp δ + Real.exp (y * L) * (Real.exp δ - 1) = E - Real.exp (y * L) by ring,
      abs_mul, abs_of_pos hG] at h6
    have := mul_le_mul_of_nonneg_left hexpδ hG.le
    linarith
  refine le_trans h5 ?_
  have h7 : d * (Real.exp (y * L) * Real.exp δ) ≤ d * (Real.exp (y * L) * (1 + 1 / 2 ^ 91)) :=
    mul_le_mul_of_nonneg_left (mul_le_mul_of_nonneg_left hexpδ2 hG.le) hd0
  have h8 : d * (1 / 2 ^ 91) ≤ 37 / 2 ^ 106 * (1 / 2 ^ 91) := mul_le_mul_of_nonneg_right hd (by positivity)
  have h9 : |δ| ≤ 1 / 2 ^ 101 * |y| + 391 / 10 / 2 ^ 106 * (|y| * |L|) + 1 / 200 / 2 ^ 106 := by
    refine le_trans hδ ?_
    have a1 : ((1 : ℝ) / 2 ^ 101 + 1 / 2 ^ 200) * |y| = 1 / 2 ^ 101 * |y| + 1 / 2 ^ 200 * |y| := by ring
    have a2 := mul_le_mul_of_nonneg_left hy (by positivity : (0 : ℝ) ≤ 1 / 2 ^ 200)
    have a3 : (39001 : ℝ) / 1000 / 2 ^ 106 * (|y| * |L|) ≤ 391 / 10 / 2 ^ 106 * (|y| * |L|) :=
      mul_le_mul_of_nonneg_right (by norm_num) (mul_nonneg hya hLa)
    have a4 : (1 : ℝ) / 2 ^ 200 * 10 + 1 / 2 ^ 950 ≤ 1 / 200 / 2 ^ 106 := by norm_num
    linarith
  rw [hyL]
  have k : d * (1 + 1 / 2 ^ 91) + (|δ| + 1 / 2 ^ 184)
      ≤ d + 1 / 2 ^ 101 * |y| + 391 / 10 / 2 ^ 106 * (|y| * |L|) + 1 / 100 / 2 ^ 106 := by
    have : (37 : ℝ) / 2 ^ 106 * (1 / 2 ^ 91) + 1 / 2 ^ 184 + 1 / 200 / 2 ^ 106 ≤ 1 / 100 / 2 ^ 106 := by norm_num
    linarith
  have := mul_le_mul_of_nonneg_right k hG.le
  nlinarith

/-- `|ln v| ≤ 21` for `2^-30 ≤ v ≤ 2^30` -/
theorem log_range_30 {v : ℝ} (h1 : 1 / 2 ^ 30 ≤ v) (h2 : v ≤ 2 ^ 30) : |Real.log v| ≤ 21 := by
  have hv : 0 < v := lt_of_lt_of_le (by positivity) h1
  have l2 := Real.log_two_lt_d9
  have l2' := Real.log_two_gt_d9
  have e1 : Real.log ((2 : ℝ) ^ 30) = 30 * Real.log 2 := by rw [Real.log_pow]; norm_num
  have up : Real.log v ≤ 30 * Real.log 2 := by rw [← e1]; exact Real.log_le_log hv h2
  have lo : -(30 * Real.log 2) ≤ Real.log v := by
    rw [← e1, ← Real.log_inv]
    apply Real.log_le_log (by positivity)
    rw [inv_eq_one_div]; exact h1
  rw [abs_le]
  constructor <;> linarith

/-- `e^(−212) ≥ 2^-960·(1 + 2^-40)` (with a lot of room) -/
theorem exp_ge_of_ge {p : ℝ} (h : -212 ≤ p) : (1 + 1 / 2 ^ 40) / 2 ^ 960 ≤ Real.exp p := by
  have h1 : Real.exp (-212) ≤ Real.exp p := Real.exp_le_exp.2 h
  have h2 : Real.exp (212 : ℝ) ≤ 3 ^ 212 := by
    have e : (212 : ℝ) = ((212 : ℕ) : ℝ) * 1 := by norm_num
    rw [e, Real.exp_nat_mul]
    exact pow_le_pow_left₀ (Real.exp_pos 1).le (le_trans Real.exp_one_lt_d9.le (by norm_num)) 212
  have h3 : (3 : ℝ) ^ 212 ≤ 2 ^ 400 := by norm_num
  have h4 : (1 : ℝ) / 2 ^ 400 ≤ Real.exp (-212) := by
    rw [Real.exp_neg, one_div]
    exact inv_anti₀ (Real.exp_pos _) (le_trans h2 h3)
  have h5 : ((1 : ℝ) + 1 / 2 ^ 40) / 2 ^ 960 ≤ 1 / 2 ^ 400 := by norm_num
  linarith

end powf_real

/-! ## 4. `powf` on pairs -/

section powf_tf
open F64 TwoFloat

theorem eq_zero_false_of_pos {x : TwoFloat} (hv : x.Valid) (hpos : 0 < rv x) :
    base.impl_PartialEq_f64_for_TwoFloat.eq x (f64lit 0x0000000000000000) = false := by
  have hVpos : 0 < x.V := rv_pos_iff.1 hpos
  have hhi : 0 < x.hi.toInt := (hv.hi_pos_iff F64.roundFacts).2 hVpos
  cases hq : base.impl_PartialEq_f64_for_TwoFloat.eq x (f64lit 0x0000000000000000)
  · rfl
  · exfalso
    rw [TwoFloat.eq_tf_nf, Bool.and_eq_true, F64.f64lit_zero] at hq
    have := (F64.eq_zero_iff hv.1).1 hq.1
    omega

theorem sign_positive_of_pos {x : TwoFloat} (hv : x.Valid) (hpos : 0 < rv x) :
    TwoFloat.is_sign_positive x = true := by
  have hVpos : 0 < x.V := rv_pos_iff.1 hpos
  have hhi : 0 < x.hi.toInt := (hv.hi_pos_iff F64.roundFacts).2 hVpos
  unfold TwoFloat.is_sign_positive
  obtain ⟨s, n, hsn⟩ := F64.is_finite_iff.mp hv.1
  rw [hsn] at hhi ⊢
  cases s
  · rfl
  · exfalso; simp [F64.toInt] at hhi; omega

theorem rv_zero_of_eq_zero {y : TwoFloat} (hv : y.Valid)
    (h : base.impl_PartialEq_f64_for_TwoFloat.eq y (f64lit 0x0000000000000000) = true) : rv y = 0 := by
  rw [TwoFloat.eq_tf_nf, Bool.and_eq_true, F64.f64lit_zero] at h
  have h1 := (F64.eq_zero_iff hv.1).1 h.1
  have h2 := (F64.eq_zero_iff hv.2.1).1 h.2
  unfold rv TwoFloat.V
  rw [h1, h2]; simp

theorem rv_one : rv C14.one = 1 := by
  rw [C14.one_words]
  unfold rv
  rw [show (⟨F64.one, F64.zero⟩ : TwoFloat).V = 2 ^ 1074 by decide +kernel]
  simp only [Int.cast_pow, Int.cast_ofNat]
  exact div_self (by positivity : ((2 : ℝ) ^ 1074) ≠ 0)

theorem VW_one : VW C14.one := by
  rw [C14.one_words]
  exact ⟨by decide +kernel, by decide +kernel⟩

/-- **`powf` for a positive base**, `2^-30 ≤ v ≤ 2^30`, `|w| ≤ 10`: a valid pair within relative
`d + 32u²·|w| + 39.1u²·|w·ln v| + 0.01u²` of `exp(w·ln v) = v^w`, where `d = 21u²`, or `d = 37u²` when
`w·ln v ≤ −0.7498` -/
theorem powf_bound_gen (x y : TwoFloat) (hx : VW x) (hy : VW y) (hx1 : 1 / 2 ^ 30 ≤ rv x) (hx2 : rv x ≤ 2 ^ 30)
    (hyb : |rv y| ≤ 10) :
    VW (TwoFloat.powf x y) ∧ ∃ d : ℝ,
      (d = 21 / 2 ^ 106 ∨ (d = 37 / 2 ^ 106 ∧ rv y * Real.log (rv x) ≤ -(7498 / 10000))) ∧
      |rv (TwoFloat.powf x y) - Real.exp (rv y * Real.log (rv x))|
        ≤ (d + 1 / 2 ^ 101 * |rv y| + 391 / 10 / 2 ^ 106 * |rv y * Real.log (rv x)| + 1 / 100 / 2 ^ 106)
          * Real.exp (rv y * Real.log (rv x)) := by
  have hpos : 0 < rv x := lt_of_lt_of_le (by positivity) hx1
  have hx0 := eq_zero_false_of_pos hx.1 hpos
  cases hy0 : base.impl_PartialEq_f64_for_TwoFloat.eq y (f64lit 0x0000000000000000)
  · -- the generic branch
    rw [C14.powf_pos_base x y hx0 hy0 (sign_positive_of_pos hx.1 hpos)]
    rw [show (y *. TwoFloat.ln x) = arithmetic.impl_Mul_TwoFloat_for_TwoFloat.mul y (TwoFloat.ln x) from rfl]
    have hL := log_range_30 hx1 hx2
    obtain ⟨hT, hTb⟩ := ln_rv hx (le_trans (by norm_num) hx1) (le_trans hx2 (by norm_num))
    generalize TwoFloat.ln x = T at *
    have hTabs : |rv T| ≤ 22 := by
      have h1 := abs_sub_abs_le_abs_sub (rv T) (Real.log (rv x))
      have h2 : (1 : ℝ) / 2 ^ 101 * (1 + |Real.log (rv x)|) ≤ 1 / 2 ^ 101 * (1 + 21) :=
        mul_le_mul_of_nonneg_left (by linarith) (by positivity)
      have : (1 : ℝ) / 2 ^ 101 * (1 + 21) ≤ 1 := by norm_num
      linarith
    have hyT : |rv y * rv T| ≤ 220 := by
      rw [abs_mul]
      calc |rv y| * |rv T| ≤ 10 * 22 := mul_le_mul hyb hTabs (abs_nonneg _) (by norm_num)
        _ = 220 := by norm_num
    obtain ⟨hP, hPb⟩ := mul_rv hy hT (le_trans hyT (by norm_num))
    generalize arithmetic.impl_Mul_TwoFloat_for_TwoFloat.mul y T = P at *
    have hPabs : |rv P| ≤ 212 := by
      -- via the exact product y·L
      have h1 := abs_sub_abs_le_abs_sub (rv P) (rv y * rv T)
      have h2 : (7 : ℝ) / 2 ^ 106 * |rv y * rv T| ≤ 7 / 2 ^ 106 * 220 :=
        mul_le_mul_of_nonneg_left hyT (by positivity)
      have h3 : |rv y * rv T| ≤ 10 * (21 + 1 / 2 ^ 101 * (1 + 21)) := by
        rw [abs_mul]
        have h4 := abs_sub_abs_le_abs_sub (rv T) (Real.log (rv x))
        have h5 : (1 : ℝ) / 2 ^ 101 * (1 + |Real.log (rv x)|) ≤ 1 / 2 ^ 101 * (1 + 21) :=
          mul_le_mul_of_nonneg_left (by linarith) (by positivity)
        exact mul_le_mul hyb (by linarith) (abs_nonneg _) (by norm_num)
      have h6 : (10 : ℝ) * (21 + 1 / 2 ^ 101 * (1 + 21)) + 7 / 2 ^ 106 * 220 + 1 / 2 ^ 950 ≤ 212 := by norm_num
      linarith
    obtain ⟨p1, p2⟩ := abs_le.1 hPabs
    obtain ⟨hE, d, hEb, hd⟩ := LnBound.exp_bound_sharp P hP.1 hP.2 (by linarith) (by linarith)
      (exp_ge_of_ge p1)
    refine ⟨hE, d, ?_, ?_⟩
    · rcases hd with h | ⟨h, hp⟩
      · exact Or.inl h
      · refine Or.inr ⟨h, ?_⟩
        have hd0 : (0 : ℝ) ≤ d := by rw [h]; positivity
        have hd37 : d ≤ 37 / 2 ^ 106 := by rw [h]
        obtain ⟨hδ, -⟩ := powf_real hL hyb hTb hPb hd0 hd37 hEb
        obtain ⟨δ1, -⟩ := abs_le.1 hδ
        have : (1 : ℝ) / 2 ^ 92 ≤ 1 / 10000 := by norm_num
        linarith
    · have hd0 : (0 : ℝ) ≤ d := by rcases hd with h | ⟨h, -⟩ <;> (rw [h]; positivity)
      have hd37 : d ≤ 37 / 2 ^ 106 := by rcases hd with h | ⟨h, -⟩ <;> (rw [h]; try norm_num)
      exact (powf_real hL hyb hTb hPb hd0 hd37 hEb).2
  · -- y == 0: the result is exactly 1 = v^0
    rw [C14.powf_zero_exponent x y hx0 hy0]
    have hw0 := rv_zero_of_eq_zero hy.1 hy0
    refine ⟨VW_one, 21 / 2 ^ 106, Or.inl rfl, ?_⟩
    rw [hw0, rv_one]
    simp
    positivity

end powf_tf

end PowfBound
