/-
Lemmas.PowiBound — error bound of `TwoFloat::powi` (property C13, numerical part).
-/
import TFV.Lemmas.Bounds
import TFV.Properties.C04x
import TFV.Properties.C01d
import TFV.Properties.C13
import Mathlib.Algebra.Order.Field.Basic
import Mathlib.Algebra.Order.Ring.Pow
import Mathlib.Algebra.Order.Field.Rat
import Mathlib.Tactic.Ring
import Mathlib.Tactic.Linarith
import Mathlib.Tactic.NormNum
import Mathlib.Tactic.Positivity
import Mathlib.Tactic.FieldSimp

set_option exponentiation.threshold 4000

namespace F64

/-- **DWTimesDW3 in the crate's form, binade analysis.**  High words normal (`ulp` exponents `ax, ay ≠ 0`), low
words at most half an ulp, `ulp(xh)·ulp(yh) = 4·U·2^j` with `j ≥ 66` (no underflow anywhere near the `u³` level):
the four rounding errors together are at most `(5u² + 12u³)` times the exact product. -/
theorem dwtimesdw_err_5u2_j66 {xh xl yh yl Q : Int} {U j : Nat} (hU : 0 < U) (hxh : RepI xh) (hyh : RepI yh)
    (hx : 2 * |xl| ≤ 2 ^ (Nat.log2 xh.natAbs - 52)) (hy : 2 * |yl| ≤ 2 ^ (Nat.log2 yh.natAbs - 52))
    (hax : Nat.log2 xh.natAbs - 52 ≠ 0) (hay : Nat.log2 yh.natAbs - 52 ≠ 0)
    (hκ : (2 : Int) ^ (Nat.log2 xh.natAbs - 52) * 2 ^ (Nat.log2 yh.natAbs - 52) = 4 * ((U : Int) * 2 ^ j))
    (hj : 66 ≤ j) (hQ : xh * yh = Q * (U : Int))
    {tl0 tl1 cl2 cl3 : Int} (ht0 : tl0 = rqI (xl * yl) U) (ht1 : tl1 = rqI (xh * yl + tl0 * (U : Int)) U)
    (hc2 : cl2 = rqI (xl * yh + tl1 * (U : Int)) U) (hc3 : cl3 = rnI (Q - rnI Q + cl2)) :
    2 ^ 159 * |(rnI Q + cl3) * (U : Int) - (xh + xl) * (yh + yl)|
      ≤ (5 * 2 ^ 53 + 12) * |(xh + xl) * (yh + yl)| := by
  have hUi : (0 : Int) < (U : Int) := Int.natCast_pos.2 hU
  have f1 := ulp_mul_le_abs hax
  have f2 := hxh.add_ulp_le
  have f3 := ulp_mul_le_abs hay
  have f4 := hyh.add_ulp_le
  have pux := two_pow_pos' (Nat.log2 xh.natAbs - 52)
  have puy := two_pow_pos' (Nat.log2 yh.natAbs - 52)
  generalize (2 : Int) ^ (Nat.log2 xh.natAbs - 52) = ux at *
  generalize (2 : Int) ^ (Nat.log2 yh.natAbs - 52) = uy at *
  have hUκ : 2 ^ 66 * (U : Int) ≤ (U : Int) * 2 ^ j := by
    rw [mul_comm]
    exact mul_le_mul_of_nonneg_left (pow_le_pow_right₀ (by norm_num) hj) (le_of_lt hUi)
  have e1 : (U : Int) * 2 ^ (j + 1) = 2 * ((U : Int) * 2 ^ j) := by rw [pow_succ]; ring
  have e2 : (U : Int) * 2 ^ (j + 2) = 4 * ((U : Int) * 2 ^ j) := by rw [pow_add]; ring
  have e3 : (U : Int) * 2 ^ (j + 3) = 8 * ((U : Int) * 2 ^ j) := by rw [pow_add]; ring
  have e54 : (U : Int) * 2 ^ (j + 54) = 2 ^ 54 * ((U : Int) * 2 ^ j) := by rw [pow_add]; ring
  have e55 : (U : Int) * 2 ^ (j + 55) = 2 ^ 55 * ((U : Int) * 2 ^ j) := by rw [pow_add]; ring
  have pκ : (0 : Int) < (U : Int) * 2 ^ j := mul_pos hUi (two_pow_pos' j)
  -- products of magnitudes
  have pAx := abs_nonneg xh
  have pAy := abs_nonneg yh
  have pLx := abs_nonneg xl
  have pLy := abs_nonneg yl
  have g1 : 2 ^ 54 * ((U : Int) * 2 ^ j) ≤ |xh| * uy := by
    have := mul_le_mul_of_nonneg_right f1 (le_of_lt puy)
    have e : (2 : Int) ^ 52 * ux * uy = 2 ^ 52 * (ux * uy) := by ring
    rw [e, hκ] at this
    linarith
  have g2 : |xh| * uy + 4 * ((U : Int) * 2 ^ j) ≤ 2 ^ 55 * ((U : Int) * 2 ^ j) := by
    have := mul_le_mul_of_nonneg_right f2 (le_of_lt puy)
    have e : (2 : Int) ^ 53 * ux * uy = 2 ^ 53 * (ux * uy) := by ring
    have e' : (|xh| + ux) * uy = |xh| * uy + ux * uy := by ring
    rw [e, e', hκ] at this
    linarith
  have g3 : 2 ^ 54 * ((U : Int) * 2 ^ j) ≤ ux * |yh| := by
    have := mul_le_mul_of_nonneg_left f3 (le_of_lt pux)
    have e : ux * ((2 : Int) ^ 52 * uy) = 2 ^ 52 * (ux * uy) := by ring
    rw [e, hκ] at this
    linarith
  have g4 : ux * |yh| + 4 * ((U : Int) * 2 ^ j) ≤ 2 ^ 55 * ((U : Int) * 2 ^ j) := by
    have := mul_le_mul_of_nonneg_left f4 (le_of_lt pux)
    have e : ux * ((2 : Int) ^ 53 * uy) = 2 ^ 53 * (ux * uy) := by ring
    have e' : ux * (|yh| + uy) = ux * |yh| + ux * uy := by ring
    rw [e, e', hκ] at this
    linarith
  have g5 : 2 * (|xh| * |yl|) ≤ |xh| * uy := by
    have := mul_le_mul_of_nonneg_left hy pAx
    linarith
  have g6 : 2 * (|xl| * |yh|) ≤ ux * |yh| := by
    have := mul_le_mul_of_nonneg_right hx pAy
    linarith
  have g7 : |xl| * |yl| ≤ (U : Int) * 2 ^ j := by
    have := mul_le_mul hx hy (by positivity) (le_of_lt pux)
    rw [hκ] at this
    linarith
  have g8 : 2 ^ 52 * (ux * |yh|) + 2 ^ 52 * (|xh| * uy) ≤ |xh| * |yh| + 2 ^ 106 * ((U : Int) * 2 ^ j) := by
    have := mul_nonneg (sub_nonneg.2 f1) (sub_nonneg.2 f3)
    have e : (|xh| - 2 ^ 52 * ux) * (|yh| - 2 ^ 52 * uy)
        = |xh| * |yh| - 2 ^ 52 * (ux * |yh|) - 2 ^ 52 * (|xh| * uy) + 2 ^ 104 * (ux * uy) := by ring
    rw [e, hκ] at this
    linarith
  have g9 : |xh| * |yh| < 2 ^ 108 * ((U : Int) * 2 ^ j) := by
    have h1 : |xh| < 2 ^ 53 * ux := by linarith
    have h2 : |yh| < 2 ^ 53 * uy := by linarith
    have := mul_lt_mul'' h1 h2 pAx pAy
    have e : (2 : Int) ^ 53 * ux * (2 ^ 53 * uy) = 2 ^ 106 * (ux * uy) := by ring
    rw [e, hκ] at this
    linarith
  -- abs of the products
  have a0 : |xh * yh| = |xh| * |yh| := abs_mul _ _
  have a1 : |xh * yl| = |xh| * |yl| := abs_mul _ _
  have a2 : |xl * yh| = |xl| * |yh| := abs_mul _ _
  have a3 : |xl * yl| = |xl| * |yl| := abs_mul _ _
  -- rounding errors
  have r1 := rqI_err_le (xl * yl) hU
  rw [← ht0] at r1
  have m0 : |tl0 * (U : Int)| ≤ |xl * yl| + |xl * yl + -tl0 * (U : Int)| := by
    have := abs_add_le (xl * yl) (-(xl * yl + -tl0 * (U : Int)))
    rw [abs_neg] at this
    have e : xl * yl + -(xl * yl + -tl0 * (U : Int)) = tl0 * (U : Int) := by ring
    rwa [e] at this
  have n2 := abs_add_le (xh * yl) (tl0 * (U : Int))
  have r2 := rqI_err_of_lt (p := xh * yl + tl0 * (U : Int)) (m := j + 1) hU (by rw [e1]; linarith)
  rw [← ht1, e1] at r2
  have m1 : |tl1 * (U : Int)| ≤ |xh * yl + tl0 * (U : Int)| + |xh * yl + tl0 * (U : Int) + -tl1 * (U : Int)| := by
    have := abs_add_le (xh * yl + tl0 * (U : Int)) (-(xh * yl + tl0 * (U : Int) + -tl1 * (U : Int)))
    rw [abs_neg] at this
    have e : xh * yl + tl0 * (U : Int) + -(xh * yl + tl0 * (U : Int) + -tl1 * (U : Int)) = tl1 * (U : Int) := by ring
    rwa [e] at this
  have n3 := abs_add_le (xl * yh) (tl1 * (U : Int))
  have r3 := rqI_err_of_lt (p := xl * yh + tl1 * (U : Int)) (m := j + 2) hU (by rw [e2]; linarith)
  rw [← hc2, e2] at r3
  have m2 : |cl2 * (U : Int)| ≤ |xl * yh + tl1 * (U : Int)| + |xl * yh + tl1 * (U : Int) + -cl2 * (U : Int)| := by
    have := abs_add_le (xl * yh + tl1 * (U : Int)) (-(xl * yh + tl1 * (U : Int) + -cl2 * (U : Int)))
    rw [abs_neg] at this
    have e : xl * yh + tl1 * (U : Int) + -(xl * yh + tl1 * (U : Int) + -cl2 * (U : Int)) = cl2 * (U : Int) := by ring
    rwa [e] at this
  have c1a : |xh * yh| < 2 ^ 107 * ((U : Int) * 2 ^ j) →
      2 * (|Q - rnI Q| * (U : Int)) ≤ 2 ^ 54 * ((U : Int) * 2 ^ j) := by
    intro h
    have := resid_le_of_lt (Q := Q) (m := j + 54) hU (by rw [← hQ, e54]; linarith)
    rwa [e54] at this
  have c1b : 2 * (|Q - rnI Q| * (U : Int)) ≤ 2 ^ 55 * ((U : Int) * 2 ^ j) := by
    have := resid_le_of_lt (Q := Q) (m := j + 55) hU (by rw [← hQ, e55, a0]; linarith)
    rwa [e55] at this
  have n4 : |Q - rnI Q + cl2| * (U : Int) ≤ |Q - rnI Q| * (U : Int) + |cl2 * (U : Int)| := by
    have := mul_le_mul_of_nonneg_right (abs_add_le (Q - rnI Q) cl2) (le_of_lt hUi)
    rw [abs_mul cl2, abs_of_pos hUi]
    linarith
  have r4a : |Q - rnI Q + cl2| * (U : Int) < 2 ^ 55 * ((U : Int) * 2 ^ j) →
      2 * (|cl3 - (Q - rnI Q + cl2)| * (U : Int)) ≤ 4 * ((U : Int) * 2 ^ j) := by
    intro h
    have := rnI_err_mul_of_lt (n := Q - rnI Q + cl2) (m := j + 2) hU (by rw [e2]; linarith)
    rwa [e2, ← hc3] at this
  have r4b : |Q - rnI Q + cl2| * (U : Int) < 2 ^ 56 * ((U : Int) * 2 ^ j) →
      2 * (|cl3 - (Q - rnI Q + cl2)| * (U : Int)) ≤ 8 * ((U : Int) * 2 ^ j) := by
    intro h
    have := rnI_err_mul_of_lt (n := Q - rnI Q + cl2) (m := j + 3) hU (by rw [e3]; linarith)
    rwa [e3, ← hc3] at this
  -- the error is the sum of the four rounding errors
  have herr : (rnI Q + cl3) * (U : Int) - (xh + xl) * (yh + yl)
      = -((xl * yl + -tl0 * (U : Int)) + (xh * yl + tl0 * (U : Int) + -tl1 * (U : Int))
          + (xl * yh + tl1 * (U : Int) + -cl2 * (U : Int))) + (cl3 - (Q - rnI Q + cl2)) * (U : Int) := by
    have : (xh + xl) * (yh + yl) = Q * (U : Int) + xh * yl + xl * yh + xl * yl := by rw [← hQ]; ring
    rw [this]; ring
  have t1 := abs_add_le (-((xl * yl + -tl0 * (U : Int)) + (xh * yl + tl0 * (U : Int) + -tl1 * (U : Int))
          + (xl * yh + tl1 * (U : Int) + -cl2 * (U : Int)))) ((cl3 - (Q - rnI Q + cl2)) * (U : Int))
  rw [abs_neg, abs_mul (cl3 - (Q - rnI Q + cl2)), abs_of_pos hUi] at t1
  have t2 := abs_add_le ((xl * yl + -tl0 * (U : Int)) + (xh * yl + tl0 * (U : Int) + -tl1 * (U : Int)))
    (xl * yh + tl1 * (U : Int) + -cl2 * (U : Int))
  have t3 := abs_add_le (xl * yl + -tl0 * (U : Int)) (xh * yl + tl0 * (U : Int) + -tl1 * (U : Int))
  have hP : |xh * yh| ≤ |(xh + xl) * (yh + yl)| + |xh * yl| + |xl * yh| + |xl * yl| := by
    have p1 := abs_add_le ((xh + xl) * (yh + yl)) (-(xh * yl + xl * yh + xl * yl))
    have p2 := abs_add_le (xh * yl + xl * yh) (xl * yl)
    have p3 := abs_add_le (xh * yl) (xl * yh)
    rw [abs_neg] at p1
    have e : (xh + xl) * (yh + yl) + -(xh * yl + xl * yh + xl * yl) = xh * yh := by ring
    rw [e] at p1
    linarith
  rw [herr]
  rw [a0] at hP c1a
  rw [a1] at hP n2
  rw [a2] at hP n3
  rw [a3] at hP m0 r1
  generalize |xl * yl + -tl0 * (U : Int)| = D1 at *
  generalize |xh * yl + tl0 * (U : Int) + -tl1 * (U : Int)| = D2 at *
  generalize |xl * yh + tl1 * (U : Int) + -cl2 * (U : Int)| = D3 at *
  generalize |cl3 - (Q - rnI Q + cl2)| * (U : Int) = D4 at *
  generalize |Q - rnI Q| * (U : Int) = C1 at *
  generalize |Q - rnI Q + cl2| * (U : Int) = N4 at *
  generalize |xh * yl + tl0 * (U : Int)| = N2 at *
  generalize |xl * yh + tl1 * (U : Int)| = N3 at *
  generalize |tl0 * (U : Int)| = T0 at *
  generalize |tl1 * (U : Int)| = T1 at *
  generalize |cl2 * (U : Int)| = C2 at *
  generalize |xh| * |yh| = A at *
  generalize |xh| * |yl| = B1 at *
  generalize |xl| * |yh| = B2 at *
  generalize |xl| * |yl| = Z at *
  generalize |xh| * uy = p at *
  generalize ux * |yh| = q at *
  generalize (U : Int) * 2 ^ j = κ at *
  generalize |(xh + xl) * (yh + yl)| = P at *
  rcases lt_or_ge A (2 ^ 107 * κ) with hA | hA
  · have hC1 := c1a hA
    rcases lt_or_ge N4 (2 ^ 55 * κ) with hN | hN
    · have hD4 := r4a hN
      linarith
    · have hD4 := r4b (by linarith)
      linarith
  · have hD4 := r4b (by linarith)
    linarith

end F64

namespace TwoFloat

open F64

/-- ulp exponents of two normal doubles whose product is at least `2^-901` (scaled `2^1247`) -/
theorem ulp_prod_of_prod_ge {a b : Int} (ha : 2 ^ 53 ≤ |a|) (hb : 2 ^ 53 ≤ |b|) (hab : 2 ^ 1247 ≤ |a * b|) :
    Nat.log2 a.natAbs - 52 ≠ 0 ∧ Nat.log2 b.natAbs - 52 ≠ 0 ∧
    ∃ j : Nat, 66 ≤ j ∧ (2 : Int) ^ (Nat.log2 a.natAbs - 52) * 2 ^ (Nat.log2 b.natAbs - 52)
      = 4 * ((unit : Int) * 2 ^ j) := by
  have h1 : 1 ≤ Nat.log2 a.natAbs - 52 :=
    le_ulpexp_of_le_abs (by rw [← pow_add]; exact ha)
  have h2 : 1 ≤ Nat.log2 b.natAbs - 52 :=
    le_ulpexp_of_le_abs (by rw [← pow_add]; exact hb)
  have la : a.natAbs < 2 ^ (Nat.log2 a.natAbs + 1) := Nat.lt_log2_self
  have lb : b.natAbs < 2 ^ (Nat.log2 b.natAbs + 1) := Nat.lt_log2_self
  have hprod : 2 ^ 1247 ≤ a.natAbs * b.natAbs := by
    rw [abs_mul, ← Int.natCast_natAbs a, ← Int.natCast_natAbs b] at hab
    exact_mod_cast hab
  have hlt : 2 ^ 1247 < 2 ^ (Nat.log2 a.natAbs + 1 + (Nat.log2 b.natAbs + 1)) := by
    rw [pow_add]
    exact lt_of_le_of_lt hprod (Nat.mul_lt_mul'' la lb)
  have hexp : 1247 < Nat.log2 a.natAbs + 1 + (Nat.log2 b.natAbs + 1) :=
    (Nat.pow_lt_pow_iff_right (by norm_num)).1 hlt
  obtain ⟨j, hj⟩ : ∃ j, Nat.log2 a.natAbs - 52 + (Nat.log2 b.natAbs - 52) = 2 + (1074 + j) :=
    ⟨Nat.log2 a.natAbs - 52 + (Nat.log2 b.natAbs - 52) - 1076, by omega⟩
  refine ⟨by omega, by omega, j, by omega, ?_⟩
  rw [← pow_add, unit_cast_eq, hj, pow_add, pow_add]
  norm_num

/-- **`TwoFloat * TwoFloat`, relative error `≤ 5u² + 12u³` on the WIDE range**: both high words normal, and their
product of magnitude in `[2^-901, 2^1021)` (scaled `[2^1247, 2^3169)`).  Same proof as
`mul_tt_bound_5u2_12u3_partial`; the binade analysis only needs `j ≥ 66`. -/
theorem mul_tt_bound_5u2_12u3_wide {x y : TwoFloat} (hvx : x.Valid) (hwx : x.WF) (hvy : y.Valid) (hwy : y.WF)
    (hx : 2 ^ 53 ≤ |x.hi.toInt|) (hy : 2 ^ 53 ≤ |y.hi.toInt|)
    (hlo : 2 ^ 1247 ≤ |x.hi.toInt * y.hi.toInt|) (hhi : |x.hi.toInt * y.hi.toInt| < 2 ^ 3169) :
    (arithmetic.impl_Mul_rTwoFloat_for_rTwoFloat.mul x y).Valid ∧
    |(arithmetic.impl_Mul_rTwoFloat_for_rTwoFloat.mul x y).V * (unit : Int) - x.V * y.V| * 2 ^ 159
      ≤ (5 * 2 ^ 53 + 12) * |x.V * y.V| := by
  have hr : x.hi.toInt * y.hi.toInt = 0 ∨
      ((2 : Int) ^ 1188 ≤ |x.hi.toInt * y.hi.toInt| ∧ |x.hi.toInt * y.hi.toInt| < (2 : Int) ^ 3169) :=
    Or.inr ⟨le_trans (pow_le_pow_right₀ (by norm_num) (by norm_num)) hlo, hhi⟩
  obtain ⟨Q, hQ, hV, hval⟩ := mul_tt_values hvx hwx hvy hwy hr
  refine ⟨hV, ?_⟩
  rw [hval]
  obtain ⟨hax, hay, j, hj, hκ⟩ := ulp_prod_of_prod_ge hx hy hlo
  have h := dwtimesdw_err_5u2_j66 unit_pos hwx.1.repI hwy.1.repI hvx.two_mul_abs_lo_le hvy.two_mul_abs_lo_le
    hax hay hκ hj hQ rfl rfl rfl rfl
  have eP : x.V * y.V = (x.hi.toInt + x.lo.toInt) * (y.hi.toInt + y.lo.toInt) := by unfold TwoFloat.V; ring
  rw [eP, mul_comm _ ((2 : Int) ^ 159)]
  exact h

end TwoFloat

/-! ## relative-error calculus over `ℚ` -/

namespace PowiBound

/-- `5u² + 12u³`, the proved relative error bound of one `TwoFloat * TwoFloat` -/
def cK : ℚ := (5 * 2 ^ 53 + 12) / 2 ^ 159

/-- `r` approximates `e` with relative error at most `(1 + cK)^a − 1` (`a` inexact multiplications) -/
def Rel (a : ℕ) (r e : ℚ) : Prop := |r - e| ≤ ((1 + cK) ^ a - 1) * |e|

theorem cK_pos : 0 < cK := by unfold cK; positivity

theorem cK_le : cK ≤ 1 / 2 ^ 103 := by
  unfold cK
  rw [div_le_div_iff₀ (by positivity) (by positivity)]
  norm_num

theorem pow_sub_one_nonneg (a : ℕ) : 0 ≤ (1 + cK) ^ a - 1 := by
  have : (1 : ℚ) ≤ (1 + cK) ^ a := one_le_pow₀ (by linarith [cK_pos])
  linarith

theorem rel_zero (e : ℚ) : Rel 0 e e := by simp [Rel]

theorem rel_mono {a b : ℕ} {r e : ℚ} (hab : a ≤ b) (h : Rel a r e) : Rel b r e := by
  unfold Rel at *
  have h1 : (1 + cK) ^ a ≤ (1 + cK) ^ b := pow_le_pow_right₀ (by linarith [cK_pos]) hab
  exact le_trans h (mul_le_mul_of_nonneg_right (by linarith) (abs_nonneg e))

theorem rel_mul {a b : ℕ} {r e s f : ℚ} (h1 : Rel a r e) (h2 : Rel b s f) : Rel (a + b) (r * s) (e * f) := by
  unfold Rel at *
  have hA := pow_sub_one_nonneg a
  have hB := pow_sub_one_nonneg b
  generalize hAe : (1 + cK) ^ a - 1 = A at *
  generalize hBe : (1 + cK) ^ b - 1 = B at *
  have e0 : (1 + cK) ^ (a + b) - 1 = A + B + A * B := by
    rw [pow_add, ← hAe, ← hBe]; ring
  have e1 : r * s - e * f = e * (s - f) + (r - e) * f + (r - e) * (s - f) := by ring
  rw [e0, e1, abs_mul e f]
  have t1 := abs_add_le (e * (s - f) + (r - e) * f) ((r - e) * (s - f))
  have t2 := abs_add_le (e * (s - f)) ((r - e) * f)
  rw [abs_mul] at t1 t2
  rw [abs_mul (r - e) f] at t2
  have pe := abs_nonneg e
  have pf := abs_nonneg f
  have m1 : |e| * |s - f| ≤ |e| * (B * |f|) := mul_le_mul_of_nonneg_left h2 pe
  have m2 : |r - e| * |f| ≤ A * |e| * |f| := mul_le_mul_of_nonneg_right h1 pf
  have m3 : |r - e| * |s - f| ≤ A * |e| * (B * |f|) :=
    mul_le_mul h1 h2 (abs_nonneg _) (mul_nonneg hA pe)
  nlinarith

theorem rel_step {a : ℕ} {r e t : ℚ} (h1 : Rel a r e) (h2 : |t - r| ≤ cK * |r|) : Rel (a + 1) t e := by
  unfold Rel at *
  have hA := pow_sub_one_nonneg a
  generalize hAe : (1 + cK) ^ a - 1 = A at *
  have e0 : (1 + cK) ^ (a + 1) - 1 = A + cK * (1 + A) := by
    rw [pow_succ, ← hAe]; ring
  rw [e0]
  have t1 : |t - e| ≤ |t - r| + |r - e| := by
    have := abs_add_le (t - r) (r - e)
    rwa [show t - r + (r - e) = t - e by ring] at this
  have t2 : |r| ≤ |e| + |r - e| := by
    have := abs_add_le e (r - e)
    rwa [show e + (r - e) = r by ring] at this
  have m1 : cK * |r| ≤ cK * (|e| + A * |e|) := mul_le_mul_of_nonneg_left (by linarith) (le_of_lt cK_pos)
  nlinarith

/-- magnitude of an approximation -/
theorem rel_abs {a : ℕ} {r e η : ℚ} (h : Rel a r e) (hη : (1 + cK) ^ a - 1 ≤ η) :
    (1 - η) * |e| ≤ |r| ∧ |r| ≤ (1 + η) * |e| := by
  unfold Rel at h
  have pe := abs_nonneg e
  have h' : |r - e| ≤ η * |e| := le_trans h (mul_le_mul_of_nonneg_right hη pe)
  have t1 : |e| ≤ |r| + |r - e| := by
    have := abs_add_le r (e - r)
    rw [show r + (e - r) = e by ring, abs_sub_comm e r] at this
    exact this
  have t2 : |r| ≤ |e| + |r - e| := by
    have := abs_add_le e (r - e)
    rwa [show e + (r - e) = r by ring] at this
  constructor <;> linarith

/-- `(1 + cK)^k − 1 ≤ k·cK·(1 + 2^-69)` for `k ≤ 2^31` -/
theorem pow_cK_le (k : ℕ) (hk : k ≤ 2 ^ 31) :
    (1 + cK) ^ k - 1 ≤ (k : ℚ) * cK * (1 + 1 / 2 ^ 69) ∧ (1 + cK) ^ k - 1 ≤ 1 / 2 ^ 71 := by
  have c0 := cK_pos
  have c1 := cK_le
  have hkq : (k : ℚ) ≤ 2 ^ 31 := by exact_mod_cast hk
  have hk0 : (0 : ℚ) ≤ k := Nat.cast_nonneg k
  have hkc : (k : ℚ) * cK ≤ 1 / 2 ^ 72 := by
    calc (k : ℚ) * cK ≤ 2 ^ 31 * (1 / 2 ^ 103) := mul_le_mul hkq c1 (le_of_lt c0) (by positivity)
      _ = 1 / 2 ^ 72 := by norm_num
  have hb : 1 + (k : ℚ) * (-cK) ≤ (1 + -cK) ^ k := one_add_mul_le_pow (by linarith) k
  have hprod : (1 + cK) ^ k * (1 + -cK) ^ k ≤ 1 := by
    rw [← mul_pow]
    apply pow_le_one₀
    · nlinarith
    · nlinarith
  have hP : (1 : ℚ) ≤ (1 + cK) ^ k := one_le_pow₀ (by linarith)
  generalize (1 + cK) ^ k = P at *
  have h1 : P * (1 - k * cK) ≤ 1 := by
    have := mul_le_mul_of_nonneg_left hb (by linarith : (0 : ℚ) ≤ P)
    linarith
  have h2 : P * (1 - 1 / 2 ^ 72) ≤ 1 := by nlinarith
  have h3 : P ≤ 1 + 1 / 2 ^ 71 := by
    norm_num at h2 ⊢
    linarith
  have h4 : P - 1 ≤ P * (k * cK) := by linarith
  have h5 : P * (k * cK) ≤ (1 + 1 / 2 ^ 71) * (k * cK) :=
    mul_le_mul_of_nonneg_right h3 (mul_nonneg hk0 (le_of_lt c0))
  constructor
  · have : (1 + 1 / 2 ^ 71) * (k * cK) ≤ (k : ℚ) * cK * (1 + 1 / 2 ^ 69) := by
      have := mul_nonneg hk0 (le_of_lt c0)
      nlinarith
    linarith
  · linarith

end PowiBound

/-! ## the model: one multiplication, in rational terms -/

namespace PowiBound

open F64 TwoFloat

/-- exact rational value `hi + lo` of a pair -/
def val (t : TwoFloat) : ℚ := (t.V : ℚ) / 2 ^ 1074

/-- the high word of a valid pair carries its value up to a factor `1 ± 2^-53` -/
theorem hi_bounds {t : TwoFloat} (hv : t.Valid) :
    (2 ^ 53 - 1) * |t.hi.toInt| ≤ 2 ^ 53 * |t.V| ∧ 2 ^ 53 * |t.V| ≤ (2 ^ 53 + 1) * |t.hi.toInt| := by
  have m := abs_lo_le_of_half_ulp hv.two_mul_abs_lo_le
  have t1 : |t.V| ≤ |t.hi.toInt| + |t.lo.toInt| := abs_add_le _ _
  have t2 : |t.hi.toInt| ≤ |t.V| + |t.lo.toInt| := by
    have := abs_add_le t.V (-t.lo.toInt)
    rw [abs_neg] at this
    have e : t.V + -t.lo.toInt = t.hi.toInt := by unfold TwoFloat.V; ring
    rwa [e] at this
  constructor <;> linarith

theorem abs_val (t : TwoFloat) : |val t| = ((|t.V| : Int) : ℚ) / 2 ^ 1074 := by
  unfold val
  rw [abs_div, abs_of_pos (by positivity : (0 : ℚ) < 2 ^ 1074), Int.cast_abs]

/-- from a rational lower bound to a scaled-integer one -/
theorem int_lower {t : TwoFloat} {k : ℕ} (hk : k ≤ 1074) (h : 1 / 2 ^ k ≤ |val t|) :
    (2 : Int) ^ (1074 - k) ≤ |t.V| := by
  rw [abs_val, div_le_div_iff₀ (by positivity) (by positivity), one_mul] at h
  have e : (2 : ℚ) ^ 1074 = 2 ^ (1074 - k) * 2 ^ k := by rw [← pow_add]; congr 1; omega
  rw [e] at h
  have h2 : (2 : ℚ) ^ (1074 - k) ≤ ((|t.V| : Int) : ℚ) := le_of_mul_le_mul_right h (by positivity)
  exact_mod_cast h2

end PowiBound

namespace PowiBound

open F64 TwoFloat

theorem abs_val_mul (x y : TwoFloat) : |val x * val y| = ((|x.V * y.V| : Int) : ℚ) / 2 ^ 2148 := by
  unfold val
  rw [div_mul_div_comm, abs_div, abs_of_pos (by positivity : (0 : ℚ) < 2 ^ 1074 * 2 ^ 1074), ← pow_add,
    Int.cast_abs, Int.cast_mul]

/-- the range conditions of `mul_tt_bound_5u2_12u3_wide` from rational ones -/
theorem range_of_val {x y : TwoFloat} (hvx : x.Valid) (hvy : y.Valid)
    (hx : 1 / 2 ^ 1000 ≤ |val x|) (hy : 1 / 2 ^ 1000 ≤ |val y|)
    (hlo : 3 / 2 ^ 902 ≤ |val x * val y|) (hhi : |val x * val y| ≤ 2 ^ 1000) :
    2 ^ 53 ≤ |x.hi.toInt| ∧ 2 ^ 53 ≤ |y.hi.toInt| ∧ 2 ^ 1247 ≤ |x.hi.toInt * y.hi.toInt| ∧
      |x.hi.toInt * y.hi.toInt| < 2 ^ 3169 := by
  have ax : (2 : Int) ^ 74 ≤ |x.V| := int_lower (k := 1000) (by norm_num) hx
  have ay : (2 : Int) ^ 74 ≤ |y.V| := int_lower (k := 1000) (by norm_num) hy
  obtain ⟨bx1, bx2⟩ := hi_bounds hvx
  obtain ⟨by1, by2⟩ := hi_bounds hvy
  have nlo : (3 : Int) * 2 ^ 1246 ≤ |x.V * y.V| := by
    rw [abs_val_mul, div_le_div_iff₀ (by positivity) (by positivity)] at hlo
    have e : (2 : ℚ) ^ 2148 = 2 ^ 1246 * 2 ^ 902 := by rw [← pow_add]
    rw [e, ← mul_assoc] at hlo
    have h2 : (3 : ℚ) * 2 ^ 1246 ≤ ((|x.V * y.V| : Int) : ℚ) := le_of_mul_le_mul_right hlo (by positivity)
    exact_mod_cast h2
  have nhi : |x.V * y.V| ≤ (2 : Int) ^ 3148 := by
    rw [abs_val_mul, div_le_iff₀ (by positivity), ← pow_add] at hhi
    exact_mod_cast hhi
  have pX := abs_nonneg x.hi.toInt
  have pY := abs_nonneg y.hi.toInt
  have pVx := abs_nonneg x.V
  have pVy := abs_nonneg y.V
  rw [abs_mul] at nlo nhi ⊢
  -- products of the one-sided bounds
  have u1 : (2 ^ 53 * |x.V|) * (2 ^ 53 * |y.V|) ≤ ((2 ^ 53 + 1) * |x.hi.toInt|) * ((2 ^ 53 + 1) * |y.hi.toInt|) :=
    mul_le_mul bx2 by2 (by positivity) (by positivity)
  have u2 : ((2 ^ 53 - 1) * |x.hi.toInt|) * ((2 ^ 53 - 1) * |y.hi.toInt|) ≤ (2 ^ 53 * |x.V|) * (2 ^ 53 * |y.V|) :=
    mul_le_mul bx1 by1 (by positivity) (by positivity)
  have e1 : (2 ^ 53 * |x.V|) * (2 ^ 53 * |y.V|) = 2 ^ 106 * (|x.V| * |y.V|) := by ring
  have e2 : ((2 ^ 53 + 1) * |x.hi.toInt|) * ((2 ^ 53 + 1) * |y.hi.toInt|)
      = (2 ^ 53 + 1) ^ 2 * (|x.hi.toInt| * |y.hi.toInt|) := by ring
  have e3 : ((2 ^ 53 - 1) * |x.hi.toInt|) * ((2 ^ 53 - 1) * |y.hi.toInt|)
      = (2 ^ 53 - 1) ^ 2 * (|x.hi.toInt| * |y.hi.toInt|) := by ring
  rw [e1, e2] at u1
  rw [e1, e3] at u2
  generalize |x.hi.toInt| * |y.hi.toInt| = AB at *
  generalize |x.V| * |y.V| = PR at *
  have k1 : (2 : Int) ^ 1247 = 2 * 2 ^ 1246 := by rw [pow_succ]; ring
  have k2 : (2 : Int) ^ 3169 = 2 ^ 21 * 2 ^ 3148 := by rw [← pow_add]
  rw [k1, k2]
  generalize (2 : Int) ^ 1246 = T at *
  generalize (2 : Int) ^ 3148 = S at *
  refine ⟨by linarith, by linarith, ?_, ?_⟩
  · norm_num at u1 ⊢
    linarith
  · norm_num at u2 ⊢
    linarith

/-- **one multiplication, rational form**: relative error at most `cK = 5u² + 12u³` -/
theorem val_mul_bound {x y : TwoFloat} (hvx : x.Valid) (hwx : x.WF) (hvy : y.Valid) (hwy : y.WF)
    (hx : 1 / 2 ^ 1000 ≤ |val x|) (hy : 1 / 2 ^ 1000 ≤ |val y|)
    (hlo : 3 / 2 ^ 902 ≤ |val x * val y|) (hhi : |val x * val y| ≤ 2 ^ 1000) :
    (arithmetic.impl_Mul_rTwoFloat_for_rTwoFloat.mul x y).Valid ∧
    (arithmetic.impl_Mul_rTwoFloat_for_rTwoFloat.mul x y).WF ∧
    |val (arithmetic.impl_Mul_rTwoFloat_for_rTwoFloat.mul x y) - val x * val y| ≤ cK * |val x * val y| := by
  obtain ⟨r1, r2, r3, r4⟩ := range_of_val hvx hvy hx hy hlo hhi
  obtain ⟨hV, hb⟩ := mul_tt_bound_5u2_12u3_wide hvx hwx hvy hwy r1 r2 r3 r4
  refine ⟨hV, mul_tt_WF x y, ?_⟩
  generalize arithmetic.impl_Mul_rTwoFloat_for_rTwoFloat.mul x y = p at *
  rw [unit_cast_eq] at hb
  have hq : |(p.V : ℚ) * 2 ^ 1074 - x.V * y.V| * 2 ^ 159 ≤ (5 * 2 ^ 53 + 12) * |(x.V : ℚ) * y.V| := by
    exact_mod_cast hb
  unfold val cK
  have hU : (0 : ℚ) < 2 ^ 1074 := by positivity
  generalize (2 : ℚ) ^ 1074 = U at *
  have e1 : (p.V : ℚ) / U - x.V / U * (y.V / U) = ((p.V : ℚ) * U - x.V * y.V) / (U * U) := by
    field_simp
  have e2 : (x.V : ℚ) / U * (y.V / U) = ((x.V : ℚ) * y.V) / (U * U) := by field_simp
  rw [e1, e2, abs_div, abs_div, abs_of_pos (mul_pos hU hU), ← mul_div_assoc,
    div_le_div_iff_of_pos_right (mul_pos hU hU), div_mul_eq_mul_div, le_div_iff₀ (by positivity)]
  exact hq

end PowiBound

/-! ## the square-and-multiply loop -/

namespace PowiBound

open F64 TwoFloat

theorem u32_odd (qn : Nat) (h : qn < 2 ^ 32) :
    (((⟨(qn : Int)⟩ : U32) &&& (1 : U32)) !=. (0 : U32)) = decide (qn % 2 = 1) := by
  have b1 : (⟨(qn : Int)⟩ : U32).bitsNat = qn := by
    unfold IntN.bitsNat
    simp only
    rw [← Int.natCast_mod, Int.toNat_natCast, Nat.mod_eq_of_lt h]
  have b2 : (1 : U32).bitsNat = 1 := by decide
  have w : (IntN.wrap (((qn % 2 : Nat)) : Int) : U32) = ⟨((qn % 2 : Nat) : Int)⟩ := by
    unfold IntN.wrap IntN.wrapV
    simp only [Bool.false_and, Bool.false_eq_true, if_false]
    rw [← Int.natCast_mod, Nat.mod_eq_of_lt (by omega)]
  show (!decide ((IntN.wrap ((Nat.land (⟨(qn : Int)⟩ : U32).bitsNat (1 : U32).bitsNat : Nat) : Int) : U32).v
      = (0 : U32).v)) = _
  rw [b1, b2, show Nat.land qn 1 = qn % 2 from Nat.and_one_is_mod qn, w]
  show (!decide (((qn % 2 : Nat) : Int) = (0 : Int))) = _
  rcases Nat.mod_two_eq_zero_or_one qn with h2 | h2 <;> rw [h2] <;> simp

theorem mul_assign_eq (r w : TwoFloat) :
    arithmetic.impl_MulAssign_rTwoFloat_for_TwoFloat.mul_assign r w
      = arithmetic.impl_Mul_rTwoFloat_for_rTwoFloat.mul r w := rfl

theorem mul_assign_eq' (r w : TwoFloat) :
    arithmetic.impl_MulAssign_TwoFloat_for_TwoFloat.mul_assign r w
      = arithmetic.impl_Mul_rTwoFloat_for_rTwoFloat.mul r w := rfl

theorem loop_succ (fuel : Nat) (r w : TwoFloat) (qn : Nat) (h : qn < 2 ^ 32) (hq : 0 < qn) :
    TwoFloat.powi.loop1 (fuel + 1) r w ⟨(qn : Int)⟩ =
      TwoFloat.powi.loop1 fuel
        (if qn % 2 = 1 then arithmetic.impl_Mul_rTwoFloat_for_rTwoFloat.mul r w else r)
        (arithmetic.impl_Mul_rTwoFloat_for_rTwoFloat.mul w w) ⟨((qn / 2 : Nat) : Int)⟩ := by
  rw [TwoFloat.powi.loop1, Ident.u32_gt_zero]
  have h0 : (0 : Int) < ((⟨(qn : Int)⟩ : U32)).v := by
    show (0 : Int) < (qn : Int)
    exact_mod_cast hq
  simp only [h0, decide_true, if_true]
  rw [u32_odd qn h, Ident.u32_shr_one, mul_assign_eq, mul_assign_eq']
  simp only [decide_eq_true_eq]
  congr 2

theorem loop_zero (fuel : Nat) (r w : TwoFloat) :
    TwoFloat.powi.loop1 fuel r w ⟨((0 : Nat) : Int)⟩ = (r, w, ⟨((0 : Nat) : Int)⟩) := by
  cases fuel with
  | zero => rfl
  | succ k =>
    rw [TwoFloat.powi.loop1, Ident.u32_gt_zero]
    simp

end PowiBound
