/-
Lemmas.PowiBound — error analysis of `TwoFloat::powi` (property C13, numerical part; statements in
`TFV/Properties/C13b.lean`).

 1. `F64.dwtimesdw_err_5u2_j66`: the binade analysis of DWTimesDW3 (`F64.dwtimesdw_err_5u2` of `Lemmas/Bounds.lean`,
    same proof) only needs `ulp(xh)·ulp(yh) ≥ 4·2^-1074·2^66`; hence
    `TwoFloat.mul_tt_bound_5u2_12u3_wide`: relative error `≤ 5u² + 12u³` for `TwoFloat * TwoFloat` whenever both high
    words are normal and their product has magnitude in `[2^-901, 2^1021)` (the factors themselves may be as large as
    `2^900` or as small as `2^-900` — needed for `result *= value` in `powi`).
 2. `PowiBound.Rel a r e :⟺ |r − e| ≤ ((1 + cK)^a − 1)·|e|`, `cK = 5u² + 12u³`: closed under products (`rel_mul`) and
    under one more rounding (`rel_step`); `pow_cK_le`: `(1 + cK)^k − 1 ≤ k·cK·(1 + 2^-69) ≤ 2^-71` for `k ≤ 2^31`.
 3. `PowiBound.val t = t.V / 2^1074 : ℚ`; `val_mul_bound` (one multiplication in rational terms), `mul_rel`, `sq_rel`.
 4. the loop: `loop_succ` / `loop_zero` (one iteration on a `u32` counter), `loop_general`
    (`result ≈ v^m` with `Rel (m−1)`, `value ≈ v^j` with `Rel (j−1)` ⟹ final `result ≈ v^(m + j·q)` with
    `Rel (m + j·q − 1)`), `loop_one` (from `result = 1` exactly: the first multiplication is exact), `loop_rel`.
    The squaring of `value` in the last iteration is never used and is not constrained (it may overflow).
 5. `rel_linear` (`Rel (N−1)` ⟹ `(6N+16)·2^-106`), `recip_rel` / `recip_val` / `recip_of_rel` (negative exponents via
    `C01d.recip_bound`, `16u²`), `close_sign`.
-/
import TFV.Lemmas.Bounds
import TFV.Properties.C04x
import TFV.Properties.C01d
import TFV.Properties.C13
import Mathlib.Algebra.Order.Field.Basic
import Mathlib.Algebra.Order.Ring.Pow
import Mathlib.Algebra.Order.Field.Rat
import Mathlib.Tactic.Ring
import Mathlib.Tactic.Linarith
import Mathlib.Tactic.NormNum
import Mathlib.Tactic.Positivity
import Mathlib.Tactic.FieldSimp

set_option exponentiation.threshold 4000

namespace F64

/-- **DWTimesDW3 in the crate's form, binade analysis.**  High words normal (`ulp` exponents `ax, ay ≠ 0`), low
words at most half an ulp, `ulp(xh)·ulp(yh) = 4·U·2^j` with `j ≥ 66` (no underflow anywhere near the `u³` level):
the four rounding errors together are at most `(5u² + 12u³)` times the exact product. -/
theorem dwtimesdw_err_5u2_j66 {xh xl yh yl Q : Int} {U j : Nat} (hU : 0 < U) (hxh : RepI xh) (hyh : RepI yh)
    (hx : 2 * |xl| ≤ 2 ^ (Nat.log2 xh.natAbs - 52)) (hy : 2 * |yl| ≤ 2 ^ (Nat.log2 yh.natAbs - 52))
    (hax : Nat.log2 xh.natAbs - 52 ≠ 0) (hay : Nat.log2 yh.natAbs - 52 ≠ 0)
    (hκ : (2 : Int) ^ (Nat.log2 xh.natAbs - 52) * 2 ^ (Nat.log2 yh.natAbs - 52) = 4 * ((U : Int) * 2 ^ j))
    (hj : 66 ≤ j) (hQ : xh * yh = Q * (U : Int))
    {tl0 tl1 cl2 cl3 : Int} (ht0 : tl0 = rqI (xl * yl) U) (ht1 : tl1 = rqI (xh * yl + tl0 * (U : Int)) U)
    (hc2 : cl2 = rqI (xl * yh + tl1 * (U : Int)) U) (hc3 : cl3 = rnI (Q - rnI Q + cl2)) :
    2 ^ 159 * |(rnI Q + cl3) * (U : Int) - (xh + xl) * (yh + yl)|
      ≤ (5 * 2 ^ 53 + 12) * |(xh + xl) * (yh + yl)| := by
  have hUi : (0 : Int) < (U : Int) := Int.natCast_pos.2 hU
  have f1 := ulp_mul_le_abs hax
  have f2 := hxh.add_ulp_le
  have f3 := ulp_mul_le_abs hay
  have f4 := hyh.add_ulp_le
  have pux := two_pow_pos' (Nat.log2 xh.natAbs - 52)
  have puy := two_pow_pos' (Nat.log2 yh.natAbs - 52)
  generalize (2 : Int) ^ (Nat.log2 xh.natAbs - 52) = ux at *
  generalize (2 : Int) ^ (Nat.log2 yh.natAbs - 52) = uy at *
  have hUκ : 2 ^ 66 * (U : Int) ≤ (U : Int) * 2 ^ j := by
    rw [mul_comm]
    exact mul_le_mul_of_nonneg_left (pow_le_pow_right₀ (by norm_num) hj) (le_of_lt hUi)
  have e1 : (U : Int) * 2 ^ (j + 1) = 2 * ((U : Int) * 2 ^ j) := by rw [pow_succ]; ring
  have e2 : (U : Int) * 2 ^ (j + 2) = 4 * ((U : Int) * 2 ^ j) := by rw [pow_add]; ring
  have e3 : (U : Int) * 2 ^ (j + 3) = 8 * ((U : Int) * 2 ^ j) := by rw [pow_add]; ring
  have e54 : (U : Int) * 2 ^ (j + 54) = 2 ^ 54 * ((U : Int) * 2 ^ j) := by rw [pow_add]; ring
  have e55 : (U : Int) * 2 ^ (j + 55) = 2 ^ 55 * ((U : Int) * 2 ^ j) := by rw [pow_add]; ring
  have pκ : (0 : Int) < (U : Int) * 2 ^ j := mul_pos hUi (two_pow_pos' j)
  -- products of magnitudes
  have pAx := abs_nonneg xh
  have pAy := abs_nonneg yh
  have pLx := abs_nonneg xl
  have pLy := abs_nonneg yl
  have g1 : 2 ^ 54 * ((U : Int) * 2 ^ j) ≤ |xh| * uy := by
    have := mul_le_mul_of_nonneg_right f1 (le_of_lt puy)
    have e : (2 : Int) ^ 52 * ux * uy = 2 ^ 52 * (ux * uy) := by ring
    rw [e, hκ] at this
    linarith
  have g2 : |xh| * uy + 4 * ((U : Int) * 2 ^ j) ≤ 2 ^ 55 * ((U : Int) * 2 ^ j) := by
    have := mul_le_mul_of_nonneg_right f2 (le_of_lt puy)
    have e : (2 : Int) ^ 53 * ux * uy = 2 ^ 53 * (ux * uy) := by ring
    have e' : (|xh| + ux) * uy = |xh| * uy + ux * uy := by ring
    rw [e, e', hκ] at this
    linarith
  have g3 : 2 ^ 54 * ((U : Int) * 2 ^ j) ≤ ux * |yh| := by
    have := mul_le_mul_of_nonneg_left f3 (le_of_lt pux)
    have e : ux * ((2 : Int) ^ 52 * uy) = 2 ^ 52 * (ux * uy) := by ring
    rw [e, hκ] at this
    linarith
  have g4 : ux * |yh| + 4 * ((U : Int) * 2 ^ j) ≤ 2 ^ 55 * ((U : Int) * 2 ^ j) := by
    have := mul_le_mul_of_nonneg_left f4 (le_of_lt pux)
    have e : ux * ((2 : Int) ^ 53 * uy) = 2 ^ 53 * (ux * uy) := by ring
    have e' : ux * (|yh| + uy) = ux * |yh| + ux * uy := by ring
    rw [e, e', hκ] at this
    linarith
  have g5 : 2 * (|xh| * |yl|) ≤ |xh| * uy := by
    have := mul_le_mul_of_nonneg_left hy pAx
    linarith
  have g6 : 2 * (|xl| * |yh|) ≤ ux * |yh| := by
    have := mul_le_mul_of_nonneg_right hx pAy
    linarith
  have g7 : |xl| * |yl| ≤ (U : Int) * 2 ^ j := by
    have := mul_le_mul hx hy (by positivity) (le_of_lt pux)
    rw [hκ] at this
    linarith
  have g8 : 2 ^ 52 * (ux * |yh|) + 2 ^ 52 * (|xh| * uy) ≤ |xh| * |yh| + 2 ^ 106 * ((U : Int) * 2 ^ j) := by
    have := mul_nonneg (sub_nonneg.2 f1) (sub_nonneg.2 f3)
    have e : (|xh| - 2 ^ 52 * ux) * (|yh| - 2 ^ 52 * uy)
        = |xh| * |yh| - 2 ^ 52 * (ux * |yh|) - 2 ^ 52 * (|xh| * uy) + 2 ^ 104 * (ux * uy) := by ring
    rw [e, hκ] at this
    linarith
  have g9 : |xh| * |yh| < 2 ^ 108 * ((U : Int) * 2 ^ j) := by
    have h1 : |xh| < 2 ^ 53 * ux := by linarith
    have h2 : |yh| < 2 ^ 53 * uy := by linarith
    have := mul_lt_mul'' h1 h2 pAx pAy
    have e : (2 : Int) ^ 53 * ux * (2 ^ 53 * uy) = 2 ^ 106 * (ux * uy) := by ring
    rw [e, hκ] at this
    linarith
  -- abs of the products
  have a0 : |xh * yh| = |xh| * |yh| := abs_mul _ _
  have a1 : |xh * yl| = |xh| * |yl| := abs_mul _ _
  have a2 : |xl * yh| = |xl| * |yh| := abs_mul _ _
  have a3 : |xl * yl| = |xl| * |yl| := abs_mul _ _
  -- rounding errors
  have r1 := rqI_err_le (xl * yl) hU
  rw [← ht0] at r1
  have m0 : |tl0 * (U : Int)| ≤ |xl * yl| + |xl * yl + -tl0 * (U : Int)| := by
    have := abs_add_le (xl * yl) (-(xl * yl + -tl0 * (U : Int)))
    rw [abs_neg] at this
    have e : xl * yl + -(xl * yl + -tl0 * (U : Int)) = tl0 * (U : Int) := by ring
    rwa [e] at this
  have n2 := abs_add_le (xh * yl) (tl0 * (U : Int))
  have r2 := rqI_err_of_lt (p := xh * yl + tl0 * (U : Int)) (m := j + 1) hU (by rw [e1]; linarith)
  rw [← ht1, e1] at r2
  have m1 : |tl1 * (U : Int)| ≤ |xh * yl + tl0 * (U : Int)| + |xh * yl + tl0 * (U : Int) + -tl1 * (U : Int)| := by
    have := abs_add_le (xh * yl + tl0 * (U : Int)) (-(xh * yl + tl0 * (U : Int) + -tl1 * (U : Int)))
    rw [abs_neg] at this
    have e : xh * yl + tl0 * (U : Int) + -(xh * yl + tl0 * (U : Int) + -tl1 * (U : Int)) = tl1 * (U : Int) := by ring
    rwa [e] at this
  have n3 := abs_add_le (xl * yh) (tl1 * (U : Int))
  have r3 := rqI_err_of_lt (p := xl * yh + tl1 * (U : Int)) (m := j + 2) hU (by rw [e2]; linarith)
  rw [← hc2, e2] at r3
  have m2 : |cl2 * (U : Int)| ≤ |xl * yh + tl1 * (U : Int)| + |xl * yh + tl1 * (U : Int) + -cl2 * (U : Int)| := by
    have := abs_add_le (xl * yh + tl1 * (U : Int)) (-(xl * yh + tl1 * (U : Int) + -cl2 * (U : Int)))
    rw [abs_neg] at this
    have e : xl * yh + tl1 * (U : Int) + -(xl * yh + tl1 * (U : Int) + -cl2 * (U : Int)) = cl2 * (U : Int) := by ring
    rwa [e] at this
  have c1a : |xh * yh| < 2 ^ 107 * ((U : Int) * 2 ^ j) →
      2 * (|Q - rnI Q| * (U : Int)) ≤ 2 ^ 54 * ((U : Int) * 2 ^ j) := by
    intro h
    have := resid_le_of_lt (Q := Q) (m := j + 54) hU (by rw [← hQ, e54]; linarith)
    rwa [e54] at this
  have c1b : 2 * (|Q - rnI Q| * (U : Int)) ≤ 2 ^ 55 * ((U : Int) * 2 ^ j) := by
    have := resid_le_of_lt (Q := Q) (m := j + 55) hU (by rw [← hQ, e55, a0]; linarith)
    rwa [e55] at this
  have n4 : |Q - rnI Q + cl2| * (U : Int) ≤ |Q - rnI Q| * (U : Int) + |cl2 * (U : Int)| := by
    have := mul_le_mul_of_nonneg_right (abs_add_le (Q - rnI Q) cl2) (le_of_lt hUi)
    rw [abs_mul cl2, abs_of_pos hUi]
    linarith
  have r4a : |Q - rnI Q + cl2| * (U : Int) < 2 ^ 55 * ((U : Int) * 2 ^ j) →
      2 * (|cl3 - (Q - rnI Q + cl2)| * (U : Int)) ≤ 4 * ((U : Int) * 2 ^ j) := by
    intro h
    have := rnI_err_mul_of_lt (n := Q - rnI Q + cl2) (m := j + 2) hU (by rw [e2]; linarith)
    rwa [e2, ← hc3] at this
  have r4b : |Q - rnI Q + cl2| * (U : Int) < 2 ^ 56 * ((U : Int) * 2 ^ j) →
      2 * (|cl3 - (Q - rnI Q + cl2)| * (U : Int)) ≤ 8 * ((U : Int) * 2 ^ j) := by
    intro h
    have := rnI_err_mul_of_lt (n := Q - rnI Q + cl2) (m := j + 3) hU (by rw [e3]; linarith)
    rwa [e3, ← hc3] at this
  -- the error is the sum of the four rounding errors
  have herr : (rnI Q + cl3) * (U : Int) - (xh + xl) * (yh + yl)
      = -((xl * yl + -tl0 * (U : Int)) + (xh * yl + tl0 * (U : Int) + -tl1 * (U : Int))
          + (xl * yh + tl1 * (U : Int) + -cl2 * (U : Int))) + (cl3 - (Q - rnI Q + cl2)) * (U : Int) := by
    have : (xh + xl) * (yh + yl) = Q * (U : Int) + xh * yl + xl * yh + xl * yl := by rw [← hQ]; ring
    rw [this]; ring
  have t1 := abs_add_le (-((xl * yl + -tl0 * (U : Int)) + (xh * yl + tl0 * (U : Int) + -tl1 * (U : Int))
          + (xl * yh + tl1 * (U : Int) + -cl2 * (U : Int)))) ((cl3 - (Q - rnI Q + cl2)) * (U : Int))
  rw [abs_neg, abs_mul (cl3 - (Q - rnI Q + cl2)), abs_of_pos hUi] at t1
  have t2 := abs_add_le ((xl * yl + -tl0 * (U : Int)) + (xh * yl + tl0 * (U : Int) + -tl1 * (U : Int)))
    (xl * yh + tl1 * (U : Int) + -cl2 * (U : Int))
  have t3 := abs_add_le (xl * yl + -tl0 * (U : Int)) (xh * yl + tl0 * (U : Int) + -tl1 * (U : Int))
  have hP : |xh * yh| ≤ |(xh + xl) * (yh + yl)| + |xh * yl| + |xl * yh| + |xl * yl| := by
    have p1 := abs_add_le ((xh + xl) * (yh + yl)) (-(xh * yl + xl * yh + xl * yl))
    have p2 := abs_add_le (xh * yl + xl * yh) (xl * yl)
    have p3 := abs_add_le (xh * yl) (xl * yh)
    rw [abs_neg] at p1
    have e : (xh + xl) * (yh + yl) + -(xh * yl + xl * yh + xl * yl) = xh * yh := by ring
    rw [e] at p1
    linarith
  rw [herr]
  rw [a0] at hP c1a
  rw [a1] at hP n2
  rw [a2] at hP n3
  rw [a3] at hP m0 r1
  generalize |xl * yl + -tl0 * (U : Int)| = D1 at *
  generalize |xh * yl + tl0 * (U : Int) + -tl1 * (U : Int)| = D2 at *
  generalize |xl * yh + tl1 * (U : Int) + -cl2 * (U : Int)| = D3 at *
  generalize |cl3 - (Q - rnI Q + cl2)| * (U : Int) = D4 at *
  generalize |Q - rnI Q| * (U : Int) = C1 at *
  generalize |Q - rnI Q + cl2| * (U : Int) = N4 at *
  generalize |xh * yl + tl0 * (U : Int)| = N2 at *
  generalize |xl * yh + tl1 * (U : Int)| = N3 at *
  generalize |tl0 * (U : Int)| = T0 at *
  generalize |tl1 * (U : Int)| = T1 at *
  generalize |cl2 * (U : Int)| = C2 at *
  generalize |xh| * |yh| = A at *
  generalize |xh| * |yl| = B1 at *
  generalize |xl| * |yh| = B2 at *
  generalize |xl| * |yl| = Z at *
  generalize |xh| * uy = p at *
  generalize ux * |yh| = q at *
  generalize (U : Int) * 2 ^ j = κ at *
  generalize |(xh + xl) * (yh + yl)| = P at *
  rcases lt_or_ge A (2 ^ 107 * κ) with hA | hA
  · have hC1 := c1a hA
    rcases lt_or_ge N4 (2 ^ 55 * κ) with hN | hN
    · have hD4 := r4a hN
      linarith
    · have hD4 := r4b (by linarith)
      linarith
  · have hD4 := r4b (by linarith)
    linarith

end F64

namespace TwoFloat

open F64

/-- ulp exponents of two normal doubles whose product is at least `2^-901` (scaled `2^1247`) -/
theorem ulp_prod_of_prod_ge {a b : Int} (ha : 2 ^ 53 ≤ |a|) (hb : 2 ^ 53 ≤ |b|) (hab : 2 ^ 1247 ≤ |a * b|) :
    Nat.log2 a.natAbs - 52 ≠ 0 ∧ Nat.log2 b.natAbs - 52 ≠ 0 ∧
    ∃ j : Nat, 66 ≤ j ∧ (2 : Int) ^ (Nat.log2 a.natAbs - 52) * 2 ^ (Nat.log2 b.natAbs - 52)
      = 4 * ((unit : Int) * 2 ^ j) := by
  have h1 : 1 ≤ Nat.log2 a.natAbs - 52 :=
    le_ulpexp_of_le_abs (by rw [← pow_add]; exact ha)
  have h2 : 1 ≤ Nat.log2 b.natAbs - 52 :=
    le_ulpexp_of_le_abs (by rw [← pow_add]; exact hb)
  have la : a.natAbs < 2 ^ (Nat.log2 a.natAbs + 1) := Nat.lt_log2_self
  have lb : b.natAbs < 2 ^ (Nat.log2 b.natAbs + 1) := Nat.lt_log2_self
  have hprod : 2 ^ 1247 ≤ a.natAbs * b.natAbs := by
    rw [abs_mul, ← Int.natCast_natAbs a, ← Int.natCast_natAbs b] at hab
    exact_mod_cast hab
  have hlt : 2 ^ 1247 < 2 ^ (Nat.log2 a.natAbs + 1 + (Nat.log2 b.natAbs + 1)) := by
    rw [pow_add]
    exact lt_of_le_of_lt hprod (Nat.mul_lt_mul'' la lb)
  have hexp : 1247 < Nat.log2 a.natAbs + 1 + (Nat.log2 b.natAbs + 1) :=
    (Nat.pow_lt_pow_iff_right (by norm_num)).1 hlt
  obtain ⟨j, hj⟩ : ∃ j, Nat.log2 a.natAbs - 52 + (Nat.log2 b.natAbs - 52) = 2 + (1074 + j) :=
    ⟨Nat.log2 a.natAbs - 52 + (Nat.log2 b.natAbs - 52) - 1076, by omega⟩
  refine ⟨by omega, by omega, j, by omega, ?_⟩
  rw [← pow_add, unit_cast_eq, hj, pow_add, pow_add]
  norm_num

/-- **`TwoFloat * TwoFloat`, relative error `≤ 5u² + 12u³` on the WIDE range**: both high words normal, and their
product of magnitude in `[2^-901, 2^1021)` (scaled `[2^1247, 2^3169)`).  Same proof as
`mul_tt_bound_5u2_12u3_partial`; the binade analysis only needs `j ≥ 66`. -/
theorem mul_tt_bound_5u2_12u3_wide {x y : TwoFloat} (hvx : x.Valid) (hwx : x.WF) (hvy : y.Valid) (hwy : y.WF)
    (hx : 2 ^ 53 ≤ |x.hi.toInt|) (hy : 2 ^ 53 ≤ |y.hi.toInt|)
    (hlo : 2 ^ 1247 ≤ |x.hi.toInt * y.hi.toInt|) (hhi : |x.hi.toInt * y.hi.toInt| < 2 ^ 3169) :
    (arithmetic.impl_Mul_rTwoFloat_for_rTwoFloat.mul x y).Valid ∧
    |(arithmetic.impl_Mul_rTwoFloat_for_rTwoFloat.mul x y).V * (unit : Int) - x.V * y.V| * 2 ^ 159
      ≤ (5 * 2 ^ 53 + 12) * |x.V * y.V| := by
  have hr : x.hi.toInt * y.hi.toInt = 0 ∨
      ((2 : Int) ^ 1188 ≤ |x.hi.toInt * y.hi.toInt| ∧ |x.hi.toInt * y.hi.toInt| < (2 : Int) ^ 3169) :=
    Or.inr ⟨le_trans (pow_le_pow_right₀ (by norm_num) (by norm_num)) hlo, hhi⟩
  obtain ⟨Q, hQ, hV, hval⟩ := mul_tt_values hvx hwx hvy hwy hr
  refine ⟨hV, ?_⟩
  rw [hval]
  obtain ⟨hax, hay, j, hj, hκ⟩ := ulp_prod_of_prod_ge hx hy hlo
  have h := dwtimesdw_err_5u2_j66 unit_pos hwx.1.repI hwy.1.repI hvx.two_mul_abs_lo_le hvy.two_mul_abs_lo_le
    hax hay hκ hj hQ rfl rfl rfl rfl
  have eP : x.V * y.V = (x.hi.toInt + x.lo.toInt) * (y.hi.toInt + y.lo.toInt) := by unfold TwoFloat.V; ring
  rw [eP, mul_comm _ ((2 : Int) ^ 159)]
  exact h

end TwoFloat

/-! ## relative-error calculus over `ℚ` -/

namespace PowiBound

/-- `5u² + 12u³`, the proved relative error bound of one `TwoFloat * TwoFloat` -/
def cK : ℚ := (5 * 2 ^ 53 + 12) / 2 ^ 159

/-- `r` approximates `e` with relative error at most `(1 + cK)^a − 1` (`a` inexact multiplications) -/
def Rel (a : ℕ) (r e : ℚ) : Prop := |r - e| ≤ ((1 + cK) ^ a - 1) * |e|

theorem cK_pos : 0 < cK := by unfold cK; positivity

theorem cK_le : cK ≤ 1 / 2 ^ 103 := by
  unfold cK
  rw [div_le_div_iff₀ (by positivity) (by positivity)]
  norm_num

theorem pow_sub_one_nonneg (a : ℕ) : 0 ≤ (1 + cK) ^ a - 1 := by
  have : (1 : ℚ) ≤ (1 + cK) ^ a := one_le_pow₀ (by linarith [cK_pos])
  linarith

theorem rel_zero (e : ℚ) : Rel 0 e e := by simp [Rel]

theorem rel_mono {a b : ℕ} {r e : ℚ} (hab : a ≤ b) (h : Rel a r e) : Rel b r e := by
  unfold Rel at *
  have h1 : (1 + cK) ^ a ≤ (1 + cK) ^ b := pow_le_pow_right₀ (by linarith [cK_pos]) hab
  exact le_trans h (mul_le_mul_of_nonneg_right (by linarith) (abs_nonneg e))

theorem rel_mul {a b : ℕ} {r e s f : ℚ} (h1 : Rel a r e) (h2 : Rel b s f) : Rel (a + b) (r * s) (e * f) := by
  unfold Rel at *
  have hA := pow_sub_one_nonneg a
  have hB := pow_sub_one_nonneg b
  generalize hAe : (1 + cK) ^ a - 1 = A at *
  generalize hBe : (1 + cK) ^ b - 1 = B at *
  have e0 : (1 + cK) ^ (a + b) - 1 = A + B + A * B := by
    rw [pow_add, ← hAe, ← hBe]; ring
  have e1 : r * s - e * f = e * (s - f) + (r - e) * f + (r - e) * (s - f) := by ring
  rw [e0, e1, abs_mul e f]
  have t1 := abs_add_le (e * (s - f) + (r - e) * f) ((r - e) * (s - f))
  have t2 := abs_add_le (e * (s - f)) ((r - e) * f)
  rw [abs_mul] at t1 t2
  rw [abs_mul (r - e) f] at t2
  have pe := abs_nonneg e
  have pf := abs_nonneg f
  have m1 : |e| * |s - f| ≤ |e| * (B * |f|) := mul_le_mul_of_nonneg_left h2 pe
  have m2 : |r - e| * |f| ≤ A * |e| * |f| := mul_le_mul_of_nonneg_right h1 pf
  have m3 : |r - e| * |s - f| ≤ A * |e| * (B * |f|) :=
    mul_le_mul h1 h2 (abs_nonneg _) (mul_nonneg hA pe)
  nlinarith

theorem rel_step {a : ℕ} {r e t : ℚ} (h1 : Rel a r e) (h2 : |t - r| ≤ cK * |r|) : Rel (a + 1) t e := by
  unfold Rel at *
  have hA := pow_sub_one_nonneg a
  generalize hAe : (1 + cK) ^ a - 1 = A at *
  have e0 : (1 + cK) ^ (a + 1) - 1 = A + cK * (1 + A) := by
    rw [pow_succ, ← hAe]; ring
  rw [e0]
  have t1 : |t - e| ≤ |t - r| + |r - e| := by
    have := abs_add_le (t - r) (r - e)
    rwa [show t - r + (r - e) = t - e by ring] at this
  have t2 : |r| ≤ |e| + |r - e| := by
    have := abs_add_le e (r - e)
    rwa [show e + (r - e) = r by ring] at this
  have m1 : cK * |r| ≤ cK * (|e| + A * |e|) := mul_le_mul_of_nonneg_left (by linarith) (le_of_lt cK_pos)
  nlinarith

/-- magnitude of an approximation -/
theorem rel_abs {a : ℕ} {r e η : ℚ} (h : Rel a r e) (hη : (1 + cK) ^ a - 1 ≤ η) :
    (1 - η) * |e| ≤ |r| ∧ |r| ≤ (1 + η) * |e| := by
  unfold Rel at h
  have pe := abs_nonneg e
  have h' : |r - e| ≤ η * |e| := le_trans h (mul_le_mul_of_nonneg_right hη pe)
  have t1 : |e| ≤ |r| + |r - e| := by
    have := abs_add_le r (e - r)
    rw [show r + (e - r) = e by ring, abs_sub_comm e r] at this
    exact this
  have t2 : |r| ≤ |e| + |r - e| := by
    have := abs_add_le e (r - e)
    rwa [show e + (r - e) = r by ring] at this
  constructor <;> linarith

/-- `(1 + cK)^k − 1 ≤ k·cK·(1 + 2^-69)` for `k ≤ 2^31` -/
theorem pow_cK_le (k : ℕ) (hk : k ≤ 2 ^ 31) :
    (1 + cK) ^ k - 1 ≤ (k : ℚ) * cK * (1 + 1 / 2 ^ 69) ∧ (1 + cK) ^ k - 1 ≤ 1 / 2 ^ 71 := by
  have c0 := cK_pos
  have c1 := cK_le
  have hkq : (k : ℚ) ≤ 2 ^ 31 := by exact_mod_cast hk
  have hk0 : (0 : ℚ) ≤ k := Nat.cast_nonneg k
  have hkc : (k : ℚ) * cK ≤ 1 / 2 ^ 72 := by
    calc (k : ℚ) * cK ≤ 2 ^ 31 * (1 / 2 ^ 103) := mul_le_mul hkq c1 (le_of_lt c0) (by positivity)
      _ = 1 / 2 ^ 72 := by norm_num
  have hb : 1 + (k : ℚ) * (-cK) ≤ (1 + -cK) ^ k := one_add_mul_le_pow (by linarith) k
  have hprod : (1 + cK) ^ k * (1 + -cK) ^ k ≤ 1 := by
    rw [← mul_pow]
    apply pow_le_one₀
    · nlinarith
    · nlinarith
  have hP : (1 : ℚ) ≤ (1 + cK) ^ k := one_le_pow₀ (by linarith)
  generalize (1 + cK) ^ k = P at *
  have h1 : P * (1 - k * cK) ≤ 1 := by
    have := mul_le_mul_of_nonneg_left hb (by linarith : (0 : ℚ) ≤ P)
    linarith
  have h2 : P * (1 - 1 / 2 ^ 72) ≤ 1 := by nlinarith
  have h3 : P ≤ 1 + 1 / 2 ^ 71 := by
    norm_num at h2 ⊢
    linarith
  have h4 : P - 1 ≤ P * (k * cK) := by linarith
  have h5 : P * (k * cK) ≤ (1 + 1 / 2 ^ 71) * (k * cK) :=
    mul_le_mul_of_nonneg_right h3 (mul_nonneg hk0 (le_of_lt c0))
  constructor
  · have : (1 + 1 / 2 ^ 71) * (k * cK) ≤ (k : ℚ) * cK * (1 + 1 / 2 ^ 69) := by
      have := mul_nonneg hk0 (le_of_lt c0)
      nlinarith
    linarith
  · linarith

end PowiBound

/-! ## the model: one multiplication, in rational terms -/

namespace PowiBound

open F64 TwoFloat

/-- exact rational value `hi + lo` of a pair -/
def val (t : TwoFloat) : ℚ := (t.V : ℚ) / 2 ^ 1074

/-- the high word of a valid pair carries its value up to a factor `1 ± 2^-53` -/
theorem hi_bounds {t : TwoFloat} (hv : t.Valid) :
    (2 ^ 53 - 1) * |t.hi.toInt| ≤ 2 ^ 53 * |t.V| ∧ 2 ^ 53 * |t.V| ≤ (2 ^ 53 + 1) * |t.hi.toInt| := by
  have m := abs_lo_le_of_half_ulp hv.two_mul_abs_lo_le
  have t1 : |t.V| ≤ |t.hi.toInt| + |t.lo.toInt| := abs_add_le _ _
  have t2 : |t.hi.toInt| ≤ |t.V| + |t.lo.toInt| := by
    have := abs_add_le t.V (-t.lo.toInt)
    rw [abs_neg] at this
    have e : t.V + -t.lo.toInt = t.hi.toInt := by unfold TwoFloat.V; ring
    rwa [e] at this
  constructor <;> linarith

theorem abs_val (t : TwoFloat) : |val t| = ((|t.V| : Int) : ℚ) / 2 ^ 1074 := by
  unfold val
  rw [abs_div, abs_of_pos (by positivity : (0 : ℚ) < 2 ^ 1074), Int.cast_abs]

/-- from a rational lower bound to a scaled-integer one -/
theorem int_lower {t : TwoFloat} {k : ℕ} (hk : k ≤ 1074) (h : 1 / 2 ^ k ≤ |val t|) :
    (2 : Int) ^ (1074 - k) ≤ |t.V| := by
  rw [abs_val, div_le_div_iff₀ (by positivity) (by positivity), one_mul] at h
  have e : (2 : ℚ) ^ 1074 = 2 ^ (1074 - k) * 2 ^ k := by rw [← pow_add]; congr 1; omega
  rw [e] at h
  have h2 : (2 : ℚ) ^ (1074 - k) ≤ ((|t.V| : Int) : ℚ) := le_of_mul_le_mul_right h (by positivity)
  exact_mod_cast h2

end PowiBound

namespace PowiBound

open F64 TwoFloat

theorem abs_val_mul (x y : TwoFloat) : |val x * val y| = ((|x.V * y.V| : Int) : ℚ) / 2 ^ 2148 := by
  unfold val
  rw [div_mul_div_comm, abs_div, abs_of_pos (by positivity : (0 : ℚ) < 2 ^ 1074 * 2 ^ 1074), ← pow_add,
    Int.cast_abs, Int.cast_mul]

/-- the range conditions of `mul_tt_bound_5u2_12u3_wide` from rational ones -/
theorem range_of_val {x y : TwoFloat} (hvx : x.Valid) (hvy : y.Valid)
    (hx : 1 / 2 ^ 1000 ≤ |val x|) (hy : 1 / 2 ^ 1000 ≤ |val y|)
    (hlo : 3 / 2 ^ 902 ≤ |val x * val y|) (hhi : |val x * val y| ≤ 2 ^ 1000) :
    2 ^ 53 ≤ |x.hi.toInt| ∧ 2 ^ 53 ≤ |y.hi.toInt| ∧ 2 ^ 1247 ≤ |x.hi.toInt * y.hi.toInt| ∧
      |x.hi.toInt * y.hi.toInt| < 2 ^ 3169 := by
  have ax : (2 : Int) ^ 74 ≤ |x.V| := int_lower (k := 1000) (by norm_num) hx
  have ay : (2 : Int) ^ 74 ≤ |y.V| := int_lower (k := 1000) (by norm_num) hy
  obtain ⟨bx1, bx2⟩ := hi_bounds hvx
  obtain ⟨by1, by2⟩ := hi_bounds hvy
  have nlo : (3 : Int) * 2 ^ 1246 ≤ |x.V * y.V| := by
    rw [abs_val_mul, div_le_div_iff₀ (by positivity) (by positivity)] at hlo
    have e : (2 : ℚ) ^ 2148 = 2 ^ 1246 * 2 ^ 902 := by rw [← pow_add]
    rw [e, ← mul_assoc] at hlo
    have h2 : (3 : ℚ) * 2 ^ 1246 ≤ ((|x.V * y.V| : Int) : ℚ) := le_of_mul_le_mul_right hlo (by positivity)
    exact_mod_cast h2
  have nhi : |x.V * y.V| ≤ (2 : Int) ^ 3148 := by
    rw [abs_val_mul, div_le_iff₀ (by positivity), ← pow_add] at hhi
    exact_mod_cast hhi
  have pX := abs_nonneg x.hi.toInt
  have pY := abs_nonneg y.hi.toInt
  have pVx := abs_nonneg x.V
  have pVy := abs_nonneg y.V
  rw [abs_mul] at nlo nhi ⊢
  -- products of the one-sided bounds
  have u1 : (2 ^ 53 * |x.V|) * (2 ^ 53 * |y.V|) ≤ ((2 ^ 53 + 1) * |x.hi.toInt|) * ((2 ^ 53 + 1) * |y.hi.toInt|) :=
    mul_le_mul bx2 by2 (by positivity) (by positivity)
  have u2 : ((2 ^ 53 - 1) * |x.hi.toInt|) * ((2 ^ 53 - 1) * |y.hi.toInt|) ≤ (2 ^ 53 * |x.V|) * (2 ^ 53 * |y.V|) :=
    mul_le_mul bx1 by1 (by positivity) (by positivity)
  have e1 : (2 ^ 53 * |x.V|) * (2 ^ 53 * |y.V|) = 2 ^ 106 * (|x.V| * |y.V|) := by ring
  have e2 : ((2 ^ 53 + 1) * |x.hi.toInt|) * ((2 ^ 53 + 1) * |y.hi.toInt|)
      = (2 ^ 53 + 1) ^ 2 * (|x.hi.toInt| * |y.hi.toInt|) := by ring
  have e3 : ((2 ^ 53 - 1) * |x.hi.toInt|) * ((2 ^ 53 - 1) * |y.hi.toInt|)
      = (2 ^ 53 - 1) ^ 2 * (|x.hi.toInt| * |y.hi.toInt|) := by ring
  rw [e1, e2] at u1
  rw [e1, e3] at u2
  generalize |x.hi.toInt| * |y.hi.toInt| = AB at *
  generalize |x.V| * |y.V| = PR at *
  have k1 : (2 : Int) ^ 1247 = 2 * 2 ^ 1246 := by rw [pow_succ]; ring
  have k2 : (2 : Int) ^ 3169 = 2 ^ 21 * 2 ^ 3148 := by rw [← pow_add]
  rw [k1, k2]
  generalize (2 : Int) ^ 1246 = T at *
  generalize (2 : Int) ^ 3148 = S at *
  refine ⟨by linarith, by linarith, ?_, ?_⟩
  · norm_num at u1 ⊢
    linarith
  · norm_num at u2 ⊢
    linarith

/-- **one multiplication, rational form**: relative error at most `cK = 5u² + 12u³` -/
theorem val_mul_bound {x y : TwoFloat} (hvx : x.Valid) (hwx : x.WF) (hvy : y.Valid) (hwy : y.WF)
    (hx : 1 / 2 ^ 1000 ≤ |val x|) (hy : 1 / 2 ^ 1000 ≤ |val y|)
    (hlo : 3 / 2 ^ 902 ≤ |val x * val y|) (hhi : |val x * val y| ≤ 2 ^ 1000) :
    (arithmetic.impl_Mul_rTwoFloat_for_rTwoFloat.mul x y).Valid ∧
    (arithmetic.impl_Mul_rTwoFloat_for_rTwoFloat.mul x y).WF ∧
    |val (arithmetic.impl_Mul_rTwoFloat_for_rTwoFloat.mul x y) - val x * val y| ≤ cK * |val x * val y| := by
  obtain ⟨r1, r2, r3, r4⟩ := range_of_val hvx hvy hx hy hlo hhi
  obtain ⟨hV, hb⟩ := mul_tt_bound_5u2_12u3_wide hvx hwx hvy hwy r1 r2 r3 r4
  refine ⟨hV, mul_tt_WF x y, ?_⟩
  generalize arithmetic.impl_Mul_rTwoFloat_for_rTwoFloat.mul x y = p at *
  rw [unit_cast_eq] at hb
  have hq : |(p.V : ℚ) * 2 ^ 1074 - x.V * y.V| * 2 ^ 159 ≤ (5 * 2 ^ 53 + 12) * |(x.V : ℚ) * y.V| := by
    exact_mod_cast hb
  unfold val cK
  have hU : (0 : ℚ) < 2 ^ 1074 := by positivity
  generalize (2 : ℚ) ^ 1074 = U at *
  have e1 : (p.V : ℚ) / U - x.V / U * (y.V / U) = ((p.V : ℚ) * U - x.V * y.V) / (U * U) := by
    field_simp
  have e2 : (x.V : ℚ) / U * (y.V / U) = ((x.V : ℚ) * y.V) / (U * U) := by field_simp
  rw [e1, e2, abs_div, abs_div, abs_of_pos (mul_pos hU hU), ← mul_div_assoc,
    div_le_div_iff_of_pos_right (mul_pos hU hU), div_mul_eq_mul_div, le_div_iff₀ (by positivity)]
  exact hq

end PowiBound

/-! ## the square-and-multiply loop -/

namespace PowiBound

open F64 TwoFloat

theorem u32_odd (qn : Nat) (h : qn < 2 ^ 32) :
    (((⟨(qn : Int)⟩ : U32) &&& (1 : U32)) !=. (0 : U32)) = decide (qn % 2 = 1) := by
  have b1 : (⟨(qn : Int)⟩ : U32).bitsNat = qn := by
    unfold IntN.bitsNat
    simp only
    rw [← Int.natCast_mod, Int.toNat_natCast, Nat.mod_eq_of_lt h]
  have b2 : (1 : U32).bitsNat = 1 := by decide
  have w : (IntN.wrap (((qn % 2 : Nat)) : Int) : U32) = ⟨((qn % 2 : Nat) : Int)⟩ := by
    unfold IntN.wrap IntN.wrapV
    simp only [Bool.false_and, Bool.false_eq_true, if_false]
    rw [← Int.natCast_mod, Nat.mod_eq_of_lt (by omega)]
  show (!decide ((IntN.wrap ((Nat.land (⟨(qn : Int)⟩ : U32).bitsNat (1 : U32).bitsNat : Nat) : Int) : U32).v
      = (0 : U32).v)) = _
  rw [b1, b2, show Nat.land qn 1 = qn % 2 from Nat.and_one_is_mod qn, w]
  show (!decide (((qn % 2 : Nat) : Int) = (0 : Int))) = _
  rcases Nat.mod_two_eq_zero_or_one qn with h2 | h2 <;> rw [h2] <;> simp

theorem mul_assign_eq (r w : TwoFloat) :
    arithmetic.impl_MulAssign_rTwoFloat_for_TwoFloat.mul_assign r w
      = arithmetic.impl_Mul_rTwoFloat_for_rTwoFloat.mul r w := rfl

theorem mul_assign_eq' (r w : TwoFloat) :
    arithmetic.impl_MulAssign_TwoFloat_for_TwoFloat.mul_assign r w
      = arithmetic.impl_Mul_rTwoFloat_for_rTwoFloat.mul r w := rfl

theorem loop_succ (fuel : Nat) (r w : TwoFloat) (qn : Nat) (h : qn < 2 ^ 32) (hq : 0 < qn) :
    TwoFloat.powi.loop1 (fuel + 1) r w ⟨(qn : Int)⟩ =
      TwoFloat.powi.loop1 fuel
        (if qn % 2 = 1 then arithmetic.impl_Mul_rTwoFloat_for_rTwoFloat.mul r w else r)
        (arithmetic.impl_Mul_rTwoFloat_for_rTwoFloat.mul w w) ⟨((qn / 2 : Nat) : Int)⟩ := by
  rw [TwoFloat.powi.loop1, Ident.u32_gt_zero]
  have h0 : (0 : Int) < ((⟨(qn : Int)⟩ : U32)).v := by
    show (0 : Int) < (qn : Int)
    exact_mod_cast hq
  simp only [h0, decide_true, if_true]
  rw [u32_odd qn h, Ident.u32_shr_one, mul_assign_eq, mul_assign_eq']
  simp only [decide_eq_true_eq]
  congr 2

theorem loop_zero (fuel : Nat) (r w : TwoFloat) :
    TwoFloat.powi.loop1 fuel r w ⟨((0 : Nat) : Int)⟩ = (r, w, ⟨((0 : Nat) : Int)⟩) := by
  cases fuel with
  | zero => rfl
  | succ k =>
    rw [TwoFloat.powi.loop1, Ident.u32_gt_zero]
    simp

end PowiBound

namespace PowiBound

open F64 TwoFloat

/-- all powers `v^i`, `1 ≤ i ≤ N`, have magnitude in `[2^-900, 2^900]` -/
def Rng (v : ℚ) (N : ℕ) : Prop := ∀ i, 1 ≤ i → i ≤ N → 1 / 2 ^ 900 ≤ |v| ^ i ∧ |v| ^ i ≤ 2 ^ 900

theorem rng_of_pow {v : ℚ} {N : ℕ} (hlo : 1 / 2 ^ 900 ≤ |v| ^ N) (hhi : |v| ^ N ≤ 2 ^ 900) : Rng v N := by
  intro i hi1 hiN
  have h0 := abs_nonneg v
  rcases le_or_gt 1 |v| with h | h
  · have h1 : (1 : ℚ) ≤ |v| ^ i := one_le_pow₀ h
    have h2 : |v| ^ i ≤ |v| ^ N := pow_le_pow_right₀ h hiN
    have h3 : (1 : ℚ) / 2 ^ 900 ≤ 1 := by
      rw [div_le_one (by positivity)]; exact one_le_pow₀ (by norm_num)
    exact ⟨le_trans h3 h1, le_trans h2 hhi⟩
  · have h1 : |v| ^ i ≤ 1 := pow_le_one₀ h0 (le_of_lt h)
    have h2 : |v| ^ N ≤ |v| ^ i := pow_le_pow_of_le_one h0 (le_of_lt h) hiN
    have h3 : (1 : ℚ) ≤ 2 ^ 900 := one_le_pow₀ (by norm_num)
    exact ⟨le_trans hlo h2, le_trans h1 h3⟩

theorem num1 : (1 : ℚ) / 2 ^ 1000 ≤ 1 / 2 * (1 / 2 ^ 900) := by norm_num
theorem num2 : (3 : ℚ) / 2 ^ 902 = 3 / 4 * (1 / 2 ^ 900) := by norm_num
theorem num3 : 2 * (2 : ℚ) ^ 900 ≤ 2 ^ 1000 := by norm_num

theorem aux_lo {a x η L K : ℚ} (pa : 0 ≤ a) (hη : η ≤ 1 / 8) (h1 : L ≤ a) (h2 : (1 - η) * a ≤ x)
    (hK : K ≤ 1 / 2 * L) : K ≤ x := by
  have := mul_le_mul_of_nonneg_right hη pa
  linarith

theorem aux_prod_lo {a b X η L : ℚ} (pa : 0 ≤ a) (pb : 0 ≤ b) (h0 : 0 ≤ η) (hη : η ≤ 1 / 8) (hL : L ≤ a * b)
    (h : ((1 - η) * a) * ((1 - η) * b) ≤ X) : 3 / 4 * L ≤ X := by
  have e : ((1 - η) * a) * ((1 - η) * b) = (1 - η) * (1 - η) * (a * b) := by ring
  have k : 3 / 4 ≤ (1 - η) * (1 - η) := by nlinarith
  have := mul_le_mul_of_nonneg_right k (mul_nonneg pa pb)
  rw [e] at h
  linarith

theorem aux_prod_hi {a b X η H : ℚ} (pa : 0 ≤ a) (pb : 0 ≤ b) (h0 : 0 ≤ η) (hη : η ≤ 1 / 8) (hH : a * b ≤ H)
    (h : X ≤ ((1 + η) * a) * ((1 + η) * b)) : X ≤ 2 * H := by
  have e : ((1 + η) * a) * ((1 + η) * b) = (1 + η) * (1 + η) * (a * b) := by ring
  have k : (1 + η) * (1 + η) ≤ 2 := by nlinarith
  have := mul_le_mul_of_nonneg_right k (mul_nonneg pa pb)
  rw [e] at h
  linarith

/-- magnitude of an approximation of `v^m` -/
theorem rel_range {v : ℚ} {N m : ℕ} (hN : N ≤ 2 ^ 31) (hmN : m ≤ N)
    {r : ℚ} (hr : Rel (m - 1) r (v ^ m)) :
    (1 - 1 / 2 ^ 71) * |v| ^ m ≤ |r| ∧ |r| ≤ (1 + 1 / 2 ^ 71) * |v| ^ m := by
  have := rel_abs hr (pow_cK_le (m - 1) (by omega)).2
  rwa [abs_pow] at this

theorem mul_rel {v : ℚ} {N m j : ℕ} (hR : Rng v N) (hN : N ≤ 2 ^ 31) (hm : 1 ≤ m) (hj : 1 ≤ j)
    (hmj : m + j ≤ N) {r w : TwoFloat} (hvr : r.Valid) (hwr : r.WF) (hvw : w.Valid) (hww : w.WF)
    (hr : Rel (m - 1) (val r) (v ^ m)) (hw : Rel (j - 1) (val w) (v ^ j)) :
    (arithmetic.impl_Mul_rTwoFloat_for_rTwoFloat.mul r w).Valid ∧
    (arithmetic.impl_Mul_rTwoFloat_for_rTwoFloat.mul r w).WF ∧
    Rel (m + j - 1) (val (arithmetic.impl_Mul_rTwoFloat_for_rTwoFloat.mul r w)) (v ^ (m + j)) := by
  obtain ⟨a1, a2⟩ := rel_range hN (show m ≤ N by omega) hr
  obtain ⟨b1, b2⟩ := rel_range hN (show j ≤ N by omega) hw
  obtain ⟨c1, _⟩ := hR m hm (by omega)
  obtain ⟨d1, _⟩ := hR j hj (by omega)
  obtain ⟨f1, f2⟩ := hR (m + j) (by omega) hmj
  rw [pow_add] at f1 f2
  have pr := abs_nonneg (val r)
  have pw := abs_nonneg (val w)
  have hη : (0 : ℚ) ≤ 1 / 2 ^ 71 := by positivity
  have hη' : (1 : ℚ) / 2 ^ 71 ≤ 1 / 8 := by norm_num
  have pa : 0 ≤ |v| ^ m := by positivity
  have pb : 0 ≤ |v| ^ j := by positivity
  have hx : 1 / 2 ^ 1000 ≤ |val r| := aux_lo pa hη' c1 a1 num1
  have hy : 1 / 2 ^ 1000 ≤ |val w| := aux_lo pb hη' d1 b1 num1
  have lo1 : ((1 - 1 / 2 ^ 71) * |v| ^ m) * ((1 - 1 / 2 ^ 71) * |v| ^ j) ≤ |val r| * |val w| :=
    mul_le_mul a1 b1 (mul_nonneg (by linarith) pb) pr
  have hi1 : |val r| * |val w| ≤ ((1 + 1 / 2 ^ 71) * |v| ^ m) * ((1 + 1 / 2 ^ 71) * |v| ^ j) :=
    mul_le_mul a2 b2 pw (mul_nonneg (by linarith) pa)
  have hlo : 3 / 2 ^ 902 ≤ |val r * val w| := by
    rw [abs_mul, num2]
    exact aux_prod_lo pa pb hη hη' f1 lo1
  have hhi : |val r * val w| ≤ 2 ^ 1000 := by
    rw [abs_mul]
    exact le_trans (aux_prod_hi pa pb hη hη' f2 hi1) num3
  obtain ⟨hV, hW, hb⟩ := val_mul_bound hvr hwr hvw hww hx hy hlo hhi
  refine ⟨hV, hW, ?_⟩
  have := rel_step (rel_mul hr hw) hb
  rw [← pow_add] at this
  have e : m - 1 + (j - 1) + 1 = m + j - 1 := by omega
  rwa [e] at this

end PowiBound

namespace PowiBound

open F64 TwoFloat

/-- squaring an approximation of `v^j` -/
theorem sq_rel {v : ℚ} {N j : ℕ} (hR : Rng v N) (hN : N ≤ 2 ^ 31) (hj : 1 ≤ j) (h2j : 2 * j ≤ N)
    {w : TwoFloat} (hvw : w.Valid) (hww : w.WF) (hw : Rel (j - 1) (val w) (v ^ j)) :
    (arithmetic.impl_Mul_rTwoFloat_for_rTwoFloat.mul w w).Valid ∧
    (arithmetic.impl_Mul_rTwoFloat_for_rTwoFloat.mul w w).WF ∧
    Rel (2 * j - 1) (val (arithmetic.impl_Mul_rTwoFloat_for_rTwoFloat.mul w w)) (v ^ (2 * j)) := by
  have := mul_rel hR hN hj hj (by omega) hvw hww hvw hww hw hw
  rwa [← two_mul] at this

/-- the loop from a general state: `result ≈ v^m`, `value ≈ v^j`, `q` remaining -/
theorem loop_general {v : ℚ} {N : ℕ} (hR : Rng v N) (hN : N ≤ 2 ^ 31) :
    ∀ (fuel : ℕ) (r w : TwoFloat) (qn m j : ℕ), qn < 2 ^ fuel → qn < 2 ^ 32 → 1 ≤ qn → 1 ≤ m → 1 ≤ j →
      m + j * qn ≤ N → r.Valid → r.WF → w.Valid → w.WF →
      Rel (m - 1) (val r) (v ^ m) → Rel (j - 1) (val w) (v ^ j) →
      (TwoFloat.powi.loop1 fuel r w ⟨(qn : Int)⟩).1.Valid ∧ (TwoFloat.powi.loop1 fuel r w ⟨(qn : Int)⟩).1.WF ∧
      Rel (m + j * qn - 1) (val (TwoFloat.powi.loop1 fuel r w ⟨(qn : Int)⟩).1) (v ^ (m + j * qn)) := by
  intro fuel
  induction fuel with
  | zero => intro r w qn m j h1 _ h3; simp at h1; omega
  | succ k ih =>
    intro r w qn m j hq1 hq2 hq3 hm hj hmj hvr hwr hvw hww hr hw
    rw [loop_succ k r w qn hq2 (by omega)]
    have hk : 2 ^ (k + 1) = 2 * 2 ^ k := by rw [pow_succ]; ring
    have hjq : j ≤ j * qn := Nat.le_mul_of_pos_right _ (by omega)
    by_cases hodd : qn % 2 = 1
    · rw [if_pos hodd]
      obtain ⟨pV, pW, pR⟩ := mul_rel hR hN hm hj (by omega) hvr hwr hvw hww hr hw
      by_cases hq' : qn / 2 = 0
      · have : qn = 1 := by omega
        subst this
        rw [hq', loop_zero]
        rw [mul_one]
        exact ⟨pV, pW, pR⟩
      · have hqn : qn = 2 * (qn / 2) + 1 := by omega
        have e : m + j * qn = (m + j) + (2 * j) * (qn / 2) := by
          conv_lhs => rw [hqn]
          ring
        have h2 : 2 * j ≤ (2 * j) * (qn / 2) := Nat.le_mul_of_pos_right _ (by omega)
        obtain ⟨sV, sW, sR⟩ := sq_rel hR hN hj (by omega) hvw hww hw
        have := ih _ _ (qn / 2) (m + j) (2 * j) (by omega) (by omega) (by omega) (by omega) (by omega)
          (by omega) pV pW sV sW pR sR
        rwa [← e] at this
    · rw [if_neg hodd]
      have hqn : qn = 2 * (qn / 2) := by omega
      have e : m + j * qn = m + (2 * j) * (qn / 2) := by
        conv_lhs => rw [hqn]
        ring
      have h2 : 2 * j ≤ (2 * j) * (qn / 2) := Nat.le_mul_of_pos_right _ (by omega)
      obtain ⟨sV, sW, sR⟩ := sq_rel hR hN hj (by omega) hvw hww hw
      have := ih _ _ (qn / 2) m (2 * j) (by omega) (by omega) (by omega) hm (by omega)
        (by omega) hvr hwr sV sW hr sR
      rwa [← e] at this

/-- the exact `1` the loop starts from -/
def oneT : TwoFloat := ⟨F64.one, F64.zero⟩

theorem one_mul_exact {w : TwoFloat} (hvw : w.Valid) (hww : w.WF) :
    (arithmetic.impl_Mul_rTwoFloat_for_rTwoFloat.mul oneT w).Valid ∧
    (arithmetic.impl_Mul_rTwoFloat_for_rTwoFloat.mul oneT w).WF ∧
    val (arithmetic.impl_Mul_rTwoFloat_for_rTwoFloat.mul oneT w) = val w := by
  have h := C04x.mul_tt_one_left oneT w hvw hww rfl rfl rfl rfl
  have hV : (arithmetic.impl_Mul_rTwoFloat_for_rTwoFloat.mul oneT w).V = w.V := h.2.2.1
  exact ⟨h.2.2.2.1, h.2.2.2.2, by unfold val; rw [hV]⟩

/-- the loop from the initial state: `result = 1` exactly (the first multiplication into `result` is exact) -/
theorem loop_one {v : ℚ} {N : ℕ} (hR : Rng v N) (hN : N ≤ 2 ^ 31) :
    ∀ (fuel : ℕ) (w : TwoFloat) (qn j : ℕ), qn < 2 ^ fuel → qn < 2 ^ 32 → 1 ≤ qn → 1 ≤ j →
      j * qn ≤ N → w.Valid → w.WF → Rel (j - 1) (val w) (v ^ j) →
      (TwoFloat.powi.loop1 fuel oneT w ⟨(qn : Int)⟩).1.Valid ∧ (TwoFloat.powi.loop1 fuel oneT w ⟨(qn : Int)⟩).1.WF ∧
      Rel (j * qn - 1) (val (TwoFloat.powi.loop1 fuel oneT w ⟨(qn : Int)⟩).1) (v ^ (j * qn)) := by
  intro fuel
  induction fuel with
  | zero => intro w qn j h1 _ h3; simp at h1; omega
  | succ k ih =>
    intro w qn j hq1 hq2 hq3 hj hjq hvw hww hw
    rw [loop_succ k oneT w qn hq2 (by omega)]
    have hk : 2 ^ (k + 1) = 2 * 2 ^ k := by rw [pow_succ]; ring
    by_cases hodd : qn % 2 = 1
    · rw [if_pos hodd]
      obtain ⟨pV, pW, pE⟩ := one_mul_exact hvw hww
      have pR : Rel (j - 1) (val (arithmetic.impl_Mul_rTwoFloat_for_rTwoFloat.mul oneT w)) (v ^ j) := by
        rw [pE]; exact hw
      by_cases hq' : qn / 2 = 0
      · have : qn = 1 := by omega
        subst this
        rw [hq', loop_zero, mul_one]
        exact ⟨pV, pW, pR⟩
      · have hqn : qn = 2 * (qn / 2) + 1 := by omega
        have e : j * qn = j + (2 * j) * (qn / 2) := by
          conv_lhs => rw [hqn]
          ring
        have h2 : 2 * j ≤ (2 * j) * (qn / 2) := Nat.le_mul_of_pos_right _ (by omega)
        obtain ⟨sV, sW, sR⟩ := sq_rel hR hN hj (by omega) hvw hww hw
        have := loop_general hR hN k _ _ (qn / 2) j (2 * j) (by omega) (by omega) (by omega) hj (by omega)
          (by omega) pV pW sV sW pR sR
        rwa [← e] at this
    · rw [if_neg hodd]
      have hqn : qn = 2 * (qn / 2) := by omega
      have e : j * qn = (2 * j) * (qn / 2) := by
        conv_lhs => rw [hqn]
        ring
      have h2 : 2 * j ≤ (2 * j) * (qn / 2) := Nat.le_mul_of_pos_right _ (by omega)
      obtain ⟨sV, sW, sR⟩ := sq_rel hR hN hj (by omega) hvw hww hw
      have := ih _ (qn / 2) (2 * j) (by omega) (by omega) (by omega) (by omega) (by omega) sV sW sR
      rwa [← e] at this

end PowiBound

/-! ## `powi` -/

namespace PowiBound

open F64 TwoFloat

theorem i32_gt_zero (m : I32) : (m >. (0 : I32)) = decide (0 < m.v) := by
  show (match (some (if m.v < (0 : Int) then ROrdering.Less else if m.v = 0 then .Equal else .Greater)) with
        | some .Greater => true | _ => false) = _
  by_cases a : m.v < 0
  · have : ¬ (0 < m.v) := by omega
    simp [a, this]
  · by_cases b : m.v = 0
    · simp [b]
    · have : 0 < m.v := by omega
      simp [a, b, this]

theorem powi_loop_eq (x : TwoFloat) (n : I32) (hn : 2 ≤ n.v ∨ n.v ≤ -2) :
    TwoFloat.powi x n =
      if 0 < n.v then (TwoFloat.powi.loop1 33 oneT x ⟨(n.v.natAbs : Int)⟩).1
      else TwoFloat.recip (TwoFloat.powi.loop1 33 oneT x ⟨(n.v.natAbs : Int)⟩).1 := by
  have e (m : I32) (c : Int) : (m ==. (⟨c⟩ : I32)) = decide (m.v = c) := rfl
  have h0 : (n ==. (0 : I32)) = false := by rw [show (0 : I32) = ⟨0⟩ from rfl, e, decide_eq_false_iff_not]; omega
  have h1 : (n ==. (1 : I32)) = false := by rw [show (1 : I32) = ⟨1⟩ from rfl, e, decide_eq_false_iff_not]; omega
  have hm1 : (n ==. (-1 : I32)) = false := by
    rw [show (-1 : I32) = ⟨-1⟩ from rfl, e, decide_eq_false_iff_not]; omega
  rw [C13.powi_general x n h0 h1 hm1, i32_gt_zero, C13.one_words]
  simp only [decide_eq_true_eq]
  rfl

/-- the positive power computed by the loop: valid, and `Rel (N − 1)` of the exact power (`N − 1` inexact
multiplications' worth of error, whatever the bit pattern of `N`) -/
theorem loop_rel (x : TwoFloat) (hv : x.Valid) (hw : x.WF) (N : ℕ) (hN1 : 1 ≤ N) (hN : N ≤ 2 ^ 31)
    (hlo : 1 / 2 ^ 900 ≤ |val x| ^ N) (hhi : |val x| ^ N ≤ 2 ^ 900) :
    (TwoFloat.powi.loop1 33 oneT x ⟨(N : Int)⟩).1.Valid ∧ (TwoFloat.powi.loop1 33 oneT x ⟨(N : Int)⟩).1.WF ∧
    Rel (N - 1) (val (TwoFloat.powi.loop1 33 oneT x ⟨(N : Int)⟩).1) (val x ^ N) := by
  have hR := rng_of_pow hlo hhi
  have h0 : Rel (1 - 1) (val x) (val x ^ 1) := by rw [pow_one]; exact rel_zero _
  have := loop_one hR hN 33 x N 1 (lt_of_le_of_lt hN (by norm_num)) (lt_of_le_of_lt hN (by norm_num)) hN1
    (le_refl 1) (by omega) hv hw h0
  rwa [one_mul] at this

end PowiBound

namespace PowiBound

open F64 TwoFloat

theorem num4 : cK * (1 + 1 / 2 ^ 69) ≤ 6 / 2 ^ 106 := by unfold cK; norm_num
theorem num5 : cK * (1 + 1 / 2 ^ 69) * (1 + 1 / 2 ^ 68) ≤ 6 / 2 ^ 106 := by unfold cK; norm_num

/-- from `Rel (N − 1)` to the linear bounds `(N − 1)·cK·(1 + 2^-69) ≤ (6N + 16)·2^-106` -/
theorem rel_linear {N : ℕ} (hN1 : 1 ≤ N) (hN : N ≤ 2 ^ 31) {r e : ℚ} (h : Rel (N - 1) r e) :
    |r - e| ≤ ((N : ℚ) - 1) * cK * (1 + 1 / 2 ^ 69) * |e| ∧ |r - e| ≤ (6 * (N : ℚ) + 16) / 2 ^ 106 * |e| := by
  unfold Rel at h
  have hp := (pow_cK_le (N - 1) (by omega)).1
  have hc : ((N - 1 : ℕ) : ℚ) = (N : ℚ) - 1 := by
    rw [Nat.cast_sub hN1]; simp
  rw [hc] at hp
  have pe := abs_nonneg e
  have h1 : |r - e| ≤ ((N : ℚ) - 1) * cK * (1 + 1 / 2 ^ 69) * |e| :=
    le_trans h (mul_le_mul_of_nonneg_right hp pe)
  refine ⟨h1, le_trans h1 (mul_le_mul_of_nonneg_right ?_ pe)⟩
  have hN1q : (0 : ℚ) ≤ (N : ℚ) - 1 := by
    have : (1 : ℚ) ≤ N := by exact_mod_cast hN1
    linarith
  have := mul_le_mul_of_nonneg_left num4 hN1q
  have e2 : ((N : ℚ) - 1) * (6 / 2 ^ 106) ≤ (6 * (N : ℚ) + 16) / 2 ^ 106 := by
    rw [mul_div_assoc', div_le_div_iff_of_pos_right (by positivity)]
    linarith
  linarith

/-- reciprocal of an approximation: `s ≈ e` within `E`, `ρ·s ≈ 1` within `δ` ⟹ `ρ ≈ 1/e` within `δ + E(1 + 2^-68)` -/
theorem recip_rel {ρ s e E δ : ℚ} (he : e ≠ 0) (hs : |s - e| ≤ E * |e|) (hρ : |1 - ρ * s| ≤ δ)
    (hE : 0 ≤ E) (hE' : E ≤ 1 / 2 ^ 71) (hδ' : δ ≤ 1 / 2 ^ 71) :
    |ρ - e⁻¹| ≤ (δ + E * (1 + 1 / 2 ^ 68)) * |e⁻¹| := by
  have ha : 0 < |e| := abs_pos.2 he
  have hδ : 0 ≤ δ := le_trans (abs_nonneg _) hρ
  have key : |ρ * e - 1| ≤ δ + E * (1 + 1 / 2 ^ 68) := by
    have t1 : |e| ≤ |s| + |s - e| := by
      have := abs_add_le s (e - s)
      rw [show s + (e - s) = e by ring, abs_sub_comm e s] at this
      exact this
    have t2 : |ρ * s| ≤ 1 + δ := by
      have := abs_add_le (1 : ℚ) (-(1 - ρ * s))
      rw [show (1 : ℚ) + -(1 - ρ * s) = ρ * s by ring, abs_neg, abs_one] at this
      linarith
    have t3 : |ρ * e - 1| ≤ |1 - ρ * s| + |ρ| * |s - e| := by
      have := abs_add_le (-(1 - ρ * s)) (-(ρ * (s - e)))
      rw [show -(1 - ρ * s) + -(ρ * (s - e)) = ρ * e - 1 by ring, abs_neg, abs_neg, abs_mul] at this
      exact this
    rw [abs_mul] at t2
    have pρ := abs_nonneg ρ
    have pt : 0 ≤ |ρ| * |e| := mul_nonneg pρ (le_of_lt ha)
    have m1 : |ρ| * |s - e| ≤ E * (|ρ| * |e|) := by
      have := mul_le_mul_of_nonneg_left hs pρ
      rwa [show |ρ| * (E * |e|) = E * (|ρ| * |e|) by ring] at this
    have m2 : (1 - E) * (|ρ| * |e|) ≤ |ρ| * |s| := by
      have := mul_le_mul_of_nonneg_left (show (1 - E) * |e| ≤ |s| by linarith) pρ
      rwa [show |ρ| * ((1 - E) * |e|) = (1 - E) * (|ρ| * |e|) by ring] at this
    have m3 : (|ρ| * |e|) * E ≤ (|ρ| * |e|) * (1 / 2 ^ 71) := mul_le_mul_of_nonneg_left hE' pt
    have m4 : |ρ| * |e| ≤ 1 + 1 / 2 ^ 68 := by
      have : |ρ| * |e| - (|ρ| * |e|) * (1 / 2 ^ 71) ≤ 1 + 1 / 2 ^ 71 := by linarith
      norm_num at this ⊢
      linarith
    have m5 : E * (|ρ| * |e|) ≤ E * (1 + 1 / 2 ^ 68) := mul_le_mul_of_nonneg_left m4 hE
    linarith
  have e1 : ρ - e⁻¹ = (ρ * e - 1) * e⁻¹ := by field_simp
  rw [e1, abs_mul]
  exact mul_le_mul_of_nonneg_right key (abs_nonneg _)

end PowiBound

namespace PowiBound

open F64 TwoFloat

theorem int_upper {t : TwoFloat} {k : ℕ} (h : |val t| ≤ 2 ^ k) : |t.V| ≤ (2 : Int) ^ (1074 + k) := by
  rw [abs_val, div_le_iff₀ (by positivity), ← pow_add, add_comm] at h
  exact_mod_cast h

/-- `recip` in rational terms, for `2^-901 ≤ |R| ≤ 2^901` -/
theorem recip_val {R : TwoFloat} (hv : R.Valid) (h1 : 1 / 2 ^ 901 ≤ |val R|) (h2 : |val R| ≤ 2 ^ 901) :
    (TwoFloat.recip R).Valid ∧ (TwoFloat.recip R).WF ∧ |1 - val (TwoFloat.recip R) * val R| ≤ 1 / 2 ^ 102 := by
  have a1 : (2 : Int) ^ 173 ≤ |R.V| := int_lower (k := 901) (by norm_num) h1
  have a2 : |R.V| ≤ (2 : Int) ^ 1975 := int_upper (k := 901) h2
  obtain ⟨b1, b2⟩ := hi_bounds hv
  have c1 : (2 : Int) ^ 58 ≤ |R.hi.toInt| := by linarith
  have c2 : |R.hi.toInt| ≤ (2 : Int) ^ 2038 := by linarith
  have d1 : 2 ^ 58 ≤ R.hi.toInt.natAbs := by
    rw [← Int.natCast_natAbs] at c1
    exact_mod_cast c1
  have d2 : R.hi.toInt.natAbs ≤ 2 ^ 2038 := by
    rw [← Int.natCast_natAbs] at c2
    exact_mod_cast c2
  obtain ⟨rv, rw'⟩ := C01d.recip_valid R hv d1 (le_trans d2 (by norm_num))
  have hb := C01d.recip_bound R hv d1 d2
  refine ⟨rv, rw', ?_⟩
  generalize TwoFloat.recip R = ρ at *
  rw [unit_cast_eq] at hb
  have hq : (2 : ℚ) ^ 102 * |(2 : ℚ) ^ 1074 * 2 ^ 1074 - (ρ.V : ℚ) * (R.V : ℚ)| ≤ 2 ^ 1074 * 2 ^ 1074 := by
    exact_mod_cast hb
  unfold val
  have hU : (0 : ℚ) < 2 ^ 1074 := by positivity
  generalize (2 : ℚ) ^ 1074 = U at *
  have e1 : 1 - (ρ.V : ℚ) / U * ((R.V : ℚ) / U) = (U * U - (ρ.V : ℚ) * (R.V : ℚ)) / (U * U) := by
    field_simp
  rw [e1, abs_div, abs_of_pos (mul_pos hU hU), div_le_div_iff₀ (mul_pos hU hU) (by positivity)]
  linarith

theorem num6 : (1 : ℚ) / 2 ^ 901 ≤ 1 / 2 * (1 / 2 ^ 900) := by norm_num
theorem num7 : 2 * (2 : ℚ) ^ 900 = 2 ^ 901 := by norm_num

/-- the reciprocal of an approximate power -/
theorem recip_of_rel {v : ℚ} {N : ℕ} (hN1 : 1 ≤ N) (hN : N ≤ 2 ^ 31)
    (hlo : 1 / 2 ^ 900 ≤ |v| ^ N) (hhi : |v| ^ N ≤ 2 ^ 900)
    {R : TwoFloat} (hRv : R.Valid) (hrel : Rel (N - 1) (val R) (v ^ N)) :
    (TwoFloat.recip R).Valid ∧ (TwoFloat.recip R).WF ∧
    |val (TwoFloat.recip R) - (v ^ N)⁻¹|
      ≤ (1 / 2 ^ 102 + ((N : ℚ) - 1) * cK * (1 + 1 / 2 ^ 69) * (1 + 1 / 2 ^ 68)) * |(v ^ N)⁻¹| ∧
    |val (TwoFloat.recip R) - (v ^ N)⁻¹| ≤ (6 * (N : ℚ) + 16) / 2 ^ 106 * |(v ^ N)⁻¹| := by
  obtain ⟨a1, a2⟩ := rel_range hN (le_refl N) hrel
  have hη' : (1 : ℚ) / 2 ^ 71 ≤ 1 / 8 := by norm_num
  have pa : 0 ≤ |v| ^ N := by positivity
  have h1 : 1 / 2 ^ 901 ≤ |val R| := aux_lo pa hη' hlo a1 num6
  have h2 : |val R| ≤ 2 ^ 901 := by
    have := mul_le_mul_of_nonneg_right hη' pa
    rw [← num7]
    linarith
  obtain ⟨rv, rw', rb⟩ := recip_val hRv h1 h2
  have he : v ^ N ≠ 0 := by
    intro h0
    rw [← abs_pow, h0, abs_zero] at hlo
    have : (0 : ℚ) < 1 / 2 ^ 900 := by positivity
    linarith
  have hs := (rel_linear hN1 hN hrel).1
  have hN1q : (0 : ℚ) ≤ (N : ℚ) - 1 := by
    have : (1 : ℚ) ≤ N := by exact_mod_cast hN1
    linarith
  have hNq : (N : ℚ) - 1 ≤ 2 ^ 31 := by
    have : (N : ℚ) ≤ 2 ^ 31 := by exact_mod_cast hN
    linarith
  have hE0 : 0 ≤ ((N : ℚ) - 1) * cK * (1 + 1 / 2 ^ 69) :=
    mul_nonneg (mul_nonneg hN1q (le_of_lt cK_pos)) (by positivity)
  have hE1 : ((N : ℚ) - 1) * cK * (1 + 1 / 2 ^ 69) ≤ 1 / 2 ^ 71 := by
    have k1 : ((N : ℚ) - 1) * cK ≤ 2 ^ 31 * (1 / 2 ^ 103) :=
      mul_le_mul hNq cK_le (le_of_lt cK_pos) (by positivity)
    have k2 := mul_le_mul_of_nonneg_right k1 (show (0 : ℚ) ≤ 1 + 1 / 2 ^ 69 by positivity)
    refine le_trans k2 ?_
    norm_num
  have key := recip_rel he hs rb hE0 hE1 (by norm_num)
  refine ⟨rv, rw', key, le_trans key (mul_le_mul_of_nonneg_right ?_ (abs_nonneg _))⟩
  have k3 := mul_le_mul_of_nonneg_left num5 hN1q
  have e2 : ((N : ℚ) - 1) * (6 / 2 ^ 106) + 1 / 2 ^ 102 ≤ (6 * (N : ℚ) + 16) / 2 ^ 106 := by
    rw [show (1 : ℚ) / 2 ^ 102 = 16 / 2 ^ 106 by norm_num, mul_div_assoc', ← add_div,
      div_le_div_iff_of_pos_right (by positivity)]
    linarith
  have e3 : ((N : ℚ) - 1) * cK * (1 + 1 / 2 ^ 69) * (1 + 1 / 2 ^ 68)
      = ((N : ℚ) - 1) * (cK * (1 + 1 / 2 ^ 69) * (1 + 1 / 2 ^ 68)) := by ring
  rw [e3]
  linarith

/-- an approximation with relative error at most `1/2` has the sign of the exact value -/
theorem close_sign {r e κ : ℚ} (h : |r - e| ≤ κ * |e|) (hκ : κ ≤ 1 / 2) (he : e ≠ 0) : 0 < r * e := by
  have ha : 0 < |e| := abs_pos.2 he
  have h1 : |r - e| ≤ 1 / 2 * |e| := le_trans h (mul_le_mul_of_nonneg_right hκ (le_of_lt ha))
  have h2 : -((r - e) * e) ≤ |r - e| * |e| := by
    rw [← abs_mul]; exact neg_le_abs _
  have h3 : |r - e| * |e| ≤ 1 / 2 * |e| * |e| := mul_le_mul_of_nonneg_right h1 (le_of_lt ha)
  have h4 : |e| * |e| = e * e := abs_mul_abs_self e
  have h5 : 0 < e * e := mul_self_pos.2 he
  nlinarith

end PowiBound
