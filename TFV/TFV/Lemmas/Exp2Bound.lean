/-
Lemmas.Exp2Bound — shared lemmas for the accuracy bounds of `exp2`, `exp_m1` (C14f) and `cosh/sinh/tanh` (C18h).
-/
import TFV.Lemmas.ExpBound
import TFV.Properties.C05x
import TFV.Properties.C12x

set_option exponentiation.threshold 4000

namespace Exp2Bound

open ConstBounds ExpBound

section divpow
open F64 TwoFloat

/-- **`TwoFloat / f64` by a power of two `2^m`**, high word divisible by `2^m` (automatic for `|hi| ≥ 2^(53+m)`
units): the high quotient is exact; the low quotient is one correctly rounded division.  Integer form. -/
theorem div_pow2_int {x : TwoFloat} {f : F64} {m : ℕ} (hx : x.Valid) (hw : x.WF)
    (hf : IsVal f (2 ^ m * (unit : Int))) (hm1 : 1 ≤ m) (hd : (2 : Int) ^ m ∣ x.hi.toInt) :
    (arithmetic.impl_Div_rf64_for_rTwoFloat.div x f).Valid ∧
    ∃ L : Int, (arithmetic.impl_Div_rf64_for_rTwoFloat.div x f).V * 2 ^ m = x.hi.toInt + L * 2 ^ m ∧
      2 ^ 53 * |L * 2 ^ m - x.lo.toInt| ≤ 2 ^ 52 * 2 ^ m + |x.lo.toInt| := by
  obtain ⟨H, hH⟩ := hd
  have hP : (0 : Int) < 2 ^ m := by positivity
  have hU : (0 : Int) < (unit : Int) := unit_pos_int
  have hf0 : (2 : Int) ^ m * (unit : Int) ≠ 0 := ne_of_gt (mul_pos hP hU)
  have hHr : RepI H := by
    have := hw.1.repI
    rw [hH, mul_comm] at this
    exact repI_mul_pow2_iff.1 this
  have hHle : |H| ≤ |x.hi.toInt| := by
    rw [hH, abs_mul, abs_of_pos hP]
    have := abs_nonneg H
    nlinarith
  have hHm : |H| ≤ (maxFin : Int) := le_trans hHle hw.1.abs_toInt_le
  have hxv := IsV.of_valid hx
  have hth : IsVal (F64.div x.hi f) H :=
    hxv.1.div_exact hf hf0 (by rw [hH]; ring) hHr hHm
  have hp := new_mul_isV_exact hth hf (q := x.hi.toInt) (by rw [hH]; ring) hw.1.repI hw.1.abs_toInt_le
  have hdh : IsVal (F64.sub x.hi (TwoFloat.new_mul (F64.div x.hi f) f).hi) 0 := by
    have := hxv.1.sub_exact hp.1 (by rw [sub_self]; exact repI_zero) (by rw [sub_self]; exact abs_zero_le_maxFin)
    rwa [sub_self] at this
  have hdt : IsVal (F64.sub (F64.sub x.hi (TwoFloat.new_mul (F64.div x.hi f) f).hi)
      (TwoFloat.new_mul (F64.div x.hi f) f).lo) 0 := by
    have := hdh.sub_exact hp.2 (by rw [sub_self]; exact repI_zero) (by rw [sub_self]; exact abs_zero_le_maxFin)
    rwa [sub_self] at this
  have hd' : IsVal (F64.add (F64.sub (F64.sub x.hi (TwoFloat.new_mul (F64.div x.hi f) f).hi)
      (TwoFloat.new_mul (F64.div x.hi f) f).lo) x.lo) x.lo.toInt := by
    have := hdt.add_exact hxv.2 (by rw [zero_add]; exact hw.2.repI)
      (by rw [zero_add]; exact hw.2.abs_toInt_le)
    rwa [zero_add] at this
  -- the low quotient
  have hfi : f.toInt ≠ 0 := by rw [hf.2]; exact hf0
  have herr := rdI_err_gen (x.lo.toInt * (unit : Int)) hf0
  set L := rdI (x.lo.toInt * (unit : Int)) (2 ^ m * (unit : Int)) with hL
  have herr' : 2 ^ 53 * |L * 2 ^ m - x.lo.toInt| ≤ 2 ^ 52 * 2 ^ m + |x.lo.toInt| := by
    have e1 : L * (2 ^ m * (unit : Int)) - x.lo.toInt * (unit : Int) = (L * 2 ^ m - x.lo.toInt) * (unit : Int) := by
      ring
    rw [e1, abs_mul_pos_right _ hU, abs_mul_pos_right _ hU, abs_mul_pos_right _ hU, abs_of_pos hP] at herr
    have : (2 ^ 53 * |L * 2 ^ m - x.lo.toInt|) * (unit : Int) ≤ (2 ^ 52 * 2 ^ m + |x.lo.toInt|) * (unit : Int) := by
      linarith
    exact le_of_mul_le_mul_right this hU
  have hxl := two_pow_mul_abs_le_of_half_ulp hx.two_mul_abs_lo_le
  -- |L| ≤ |H|
  have hLH : |L| ≤ |H| := by
    by_cases h0 : H = 0
    · have hx0 : x.hi.toInt = 0 := by rw [hH, h0, mul_zero]
      have hl0 : x.lo.toInt = 0 := by
        rw [hx0, abs_zero] at hxl
        have := abs_nonneg x.lo.toInt
        exact abs_eq_zero.1 (by omega)
      rw [hL, hl0, zero_mul, rdI_zero_left, h0]
    · have hH1 : 1 ≤ |H| := Int.one_le_abs h0
      by_contra hc
      have hc' : |H| + 1 ≤ |L| := by omega
      have t1 : |L| * 2 ^ m ≤ |L * 2 ^ m - x.lo.toInt| + |x.lo.toInt| := by
        have := abs_add_le (L * 2 ^ m - x.lo.toInt) x.lo.toInt
        rw [show L * 2 ^ m - x.lo.toInt + x.lo.toInt = L * 2 ^ m by ring, abs_mul_pos_right _ hP] at this
        exact this
      have t2 : (|H| + 1) * 2 ^ m ≤ |L| * 2 ^ m := mul_le_mul_of_nonneg_right hc' hP.le
      rw [add_mul, one_mul] at t2
      have t3 : |x.hi.toInt| = |H| * 2 ^ m := by rw [hH, abs_mul, abs_of_pos hP]; ring
      rw [t3] at hxl
      have t4 : (1 : Int) * 2 ^ m ≤ |H| * 2 ^ m := mul_le_mul_of_nonneg_right hH1 hP.le
      rw [one_mul] at t4
      clear herr hf0 hfi hL
      generalize |L * 2 ^ m - x.lo.toInt| = E at *
      generalize |x.lo.toInt| = A at *
      generalize |H| * 2 ^ m = HP at *
      generalize |L| * 2 ^ m = LP at *
      generalize (2 : Int) ^ m = P at *
      omega
  have hq : roundQ (x.lo.toInt * (unit : Int)).natAbs f.toInt.natAbs ≤ maxFin := by
    rw [hf.2, ← natAbs_rdI' _ hf0, ← hL]
    exact natAbs_le_of_abs_le (le_trans hLH hHm)
  have htl : IsVal (F64.div (F64.add (F64.sub (F64.sub x.hi (TwoFloat.new_mul (F64.div x.hi f) f).hi)
      (TwoFloat.new_mul (F64.div x.hi f) f).lo) x.lo) f) L := by
    have := div_spec hd'.1 hf.1 hfi (by rw [hd'.2]; exact hq)
    rw [hd'.2, hf.2] at this
    exact this
  rw [div_tf_eq]
  have hsum : |H + L| ≤ 2 * |H| := by
    have := abs_add_le H L
    omega
  have hf2 := fast_two_sum_words hth.1 htl.1 (div_WF _ _) (div_WF _ _)
    (by rw [hth.2, htl.2]; exact hLH)
    (by
      rw [hth.2, htl.2]
      apply rn53_natAbs_le_maxFin
      have t3 : |x.hi.toInt| = |H| * 2 ^ m := by rw [hH, abs_mul, abs_of_pos hP]; ring
      have hP2 : (2 : Int) ≤ 2 ^ m := by
        calc (2 : Int) = 2 ^ 1 := by norm_num
          _ ≤ 2 ^ m := pow_le_pow_right₀ (by norm_num) hm1
      have := hw.1.abs_toInt_le
      have hn := abs_nonneg H
      have : |H| * 2 ≤ |H| * 2 ^ m := mul_le_mul_of_nonneg_left hP2 hn
      omega)
  rw [hth.2, htl.2] at hf2
  obtain ⟨-, pV, pValid, -⟩ := eft_package hf2.1 hf2.2 (fast_two_sum_WF _ _).1 (fast_two_sum_WF _ _).2
  refine ⟨pValid, L, ?_, herr'⟩
  rw [pV, hH]; ring

/-- the divisibility hypothesis is automatic for large high words -/
theorem dvd_hi_of_large {t : TwoFloat} {m : ℕ} (hw : t.WF) (h : 2 ^ 52 * 2 ^ m ≤ t.hi.toInt.natAbs) :
    (2 : Int) ^ m ∣ t.hi.toInt := by
  have h1 : 2 ^ m ∣ t.hi.toInt.natAbs := Rep.dvd_of_le hw.1.repI h
  exact Int.natAbs_dvd_natAbs.1 (by simpa using h1)

/-- **`TwoFloat / f64` by `2^m`, over `ℝ`**: relative error `u²(1 + 2u)` plus half a unit `2^-1075` (the rounding of
the low quotient; both vanish when `2^m` divides the low word) -/
theorem div_pow2_rv {x : TwoFloat} {f : F64} {m : ℕ} (hx : VW x)
    (hf : IsVal f (2 ^ m * (unit : Int))) (hm1 : 1 ≤ m) (hd : (2 : Int) ^ m ∣ x.hi.toInt) :
    VW (arithmetic.impl_Div_f64_for_TwoFloat.div x f) ∧
    |rv (arithmetic.impl_Div_f64_for_TwoFloat.div x f) - rv x / 2 ^ m|
      ≤ 1001 / 1000 / 2 ^ 106 * |rv x / 2 ^ m| + 1 / 2 ^ 1075 := by
  show VW (arithmetic.impl_Div_rf64_for_rTwoFloat.div x f) ∧
    |rv (arithmetic.impl_Div_rf64_for_rTwoFloat.div x f) - rv x / 2 ^ m|
      ≤ 1001 / 1000 / 2 ^ 106 * |rv x / 2 ^ m| + 1 / 2 ^ 1075
  obtain ⟨hV, L, hL1, hL2⟩ := div_pow2_int hx.1 hx.2 hf hm1 hd
  refine ⟨⟨hV, div_tf_WF x f⟩, ?_⟩
  obtain ⟨b1, -⟩ := PowiBound.hi_bounds hx.1
  have hxl := two_pow_mul_abs_le_of_half_ulp hx.1.two_mul_abs_lo_le
  generalize arithmetic.impl_Div_rf64_for_rTwoFloat.div x f = R at *
  have hP : (0 : ℝ) < 2 ^ m := by positivity
  have hU : (0 : ℝ) < 2 ^ 1074 := by positivity
  -- real forms
  have r1 : (R.V : ℝ) * 2 ^ m = (x.hi.toInt : ℝ) + (L : ℝ) * 2 ^ m := by exact_mod_cast hL1
  have r2 : (2 : ℝ) ^ 53 * |(L : ℝ) * 2 ^ m - (x.lo.toInt : ℝ)| ≤ 2 ^ 52 * 2 ^ m + |(x.lo.toInt : ℝ)| := by
    exact_mod_cast hL2
  have r3 : ((2 : ℝ) ^ 53 - 1) * |(x.hi.toInt : ℝ)| ≤ 2 ^ 53 * |(x.V : ℝ)| := by exact_mod_cast b1
  have r4 : (2 : ℝ) ^ 53 * |(x.lo.toInt : ℝ)| ≤ |(x.hi.toInt : ℝ)| := by exact_mod_cast hxl
  have hVx : (x.V : ℝ) = (x.hi.toInt : ℝ) + (x.lo.toInt : ℝ) := by unfold TwoFloat.V; push_cast; ring
  unfold rv
  have e1 : (R.V : ℝ) / 2 ^ 1074 - (x.V : ℝ) / 2 ^ 1074 / 2 ^ m
      = ((L : ℝ) * 2 ^ m - (x.lo.toInt : ℝ)) / (2 ^ 1074 * 2 ^ m) := by
    rw [hVx]; field_simp; linarith
  have e2 : |(x.V : ℝ) / 2 ^ 1074 / 2 ^ m| = |(x.V : ℝ)| / (2 ^ 1074 * 2 ^ m) := by
    rw [div_div, abs_div, abs_of_pos (by positivity : (0 : ℝ) < 2 ^ 1074 * 2 ^ m)]
  rw [e1, e2, abs_div, abs_of_pos (by positivity : (0 : ℝ) < 2 ^ 1074 * 2 ^ m)]
  have e3 : (1 : ℝ) / 2 ^ 1075 = (2 ^ m / 2) / (2 ^ 1074 * 2 ^ m) := by
    rw [show (2 : ℝ) ^ 1075 = 2 ^ 1074 * 2 by norm_num]; field_simp
  rw [e3, ← mul_div_assoc, ← add_div, div_le_div_iff_of_pos_right (by positivity)]
  generalize |(L : ℝ) * 2 ^ m - (x.lo.toInt : ℝ)| = E at *
  generalize |(x.lo.toInt : ℝ)| = A at *
  have hA : 0 ≤ |(x.hi.toInt : ℝ)| := abs_nonneg _
  generalize |(x.hi.toInt : ℝ)| = B at *
  generalize |(x.V : ℝ)| = W at *
  generalize (2 : ℝ) ^ m = P at *
  -- E ≤ P/2 + A/2^53, A ≤ B/2^53, B ≤ W·2^53/(2^53−1)
  have k1 : E ≤ P / 2 + A / 2 ^ 53 := by
    rw [show P / 2 + A / 2 ^ 53 = (2 ^ 52 * P + A) / 2 ^ 53 by ring, le_div_iff₀ (by positivity)]
    linarith
  have k2 : A ≤ B / 2 ^ 53 := by rw [le_div_iff₀ (by positivity)]; linarith
  have k3 : B ≤ 2 ^ 53 / (2 ^ 53 - 1) * W := by
    rw [div_mul_eq_mul_div, le_div_iff₀ (by norm_num)]; linarith
  have k4 : A / 2 ^ 53 ≤ 1001 / 1000 / 2 ^ 106 * W := by
    have : A / 2 ^ 53 ≤ B / 2 ^ 53 / 2 ^ 53 := div_le_div_of_nonneg_right k2 (by positivity)
    have h2 : B / 2 ^ 53 / 2 ^ 53 ≤ (2 ^ 53 / (2 ^ 53 - 1) * W) / 2 ^ 53 / 2 ^ 53 :=
      div_le_div_of_nonneg_right (div_le_div_of_nonneg_right k3 (by positivity)) (by positivity)
    have hW : 0 ≤ W := by
      have : (0:ℝ) ≤ 2 ^ 53 / (2 ^ 53 - 1) * W := le_trans hA k3
      have h3 : (0 : ℝ) < 2 ^ 53 / (2 ^ 53 - 1) := by norm_num
      exact nonneg_of_mul_nonneg_right this h3
    have h3 : (2 ^ 53 / (2 ^ 53 - 1) * W) / 2 ^ 53 / 2 ^ 53 ≤ 1001 / 1000 / 2 ^ 106 * W := by
      have : (2 : ℝ) ^ 53 / (2 ^ 53 - 1) / 2 ^ 53 / 2 ^ 53 ≤ 1001 / 1000 / 2 ^ 106 := by norm_num
      calc (2 ^ 53 / (2 ^ 53 - 1) * W) / 2 ^ 53 / 2 ^ 53 = (2 ^ 53 / (2 ^ 53 - 1) / 2 ^ 53 / 2 ^ 53) * W := by ring
        _ ≤ 1001 / 1000 / 2 ^ 106 * W := mul_le_mul_of_nonneg_right this hW
    linarith
  linarith

/-- the double `2.0` -/
theorem two_isVal : IsVal (f64lit 0x4000000000000000) (2 ^ 1 * (unit : Int)) := by
  rw [PF.lit_two]
  exact ⟨rfl, by show ((2 * F64.unit : Nat) : Int) = _; push_cast; ring⟩

/-- the double `512.0` -/
theorem lit512_isVal : IsVal (f64lit 0x4080000000000000) (2 ^ 9 * (unit : Int)) := by
  have : f64lit 0x4080000000000000 = fin false (512 * F64.unit) := by decide +kernel
  rw [this]
  exact ⟨rfl, by show ((512 * F64.unit : Nat) : Int) = _; push_cast; ring⟩

/-- divisibility of the high word by `2^m`, `m ≤ 100`, from a lower bound `2^-900` on the value -/
theorem dvd_hi_of_rv {t : TwoFloat} {m : ℕ} (ht : VW t) (h : 1 / 2 ^ 900 ≤ |rv t|) (hm : m ≤ 100) :
    (2 : Int) ^ m ∣ t.hi.toInt := by
  apply dvd_hi_of_large ht.2
  obtain ⟨-, b2⟩ := PowiBound.hi_bounds ht.1
  have hV : (2 : ℤ) ^ 174 ≤ |t.V| := by
    rw [rv_abs, le_div_iff₀ (by positivity)] at h
    have e : (1 : ℝ) / 2 ^ 900 * 2 ^ 1074 = 2 ^ 174 := by
      rw [one_div, inv_mul_eq_div, div_eq_iff (by positivity), ← pow_add]
    rw [e] at h
    exact_mod_cast h
  have h2 : (2 : ℤ) ^ 173 ≤ |t.hi.toInt| := by
    have := abs_nonneg t.hi.toInt
    norm_num at b2 hV ⊢
    omega
  have h3 : 2 ^ 173 ≤ t.hi.toInt.natAbs := by
    rw [← Int.natCast_natAbs] at h2
    exact_mod_cast h2
  calc 2 ^ 52 * 2 ^ m ≤ 2 ^ 52 * 2 ^ 100 := Nat.mul_le_mul_left _ (Nat.pow_le_pow_right (by norm_num) hm)
    _ ≤ 2 ^ 173 := by norm_num
    _ ≤ _ := h3

/-- **`TwoFloat − TwoFloat` over `ℝ`** (magnitudes at most `2^1000`) -/
theorem sub_rv {x y : TwoFloat} (hx : VW x) (hy : VW y) (bx : |rv x| ≤ 2 ^ 1000) (by' : |rv y| ≤ 2 ^ 1000) :
    VW (arithmetic.impl_Sub_TwoFloat_for_TwoFloat.sub x y) ∧
    |rv (arithmetic.impl_Sub_TwoFloat_for_TwoFloat.sub x y) - (rv x - rv y)| ≤ cA * |rv x - rv y| := by
  show VW (arithmetic.impl_Sub_rTwoFloat_for_rTwoFloat.sub x y) ∧
    |rv (arithmetic.impl_Sub_rTwoFloat_for_rTwoFloat.sub x y) - (rv x - rv y)| ≤ cA * |rv x - rv y|
  obtain ⟨hV, hb⟩ := TwoFloat.sub_tt_bound hx.1 hx.2 hy.1 hy.2 (hi_natAbs_lt_of_rv hx.1 bx)
    (hi_natAbs_lt_of_rv hy.1 by')
  refine ⟨⟨hV, TwoFloat.sub_tt_WF x y⟩, ?_⟩
  generalize arithmetic.impl_Sub_rTwoFloat_for_rTwoFloat.sub x y = R at *
  have hq : |(R.V : ℝ) - (x.V - y.V)| * 2 ^ 159 ≤ (3 * 2 ^ 53 + 13) * |(x.V : ℝ) - y.V| := by
    exact_mod_cast hb
  unfold rv cA
  have e1 : (R.V : ℝ) / 2 ^ 1074 - ((x.V : ℝ) / 2 ^ 1074 - (y.V : ℝ) / 2 ^ 1074)
      = ((R.V : ℝ) - (x.V - y.V)) / 2 ^ 1074 := by field_simp
  have e2 : (x.V : ℝ) / 2 ^ 1074 - (y.V : ℝ) / 2 ^ 1074 = ((x.V : ℝ) - y.V) / 2 ^ 1074 := by field_simp
  rw [e1, e2, abs_div, abs_div, abs_of_pos (by positivity : (0 : ℝ) < 2 ^ 1074), ← mul_div_assoc,
    div_le_div_iff_of_pos_right (by positivity), div_mul_eq_mul_div, le_div_iff₀ (by positivity)]
  exact hq

/-- negation -/
theorem neg_rv {x : TwoFloat} (hx : VW x) :
    VW (arithmetic.impl_Neg_for_TwoFloat.neg x) ∧ rv (arithmetic.impl_Neg_for_TwoFloat.neg x) = -rv x := by
  show VW (arithmetic.impl_Neg_for_rTwoFloat.neg x) ∧ rv (arithmetic.impl_Neg_for_rTwoFloat.neg x) = -rv x
  refine ⟨⟨hx.1.neg hx.2.1, TwoFloat.neg_WF' hx.2⟩, ?_⟩
  unfold rv
  rw [TwoFloat.V_neg]
  push_cast
  ring

end divpow

end Exp2Bound
