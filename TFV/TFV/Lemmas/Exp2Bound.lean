/-
Lemmas.Exp2Bound — lemmas behind the accuracy bounds of `exp2`, `exp_m1` (property C14; statements in
`TFV/Properties/C14f.lean`) and of `cosh`, `sinh`, `tanh` (property C18; `TFV/Properties/C18h.lean`).
Built on `Lemmas/ExpBound.lean` (`rv t = t.V / 2^1074 : ℝ`, `VW t = t.Valid ∧ t.WF`, `mul_rv`, `add_rv`, …).

 §1  operators over `ℝ`:
     `div_pow2_int` / `div_pow2_rv` (`TwoFloat / f64` by `2^m`, high word divisible by `2^m`: the high quotient is
     exact, the low quotient one rounding), `div_pow2_tiny_int` (the same in the underflow range `|hi| < 2^(52+m)`
     units: everything is a small integer), `div_pow2_gen` (ALL valid operands, `1 ≤ m ≤ 40`: relative `u²(1+2u)` plus
     one unit `2^-1074`), `sub_rv`, `neg_rv`, `hi_window`, `div_rv` (`TwoFloat / TwoFloat`, `16u²`).
 §2  `exp2`, real-number cores: `reduce_real`, `horner_tail_real`, `exp_taylor12`, `sq_step_real`.
 §3  `exp2`, the polynomial: `hp2`, `horner_inv2` (`4u²` self-sustaining down to the coefficient `1/2!`),
     `horner2_bound` (`3.04u²` absolute).
 §4  `exp2`, the nine squarings: `sqn`, `eb` (`ε ↦ 2ε + 7.01u²`), `sq_iter`.
 §5  `exp2`, the final scaling: `scale_pow2`.
 §6  `exp2`, the assembly: `exp2_bound_main` (`5633u² < 2^-93`).
 §7  `exp_m1`: `abs_cases`, `abs_rv'`, `expm1_core_real` / `expm1_kernel` (`|x| ≤ 1/128`: `9.3u²`),
     `horner_inv_wide` / `expm1_kernel_wide` (`0 ≤ t ≤ 0.7`: `42u²`), `taylor_wide`.
 §8  `exp` with the accuracy of `exp_half` as a parameter: `exp_bound_beta`, `exp_half_table`,
     `exp_bound_small_k` (`12.8u²` for `−0.2 ≤ x ≤ 15.7`).
-/
import TFV.Lemmas.ExpBound
import TFV.Properties.C05x
import TFV.Properties.C12x
import TFV.Properties.C01d

set_option exponentiation.threshold 4000

namespace Exp2Bound

open ConstBounds ExpBound

section divpow
open F64 TwoFloat

/-- **`TwoFloat / f64` by a power of two `2^m`**, high word divisible by `2^m` (automatic for `|hi| ≥ 2^(53+m)`
units): the high quotient is exact; the low quotient is one correctly rounded division.  Integer form. -/
theorem div_pow2_int {x : TwoFloat} {f : F64} {m : ℕ} (hx : x.Valid) (hw : x.WF)
    (hf : IsVal f (2 ^ m * (unit : Int))) (hm1 : 1 ≤ m) (hd : (2 : Int) ^ m ∣ x.hi.toInt) :
    (arithmetic.impl_Div_rf64_for_rTwoFloat.div x f).Valid ∧
    ∃ L : Int, (arithmetic.impl_Div_rf64_for_rTwoFloat.div x f).V * 2 ^ m = x.hi.toInt + L * 2 ^ m ∧
      2 ^ 53 * |L * 2 ^ m - x.lo.toInt| ≤ 2 ^ 52 * 2 ^ m + |x.lo.toInt| := by
  obtain ⟨H, hH⟩ := hd
  have hP : (0 : Int) < 2 ^ m := by positivity
  have hU : (0 : Int) < (unit : Int) := unit_pos_int
  have hf0 : (2 : Int) ^ m * (unit : Int) ≠ 0 := ne_of_gt (mul_pos hP hU)
  have hHr : RepI H := by
    have := hw.1.repI
    rw [hH, mul_comm] at this
    exact repI_mul_pow2_iff.1 this
  have hHle : |H| ≤ |x.hi.toInt| := by
    rw [hH, abs_mul, abs_of_pos hP]
    have := abs_nonneg H
    nlinarith
  have hHm : |H| ≤ (maxFin : Int) := le_trans hHle hw.1.abs_toInt_le
  have hxv := IsV.of_valid hx
  have hth : IsVal (F64.div x.hi f) H :=
    hxv.1.div_exact hf hf0 (by rw [hH]; ring) hHr hHm
  have hp := new_mul_isV_exact hth hf (q := x.hi.toInt) (by rw [hH]; ring) hw.1.repI hw.1.abs_toInt_le
  have hdh : IsVal (F64.sub x.hi (TwoFloat.new_mul (F64.div x.hi f) f).hi) 0 := by
    have := hxv.1.sub_exact hp.1 (by rw [sub_self]; exact repI_zero) (by rw [sub_self]; exact abs_zero_le_maxFin)
    rwa [sub_self] at this
  have hdt : IsVal (F64.sub (F64.sub x.hi (TwoFloat.new_mul (F64.div x.hi f) f).hi)
      (TwoFloat.new_mul (F64.div x.hi f) f).lo) 0 := by
    have := hdh.sub_exact hp.2 (by rw [sub_self]; exact repI_zero) (by rw [sub_self]; exact abs_zero_le_maxFin)
    rwa [sub_self] at this
  have hd' : IsVal (F64.add (F64.sub (F64.sub x.hi (TwoFloat.new_mul (F64.div x.hi f) f).hi)
      (TwoFloat.new_mul (F64.div x.hi f) f).lo) x.lo) x.lo.toInt := by
    have := hdt.add_exact hxv.2 (by rw [zero_add]; exact hw.2.repI)
      (by rw [zero_add]; exact hw.2.abs_toInt_le)
    rwa [zero_add] at this
  -- the low quotient
  have hfi : f.toInt ≠ 0 := by rw [hf.2]; exact hf0
  have herr := rdI_err_gen (x.lo.toInt * (unit : Int)) hf0
  set L := rdI (x.lo.toInt * (unit : Int)) (2 ^ m * (unit : Int)) with hL
  have herr' : 2 ^ 53 * |L * 2 ^ m - x.lo.toInt| ≤ 2 ^ 52 * 2 ^ m + |x.lo.toInt| := by
    have e1 : L * (2 ^ m * (unit : Int)) - x.lo.toInt * (unit : Int) = (L * 2 ^ m - x.lo.toInt) * (unit : Int) := by
      ring
    rw [e1, abs_mul_pos_right _ hU, abs_mul_pos_right _ hU, abs_mul_pos_right _ hU, abs_of_pos hP] at herr
    have : (2 ^ 53 * |L * 2 ^ m - x.lo.toInt|) * (unit : Int) ≤ (2 ^ 52 * 2 ^ m + |x.lo.toInt|) * (unit : Int) := by
      linarith
    exact le_of_mul_le_mul_right this hU
  have hxl := two_pow_mul_abs_le_of_half_ulp hx.two_mul_abs_lo_le
  -- |L| ≤ |H|
  have hLH : |L| ≤ |H| := by
    by_cases h0 : H = 0
    · have hx0 : x.hi.toInt = 0 := by rw [hH, h0, mul_zero]
      have hl0 : x.lo.toInt = 0 := by
        rw [hx0, abs_zero] at hxl
        have := abs_nonneg x.lo.toInt
        exact abs_eq_zero.1 (by omega)
      rw [hL, hl0, zero_mul, rdI_zero_left, h0]
    · have hH1 : 1 ≤ |H| := Int.one_le_abs h0
      by_contra hc
      have hc' : |H| + 1 ≤ |L| := by omega
      have t1 : |L| * 2 ^ m ≤ |L * 2 ^ m - x.lo.toInt| + |x.lo.toInt| := by
        have := abs_add_le (L * 2 ^ m - x.lo.toInt) x.lo.toInt
        rw [show L * 2 ^ m - x.lo.toInt + x.lo.toInt = L * 2 ^ m by ring, abs_mul_pos_right _ hP] at this
        exact this
      have t2 : (|H| + 1) * 2 ^ m ≤ |L| * 2 ^ m := mul_le_mul_of_nonneg_right hc' hP.le
      rw [add_mul, one_mul] at t2
      have t3 : |x.hi.toInt| = |H| * 2 ^ m := by rw [hH, abs_mul, abs_of_pos hP]; ring
      rw [t3] at hxl
      have t4 : (1 : Int) * 2 ^ m ≤ |H| * 2 ^ m := mul_le_mul_of_nonneg_right hH1 hP.le
      rw [one_mul] at t4
      clear herr hf0 hfi hL
      generalize |L * 2 ^ m - x.lo.toInt| = E at *
      generalize |x.lo.toInt| = A at *
      generalize |H| * 2 ^ m = HP at *
      generalize |L| * 2 ^ m = LP at *
      generalize (2 : Int) ^ m = P at *
      omega
  have hq : roundQ (x.lo.toInt * (unit : Int)).natAbs f.toInt.natAbs ≤ maxFin := by
    rw [hf.2, ← natAbs_rdI' _ hf0, ← hL]
    exact natAbs_le_of_abs_le (le_trans hLH hHm)
  have htl : IsVal (F64.div (F64.add (F64.sub (F64.sub x.hi (TwoFloat.new_mul (F64.div x.hi f) f).hi)
      (TwoFloat.new_mul (F64.div x.hi f) f).lo) x.lo) f) L := by
    have := div_spec hd'.1 hf.1 hfi (by rw [hd'.2]; exact hq)
    rw [hd'.2, hf.2] at this
    exact this
  rw [div_tf_eq]
  have hsum : |H + L| ≤ 2 * |H| := by
    have := abs_add_le H L
    omega
  have hf2 := fast_two_sum_words hth.1 htl.1 (div_WF _ _) (div_WF _ _)
    (by rw [hth.2, htl.2]; exact hLH)
    (by
      rw [hth.2, htl.2]
      apply rn53_natAbs_le_maxFin
      have t3 : |x.hi.toInt| = |H| * 2 ^ m := by rw [hH, abs_mul, abs_of_pos hP]; ring
      have hP2 : (2 : Int) ≤ 2 ^ m := by
        calc (2 : Int) = 2 ^ 1 := by norm_num
          _ ≤ 2 ^ m := pow_le_pow_right₀ (by norm_num) hm1
      have := hw.1.abs_toInt_le
      have hn := abs_nonneg H
      have : |H| * 2 ≤ |H| * 2 ^ m := mul_le_mul_of_nonneg_left hP2 hn
      omega)
  rw [hth.2, htl.2] at hf2
  obtain ⟨-, pV, pValid, -⟩ := eft_package hf2.1 hf2.2 (fast_two_sum_WF _ _).1 (fast_two_sum_WF _ _).2
  refine ⟨pValid, L, ?_, herr'⟩
  rw [pV, hH]; ring

/-- the divisibility hypothesis is automatic for large high words -/
theorem dvd_hi_of_large {t : TwoFloat} {m : ℕ} (hw : t.WF) (h : 2 ^ 52 * 2 ^ m ≤ t.hi.toInt.natAbs) :
    (2 : Int) ^ m ∣ t.hi.toInt := by
  have h1 : 2 ^ m ∣ t.hi.toInt.natAbs := Rep.dvd_of_le hw.1.repI h
  exact Int.natAbs_dvd_natAbs.1 (by simpa using h1)

/-- **`TwoFloat / f64` by `2^m`, over `ℝ`**: relative error `u²(1 + 2u)` plus half a unit `2^-1075` (the rounding of
the low quotient; both vanish when `2^m` divides the low word) -/
theorem div_pow2_rv {x : TwoFloat} {f : F64} {m : ℕ} (hx : VW x)
    (hf : IsVal f (2 ^ m * (unit : Int))) (hm1 : 1 ≤ m) (hd : (2 : Int) ^ m ∣ x.hi.toInt) :
    VW (arithmetic.impl_Div_f64_for_TwoFloat.div x f) ∧
    |rv (arithmetic.impl_Div_f64_for_TwoFloat.div x f) - rv x / 2 ^ m|
      ≤ 1001 / 1000 / 2 ^ 106 * |rv x / 2 ^ m| + 1 / 2 ^ 1075 := by
  show VW (arithmetic.impl_Div_rf64_for_rTwoFloat.div x f) ∧
    |rv (arithmetic.impl_Div_rf64_for_rTwoFloat.div x f) - rv x / 2 ^ m|
      ≤ 1001 / 1000 / 2 ^ 106 * |rv x / 2 ^ m| + 1 / 2 ^ 1075
  obtain ⟨hV, L, hL1, hL2⟩ := div_pow2_int hx.1 hx.2 hf hm1 hd
  refine ⟨⟨hV, div_tf_WF x f⟩, ?_⟩
  obtain ⟨b1, -⟩ := PowiBound.hi_bounds hx.1
  have hxl := two_pow_mul_abs_le_of_half_ulp hx.1.two_mul_abs_lo_le
  generalize arithmetic.impl_Div_rf64_for_rTwoFloat.div x f = R at *
  have hP : (0 : ℝ) < 2 ^ m := by positivity
  have hU : (0 : ℝ) < 2 ^ 1074 := by positivity
  -- real forms
  have r1 : (R.V : ℝ) * 2 ^ m = (x.hi.toInt : ℝ) + (L : ℝ) * 2 ^ m := by exact_mod_cast hL1
  have r2 : (2 : ℝ) ^ 53 * |(L : ℝ) * 2 ^ m - (x.lo.toInt : ℝ)| ≤ 2 ^ 52 * 2 ^ m + |(x.lo.toInt : ℝ)| := by
    exact_mod_cast hL2
  have r3 : ((2 : ℝ) ^ 53 - 1) * |(x.hi.toInt : ℝ)| ≤ 2 ^ 53 * |(x.V : ℝ)| := by exact_mod_cast b1
  have r4 : (2 : ℝ) ^ 53 * |(x.lo.toInt : ℝ)| ≤ |(x.hi.toInt : ℝ)| := by exact_mod_cast hxl
  have hVx : (x.V : ℝ) = (x.hi.toInt : ℝ) + (x.lo.toInt : ℝ) := by unfold TwoFloat.V; push_cast; ring
  unfold rv
  have e1 : (R.V : ℝ) / 2 ^ 1074 - (x.V : ℝ) / 2 ^ 1074 / 2 ^ m
      = ((L : ℝ) * 2 ^ m - (x.lo.toInt : ℝ)) / (2 ^ 1074 * 2 ^ m) := by
    rw [hVx]; field_simp; linarith
  have e2 : |(x.V : ℝ) / 2 ^ 1074 / 2 ^ m| = |(x.V : ℝ)| / (2 ^ 1074 * 2 ^ m) := by
    rw [div_div, abs_div, abs_of_pos (by positivity : (0 : ℝ) < 2 ^ 1074 * 2 ^ m)]
  rw [e1, e2, abs_div, abs_of_pos (by positivity : (0 : ℝ) < 2 ^ 1074 * 2 ^ m)]
  have e3 : (1 : ℝ) / 2 ^ 1075 = (2 ^ m / 2) / (2 ^ 1074 * 2 ^ m) := by
    rw [show (2 : ℝ) ^ 1075 = 2 ^ 1074 * 2 by norm_num]; field_simp
  rw [e3, ← mul_div_assoc, ← add_div, div_le_div_iff_of_pos_right (by positivity)]
  generalize |(L : ℝ) * 2 ^ m - (x.lo.toInt : ℝ)| = E at *
  generalize |(x.lo.toInt : ℝ)| = A at *
  have hA : 0 ≤ |(x.hi.toInt : ℝ)| := abs_nonneg _
  generalize |(x.hi.toInt : ℝ)| = B at *
  generalize |(x.V : ℝ)| = W at *
  generalize (2 : ℝ) ^ m = P at *
  -- E ≤ P/2 + A/2^53, A ≤ B/2^53, B ≤ W·2^53/(2^53−1)
  have k1 : E ≤ P / 2 + A / 2 ^ 53 := by
    rw [show P / 2 + A / 2 ^ 53 = (2 ^ 52 * P + A) / 2 ^ 53 by ring, le_div_iff₀ (by positivity)]
    linarith
  have k2 : A ≤ B / 2 ^ 53 := by rw [le_div_iff₀ (by positivity)]; linarith
  have k3 : B ≤ 2 ^ 53 / (2 ^ 53 - 1) * W := by
    rw [div_mul_eq_mul_div, le_div_iff₀ (by norm_num)]; linarith
  have k4 : A / 2 ^ 53 ≤ 1001 / 1000 / 2 ^ 106 * W := by
    have : A / 2 ^ 53 ≤ B / 2 ^ 53 / 2 ^ 53 := div_le_div_of_nonneg_right k2 (by positivity)
    have h2 : B / 2 ^ 53 / 2 ^ 53 ≤ (2 ^ 53 / (2 ^ 53 - 1) * W) / 2 ^ 53 / 2 ^ 53 :=
      div_le_div_of_nonneg_right (div_le_div_of_nonneg_right k3 (by positivity)) (by positivity)
    have hW : 0 ≤ W := by
      have : (0:ℝ) ≤ 2 ^ 53 / (2 ^ 53 - 1) * W := le_trans hA k3
      have h3 : (0 : ℝ) < 2 ^ 53 / (2 ^ 53 - 1) := by norm_num
      exact nonneg_of_mul_nonneg_right this h3
    have h3 : (2 ^ 53 / (2 ^ 53 - 1) * W) / 2 ^ 53 / 2 ^ 53 ≤ 1001 / 1000 / 2 ^ 106 * W := by
      have : (2 : ℝ) ^ 53 / (2 ^ 53 - 1) / 2 ^ 53 / 2 ^ 53 ≤ 1001 / 1000 / 2 ^ 106 := by norm_num
      calc (2 ^ 53 / (2 ^ 53 - 1) * W) / 2 ^ 53 / 2 ^ 53 = (2 ^ 53 / (2 ^ 53 - 1) / 2 ^ 53 / 2 ^ 53) * W := by ring
        _ ≤ 1001 / 1000 / 2 ^ 106 * W := mul_le_mul_of_nonneg_right this hW
    linarith
  linarith

/-- the double `2.0` -/
theorem two_isVal : IsVal (f64lit 0x4000000000000000) (2 ^ 1 * (unit : Int)) := by
  rw [PF.lit_two]
  exact ⟨rfl, by show ((2 * F64.unit : Nat) : Int) = _; push_cast; ring⟩

/-- the double `512.0` -/
theorem lit512_isVal : IsVal (f64lit 0x4080000000000000) (2 ^ 9 * (unit : Int)) := by
  have : f64lit 0x4080000000000000 = fin false (512 * F64.unit) := by decide +kernel
  rw [this]
  exact ⟨rfl, by show ((512 * F64.unit : Nat) : Int) = _; push_cast; ring⟩

/-- divisibility of the high word by `2^m`, `m ≤ 100`, from a lower bound `2^-900` on the value -/
theorem dvd_hi_of_rv {t : TwoFloat} {m : ℕ} (ht : VW t) (h : 1 / 2 ^ 900 ≤ |rv t|) (hm : m ≤ 100) :
    (2 : Int) ^ m ∣ t.hi.toInt := by
  apply dvd_hi_of_large ht.2
  obtain ⟨-, b2⟩ := PowiBound.hi_bounds ht.1
  have hV : (2 : ℤ) ^ 174 ≤ |t.V| := by
    rw [rv_abs, le_div_iff₀ (by positivity)] at h
    have e : (1 : ℝ) / 2 ^ 900 * 2 ^ 1074 = 2 ^ 174 := by
      rw [one_div, inv_mul_eq_div, div_eq_iff (by positivity), ← pow_add]
    rw [e] at h
    exact_mod_cast h
  have h2 : (2 : ℤ) ^ 173 ≤ |t.hi.toInt| := by
    have := abs_nonneg t.hi.toInt
    norm_num at b2 hV ⊢
    omega
  have h3 : 2 ^ 173 ≤ t.hi.toInt.natAbs := by
    rw [← Int.natCast_natAbs] at h2
    exact_mod_cast h2
  calc 2 ^ 52 * 2 ^ m ≤ 2 ^ 52 * 2 ^ 100 := Nat.mul_le_mul_left _ (Nat.pow_le_pow_right (by norm_num) hm)
    _ ≤ 2 ^ 173 := by norm_num
    _ ≤ _ := h3

/-- **`TwoFloat − TwoFloat` over `ℝ`** (magnitudes at most `2^1000`) -/
theorem sub_rv {x y : TwoFloat} (hx : VW x) (hy : VW y) (bx : |rv x| ≤ 2 ^ 1000) (by' : |rv y| ≤ 2 ^ 1000) :
    VW (arithmetic.impl_Sub_TwoFloat_for_TwoFloat.sub x y) ∧
    |rv (arithmetic.impl_Sub_TwoFloat_for_TwoFloat.sub x y) - (rv x - rv y)| ≤ cA * |rv x - rv y| := by
  show VW (arithmetic.impl_Sub_rTwoFloat_for_rTwoFloat.sub x y) ∧
    |rv (arithmetic.impl_Sub_rTwoFloat_for_rTwoFloat.sub x y) - (rv x - rv y)| ≤ cA * |rv x - rv y|
  obtain ⟨hV, hb⟩ := TwoFloat.sub_tt_bound hx.1 hx.2 hy.1 hy.2 (hi_natAbs_lt_of_rv hx.1 bx)
    (hi_natAbs_lt_of_rv hy.1 by')
  refine ⟨⟨hV, TwoFloat.sub_tt_WF x y⟩, ?_⟩
  generalize arithmetic.impl_Sub_rTwoFloat_for_rTwoFloat.sub x y = R at *
  have hq : |(R.V : ℝ) - (x.V - y.V)| * 2 ^ 159 ≤ (3 * 2 ^ 53 + 13) * |(x.V : ℝ) - y.V| := by
    exact_mod_cast hb
  unfold rv cA
  have e1 : (R.V : ℝ) / 2 ^ 1074 - ((x.V : ℝ) / 2 ^ 1074 - (y.V : ℝ) / 2 ^ 1074)
      = ((R.V : ℝ) - (x.V - y.V)) / 2 ^ 1074 := by field_simp
  have e2 : (x.V : ℝ) / 2 ^ 1074 - (y.V : ℝ) / 2 ^ 1074 = ((x.V : ℝ) - y.V) / 2 ^ 1074 := by field_simp
  rw [e1, e2, abs_div, abs_div, abs_of_pos (by positivity : (0 : ℝ) < 2 ^ 1074), ← mul_div_assoc,
    div_le_div_iff_of_pos_right (by positivity), div_mul_eq_mul_div, le_div_iff₀ (by positivity)]
  exact hq

/-- negation -/
theorem neg_rv {x : TwoFloat} (hx : VW x) :
    VW (arithmetic.impl_Neg_for_TwoFloat.neg x) ∧ rv (arithmetic.impl_Neg_for_TwoFloat.neg x) = -rv x := by
  show VW (arithmetic.impl_Neg_for_rTwoFloat.neg x) ∧ rv (arithmetic.impl_Neg_for_rTwoFloat.neg x) = -rv x
  refine ⟨⟨hx.1.neg hx.2.1, TwoFloat.neg_WF' hx.2⟩, ?_⟩
  unfold rv
  rw [TwoFloat.V_neg]
  push_cast
  ring

/-- integer window of the high word from real bounds on the value -/
theorem hi_window {t : TwoFloat} (hv : t.Valid) {p q : ℕ} (hp : p ≤ 1073) (h1 : 1 / 2 ^ p ≤ |rv t|)
    (h2 : |rv t| ≤ 2 ^ q) :
    (2 : ℤ) ^ (1073 - p) ≤ |t.hi.toInt| ∧ |t.hi.toInt| ≤ 2 ^ (1075 + q) ∧
    (2 : ℤ) ^ (1074 - p) ≤ |t.V| ∧ |t.V| ≤ 2 ^ (1074 + q) := by
  obtain ⟨b1, b2⟩ := PowiBound.hi_bounds hv
  have hV1 : (2 : ℤ) ^ (1074 - p) ≤ |t.V| := by
    rw [rv_abs, le_div_iff₀ (by positivity)] at h1
    have e : (1 : ℝ) / 2 ^ p * 2 ^ 1074 = 2 ^ (1074 - p) := by
      rw [one_div, inv_mul_eq_div, div_eq_iff (by positivity), ← pow_add]
      congr 1; omega
    rw [e] at h1
    exact_mod_cast h1
  have hV2 : |t.V| ≤ (2 : ℤ) ^ (1074 + q) := V_abs_le_of_rv h2
  refine ⟨?_, ?_, hV1, hV2⟩
  · have e : (2 : ℤ) ^ (1074 - p) = 2 * 2 ^ (1073 - p) := by
      rw [show 1074 - p = (1073 - p) + 1 by omega, pow_succ]; ring
    rw [e] at hV1
    have hP : (0 : ℤ) < 2 ^ (1073 - p) := by positivity
    generalize (2 : ℤ) ^ (1073 - p) = P at *
    have := abs_nonneg t.hi.toInt
    norm_num at b2 ⊢
    omega
  · have e : (2 : ℤ) ^ (1075 + q) = 2 * 2 ^ (1074 + q) := by
      rw [show 1075 + q = (1074 + q) + 1 by omega, pow_succ]; ring
    rw [e]
    generalize (2 : ℤ) ^ (1074 + q) = P at *
    have := abs_nonneg t.hi.toInt
    norm_num at b1 ⊢
    omega

/-- **`TwoFloat / TwoFloat` over `ℝ`**: relative error `16u² = 2^-102` when numerator, denominator and quotient have
magnitude in `[2^-950, 2^1000]` -/
theorem div_rv {a b : TwoFloat} (ha : VW a) (hb : VW b) (ha1 : 1 / 2 ^ 950 ≤ |rv a|) (ha2 : |rv a| ≤ 2 ^ 1000)
    (hb1 : 1 / 2 ^ 950 ≤ |rv b|) (hb2 : |rv b| ≤ 2 ^ 1000)
    (hq1 : 1 / 2 ^ 950 * |rv b| ≤ |rv a|) (hq2 : |rv a| ≤ 2 ^ 1000 * |rv b|) :
    VW (arithmetic.impl_Div_TwoFloat_for_TwoFloat.div a b) ∧
    |rv (arithmetic.impl_Div_TwoFloat_for_TwoFloat.div a b) - rv a / rv b| ≤ 1 / 2 ^ 102 * |rv a / rv b| := by
  show VW (arithmetic.impl_Div_rTwoFloat_for_rTwoFloat.div a b) ∧
    |rv (arithmetic.impl_Div_rTwoFloat_for_rTwoFloat.div a b) - rv a / rv b| ≤ 1 / 2 ^ 102 * |rv a / rv b|
  obtain ⟨wa1, wa2, va1, va2⟩ := hi_window ha.1 (by norm_num : 950 ≤ 1073) ha1 ha2
  obtain ⟨wb1, wb2, vb1, vb2⟩ := hi_window hb.1 (by norm_num : 950 ≤ 1073) hb1 hb2
  obtain ⟨a1, a2⟩ := PowiBound.hi_bounds ha.1
  obtain ⟨b1, b2⟩ := PowiBound.hi_bounds hb.1
  have hUi := unit_pos_int
  have hU : (0 : ℝ) < 2 ^ 1074 := by positivity
  -- quotient bounds on the values, as integers
  have q1 : |b.V| ≤ 2 ^ 950 * |a.V| := by
    rw [rv_abs, rv_abs] at hq1
    have : ((|b.V| : ℤ) : ℝ) ≤ 2 ^ 950 * ((|a.V| : ℤ) : ℝ) := by
      have h := mul_le_mul_of_nonneg_right hq1 hU.le
      rw [div_mul_cancel₀ _ hU.ne', mul_assoc, div_mul_cancel₀ _ hU.ne'] at h
      have h2 := mul_le_mul_of_nonneg_left h (by positivity : (0 : ℝ) ≤ 2 ^ 950)
      rw [← mul_assoc, mul_one_div_cancel (by positivity), one_mul] at h2
      exact h2
    exact_mod_cast this
  have q2 : |a.V| ≤ 2 ^ 1000 * |b.V| := by
    rw [rv_abs, rv_abs] at hq2
    have : ((|a.V| : ℤ) : ℝ) ≤ 2 ^ 1000 * ((|b.V| : ℤ) : ℝ) := by
      have h := mul_le_mul_of_nonneg_right hq2 hU.le
      rw [div_mul_cancel₀ _ hU.ne', mul_assoc, div_mul_cancel₀ _ hU.ne'] at h
      exact h
    exact_mod_cast this
  have pA := abs_nonneg a.hi.toInt
  have pB := abs_nonneg b.hi.toInt
  -- |A| ≤ 2|a.V|, |a.V| ≤ 2|A| etc.
  have A_le : |a.hi.toInt| ≤ 2 * |a.V| := by norm_num at a1 ⊢; omega
  have V_le : |a.V| ≤ 2 * |a.hi.toInt| := by norm_num at a2 ⊢; omega
  have B_le : |b.hi.toInt| ≤ 2 * |b.V| := by norm_num at b1 ⊢; omega
  have W_le : |b.V| ≤ 2 * |b.hi.toInt| := by norm_num at b2 ⊢; omega
  have hAU : |a.hi.toInt * (unit : Int)| = |a.hi.toInt| * 2 ^ 1074 := by
    rw [abs_mul_pos_right _ hUi, C01d.unit_int_eq]
  have R : DivRange a.hi.toInt b.hi.toInt := by
    refine ⟨le_trans (by norm_num) wa1, le_trans wa2 (by norm_num), le_trans wb2 (by norm_num), ?_, ?_⟩
    · rw [hAU]
      have e : (2 : ℤ) ^ 1074 = 2 ^ 64 * (4 * 2 ^ 950) * 2 ^ 58 := by norm_num
      rw [e]
      nlinarith
    · rw [hAU]
      have e : (2 : ℤ) ^ 2090 = 2 ^ 1074 * (4 * 2 ^ 1000) * 2 ^ 14 := by norm_num
      rw [e]
      nlinarith
  have hB110 : 2 ^ 110 * |b.hi.toInt| ≤ |a.hi.toInt * (unit : Int)| := by
    rw [hAU]
    have e : (2 : ℤ) ^ 1074 = 2 ^ 110 * (4 * 2 ^ 950) * 2 ^ 12 := by norm_num
    rw [e]
    nlinarith
  have hA110 : (2 : ℤ) ^ 110 ≤ |a.hi.toInt| := le_trans (by norm_num) wa1
  obtain ⟨hV, hW⟩ := C01d.div_tt_valid_of_range ha.1 ha.2 hb.1 R
  have hacc := C01d.div_tt_bound_of_range ha.1 ha.2 hb.1 R hB110 hA110
  refine ⟨⟨hV, hW⟩, ?_⟩
  show |rv (C01.divTT a b) - rv a / rv b| ≤ 1 / 2 ^ 102 * |rv a / rv b|
  generalize C01.divTT a b = Q at *
  have hb0 : (b.V : ℝ) ≠ 0 := by
    have : (0 : ℤ) < |b.V| := lt_of_lt_of_le (by positivity) vb1
    have : b.V ≠ 0 := abs_pos.1 this
    exact_mod_cast this
  rw [C01d.unit_int_eq] at hacc
  have hr : (2 : ℝ) ^ 102 * |(a.V : ℝ) * 2 ^ 1074 - (Q.V : ℝ) * (b.V : ℝ)| ≤ |(a.V : ℝ) * 2 ^ 1074| := by
    exact_mod_cast hacc
  unfold rv
  have e1 : (Q.V : ℝ) / 2 ^ 1074 - (a.V : ℝ) / 2 ^ 1074 / ((b.V : ℝ) / 2 ^ 1074)
      = -((a.V : ℝ) * 2 ^ 1074 - (Q.V : ℝ) * (b.V : ℝ)) / (2 ^ 1074 * (b.V : ℝ)) := by
    field_simp
    ring
  have e2 : (a.V : ℝ) / 2 ^ 1074 / ((b.V : ℝ) / 2 ^ 1074) = ((a.V : ℝ) * 2 ^ 1074) / (2 ^ 1074 * (b.V : ℝ)) := by
    field_simp
  rw [e1, e2, abs_div, abs_div, abs_neg, ← mul_div_assoc,
    div_le_div_iff_of_pos_right (abs_pos.2 (mul_ne_zero hU.ne' hb0)), one_div_mul_eq_div, le_div_iff₀ (by positivity)]
  linarith

/-- **`TwoFloat / f64` by `2^m` in the underflow range** (`|hi| < 2^(52+m)` units): every step is an operation on
small integers; the result is a valid pair within one unit `2^-1074` of the exact quotient -/
theorem div_pow2_tiny_int {x : TwoFloat} {f : F64} {m : ℕ} (hx : x.Valid) (_hw : x.WF)
    (hf : IsVal f (2 ^ m * (unit : Int))) (hm1 : 1 ≤ m) (hm2 : m ≤ 40)
    (hsmall : |x.hi.toInt| < 2 ^ 52 * 2 ^ m) :
    (arithmetic.impl_Div_rf64_for_rTwoFloat.div x f).Valid ∧
    |(arithmetic.impl_Div_rf64_for_rTwoFloat.div x f).V * 2 ^ m - x.V| < 2 ^ m := by
  have hP : (0 : Int) < 2 ^ m := by positivity
  have hP2 : (2 : Int) ≤ 2 ^ m := by
    calc (2 : Int) = 2 ^ 1 := by norm_num
      _ ≤ 2 ^ m := pow_le_pow_right₀ (by norm_num) hm1
  have hP40 : (2 : Int) ^ m ≤ 2 ^ 40 := pow_le_pow_right₀ (by norm_num) hm2
  have hU : (0 : Int) < (unit : Int) := unit_pos_int
  have hf0 : (2 : Int) ^ m * (unit : Int) ≠ 0 := ne_of_gt (mul_pos hP hU)
  have hfi : f.toInt ≠ 0 := by rw [hf.2]; exact hf0
  have hM : (2 : Int) ^ 100 ≤ (maxFin : Int) := two_pow_le_maxFin_int (by norm_num)
  have hxv := IsV.of_valid hx
  have hxl := two_pow_mul_abs_le_of_half_ulp hx.two_mul_abs_lo_le
  -- cancel the unit in `rdI_err_gen`
  have cancel : ∀ (T z : Int), 2 ^ 53 * |T * (2 ^ m * (unit : Int)) - z * (unit : Int)|
      ≤ 2 ^ 52 * |2 ^ m * (unit : Int)| + |z * (unit : Int)| → 2 ^ 53 * |T * 2 ^ m - z| ≤ 2 ^ 52 * 2 ^ m + |z| := by
    intro T z h
    have e1 : T * (2 ^ m * (unit : Int)) - z * (unit : Int) = (T * 2 ^ m - z) * (unit : Int) := by ring
    rw [e1, abs_mul_pos_right _ hU, abs_mul_pos_right _ hU, abs_mul_pos_right _ hU, abs_of_pos hP] at h
    have : (2 ^ 53 * |T * 2 ^ m - z|) * (unit : Int) ≤ (2 ^ 52 * 2 ^ m + |z|) * (unit : Int) := by linarith
    exact le_of_mul_le_mul_right this hU
  -- the high quotient
  set T := rdI (x.hi.toInt * (unit : Int)) (2 ^ m * (unit : Int)) with hT
  have eT := cancel T _ (rdI_err_gen (x.hi.toInt * (unit : Int)) hf0)
  have hTP : |T * 2 ^ m - x.hi.toInt| < 2 ^ m := by
    generalize |T * 2 ^ m - x.hi.toInt| = E at *
    generalize |x.hi.toInt| = A at *
    generalize (2 : Int) ^ m = P at *
    omega
  have hTabs : |T| ≤ 2 ^ 52 := by
    have t1 : |T| * 2 ^ m ≤ |T * 2 ^ m - x.hi.toInt| + |x.hi.toInt| := by
      have := abs_add_le (T * 2 ^ m - x.hi.toInt) x.hi.toInt
      rw [show T * 2 ^ m - x.hi.toInt + x.hi.toInt = T * 2 ^ m by ring, abs_mul_pos_right _ hP] at this
      exact this
    by_contra hc
    have hc' : (2 ^ 52 + 1) * 2 ^ m ≤ |T| * 2 ^ m := mul_le_mul_of_nonneg_right (by omega) hP.le
    rw [add_mul, one_mul] at hc'
    generalize |T * 2 ^ m - x.hi.toInt| = E at *
    generalize |x.hi.toInt| = A at *
    generalize |T| * 2 ^ m = TP at *
    generalize (2 : Int) ^ m = P at *
    omega
  have hTr : RepI T := repI_rdI _ hf0
  have hth : IsVal (F64.div x.hi f) T := by
    have := div_spec hx.1 hf.1 hfi (by
      rw [hf.2, ← natAbs_rdI' _ hf0]
      exact natAbs_le_of_abs_le (le_trans hTabs (le_trans (by norm_num) hM)))
    rw [hf.2] at this
    exact this
  have hTPabs : |T * 2 ^ m| ≤ 2 ^ 92 := by
    rw [abs_mul_pos_right _ hP]
    calc |T| * 2 ^ m ≤ 2 ^ 52 * 2 ^ 40 := mul_le_mul hTabs hP40 hP.le (by norm_num)
      _ = 2 ^ 92 := by norm_num
  have hp := new_mul_isV_exact hth hf (q := T * 2 ^ m) (by ring) (repI_mul_pow2_iff.2 hTr)
    (le_trans hTPabs (le_trans (by norm_num) hM))
  have small_rep : ∀ z : Int, |z| < 2 ^ 42 → RepI z ∧ |z| ≤ (maxFin : Int) := by
    intro z hz
    refine ⟨rep_of_lt ?_, le_trans hz.le (le_trans (by norm_num) hM)⟩
    have : (z.natAbs : Int) < 2 ^ 42 := by rw [Int.natCast_natAbs]; exact hz
    have h2 : z.natAbs < 2 ^ 42 := by exact_mod_cast this
    exact lt_trans h2 (by norm_num)
  have hdhs : |x.hi.toInt - T * 2 ^ m| < 2 ^ 42 := by
    rw [abs_sub_comm]; exact lt_of_lt_of_le hTP (le_trans hP40 (by norm_num))
  have hdh : IsVal (F64.sub x.hi (TwoFloat.new_mul (F64.div x.hi f) f).hi) (x.hi.toInt - T * 2 ^ m) :=
    hxv.1.sub_exact hp.1 (small_rep _ hdhs).1 (small_rep _ hdhs).2
  have hdt : IsVal (F64.sub (F64.sub x.hi (TwoFloat.new_mul (F64.div x.hi f) f).hi)
      (TwoFloat.new_mul (F64.div x.hi f) f).lo) (x.hi.toInt - T * 2 ^ m) := by
    have := hdh.sub_exact hp.2 (by rw [sub_zero]; exact (small_rep _ hdhs).1)
      (by rw [sub_zero]; exact (small_rep _ hdhs).2)
    rwa [sub_zero] at this
  have hxls : 2 * |x.lo.toInt| < 2 ^ m := by
    generalize |x.lo.toInt| = A at *
    generalize |x.hi.toInt| = B at *
    generalize (2 : Int) ^ m = P at *
    omega
  have hds : |x.hi.toInt - T * 2 ^ m + x.lo.toInt| < 2 * 2 ^ m := by
    have := abs_add_le (x.hi.toInt - T * 2 ^ m) x.lo.toInt
    rw [abs_sub_comm] at this
    generalize |x.hi.toInt - T * 2 ^ m + x.lo.toInt| = S at *
    generalize |T * 2 ^ m - x.hi.toInt| = E at *
    generalize |x.lo.toInt| = A at *
    generalize (2 : Int) ^ m = P at *
    omega
  have hds' : |x.hi.toInt - T * 2 ^ m + x.lo.toInt| < 2 ^ 42 :=
    lt_of_lt_of_le hds (by
      calc 2 * (2 : Int) ^ m ≤ 2 * 2 ^ 40 := by linarith
        _ ≤ 2 ^ 42 := by norm_num)
  have hd' : IsVal (F64.add (F64.sub (F64.sub x.hi (TwoFloat.new_mul (F64.div x.hi f) f).hi)
      (TwoFloat.new_mul (F64.div x.hi f) f).lo) x.lo) (x.hi.toInt - T * 2 ^ m + x.lo.toInt) :=
    hdt.add_exact hxv.2 (small_rep _ hds').1 (small_rep _ hds').2
  -- the low quotient
  set L := rdI ((x.hi.toInt - T * 2 ^ m + x.lo.toInt) * (unit : Int)) (2 ^ m * (unit : Int)) with hL
  have eL := cancel L _ (rdI_err_gen ((x.hi.toInt - T * 2 ^ m + x.lo.toInt) * (unit : Int)) hf0)
  have hLP : |L * 2 ^ m - (x.hi.toInt - T * 2 ^ m + x.lo.toInt)| < 2 ^ m := by
    generalize |L * 2 ^ m - (x.hi.toInt - T * 2 ^ m + x.lo.toInt)| = E at *
    generalize |x.hi.toInt - T * 2 ^ m + x.lo.toInt| = S at *
    generalize (2 : Int) ^ m = P at *
    omega
  have hLabs : |L| ≤ 2 := by
    have t1 : |L| * 2 ^ m ≤ |L * 2 ^ m - (x.hi.toInt - T * 2 ^ m + x.lo.toInt)|
        + |x.hi.toInt - T * 2 ^ m + x.lo.toInt| := by
      have := abs_add_le (L * 2 ^ m - (x.hi.toInt - T * 2 ^ m + x.lo.toInt)) (x.hi.toInt - T * 2 ^ m + x.lo.toInt)
      rw [show L * 2 ^ m - (x.hi.toInt - T * 2 ^ m + x.lo.toInt) + (x.hi.toInt - T * 2 ^ m + x.lo.toInt)
        = L * 2 ^ m by ring, abs_mul_pos_right _ hP] at this
      exact this
    by_contra hc
    have hc' : 3 * 2 ^ m ≤ |L| * 2 ^ m := mul_le_mul_of_nonneg_right (by omega) hP.le
    generalize |L * 2 ^ m - (x.hi.toInt - T * 2 ^ m + x.lo.toInt)| = E at *
    generalize |x.hi.toInt - T * 2 ^ m + x.lo.toInt| = S at *
    generalize |L| * 2 ^ m = LP at *
    generalize (2 : Int) ^ m = P at *
    omega
  have htl : IsVal (F64.div (F64.add (F64.sub (F64.sub x.hi (TwoFloat.new_mul (F64.div x.hi f) f).hi)
      (TwoFloat.new_mul (F64.div x.hi f) f).lo) x.lo) f) L := by
    have := div_spec hd'.1 hf.1 hfi (by
      rw [hd'.2, hf.2, ← natAbs_rdI' _ hf0]
      exact natAbs_le_of_abs_le (le_trans hLabs (le_trans (by norm_num) hM)))
    rw [hd'.2, hf.2] at this
    exact this
  rw [div_tf_eq]
  have hLn : L.natAbs ≤ 2 := by
    have : (L.natAbs : Int) ≤ 2 := by rw [Int.natCast_natAbs]; exact hLabs
    exact_mod_cast this
  have hlog : Nat.log2 L.natAbs - 52 = 0 := by
    by_cases h0 : L.natAbs = 0
    · rw [h0]; rfl
    · have : Nat.log2 L.natAbs < 52 := (Nat.log2_lt h0).2 (lt_of_le_of_lt hLn (by norm_num))
      omega
  have hf2 := fast_two_sum_words_of_dvd hth.1 htl.1 (div_WF _ _) (div_WF _ _)
    (by rw [htl.2, hlog, pow_zero]; exact one_dvd _)
    (by
      rw [hth.2, htl.2]
      apply rn53_natAbs_le_maxFin
      have := abs_add_le T L
      have e : (2 : Int) ^ 52 + 2 ≤ 2 ^ 100 := by norm_num
      omega)
  rw [hth.2, htl.2] at hf2
  obtain ⟨-, pV, pValid, -⟩ := eft_package hf2.1 hf2.2 (fast_two_sum_WF _ _).1 (fast_two_sum_WF _ _).2
  refine ⟨pValid, ?_⟩
  rw [pV]
  have e : (T + L) * 2 ^ m - x.V = L * 2 ^ m - (x.hi.toInt - T * 2 ^ m + x.lo.toInt) := by
    unfold TwoFloat.V; ring
  rw [e]; exact hLP

/-- **`TwoFloat / f64` by `2^m` (`1 ≤ m ≤ 40`) over `ℝ`, ALL valid operands**: relative `u²(1 + 2u)` plus one unit
`2^-1074` -/
theorem div_pow2_gen {x : TwoFloat} {f : F64} {m : ℕ} (hx : VW x)
    (hf : IsVal f (2 ^ m * (unit : Int))) (hm1 : 1 ≤ m) (hm2 : m ≤ 40) :
    VW (arithmetic.impl_Div_f64_for_TwoFloat.div x f) ∧
    |rv (arithmetic.impl_Div_f64_for_TwoFloat.div x f) - rv x / 2 ^ m|
      ≤ 1001 / 1000 / 2 ^ 106 * |rv x / 2 ^ m| + 1 / 2 ^ 1074 := by
  by_cases hs : |x.hi.toInt| < 2 ^ 52 * 2 ^ m
  · show VW (arithmetic.impl_Div_rf64_for_rTwoFloat.div x f) ∧
      |rv (arithmetic.impl_Div_rf64_for_rTwoFloat.div x f) - rv x / 2 ^ m|
        ≤ 1001 / 1000 / 2 ^ 106 * |rv x / 2 ^ m| + 1 / 2 ^ 1074
    obtain ⟨hV, hb⟩ := div_pow2_tiny_int hx.1 hx.2 hf hm1 hm2 hs
    refine ⟨⟨hV, div_tf_WF x f⟩, ?_⟩
    generalize arithmetic.impl_Div_rf64_for_rTwoFloat.div x f = R at *
    have hr : |(R.V : ℝ) * 2 ^ m - (x.V : ℝ)| < 2 ^ m := by exact_mod_cast hb
    have hP : (0 : ℝ) < 2 ^ m := by positivity
    have h1 : |rv R - rv x / 2 ^ m| ≤ 1 / 2 ^ 1074 := by
      unfold rv
      have e : (R.V : ℝ) / 2 ^ 1074 - (x.V : ℝ) / 2 ^ 1074 / 2 ^ m
          = ((R.V : ℝ) * 2 ^ m - (x.V : ℝ)) / (2 ^ 1074 * 2 ^ m) := by field_simp
      rw [e, abs_div, abs_of_pos (by positivity : (0 : ℝ) < 2 ^ 1074 * 2 ^ m), div_le_div_iff₀ (by positivity)
        (by positivity)]
      nlinarith [abs_nonneg ((R.V : ℝ) * 2 ^ m - (x.V : ℝ))]
    have h2 : (0 : ℝ) ≤ 1001 / 1000 / 2 ^ 106 * |rv x / 2 ^ m| := by positivity
    linarith
  · have hl : 2 ^ 52 * 2 ^ m ≤ x.hi.toInt.natAbs := by
      have h := not_lt.1 hs
      rw [← Int.natCast_natAbs] at h
      exact_mod_cast h
    obtain ⟨hV, hb⟩ := div_pow2_rv hx hf hm1 (dvd_hi_of_large hx.2 hl)
    refine ⟨hV, le_trans hb ?_⟩
    have : (1 : ℝ) / 2 ^ 1075 ≤ 1 / 2 ^ 1074 := by
      apply one_div_le_one_div_of_le (by positivity)
      exact pow_le_pow_right₀ (by norm_num) (by norm_num)
    linarith

end divpow

/-! ## `exp2`: real-number cores -/

theorem log_two_range : 693 / 1000 ≤ Real.log 2 ∧ Real.log 2 ≤ 6932 / 10000 := by
  obtain ⟨h1, h2⟩ := log_two_encl
  have a : (693 / 1000 : ℚ) ≤ ln2Lo := by decide +kernel
  have b : ln2Hi ≤ (6932 / 10000 : ℚ) := by decide +kernel
  have a' := (Rat.cast_le (K := ℝ)).2 a
  have b' := (Rat.cast_le (K := ℝ)).2 b
  push_cast at a' b'
  constructor <;> linarith

/-- the reduced argument `r = ((x − k)·LN_2)/512` against `ρ = δ·log 2/512` -/
theorem reduce_real {δ s lam m r : ℝ} (hδ : |δ| ≤ 501 / 1000)
    (hs : |s - δ| ≤ 1 / 2 ^ 105 * |δ|)
    (hl : |Real.log 2 - lam| ≤ |Real.log 2| / 2 ^ 107)
    (hm : |m - s * lam| ≤ 7 / 2 ^ 106 * |s * lam| + 1 / 2 ^ 950)
    (hr : |r - m / 2 ^ 9| ≤ 1001 / 1000 / 2 ^ 106 * |m / 2 ^ 9| + 1 / 2 ^ 1074) :
    |r - δ * Real.log 2 / 512| ≤ 1 / 100 / 2 ^ 106 ∧ |r| ≤ 1 / 1024 := by
  obtain ⟨l1, l2⟩ := log_two_range
  have hl0 : 0 < Real.log 2 := by linarith
  rw [abs_of_pos hl0, abs_sub_comm] at hl
  have hlam : |lam| ≤ 6933 / 10000 := by
    have := abs_sub_abs_le_abs_sub lam (Real.log 2)
    rw [abs_of_pos hl0] at this
    have : Real.log 2 / 2 ^ 107 ≤ 1 / 10000 := by
      rw [div_le_iff₀ (by positivity)]; norm_num; linarith
    linarith
  have hsabs : |s| ≤ 502 / 1000 := by
    have := abs_sub_abs_le_abs_sub s δ
    have h2 : (1 : ℝ) / 2 ^ 105 * |δ| ≤ 1 / 2 ^ 105 * (501 / 1000) := mul_le_mul_of_nonneg_left hδ (by positivity)
    have e : (1 : ℝ) / 2 ^ 105 * (501 / 1000) ≤ 1 / 1000 := by norm_num
    linarith
  have hsl : |s * lam| ≤ 35 / 100 := by
    rw [abs_mul]
    calc |s| * |lam| ≤ 502 / 1000 * (6933 / 10000) := mul_le_mul hsabs hlam (abs_nonneg _) (by norm_num)
      _ ≤ 35 / 100 := by norm_num
  have h1 : |s * lam - δ * Real.log 2| ≤ 9 / 10 / 2 ^ 106 := by
    have e : s * lam - δ * Real.log 2 = (s - δ) * lam + δ * (lam - Real.log 2) := by ring
    rw [e]
    have t1 : |(s - δ) * lam| ≤ 1 / 2 ^ 105 * (501 / 1000) * (6933 / 10000) := by
      rw [abs_mul]
      exact mul_le_mul (le_trans hs (mul_le_mul_of_nonneg_left hδ (by positivity))) hlam (abs_nonneg _)
        (by positivity)
    have t2 : |δ * (lam - Real.log 2)| ≤ 501 / 1000 * (6932 / 10000 / 2 ^ 107) := by
      rw [abs_mul]
      refine mul_le_mul hδ (le_trans hl ?_) (abs_nonneg _) (by norm_num)
      exact div_le_div_of_nonneg_right l2 (by positivity)
    have := abs_add_le ((s - δ) * lam) (δ * (lam - Real.log 2))
    have e2 : (1 : ℝ) / 2 ^ 105 * (501 / 1000) * (6933 / 10000) + 501 / 1000 * (6932 / 10000 / 2 ^ 107)
        ≤ 9 / 10 / 2 ^ 106 := by norm_num
    linarith
  have h2 : |m - δ * Real.log 2| ≤ 336 / 100 / 2 ^ 106 := by
    have := abs_add_le (m - s * lam) (s * lam - δ * Real.log 2)
    rw [show m - s * lam + (s * lam - δ * Real.log 2) = m - δ * Real.log 2 by ring] at this
    have h3 := mul_le_mul_of_nonneg_left hsl (by positivity : (0 : ℝ) ≤ 7 / 2 ^ 106)
    have e : (7 : ℝ) / 2 ^ 106 * (35 / 100) + 1 / 2 ^ 950 + 9 / 10 / 2 ^ 106 ≤ 336 / 100 / 2 ^ 106 := by norm_num
    linarith
  have hdl : |δ * Real.log 2| ≤ 3473 / 10000 := by
    rw [abs_mul, abs_of_pos hl0]
    calc |δ| * Real.log 2 ≤ 501 / 1000 * (6932 / 10000) := mul_le_mul hδ l2 hl0.le (by norm_num)
      _ ≤ 3473 / 10000 := by norm_num
  have hmabs : |m| ≤ 3474 / 10000 := by
    have := abs_sub_abs_le_abs_sub m (δ * Real.log 2)
    have e : (336 : ℝ) / 100 / 2 ^ 106 + 3473 / 10000 ≤ 3474 / 10000 := by norm_num
    linarith
  have hm9 : |m / 2 ^ 9| ≤ 3474 / 10000 / 512 := by
    rw [abs_div, abs_of_pos (by positivity : (0 : ℝ) < 2 ^ 9)]
    have : (2 : ℝ) ^ 9 = 512 := by norm_num
    rw [this]
    exact div_le_div_of_nonneg_right hmabs (by norm_num)
  have h4 : |r - m / 2 ^ 9| ≤ 1 / 1000 / 2 ^ 106 := by
    have h3 := mul_le_mul_of_nonneg_left hm9 (by positivity : (0 : ℝ) ≤ 1001 / 1000 / 2 ^ 106)
    have e : (1001 : ℝ) / 1000 / 2 ^ 106 * (3474 / 10000 / 512) + 1 / 2 ^ 1074 ≤ 1 / 1000 / 2 ^ 106 := by norm_num
    linarith
  have h5 : |m / 2 ^ 9 - δ * Real.log 2 / 512| ≤ 336 / 100 / 2 ^ 106 / 512 := by
    have e : m / 2 ^ 9 - δ * Real.log 2 / 512 = (m - δ * Real.log 2) / 512 := by norm_num; ring
    rw [e, abs_div, abs_of_pos (by norm_num : (0 : ℝ) < 512)]
    exact div_le_div_of_nonneg_right h2 (by norm_num)
  have h6 : |r - δ * Real.log 2 / 512| ≤ 1 / 100 / 2 ^ 106 := by
    have := abs_add_le (r - m / 2 ^ 9) (m / 2 ^ 9 - δ * Real.log 2 / 512)
    rw [show r - m / 2 ^ 9 + (m / 2 ^ 9 - δ * Real.log 2 / 512) = r - δ * Real.log 2 / 512 by ring] at this
    have e : (1 : ℝ) / 1000 / 2 ^ 106 + 336 / 100 / 2 ^ 106 / 512 ≤ 1 / 100 / 2 ^ 106 := by norm_num
    linarith
  refine ⟨h6, ?_⟩
  have := abs_sub_abs_le_abs_sub r (δ * Real.log 2 / 512)
  have h7 : |δ * Real.log 2 / 512| ≤ 3473 / 10000 / 512 := by
    rw [abs_div, abs_of_pos (by norm_num : (0 : ℝ) < 512)]
    exact div_le_div_of_nonneg_right hdl (by norm_num)
  have e : (1 : ℝ) / 100 / 2 ^ 106 + 3473 / 10000 / 512 ≤ 1 / 1024 := by norm_num
  linarith

/-- the last two Horner steps `a₁ = t·a₂ + 1`, `a₀ = t·a₁ + 1` (coefficients exactly `1`) -/
theorem horner_tail_real {t a2 A2 m1 a1 m0 a0 : ℝ} (ht : |t| ≤ 1 / 1024)
    (ha2 : |a2 - A2| ≤ 4 / 2 ^ 106) (hA1 : 1 / 4 ≤ A2) (hA2 : A2 ≤ 1)
    (hm1 : |m1 - t * a2| ≤ 7 / 2 ^ 106 * |t * a2| + 1 / 2 ^ 950)
    (hn1 : |a1 - (m1 + 1)| ≤ cA * |m1 + 1|)
    (hm0 : |m0 - t * a1| ≤ 7 / 2 ^ 106 * |t * a1| + 1 / 2 ^ 950)
    (hn0 : |a0 - (m0 + 1)| ≤ cA * |m0 + 1|) :
    |a0 - (t * (t * A2 + 1) + 1)| ≤ 303 / 100 / 2 ^ 106 := by
  have ha2abs : |a2| ≤ 101 / 100 := by
    have := abs_sub_abs_le_abs_sub a2 A2
    rw [abs_of_nonneg (by linarith : (0 : ℝ) ≤ A2)] at this
    have e : (4 : ℝ) / 2 ^ 106 ≤ 1 / 100 := by norm_num
    linarith
  have hta2 : |t * a2| ≤ 1 / 1024 * (101 / 100) := by
    rw [abs_mul]; exact mul_le_mul ht ha2abs (abs_nonneg _) (by norm_num)
  have d1 : |m1 - t * A2| ≤ 2 / 100 / 2 ^ 106 := by
    have h1 := abs_add_le (m1 - t * a2) (t * a2 - t * A2)
    rw [show m1 - t * a2 + (t * a2 - t * A2) = m1 - t * A2 by ring] at h1
    have h2 : |t * a2 - t * A2| ≤ 1 / 1024 * (4 / 2 ^ 106) := by
      rw [← mul_sub, abs_mul]; exact mul_le_mul ht ha2 (abs_nonneg _) (by norm_num)
    have h3 := mul_le_mul_of_nonneg_left hta2 (by positivity : (0 : ℝ) ≤ 7 / 2 ^ 106)
    have e : (7 : ℝ) / 2 ^ 106 * (1 / 1024 * (101 / 100)) + 1 / 2 ^ 950 + 1 / 1024 * (4 / 2 ^ 106)
        ≤ 2 / 100 / 2 ^ 106 := by norm_num
    linarith
  have htA2 : |t * A2| ≤ 1 / 1024 := by
    rw [abs_mul, abs_of_nonneg (by linarith : (0 : ℝ) ≤ A2)]
    calc |t| * A2 ≤ 1 / 1024 * 1 := mul_le_mul ht hA2 (by linarith) (by norm_num)
      _ = 1 / 1024 := by ring
  have hm1abs : |m1| ≤ 1 / 1000 := by
    have := abs_sub_abs_le_abs_sub m1 (t * A2)
    have e : (2 : ℝ) / 100 / 2 ^ 106 + 1 / 1024 ≤ 1 / 1000 := by norm_num
    linarith
  have hm11 : |m1 + 1| ≤ 1001 / 1000 := by
    have := abs_add_le m1 1; rw [abs_one] at this; linarith
  have d2 : |a1 - (t * A2 + 1)| ≤ 3035 / 1000 / 2 ^ 106 := by
    have h1 := abs_add_le (a1 - (m1 + 1)) (m1 - t * A2)
    rw [show a1 - (m1 + 1) + (m1 - t * A2) = a1 - (t * A2 + 1) by ring] at h1
    have h3 : cA * |m1 + 1| ≤ 301 / 100 / 2 ^ 106 * (1001 / 1000) :=
      mul_le_mul cA_le' hm11 (abs_nonneg _) (by positivity)
    have e : (301 : ℝ) / 100 / 2 ^ 106 * (1001 / 1000) + 2 / 100 / 2 ^ 106 ≤ 3035 / 1000 / 2 ^ 106 := by norm_num
    linarith
  have ha1abs : |a1| ≤ 1002 / 1000 := by
    have h1 := abs_sub_abs_le_abs_sub a1 (t * A2 + 1)
    have h2 := abs_add_le (t * A2) 1
    rw [abs_one] at h2
    have e : (3035 : ℝ) / 1000 / 2 ^ 106 + 1 / 1024 + 1 ≤ 1002 / 1000 := by norm_num
    linarith
  have hta1 : |t * a1| ≤ 1 / 1024 * (1002 / 1000) := by
    rw [abs_mul]; exact mul_le_mul ht ha1abs (abs_nonneg _) (by norm_num)
  have d3 : |m0 - t * (t * A2 + 1)| ≤ 1 / 100 / 2 ^ 106 := by
    have h1 := abs_add_le (m0 - t * a1) (t * a1 - t * (t * A2 + 1))
    rw [show m0 - t * a1 + (t * a1 - t * (t * A2 + 1)) = m0 - t * (t * A2 + 1) by ring] at h1
    have h2 : |t * a1 - t * (t * A2 + 1)| ≤ 1 / 1024 * (3035 / 1000 / 2 ^ 106) := by
      rw [← mul_sub, abs_mul]; exact mul_le_mul ht d2 (abs_nonneg _) (by norm_num)
    have h3 := mul_le_mul_of_nonneg_left hta1 (by positivity : (0 : ℝ) ≤ 7 / 2 ^ 106)
    have e : (7 : ℝ) / 2 ^ 106 * (1 / 1024 * (1002 / 1000)) + 1 / 2 ^ 950 + 1 / 1024 * (3035 / 1000 / 2 ^ 106)
        ≤ 1 / 100 / 2 ^ 106 := by norm_num
    linarith
  have hm0abs : |m0| ≤ 1 / 1000 := by
    have h1 := abs_sub_abs_le_abs_sub m0 (t * (t * A2 + 1))
    have h2 : |t * (t * A2 + 1)| ≤ 1 / 1024 * (1 / 1024 + 1) := by
      rw [abs_mul]
      refine mul_le_mul ht ?_ (abs_nonneg _) (by norm_num)
      have := abs_add_le (t * A2) 1
      rw [abs_one] at this; linarith
    have e : (1 : ℝ) / 100 / 2 ^ 106 + 1 / 1024 * (1 / 1024 + 1) ≤ 1 / 1000 := by norm_num
    linarith
  have hm01 : |m0 + 1| ≤ 1001 / 1000 := by
    have := abs_add_le m0 1; rw [abs_one] at this; linarith
  have h1 := abs_add_le (a0 - (m0 + 1)) (m0 - t * (t * A2 + 1))
  rw [show a0 - (m0 + 1) + (m0 - t * (t * A2 + 1)) = a0 - (t * (t * A2 + 1) + 1) by ring] at h1
  have h3 : cA * |m0 + 1| ≤ 301 / 100 / 2 ^ 106 * (1001 / 1000) :=
    mul_le_mul cA_le' hm01 (abs_nonneg _) (by positivity)
  have e : (301 : ℝ) / 100 / 2 ^ 106 * (1001 / 1000) + 1 / 100 / 2 ^ 106 ≤ 303 / 100 / 2 ^ 106 := by norm_num
  linarith

/-- Taylor truncation at 12 terms, `|t| ≤ 1/1024` -/
theorem exp_taylor12 {t : ℝ} (ht : |t| ≤ 1 / 1024) :
    |Real.exp t - ∑ k ∈ Finset.range 12, t ^ k / (k.factorial : ℝ)| ≤ 1 / 2 ^ 140 := by
  have hb := Real.exp_bound (le_trans ht (by norm_num)) (n := 12) (by norm_num)
  refine le_trans hb ?_
  have h12 : |t| ^ 12 ≤ (1 / 1024) ^ 12 := pow_le_pow_left₀ (abs_nonneg _) ht 12
  have e12 : ((12 : ℕ).factorial : ℝ) = 479001600 := by norm_num [Nat.factorial]
  have es : ((Nat.succ 12 : ℕ) : ℝ) = 13 := by norm_num
  rw [e12, es]
  calc |t| ^ 12 * (13 / (479001600 * ((12 : ℕ) : ℝ))) ≤ (1 / 1024) ^ 12 * (13 / (479001600 * ((12 : ℕ) : ℝ))) :=
        mul_le_mul_of_nonneg_right h12 (by positivity)
    _ ≤ 1 / 2 ^ 140 := by norm_num

/-- one squaring: relative error `ε ↦ 2ε + 7.01u²` -/
theorem sq_step_real {p p' E ε : ℝ} (hE : 0 < E) (hp : |p - E| ≤ ε * E) (hε0 : 0 ≤ ε) (hε : ε ≤ 1 / 2 ^ 92)
    (hp' : |p' - p * p| ≤ 7 / 2 ^ 106 * |p * p|) :
    |p' - E * E| ≤ (2 * ε + 701 / 100 / 2 ^ 106) * (E * E) := by
  refine prod_rel_gen hE hE hp hp hp' hε0 (by positivity) ?_
  have h1 : ε * ε ≤ 1 / 2 ^ 92 * ε := mul_le_mul_of_nonneg_right hε hε0
  have h2 : ε * ε ≤ 1 / 2 ^ 92 * (1 / 2 ^ 92) := mul_le_mul hε hε hε0 (by positivity)
  have e : (7 : ℝ) / 2 ^ 106 * (1 + (ε + ε + ε * ε)) = 7 / 2 ^ 106 + 7 / 2 ^ 106 * (ε + ε + ε * ε) := by ring
  have h3 : (7 : ℝ) / 2 ^ 106 * (ε + ε + ε * ε) ≤ 7 / 2 ^ 106 * (1 / 2 ^ 92 + 1 / 2 ^ 92 + 1 / 2 ^ 92 * (1 / 2 ^ 92)) :=
    mul_le_mul_of_nonneg_left (by linarith) (by positivity)
  have e2 : (1 : ℝ) / 2 ^ 92 * (1 / 2 ^ 92)
      + 7 / 2 ^ 106 * (1 / 2 ^ 92 + 1 / 2 ^ 92 + 1 / 2 ^ 92 * (1 / 2 ^ 92)) ≤ 1 / 100 / 2 ^ 106 := by norm_num
  linarith

/-! ## `exp2`: the polynomial -/

section poly
open F64 TwoFloat

/-- the Horner iterates of `polynomial!(r, FRAC_FACT[0..12])` -/
def hp2 (r : TwoFloat) : ℕ → TwoFloat
  | 0 => explog.FRAC_FACT.getD 11 default
  | j + 1 => arithmetic.impl_Add_rTwoFloat_for_TwoFloat.add
      (arithmetic.impl_Mul_TwoFloat_for_TwoFloat.mul r (hp2 r j)) (explog.FRAC_FACT.getD (10 - j) default)

theorem polyFold_eq2 (r : TwoFloat) :
    polyFold (List.take 12 (List.drop 0 explog.FRAC_FACT))
      (fun a n => arithmetic.impl_Add_rTwoFloat_for_TwoFloat.add
        (arithmetic.impl_Mul_TwoFloat_for_TwoFloat.mul r a) n) = hp2 r 11 := rfl

/-- the exact Horner iterates -/
noncomputable def PR2 (t : ℝ) : ℕ → ℝ
  | 0 => 1 / ((11 : ℕ).factorial : ℝ)
  | j + 1 => t * PR2 t j + 1 / (((10 - j : ℕ)).factorial : ℝ)

theorem fact_step2 (j : ℕ) (hj : j ≤ 8) :
    (1 : ℝ) / (((11 - j : ℕ)).factorial : ℝ) ≤ 1 / (((10 - j : ℕ)).factorial : ℝ) / 2 ∧
    (1 : ℝ) / (((10 - j : ℕ)).factorial : ℝ) ≤ 1 / 2 ∧ (0 : ℝ) < 1 / (((11 - j : ℕ)).factorial : ℝ) := by
  have e : 11 - j = (10 - j) + 1 := by omega
  have h2 : 2 ≤ 10 - j := by omega
  have hf : (2 : ℝ) ≤ (((10 - j : ℕ)).factorial : ℝ) := by
    have : (10 - j : ℕ) ≤ (10 - j).factorial := Nat.self_le_factorial _
    exact_mod_cast le_trans h2 this
  have hpos : (0 : ℝ) < (((10 - j : ℕ)).factorial : ℝ) := by linarith
  refine ⟨?_, ?_, by positivity⟩
  · rw [e, Nat.factorial_succ]
    push_cast
    have h3 : (2 : ℝ) ≤ ((10 - j : ℕ) : ℝ) + 1 := by
      have : (2 : ℝ) ≤ ((10 - j : ℕ) : ℝ) := by exact_mod_cast h2
      linarith
    rw [div_div, div_le_div_iff₀ (by positivity) (by positivity)]
    nlinarith
  · rw [div_le_div_iff₀ hpos (by norm_num)]; linarith

/-- **the Horner loop of `exp2`** down to the coefficient `1/2!`: every iterate is a valid pair within `4u²`
(absolute) of the exact Horner value -/
theorem horner_inv2 {y : TwoFloat} (hy : VW y) (ht : |rv y| ≤ 1 / 128) (j : ℕ) (hj : j ≤ 9) :
    VW (hp2 y j) ∧ |rv (hp2 y j) - PR2 (rv y) j| ≤ 4 / 2 ^ 106 ∧
      1 / (((11 - j : ℕ)).factorial : ℝ) / 2 ≤ PR2 (rv y) j ∧ PR2 (rv y) j ≤ 2 * (1 / (((11 - j : ℕ)).factorial : ℝ)) := by
  induction j with
  | zero =>
    obtain ⟨h1, h2, h3⟩ := FRAC_FACT_correct 11 (by norm_num)
    have hp0 : (0 : ℝ) < 1 / ((11 : ℕ).factorial : ℝ) := by positivity
    refine ⟨⟨h1, h2⟩, ?_, ?_, ?_⟩
    · show |rv (explog.FRAC_FACT.getD 11 default) - 1 / ((11 : ℕ).factorial : ℝ)| ≤ _
      refine le_trans h3 ?_
      have : (1 : ℝ) / ((11 : ℕ).factorial : ℝ) ≤ 1 := by
        rw [div_le_one (by positivity)]; exact_mod_cast Nat.one_le_iff_ne_zero.2 (Nat.factorial_ne_zero 11)
      calc 1 / ((11 : ℕ).factorial : ℝ) / 2 ^ 107 ≤ 1 / 2 ^ 107 :=
            div_le_div_of_nonneg_right this (by positivity)
        _ ≤ 4 / 2 ^ 106 := by norm_num
    · show _ ≤ 1 / ((11 : ℕ).factorial : ℝ); linarith
    · show 1 / ((11 : ℕ).factorial : ℝ) ≤ _; linarith
  | succ j ih =>
    obtain ⟨hvw, ha, hA1, hA2⟩ := ih (by omega)
    obtain ⟨f1, f2, f3⟩ := fact_step2 j (by omega)
    obtain ⟨c1, c2, c3⟩ := FRAC_FACT_correct (10 - j) (by omega)
    have habsA : |PR2 (rv y) j| ≤ 1 := by
      rw [abs_of_nonneg (by linarith)]; linarith
    have habsa : |rv (hp2 y j)| ≤ 2 := by
      have := abs_sub_abs_le_abs_sub (rv (hp2 y j)) (PR2 (rv y) j)
      have e : (4 : ℝ) / 2 ^ 106 ≤ 1 := by norm_num
      linarith
    have hprod : |rv y * rv (hp2 y j)| ≤ 2 ^ 1019 := by
      rw [abs_mul]
      calc |rv y| * |rv (hp2 y j)| ≤ 1 / 128 * 2 := mul_le_mul ht habsa (abs_nonneg _) (by norm_num)
        _ ≤ 2 ^ 1019 := by norm_num
    obtain ⟨mvw, hm⟩ := mul_rv hy hvw hprod
    have hmabs : |rv (arithmetic.impl_Mul_TwoFloat_for_TwoFloat.mul y (hp2 y j))| ≤ 2 ^ 1000 := by
      have := abs_sub_abs_le_abs_sub (rv (arithmetic.impl_Mul_TwoFloat_for_TwoFloat.mul y (hp2 y j)))
        (rv y * rv (hp2 y j))
      have hp2' : |rv y * rv (hp2 y j)| ≤ 1 / 64 := by
        rw [abs_mul]
        calc |rv y| * |rv (hp2 y j)| ≤ 1 / 128 * 2 := mul_le_mul ht habsa (abs_nonneg _) (by norm_num)
          _ = 1 / 64 := by norm_num
      have := mul_le_mul_of_nonneg_left hp2' (by positivity : (0 : ℝ) ≤ 7 / 2 ^ 106)
      have e : (7 : ℝ) / 2 ^ 106 * (1 / 64) + 1 / 2 ^ 950 + 1 / 64 ≤ 2 ^ 1000 := by norm_num
      linarith
    have hCabs : |rv (explog.FRAC_FACT.getD (10 - j) default)| ≤ 2 ^ 1000 := by
      have := abs_sub_abs_le_abs_sub (rv (explog.FRAC_FACT.getD (10 - j) default))
        (1 / (((10 - j : ℕ)).factorial : ℝ))
      have hpos : (0 : ℝ) < 1 / (((10 - j : ℕ)).factorial : ℝ) := by positivity
      rw [abs_of_pos hpos] at this
      have : 1 / (((10 - j : ℕ)).factorial : ℝ) / 2 ^ 107 ≤ 1 := by
        refine le_trans (div_le_div_of_nonneg_right f2 (by positivity)) (by norm_num)
      have e : (1 : ℝ) / 2 + 1 ≤ 2 ^ 1000 := by norm_num
      linarith
    obtain ⟨nvw, hn⟩ := add_rv mvw ⟨c1, c2⟩ hmabs hCabs
    have key := horner_step_real ht hA1 hA2 f3 f1 f2 ha hm c3 hn
    refine ⟨nvw, ?_, ?_, ?_⟩
    · exact key.1
    · have e : 11 - (j + 1) = 10 - j := by omega
      rw [e]; exact key.2.1
    · have e : 11 - (j + 1) = 10 - j := by omega
      rw [e]; exact key.2.2

theorem PR2_sum (t : ℝ) :
    t * (t * PR2 t 9 + 1) + 1 = ∑ k ∈ Finset.range 12, t ^ k / (k.factorial : ℝ) := by
  simp only [PR2, Finset.sum_range_succ, Finset.sum_range_zero]
  norm_num [Nat.factorial]
  ring

theorem FF_one (i : ℕ) (hi : i < 2) : VW (explog.FRAC_FACT.getD i default) ∧ rv (explog.FRAC_FACT.getD i default) = 1 := by
  have h : ∀ i < 2, (explog.FRAC_FACT.getD i default).Valid ∧ (explog.FRAC_FACT.getD i default).WF ∧
      (explog.FRAC_FACT.getD i default).V = 2 ^ 1074 := by decide +kernel
  obtain ⟨h1, h2, h3⟩ := h i hi
  refine ⟨⟨h1, h2⟩, ?_⟩
  unfold rv; rw [h3]
  simp only [Int.cast_pow, Int.cast_ofNat]
  exact div_self (by positivity : ((2 : ℝ) ^ 1074) ≠ 0)

/-- **the polynomial of `exp2`**: for a valid `r` with `|r| ≤ 1/1024` the Horner value is a valid pair within
`3.04u²` (absolute) of `e^r` -/
theorem horner2_bound {y : TwoFloat} (hy : VW y) (ht : |rv y| ≤ 1 / 1024) :
    VW (hp2 y 11) ∧ |rv (hp2 y 11) - Real.exp (rv y)| ≤ 304 / 100 / 2 ^ 106 := by
  have ht' : |rv y| ≤ 1 / 128 := le_trans ht (by norm_num)
  obtain ⟨pvw, hpe, hP1, hP2⟩ := horner_inv2 hy ht' 9 (le_refl _)
  have e2 : ((11 - 9 : ℕ).factorial : ℝ) = 2 := by norm_num [Nat.factorial]
  rw [e2] at hP1 hP2
  have hP1' : (1 : ℝ) / 4 ≤ PR2 (rv y) 9 := by linarith
  have hP2' : PR2 (rv y) 9 ≤ 1 := by linarith
  obtain ⟨o1, ov1⟩ := FF_one 1 (by norm_num)
  obtain ⟨o0, ov0⟩ := FF_one 0 (by norm_num)
  have small : ∀ z : TwoFloat, |rv z| ≤ 2 → |rv y * rv z| ≤ 1 / 512 := by
    intro z hz
    rw [abs_mul]
    calc |rv y| * |rv z| ≤ 1 / 1024 * 2 := mul_le_mul ht hz (abs_nonneg _) (by norm_num)
      _ = 1 / 512 := by norm_num
  have mulb : ∀ z : TwoFloat, VW z → |rv z| ≤ 2 →
      VW (arithmetic.impl_Mul_TwoFloat_for_TwoFloat.mul y z) ∧
      |rv (arithmetic.impl_Mul_TwoFloat_for_TwoFloat.mul y z) - rv y * rv z| ≤ 7 / 2 ^ 106 * |rv y * rv z| + 1 / 2 ^ 950 ∧
      |rv (arithmetic.impl_Mul_TwoFloat_for_TwoFloat.mul y z)| ≤ 1 / 256 := by
    intro z hz hzb
    have hs := small z hzb
    obtain ⟨v, hm⟩ := mul_rv hy hz (le_trans hs (by norm_num))
    refine ⟨v, hm, ?_⟩
    have := abs_sub_abs_le_abs_sub (rv (arithmetic.impl_Mul_TwoFloat_for_TwoFloat.mul y z)) (rv y * rv z)
    have h3 := mul_le_mul_of_nonneg_left hs (by positivity : (0 : ℝ) ≤ 7 / 2 ^ 106)
    have e : (7 : ℝ) / 2 ^ 106 * (1 / 512) + 1 / 2 ^ 950 + 1 / 512 ≤ 1 / 256 := by norm_num
    linarith
  have hpabs : |rv (hp2 y 9)| ≤ 2 := by
    have := abs_sub_abs_le_abs_sub (rv (hp2 y 9)) (PR2 (rv y) 9)
    rw [abs_of_nonneg (by linarith : (0 : ℝ) ≤ PR2 (rv y) 9)] at this
    have e : (4 : ℝ) / 2 ^ 106 ≤ 1 := by norm_num
    linarith
  -- step 10
  obtain ⟨m1vw, hm1, m1b⟩ := mulb _ pvw hpabs
  obtain ⟨a1vw, hn1⟩ := add_rv m1vw o1 (le_trans m1b (by norm_num)) (by rw [ov1]; norm_num)
  rw [ov1] at hn1
  have ha1abs : |rv (hp2 y 10)| ≤ 2 := by
    show |rv (arithmetic.impl_Add_TwoFloat_for_TwoFloat.add
      (arithmetic.impl_Mul_TwoFloat_for_TwoFloat.mul y (hp2 y 9)) (explog.FRAC_FACT.getD 1 default))| ≤ 2
    have h1 := abs_sub_abs_le_abs_sub (rv (arithmetic.impl_Add_TwoFloat_for_TwoFloat.add
      (arithmetic.impl_Mul_TwoFloat_for_TwoFloat.mul y (hp2 y 9)) (explog.FRAC_FACT.getD 1 default)))
      (rv (arithmetic.impl_Mul_TwoFloat_for_TwoFloat.mul y (hp2 y 9)) + 1)
    have h2 := abs_add_le (rv (arithmetic.impl_Mul_TwoFloat_for_TwoFloat.mul y (hp2 y 9))) 1
    rw [abs_one] at h2
    have h3 : |rv (arithmetic.impl_Mul_TwoFloat_for_TwoFloat.mul y (hp2 y 9)) + 1| ≤ 257 / 256 := by linarith
    have h4 : cA * |rv (arithmetic.impl_Mul_TwoFloat_for_TwoFloat.mul y (hp2 y 9)) + 1| ≤ 4 / 2 ^ 106 * (257 / 256) :=
      mul_le_mul cA_le h3 (abs_nonneg _) (by positivity)
    have e : (4 : ℝ) / 2 ^ 106 * (257 / 256) + 257 / 256 ≤ 2 := by norm_num
    linarith
  have a1vw' : VW (hp2 y 10) := a1vw
  -- step 11
  obtain ⟨m0vw, hm0, m0b⟩ := mulb _ a1vw' ha1abs
  obtain ⟨a0vw, hn0⟩ := add_rv m0vw o0 (le_trans m0b (by norm_num)) (by rw [ov0]; norm_num)
  rw [ov0] at hn0
  refine ⟨a0vw, ?_⟩
  have core := horner_tail_real (a1 := rv (hp2 y 10)) (a0 := rv (hp2 y 11)) ht hpe hP1' hP2' hm1 hn1 hm0 hn0
  rw [PR2_sum] at core
  have tay := exp_taylor12 ht
  have h1 := abs_add_le (rv (hp2 y 11) - ∑ k ∈ Finset.range 12, rv y ^ k / (k.factorial : ℝ))
    (-(Real.exp (rv y) - ∑ k ∈ Finset.range 12, rv y ^ k / (k.factorial : ℝ)))
  rw [abs_neg, show rv (hp2 y 11) - ∑ k ∈ Finset.range 12, rv y ^ k / (k.factorial : ℝ)
    + -(Real.exp (rv y) - ∑ k ∈ Finset.range 12, rv y ^ k / (k.factorial : ℝ)) = rv (hp2 y 11) - Real.exp (rv y) by ring]
    at h1
  have e : (303 : ℝ) / 100 / 2 ^ 106 + 1 / 2 ^ 140 ≤ 304 / 100 / 2 ^ 106 := by norm_num
  linarith

end poly

/-! ## `exp2`: the nine squarings -/

section squarings
open F64 TwoFloat

/-- `i` squarings -/
def sqn : ℕ → TwoFloat → TwoFloat
  | 0, p => p
  | i + 1, p => arithmetic.impl_Mul_TwoFloat_for_TwoFloat.mul (sqn i p) (sqn i p)

theorem sq9_eq (p : TwoFloat) : C14p.sq9 p = sqn 9 p := rfl

/-- the relative error after `i` squarings: `ε₀ = 4u²`, `ε ↦ 2ε + 7.01u²` -/
noncomputable def eb : ℕ → ℝ
  | 0 => 4 / 2 ^ 106
  | i + 1 => 2 * eb i + 701 / 100 / 2 ^ 106

theorem eb_nonneg (i : ℕ) : 0 ≤ eb i := by
  induction i with
  | zero => unfold eb; positivity
  | succ i ih => unfold eb; positivity

theorem eb_mono (i : ℕ) : eb i ≤ eb (i + 1) := by
  have := eb_nonneg i
  show eb i ≤ 2 * eb i + 701 / 100 / 2 ^ 106
  have : (0 : ℝ) ≤ 701 / 100 / 2 ^ 106 := by positivity
  linarith

theorem eb_nine : eb 9 ≤ 5631 / 2 ^ 106 := by
  simp only [eb]
  norm_num

theorem eb_le (i : ℕ) (hi : i ≤ 9) : eb i ≤ 5631 / 2 ^ 106 := by
  have mono : ∀ a b : ℕ, a ≤ b → eb a ≤ eb b := by
    intro a b hab
    induction hab with
    | refl => exact le_refl _
    | step _ ih => exact le_trans ih (eb_mono _)
  exact le_trans (mono i 9 hi) eb_nine

theorem exp_range_small {y : ℝ} (h : |y| ≤ 35 / 100) : 3 / 10 ≤ Real.exp y ∧ Real.exp y ≤ 17 / 10 := by
  have := Real.abs_exp_sub_one_le (le_trans h (by norm_num))
  obtain ⟨h1, h2⟩ := abs_le.1 this
  constructor <;> linarith

/-- **the squarings of `exp2`** -/
theorem sq_iter {p : TwoFloat} (hp : VW p) {ρ : ℝ} (hρ : |ρ| ≤ 35 / 100 / 512)
    (h0 : |rv p - Real.exp ρ| ≤ eb 0 * Real.exp ρ) (i : ℕ) (hi : i ≤ 9) :
    VW (sqn i p) ∧ |rv (sqn i p) - Real.exp (2 ^ i * ρ)| ≤ eb i * Real.exp (2 ^ i * ρ) := by
  induction i with
  | zero => simpa [sqn] using ⟨hp, h0⟩
  | succ i ih =>
    obtain ⟨qvw, hq⟩ := ih (by omega)
    have hy : |(2 : ℝ) ^ i * ρ| ≤ 35 / 100 := by
      rw [abs_mul, abs_of_pos (by positivity : (0 : ℝ) < 2 ^ i)]
      have h2 : (2 : ℝ) ^ i ≤ 2 ^ 9 := pow_le_pow_right₀ (by norm_num) (by omega)
      calc (2 : ℝ) ^ i * |ρ| ≤ 2 ^ 9 * (35 / 100 / 512) := mul_le_mul h2 hρ (abs_nonneg _) (by positivity)
        _ = 35 / 100 := by norm_num
    obtain ⟨E1, E2⟩ := exp_range_small hy
    set E := Real.exp (2 ^ i * ρ) with hE
    have hEpos : 0 < E := Real.exp_pos _
    have heb := eb_le i (by omega)
    have heb0 := eb_nonneg i
    have hsmall : eb i * E ≤ E / 2 := by
      have : eb i ≤ 1 / 2 := le_trans heb (by norm_num)
      nlinarith
    obtain ⟨q1, q2⟩ := abs_le.1 hq
    have hq0 : 0 < rv (sqn i p) := by linarith
    have hqlo : 15 / 100 ≤ rv (sqn i p) := by linarith
    have hqhi : rv (sqn i p) ≤ 3 := by linarith
    have hprod_lo : 1 / 2 ^ 957 ≤ |rv (sqn i p) * rv (sqn i p)| := by
      rw [abs_of_pos (mul_pos hq0 hq0)]
      have : (1 : ℝ) / 2 ^ 957 ≤ 15 / 100 * (15 / 100) := by norm_num
      nlinarith
    have hprod_hi : |rv (sqn i p) * rv (sqn i p)| ≤ 2 ^ 1019 := by
      rw [abs_of_pos (mul_pos hq0 hq0)]
      have : (3 : ℝ) * 3 ≤ 2 ^ 1019 := by norm_num
      nlinarith
    obtain ⟨nvw, hn⟩ := mul_rv_rel qvw qvw hprod_lo hprod_hi
    refine ⟨nvw, ?_⟩
    have core := sq_step_real hEpos hq heb0 (le_trans heb (by norm_num)) hn
    have eE : E * E = Real.exp (2 ^ (i + 1) * ρ) := by
      rw [hE, ← Real.exp_add]; congr 1; ring
    rw [eE] at core
    exact core

end squarings

/-! ## `exp2`: the final scaling -/

section scaling
open F64 TwoFloat

/-- scaling both words of `t ∈ [1/4, 4]` by the double `2^j·2^-1074` (`174 ≤ j ≤ 2074`, i.e. `2^-900 … 2^1000`)
followed by Fast2Sum: the high product is exact, the low product is one rounding -/
theorem scale_pow2 {t : TwoFloat} (ht : VW t) (h1 : 1 / 4 ≤ rv t) (h2 : rv t ≤ 4) (j : ℕ) (hj1 : 174 ≤ j)
    (hj2 : j ≤ 2074) :
    VW (arithmetic.fast_two_sum (F64.mul t.hi (fin false (2 ^ j))) (F64.mul t.lo (fin false (2 ^ j)))) ∧
    |rv (arithmetic.fast_two_sum (F64.mul t.hi (fin false (2 ^ j))) (F64.mul t.lo (fin false (2 ^ j))))
        - rv t * (2 ^ j / 2 ^ 1074)|
      ≤ 1001 / 1000 / 2 ^ 106 * (rv t * (2 ^ j / 2 ^ 1074)) + 1 / 2 ^ 1075 := by
  have hpos : 0 < rv t := by linarith
  have habs : |rv t| = rv t := abs_of_pos hpos
  obtain ⟨w1, w2, -, -⟩ := hi_window ht.1 (p := 2) (q := 2) (by norm_num) (by rw [habs]; norm_num; linarith)
    (by rw [habs]; norm_num; linarith)
  norm_num at w1 w2
  have hUi := unit_pos_int
  have hUe : (unit : Int) = 2 ^ 1074 := C01d.unit_int_eq
  have hM : (2 : Int) ^ 2097 ≤ (maxFin : Int) := two_pow_2097_le_maxFin_int
  -- the power of two as a double
  have hPv : IsVal (fin false (2 ^ j)) ((2 : Int) ^ j) := ⟨rfl, by show ((2 ^ j : Nat) : Int) = _; push_cast; rfl⟩
  have hPpos : (0 : Int) < 2 ^ j := by positivity
  have hPle : (2 : Int) ^ j ≤ 2 ^ 2074 := pow_le_pow_right₀ (by norm_num) hj2
  -- the high word is a multiple of 2^900
  have hdvd : (2 : Int) ^ 900 ∣ t.hi.toInt := by
    apply dvd_hi_of_large ht.2
    have : (2 : Int) ^ 1071 ≤ |t.hi.toInt| := w1
    rw [← Int.natCast_natAbs] at this
    have h3 : 2 ^ 1071 ≤ t.hi.toInt.natAbs := by exact_mod_cast this
    exact le_trans (by norm_num) h3
  obtain ⟨h', hh'⟩ := hdvd
  have hh'r : RepI h' := by
    have := ht.2.1.repI
    rw [hh', mul_comm] at this
    exact repI_mul_pow2_iff.1 this
  have hHU : t.hi.toInt * 2 ^ j = (h' * 2 ^ (j - 174)) * (unit : Int) := by
    rw [hh', hUe]
    have e : (2 : Int) ^ 900 * h' * 2 ^ j = h' * (2 ^ 900 * 2 ^ j) := by ring
    have e2 : h' * 2 ^ (j - 174) * 2 ^ 1074 = h' * (2 ^ (j - 174) * 2 ^ 1074) := by ring
    have e3 : 900 + j = (j - 174) + 1074 := by omega
    rw [e, e2, ← pow_add, ← pow_add, e3]
  set H := h' * 2 ^ (j - 174) with hH
  have hHabsU : |H| * (unit : Int) = |t.hi.toInt| * 2 ^ j := by
    rw [← abs_mul_pos_right _ hUi, ← hHU, abs_mul_pos_right _ hPpos]
  have hHhi : |H| ≤ 2 ^ 2077 := by
    have : |H| * (unit : Int) ≤ 2 ^ 1077 * 2 ^ 2074 := by
      rw [hHabsU]; exact mul_le_mul w2 hPle hPpos.le (by positivity)
    rw [hUe] at this
    have e : (2 : Int) ^ 1077 * 2 ^ 2074 = 2 ^ 2077 * 2 ^ 1074 := by rw [← pow_add, ← pow_add]
    rw [e] at this
    exact le_of_mul_le_mul_right this (by positivity)
  have hA : IsVal (F64.mul t.hi (fin false (2 ^ j))) H :=
    (IsVal.of_finite ht.1.1).mul_exact hPv hHU (repI_mul_pow2_iff.2 hh'r)
      (le_trans hHhi (le_trans (by norm_num) hM))
  -- the low word
  have hxl := two_pow_mul_abs_le_of_half_ulp ht.1.two_mul_abs_lo_le
  have hloP : |t.lo.toInt * 2 ^ j| ≤ 2 ^ 2024 * (unit : Int) := by
    rw [abs_mul_pos_right _ hPpos, hUe]
    have hl : |t.lo.toInt| ≤ 2 ^ 1024 := by
      have := abs_nonneg t.lo.toInt
      norm_num at hxl w2 ⊢
      omega
    calc |t.lo.toInt| * 2 ^ j ≤ 2 ^ 1024 * 2 ^ 2074 := mul_le_mul hl hPle hPpos.le (by positivity)
      _ = 2 ^ 2024 * 2 ^ 1074 := by rw [← pow_add, ← pow_add]
  have hB : IsVal (F64.mul t.lo (fin false (2 ^ j))) (rqI (t.lo.toInt * 2 ^ j) unit) := by
    have := mul_spec ht.1.2.1 hPv.1 (by
      rw [hPv.2]; exact roundQ_le_maxFin_of_abs_le 2024 (by norm_num) unit_pos hloP)
    rw [hPv.2] at this
    exact this
  set L := rqI (t.lo.toInt * 2 ^ j) unit with hL
  have eL := rqI_err_gen (t.lo.toInt * 2 ^ j) unit_pos
  rw [← hL] at eL
  have hAlo : 2 ^ 53 * |t.lo.toInt * 2 ^ j| ≤ |H| * (unit : Int) := by
    rw [hHabsU, abs_mul_pos_right _ hPpos]
    have := mul_le_mul_of_nonneg_right hxl hPpos.le
    linarith
  have hLH : |L| ≤ |H| := by
    by_contra hc
    have hc' : (|H| + 1) * (unit : Int) ≤ |L| * (unit : Int) := mul_le_mul_of_nonneg_right (by omega) hUi.le
    rw [add_mul, one_mul] at hc'
    have t1 : |L| * (unit : Int) ≤ |L * (unit : Int) - t.lo.toInt * 2 ^ j| + |t.lo.toInt * 2 ^ j| := by
      have := abs_add_le (L * (unit : Int) - t.lo.toInt * 2 ^ j) (t.lo.toInt * 2 ^ j)
      rw [show L * (unit : Int) - t.lo.toInt * 2 ^ j + t.lo.toInt * 2 ^ j = L * (unit : Int) by ring,
        abs_mul_pos_right _ hUi] at this
      exact this
    have hn := abs_nonneg H
    have hHU0 : 0 ≤ |H| * (unit : Int) := mul_nonneg hn hUi.le
    generalize |L * (unit : Int) - t.lo.toInt * 2 ^ j| = E at *
    generalize |t.lo.toInt * 2 ^ j| = A at *
    generalize |H| * (unit : Int) = HU at *
    generalize |L| * (unit : Int) = LU at *
    generalize (unit : Int) = U at *
    linarith
  have hf2 := fast_two_sum_words hA.1 hB.1 (mul_WF _ _) (mul_WF _ _)
    (by rw [hA.2, hB.2]; exact hLH)
    (by
      rw [hA.2, hB.2]
      apply rn53_natAbs_le_maxFin
      have := abs_add_le H L
      have e : (2 : Int) * 2 ^ 2077 ≤ 2 ^ 2097 := by norm_num
      omega)
  rw [hA.2, hB.2] at hf2
  obtain ⟨-, pV, pValid, pWF⟩ := eft_package hf2.1 hf2.2 (fast_two_sum_WF _ _).1 (fast_two_sum_WF _ _).2
  refine ⟨⟨pValid, pWF⟩, ?_⟩
  generalize arithmetic.fast_two_sum (F64.mul t.hi (fin false (2 ^ j))) (F64.mul t.lo (fin false (2 ^ j))) = R at *
  -- to the reals
  obtain ⟨b1, -⟩ := PowiBound.hi_bounds ht.1
  have hUr : (0 : ℝ) < 2 ^ 1074 := by positivity
  have hPr : (0 : ℝ) < 2 ^ j := by positivity
  rw [hUe] at eL hHU
  have r1 : (2 : ℝ) ^ 53 * |(L : ℝ) * 2 ^ 1074 - (t.lo.toInt : ℝ) * 2 ^ j| ≤ 2 ^ 52 * 2 ^ 1074
      + |(t.lo.toInt : ℝ) * 2 ^ j| := by exact_mod_cast eL
  have r2 : (t.hi.toInt : ℝ) * 2 ^ j = (H : ℝ) * 2 ^ 1074 := by exact_mod_cast hHU
  have r3 : ((2 : ℝ) ^ 53 - 1) * |(t.hi.toInt : ℝ)| ≤ 2 ^ 53 * |(t.V : ℝ)| := by exact_mod_cast b1
  have r4 : (2 : ℝ) ^ 53 * |(t.lo.toInt : ℝ)| ≤ |(t.hi.toInt : ℝ)| := by exact_mod_cast hxl
  have hVt : (t.V : ℝ) = (t.hi.toInt : ℝ) + (t.lo.toInt : ℝ) := by unfold TwoFloat.V; push_cast; ring
  have hVR : (R.V : ℝ) = (H : ℝ) + (L : ℝ) := by exact_mod_cast pV
  have hVpos : (0 : ℝ) < (t.V : ℝ) := by
    have : rv t = (t.V : ℝ) / 2 ^ 1074 := rfl
    rw [this] at hpos
    exact (div_pos_iff_of_pos_right hUr).1 hpos
  unfold rv
  have e1 : (R.V : ℝ) / 2 ^ 1074 - (t.V : ℝ) / 2 ^ 1074 * (2 ^ j / 2 ^ 1074)
      = ((L : ℝ) * 2 ^ 1074 - (t.lo.toInt : ℝ) * 2 ^ j) / (2 ^ 1074 * 2 ^ 1074) := by
    rw [hVR, hVt]; field_simp; linarith
  have e2 : (t.V : ℝ) / 2 ^ 1074 * (2 ^ j / 2 ^ 1074) = ((t.V : ℝ) * 2 ^ j) / (2 ^ 1074 * 2 ^ 1074) := by
    field_simp
  have e3 : (1 : ℝ) / 2 ^ 1075 = (2 ^ 1074 / 2) / (2 ^ 1074 * 2 ^ 1074) := by
    rw [show (2 : ℝ) ^ 1075 = 2 ^ 1074 * 2 by norm_num]; field_simp
  rw [e1, e2, e3, abs_div, abs_of_pos (by positivity : (0 : ℝ) < 2 ^ 1074 * 2 ^ 1074), ← mul_div_assoc, ← add_div,
    div_le_div_iff_of_pos_right (by positivity)]
  rw [abs_mul, abs_of_pos hPr] at r1
  rw [abs_of_pos hVpos] at r3
  generalize |(L : ℝ) * 2 ^ 1074 - (t.lo.toInt : ℝ) * 2 ^ j| = E at *
  generalize |(t.lo.toInt : ℝ)| = A at *
  have hB0 : 0 ≤ |(t.hi.toInt : ℝ)| := abs_nonneg _
  generalize |(t.hi.toInt : ℝ)| = B at *
  generalize (t.V : ℝ) = W at *
  generalize (2 : ℝ) ^ j = P at *
  generalize (2 : ℝ) ^ 1074 = U at *
  have k1 : E ≤ U / 2 + A * P / 2 ^ 53 := by
    rw [show U / 2 + A * P / 2 ^ 53 = (2 ^ 52 * U + A * P) / 2 ^ 53 by ring, le_div_iff₀ (by positivity)]
    linarith
  have k2 : A ≤ B / 2 ^ 53 := by rw [le_div_iff₀ (by positivity)]; linarith
  have k3 : B ≤ 2 ^ 53 / (2 ^ 53 - 1) * W := by
    rw [div_mul_eq_mul_div, le_div_iff₀ (by norm_num)]; linarith
  have k4 : A * P / 2 ^ 53 ≤ 1001 / 1000 / 2 ^ 106 * (W * P) := by
    have h3 : A ≤ (2 ^ 53 / (2 ^ 53 - 1) * W) / 2 ^ 53 :=
      le_trans k2 (div_le_div_of_nonneg_right k3 (by positivity))
    have h4 : A * P / 2 ^ 53 ≤ ((2 ^ 53 / (2 ^ 53 - 1) * W) / 2 ^ 53) * P / 2 ^ 53 :=
      div_le_div_of_nonneg_right (mul_le_mul_of_nonneg_right h3 hPr.le) (by positivity)
    have h5 : ((2 ^ 53 / (2 ^ 53 - 1) * W) / 2 ^ 53) * P / 2 ^ 53
        = (2 ^ 53 / (2 ^ 53 - 1) / 2 ^ 53 / 2 ^ 53) * (W * P) := by ring
    have h6 : (2 : ℝ) ^ 53 / (2 ^ 53 - 1) / 2 ^ 53 / 2 ^ 53 ≤ 1001 / 1000 / 2 ^ 106 := by norm_num
    have h7 : (2 ^ 53 / (2 ^ 53 - 1) / 2 ^ 53 / 2 ^ 53) * (W * P) ≤ 1001 / 1000 / 2 ^ 106 * (W * P) :=
      mul_le_mul_of_nonneg_right h6 (by positivity)
    linarith
  linarith

end scaling

/-! ## `exp2`: the assembly -/

section assembly
open F64 TwoFloat

/-- the polynomial value against `e^ρ` for the exact reduced argument `ρ` -/
theorem p0_real {p r ρ : ℝ} (hρ : |ρ| ≤ 35 / 100 / 512) (hr : |r - ρ| ≤ 1 / 100 / 2 ^ 106)
    (hp : |p - Real.exp r| ≤ 304 / 100 / 2 ^ 106) : |p - Real.exp ρ| ≤ 4 / 2 ^ 106 * Real.exp ρ := by
  have hG := Real.exp_pos ρ
  have h1 := Real.abs_exp_sub_one_le (x := ρ) (le_trans hρ (by norm_num))
  obtain ⟨g1, g2⟩ := abs_le.1 h1
  obtain ⟨ρ1, ρ2⟩ := abs_le.1 hρ
  have hGlo : 99 / 100 ≤ Real.exp ρ := by
    have : |ρ| ≤ 1 / 1000 := le_trans hρ (by norm_num)
    linarith
  have h2 := Real.abs_exp_sub_one_le (x := r - ρ) (le_trans hr (by norm_num))
  have e : Real.exp r - Real.exp ρ = Real.exp ρ * (Real.exp (r - ρ) - 1) := by
    rw [mul_sub, mul_one, ← Real.exp_add]; congr 2; ring
  have h3 : |Real.exp r - Real.exp ρ| ≤ Real.exp ρ * (2 * (1 / 100 / 2 ^ 106)) := by
    rw [e, abs_mul, abs_of_pos hG]
    exact mul_le_mul_of_nonneg_left (by linarith) hG.le
  have h4 := abs_add_le (p - Real.exp r) (Real.exp r - Real.exp ρ)
  rw [show p - Real.exp r + (Real.exp r - Real.exp ρ) = p - Real.exp ρ by ring] at h4
  have h5 : (304 : ℝ) / 100 / 2 ^ 106 ≤ 308 / 100 / 2 ^ 106 * Real.exp ρ := by
    have : (308 : ℝ) / 100 / 2 ^ 106 * (99 / 100) ≤ 308 / 100 / 2 ^ 106 * Real.exp ρ :=
      mul_le_mul_of_nonneg_left hGlo (by positivity)
    have e2 : (304 : ℝ) / 100 / 2 ^ 106 ≤ 308 / 100 / 2 ^ 106 * (99 / 100) := by norm_num
    linarith
  have e3 : (4 : ℝ) / 2 ^ 106 * Real.exp ρ
      = 308 / 100 / 2 ^ 106 * Real.exp ρ + Real.exp ρ * (2 * (1 / 100 / 2 ^ 106)) + 90 / 100 / 2 ^ 106 * Real.exp ρ := by
    ring
  have h6 : (0 : ℝ) ≤ 90 / 100 / 2 ^ 106 * Real.exp ρ := by positivity
  linarith

theorem LN_2_vw : VW consts.LN_2 ∧ |Real.log 2 - rv consts.LN_2| ≤ |Real.log 2| / 2 ^ 107 := by
  refine ⟨⟨by decide +kernel, by decide +kernel⟩, ?_⟩
  exact C12x.LN_2_rel_err

/-- `e^(q·log 2) = 2^(q+1074) / 2^1074` -/
theorem exp_int_log_two (q : ℤ) (j : ℕ) (hj : (j : ℤ) = q + 1074) :
    Real.exp ((q : ℝ) * Real.log 2) = 2 ^ j / 2 ^ 1074 := by
  have h2 : Real.exp (Real.log 2) = 2 := Real.exp_log (by norm_num)
  have e1 : (2 : ℝ) ^ j = Real.exp ((j : ℝ) * Real.log 2) := by rw [Real.exp_nat_mul, h2]
  have e2 : (2 : ℝ) ^ 1074 = Real.exp (((1074 : ℕ) : ℝ) * Real.log 2) := by rw [Real.exp_nat_mul, h2]
  rw [e1, e2, ← Real.exp_sub]
  congr 1
  have : (j : ℝ) = (q : ℝ) + 1074 := by exact_mod_cast hj
  rw [this]; push_cast; ring

/-- real-number core of the last step -/
theorem final_real {res t E S eps : ℝ} (hE : 3 / 10 ≤ E) (hS : 1 / 2 ^ 900 ≤ S) (ht : |t - E| ≤ eps * E)
    (_heps0 : 0 ≤ eps) (heps : eps ≤ 5631 / 2 ^ 106)
    (hres : |res - t * S| ≤ 1001 / 1000 / 2 ^ 106 * (t * S) + 1 / 2 ^ 1075) :
    |res - E * S| ≤ 5633 / 2 ^ 106 * (E * S) := by
  have hE0 : 0 < E := by linarith
  have hS0 : 0 < S := lt_of_lt_of_le (by positivity) hS
  have hG : 0 < E * S := mul_pos hE0 hS0
  have hGlo : 3 / 10 * (1 / 2 ^ 900) ≤ E * S := mul_le_mul hE hS (by positivity) hE0.le
  obtain ⟨t1, t2⟩ := abs_le.1 ht
  have htS : t * S ≤ (1 + eps) * (E * S) := by
    have : t ≤ (1 + eps) * E := by linarith
    calc t * S ≤ (1 + eps) * E * S := mul_le_mul_of_nonneg_right this hS0.le
      _ = (1 + eps) * (E * S) := by ring
  have h1 : |t * S - E * S| ≤ eps * (E * S) := by
    rw [← sub_mul, abs_mul, abs_of_pos hS0]
    calc |t - E| * S ≤ eps * E * S := mul_le_mul_of_nonneg_right ht hS0.le
      _ = eps * (E * S) := by ring
  have h2 := abs_add_le (res - t * S) (t * S - E * S)
  rw [show res - t * S + (t * S - E * S) = res - E * S by ring] at h2
  have h3 : (1001 : ℝ) / 1000 / 2 ^ 106 * (t * S) ≤ 1001 / 1000 / 2 ^ 106 * ((1 + eps) * (E * S)) :=
    mul_le_mul_of_nonneg_left htS (by positivity)
  have h4 : (1 : ℝ) / 2 ^ 1075 ≤ 1 / 1000 / 2 ^ 106 * (E * S) := by
    have : (1 : ℝ) / 1000 / 2 ^ 106 * (3 / 10 * (1 / 2 ^ 900)) ≤ 1 / 1000 / 2 ^ 106 * (E * S) :=
      mul_le_mul_of_nonneg_left hGlo (by positivity)
    refine le_trans ?_ this
    norm_num
  have h5 : (1001 : ℝ) / 1000 / 2 ^ 106 * ((1 + eps) * (E * S)) ≤ 1002 / 1000 / 2 ^ 106 * (E * S) := by
    rw [← mul_assoc]
    refine mul_le_mul_of_nonneg_right ?_ hG.le
    have : (1001 : ℝ) / 1000 / 2 ^ 106 * (1 + eps) ≤ 1001 / 1000 / 2 ^ 106 * (1 + 5631 / 2 ^ 106) :=
      mul_le_mul_of_nonneg_left (by linarith) (by positivity)
    refine le_trans this ?_
    norm_num
  have h6 : eps * (E * S) ≤ 5631 / 2 ^ 106 * (E * S) := mul_le_mul_of_nonneg_right heps hG.le
  have e : (5633 : ℝ) / 2 ^ 106 * (E * S)
      = 1002 / 1000 / 2 ^ 106 * (E * S) + 1 / 1000 / 2 ^ 106 * (E * S) + 5631 / 2 ^ 106 * (E * S)
        + 997 / 1000 / 2 ^ 106 * (E * S) := by ring
  have h7 : (0 : ℝ) ≤ 997 / 1000 / 2 ^ 106 * (E * S) := by positivity
  linarith

/-- **accuracy of `TwoFloat::exp2`**: for a valid `x` with `−900 ≤ x ≤ 1000` the result is a valid pair within relative
`5633u² = 5633·2^-106 < 2^-93` of `2^x = e^(x·log 2)` -/
theorem exp2_bound_main (x : TwoFloat) (hv : x.Valid) (hw : x.WF) (hlo : -900 ≤ rv x) (hhi : rv x ≤ 1000) :
    VW (TwoFloat.exp2 x) ∧
    |rv (TwoFloat.exp2 x) - Real.exp (rv x * Real.log 2)| ≤ 5633 / 2 ^ 106 * Real.exp (rv x * Real.log 2) := by
  have hU : (0 : ℝ) < 2 ^ 1074 := by positivity
  have hUi := unit_pos_int
  have hUe : (unit : Int) = 2 ^ 1074 := C01d.unit_int_eq
  -- integer bounds on the value and on the words
  have hV1 : -900 * 2 ^ 1074 ≤ x.V := by
    have h : (-900 : ℝ) * 2 ^ 1074 ≤ (x.V : ℝ) := by
      have := hlo; unfold rv at this; rwa [le_div_iff₀ hU] at this
    exact_mod_cast h
  have hV2 : x.V ≤ 1000 * 2 ^ 1074 := by
    have h : (x.V : ℝ) ≤ 1000 * 2 ^ 1074 := by
      have := hhi; unfold rv at this; rwa [div_le_iff₀ hU] at this
    exact_mod_cast h
  have hxl := two_pow_mul_abs_le_of_half_ulp hv.two_mul_abs_lo_le
  obtain ⟨b1, -⟩ := PowiBound.hi_bounds hv
  have e1074 : (2 : ℤ) ^ 1074 = 2 ^ 53 * 2 ^ 1021 := by norm_num
  have hT : (0 : ℤ) < 2 ^ 1021 := by positivity
  have hVabs : |x.V| ≤ 1000 * 2 ^ 1074 := abs_le.2 ⟨by linarith, hV2⟩
  have hhiabs : |x.hi.toInt| ≤ 1001 * 2 ^ 1074 := by
    rw [e1074] at hVabs ⊢
    generalize (2 : ℤ) ^ 1021 = T at *
    have := abs_nonneg x.hi.toInt
    norm_num at b1 ⊢
    omega
  have hloabs : |x.lo.toInt| ≤ 1001 * 2 ^ 1021 := by
    rw [e1074] at hhiabs
    generalize (2 : ℤ) ^ 1021 = T at *
    have := abs_nonneg x.lo.toInt
    norm_num at hxl ⊢
    omega
  rw [C14p.exp2_unfold]
  -- the two range tests
  have c1 : ROrd.isLt (base.impl_PartialOrd_f64_for_TwoFloat.partial_cmp x
      (F64.neg (f64lit 0x4090c80000000000))) = false := by
    rw [C14p.lit_m1074, partial_cmp_tf_exact_of F64.roundFacts hv
      (show (fin true (1074 * F64.unit)).WF by decide +kernel) rfl, Bool.eq_false_iff]
    intro hc
    have := ROrd.isLt_ofInts.1 hc
    have e : (fin true (1074 * F64.unit)).toInt = -1074 * (F64.unit : Int) := by
      show -((1074 * F64.unit : Nat) : Int) = _; push_cast; ring
    rw [e, hUe] at this
    have hP : (0 : ℤ) < 2 ^ 1074 := by positivity
    generalize (2 : ℤ) ^ 1074 = P at *
    omega
  have c2 : ROrd.isGe (base.impl_PartialOrd_f64_for_TwoFloat.partial_cmp x
      (f64lit 0x408ff80000000000)) = false := by
    rw [C14p.lit_1023, partial_cmp_tf_exact_of F64.roundFacts hv
      (show (fin false (1023 * F64.unit)).WF by decide +kernel) rfl, Bool.eq_false_iff]
    intro hc
    have := ROrd.isGe_ofInts.1 hc
    have e : (fin false (1023 * F64.unit)).toInt = 1023 * (F64.unit : Int) := by
      show ((1023 * F64.unit : Nat) : Int) = _; push_cast; ring
    rw [e, hUe] at this
    have hP : (0 : ℤ) < 2 ^ 1074 := by positivity
    generalize (2 : ℤ) ^ 1074 = P at *
    omega
  rw [c1, c2, if_neg Bool.false_ne_true, if_neg Bool.false_ne_true]
  -- k = round(x.hi)
  obtain ⟨q, kf, kq, knear, -⟩ := round_val hv.1
  rw [hUe] at kq knear
  have kWF : (F64.round x.hi).WF := C08.WF_round hw.1
  have hVhl : x.V = x.hi.toInt + x.lo.toInt := rfl
  have hnearV : 2 * |x.V - q * 2 ^ 1074| ≤ 2 ^ 1074 + 2002 * 2 ^ 1021 := by
    have e : x.V - q * 2 ^ 1074 = -(q * 2 ^ 1074 - x.hi.toInt) + x.lo.toInt := by rw [hVhl]; ring
    have := abs_add_le (-(q * 2 ^ 1074 - x.hi.toInt)) x.lo.toInt
    rw [abs_neg, ← e] at this
    linarith
  have hUT : (2 : ℤ) ^ 1074 = 9007199254740992 * 2 ^ 1021 := by norm_num
  have hq1 : -900 ≤ q := by
    have h1 : (-901) * (2 : ℤ) ^ 1074 < q * 2 ^ 1074 := by
      have := le_abs_self (x.V - q * 2 ^ 1074)
      clear hVabs hhiabs hloabs e1074 kq knear hUe hVhl b1 hxl
      generalize q * (2 : ℤ) ^ 1074 = QU at *
      generalize (2 : ℤ) ^ 1074 = U at *
      generalize (2 : ℤ) ^ 1021 = T at *
      generalize |x.V - QU| = D at *
      omega
    have := lt_of_mul_lt_mul_right h1 (by positivity : (0 : ℤ) ≤ 2 ^ 1074)
    omega
  have hq2 : q ≤ 1000 := by
    have h1 : q * (2 : ℤ) ^ 1074 < 1001 * 2 ^ 1074 := by
      have := neg_abs_le (x.V - q * 2 ^ 1074)
      clear hVabs hhiabs hloabs e1074 kq knear hUe hVhl b1 hxl
      generalize q * (2 : ℤ) ^ 1074 = QU at *
      generalize (2 : ℤ) ^ 1074 = U at *
      generalize (2 : ℤ) ^ 1021 = T at *
      generalize |x.V - QU| = D at *
      omega
    have := lt_of_mul_lt_mul_right h1 (by positivity : (0 : ℤ) ≤ 2 ^ 1074)
    omega
  -- δ = x − k
  have hfvk : fv (F64.round x.hi) = (q : ℝ) := by
    unfold fv; rw [kq]
    simp only [Int.cast_mul, Int.cast_pow, Int.cast_ofNat]
    exact mul_div_cancel_right₀ (q : ℝ) (by positivity : ((2 : ℝ) ^ 1074) ≠ 0)
  set δ := rv x - (q : ℝ) with hδ
  have hδabs : |δ| ≤ 501 / 1000 := by
    have h : (2 : ℝ) * |(x.V : ℝ) - (q : ℝ) * 2 ^ 1074| ≤ 2 ^ 1074 + 2002 * 2 ^ 1021 := by exact_mod_cast hnearV
    have e : δ = ((x.V : ℝ) - (q : ℝ) * 2 ^ 1074) / 2 ^ 1074 := by
      rw [hδ]; unfold rv; field_simp
    rw [e, abs_div, abs_of_pos hU, div_le_iff₀ hU]
    have e2 : (2 : ℝ) ^ 1074 = 2 ^ 53 * 2 ^ 1021 := by norm_num
    rw [e2] at h ⊢
    have hT' : (0 : ℝ) < 2 ^ 1021 := by positivity
    generalize (2 : ℝ) ^ 1021 = T at *
    norm_num at h ⊢
    linarith
  have hxabs : |rv x| ≤ 2 ^ 1000 := by
    have : |rv x| ≤ 1000 := abs_le.2 ⟨by linarith, hhi⟩
    exact le_trans this (by norm_num)
  have hkb : (F64.round x.hi).toInt.natAbs < 2 ^ 2095 := by
    rw [kq]
    apply natAbs_lt_of_abs_lt
    rw [abs_mul, abs_of_pos (by positivity : (0 : ℤ) < 2 ^ 1074)]
    have : |q| ≤ 1000 := abs_le.2 ⟨by omega, hq2⟩
    calc |q| * 2 ^ 1074 ≤ 1000 * 2 ^ 1074 := by nlinarith
      _ < 2 ^ 2095 := by norm_num
  obtain ⟨svw, hs⟩ := sub_tf_rv ⟨hv, hw⟩ kf kWF hxabs hkb
  rw [hfvk] at hs
  generalize hsdef : arithmetic.impl_Sub_f64_for_TwoFloat.sub x (F64.round x.hi) = s at *
  -- m = s · LN_2
  obtain ⟨lnvw, hl⟩ := LN_2_vw
  obtain ⟨l1, l2⟩ := log_two_range
  have hsabs : |rv s| ≤ 1 := by
    have := abs_sub_abs_le_abs_sub (rv s) δ
    have h2 : (1 : ℝ) / 2 ^ 105 * |δ| ≤ 1 / 2 ^ 105 * (501 / 1000) := mul_le_mul_of_nonneg_left hδabs (by positivity)
    have e : (1 : ℝ) / 2 ^ 105 * (501 / 1000) + 501 / 1000 ≤ 1 := by norm_num
    linarith
  have hlabs : |rv consts.LN_2| ≤ 1 := by
    have := abs_sub_abs_le_abs_sub (rv consts.LN_2) (Real.log 2)
    rw [abs_sub_comm] at hl
    rw [abs_of_pos (by linarith : (0 : ℝ) < Real.log 2)] at this hl
    have : Real.log 2 / 2 ^ 107 ≤ 1 / 10 := by
      rw [div_le_iff₀ (by positivity)]; norm_num; linarith
    linarith
  have hprod : |rv s * rv consts.LN_2| ≤ 2 ^ 1019 := by
    rw [abs_mul]
    calc |rv s| * |rv consts.LN_2| ≤ 1 * 1 := mul_le_mul hsabs hlabs (abs_nonneg _) (by norm_num)
      _ ≤ 2 ^ 1019 := by norm_num
  obtain ⟨mvw, hm⟩ := mul_rv svw lnvw hprod
  generalize hmdef : arithmetic.impl_Mul_TwoFloat_for_TwoFloat.mul s consts.LN_2 = m at *
  -- r = m / 512
  obtain ⟨rvw, hr⟩ := div_pow2_gen mvw lit512_isVal (by norm_num) (by norm_num)
  generalize hrdef : arithmetic.impl_Div_f64_for_TwoFloat.div m (f64lit 0x4080000000000000) = r at *
  obtain ⟨hrρ, hrabs⟩ := reduce_real hδabs hs hl hm hr
  set ρ := δ * Real.log 2 / 512 with hρdef
  have hρabs : |ρ| ≤ 35 / 100 / 512 := by
    rw [hρdef, abs_div, abs_of_pos (by norm_num : (0 : ℝ) < 512)]
    refine div_le_div_of_nonneg_right ?_ (by norm_num)
    rw [abs_mul, abs_of_pos (by linarith : (0 : ℝ) < Real.log 2)]
    calc |δ| * Real.log 2 ≤ 501 / 1000 * (6932 / 10000) := mul_le_mul hδabs l2 (by linarith) (by norm_num)
      _ ≤ 35 / 100 := by norm_num
  -- the polynomial
  rw [polyFold_eq2]
  obtain ⟨pvw, hp⟩ := horner2_bound rvw hrabs
  have hp0 := p0_real hρabs hrρ hp
  -- nine squarings
  obtain ⟨tvw, ht⟩ := sq_iter pvw hρabs hp0 9 (le_refl _)
  have e512 : (2 : ℝ) ^ 9 * ρ = δ * Real.log 2 := by rw [hρdef]; norm_num; ring
  rw [e512] at ht
  have hδl : |δ * Real.log 2| ≤ 35 / 100 := by
    rw [← e512, abs_mul, abs_of_pos (by positivity : (0 : ℝ) < 2 ^ 9)]
    calc (2 : ℝ) ^ 9 * |ρ| ≤ 2 ^ 9 * (35 / 100 / 512) := mul_le_mul_of_nonneg_left hρabs (by positivity)
      _ = 35 / 100 := by norm_num
  obtain ⟨E1, E2⟩ := exp_range_small hδl
  have heb9 := eb_nine
  have heb0 := eb_nonneg 9
  unfold C14p.exp2Tail
  rw [sq9_eq]
  generalize hp0def : hp2 r 11 = p0 at *
  generalize htdef : sqn 9 p0 = t at *
  have hxq : rv x = (q : ℝ) + δ := by rw [hδ]; ring
  by_cases hq0 : q = 0
  · have : (F64.round x.hi ==. f64lit 0x0000000000000000) = true := by
      rw [req_eq, Ident.f64lit_zero, eq_iff_toInt kf rfl, kq, hq0, toInt_zero]; ring
    rw [this, if_pos rfl]
    refine ⟨tvw, ?_⟩
    have e : rv x * Real.log 2 = δ * Real.log 2 := by rw [hxq, hq0]; push_cast; ring
    rw [e]
    refine le_trans ht ?_
    exact mul_le_mul_of_nonneg_right (le_trans heb9 (by norm_num)) (Real.exp_pos _).le
  · have hne : (F64.round x.hi ==. f64lit 0x0000000000000000) = false := by
      rw [req_eq, Ident.f64lit_zero, Bool.eq_false_iff]
      intro hc
      have := (eq_iff_toInt kf rfl).1 hc
      rw [kq, toInt_zero] at this
      rcases mul_eq_zero.1 this with h | h
      · exact hq0 h
      · have : (0 : ℤ) < 2 ^ 1074 := by positivity
        omega
    rw [hne]
    simp only [Bool.false_eq_true, if_false]
    have hcast : (RCast.cast (F64.round x.hi) : I32) = ⟨q⟩ :=
      PF.cast_f64_i32 kf (by rw [kq, hUe]) (by omega)
    rw [hcast, C14p.mul_pow2_eq _ q (by omega) (by omega), C14p.mul_pow2_eq _ q (by omega) (by omega)]
    obtain ⟨j, hj⟩ : ∃ j : ℕ, (q + 1074).toNat = j := ⟨_, rfl⟩
    have hjq : (j : ℤ) = q + 1074 := by omega
    rw [hj]
    -- the range of t
    obtain ⟨t1, t2⟩ := abs_le.1 ht
    have hsm : eb 9 * Real.exp (δ * Real.log 2) ≤ 1 / 100 := by
      have : eb 9 ≤ 1 / 200 := le_trans heb9 (by norm_num)
      nlinarith
    obtain ⟨svw', hsc⟩ := scale_pow2 tvw (by linarith) (by linarith) j (by omega) (by omega)
    refine ⟨svw', ?_⟩
    have hS := exp_int_log_two q j hjq
    have hSlo : (1 : ℝ) / 2 ^ 900 ≤ 2 ^ j / 2 ^ 1074 := by
      rw [div_le_div_iff₀ (by positivity) (by positivity), one_mul, ← pow_add]
      exact pow_le_pow_right₀ (by norm_num) (by omega)
    have core := final_real E1 hSlo ht heb0 heb9 hsc
    have e : rv x * Real.log 2 = δ * Real.log 2 + (q : ℝ) * Real.log 2 := by rw [hxq]; ring
    rw [e, Real.exp_add, hS]
    exact core

end assembly

/-! ## `exp_m1` -/

section expm1
open F64 TwoFloat

/-- which way `TwoFloat::abs` goes -/
theorem abs_cases {t : TwoFloat} (hv : t.Valid) :
    (0 < t.V → TwoFloat.abs t = t) ∧ (t.V < 0 → TwoFloat.abs t = arithmetic.impl_Neg_for_rTwoFloat.neg t) ∧
    (TwoFloat.abs t = t ∨ TwoFloat.abs t = arithmetic.impl_Neg_for_rTwoFloat.neg t) := by
  rw [TwoFloat.abs_nf]
  refine ⟨?_, ?_, ?_⟩
  · intro h
    have hh : 0 < t.hi.toInt := (hv.hi_pos_iff F64.roundFacts).2 h
    have h1 : F64.gt t.hi (F64.fin false 0) = true := (F64.gt_zero_iff hv.1).mpr hh
    simp only [h1, Bool.true_or, if_true]
  · intro h
    have hh : t.hi.toInt < 0 := (hv.hi_neg_iff F64.roundFacts).2 h
    have h1 : F64.gt t.hi (F64.fin false 0) = false := by
      rw [← Bool.not_eq_true, F64.gt_zero_iff hv.1]; omega
    have h2 : F64.eq t.hi (F64.fin false 0) = false := by
      rw [← Bool.not_eq_true, F64.eq_zero_iff hv.1]; omega
    simp only [h1, h2, Bool.false_and, Bool.or_false, Bool.false_eq_true, if_false]
  · split
    · exact Or.inl rfl
    · exact Or.inr rfl

/-- `abs` over `ℝ` -/
theorem abs_rv' {t : TwoFloat} (ht : VW t) : VW (TwoFloat.abs t) ∧ rv (TwoFloat.abs t) = |rv t| := by
  obtain ⟨c1, c2, c3⟩ := abs_cases ht.1
  have hU : (0 : ℝ) < 2 ^ 1074 := by positivity
  have hneg := neg_rv ht
  have hneg' : VW (arithmetic.impl_Neg_for_rTwoFloat.neg t) ∧ rv (arithmetic.impl_Neg_for_rTwoFloat.neg t) = -rv t :=
    hneg
  rcases lt_trichotomy t.V 0 with h | h | h
  · rw [c2 h]
    refine ⟨hneg'.1, ?_⟩
    rw [hneg'.2, abs_of_neg]
    unfold rv
    exact div_neg_of_neg_of_pos (by exact_mod_cast h) hU
  · have h0 : rv t = 0 := by unfold rv; rw [h]; simp
    rcases c3 with e | e <;> rw [e]
    · exact ⟨ht, by rw [h0, abs_zero]⟩
    · exact ⟨hneg'.1, by rw [hneg'.2, h0, neg_zero, abs_zero]⟩
  · rw [c1 h]
    refine ⟨ht, ?_⟩
    rw [abs_of_pos]
    unfold rv
    exact div_pos (by exact_mod_cast h) hU

/-- real-number core of `s·(t·P(t) + 1)`, `|s| = t ∈ [0, 1/128]`, the last product purely relative -/
theorem expm1_core_real {t s p Pe m1 q w : ℝ} (ht0 : 0 ≤ t) (ht : t ≤ 1 / 128) (hs : |s| = t)
    (hp : |p - Pe| ≤ 4 / 2 ^ 106) (hP1 : 1 / 4 ≤ Pe) (hP2 : Pe ≤ 1)
    (hm1 : |m1 - t * p| ≤ 7 / 2 ^ 106 * |t * p| + 1 / 2 ^ 950)
    (hq : |q - (m1 + 1)| ≤ 1 / 2 ^ 105 * |m1 + 1|)
    (hw : |w - s * q| ≤ 7 / 2 ^ 106 * |s * q|) :
    |w - s * (t * Pe + 1)| ≤ 93 / 10 / 2 ^ 106 * |s| ∧ |q| ≤ 101 / 100 ∧ 99 / 100 ≤ |q| := by
  have htabs : |t| = t := abs_of_nonneg ht0
  have hpabs : |p| ≤ 101 / 100 := by
    have := abs_sub_abs_le_abs_sub p Pe
    rw [abs_of_nonneg (by linarith : (0 : ℝ) ≤ Pe)] at this
    have e : (4 : ℝ) / 2 ^ 106 ≤ 1 / 100 := by norm_num
    linarith
  have htp : |t * p| ≤ 101 / 100 * t := by
    rw [abs_mul, htabs, mul_comm]; exact mul_le_mul_of_nonneg_right hpabs ht0
  have d1 : |m1 - t * Pe| ≤ 1107 / 100 / 2 ^ 106 * t + 1 / 2 ^ 950 := by
    have h1 := abs_add_le (m1 - t * p) (t * p - t * Pe)
    rw [show m1 - t * p + (t * p - t * Pe) = m1 - t * Pe by ring] at h1
    have h2 : |t * p - t * Pe| ≤ 4 / 2 ^ 106 * t := by
      rw [← mul_sub, abs_mul, htabs, mul_comm]; exact mul_le_mul_of_nonneg_right hp ht0
    have h3 := mul_le_mul_of_nonneg_left htp (by positivity : (0 : ℝ) ≤ 7 / 2 ^ 106)
    have e : (7 : ℝ) / 2 ^ 106 * (101 / 100 * t) + 4 / 2 ^ 106 * t = 1107 / 100 / 2 ^ 106 * t := by ring
    linarith
  have d1' : |m1 - t * Pe| ≤ 9 / 100 / 2 ^ 106 := by
    have := mul_le_mul_of_nonneg_left ht (by positivity : (0 : ℝ) ≤ 1107 / 100 / 2 ^ 106)
    have e : (1107 : ℝ) / 100 / 2 ^ 106 * (1 / 128) + 1 / 2 ^ 950 ≤ 9 / 100 / 2 ^ 106 := by norm_num
    linarith
  have htPe : |t * Pe| ≤ 1 / 128 := by
    rw [abs_mul, htabs, abs_of_nonneg (by linarith : (0 : ℝ) ≤ Pe)]
    calc t * Pe ≤ 1 / 128 * 1 := mul_le_mul ht hP2 (by linarith) (by norm_num)
      _ = 1 / 128 := by ring
  have hm1abs : |m1| ≤ 1 / 100 := by
    have := abs_sub_abs_le_abs_sub m1 (t * Pe)
    have e : (9 : ℝ) / 100 / 2 ^ 106 + 1 / 128 ≤ 1 / 100 := by norm_num
    linarith
  have hm11 : |m1 + 1| ≤ 101 / 100 := by
    have := abs_add_le m1 1
    rw [abs_one] at this; linarith
  have d2 : |q - (t * Pe + 1)| ≤ 211 / 100 / 2 ^ 106 := by
    have h1 := abs_add_le (q - (m1 + 1)) (m1 - t * Pe)
    rw [show q - (m1 + 1) + (m1 - t * Pe) = q - (t * Pe + 1) by ring] at h1
    have h3 := mul_le_mul_of_nonneg_left hm11 (by positivity : (0 : ℝ) ≤ 1 / 2 ^ 105)
    have e : (1 : ℝ) / 2 ^ 105 * (101 / 100) + 9 / 100 / 2 ^ 106 ≤ 211 / 100 / 2 ^ 106 := by norm_num
    linarith
  have hqabs : |q| ≤ 101 / 100 ∧ 99 / 100 ≤ |q| := by
    have h1 := abs_sub_abs_le_abs_sub q (t * Pe + 1)
    have h1' := abs_sub_abs_le_abs_sub (t * Pe + 1) q
    rw [abs_sub_comm] at h1'
    obtain ⟨l1, l2⟩ := abs_le.1 htPe
    have h2 : |t * Pe + 1| = t * Pe + 1 := abs_of_pos (by linarith)
    rw [h2] at h1 h1'
    have e : (211 : ℝ) / 100 / 2 ^ 106 + 1 / 128 + 1 ≤ 101 / 100 := by norm_num
    have e' : (99 : ℝ) / 100 ≤ 1 - 1 / 128 - 211 / 100 / 2 ^ 106 := by norm_num
    constructor <;> linarith
  refine ⟨?_, hqabs.1, hqabs.2⟩
  have hS := abs_nonneg s
  have hsq : |s * q| ≤ 101 / 100 * |s| := by
    rw [abs_mul, mul_comm]; exact mul_le_mul_of_nonneg_right hqabs.1 hS
  have h1 := abs_add_le (w - s * q) (s * q - s * (t * Pe + 1))
  rw [show w - s * q + (s * q - s * (t * Pe + 1)) = w - s * (t * Pe + 1) by ring] at h1
  have h2 : |s * q - s * (t * Pe + 1)| ≤ 211 / 100 / 2 ^ 106 * |s| := by
    rw [← mul_sub, abs_mul, mul_comm]; exact mul_le_mul_of_nonneg_right d2 hS
  have h3 := mul_le_mul_of_nonneg_left hsq (by positivity : (0 : ℝ) ≤ 7 / 2 ^ 106)
  have e : (7 : ℝ) / 2 ^ 106 * (101 / 100 * |s|) + 211 / 100 / 2 ^ 106 * |s| = 918 / 100 / 2 ^ 106 * |s| := by ring
  have e' : (918 : ℝ) / 100 / 2 ^ 106 * |s| ≤ 93 / 10 / 2 ^ 106 * |s| :=
    mul_le_mul_of_nonneg_right (by norm_num) hS
  linarith

/-- the Taylor-branch kernel of `exp_m1`: `w = s·(a·P(a) + 1)` with `a = |x|`, `s = x` -/
theorem expm1_kernel {a sx : TwoFloat} (ha : VW a) (hsx : VW sx) (hs : |rv sx| = rv a) (ht : rv a ≤ 1 / 128)
    (hlo : 1 / 2 ^ 950 ≤ rv a) :
    VW (arithmetic.impl_Mul_TwoFloat_for_TwoFloat.mul sx (arithmetic.impl_Add_f64_for_TwoFloat.add
      (arithmetic.impl_Mul_TwoFloat_for_TwoFloat.mul a (hp a 12)) (f64lit 0x3ff0000000000000))) ∧
    |rv (arithmetic.impl_Mul_TwoFloat_for_TwoFloat.mul sx (arithmetic.impl_Add_f64_for_TwoFloat.add
      (arithmetic.impl_Mul_TwoFloat_for_TwoFloat.mul a (hp a 12)) (f64lit 0x3ff0000000000000)))
      - rv sx * (rv a * PR (rv a) 12 + 1)| ≤ 93 / 10 / 2 ^ 106 * |rv sx| := by
  have ht0 : 0 ≤ rv a := by rw [← hs]; exact abs_nonneg _
  have hta : |rv a| ≤ 1 / 128 := by rw [abs_of_nonneg ht0]; exact ht
  obtain ⟨pvw, hpe, hP1, hP2⟩ := horner_inv ha hta 12 (le_refl _)
  have e2 : ((14 - 12 : ℕ).factorial : ℝ) = 2 := by norm_num [Nat.factorial]
  rw [e2] at hP1 hP2
  have hP1' : (1 : ℝ) / 4 ≤ PR (rv a) 12 := by linarith
  have hP2' : PR (rv a) 12 ≤ 1 := by linarith
  have hpabs : |rv (hp a 12)| ≤ 2 := by
    have := abs_sub_abs_le_abs_sub (rv (hp a 12)) (PR (rv a) 12)
    rw [abs_of_nonneg (by linarith : (0 : ℝ) ≤ PR (rv a) 12)] at this
    have e : (4 : ℝ) / 2 ^ 106 ≤ 1 := by norm_num
    linarith
  have hprod : |rv a * rv (hp a 12)| ≤ 1 / 64 := by
    rw [abs_mul]
    calc |rv a| * |rv (hp a 12)| ≤ 1 / 128 * 2 := mul_le_mul hta hpabs (abs_nonneg _) (by norm_num)
      _ = 1 / 64 := by norm_num
  obtain ⟨m1vw, hm1⟩ := mul_rv ha pvw (le_trans hprod (by norm_num))
  have hm1abs : |rv (arithmetic.impl_Mul_TwoFloat_for_TwoFloat.mul a (hp a 12))| ≤ 1 / 32 := by
    have := abs_sub_abs_le_abs_sub (rv (arithmetic.impl_Mul_TwoFloat_for_TwoFloat.mul a (hp a 12)))
      (rv a * rv (hp a 12))
    have := mul_le_mul_of_nonneg_left hprod (by positivity : (0 : ℝ) ≤ 7 / 2 ^ 106)
    have e : (7 : ℝ) / 2 ^ 106 * (1 / 64) + 1 / 2 ^ 950 + 1 / 64 ≤ 1 / 32 := by norm_num
    linarith
  obtain ⟨qvw, hq⟩ := add_one_rv m1vw (le_trans hm1abs (by norm_num))
  -- a dummy relative product bound to get the size of q first
  have hqsize : 99 / 100 ≤ |rv (arithmetic.impl_Add_f64_for_TwoFloat.add
      (arithmetic.impl_Mul_TwoFloat_for_TwoFloat.mul a (hp a 12)) (f64lit 0x3ff0000000000000))| ∧
      |rv (arithmetic.impl_Add_f64_for_TwoFloat.add
      (arithmetic.impl_Mul_TwoFloat_for_TwoFloat.mul a (hp a 12)) (f64lit 0x3ff0000000000000))| ≤ 101 / 100 := by
    have c := expm1_core_real (w := rv sx * rv (arithmetic.impl_Add_f64_for_TwoFloat.add
      (arithmetic.impl_Mul_TwoFloat_for_TwoFloat.mul a (hp a 12)) (f64lit 0x3ff0000000000000))) ht0 ht hs hpe hP1' hP2'
      hm1 hq (by rw [sub_self, abs_zero]; positivity)
    exact ⟨c.2.2, c.2.1⟩
  generalize arithmetic.impl_Add_f64_for_TwoFloat.add
      (arithmetic.impl_Mul_TwoFloat_for_TwoFloat.mul a (hp a 12)) (f64lit 0x3ff0000000000000) = qq at *
  have hprod2 : |rv sx * rv qq| ≤ 2 ^ 1019 := by
    rw [abs_mul, hs]
    calc rv a * |rv qq| ≤ 1 / 128 * (101 / 100) := mul_le_mul ht hqsize.2 (abs_nonneg _) (by norm_num)
      _ ≤ 2 ^ 1019 := by norm_num
  have hprod2lo : 1 / 2 ^ 957 ≤ |rv sx * rv qq| := by
    rw [abs_mul, hs]
    calc (1 : ℝ) / 2 ^ 957 ≤ 1 / 2 ^ 950 * (99 / 100) := by norm_num
      _ ≤ rv a * |rv qq| := mul_le_mul hlo hqsize.1 (by norm_num) ht0
  obtain ⟨wvw, hw⟩ := mul_rv_rel hsx qvw hprod2lo hprod2
  exact ⟨wvw, (expm1_core_real ht0 ht hs hpe hP1' hP2' hm1 hq hw).1⟩

end expm1

/-! ### the Horner loop of `exp_m1` on the whole Taylor branch (`0 ≤ t ≤ 0.7`): crude constant `30u²` -/

section wide
open F64 TwoFloat

theorem horner_step_wide {t a A m Cv c c' nw : ℝ}
    (ht0 : 0 ≤ t) (ht : t ≤ 7 / 10) (hA1 : c ≤ A) (hA2 : A ≤ 2 * c) (hc : 0 < c) (hcc : c ≤ c' / 2) (hc' : c' ≤ 1 / 2)
    (ha : |a - A| ≤ 30 / 2 ^ 106)
    (hm : |m - t * a| ≤ 7 / 2 ^ 106 * |t * a| + 1 / 2 ^ 950)
    (hC : |Cv - c'| ≤ c' / 2 ^ 107)
    (hn : |nw - (m + Cv)| ≤ cA * |m + Cv|) :
    |nw - (t * A + c')| ≤ 30 / 2 ^ 106 ∧ c' ≤ t * A + c' ∧ t * A + c' ≤ 2 * c' := by
  have hA0 : 0 ≤ A := by linarith
  have hAle : A ≤ c' := by linarith
  have hc'0 : 0 < c' := by linarith
  have htabs : |t| = t := abs_of_nonneg ht0
  have habsa : |a| ≤ 51 / 100 := by
    have := abs_sub_abs_le_abs_sub a A
    rw [abs_of_nonneg hA0] at this
    have e : (30 : ℝ) / 2 ^ 106 ≤ 1 / 100 := by norm_num
    linarith
  have hta : |t * a| ≤ 7 / 10 * (51 / 100) := by
    rw [abs_mul, htabs]; exact mul_le_mul ht habsa (abs_nonneg _) (by norm_num)
  have htA0 : 0 ≤ t * A := mul_nonneg ht0 hA0
  have htA : t * A ≤ 7 / 10 * c' := mul_le_mul ht hAle hA0 (by norm_num)
  refine ⟨?_, by linarith, by linarith⟩
  have e2 : |t * a - t * A| ≤ 7 / 10 * (30 / 2 ^ 106) := by
    rw [← mul_sub, abs_mul, htabs]
    exact mul_le_mul ht ha (abs_nonneg _) (by norm_num)
  have e3 : |m - t * A| ≤ 7 / 2 ^ 106 * (7 / 10 * (51 / 100)) + 1 / 2 ^ 950 + 7 / 10 * (30 / 2 ^ 106) := by
    have := abs_add_le (m - t * a) (t * a - t * A)
    rw [show m - t * a + (t * a - t * A) = m - t * A by ring] at this
    have := mul_le_mul_of_nonneg_left hta (by positivity : (0 : ℝ) ≤ 7 / 2 ^ 106)
    linarith
  have hmabs : |m| ≤ 36 / 100 := by
    have := abs_sub_abs_le_abs_sub m (t * A)
    rw [abs_of_nonneg htA0] at this
    have e : (7 : ℝ) / 2 ^ 106 * (7 / 10 * (51 / 100)) + 1 / 2 ^ 950 + 7 / 10 * (30 / 2 ^ 106) + 7 / 10 * (1 / 2)
        ≤ 36 / 100 := by norm_num
    linarith
  have e5 : |Cv - c'| ≤ 1 / 2 ^ 108 := by
    refine le_trans hC ?_
    rw [div_le_div_iff₀ (by positivity) (by positivity)]
    have : (2 : ℝ) ^ 108 = 2 * 2 ^ 107 := by norm_num
    rw [this]; nlinarith [show (0:ℝ) < 2 ^ 107 by positivity]
  have hCabs : |Cv| ≤ 1 / 2 + 1 / 2 ^ 108 := by
    have := abs_sub_abs_le_abs_sub Cv c'
    rw [abs_of_pos hc'0] at this
    linarith
  have hsum : |m + Cv| ≤ 87 / 100 := by
    have := abs_add_le m Cv
    have e : (36 : ℝ) / 100 + (1 / 2 + 1 / 2 ^ 108) ≤ 87 / 100 := by norm_num
    linarith
  have e4 : |nw - (m + Cv)| ≤ 301 / 100 / 2 ^ 106 * (87 / 100) := by
    refine le_trans hn ?_
    exact mul_le_mul cA_le' hsum (abs_nonneg _) (by positivity)
  have tri : |nw - (t * A + c')| ≤ |nw - (m + Cv)| + |m - t * A| + |Cv - c'| := by
    have h1 := abs_add_le (nw - (m + Cv)) ((m - t * A) + (Cv - c'))
    have h2 := abs_add_le (m - t * A) (Cv - c')
    rw [show nw - (m + Cv) + ((m - t * A) + (Cv - c')) = nw - (t * A + c') by ring] at h1
    linarith
  have fin : (301 : ℝ) / 100 / 2 ^ 106 * (87 / 100)
      + (7 / 2 ^ 106 * (7 / 10 * (51 / 100)) + 1 / 2 ^ 950 + 7 / 10 * (30 / 2 ^ 106))
      + 1 / 2 ^ 108 ≤ 30 / 2 ^ 106 := by norm_num
  linarith

/-- **the Horner loop of `exp_m1`, `0 ≤ y ≤ 0.7`**: every iterate within `30u²` (absolute) of the exact value -/
theorem horner_inv_wide {y : TwoFloat} (hy : VW y) (ht0 : 0 ≤ rv y) (ht : rv y ≤ 7 / 10) (j : ℕ) (hj : j ≤ 12) :
    VW (hp y j) ∧ |rv (hp y j) - PR (rv y) j| ≤ 30 / 2 ^ 106 ∧
      1 / (((14 - j : ℕ)).factorial : ℝ) ≤ PR (rv y) j ∧ PR (rv y) j ≤ 2 * (1 / (((14 - j : ℕ)).factorial : ℝ)) := by
  have htabs : |rv y| ≤ 7 / 10 := by rw [abs_of_nonneg ht0]; exact ht
  induction j with
  | zero =>
    obtain ⟨h1, h2, h3⟩ := FRAC_FACT_correct 14 (by norm_num)
    have hp0 : (0 : ℝ) < 1 / ((14 : ℕ).factorial : ℝ) := by positivity
    refine ⟨⟨h1, h2⟩, ?_, ?_, ?_⟩
    · show |rv (explog.FRAC_FACT.getD 14 default) - 1 / ((14 : ℕ).factorial : ℝ)| ≤ _
      refine le_trans h3 ?_
      have : (1 : ℝ) / ((14 : ℕ).factorial : ℝ) ≤ 1 := by
        rw [div_le_one (by positivity)]; exact_mod_cast Nat.one_le_iff_ne_zero.2 (Nat.factorial_ne_zero 14)
      calc 1 / ((14 : ℕ).factorial : ℝ) / 2 ^ 107 ≤ 1 / 2 ^ 107 :=
            div_le_div_of_nonneg_right this (by positivity)
        _ ≤ 30 / 2 ^ 106 := by norm_num
    · show 1 / ((14 : ℕ).factorial : ℝ) ≤ 1 / ((14 : ℕ).factorial : ℝ); exact le_refl _
    · show 1 / ((14 : ℕ).factorial : ℝ) ≤ _; linarith
  | succ j ih =>
    obtain ⟨hvw, ha, hA1, hA2⟩ := ih (by omega)
    obtain ⟨f1, f2, f3⟩ := fact_step j (by omega)
    obtain ⟨c1, c2, c3⟩ := FRAC_FACT_correct (13 - j) (by omega)
    have habsA : |PR (rv y) j| ≤ 1 := by
      rw [abs_of_nonneg (by linarith)]; linarith
    have habsa : |rv (hp y j)| ≤ 2 := by
      have := abs_sub_abs_le_abs_sub (rv (hp y j)) (PR (rv y) j)
      have e : (30 : ℝ) / 2 ^ 106 ≤ 1 := by norm_num
      linarith
    have hp2' : |rv y * rv (hp y j)| ≤ 2 := by
      rw [abs_mul]
      calc |rv y| * |rv (hp y j)| ≤ 7 / 10 * 2 := mul_le_mul htabs habsa (abs_nonneg _) (by norm_num)
        _ ≤ 2 := by norm_num
    obtain ⟨mvw, hm⟩ := mul_rv hy hvw (le_trans hp2' (by norm_num))
    have hmabs : |rv (arithmetic.impl_Mul_TwoFloat_for_TwoFloat.mul y (hp y j))| ≤ 2 ^ 1000 := by
      have := abs_sub_abs_le_abs_sub (rv (arithmetic.impl_Mul_TwoFloat_for_TwoFloat.mul y (hp y j)))
        (rv y * rv (hp y j))
      have := mul_le_mul_of_nonneg_left hp2' (by positivity : (0 : ℝ) ≤ 7 / 2 ^ 106)
      have e : (7 : ℝ) / 2 ^ 106 * 2 + 1 / 2 ^ 950 + 2 ≤ 2 ^ 1000 := by norm_num
      linarith
    have hCabs : |rv (explog.FRAC_FACT.getD (13 - j) default)| ≤ 2 ^ 1000 := by
      have := abs_sub_abs_le_abs_sub (rv (explog.FRAC_FACT.getD (13 - j) default))
        (1 / (((13 - j : ℕ)).factorial : ℝ))
      have hpos : (0 : ℝ) < 1 / (((13 - j : ℕ)).factorial : ℝ) := by positivity
      rw [abs_of_pos hpos] at this
      have : 1 / (((13 - j : ℕ)).factorial : ℝ) / 2 ^ 107 ≤ 1 := by
        refine le_trans (div_le_div_of_nonneg_right f2 (by positivity)) (by norm_num)
      have e : (1 : ℝ) / 2 + 1 ≤ 2 ^ 1000 := by norm_num
      linarith
    obtain ⟨nvw, hn⟩ := add_rv mvw ⟨c1, c2⟩ hmabs hCabs
    have key := horner_step_wide ht0 ht hA1 hA2 f3 f1 f2 ha hm c3 hn
    refine ⟨nvw, ?_, ?_, ?_⟩
    · exact key.1
    · have e : 14 - (j + 1) = 13 - j := by omega
      rw [e]; exact key.2.1
    · have e : 14 - (j + 1) = 13 - j := by omega
      rw [e]; exact key.2.2

/-- real-number core of `s·(t·P(t) + 1)` on the wide range -/
theorem expm1_core_wide {t s p Pe m1 q w : ℝ} (ht0 : 0 ≤ t) (ht : t ≤ 7 / 10) (hs : |s| = t)
    (hp : |p - Pe| ≤ 30 / 2 ^ 106) (hP1 : 1 / 2 ≤ Pe) (hP2 : Pe ≤ 1)
    (hm1 : |m1 - t * p| ≤ 7 / 2 ^ 106 * |t * p| + 1 / 2 ^ 950)
    (hq : |q - (m1 + 1)| ≤ 1 / 2 ^ 105 * |m1 + 1|)
    (hw : |w - s * q| ≤ 7 / 2 ^ 106 * |s * q|) :
    |w - s * (t * Pe + 1)| ≤ 42 / 2 ^ 106 * |s| ∧ |q| ≤ 18 / 10 ∧ 99 / 100 ≤ |q| := by
  have htabs : |t| = t := abs_of_nonneg ht0
  have hpabs : |p| ≤ 101 / 100 := by
    have := abs_sub_abs_le_abs_sub p Pe
    rw [abs_of_nonneg (by linarith : (0 : ℝ) ≤ Pe)] at this
    have e : (30 : ℝ) / 2 ^ 106 ≤ 1 / 100 := by norm_num
    linarith
  have htp : |t * p| ≤ 7 / 10 * (101 / 100) := by
    rw [abs_mul, htabs]; exact mul_le_mul ht hpabs (abs_nonneg _) (by norm_num)
  have d1 : |m1 - t * Pe| ≤ 26 / 2 ^ 106 := by
    have h1 := abs_add_le (m1 - t * p) (t * p - t * Pe)
    rw [show m1 - t * p + (t * p - t * Pe) = m1 - t * Pe by ring] at h1
    have h2 : |t * p - t * Pe| ≤ 7 / 10 * (30 / 2 ^ 106) := by
      rw [← mul_sub, abs_mul, htabs]; exact mul_le_mul ht hp (abs_nonneg _) (by norm_num)
    have h3 := mul_le_mul_of_nonneg_left htp (by positivity : (0 : ℝ) ≤ 7 / 2 ^ 106)
    have e : (7 : ℝ) / 2 ^ 106 * (7 / 10 * (101 / 100)) + 1 / 2 ^ 950 + 7 / 10 * (30 / 2 ^ 106) ≤ 26 / 2 ^ 106 := by
      norm_num
    linarith
  have htPe0 : 0 ≤ t * Pe := mul_nonneg ht0 (by linarith)
  have htPe : t * Pe ≤ 7 / 10 := by
    calc t * Pe ≤ 7 / 10 * 1 := mul_le_mul ht hP2 (by linarith) (by norm_num)
      _ = 7 / 10 := by ring
  have hm1abs : |m1| ≤ 71 / 100 := by
    have := abs_sub_abs_le_abs_sub m1 (t * Pe)
    rw [abs_of_nonneg htPe0] at this
    have e : (26 : ℝ) / 2 ^ 106 + 7 / 10 ≤ 71 / 100 := by norm_num
    linarith
  have hm11 : |m1 + 1| ≤ 171 / 100 := by
    have := abs_add_le m1 1
    rw [abs_one] at this; linarith
  have d2 : |q - (t * Pe + 1)| ≤ 295 / 10 / 2 ^ 106 := by
    have h1 := abs_add_le (q - (m1 + 1)) (m1 - t * Pe)
    rw [show q - (m1 + 1) + (m1 - t * Pe) = q - (t * Pe + 1) by ring] at h1
    have h3 := mul_le_mul_of_nonneg_left hm11 (by positivity : (0 : ℝ) ≤ 1 / 2 ^ 105)
    have e : (1 : ℝ) / 2 ^ 105 * (171 / 100) + 26 / 2 ^ 106 ≤ 295 / 10 / 2 ^ 106 := by norm_num
    linarith
  have hqabs : |q| ≤ 171 / 100 ∧ 99 / 100 ≤ |q| := by
    have h1 := abs_sub_abs_le_abs_sub q (t * Pe + 1)
    have h1' := abs_sub_abs_le_abs_sub (t * Pe + 1) q
    rw [abs_sub_comm] at h1'
    have h2 : |t * Pe + 1| = t * Pe + 1 := abs_of_pos (by linarith)
    rw [h2] at h1 h1'
    have e : (295 : ℝ) / 10 / 2 ^ 106 + 7 / 10 + 1 ≤ 171 / 100 := by norm_num
    have e' : (99 : ℝ) / 100 ≤ 1 - 295 / 10 / 2 ^ 106 := by norm_num
    constructor <;> linarith
  refine ⟨?_, le_trans hqabs.1 (by norm_num), hqabs.2⟩
  have hS := abs_nonneg s
  have hsq : |s * q| ≤ 171 / 100 * |s| := by
    rw [abs_mul, mul_comm]; exact mul_le_mul_of_nonneg_right hqabs.1 hS
  have h1 := abs_add_le (w - s * q) (s * q - s * (t * Pe + 1))
  rw [show w - s * q + (s * q - s * (t * Pe + 1)) = w - s * (t * Pe + 1) by ring] at h1
  have h2 : |s * q - s * (t * Pe + 1)| ≤ 295 / 10 / 2 ^ 106 * |s| := by
    rw [← mul_sub, abs_mul, mul_comm]; exact mul_le_mul_of_nonneg_right d2 hS
  have h3 := mul_le_mul_of_nonneg_left hsq (by positivity : (0 : ℝ) ≤ 7 / 2 ^ 106)
  have e : (7 : ℝ) / 2 ^ 106 * (171 / 100 * |s|) + 295 / 10 / 2 ^ 106 * |s| = 4147 / 100 / 2 ^ 106 * |s| := by ring
  have e' : (4147 : ℝ) / 100 / 2 ^ 106 * |s| ≤ 42 / 2 ^ 106 * |s| :=
    mul_le_mul_of_nonneg_right (by norm_num) hS
  linarith

/-- the Taylor-branch kernel on the wide range `2^-9 ≤ |x| ≤ 0.7` -/
theorem expm1_kernel_wide {a sx : TwoFloat} (ha : VW a) (hsx : VW sx) (hs : |rv sx| = rv a) (ht : rv a ≤ 7 / 10)
    (hlo : 1 / 2 ^ 9 ≤ rv a) :
    VW (arithmetic.impl_Mul_TwoFloat_for_TwoFloat.mul sx (arithmetic.impl_Add_f64_for_TwoFloat.add
      (arithmetic.impl_Mul_TwoFloat_for_TwoFloat.mul a (hp a 12)) (f64lit 0x3ff0000000000000))) ∧
    |rv (arithmetic.impl_Mul_TwoFloat_for_TwoFloat.mul sx (arithmetic.impl_Add_f64_for_TwoFloat.add
      (arithmetic.impl_Mul_TwoFloat_for_TwoFloat.mul a (hp a 12)) (f64lit 0x3ff0000000000000)))
      - rv sx * (rv a * PR (rv a) 12 + 1)| ≤ 42 / 2 ^ 106 * |rv sx| := by
  have ht0 : 0 ≤ rv a := by rw [← hs]; exact abs_nonneg _
  have hta : |rv a| ≤ 7 / 10 := by rw [abs_of_nonneg ht0]; exact ht
  obtain ⟨pvw, hpe, hP1, hP2⟩ := horner_inv_wide ha ht0 ht 12 (le_refl _)
  have e2 : ((14 - 12 : ℕ).factorial : ℝ) = 2 := by norm_num [Nat.factorial]
  rw [e2] at hP1 hP2
  have hP1' : (1 : ℝ) / 2 ≤ PR (rv a) 12 := hP1
  have hP2' : PR (rv a) 12 ≤ 1 := by linarith
  have hpabs : |rv (hp a 12)| ≤ 2 := by
    have := abs_sub_abs_le_abs_sub (rv (hp a 12)) (PR (rv a) 12)
    rw [abs_of_nonneg (by linarith : (0 : ℝ) ≤ PR (rv a) 12)] at this
    have e : (30 : ℝ) / 2 ^ 106 ≤ 1 := by norm_num
    linarith
  have hprod : |rv a * rv (hp a 12)| ≤ 2 := by
    rw [abs_mul]
    calc |rv a| * |rv (hp a 12)| ≤ 7 / 10 * 2 := mul_le_mul hta hpabs (abs_nonneg _) (by norm_num)
      _ ≤ 2 := by norm_num
  obtain ⟨m1vw, hm1⟩ := mul_rv ha pvw (le_trans hprod (by norm_num))
  have hm1abs : |rv (arithmetic.impl_Mul_TwoFloat_for_TwoFloat.mul a (hp a 12))| ≤ 3 := by
    have := abs_sub_abs_le_abs_sub (rv (arithmetic.impl_Mul_TwoFloat_for_TwoFloat.mul a (hp a 12)))
      (rv a * rv (hp a 12))
    have := mul_le_mul_of_nonneg_left hprod (by positivity : (0 : ℝ) ≤ 7 / 2 ^ 106)
    have e : (7 : ℝ) / 2 ^ 106 * 2 + 1 / 2 ^ 950 + 2 ≤ 3 := by norm_num
    linarith
  obtain ⟨qvw, hq⟩ := add_one_rv m1vw (le_trans hm1abs (by norm_num))
  have hqsize : 99 / 100 ≤ |rv (arithmetic.impl_Add_f64_for_TwoFloat.add
      (arithmetic.impl_Mul_TwoFloat_for_TwoFloat.mul a (hp a 12)) (f64lit 0x3ff0000000000000))| ∧
      |rv (arithmetic.impl_Add_f64_for_TwoFloat.add
      (arithmetic.impl_Mul_TwoFloat_for_TwoFloat.mul a (hp a 12)) (f64lit 0x3ff0000000000000))| ≤ 18 / 10 := by
    have c := expm1_core_wide (w := rv sx * rv (arithmetic.impl_Add_f64_for_TwoFloat.add
      (arithmetic.impl_Mul_TwoFloat_for_TwoFloat.mul a (hp a 12)) (f64lit 0x3ff0000000000000))) ht0 ht hs hpe hP1' hP2'
      hm1 hq (by rw [sub_self, abs_zero]; positivity)
    exact ⟨c.2.2, c.2.1⟩
  generalize arithmetic.impl_Add_f64_for_TwoFloat.add
      (arithmetic.impl_Mul_TwoFloat_for_TwoFloat.mul a (hp a 12)) (f64lit 0x3ff0000000000000) = qq at *
  have hprod2 : |rv sx * rv qq| ≤ 2 ^ 1019 := by
    rw [abs_mul, hs]
    calc rv a * |rv qq| ≤ 7 / 10 * (18 / 10) := mul_le_mul ht hqsize.2 (abs_nonneg _) (by norm_num)
      _ ≤ 2 ^ 1019 := by norm_num
  have hprod2lo : 1 / 2 ^ 957 ≤ |rv sx * rv qq| := by
    rw [abs_mul, hs]
    calc (1 : ℝ) / 2 ^ 957 ≤ 1 / 2 ^ 9 * (99 / 100) := by norm_num
      _ ≤ rv a * |rv qq| := mul_le_mul hlo hqsize.1 (by norm_num) ht0
  obtain ⟨wvw, hw⟩ := mul_rv_rel hsx qvw hprod2lo hprod2
  exact ⟨wvw, (expm1_core_wide ht0 ht hs hpe hP1' hP2' hm1 hq hw).1⟩

/-- Taylor truncation on the wide range: `t·(t·P(t) + 1)` against `e^t − 1`, `0 < t ≤ 0.7` -/
theorem taylor_wide {t : ℝ} (h0 : 0 < t) (ht : t ≤ 7 / 10) :
    |t * (t * PR t 12 + 1) - (Real.exp t - 1)| ≤ 1 / 2 ^ 47 * (Real.exp t - 1) ∧ t ≤ Real.exp t - 1 := by
  have h1 : t ≤ Real.exp t - 1 := by linarith [Real.add_one_le_exp t]
  refine ⟨?_, h1⟩
  have hb := expm1_taylor14 (t := t) (by rw [abs_of_pos h0]; linarith)
  rw [← PR_sum, abs_sub_comm, abs_of_pos h0] at hb
  refine le_trans hb ?_
  have h14 : t ^ 14 ≤ (7 / 10) ^ 14 := pow_le_pow_left₀ h0.le ht 14
  have e : t ^ 15 = t ^ 14 * t := pow_succ _ _
  rw [e]
  have h2 : t ^ 14 * t * (16 / (1307674368000 * 15)) ≤ (7 / 10) ^ 14 * t * (16 / (1307674368000 * 15)) :=
    mul_le_mul_of_nonneg_right (mul_le_mul_of_nonneg_right h14 h0.le) (by positivity)
  have h3 : ((7 : ℝ) / 10) ^ 14 * t * (16 / (1307674368000 * 15)) = ((7 / 10) ^ 14 * (16 / (1307674368000 * 15))) * t := by
    ring
  have h4 : ((7 : ℝ) / 10) ^ 14 * (16 / (1307674368000 * 15)) ≤ 1 / 2 ^ 47 := by norm_num
  have h5 : ((7 / 10) ^ 14 * (16 / (1307674368000 * 15))) * t ≤ 1 / 2 ^ 47 * t := mul_le_mul_of_nonneg_right h4 h0.le
  have h6 : (1 : ℝ) / 2 ^ 47 * t ≤ 1 / 2 ^ 47 * (Real.exp t - 1) := mul_le_mul_of_nonneg_left h1 (by positivity)
  linarith

end wide

/-! ## `exp` with the accuracy of `exp_half` as a parameter (sharper constants for small arguments) -/

section expbeta
open F64 TwoFloat

/-- **`exp` with the accuracy `β` of `exp_half(k)` as a parameter** (same proof as `ExpBound.exp_bound_split`):
`k = round(2x)`, `|x − k/2| ≤ 0.2501`, and the relative error of `exp(x)` is `5.2u² + β + 7u²` (+ cross terms) -/
theorem exp_bound_beta (x : TwoFloat) (hv : x.Valid) (hw : x.WF) (hlo : -600 ≤ rv x) (hhi : rv x ≤ 700) :
    VW (TwoFloat.exp x) ∧ ∃ k : ℤ, -1200 ≤ k ∧ k ≤ 1400 ∧ |rv x - (k : ℝ) / 2| ≤ 2501 / 10000 ∧
      ∀ β ε : ℝ, |rv (explog.exp_half (⟨k⟩ : I32)) - Real.exp ((k : ℝ) / 2)| ≤ β * Real.exp ((k : ℝ) / 2) →
        (52 / 10 / 2 ^ 106 + β + 52 / 10 / 2 ^ 106 * β)
          + 7 / 2 ^ 106 * (1 + (52 / 10 / 2 ^ 106 + β + 52 / 10 / 2 ^ 106 * β)) ≤ ε →
        |rv (TwoFloat.exp x) - Real.exp (rv x)| ≤ ε * Real.exp (rv x) := by
  have hU : (0 : ℝ) < 2 ^ 1074 := by positivity
  -- the high word is inside (−709, 709)
  have hVabs : |x.V| ≤ 700 * 2 ^ 1074 := by
    have h1 : |rv x| ≤ 700 := abs_le.2 ⟨by linarith, hhi⟩
    rw [rv_abs, div_le_iff₀ hU] at h1
    exact_mod_cast h1
  obtain ⟨b1, _⟩ := PowiBound.hi_bounds hv
  have hhiabs : |x.hi.toInt| < 709 * (F64.unit : ℤ) := by
    rw [unit_cast_eq]
    have hT : (0 : ℤ) < 2 ^ 1074 := by positivity
    generalize (2 : ℤ) ^ 1074 = T at *
    have : (0 : ℤ) ≤ |x.hi.toInt| := abs_nonneg _
    norm_num at b1
    omega
  obtain ⟨hl, hh⟩ := abs_lt.1 hhiabs
  have hl' : -(709 * (F64.unit : Int)) < x.hi.toInt := by linarith
  unfold TwoFloat.exp
  split_ifs with c1 c2 c3 c4
  · exfalso
    rw [PF.rle_eq, PF.EXP_LOWER_val, le_iff_toInt hv.1 rfl] at c1
    have : (fin true (709 * F64.unit)).toInt = -(709 * (F64.unit : Int)) := by
      show -((709 * F64.unit : Nat) : Int) = _; push_cast; rfl
    rw [this] at c1; omega
  · exfalso
    rw [PF.rge_eq', PF.EXP_UPPER_val, ge_iff_toInt hv.1 rfl] at c2
    have : (fin false (709 * F64.unit)).toInt = 709 * (F64.unit : Int) := by
      show ((709 * F64.unit : Nat) : Int) = _; push_cast; rfl
    rw [this] at c2; omega
  · -- x.hi = ±0, hence x = 0
    have h0 : x.hi.toInt = 0 := by
      rcases Ident.f64_eq_zero_cases _ c3 with e | e <;> rw [e] <;> rfl
    have hl0 : x.lo.toInt = 0 := by
      have := hv.abs_lo_le
      rw [h0, abs_zero] at this
      exact abs_eq_zero.1 (le_antisymm this (abs_nonneg _))
    have hx0 : rv x = 0 := by unfold rv TwoFloat.V; rw [h0, hl0]; simp
    have h1 : (convert.impl_From_f64_for_TwoFloat.from (f64lit 0x3ff0000000000000)).Valid := by decide +kernel
    have h2 : (convert.impl_From_f64_for_TwoFloat.from (f64lit 0x3ff0000000000000)).WF := by decide +kernel
    have h3 : (convert.impl_From_f64_for_TwoFloat.from (f64lit 0x3ff0000000000000)).V = (2 : ℤ) ^ 1074 := by
      decide +kernel
    refine ⟨⟨h1, h2⟩, ?_⟩
    have : rv (convert.impl_From_f64_for_TwoFloat.from (f64lit 0x3ff0000000000000)) = 1 := by
      unfold rv; rw [h3]
      simp only [Int.cast_pow, Int.cast_ofNat]
      exact div_self (by positivity : ((2 : ℝ) ^ 1074) ≠ 0)
    refine ⟨0, by norm_num, by norm_num, by rw [hx0]; norm_num, ?_⟩
    intro β ε hβ hε
    rw [this, hx0, Real.exp_zero]
    have hβ0 : 0 ≤ β := by
      have h5 := le_trans (abs_nonneg _) hβ
      exact nonneg_of_mul_nonneg_left h5 (Real.exp_pos _)
    have hε0 : 0 ≤ ε := by
      refine le_trans ?_ hε
      positivity
    simp only [sub_self, abs_zero, mul_one]
    exact hε0
  · exfalso
    have := hv.1
    cases hx : x.hi <;> rw [hx] at c4 this <;> simp_all [F64.is_nan, F64.is_finite]
  · -- the main branch
    obtain ⟨⟨zf, zb⟩, k, hyf, hyk, hkb⟩ := PF.exp_reduce x hv hw hl' hh
    dsimp only
    unfold TwoFloat.hi_m
    rw [PF.cast_f64_i32 hyf hyk (by omega)]
    generalize hy : (TwoFloat.round (arithmetic.impl_Mul_TwoFloat_for_f64.mul (f64lit 0x4000000000000000) x)).hi
      = y at *
    have hdiv : (y /. f64lit 0x4000000000000000) = F64.div y (f64lit 0x4000000000000000) := rfl
    rw [hdiv]
    -- y / 2 = k/2 exactly
    have htwo : IsVal (f64lit 0x4000000000000000) (2 * (F64.unit : Int)) := by
      rw [PF.lit_two]
      exact ⟨rfl, by show ((2 * F64.unit : Nat) : Int) = _; push_cast; ring⟩
    have hkabs : |k| ≤ 1418 := by rw [← Int.natCast_natAbs]; exact_mod_cast hkb
    have hM : (2 : Int) ^ 1090 ≤ (maxFin : Int) := by exact_mod_cast PF.maxFin_ge
    have hUz : (F64.unit : ℤ) = 2 ^ 1074 := unit_cast_eq
    have hP : (0 : ℤ) < 2 ^ 1073 := by positivity
    have hW : IsVal (F64.div y (f64lit 0x4000000000000000)) (k * 2 ^ 1073) := by
      apply IsVal.div_exact ⟨hyf, hyk⟩ htwo
      · rw [hUz]; positivity
      · rw [hUz]; ring
      · exact PF.repI_small_mul_pow2 _ (by omega)
      · rw [abs_mul, abs_of_pos hP]
        calc |k| * 2 ^ 1073 ≤ 1418 * 2 ^ 1073 := by nlinarith
          _ ≤ 2 ^ 1090 := by norm_num
          _ ≤ _ := hM
    have hWWF : (F64.div y (f64lit 0x4000000000000000)).WF := div_WF _ _
    generalize F64.div y (f64lit 0x4000000000000000) = Wf at *
    have hfvW : fv Wf = (k : ℝ) / 2 := by
      unfold fv; rw [hW.2]; push_cast
      rw [div_eq_div_iff (by positivity) (by norm_num)]
      have : (2 : ℝ) ^ 1074 = 2 ^ 1073 * 2 := by norm_num
      rw [this]; ring
    have hWb : Wf.toInt.natAbs < 2 ^ 2095 := by
      rw [hW.2]
      apply natAbs_lt_of_abs_lt
      rw [abs_mul, abs_of_pos hP]
      calc |k| * 2 ^ 1073 ≤ 1418 * 2 ^ 1073 := by nlinarith
        _ < 2 ^ 2095 := by norm_num
    have hxabs : |rv x| ≤ 2 ^ 1000 := by
      have : |rv x| ≤ 700 := abs_le.2 ⟨by linarith, hhi⟩
      exact le_trans this (by norm_num)
    obtain ⟨zvw, hz⟩ := sub_tf_rv ⟨hv, hw⟩ hW.1 hWWF hxabs hWb
    rw [hfvW] at hz
    generalize arithmetic.impl_Sub_f64_for_TwoFloat.sub x Wf = z at *
    -- |rv z| ≤ (1 + 2^-53)/4 and hence |D| ≤ 0.2501
    set D := rv x - (k : ℝ) / 2 with hD
    have hzabs : |rv z| ≤ 25001 / 100000 := by
      obtain ⟨_, c2⟩ := PowiBound.hi_bounds zvw.1
      have hzb : |z.hi.toInt| ≤ 2 ^ 1072 := by
        have := abs_le_of_natAbs_le zb; exact_mod_cast this
      have hzV : |z.V| ≤ 2 ^ 1072 + 2 ^ 1020 := by
        have e1 : (2 : ℤ) ^ 1072 = 2 ^ 52 * 2 ^ 1020 := by norm_num
        rw [e1] at hzb ⊢
        generalize (2 : ℤ) ^ 1020 = T at *
        norm_num at c2 ⊢
        omega
      rw [rv_abs, div_le_iff₀ hU]
      have : ((|z.V| : ℤ) : ℝ) ≤ (((2 : ℤ) ^ 1072 + 2 ^ 1020 : ℤ) : ℝ) := by exact_mod_cast hzV
      refine le_trans this ?_
      push_cast
      norm_num
    have hDabs : |D| ≤ 2501 / 10000 := by
      have h1 := abs_sub_abs_le_abs_sub D (rv z)
      rw [abs_sub_comm D (rv z)] at h1
      have h2 : (1 : ℝ) / 2 ^ 105 * |D| ≤ 1 / 1000000 * |D| :=
        mul_le_mul_of_nonneg_right (by norm_num) (abs_nonneg _)
      linarith
    -- the range of k
    have hk1 : -1200 ≤ k := by
      obtain ⟨d1, _⟩ := abs_le.1 hDabs
      have : (-1201 : ℝ) < (k : ℝ) := by rw [hD] at d1; linarith
      have : (-1201 : ℤ) < k := by exact_mod_cast this
      omega
    have hk2 : k ≤ 1400 := by
      obtain ⟨_, d2⟩ := abs_le.1 hDabs
      have : (k : ℝ) < 1401 := by rw [hD] at d2; linarith
      have : k < (1401 : ℤ) := by exact_mod_cast this
      omega
    obtain ⟨rvw, hr, hrabs⟩ := expm1_quarter_bound zvw zb
    obtain ⟨ezvw, hez⟩ := add_one_rv rvw (le_trans hrabs (by norm_num))
    obtain ⟨eyvw, hey⟩ := exp_half_bound k hk1 (by omega)
    have hey0 : 0 ≤ k → |rv (explog.exp_half (⟨k⟩ : I32)) - Real.exp ((k : ℝ) / 2)|
        ≤ 81 / 10 / 2 ^ 106 * Real.exp ((k : ℝ) / 2) := fun h => (exp_half_nonneg 1 k h (by omega)).2
    obtain ⟨y1, y2⟩ := exp_half_range hk1 hk2
    have hY := Real.exp_pos ((k : ℝ) / 2)
    generalize TwoFloat.expm1_quarter z = r at *
    generalize arithmetic.impl_Add_f64_for_TwoFloat.add r (f64lit 0x3ff0000000000000) = ez at *
    generalize hey_def : explog.exp_half (⟨k⟩ : I32) = ey at *
    -- crude ranges for the final product
    have hezr : 1 / 4 ≤ |rv ez| ∧ |rv ez| ≤ 2 := by
      have h1 := abs_sub_abs_le_abs_sub (rv ez) (rv r + 1)
      have h2 := abs_sub_abs_le_abs_sub (rv r + 1) (rv ez)
      rw [abs_sub_comm] at h2
      obtain ⟨r1, r2⟩ := abs_le.1 hrabs
      have h3 : |rv r + 1| = rv r + 1 := abs_of_pos (by linarith)
      rw [h3] at h1 h2 hez
      have h4 : (1 : ℝ) / 2 ^ 105 * (rv r + 1) ≤ 1 / 2 ^ 105 * (3 / 2) :=
        mul_le_mul_of_nonneg_left (by linarith) (by positivity)
      have e : (1 : ℝ) / 2 ^ 105 * (3 / 2) ≤ 1 / 4 := by norm_num
      constructor <;> linarith
    have heyr : Real.exp ((k : ℝ) / 2) / 2 ≤ |rv ey| ∧ |rv ey| ≤ 2 * Real.exp ((k : ℝ) / 2) := by
      have h1 := abs_sub_abs_le_abs_sub (rv ey) (Real.exp ((k : ℝ) / 2))
      have h2 := abs_sub_abs_le_abs_sub (Real.exp ((k : ℝ) / 2)) (rv ey)
      rw [abs_sub_comm] at h2
      rw [abs_of_pos hY] at h1 h2
      have : (242 : ℝ) / 10 / 2 ^ 106 * Real.exp ((k : ℝ) / 2) ≤ Real.exp ((k : ℝ) / 2) / 2 := by
        have : (242 : ℝ) / 10 / 2 ^ 106 ≤ 1 / 2 := by norm_num
        nlinarith
      constructor <;> linarith
    have hp1 : |rv ez * rv ey| ≤ 2 ^ 1019 := by
      rw [abs_mul]
      calc |rv ez| * |rv ey| ≤ 2 * (2 * Real.exp ((k : ℝ) / 2)) :=
            mul_le_mul hezr.2 heyr.2 (abs_nonneg _) (by norm_num)
        _ ≤ 2 * (2 * 2 ^ 1011) := by linarith
        _ ≤ 2 ^ 1019 := by norm_num
    have hp0 : 1 / 2 ^ 957 ≤ |rv ez * rv ey| := by
      rw [abs_mul]
      calc (1 : ℝ) / 2 ^ 957 ≤ 1 / 4 * (1 / 2 ^ 867 / 2) := by norm_num
        _ ≤ 1 / 4 * (Real.exp ((k : ℝ) / 2) / 2) := by
            apply mul_le_mul_of_nonneg_left _ (by norm_num); linarith
        _ ≤ |rv ez| * |rv ey| := mul_le_mul hezr.1 heyr.1 (by positivity) (abs_nonneg _)
    obtain ⟨resvw, hres⟩ := mul_rv_rel ezvw eyvw hp0 hp1
    obtain ⟨resvw, hres⟩ := mul_rv_rel ezvw eyvw hp0 hp1
    have e : Real.exp D * Real.exp ((k : ℝ) / 2) = Real.exp (rv x) := by
      rw [← Real.exp_add, hD]; congr 1; ring
    refine ⟨resvw, k, hk1, hk2, hDabs, ?_⟩
    intro β ε hβ hε
    rw [hey_def] at hβ
    have fin := (exp_final_real hDabs hz hr hez hY hβ hres hε).1
    rw [e] at fin
    exact fin

def halfIdxOK (i : ℕ) : Bool :=
  decide (explog.exp_half (⟨(i : ℤ)⟩ : I32) =
    if i = 0 then convert.impl_From_i32_for_TwoFloat.from (1 : I32)
    else explog.exp_half.EXP_HALF_N.getD (i - 1) default)

theorem half_idx_check : (List.range 32).all halfIdxOK = true := by decide +kernel

/-- **`exp_half(k)` for `0 ≤ k ≤ 31`** is `1` or a single table entry: relative error at most `2^-107` -/
theorem exp_half_table (k : ℤ) (h0 : 0 ≤ k) (h1 : k ≤ 31) :
    |rv (explog.exp_half (⟨k⟩ : I32)) - Real.exp ((k : ℝ) / 2)| ≤ 1 / 2 ^ 107 * Real.exp ((k : ℝ) / 2) := by
  obtain ⟨i, rfl⟩ := Int.eq_ofNat_of_zero_le h0
  have hi : i < 32 := by omega
  have h := List.all_eq_true.1 half_idx_check i (List.mem_range.2 hi)
  unfold halfIdxOK at h
  rw [of_decide_eq_true h]
  by_cases hz : i = 0
  · subst hz
    rw [if_pos rfl]
    have h3 : (convert.impl_From_i32_for_TwoFloat.from (1 : I32)).V = (2 : ℤ) ^ 1074 := by decide +kernel
    have : rv (convert.impl_From_i32_for_TwoFloat.from (1 : I32)) = 1 := by
      unfold rv; rw [h3]
      simp only [Int.cast_pow, Int.cast_ofNat]
      exact div_self (by positivity : ((2 : ℝ) ^ 1074) ≠ 0)
    rw [this]
    norm_num
  · rw [if_neg hz]
    obtain ⟨-, hb⟩ := EH_entry (i - 1) (by omega)
    have e : (((i - 1 : ℕ) : ℝ) + 1) / 2 = (((i : ℕ) : ℤ) : ℝ) / 2 := by
      have : ((i - 1 : ℕ) : ℝ) + 1 = (i : ℝ) := by
        have : 1 ≤ i := Nat.one_le_iff_ne_zero.2 hz
        push_cast [Nat.cast_sub this]; ring
      rw [this]; push_cast; rfl
    rw [e] at hb
    refine le_trans hb ?_
    rw [div_eq_mul_one_div, mul_comm]

/-- **accuracy of `exp` for `−0.2 ≤ x ≤ 15.7`** (`0 ≤ k = round(2x) ≤ 31`: no table product, no division):
relative error at most `12.8u²` -/
theorem exp_bound_small_k (x : TwoFloat) (hv : x.Valid) (hw : x.WF) (hlo : -(1 / 5) ≤ rv x) (hhi : rv x ≤ 157 / 10) :
    VW (TwoFloat.exp x) ∧ |rv (TwoFloat.exp x) - Real.exp (rv x)| ≤ 128 / 10 / 2 ^ 106 * Real.exp (rv x) := by
  obtain ⟨evw, k, -, -, hD, hall⟩ := exp_bound_beta x hv hw (by linarith) (by linarith)
  refine ⟨evw, ?_⟩
  obtain ⟨d1, d2⟩ := abs_le.1 hD
  have hk0 : 0 ≤ k := by
    have : (-1 : ℝ) < (k : ℝ) := by linarith
    have : (-1 : ℤ) < k := by exact_mod_cast this
    omega
  have hk1 : k ≤ 31 := by
    have : (k : ℝ) < 32 := by linarith
    have : k < (32 : ℤ) := by exact_mod_cast this
    omega
  exact hall (1 / 2 ^ 107) (128 / 10 / 2 ^ 106) (exp_half_table k hk0 hk1) (by norm_num)

end expbeta

end Exp2Bound
