/-
Lemmas.InvMath — helper lemmas for property C01 on the mathematical functions (`TFV/Properties/C01m.lean`).

 §1  a crude magnitude calculus on doubles: `Bnd f k` (`f` finite, `|f| ≤ 2^k` scaled units), propagated through
     `+ − × ÷ fma`, `new_sub`, `TwoFloat − TwoFloat` for ALL magnitudes including the subnormal range;
 §2  `good_sqrt`: `TwoFloat::sqrt` preserves the invariant for EVERY well-formed argument satisfying it.  The final raw
     `new_add y t` (2Sum without renormalisation, which CAN break the invariant near overflow —
     `C01.new_add_breaks_inv`) only ever sees `|y| ≤ 2^525`; for `hi ≥ 2^1000` an overflow inside `self − y·y`
     (e.g. `sqrt(f64::MAX) = NaN`) propagates to the high word; `hi ≤ 2^-890` by magnitudes; in between `sqrt_val`;
 §3  `good_div_tf_pow2`: `TwoFloat / 2^j` (`j ≤ 52`) preserves the invariant for ALL magnitudes — the subnormal-quotient
     case that `C01.div_tf_f64_inv_of_normal_quotient` leaves open is settled for power-of-two divisors
     (`dwdivfp_pow2_int`); instances `/ 2.0` (cosh, sinh, asin, atanh) and `/ 512.0` (exp2);
 §4  `good_scale`, `good_exp2`: the closing `fast_two_sum (mul_pow2 hi k) (mul_pow2 lo k)` of `exp2` keeps
     `|lo'| ≤ |hi'|` (multiplying both words by the same double is monotone), hence `exp2` preserves the invariant
     for every argument, results in the subnormal range and overflow included.
-/
import TFV.Lemmas.SqrtBound
import TFV.Lemmas.DivInv
import TFV.Lemmas.PanicFree
import TFV.Properties.C01d
import TFV.Properties.C02
import TFV.Properties.C14p

set_option exponentiation.threshold 4000

namespace InvMath

open F64 TwoFloat

/-! ## 1. magnitude calculus -/

/-- `f` is finite of magnitude at most `2^k` units (`2^(k-1074)`) -/
def Bnd (f : F64) (k : ℕ) : Prop := f.is_finite = true ∧ |f.toInt| ≤ (2 : ℤ) ^ k

theorem Bnd.mono {f : F64} {j k : ℕ} (h : Bnd f j) (hjk : j ≤ k) : Bnd f k :=
  ⟨h.1, le_trans h.2 (pow_le_pow_right₀ (by norm_num) hjk)⟩

theorem Bnd.isVal {f : F64} {k : ℕ} (h : Bnd f k) : IsVal f f.toInt := ⟨h.1, rfl⟩

theorem Bnd.of_isVal {f : F64} {v : ℤ} {k : ℕ} (h : IsVal f v) (hv : |v| ≤ (2 : ℤ) ^ k) : Bnd f k :=
  ⟨h.1, by rw [h.2]; exact hv⟩

/-- every finite well-formed double is below `2^1024` -/
theorem Bnd.of_WF {f : F64} (hf : f.is_finite = true) (hw : f.WF) : Bnd f 2098 := by
  refine ⟨hf, le_trans hw.abs_toInt_le ?_⟩
  have : maxFin ≤ 2 ^ 2098 := by
    unfold maxFin
    calc (2 ^ 53 - 1) * 2 ^ 2045 ≤ 2 ^ 53 * 2 ^ 2045 := Nat.mul_le_mul_right _ (by norm_num)
      _ = 2 ^ 2098 := by rw [← Nat.pow_add]
  exact_mod_cast this

theorem two_pow_le_maxFin' {k : ℕ} (hk : k ≤ 2097) : (2 : ℤ) ^ k ≤ (maxFin : ℤ) :=
  two_pow_le_maxFin_int hk

theorem abs_two_pow' (k : ℕ) : |(2 : ℤ) ^ k| = 2 ^ k := abs_of_pos (by positivity)

theorem Bnd.neg {a : F64} {k : ℕ} (ha : Bnd a k) : Bnd (F64.neg a) k :=
  ⟨by rw [is_finite_neg]; exact ha.1, by rw [toInt_neg, abs_neg]; exact ha.2⟩

theorem Bnd.add {a b : F64} {k : ℕ} (ha : Bnd a k) (hb : Bnd b k) (hk : k + 1 ≤ 2097) :
    Bnd (F64.add a b) (k + 1) := by
  have hs : |a.toInt + b.toInt| ≤ (2 : ℤ) ^ (k + 1) := by
    have := abs_add_le a.toInt b.toInt
    rw [pow_succ]; linarith [ha.2, hb.2]
  have h := ha.isVal.add hb.isVal (le_trans hs (two_pow_le_maxFin' hk))
  refine ⟨h.1, ?_⟩
  rw [h.2]
  have := abs_rnI_le (v := a.toInt + b.toInt) (TwoFloat.repI_two_pow (k + 1)) (by rw [abs_two_pow']; exact hs)
  rwa [abs_two_pow'] at this

theorem Bnd.sub {a b : F64} {k : ℕ} (ha : Bnd a k) (hb : Bnd b k) (hk : k + 1 ≤ 2097) :
    Bnd (F64.sub a b) (k + 1) := by
  have hs : |a.toInt - b.toInt| ≤ (2 : ℤ) ^ (k + 1) := by
    have := abs_sub a.toInt b.toInt
    rw [pow_succ]; linarith [ha.2, hb.2]
  have h := ha.isVal.sub hb.isVal (le_trans hs (two_pow_le_maxFin' hk))
  refine ⟨h.1, ?_⟩
  rw [h.2]
  have := abs_rnI_le (v := a.toInt - b.toInt) (TwoFloat.repI_two_pow (k + 1)) (by rw [abs_two_pow']; exact hs)
  rwa [abs_two_pow'] at this

/-- product: `|a| ≤ 2^i`, `|b| ≤ 2^j` units, `i + j ≤ k + 1074` -/
theorem Bnd.mul {a b : F64} {i j k : ℕ} (ha : Bnd a i) (hb : Bnd b j) (hij : i + j ≤ k + 1074) (hk : k ≤ 2097) :
    Bnd (F64.mul a b) k := by
  have hp : |a.toInt * b.toInt| ≤ (2 : ℤ) ^ k * (unit : ℤ) := by
    rw [abs_mul, C01d.unit_int_eq, ← pow_add]
    calc |a.toInt| * |b.toInt| ≤ 2 ^ i * 2 ^ j := mul_le_mul ha.2 hb.2 (abs_nonneg _) (by positivity)
      _ = 2 ^ (i + j) := by rw [pow_add]
      _ ≤ 2 ^ (k + 1074) := pow_le_pow_right₀ (by norm_num) hij
  have h := mul_spec ha.1 hb.1 (roundQ_le_maxFin_of_abs_le k hk unit_pos hp)
  exact ⟨h.1, by rw [h.2]; exact rqI_abs_le k unit_pos hp⟩

/-- fused multiply-add -/
theorem Bnd.fma {a b c : F64} {i j k : ℕ} (ha : Bnd a i) (hb : Bnd b j) (hc : Bnd c k) (hij : i + j ≤ k + 1074)
    (hk : k + 1 ≤ 2097) : Bnd (F64.fma a b c) (k + 1) := by
  have hp : |a.toInt * b.toInt + c.toInt * (unit : ℤ)| ≤ (2 : ℤ) ^ (k + 1) * (unit : ℤ) := by
    have h1 : |a.toInt * b.toInt| ≤ (2 : ℤ) ^ k * (unit : ℤ) := by
      rw [abs_mul, C01d.unit_int_eq, ← pow_add]
      calc |a.toInt| * |b.toInt| ≤ 2 ^ i * 2 ^ j := mul_le_mul ha.2 hb.2 (abs_nonneg _) (by positivity)
        _ = 2 ^ (i + j) := by rw [pow_add]
        _ ≤ 2 ^ (k + 1074) := pow_le_pow_right₀ (by norm_num) hij
    have h2 : |c.toInt * (unit : ℤ)| ≤ (2 : ℤ) ^ k * (unit : ℤ) := by
      rw [abs_mul_pos_right _ unit_pos_int]
      exact mul_le_mul_of_nonneg_right hc.2 unit_pos_int.le
    have := abs_add_le (a.toInt * b.toInt) (c.toInt * (unit : ℤ))
    rw [pow_succ]; linarith
  have h := fma_spec ha.1 hb.1 hc.1 (roundQ_le_maxFin_of_abs_le (k + 1) hk unit_pos hp)
  exact ⟨h.1, by rw [h.2]; exact rqI_abs_le (k + 1) unit_pos hp⟩

/-- quotient by a divisor of magnitude at least `2^m` units: `|a| ≤ 2^i`, `i + 1074 ≤ k + m` -/
theorem Bnd.div {a b : F64} {i k m : ℕ} (ha : Bnd a i) (hb : b.is_finite = true) (hm : (2 : ℤ) ^ m ≤ |b.toInt|)
    (him : i + 1074 ≤ k + m) (hk : k ≤ 2097) : Bnd (F64.div a b) k := by
  have hb0 : b.toInt ≠ 0 := by
    intro h0; rw [h0, abs_zero] at hm
    have : (0 : ℤ) < 2 ^ m := by positivity
    omega
  have hp : |a.toInt * (unit : ℤ)| ≤ (2 : ℤ) ^ k * |b.toInt| := by
    rw [abs_mul_pos_right _ unit_pos_int, C01d.unit_int_eq]
    calc |a.toInt| * 2 ^ 1074 ≤ 2 ^ i * 2 ^ 1074 := mul_le_mul_of_nonneg_right ha.2 (by positivity)
      _ = 2 ^ (i + 1074) := by rw [pow_add]
      _ ≤ 2 ^ (k + m) := pow_le_pow_right₀ (by norm_num) him
      _ = 2 ^ k * 2 ^ m := by rw [pow_add]
      _ ≤ 2 ^ k * |b.toInt| := mul_le_mul_of_nonneg_left hm (by positivity)
  have h' : (a.toInt * (unit : ℤ)).natAbs ≤ 2 ^ k * b.toInt.natAbs := by
    have : (((a.toInt * (unit : ℤ)).natAbs : ℕ) : ℤ) ≤ ((2 ^ k * b.toInt.natAbs : ℕ) : ℤ) := by
      rw [Int.natCast_natAbs]; push_cast; exact hp
    exact_mod_cast this
  have hr := roundQ_le_of_le (Int.natAbs_pos.2 hb0) (rep_two_pow k) h'
  have hmx : roundQ (a.toInt * (unit : ℤ)).natAbs b.toInt.natAbs ≤ maxFin :=
    le_trans hr (le_trans (Nat.pow_le_pow_right (by decide) hk) two_pow_2097_le_maxFin)
  have h := div_spec ha.1 hb hb0 hmx
  refine ⟨h.1, ?_⟩
  rw [h.2, abs_rdI _ hb0]
  exact_mod_cast hr

theorem Bnd.natAbs_lt {f : F64} {k : ℕ} (h : Bnd f k) (hk : k < 2097) : f.toInt.natAbs < 2 ^ 2097 :=
  lt_of_le_of_lt (natAbs_le_of_abs_le (m := 2 ^ k) (by push_cast; exact h.2))
    (Nat.pow_lt_pow_right (by decide) hk)

/-- magnitudes of the two words of `new_sub` -/
theorem new_sub_bnd {a b : F64} {k : ℕ} (ha : Bnd a k) (hb : Bnd b k) (hk : k + 5 ≤ 2097) :
    Bnd (TwoFloat.new_sub a b).hi (k + 1) ∧ Bnd (TwoFloat.new_sub a b).lo (k + 5) := by
  rw [new_sub_eq]
  have s := ha.sub hb (by omega)
  have aa := s.add (hb.mono (by omega)) (by omega)
  have bb := (s.mono (by omega : k + 1 ≤ k + 1 + 1)).sub aa (by omega)
  have da := (ha.mono (by omega : k ≤ k + 1 + 1)).sub aa (by omega)
  have db := (hb.mono (by omega : k ≤ k + 1 + 1 + 1)).add bb (by omega)
  have lo := (da.mono (by omega : k + 1 + 1 + 1 ≤ k + 1 + 1 + 1 + 1)).sub db (by omega)
  exact ⟨s, lo⟩

/-- magnitude of the high word of `TwoFloat − TwoFloat` for finite words of magnitude at most `2^k`, valid or not -/
theorem sub_tt_hi_bnd {x y : TwoFloat} {k : ℕ} (hx1 : Bnd x.hi k) (hx2 : Bnd x.lo k) (hy1 : Bnd y.hi k)
    (hy2 : Bnd y.lo k) (hk : k + 11 ≤ 2097) :
    Bnd (arithmetic.impl_Sub_rTwoFloat_for_rTwoFloat.sub x y).hi (k + 11) := by
  rw [sub_tt_eq]
  obtain ⟨sh, sl⟩ := new_sub_bnd hx1 hy1 (by omega)
  obtain ⟨th, tl⟩ := new_sub_bnd hx2 hy2 (by omega)
  unfold addCore
  rw [fast_two_sum_eq, fast_two_sum_eq]
  have c := sl.add (th.mono (by omega)) (by omega)
  have vh := (sh.mono (by omega : k + 1 ≤ k + 5 + 1)).add c (by omega)
  have z := vh.sub (sh.mono (by omega)) (by omega)
  have vl := (c.mono (by omega : k + 5 + 1 ≤ k + 5 + 1 + 1 + 1)).sub z (by omega)
  have w := (tl.mono (by omega : k + 5 ≤ k + 5 + 1 + 1 + 1 + 1)).add vl (by omega)
  have hi := (vh.mono (by omega : k + 5 + 1 + 1 ≤ k + 5 + 1 + 1 + 1 + 1 + 1)).add w (by omega)
  exact hi.mono (by omega)

theorem one_bnd : Bnd (f64lit 0x3ff0000000000000) 1074 :=
  Bnd.of_isVal C01d.one_isVal (by rw [C01d.unit_int_eq, abs_two_pow'])

theorem half_bnd : Bnd (f64lit 0x3fe0000000000000) 1073 := by
  rw [half_eq]
  refine ⟨rfl, ?_⟩
  show |((2 ^ 1073 : ℕ) : ℤ)| ≤ 2 ^ 1073
  rw [abs_of_nonneg (Int.natCast_nonneg _)]
  push_cast

/-! ## 2. `TwoFloat::sqrt` -/

/-- lower bound on the correctly rounded root of a positive double: `2^(2m+2) ≤ n·2^1074` gives `2^m ≤ √` -/
theorem sqrt_ge {n : ℕ} (hn : 0 < n) (m : ℕ) (hm : 2 ^ (2 * m + 2) ≤ n * unit) :
    ∃ r : ℕ, F64.sqrt (fin false n) = fin false r ∧ 2 ^ m ≤ r := by
  obtain ⟨q', e0, h0, h1, h2, h3, h4, h5⟩ := sqrt_spec n hn
  refine ⟨_, h0, ?_⟩
  have h7 : (2 * q' + 1) * 2 ^ e0 ≤ 2 * (q' * 2 ^ (e0 + 1)) := by
    rw [pow_succ]
    have hp : 0 < 2 ^ e0 := Nat.two_pow_pos e0
    have : 2 * q' + 1 ≤ 4 * q' := by omega
    calc (2 * q' + 1) * 2 ^ e0 ≤ (4 * q') * 2 ^ e0 := Nat.mul_le_mul_right _ this
      _ = 2 * (q' * (2 ^ e0 * 2)) := by ring
  by_contra hc
  have hlt : q' * 2 ^ (e0 + 1) < 2 ^ m := Nat.lt_of_not_le hc
  have h8 : (2 * q' + 1) * 2 ^ e0 < 2 ^ (m + 1) := by
    rw [pow_succ]; omega
  have h9 : ((2 * q' + 1) * 2 ^ e0) ^ 2 < (2 ^ (m + 1)) ^ 2 := Nat.pow_lt_pow_left h8 (by norm_num)
  have e : ((2 : ℕ) ^ (m + 1)) ^ 2 = 2 ^ (2 * m + 2) := by rw [← pow_mul]; congr 1; ring
  omega

/-- a finite double with positive value is `fin false n`, `n > 0` -/
theorem pos_form {f : F64} (hf : f.is_finite = true) (hpos : 0 < f.toInt) : ∃ n : ℕ, f = fin false n ∧ 0 < n := by
  obtain ⟨sg, n, hsn⟩ := is_finite_iff.1 hf
  cases sg
  · refine ⟨n, hsn, ?_⟩
    rw [hsn] at hpos
    have : (fin false n).toInt = (n : ℤ) := rfl
    rw [this] at hpos
    exact_mod_cast hpos
  · exfalso; rw [hsn] at hpos; simp [toInt] at hpos; omega

/-- **`sqrt` of a tiny argument** (`0 < hi ≤ 2^-890`, any valid pair, including subnormal words): every operation of
the Newton step stays finite and small, so the final 2Sum is exact -/
theorem sqrt_tiny_inv {s : TwoFloat} (hv : s.Valid) (hpos : 0 < s.hi.toInt) (hhi : s.hi.toInt ≤ 2 ^ 184) :
    (TwoFloat.sqrt s).Inv := by
  rw [sqrt_eq_of_hi_pos s hv.1 hpos]
  obtain ⟨n, hsn, hn⟩ := pos_form hv.1 hpos
  obtain ⟨r, hr, hr536⟩ := sqrt_ge hn 536 (by
    rw [unit_eq]
    calc 2 ^ (2 * 536 + 2) = 1 * 2 ^ 1074 := by norm_num
      _ ≤ n * 2 ^ 1074 := Nat.mul_le_mul_right _ hn)
  have bH : Bnd s.hi 184 := ⟨hv.1, by rw [abs_of_pos hpos]; exact hhi⟩
  have bL : Bnd s.lo 184 := ⟨hv.2.1, le_trans hv.abs_lo_le bH.2⟩
  rw [hsn] at bH ⊢
  rw [hr]
  have hrf : (fin false r).is_finite = true := rfl
  have hrm : (2 : ℤ) ^ 536 ≤ |(fin false r).toInt| := by
    show (2 : ℤ) ^ 536 ≤ |((r : ℕ) : ℤ)|
    rw [abs_of_nonneg (Int.natCast_nonneg _)]
    exact_mod_cast hr536
  have bX : Bnd (F64.recip (fin false r)) 1612 :=
    Bnd.div (k := 1612) (m := 536) one_bnd hrf hrm (by norm_num) (by norm_num)
  have bY := Bnd.mul (k := 722) bH bX (by norm_num) (by norm_num)
  generalize F64.recip (fin false r) = X at *
  generalize hY : F64.mul (fin false n) X = Y at *
  have bP := Bnd.mul (k := 370) bY bY (by norm_num) (by norm_num)
  have bE := Bnd.fma (k := 370) bY bY bP.neg (by norm_num) (by norm_num)
  have bD := sub_tt_hi_bnd (x := s) (y := TwoFloat.new_mul Y Y) (k := 371)
    (by rw [hsn]; exact bH.mono (by norm_num)) (bL.mono (by norm_num))
    (by rw [new_mul_eq]; exact bP.mono (by norm_num)) (by rw [new_mul_eq]; exact bE) (by norm_num)
  have bXh := Bnd.mul (k := 1611) bX half_bnd (by norm_num) (by norm_num)
  have bC := Bnd.mul (k := 919) bD bXh (by norm_num) (by norm_num)
  have hsub : (s -. TwoFloat.new_mul Y Y) = arithmetic.impl_Sub_rTwoFloat_for_rTwoFloat.sub s (TwoFloat.new_mul Y Y) := rfl
  rw [hsub]
  have hYw : Y.WF := by rw [← hY]; exact mul_WF _ _
  exact (C01.new_add_inv _ _ hYw (mul_WF _ _)
    (Or.inr (Or.inl ⟨bY.natAbs_lt (by norm_num), bC.natAbs_lt (by norm_num)⟩))).1

/-- **`sqrt` of a huge argument** (`hi ≥ 2^1000`, up to `f64::MAX`): `y ≤ 2^525`, the correction `t` is either
non-finite (an overflow inside `self − y·y` propagates to the high word) or at most `2^524`: the raw 2Sum is safe -/
theorem sqrt_big_inv {s : TwoFloat} (hv : s.Valid) (hw : s.WF) (hpos : 0 < s.hi.toInt)
    (hbig : 2 ^ 2074 ≤ s.hi.toInt) : (TwoFloat.sqrt s).Inv := by
  rw [sqrt_eq_of_hi_pos s hv.1 hpos]
  obtain ⟨n, hsn, hn⟩ := pos_form hv.1 hpos
  have hn2 : 2 ^ 2074 ≤ n := by
    rw [hsn] at hbig
    have : (fin false n).toInt = (n : ℤ) := rfl
    rw [this] at hbig
    exact_mod_cast hbig
  obtain ⟨r, hr, hrge⟩ := sqrt_ge hn 1573 (by
    rw [unit_eq]
    calc 2 ^ (2 * 1573 + 2) = 2 ^ 2074 * 2 ^ 1074 := by rw [← Nat.pow_add]
      _ ≤ n * 2 ^ 1074 := Nat.mul_le_mul_right _ hn2)
  have bH : Bnd s.hi 2098 := Bnd.of_WF hv.1 hw.1
  rw [hsn] at bH ⊢
  rw [hr]
  have hrf : (fin false r).is_finite = true := rfl
  have hrm : (2 : ℤ) ^ 1573 ≤ |(fin false r).toInt| := by
    show (2 : ℤ) ^ 1573 ≤ |((r : ℕ) : ℤ)|
    rw [abs_of_nonneg (Int.natCast_nonneg _)]
    exact_mod_cast hrge
  have bX : Bnd (F64.recip (fin false r)) 575 :=
    Bnd.div (k := 575) (m := 1573) one_bnd hrf hrm (by norm_num) (by norm_num)
  have bY := Bnd.mul (k := 1599) bH bX (by norm_num) (by norm_num)
  generalize F64.recip (fin false r) = X at *
  generalize hY : F64.mul (fin false n) X = Y at *
  have bXh := Bnd.mul (k := 574) bX half_bnd (by norm_num) (by norm_num)
  have hsub : (s -. TwoFloat.new_mul Y Y) = arithmetic.impl_Sub_rTwoFloat_for_rTwoFloat.sub s (TwoFloat.new_mul Y Y) := rfl
  rw [hsub]
  have hYw : Y.WF := by rw [← hY]; exact mul_WF _ _
  have hDw : (arithmetic.impl_Sub_rTwoFloat_for_rTwoFloat.sub s (TwoFloat.new_mul Y Y)).hi.WF :=
    (TwoFloat.sub_tt_WF _ _).1
  generalize (arithmetic.impl_Sub_rTwoFloat_for_rTwoFloat.sub s (TwoFloat.new_mul Y Y)).hi = D at *
  refine (C01.new_add_inv _ _ hYw (mul_WF _ _) ?_).1
  by_cases hD : D.is_finite = true
  · have bC := Bnd.mul (k := 1598) (Bnd.of_WF hD hDw) bXh (by norm_num) (by norm_num)
    exact Or.inr (Or.inl ⟨bY.natAbs_lt (by norm_num), bC.natAbs_lt (by norm_num)⟩)
  · exact Or.inl (fun h => hD (is_finite_of_mul h.2).1)

/-- **`sqrt` on a positive valid argument**: all magnitudes -/
theorem sqrt_pos_inv {s : TwoFloat} (hv : s.Valid) (hw : s.WF) (hpos : 0 < s.hi.toInt) : (TwoFloat.sqrt s).Inv := by
  by_cases h1 : s.hi.toInt ≤ 2 ^ 184
  · exact sqrt_tiny_inv hv hpos h1
  · by_cases h2 : 2 ^ 2074 ≤ s.hi.toInt
    · exact sqrt_big_inv hv hw hpos h2
    · have hVpos : 0 < s.V := hv.V_pos_of_hi_pos hpos
      have e : s.hi.toInt.natAbs = s.hi.toInt.toNat := by omega
      refine Or.inl (TwoFloat.sqrt_val hv hw hVpos ?_ ?_).1
      · have : ((2 ^ 174 : ℕ) : ℤ) ≤ ((s.hi.toInt.natAbs : ℕ) : ℤ) := by
          rw [Int.natCast_natAbs, abs_of_pos hpos]; push_cast
          have : (2 : ℤ) ^ 174 ≤ 2 ^ 184 := by norm_num
          omega
        exact_mod_cast this
      · have : ((s.hi.toInt.natAbs : ℕ) : ℤ) ≤ ((2 ^ 2074 : ℕ) : ℤ) := by
          rw [Int.natCast_natAbs, abs_of_pos hpos]; push_cast; omega
        exact_mod_cast this

/-- **`TwoFloat::sqrt` preserves the invariant** — every well-formed argument that is valid or has a non-finite
high word: negative ↦ `NAN`, zero ↦ `(0, 0)`, `+inf`/`NaN` ↦ a NaN high word, positive finite ↦ a VALID pair or a
non-finite high word. -/
theorem good_sqrt {s : TwoFloat} (hs : PF.Good s) : PF.Good (TwoFloat.sqrt s) := by
  refine ⟨?_, PF.sqrt_WF s⟩
  by_cases hf : s.hi.is_finite = true
  · have hv : s.Valid := by
      rcases hs.1 with h | h
      · exact h
      · rw [hf] at h; cases h
    rcases lt_trichotomy s.hi.toInt 0 with hneg | hz | hpos
    · have hlt : (s.hi <. f64lit 0) = true := by
        rw [rlt_eq, ← lt_eq_isLt, f64lit_zero]
        exact (lt_iff_toInt hf rfl).2 (by show s.hi.toInt < 0; exact hneg)
      unfold TwoFloat.sqrt
      rw [hlt]
      exact PF.good_NAN.1
    · have hlz : s.lo.toInt = 0 := by
        have := hv.abs_lo_le
        rw [hz, abs_zero] at this
        exact abs_eq_zero.1 (le_antisymm this (abs_nonneg _))
      have h1 : (s.hi <. f64lit 0) = false := by
        rw [rlt_eq, ← lt_eq_isLt, f64lit_zero, Bool.eq_false_iff]
        intro h
        have := (lt_iff_toInt hf rfl).1 h
        have e : (fin false 0).toInt = 0 := rfl
        rw [e] at this; omega
      have h2 : (s.lo <. f64lit 0) = false := by
        rw [rlt_eq, ← lt_eq_isLt, f64lit_zero, Bool.eq_false_iff]
        intro h
        have := (lt_iff_toInt hv.2.1 rfl).1 h
        have e : (fin false 0).toInt = 0 := rfl
        rw [e] at this; omega
      have h3 : (s.hi ==. f64lit 0) = true := by
        rw [req_eq, f64lit_zero]; exact (eq_zero_iff hf).2 hz
      have h4 : (s.lo ==. f64lit 0) = true := by
        rw [req_eq, f64lit_zero]; exact (eq_zero_iff hv.2.1).2 hlz
      unfold TwoFloat.sqrt
      rw [h1, h2, h3, h4]
      simp only [Bool.false_or, Bool.and_false, Bool.and_self, Bool.false_eq_true, if_false, if_true]
      decide +kernel
    · exact sqrt_pos_inv hv hs.2 hpos
  · have hnf : s.hi.is_finite = false := is_finite_eq_false_iff.2 hf
    unfold TwoFloat.sqrt
    split_ifs
    · exact PF.good_NAN.1
    · decide +kernel
    · exact Or.inr (new_add_hi_not_finite (Or.inl (mul_not_finite_left _ hnf)))

/-! ## 3. `TwoFloat / f64` by a power of two with a subnormal quotient

`C01.div_tf_f64_inv_of_normal_quotient` covers `|hi / c| ≥ 2^-1021`.  For `c = 2^j` the complementary range is easy:
the first quotient `th = RN(hi / 2^j)` is an integer multiple of `2^-1074` below `2^53` units, `th·c` is exact,
the 2Prod residual is `0`, and the remainder `hi − th·c + lo` is at most `|hi|` in magnitude. -/

theorem sign_mul_natAbs' (x : ℤ) : Int.sign x * (x.natAbs : ℤ) = x := Int.sign_mul_natAbs x

/-- integer core, the analogue of `F64.dwdivfp_int` for `y = 2^j·2^1074` and `|x| < 2^(53+j)` -/
theorem dwdivfp_pow2_int {x l : ℤ} {j : ℕ} (hj : j ≤ 52)
    (hl : 2 * |l| ≤ 2 ^ (Nat.log2 x.natAbs - 52)) (hsmall : |x| < 2 ^ (53 + j)) :
    |rnI (rnI (x - rqI (rdI (x * (unit : ℤ)) (2 ^ j * (unit : ℤ)) * (2 ^ j * (unit : ℤ))) unit)
        - rqI (rdI (x * (unit : ℤ)) (2 ^ j * (unit : ℤ)) * (2 ^ j * (unit : ℤ))
            + -(rqI (rdI (x * (unit : ℤ)) (2 ^ j * (unit : ℤ)) * (2 ^ j * (unit : ℤ))) unit) * (unit : ℤ)) unit) + l|
      ≤ |x| := by
  have hU := unit_pos
  have hUi : (0 : ℤ) < (unit : ℤ) := Int.natCast_pos.2 hU
  have hQ : 0 < 2 ^ j := Nat.two_pow_pos j
  set a := x.natAbs with ha
  have hxa : |x| = (a : ℤ) := by rw [ha, Int.natCast_natAbs]
  have hsm : a < 2 ^ 53 * 2 ^ j := by
    have h : ((a : ℕ) : ℤ) < (2 : ℤ) ^ (53 + j) := by rw [← hxa]; exact hsmall
    rw [pow_add] at h
    exact_mod_cast h
  -- the first quotient
  have hth : rdI (x * (unit : ℤ)) (2 ^ j * (unit : ℤ)) = Int.sign x * ((rint a (2 ^ j) : ℕ) : ℤ) := by
    unfold rdI
    have e1 : (x * (unit : ℤ)).natAbs = a * unit := by rw [Int.natAbs_mul, Int.natAbs_natCast]
    have e2 : ((2 : ℤ) ^ j * (unit : ℤ)).natAbs = 2 ^ j * unit := by
      rw [Int.natAbs_mul, Int.natAbs_natCast, Int.natAbs_pow]; rfl
    have s1 : Int.sign (x * (unit : ℤ)) = Int.sign x := by
      rw [Int.sign_mul, Int.sign_eq_one_of_pos hUi, mul_one]
    have s2 : Int.sign ((2 : ℤ) ^ j * (unit : ℤ)) = 1 := Int.sign_eq_one_of_pos (by positivity)
    rw [e1, e2, s1, s2, mul_one, roundQ_mul_mul_right _ _ _ hQ hU, roundQ_of_lt hQ hsm]
  set T := rint a (2 ^ j) with hT
  have hT53 : T ≤ 2 ^ 53 := rint_le_of_le hQ (le_of_lt hsm)
  have hTrep : Rep (T * 2 ^ j) := by
    apply rep_mul_pow2
    rcases Nat.lt_or_ge T (2 ^ 53) with h | h
    · exact rep_of_lt h
    · have : T = 2 ^ 53 := le_antisymm hT53 h
      rw [this]; exact rep_two_pow 53
  -- w = th·2^j is representable: the product th·c is exact and the 2Prod residual vanishes
  obtain ⟨w, hw⟩ : ∃ w : ℤ, w = Int.sign x * ((T : ℕ) : ℤ) * 2 ^ j := ⟨_, rfl⟩
  have hwrep : RepI w := by
    unfold RepI
    by_cases hx0 : x = 0
    · rw [hw, hx0]; simp; exact rep_zero
    · have : w.natAbs = T * 2 ^ j := by
        rw [hw, Int.natAbs_mul, Int.natAbs_mul, Int.natAbs_sign_of_ne_zero hx0, Int.natAbs_natCast,
          Int.natAbs_pow]
        simp
      rw [this]; exact hTrep
  have hp : Int.sign x * ((T : ℕ) : ℤ) * (2 ^ j * (unit : ℤ)) = w * (unit : ℤ) := by rw [hw]; ring
  rw [hth, hp, rqI_mul_right _ hU, rnI_of_repI hwrep]
  have h0 : w * (unit : ℤ) + -w * (unit : ℤ) = 0 := by ring
  rw [h0, rqI_zero, sub_zero]
  -- the remainder
  obtain ⟨b1, b2⟩ := rint_bounds a (2 ^ j) hQ
  rw [← hT] at b1 b2
  have hxs : x = Int.sign x * (a : ℤ) := (Int.sign_mul_natAbs x).symm
  have hv : x - w = Int.sign x * ((a : ℤ) - ((T * 2 ^ j : ℕ) : ℤ)) := by
    rw [hw]; push_cast
    have e : x - Int.sign x * (T : ℤ) * 2 ^ j = Int.sign x * (a : ℤ) - Int.sign x * (T : ℤ) * 2 ^ j := by
      rw [← hxs]
    rw [e]; ring
  have habs : |x - w| = |(a : ℤ) - ((T * 2 ^ j : ℕ) : ℤ)| ∨ x = 0 := by
    by_cases hx0 : x = 0
    · exact Or.inr hx0
    · left; rw [hv, abs_mul, Int.abs_sign_of_ne_zero hx0, one_mul]
  have hj52 : (2 : ℕ) ^ j ≤ 2 ^ 52 := Nat.pow_le_pow_right (by norm_num) hj
  generalize hM : T * 2 ^ j = M at *
  have hM0 : T = 0 → M = 0 := fun h => by rw [← hM, h, Nat.zero_mul]
  have hM1 : 1 ≤ T → (2 : ℤ) ^ j ≤ (M : ℤ) := fun h => by
    have : 2 ^ j ≤ M := by rw [← hM]; exact Nat.le_mul_of_pos_left _ h
    exact_mod_cast this
  have b1' : 2 * (M : ℤ) ≤ 2 * (a : ℤ) + 2 ^ j := by exact_mod_cast b1
  have b2' : 2 * (a : ℤ) ≤ 2 * (M : ℤ) + 2 ^ j := by exact_mod_cast b2
  have hQi : (2 : ℤ) ^ j ≤ 2 ^ 52 := by exact_mod_cast hj52
  have hd : 2 * |(a : ℤ) - (M : ℤ)| ≤ (2 : ℤ) ^ j := by
    rcases abs_cases ((a : ℤ) - (M : ℤ)) with ⟨h, _⟩ | ⟨h, _⟩ <;> rw [h] <;> omega
  have hvsmall : |x - w| ≤ 2 ^ 51 := by
    rcases habs with h | h
    · rw [h]
      have e : (2 : ℤ) ^ 52 = 2 * 2 ^ 51 := by norm_num
      omega
    · have : w = 0 := by rw [hw, h]; simp
      rw [h, this]; norm_num
  have hvrep : RepI (x - w) := by
    unfold RepI
    apply rep_of_lt
    have : (((x - w).natAbs : ℕ) : ℤ) < ((2 ^ 53 : ℕ) : ℤ) := by
      rw [Int.natCast_natAbs]; push_cast
      have : (2 : ℤ) ^ 51 < 2 ^ 53 := by norm_num
      omega
    exact_mod_cast this
  rw [rnI_of_repI hvrep, rnI_of_repI hvrep]
  -- |x − w + l| ≤ |x|
  by_cases hx0 : x = 0
  · have hw0 : w = 0 := by rw [hw, hx0]; simp
    have : l = 0 := by
      have ha0 : a = 0 := by rw [ha, hx0]; rfl
      rw [ha0] at hl
      have : Nat.log2 0 - 52 = 0 := by decide
      rw [this] at hl
      have := abs_nonneg l
      have : |l| = 0 := by omega
      exact abs_eq_zero.1 this
    rw [hx0, hw0, this]; simp
  · have hvabs : |x - w| = |(a : ℤ) - (M : ℤ)| := by
      rcases habs with h | h
      · exact h
      · exact absurd h hx0
    have tri := abs_add_le (x - w) l
    rw [hvabs] at tri
    rw [hxa]
    rcases Nat.lt_or_ge a (2 ^ 53) with hlt | hge
    · -- no low word
      have hlog : Nat.log2 a - 52 = 0 := by
        have := Nat.log2_lt (n := a) (k := 53) (by
          intro h0; apply hx0; rw [ha] at h0; exact Int.natAbs_eq_zero.1 h0)
        have := this.2 hlt
        omega
      rw [hlog, pow_zero] at hl
      have hl0 : |l| = 0 := by have := abs_nonneg l; omega
      have hdm : |(a : ℤ) - (M : ℤ)| ≤ (a : ℤ) := by
        rcases Nat.eq_zero_or_pos T with h | h
        · have := hM0 h
          exact abs_le.2 ⟨by omega, by omega⟩
        · have := hM1 h
          exact abs_le.2 ⟨by omega, by omega⟩
      omega
    · -- `|l| ≤ |x|·2^-53`
      have hpos : a ≠ 0 := by
        have : 0 < 2 ^ 53 := by norm_num
        omega
      have hW : 2 ^ (Nat.log2 a - 52) * 2 ^ 52 ≤ a := by
        have h1 := Nat.log2_self_le hpos
        have h2 : 53 ≤ Nat.log2 a := (Nat.le_log2 hpos).2 hge
        calc 2 ^ (Nat.log2 a - 52) * 2 ^ 52 = 2 ^ (Nat.log2 a) := by
              rw [← Nat.pow_add]; congr 1; omega
          _ ≤ a := h1
      have hWi : ((2 : ℤ) ^ (Nat.log2 a - 52)) * 2 ^ 52 ≤ (a : ℤ) := by exact_mod_cast hW
      have hgei : (2 : ℤ) ^ 53 ≤ (a : ℤ) := by exact_mod_cast hge
      generalize (2 : ℤ) ^ (Nat.log2 a - 52) = W at *
      have e52 : (2 : ℤ) ^ 52 = 4503599627370496 := by norm_num
      have e53 : (2 : ℤ) ^ 53 = 9007199254740992 := by norm_num
      rw [e52] at hWi hQi
      rw [e53] at hgei
      omega

/-- `F64.dw_div_core_inv` with the magnitude estimate `|d| ≤ |x|` as a hypothesis (same proof) -/
theorem dw_div_core_inv_of_key {x y l : F64} (hwx : x.WF)
    (key : y.toInt ≠ 0 →
      |rnI (rnI (x.toInt - rqI (rdI (x.toInt * (unit : ℤ)) y.toInt * y.toInt) unit)
        - rqI (rdI (x.toInt * (unit : ℤ)) y.toInt * y.toInt
            + -(rqI (rdI (x.toInt * (unit : ℤ)) y.toInt * y.toInt) unit) * (unit : ℤ)) unit) + l.toInt|
        ≤ |x.toInt|) :
    (arithmetic.fast_two_sum (F64.div x y)
      (F64.div (F64.add (F64.sub (F64.sub x (TwoFloat.new_mul (F64.div x y) y).hi)
        (TwoFloat.new_mul (F64.div x y) y).lo) l) y)).Inv := by
  rw [new_mul_eq]
  simp only
  by_cases htl : (F64.div (F64.add (F64.sub (F64.sub x (F64.mul (F64.div x y) y))
      (F64.fma (F64.div x y) y (F64.neg (F64.mul (F64.div x y) y)))) l) y).is_finite = true
  · have fd := is_finite_of_div htl
    obtain ⟨fdt, fl⟩ := is_finite_of_add fd
    obtain ⟨fdh, fpl⟩ := is_finite_of_sub fdt
    obtain ⟨fx, fph⟩ := is_finite_of_sub fdh
    obtain ⟨fth, fy⟩ := is_finite_of_mul fph
    have hy0 : y.toInt ≠ 0 := by
      intro h0
      rw [div_zero_not_finite fx fy h0] at fth
      exact absurd fth (by simp)
    have vth := div_spec_of_finite fx fy hy0 fth
    have vph := mul_spec_of_finite fph
    have vpl := fma_spec_of_finite fpl
    rw [toInt_neg, vph, vth] at vpl
    rw [vth] at vph
    have vdh := ((IsVal.of_finite fx).sub_of_finite (IsVal.of_finite fph) fdh).2
    rw [vph] at vdh
    have vdt := ((IsVal.of_finite fdh).sub_of_finite (IsVal.of_finite fpl) fdt).2
    rw [vdh, vpl] at vdt
    have vd := ((IsVal.of_finite fdt).add_of_finite (IsVal.of_finite fl) fd).2
    rw [vdt] at vd
    have key' := key hy0
    have hd : |(F64.add (F64.sub (F64.sub x (F64.mul (F64.div x y) y))
        (F64.fma (F64.div x y) y (F64.neg (F64.mul (F64.div x y) y)))) l).toInt| ≤ |x.toInt| := by
      rw [vd]; exact abs_rnI_le hwx.repI key'
    have aT := natAbs_div_spec fd fy hy0 htl
    have aC := natAbs_div_spec fx fy hy0 fth
    refine fast_two_sum_inv (div_WF _ _) (div_WF _ _) (Or.inr ?_)
    rw [← Int.natCast_natAbs, ← Int.natCast_natAbs, aT, aC]
    have hd' := natAbs_le_of_abs_le (v := (F64.add (F64.sub (F64.sub x (F64.mul (F64.div x y) y))
        (F64.fma (F64.div x y) y (F64.neg (F64.mul (F64.div x y) y)))) l).toInt)
      (m := x.toInt.natAbs) (by rw [Int.natCast_natAbs]; exact hd)
    have := roundQ_mono y.toInt.natAbs (Int.natAbs_pos.2 hy0) (Nat.mul_le_mul_right unit hd')
    exact_mod_cast this
  · exact Inv.of_not_finite (fast_two_sum_hi_not_finite (Or.inr (is_finite_eq_false_iff.2 htl)))

/-- core of `TwoFloat / f64` for a divisor `2^j` (`j ≤ 52`): no restriction on the magnitude of `x` -/
theorem dw_div_pow2_core_inv {x c l : F64} {j : ℕ} (hj : j ≤ 52) (hc : c.toInt = 2 ^ j * (unit : ℤ)) (hwx : x.WF)
    (hl : 2 * |l.toInt| ≤ 2 ^ (Nat.log2 x.toInt.natAbs - 52)) :
    (arithmetic.fast_two_sum (F64.div x c)
      (F64.div (F64.add (F64.sub (F64.sub x (TwoFloat.new_mul (F64.div x c) c).hi)
        (TwoFloat.new_mul (F64.div x c) c).lo) l) c)).Inv := by
  by_cases hq : 2 ^ 53 * |c.toInt| ≤ |x.toInt| * (unit : ℤ)
  · exact dw_div_core_inv hwx hl hq
  · apply dw_div_core_inv_of_key hwx
    intro _
    rw [hc]
    apply dwdivfp_pow2_int hj hl
    rw [hc, abs_mul, abs_of_pos unit_pos_int, abs_of_pos (by positivity : (0 : ℤ) < 2 ^ j)] at hq
    have hlt : |x.toInt| * (unit : ℤ) < 2 ^ 53 * (2 ^ j * (unit : ℤ)) := not_le.1 hq
    have : |x.toInt| * (unit : ℤ) < 2 ^ (53 + j) * (unit : ℤ) := by rw [pow_add]; linarith
    exact lt_of_mul_lt_mul_right this unit_pos_int.le

/-- **`TwoFloat / 2^j` preserves the invariant** (`j ≤ 52`; in particular `/ 2.0` and `/ 512.0`), for EVERY argument
satisfying it — including quotients in the subnormal range, where the general `TwoFloat / f64` is open -/
theorem good_div_tf_pow2 {t : TwoFloat} (ht : PF.Good t) {c : F64} {j : ℕ} (hj : j ≤ 52)
    (hc : c.toInt = 2 ^ j * (unit : ℤ)) : PF.Good (arithmetic.impl_Div_f64_for_TwoFloat.div t c) := by
  refine ⟨?_, PF.div_tf_WF t c⟩
  show (C01.divTF t c).Inv
  rcases ht.1 with hv | hn
  · rw [C01.divTF_eq]
    exact dw_div_pow2_core_inv hj hc ht.2.1 hv.two_mul_abs_lo_le
  · exact Or.inr (C01.divTF_hi_not_finite c hn)

theorem two_toInt : (f64lit 0x4000000000000000).toInt = 2 ^ 1 * (unit : ℤ) := by decide +kernel
theorem c512_toInt : (f64lit 0x4080000000000000).toInt = 2 ^ 9 * (unit : ℤ) := by decide +kernel

/-- `x / 2.0` -/
theorem good_div_two {t : TwoFloat} (ht : PF.Good t) :
    PF.Good (arithmetic.impl_Div_f64_for_TwoFloat.div t (f64lit 0x4000000000000000)) :=
  good_div_tf_pow2 ht (by norm_num) two_toInt

/-- `x / 512.0` -/
theorem good_div_512 {t : TwoFloat} (ht : PF.Good t) :
    PF.Good (arithmetic.impl_Div_f64_for_TwoFloat.div t (f64lit 0x4080000000000000)) :=
  good_div_tf_pow2 ht (by norm_num) c512_toInt

/-! ## 4. `mul_pow2` and `exp2` -/

/-- ordered pair of words: the precondition of a closing `fast_two_sum` -/
def Ord2 (a b : F64) : Prop := ¬ (a.is_finite = true ∧ b.is_finite = true) ∨ |b.toInt| ≤ |a.toInt|

/-- multiplying both words by the SAME double (any double: tiny, huge, infinite, NaN) keeps them ordered:
rounding is monotone, and an overflow / NaN of the larger product makes the pair "not both finite" -/
theorem Ord2.mul {a b : F64} (h : Ord2 a b) (c : F64) : Ord2 (F64.mul a c) (F64.mul b c) := by
  by_cases hf : (F64.mul a c).is_finite = true ∧ (F64.mul b c).is_finite = true
  · right
    obtain ⟨fa, _⟩ := is_finite_of_mul hf.1
    obtain ⟨fb, _⟩ := is_finite_of_mul hf.2
    have hab : |b.toInt| ≤ |a.toInt| := by
      rcases h with h | h
      · exact absurd ⟨fa, fb⟩ h
      · exact h
    have hab' : b.toInt.natAbs ≤ a.toInt.natAbs := by
      have : ((b.toInt.natAbs : ℕ) : ℤ) ≤ ((a.toInt.natAbs : ℕ) : ℤ) := by
        rw [Int.natCast_natAbs, Int.natCast_natAbs]; exact hab
      exact_mod_cast this
    rw [← Int.natCast_natAbs, ← Int.natCast_natAbs, natAbs_mul_spec hf.1, natAbs_mul_spec hf.2]
    have := roundQ_mono unit unit_pos (Nat.mul_le_mul_right c.toInt.natAbs hab')
    exact_mod_cast this
  · exact Or.inl hf

theorem Ord2.loop {a b : F64} (h : Ord2 a b) (fuel : ℕ) (y : I32) :
    Ord2 (explog.mul_pow2.loop1 fuel a y) (explog.mul_pow2.loop1 fuel b y) := by
  induction fuel generalizing a b y with
  | zero => exact Or.inl (fun hc => by cases hc.1)
  | succ n ih =>
    unfold explog.mul_pow2.loop1
    split_ifs
    · exact ih (h.mul _) _
    · exact h.mul _
    · exact h.mul _
    · exact ih (h.mul _) _

theorem mul_pow2_loop_WF (fuel : ℕ) (a : F64) (y : I32) : (explog.mul_pow2.loop1 fuel a y).WF := by
  induction fuel generalizing a y with
  | zero => trivial
  | succ n ih =>
    unfold explog.mul_pow2.loop1
    split_ifs
    · exact ih _ _
    · exact mul_WF _ _
    · exact mul_WF _ _
    · exact ih _ _

/-- the final scaling of `exp2`: `fast_two_sum (mul_pow2 hi k) (mul_pow2 lo k)` satisfies the invariant for every pair
that does and EVERY exponent `k` (underflow to subnormals / zero and overflow included) -/
theorem good_scale {t : TwoFloat} (ht : PF.Good t) (k : I32) :
    PF.Good (arithmetic.fast_two_sum (explog.mul_pow2 t.hi k) (explog.mul_pow2 t.lo k)) := by
  refine ⟨?_, fast_two_sum_WF _ _⟩
  have ho : Ord2 t.hi t.lo := by
    rcases ht.1 with hv | hn
    · exact Or.inr hv.abs_lo_le
    · exact Or.inl (fun hc => by rw [hn] at hc; cases hc.1)
  exact fast_two_sum_inv (mul_pow2_loop_WF _ _ _) (mul_pow2_loop_WF _ _ _) (ho.loop _ _)

theorem round_hi_WF {f : F64} (h : f.WF) : (F64.round f).WF := C08.WF_round h

theorem FRAC_FACT_good' : ∀ t ∈ explog.FRAC_FACT, PF.Good t := PF.FRAC_FACT_good
theorem good_LN_2 : PF.Good consts.LN_2 := by decide +kernel

/-- **`exp2` preserves the invariant** — every well-formed argument that is valid or has a non-finite high word,
no range restriction (results in the subnormal range and overflow included) -/
theorem good_sq9 {p : TwoFloat} (hp : PF.Good p) : PF.Good (C14p.sq9 p) := by
  have sq : ∀ {a : TwoFloat}, PF.Good a → PF.Good (arithmetic.impl_Mul_TwoFloat_for_TwoFloat.mul a a) :=
    fun h => PF.good_mul_tt h h
  exact sq (sq (sq (sq (sq (sq (sq (sq (sq hp))))))))

theorem good_exp2 {x : TwoFloat} (hx : PF.Good x) : PF.Good (TwoFloat.exp2 x) := by
  rw [C14p.exp2_unfold]
  split_ifs
  · exact PF.good_from PF.f64lit_WF_zero
  · exact ⟨Or.inr rfl, trivial, trivial⟩
  · have hr := good_div_512 (PF.good_mul_tt (PF.good_sub_tf hx (round_hi_WF hx.2.1)) good_LN_2)
    have hp := PF.good_polyFold (List.take 12 (List.drop 0 explog.FRAC_FACT))
      (fun t ht => PF.FRAC_FACT_good t (List.mem_of_mem_drop (List.mem_of_mem_take ht))) hr
    unfold C14p.exp2Tail
    split_ifs
    · exact good_sq9 hp
    · exact good_scale (good_sq9 hp) _

end InvMath
