/-
Lemmas.DivAll — the three divisions of the crate preserve the representation invariant for ALL well-formed
operands of EVERY magnitude (zero / subnormal / huge / non-finite operands, quotients that underflow or overflow).

Route (all on scaled integers, `U = 2^1074`, "unit" `= 2^-1074 = 1`):
* §1 `renorm3_int`, `renorm3_inv_of_digits`: `renorm3 q1 q2 q3` satisfies the invariant as soon as the quotient digits
  decrease crudely, `|q2|, |q3| ≤ 2^-40 |q1| + 2^10` units — if `|q1| > 2^51` units everything is relative
  (`|w| ≤ 2^-49 |q1| ≤ |s|`), otherwise all sums are sums of small integers and hence exact (`w = 0`);
* §2 signed nearest-point property of the rounded quotient `rqI`;
* §3 crude (`2^-48` relative, NO absolute underflow term) value bounds of `TwoFloat * f64`, `TwoFloat - TwoFloat`,
  `f64 - TwoFloat`, stated under FINITENESS of the result (no magnitude bound): the key is that the product
  `y·RN(x/y.hi)` is within `|y.hi|/2` units of the DOUBLE `x`, so that its rounding error is bounded by the distance to
  `x` (nearest point) — also when everything underflows;
* §4 one step of the long division: `|r'.hi| U ≤ 2^-44 |r.hi| U + 4 |y.hi|`, hence the digit bound;
* §5 the long divisions `TwoFloat / TwoFloat`, `f64 / TwoFloat`;
* §6 `TwoFloat / f64` with a subnormal first quotient (the normal case is `dw_div_core_inv`).
-/
import TFV.Properties.C01d

set_option exponentiation.threshold 3000

namespace F64

open TwoFloat

/-! ## 1. `renorm3` on crudely decreasing digits -/

theorem abs_le_of_eq_add {x y z : Int} (h : x = y + z) : |x| ≤ |y| + |z| := h ▸ abs_add_le y z

theorem abs_le_of_eq_add3 {x y z w : Int} (h : x = y + z + w) : |x| ≤ |y| + |z| + |w| := by
  rw [h]
  have h1 := abs_add_le (y + z) w
  have h2 := abs_add_le y z
  omega

theorem repI_of_abs_le {z : Int} (h : |z| ≤ 2 ^ 53) : RepI z := by
  unfold RepI
  have h' : z.natAbs ≤ 2 ^ 53 := by
    have : ((z.natAbs : Nat) : Int) ≤ ((2 ^ 53 : Nat) : Int) := by
      rw [Int.natCast_natAbs]; push_cast; exact h
    exact_mod_cast this
  rcases Nat.lt_or_ge z.natAbs (2 ^ 53) with h1 | h1
  · exact Or.inl h1
  · have e : z.natAbs = 2 ^ 53 := le_antisymm h' h1
    rw [e]; exact rep_two_pow 53

theorem rnI_of_abs_le {z : Int} (h : |z| ≤ 2 ^ 53) : rnI z = z := rnI_of_repI (repI_of_abs_le h)

/-- the closing Fast2Sum precondition of `renorm3`, on scaled integers: `a, b, c` the three digits, `uh, t, ul` the
first Fast2Sum, `s, z, vl` the second (small word first), `w` the low input of the third -/
theorem renorm3_int {a b c : Int} (hb : 2 ^ 40 * |b| ≤ |a| + 2 ^ 50) (hc : 2 ^ 40 * |c| ≤ |a| + 2 ^ 50) :
    |rnI (rnI (b - rnI (rnI (a + b) - a)) + rnI (rnI (a + b) - rnI (rnI (c + rnI (a + b)) - c)))|
      ≤ |rnI (c + rnI (a + b))| := by
  have na := abs_nonneg a
  have nb := abs_nonneg b
  have nc := abs_nonneg c
  rcases le_or_gt |a| (2 ^ 51) with hs | hl
  · -- all sums of small integers are exact
    have hb' : |b| ≤ 2 ^ 12 := by omega
    have hc' : |c| ≤ 2 ^ 12 := by omega
    have t1 := abs_add_le a b
    have e1 : rnI (a + b) = a + b := rnI_of_abs_le (by omega)
    rw [e1]
    have e2 : rnI (a + b - a) = b := by
      rw [add_sub_cancel_left]; exact rnI_of_abs_le (by omega)
    rw [e2, sub_self, rnI_zero]
    have t2 := abs_add_le c (a + b)
    have e3 : rnI (c + (a + b)) = c + (a + b) := rnI_of_abs_le (by omega)
    rw [e3]
    have e4 : rnI (c + (a + b) - c) = a + b := by
      rw [add_sub_cancel_left]; exact e1
    rw [e4, sub_self, rnI_zero, add_zero, rnI_zero, abs_zero]
    exact abs_nonneg _
  · -- everything is relative
    generalize huh : rnI (a + b) = uh
    generalize ht : rnI (uh - a) = t
    generalize hul : rnI (b - t) = ul
    generalize hs : rnI (c + uh) = s
    generalize hz : rnI (s - c) = z
    generalize hvl : rnI (uh - z) = vl
    have r1 := rel_err_rnI (a + b)
    have r2 := rel_err_rnI (uh - a)
    have r4 := rel_err_rnI (c + uh)
    have r5 := rel_err_rnI (s - c)
    rw [huh] at r1
    rw [ht] at r2
    rw [hs] at r4
    rw [hz] at r5
    have b3 := abs_rnI_le_two_mul (b - t)
    have b6 := abs_rnI_le_two_mul (uh - z)
    have b7 := abs_rnI_le_two_mul (ul + vl)
    rw [hul] at b3
    rw [hvl] at b6
    have T1 := abs_add_le a b
    have T2 : |a| ≤ |a + b| + |b| := by
      have := abs_le_of_eq_add (x := a) (y := a + b) (z := -b) (by ring)
      rwa [abs_neg] at this
    have T3 : |uh - a| ≤ |b| + |uh - (a + b)| := abs_le_of_eq_add (by ring)
    have T4 : |b - t| ≤ |uh - (a + b)| + |t - (uh - a)| := by
      have := abs_le_of_eq_add (x := b - t) (y := -(uh - (a + b))) (z := -(t - (uh - a))) (by ring)
      rwa [abs_neg, abs_neg] at this
    have T5 := abs_add_le c uh
    have T5' : |uh| ≤ |a + b| + |uh - (a + b)| := abs_le_of_eq_add (by ring)
    have T6 : |s - c| ≤ |uh| + |s - (c + uh)| := abs_le_of_eq_add (by ring)
    have T7 : |uh - z| ≤ |s - (c + uh)| + |z - (s - c)| := by
      have := abs_le_of_eq_add (x := uh - z) (y := -(s - (c + uh))) (z := -(z - (s - c))) (by ring)
      rwa [abs_neg, abs_neg] at this
    have T8 := abs_add_le ul vl
    have T9 : |c + uh| ≤ |s| + |s - (c + uh)| := by
      have := abs_le_of_eq_add (x := c + uh) (y := s) (z := -(s - (c + uh))) (by ring)
      rwa [abs_neg] at this
    have T10 : |uh| ≤ |c + uh| + |c| := by
      have := abs_le_of_eq_add (x := uh) (y := c + uh) (z := -c) (by ring)
      rwa [abs_neg] at this
    have T11 : |a + b| ≤ |uh| + |uh - (a + b)| := by
      have := abs_le_of_eq_add (x := a + b) (y := uh) (z := -(uh - (a + b))) (by ring)
      rwa [abs_neg] at this
    have n1 := abs_nonneg (uh - (a + b))
    have n2 := abs_nonneg (t - (uh - a))
    have n3 := abs_nonneg (s - (c + uh))
    have n4 := abs_nonneg (z - (s - c))
    generalize |rnI (ul + vl)| = W at *
    generalize |ul + vl| = A1 at *
    generalize |ul| = A2 at *
    generalize |vl| = A3 at *
    generalize |b - t| = A4 at *
    generalize |uh - z| = A5 at *
    generalize |uh - (a + b)| = E1 at *
    generalize |t - (uh - a)| = E2 at *
    generalize |s - (c + uh)| = E3 at *
    generalize |z - (s - c)| = E4 at *
    generalize |uh - a| = A6 at *
    generalize |s - c| = A7 at *
    generalize |c + uh| = A8 at *
    generalize |a + b| = A9 at *
    generalize |uh| = A10 at *
    generalize |s| = S at *
    generalize |a| = A at *
    generalize |b| = B at *
    generalize |c| = C at *
    omega

/-- **`renorm3` on crudely decreasing digits**: for ALL well-formed doubles `q1 q2 q3` (non-finite ones included): if,
whenever all three are finite, `|q2|, |q3| ≤ 2^-40 |q1| + 2^10` units, then `renorm3 q1 q2 q3` satisfies the
invariant (a valid pair, or a non-finite high word when a sum overflowed / an operand was not finite). -/
theorem renorm3_inv_of_digits {q1 q2 q3 : F64} (_w1 : q1.WF) (_w2 : q2.WF) (_w3 : q3.WF)
    (h : q1.is_finite = true → q2.is_finite = true → q3.is_finite = true →
      2 ^ 40 * |q2.toInt| ≤ |q1.toInt| + 2 ^ 50 ∧ 2 ^ 40 * |q3.toInt| ≤ |q1.toInt| + 2 ^ 50) :
    (arithmetic.renorm3 q1 q2 q3).Inv ∧ (arithmetic.renorm3 q1 q2 q3).WF := by
  apply C01.renorm3_inv_partial
  by_cases hf : (F64.add q3 (F64.add q1 q2)).is_finite = true ∧
      (F64.add (arithmetic.fast_two_sum q1 q2).lo (arithmetic.fast_two_sum q3 (F64.add q1 q2)).lo).is_finite = true
  · obtain ⟨fs, fw⟩ := hf
    refine Or.inr (Or.inl ?_)
    obtain ⟨f3, fuh⟩ := is_finite_of_add fs
    obtain ⟨f1, f2⟩ := is_finite_of_add fuh
    obtain ⟨ful, fvl⟩ := is_finite_of_add fw
    rw [fast_two_sum_eq] at ful fvl
    simp only at ful fvl
    obtain ⟨-, ft⟩ := is_finite_of_sub ful
    obtain ⟨-, fz⟩ := is_finite_of_sub fvl
    obtain ⟨hb, hc⟩ := h f1 f2 f3
    have v1 := IsVal.of_finite f1
    have v2 := IsVal.of_finite f2
    have v3 := IsVal.of_finite f3
    have vuh := v1.add_of_finite v2 fuh
    have vt := vuh.sub_of_finite v1 ft
    have vul := v2.sub_of_finite vt ful
    have vs := v3.add_of_finite vuh fs
    have vz := vs.sub_of_finite v3 fz
    have vvl := vuh.sub_of_finite vz fvl
    have vw : IsVal (F64.add (arithmetic.fast_two_sum q1 q2).lo (arithmetic.fast_two_sum q3 (F64.add q1 q2)).lo) _ :=
      vul.add_of_finite vvl fw
    rw [vw.2, vs.2]
    exact renorm3_int hb hc
  · exact Or.inl hf

/-! ## 2. the rounded quotient is a nearest representable point -/

theorem rqI_nearest_nonneg {N : Int} (hN : 0 ≤ N) {U : Nat} (hU : 0 < U) {A : Int} (hA : RepI A) :
    |rqI N U * (U : Int) - N| ≤ |A * (U : Int) - N| := by
  have e1 : rqI N U = ((roundQ N.natAbs U : Nat) : Int) := by unfold rqI; rw [if_neg (by omega)]
  have eN : ((N.natAbs : Nat) : Int) = N := by omega
  rw [e1]
  rcases le_or_gt 0 A with ha | ha
  · have h := roundQ_nearest N.natAbs U hU (x := A.natAbs) hA
    have eA : ((A.natAbs : Nat) : Int) = A := by omega
    rwa [eN, eA] at h
  · have h := roundQ_nearest N.natAbs U hU (x := 0) rep_zero
    rw [eN] at h
    refine le_trans h ?_
    have hUi : (0 : Int) ≤ (U : Int) := Int.natCast_nonneg U
    have hAU : A * (U : Int) ≤ 0 := Int.mul_nonpos_of_nonpos_of_nonneg (by omega) hUi
    have e0 : ((0 : Nat) : Int) * (U : Int) - N = -N := by simp
    rw [e0, abs_neg, abs_of_nonneg hN, abs_of_nonpos (by omega)]
    omega

/-- **`RN(N/U)` is a nearest double to `N/U`**: no representable `A` is closer -/
theorem rqI_nearest (N : Int) {U : Nat} (hU : 0 < U) {A : Int} (hA : RepI A) :
    |rqI N U * (U : Int) - N| ≤ |A * (U : Int) - N| := by
  rcases le_or_gt 0 N with hN | hN
  · exact rqI_nearest_nonneg hN hU hA
  · have h := rqI_nearest_nonneg (N := -N) (by omega) hU hA.neg
    rw [rqI_neg] at h
    have e1 : -rqI N U * (U : Int) - -N = -(rqI N U * (U : Int) - N) := by ring
    have e2 : -A * (U : Int) - -N = -(A * (U : Int) - N) := by ring
    rwa [e1, e2, abs_neg, abs_neg] at h

/-- in particular the rounding error never exceeds the rounded quantity (`0` is a double) -/
theorem rqI_err_le_self (N : Int) {U : Nat} (hU : 0 < U) : |rqI N U * (U : Int) - N| ≤ |N| := by
  have h := rqI_nearest N hU repI_zero
  rwa [zero_mul, zero_sub, abs_neg] at h

/-! ## 3. crude value bounds under finiteness of the result -/

theorem scale_rel {x y U : Int} (hU : 0 < U) {k : Int} (h : k * |x| ≤ |y|) : k * |x * U| ≤ |y * U| := by
  rw [abs_mul_pos_right _ hU, abs_mul_pos_right _ hU, ← mul_assoc]
  exact mul_le_mul_of_nonneg_right h hU.le

/-- error analysis of DWTimesFP3 with purely relative bounds: every rounding error is bounded by the rounded quantity
(`h2`, `h3`), and the first one by the distance of the exact product `N` to the double `A` (`h1`) -/
theorem mul_crude_int {N Lq CH CL1 CL3 HI LO AU : Int}
    (h1 : |CH - N| ≤ |AU - N|)
    (h2 : |CL1 - (N + -CH)| ≤ |N + -CH|)
    (h3 : |CL3 - (Lq + CL1)| ≤ |Lq + CL1|)
    (h4 : 2 ^ 53 * |HI - (CH + CL3)| ≤ |CH + CL3|)
    (h5 : 2 ^ 53 * |LO| ≤ |HI|) :
    2 ^ 51 * |HI + LO - (N + Lq)| ≤ 2 ^ 53 * |N - AU| + 2 ^ 52 * |Lq| + |N| := by
  have e0 : |AU - N| = |N - AU| := abs_sub_comm _ _
  have e1 : |N + -CH| = |CH - N| := by rw [← abs_neg]; congr 1; ring
  rw [e0] at h1
  rw [e1] at h2
  have T1 : |Lq + CL1| ≤ |Lq| + |CL1 - (N + -CH)| + |CH - N| := by
    have := abs_le_of_eq_add3 (x := Lq + CL1) (y := Lq) (z := CL1 - (N + -CH)) (w := -(CH - N)) (by ring)
    rwa [abs_neg] at this
  have T2 : |CH + CL3 - (N + Lq)| ≤ |CL1 - (N + -CH)| + |CL3 - (Lq + CL1)| := abs_le_of_eq_add (by ring)
  have T3 : |CH + CL3| ≤ |N| + |Lq| + |CH + CL3 - (N + Lq)| := abs_le_of_eq_add3 (by ring)
  have T4 : |HI + LO - (N + Lq)| ≤ |HI - (CH + CL3)| + |LO| + |CH + CL3 - (N + Lq)| := abs_le_of_eq_add3 (by ring)
  have T5 : |HI| ≤ |CH + CL3| + |HI - (CH + CL3)| := abs_le_of_eq_add (by ring)
  have n1 := abs_nonneg (CH - N)
  have n2 := abs_nonneg Lq
  have n3 := abs_nonneg N
  generalize |HI + LO - (N + Lq)| = G at *
  generalize |HI - (CH + CL3)| = E4 at *
  generalize |CH + CL3 - (N + Lq)| = E5 at *
  generalize |CL1 - (N + -CH)| = E2 at *
  generalize |CL3 - (Lq + CL1)| = E3 at *
  generalize |Lq + CL1| = A1 at *
  generalize |CH + CL3| = A2 at *
  generalize |CH - N| = E1 at *
  generalize |N - AU| = D at *
  generalize |HI| = A3 at *
  generalize |LO| = A4 at *
  generalize |Lq| = L at *
  generalize |N| = NN at *
  omega

/-- **`TwoFloat * f64`, crude value, all magnitudes**: for a valid `y` and ANY double `q`, if the high word of the
product is finite then the product is a valid pair, and for every double `A` its value `P` satisfies
`|P − y·q| ≤ 4 |y.hi·q − A| + 2 |y.lo·q| + 2^-51 |y.hi·q|` — no absolute (underflow) term. -/
theorem mul_tf_crude {y : TwoFloat} {q : F64} (hy : y.Valid)
    (hP : (arithmetic.impl_Mul_rf64_for_rTwoFloat.mul y q).hi.is_finite = true) {A : Int} (hA : RepI A) :
    (arithmetic.impl_Mul_rf64_for_rTwoFloat.mul y q).Valid ∧
    2 ^ 51 * |(arithmetic.impl_Mul_rf64_for_rTwoFloat.mul y q).V * (unit : Int)
        - (y.hi.toInt * q.toInt + y.lo.toInt * q.toInt)|
      ≤ 2 ^ 53 * |y.hi.toInt * q.toInt - A * (unit : Int)| + 2 ^ 52 * |y.lo.toInt * q.toInt|
        + |y.hi.toInt * q.toInt| := by
  have hUi := unit_pos_int
  have hU := unit_pos
  have hv : (arithmetic.impl_Mul_rf64_for_rTwoFloat.mul y q).Valid := by
    rcases (C01.mul_tf_f64_inv q (Or.inl hy)).1 with h | h
    · exact h
    · rw [hP] at h; cases h
  refine ⟨hv, ?_⟩
  have hlo := two_pow_mul_abs_le_of_half_ulp hv.two_mul_abs_lo_le
  unfold TwoFloat.V
  generalize hPd : arithmetic.impl_Mul_rf64_for_rTwoFloat.mul y q = P at *
  have hhi : P.hi = F64.add (F64.mul y.hi q) (F64.fma y.lo q (F64.fma y.hi q (F64.neg (F64.mul y.hi q)))) := by
    rw [← hPd]; rfl
  rw [hhi] at hP
  obtain ⟨fch, fcl3⟩ := is_finite_of_add hP
  obtain ⟨-, -, fcl1⟩ := is_finite_of_fma fcl3
  have vch := mul_spec_of_finite fch
  have vcl1 := fma_spec_of_finite fcl1
  rw [toInt_neg] at vcl1
  have vcl3 := fma_spec_of_finite fcl3
  have vhi := ((IsVal.of_finite fch).add_of_finite (IsVal.of_finite fcl3) hP).2
  rw [← hhi] at vhi
  have h1 := rqI_nearest (y.hi.toInt * q.toInt) hU hA
  rw [← vch] at h1
  have h2 := rqI_err_le_self (y.hi.toInt * q.toInt + -(F64.mul y.hi q).toInt * (unit : Int)) hU
  rw [← vcl1] at h2
  have h3 := rqI_err_le_self (y.lo.toInt * q.toInt
    + (F64.fma y.hi q (F64.neg (F64.mul y.hi q))).toInt * (unit : Int)) hU
  rw [← vcl3] at h3
  have h4 := rel_err_rnI ((F64.mul y.hi q).toInt +
    (F64.fma y.lo q (F64.fma y.hi q (F64.neg (F64.mul y.hi q)))).toInt)
  rw [← vhi] at h4
  have h4' := scale_rel hUi h4
  have h5' := scale_rel hUi hlo
  have key := mul_crude_int (N := y.hi.toInt * q.toInt) (Lq := y.lo.toInt * q.toInt)
    (CH := (F64.mul y.hi q).toInt * (unit : Int))
    (CL1 := (F64.fma y.hi q (F64.neg (F64.mul y.hi q))).toInt * (unit : Int))
    (CL3 := (F64.fma y.lo q (F64.fma y.hi q (F64.neg (F64.mul y.hi q)))).toInt * (unit : Int))
    (HI := P.hi.toInt * (unit : Int)) (LO := P.lo.toInt * (unit : Int)) (AU := A * (unit : Int))
    h1 (by rw [neg_mul] at h2; exact h2) h3
    (by rw [← add_mul, ← sub_mul]; exact h4') h5'
  rw [add_mul]
  exact key

theorem abs_le_of_eq_add5 {x a b c d e : Int} (h : x = a + b + c + d + e) :
    |x| ≤ |a| + |b| + |c| + |d| + |e| := by
  rw [h]
  have h1 := abs_add_le (a + b + c + d) e
  have h2 := abs_add_le (a + b + c) d
  have h3 := abs_add_le (a + b) c
  have h4 := abs_add_le a b
  omega

/-- error analysis of AccurateDWPlusDW (subtraction) with crude relative bounds and NO exactness assumption on the
inner Fast2Sum: the high word of the result is within `2^-48 (|xh| + |ph|)` of the exact difference -/
theorem sub_crude_int {xh xl ph pl sh sl th tl c vh zz vl w hi : Int}
    (hx : 2 ^ 53 * |xl| ≤ |xh|) (hp : 2 ^ 53 * |pl| ≤ |ph|)
    (e1 : sh = rnI (xh - ph)) (e2 : sl = xh - ph - sh) (e3 : th = rnI (xl - pl)) (e4 : tl = xl - pl - th)
    (e5 : c = rnI (sl + th)) (e6 : vh = rnI (sh + c)) (e7 : zz = rnI (vh - sh)) (e8 : vl = rnI (c - zz))
    (e9 : w = rnI (tl + vl)) (e10 : hi = rnI (vh + w)) :
    2 ^ 48 * |hi - (xh + xl - (ph + pl))| ≤ |xh| + |ph| := by
  have r1 := rel_err_rnI (xh - ph)
  have r3 := rel_err_rnI (xl - pl)
  have r5 := rel_err_rnI (sl + th)
  have r6 := rel_err_rnI (sh + c)
  have r7 := rel_err_rnI (vh - sh)
  have r9 := rel_err_rnI (tl + vl)
  have r10 := rel_err_rnI (vh + w)
  have b8 := abs_rnI_le_two_mul (c - zz)
  rw [← e1] at r1
  rw [← e3] at r3
  rw [← e5] at r5
  rw [← e6] at r6
  rw [← e7] at r7
  rw [← e8] at b8
  rw [← e9] at r9
  rw [← e10] at r10
  have esl : |sl| = |sh - (xh - ph)| := by rw [e2, ← abs_neg]; congr 1; ring
  have etl : |tl| = |th - (xl - pl)| := by rw [e4, ← abs_neg]; congr 1; ring
  have tG : |hi - (xh + xl - (ph + pl))|
      ≤ |hi - (vh + w)| + |vh - (sh + c)| + |c - (sl + th)| + |w - (tl + vl)| + |vl| := by
    apply abs_le_of_eq_add5
    rw [e2, e4]; ring
  have T1 : |xh - ph| ≤ |xh| + |ph| := abs_sub_le_add _ _
  have T2 : |xl - pl| ≤ |xl| + |pl| := abs_sub_le_add _ _
  have T3 : |sh| ≤ |xh - ph| + |sh - (xh - ph)| := abs_le_of_eq_add (by ring)
  have T4 : |th| ≤ |xl - pl| + |th - (xl - pl)| := abs_le_of_eq_add (by ring)
  have T5 := abs_add_le sl th
  have T6 : |c| ≤ |sl + th| + |c - (sl + th)| := abs_le_of_eq_add (by ring)
  have T7 := abs_add_le sh c
  have T8 : |vh - sh| ≤ |c| + |vh - (sh + c)| := abs_le_of_eq_add (by ring)
  have T9 : |c - zz| ≤ |vh - (sh + c)| + |zz - (vh - sh)| := by
    have := abs_le_of_eq_add (x := c - zz) (y := -(vh - (sh + c))) (z := -(zz - (vh - sh))) (by ring)
    rwa [abs_neg, abs_neg] at this
  have T10 := abs_add_le tl vl
  have T11 : |vh| ≤ |sh + c| + |vh - (sh + c)| := abs_le_of_eq_add (by ring)
  have T12 : |w| ≤ |tl + vl| + |w - (tl + vl)| := abs_le_of_eq_add (by ring)
  have T13 := abs_add_le vh w
  have n1 := abs_nonneg xh
  have n2 := abs_nonneg ph
  have n3 := abs_nonneg xl
  have n4 := abs_nonneg pl
  have n5 := abs_nonneg (sh - (xh - ph))
  have n6 := abs_nonneg (th - (xl - pl))
  have n7 := abs_nonneg (c - (sl + th))
  have n8 := abs_nonneg (vh - (sh + c))
  have n9 := abs_nonneg (zz - (vh - sh))
  have n10 := abs_nonneg (w - (tl + vl))
  have n11 := abs_nonneg (hi - (vh + w))
  generalize |hi - (xh + xl - (ph + pl))| = G at *
  generalize |hi - (vh + w)| = E10 at *
  generalize |vh - (sh + c)| = E6 at *
  generalize |c - (sl + th)| = E5 at *
  generalize |w - (tl + vl)| = E9 at *
  generalize |zz - (vh - sh)| = E7 at *
  generalize |sh - (xh - ph)| = E1 at *
  generalize |th - (xl - pl)| = E3 at *
  generalize |vl| = VL at *
  generalize |c - zz| = A1 at *
  generalize |xh - ph| = A2 at *
  generalize |xl - pl| = A3 at *
  generalize |sl + th| = A4 at *
  generalize |sh + c| = A5 at *
  generalize |vh - sh| = A6 at *
  generalize |tl + vl| = A7 at *
  generalize |vh + w| = A8 at *
  generalize |sh| = SH at *
  generalize |sl| = SL at *
  generalize |th| = TH at *
  generalize |tl| = TL at *
  generalize |c| = C at *
  generalize |vh| = VH at *
  generalize |w| = W at *
  generalize |xh| = XH at *
  generalize |ph| = PH at *
  generalize |xl| = XL at *
  generalize |pl| = PL at *
  omega

/-- **`TwoFloat - TwoFloat`, crude value, all magnitudes**: for valid well-formed operands, if the high word of the
difference is finite then no intermediate operation overflowed, the difference is a valid pair and its high word is
within `2^-48 (|x.hi| + |p.hi|)` of the exact difference. -/
theorem sub_tt_crude {x p : TwoFloat} (hx : x.Valid) (hp : p.Valid) (hwx : x.WF) (hwp : p.WF)
    (hR : (arithmetic.impl_Sub_rTwoFloat_for_rTwoFloat.sub x p).hi.is_finite = true) :
    (arithmetic.impl_Sub_rTwoFloat_for_rTwoFloat.sub x p).Valid ∧
    2 ^ 48 * |(arithmetic.impl_Sub_rTwoFloat_for_rTwoFloat.sub x p).hi.toInt - (x.V - p.V)|
      ≤ |x.hi.toInt| + |p.hi.toInt| := by
  have hv : (arithmetic.impl_Sub_rTwoFloat_for_rTwoFloat.sub x p).Valid := by
    rcases (C01.sub_tt_inv hwx hwp (Or.inl hx) (Or.inl hp)).1 with h | h
    · exact h
    · rw [hR] at h; cases h
  refine ⟨hv, ?_⟩
  have hhi : (arithmetic.impl_Sub_rTwoFloat_for_rTwoFloat.sub x p).hi =
      F64.add (F64.add (TwoFloat.new_sub x.hi p.hi).hi
          (F64.add (TwoFloat.new_sub x.hi p.hi).lo (TwoFloat.new_sub x.lo p.lo).hi))
        (F64.add (TwoFloat.new_sub x.lo p.lo).lo
          (F64.sub (F64.add (TwoFloat.new_sub x.hi p.hi).lo (TwoFloat.new_sub x.lo p.lo).hi)
            (F64.sub (F64.add (TwoFloat.new_sub x.hi p.hi).hi
              (F64.add (TwoFloat.new_sub x.hi p.hi).lo (TwoFloat.new_sub x.lo p.lo).hi))
              (TwoFloat.new_sub x.hi p.hi).hi))) := rfl
  rw [hhi] at hR ⊢
  obtain ⟨fvh, fw⟩ := is_finite_of_add hR
  obtain ⟨fsh, fc⟩ := is_finite_of_add fvh
  obtain ⟨fsl, fth⟩ := is_finite_of_add fc
  obtain ⟨ftl, fvl⟩ := is_finite_of_add fw
  obtain ⟨-, fzz⟩ := is_finite_of_sub fvl
  obtain ⟨vsh, vsl⟩ := new_sub_words_of_lo_finite hx.1 hp.1 hwx.1 hwp.1 fsl
  obtain ⟨vth, vtl⟩ := new_sub_words_of_lo_finite hx.2.1 hp.2.1 hwx.2 hwp.2 ftl
  have vc := vsl.add_of_finite vth fc
  have vvh := vsh.add_of_finite vc fvh
  have vzz := vvh.sub_of_finite vsh fzz
  have vvl := vc.sub_of_finite vzz fvl
  have vw := vtl.add_of_finite vvl fw
  have vhi := vvh.add_of_finite vw hR
  rw [vhi.2]
  have e : x.V - p.V = x.hi.toInt + x.lo.toInt - (p.hi.toInt + p.lo.toInt) := rfl
  rw [e]
  exact sub_crude_int (two_pow_mul_abs_le_of_half_ulp hx.two_mul_abs_lo_le)
    (two_pow_mul_abs_le_of_half_ulp hp.two_mul_abs_lo_le) rfl rfl rfl rfl rfl rfl rfl rfl rfl rfl

/-- error analysis of `f64 - TwoFloat` with crude relative bounds -/
theorem sub_ft_crude_int {f ph pl sh sl v hi : Int} (hp : 2 ^ 53 * |pl| ≤ |ph|)
    (e1 : sh = rnI (f - ph)) (e2 : sl = f - ph - sh) (e3 : v = rnI (sl - pl)) (e4 : hi = rnI (sh + v)) :
    2 ^ 48 * |hi - (f + 0 - (ph + pl))| ≤ |f| + |ph| := by
  have r1 := rel_err_rnI (f - ph)
  have r3 := rel_err_rnI (sl - pl)
  have r4 := rel_err_rnI (sh + v)
  rw [← e1] at r1
  rw [← e3] at r3
  rw [← e4] at r4
  have esl : |sl| = |sh - (f - ph)| := by rw [e2, ← abs_neg]; congr 1; ring
  have tG : |hi - (f + 0 - (ph + pl))| ≤ |hi - (sh + v)| + |v - (sl - pl)| := by
    apply abs_le_of_eq_add
    rw [e2]; ring
  have T1 : |f - ph| ≤ |f| + |ph| := abs_sub_le_add _ _
  have T2 : |sl - pl| ≤ |sl| + |pl| := abs_sub_le_add _ _
  have T3 : |sh| ≤ |f - ph| + |sh - (f - ph)| := abs_le_of_eq_add (by ring)
  have T4 : |v| ≤ |sl - pl| + |v - (sl - pl)| := abs_le_of_eq_add (by ring)
  have T5 := abs_add_le sh v
  have n1 := abs_nonneg f
  have n2 := abs_nonneg ph
  have n3 := abs_nonneg pl
  have n4 := abs_nonneg (sh - (f - ph))
  have n5 := abs_nonneg (v - (sl - pl))
  have n6 := abs_nonneg (hi - (sh + v))
  generalize |hi - (f + 0 - (ph + pl))| = G at *
  generalize |hi - (sh + v)| = E4 at *
  generalize |v - (sl - pl)| = E3 at *
  generalize |sh - (f - ph)| = E1 at *
  generalize |f - ph| = A1 at *
  generalize |sl - pl| = A2 at *
  generalize |sh + v| = A3 at *
  generalize |sh| = SH at *
  generalize |sl| = SL at *
  generalize |v| = V at *
  generalize |f| = F at *
  generalize |ph| = PH at *
  generalize |pl| = PL at *
  omega

/-- **`f64 - TwoFloat`, crude value, all magnitudes** -/
theorem sub_ft_crude {f : F64} {p : TwoFloat} (hf : f.is_finite = true) (hwf : f.WF) (hp : p.Valid) (hwp : p.WF)
    (hR : (arithmetic.impl_Sub_rTwoFloat_for_rf64.sub f p).hi.is_finite = true) :
    (arithmetic.impl_Sub_rTwoFloat_for_rf64.sub f p).Valid ∧
    2 ^ 48 * |(arithmetic.impl_Sub_rTwoFloat_for_rf64.sub f p).hi.toInt - (f.toInt + 0 - p.V)|
      ≤ |f.toInt| + |p.hi.toInt| := by
  have hv : (arithmetic.impl_Sub_rTwoFloat_for_rf64.sub f p).Valid := by
    rcases (C01.sub_f64_tf_inv f hwp hwf (Or.inl hp)).1 with h | h
    · exact h
    · rw [hR] at h; cases h
  refine ⟨hv, ?_⟩
  have hhi : (arithmetic.impl_Sub_rTwoFloat_for_rf64.sub f p).hi =
      F64.add (TwoFloat.new_sub f p.hi).hi (F64.sub (TwoFloat.new_sub f p.hi).lo p.lo) := rfl
  rw [hhi] at hR ⊢
  obtain ⟨fsh, fv⟩ := is_finite_of_add hR
  obtain ⟨fsl, -⟩ := is_finite_of_sub fv
  obtain ⟨vsh, vsl⟩ := new_sub_words_of_lo_finite hf hp.1 hwf hwp.1 fsl
  have vv := vsl.sub_of_finite (IsVal.of_finite hp.2.1) fv
  have vhi := vsh.add_of_finite vv hR
  rw [vhi.2]
  exact sub_ft_crude_int (two_pow_mul_abs_le_of_half_ulp hp.two_mul_abs_lo_le) rfl rfl rfl rfl

/-! ## 4. one step of the long division, all magnitudes -/

/-- **one step `r ↦ r − y·RN(r.hi / y.hi)`** on scaled integers (everything multiplied by `U`): `XU, XLU` the words of
`r`, `N = q·y.hi`, `Lq = q·y.lo`, `PVU, PHU` value and high word of the computed product, `RU` the high word of the
computed difference.  Result: `|r'.hi| ≤ 2^-44 |r.hi| + 4 |y.hi|·2^-1074`. -/
theorem step_crude_int {XU XLU N Lq PVU PHU RU B : Int}
    (hxl : 2 ^ 53 * |XLU| ≤ |XU|)
    (hq : 2 ^ 53 * |N - XU| ≤ 2 ^ 52 * |B| + |XU|)
    (hL : 2 ^ 53 * |Lq| ≤ |N|)
    (hP : 2 ^ 51 * |PVU - (N + Lq)| ≤ 2 ^ 53 * |N - XU| + 2 ^ 52 * |Lq| + |N|)
    (hPh : |PHU| ≤ 2 * |PVU|)
    (hR : 2 ^ 48 * |RU - (XU + XLU - PVU)| ≤ |XU| + |PHU|) :
    2 ^ 44 * |RU| ≤ |XU| + 2 ^ 46 * |B| := by
  have tR : |RU| ≤ |RU - (XU + XLU - PVU)| + |N - XU| + |XLU| + |Lq| + |PVU - (N + Lq)| := by
    have := abs_le_of_eq_add5 (x := RU) (a := RU - (XU + XLU - PVU)) (b := -(N - XU)) (c := XLU) (d := -Lq)
      (e := -(PVU - (N + Lq))) (by ring)
    rwa [abs_neg, abs_neg, abs_neg] at this
  have tN : |N| ≤ |XU| + |N - XU| := abs_le_of_eq_add (by ring)
  have tP : |PVU| ≤ |N| + |Lq| + |PVU - (N + Lq)| := abs_le_of_eq_add3 (by ring)
  have n1 := abs_nonneg B
  have n2 := abs_nonneg XU
  have n3 := abs_nonneg (N - XU)
  have n4 := abs_nonneg Lq
  have n5 := abs_nonneg XLU
  have n6 := abs_nonneg (PVU - (N + Lq))
  have n7 := abs_nonneg (RU - (XU + XLU - PVU))
  generalize |RU| = r at *
  generalize |RU - (XU + XLU - PVU)| = dS at *
  generalize |PVU - (N + Lq)| = dP at *
  generalize |N - XU| = d at *
  generalize |XLU| = xl at *
  generalize |Lq| = l at *
  generalize |N| = n at *
  generalize |PVU| = pv at *
  generalize |PHU| = ph at *
  generalize |XU| = x at *
  generalize |B| = b at *
  omega

/-- the next quotient digit is at most `2^-43` of the previous one plus `8` units -/
theorem digit_crude_int {q q' B XU RU : Int} (hB : B ≠ 0)
    (hq : 2 ^ 53 * |q * B - XU| ≤ 2 ^ 52 * |B| + |XU|)
    (hq' : 2 ^ 53 * |q' * B - RU| ≤ 2 ^ 52 * |B| + |RU|)
    (hS : 2 ^ 44 * |RU| ≤ |XU| + 2 ^ 46 * |B|) :
    2 ^ 43 * |q'| ≤ |q| + 2 ^ 46 := by
  have hBp : 0 < |B| := abs_pos.2 hB
  have t1 : |q' * B| ≤ |RU| + |q' * B - RU| := abs_le_of_eq_add (by ring)
  have t2 : |XU| ≤ |q * B| + |q * B - XU| := by
    have := abs_le_of_eq_add (x := XU) (y := q * B) (z := -(q * B - XU)) (by ring)
    rwa [abs_neg] at this
  have n1 := abs_nonneg (q' * B - RU)
  have n2 := abs_nonneg (q * B - XU)
  have n3 := abs_nonneg (q * B)
  have n4 := abs_nonneg RU
  have n5 := abs_nonneg XU
  have key : 2 ^ 43 * |q' * B| ≤ |q * B| + 2 ^ 46 * |B| := by
    generalize |q' * B| = a1 at *
    generalize |q * B| = a2 at *
    generalize |q' * B - RU| = a3 at *
    generalize |q * B - XU| = a4 at *
    generalize |RU| = a5 at *
    generalize |XU| = a6 at *
    generalize |B| = b at *
    omega
  rw [abs_mul, abs_mul] at key
  have : (2 ^ 43 * |q'|) * |B| ≤ (|q| + 2 ^ 46) * |B| := by linarith
  exact le_of_mul_le_mul_right this hBp

theorem subTT_hi_finite {x p : TwoFloat}
    (h : (arithmetic.impl_Sub_rTwoFloat_for_rTwoFloat.sub x p).hi.is_finite = true) :
    x.hi.is_finite = true ∧ p.hi.is_finite = true := by
  constructor
  · by_contra hc
    have := C01.subTT_hi_not_finite (a := x) (b := p) (Or.inl (is_finite_eq_false_iff.2 hc))
    rw [h] at this; cases this
  · by_contra hc
    have := C01.subTT_hi_not_finite (a := x) (b := p) (Or.inr (is_finite_eq_false_iff.2 hc))
    rw [h] at this; cases this

theorem subFT_hi_finite {f : F64} {p : TwoFloat}
    (h : (arithmetic.impl_Sub_rTwoFloat_for_rf64.sub f p).hi.is_finite = true) :
    f.is_finite = true ∧ p.hi.is_finite = true := by
  constructor
  · by_contra hc
    have := C01d.subFT_hi_not_finite (f := f) (p := p) (Or.inl (is_finite_eq_false_iff.2 hc))
    rw [h] at this; cases this
  · by_contra hc
    have := C01d.subFT_hi_not_finite (f := f) (p := p) (Or.inr (is_finite_eq_false_iff.2 hc))
    rw [h] at this; cases this

/-- **one step of the long division, `F64` level, all magnitudes**: `xh` the (finite) high word of the current
remainder, `xl` the value of its low word, `R` the computed new remainder, known through its crude value bound `hR`.
Nothing is assumed about magnitudes — only that the digit and the product came out finite. -/
theorem step_crude {y : TwoFloat} {xh : F64} {xl : Int} {R : TwoFloat}
    (hy : y.Valid) (fx : xh.is_finite = true) (hwx : xh.WF) (hy0 : y.hi.toInt ≠ 0)
    (hxl : 2 ^ 53 * |xl| ≤ |xh.toInt|)
    (fq : (F64.div xh y.hi).is_finite = true)
    (fP : (arithmetic.impl_Mul_rf64_for_rTwoFloat.mul y (F64.div xh y.hi)).hi.is_finite = true)
    (hR : 2 ^ 48 * |R.hi.toInt - (xh.toInt + xl - (arithmetic.impl_Mul_rf64_for_rTwoFloat.mul y (F64.div xh y.hi)).V)|
      ≤ |xh.toInt| + |(arithmetic.impl_Mul_rf64_for_rTwoFloat.mul y (F64.div xh y.hi)).hi.toInt|) :
    2 ^ 44 * |R.hi.toInt * (unit : Int)| ≤ |xh.toInt * (unit : Int)| + 2 ^ 46 * |y.hi.toInt| := by
  have hUi := unit_pos_int
  have vq := div_spec_of_finite fx hy.1 hy0 fq
  have hq := rdI_err_gen (xh.toInt * (unit : Int)) hy0
  rw [← vq] at hq
  obtain ⟨pv, hP⟩ := mul_tf_crude hy fP (A := xh.toInt) hwx.repI
  have hL := lo_mul_le (q := (F64.div xh y.hi).toInt) hy.two_mul_abs_lo_le
  have hPh : |(arithmetic.impl_Mul_rf64_for_rTwoFloat.mul y (F64.div xh y.hi)).hi.toInt|
      ≤ 2 * |(arithmetic.impl_Mul_rf64_for_rTwoFloat.mul y (F64.div xh y.hi)).V| := by
    rw [pv.hi_toInt]; exact abs_rnI_le_two_mul _
  generalize arithmetic.impl_Mul_rf64_for_rTwoFloat.mul y (F64.div xh y.hi) = P at *
  have hxl' := scale_rel hUi hxl
  have hPh' : |P.hi.toInt * (unit : Int)| ≤ 2 * |P.V * (unit : Int)| := by
    have := scale_rel (k := 1) hUi (x := P.hi.toInt) (y := 2 * P.V) (by rw [abs_mul]; simpa using hPh)
    rw [one_mul, mul_assoc, abs_mul] at this
    simpa using this
  have hR' : 2 ^ 48 * |R.hi.toInt * (unit : Int) - (xh.toInt * (unit : Int) + xl * (unit : Int) - P.V * (unit : Int))|
      ≤ |xh.toInt * (unit : Int)| + |P.hi.toInt * (unit : Int)| := by
    have e : R.hi.toInt * (unit : Int) - (xh.toInt * (unit : Int) + xl * (unit : Int) - P.V * (unit : Int))
        = (R.hi.toInt - (xh.toInt + xl - P.V)) * (unit : Int) := by ring
    rw [e, abs_mul_pos_right _ hUi, abs_mul_pos_right _ hUi, abs_mul_pos_right _ hUi, ← add_mul, ← mul_assoc]
    exact mul_le_mul_of_nonneg_right hR hUi.le
  exact step_crude_int (N := y.hi.toInt * (F64.div xh y.hi).toInt) (Lq := y.lo.toInt * (F64.div xh y.hi).toInt)
    hxl' (by rw [mul_comm y.hi.toInt]; exact hq) hL hP hPh' hR'

/-! ## 5. the long divisions -/

/-- **the three quotient digits of a long division decrease**, for all magnitudes: `sub p = r − p` (`TwoFloat /
TwoFloat`) or `f − p` (`f64 / TwoFloat`).  Only finiteness of the three digits is assumed. -/
theorem div_digits {y : TwoFloat} {xh : F64} {xl : Int} (sub : TwoFloat → TwoFloat) (hy : y.Valid)
    (fx : xh.is_finite = true) (hwx : xh.WF) (hxl : 2 ^ 53 * |xl| ≤ |xh.toInt|)
    (hsubf : ∀ p : TwoFloat, (sub p).hi.is_finite = true → p.hi.is_finite = true)
    (hsub : ∀ p : TwoFloat, p.Valid → p.WF → (sub p).hi.is_finite = true →
      (sub p).Valid ∧ (sub p).WF ∧
      2 ^ 48 * |(sub p).hi.toInt - (xh.toInt + xl - p.V)| ≤ |xh.toInt| + |p.hi.toInt|)
    (f1 : (F64.div xh y.hi).is_finite = true)
    (f2 : (F64.div (sub (arithmetic.impl_Mul_rf64_for_rTwoFloat.mul y (F64.div xh y.hi))).hi y.hi).is_finite = true)
    (f3 : (F64.div (divStep (sub (arithmetic.impl_Mul_rf64_for_rTwoFloat.mul y (F64.div xh y.hi))) y).hi
      y.hi).is_finite = true) :
    2 ^ 40 * |(F64.div (sub (arithmetic.impl_Mul_rf64_for_rTwoFloat.mul y (F64.div xh y.hi))).hi y.hi).toInt|
      ≤ |(F64.div xh y.hi).toInt| + 2 ^ 50 ∧
    2 ^ 40 * |(F64.div (divStep (sub (arithmetic.impl_Mul_rf64_for_rTwoFloat.mul y (F64.div xh y.hi))) y).hi
        y.hi).toInt|
      ≤ |(F64.div xh y.hi).toInt| + 2 ^ 50 := by
  have hy0 : y.hi.toInt ≠ 0 := by
    intro h0
    rw [div_zero_not_finite fx hy.1 h0] at f1
    cases f1
  -- first step
  have fr1 := is_finite_of_div f2
  have fP1 := hsubf _ fr1
  have pv1 := (mul_tf_crude hy fP1 hwx.repI).1
  obtain ⟨rv1, rw1, hR1⟩ := hsub _ pv1 (mul_tf_WF _ _) fr1
  have S1 := step_crude hy fx hwx hy0 hxl f1 fP1 hR1
  have vq1 := div_spec_of_finite fx hy.1 hy0 f1
  have hq1 := rdI_err_gen (xh.toInt * (unit : Int)) hy0
  rw [← vq1] at hq1
  generalize hr1 : sub (arithmetic.impl_Mul_rf64_for_rTwoFloat.mul y (F64.div xh y.hi)) = r1 at *
  have vq2 := div_spec_of_finite rv1.1 hy.1 hy0 f2
  have hq2 := rdI_err_gen (r1.hi.toInt * (unit : Int)) hy0
  rw [← vq2] at hq2
  have D2 := digit_crude_int hy0 hq1 hq2 S1
  -- second step
  have fr2 : (arithmetic.impl_Sub_rTwoFloat_for_rTwoFloat.sub r1
      (arithmetic.impl_Mul_rf64_for_rTwoFloat.mul y (F64.div r1.hi y.hi))).hi.is_finite = true :=
    is_finite_of_div f3
  have fP2 := (subTT_hi_finite fr2).2
  have pv2 := (mul_tf_crude hy fP2 rw1.1.repI).1
  obtain ⟨-, hR2⟩ := sub_tt_crude rv1 pv2 rw1 (mul_tf_WF _ _) fr2
  have S2 := step_crude (R := divStep r1 y) hy rv1.1 rw1.1 hy0
    (two_pow_mul_abs_le_of_half_ulp rv1.two_mul_abs_lo_le) f2 fP2 hR2
  have vq3 := div_spec_of_finite (x := (divStep r1 y).hi) fr2 hy.1 hy0 f3
  have hq3 := rdI_err_gen ((divStep r1 y).hi.toInt * (unit : Int)) hy0
  rw [← vq3] at hq3
  have D3 := digit_crude_int hy0 hq2 hq3 S2
  have n1 := abs_nonneg (F64.div xh y.hi).toInt
  have n2 := abs_nonneg (F64.div r1.hi y.hi).toInt
  have n3 := abs_nonneg (F64.div (divStep r1 y).hi y.hi).toInt
  generalize |(F64.div xh y.hi).toInt| = Q1 at *
  generalize |(F64.div r1.hi y.hi).toInt| = Q2 at *
  generalize |(F64.div (divStep r1 y).hi y.hi).toInt| = Q3 at *
  constructor <;> omega

end F64

namespace TwoFloat

open F64

/-- **C01 for `TwoFloat / TwoFloat`, all magnitudes.**  For ALL well-formed operands satisfying the invariant — zero,
subnormal, huge, infinite or NaN high words, quotients that underflow or overflow — the long division returns a valid
pair or a pair with a non-finite high word. -/
theorem div_tt_inv_all {a b : TwoFloat} (hwa : a.WF) (_hwb : b.WF) (hia : a.Inv) (hib : b.Inv) :
    (arithmetic.impl_Div_rTwoFloat_for_rTwoFloat.div a b).Inv ∧
    (arithmetic.impl_Div_rTwoFloat_for_rTwoFloat.div a b).WF := by
  rcases hia with ha | ha
  · rcases hib with hb | hb
    · rw [div_tt_eq]
      refine renorm3_inv_of_digits (div_WF _ _) (div_WF _ _) (div_WF _ _) (fun f1 f2 f3 => ?_)
      exact div_digits (xl := a.lo.toInt) (fun p => arithmetic.impl_Sub_rTwoFloat_for_rTwoFloat.sub a p) hb ha.1 hwa.1
        (two_pow_mul_abs_le_of_half_ulp ha.two_mul_abs_lo_le)
        (fun p h => (subTT_hi_finite h).2)
        (fun p hp hwp h => ⟨(sub_tt_crude ha hp hwa hwp h).1, sub_tt_WF _ _, (sub_tt_crude ha hp hwa hwp h).2⟩)
        f1 f2 f3
    · exact ⟨Or.inr (C01d.divTT_hi_not_finite (Or.inr hb)), div_tt_WF a b⟩
  · exact ⟨Or.inr (C01d.divTT_hi_not_finite (Or.inl ha)), div_tt_WF a b⟩

/-- **C01 for `f64 / TwoFloat`, all magnitudes** -/
theorem div_ft_inv_all {f : F64} {b : TwoFloat} (hwf : f.WF) (_hwb : b.WF) (hib : b.Inv) :
    (arithmetic.impl_Div_rTwoFloat_for_rf64.div f b).Inv ∧
    (arithmetic.impl_Div_rTwoFloat_for_rf64.div f b).WF := by
  by_cases hf : f.is_finite = true
  · rcases hib with hb | hb
    · rw [div_ft_eq]
      refine renorm3_inv_of_digits (div_WF _ _) (div_WF _ _) (div_WF _ _) (fun f1 f2 f3 => ?_)
      exact div_digits (xl := 0) (fun p => arithmetic.impl_Sub_rTwoFloat_for_rf64.sub f p) hb hf hwf
        (by rw [abs_zero, mul_zero]; exact abs_nonneg _)
        (fun p h => (subFT_hi_finite h).2)
        (fun p hp hwp h => ⟨(sub_ft_crude hf hwf hp hwp h).1, sub_ft_WF _ _, (sub_ft_crude hf hwf hp hwp h).2⟩)
        f1 f2 f3
    · exact ⟨Or.inr (C01d.divFT_hi_not_finite (Or.inr hb)), div_ft_WF f b⟩
  · exact ⟨Or.inr (C01d.divFT_hi_not_finite (Or.inl (is_finite_eq_false_iff.2 hf))), div_ft_WF f b⟩

end TwoFloat

/-! ## 6. `TwoFloat / f64` with a subnormal first quotient -/

namespace F64

open TwoFloat

/-- a quotient below `2^53` units is rounded to an integer: error at most half a unit -/
theorem rdI_err_subnormal {p q : Int} (hq : q ≠ 0) (h : |p| < 2 ^ 53 * |q|) :
    2 * |rdI p q * q - p| ≤ |q| := by
  have he := rdI_err p hq
  have hlt : p.natAbs < 2 ^ 53 * q.natAbs := by
    have : ((p.natAbs : Nat) : Int) < ((2 ^ 53 * q.natAbs : Nat) : Int) := by
      push_cast; norm_num at h ⊢; exact h
    exact_mod_cast this
  have hd : p.natAbs / q.natAbs < 2 ^ 53 := by
    rw [Nat.div_lt_iff_lt_mul (Int.natAbs_pos.2 hq)]; exact hlt
  have h0 : Nat.log2 (p.natAbs / q.natAbs) - 52 = 0 := by
    rcases Nat.eq_zero_or_pos (p.natAbs / q.natAbs) with e | e
    · rw [e]; simp
    · have := (Nat.log2_lt (k := 53) (by omega : p.natAbs / q.natAbs ≠ 0)).2 hd
      omega
  rw [h0, pow_zero, mul_one] at he
  exact he

/-- magnitudes in DWDivFP when the first quotient `T ≠ 0` is below `2^53` units (everything multiplied by `U`):
`|tl·y| < (|T| + 1)|y|` -/
theorem divfp_sub_int {XU LU y N PH PL DH DT D TLy : Int} (hy : 0 < |y|)
    (hN1 : |y| ≤ |N|)
    (hd0 : 2 * |N - XU| ≤ |y|)
    (hl : 2 ^ 53 * |LU| ≤ |XU|)
    (h1 : |PH - N| ≤ |XU - N|)
    (h2 : |PL - (N + -PH)| ≤ |N + -PH|)
    (r1 : 2 ^ 53 * |DH - (XU - PH)| ≤ |XU - PH|)
    (r2 : 2 ^ 53 * |DT - (DH - PL)| ≤ |DH - PL|)
    (r3 : 2 ^ 53 * |D - (DT + LU)| ≤ |DT + LU|)
    (hq' : 2 ^ 53 * |TLy - D| ≤ 2 ^ 52 * |y| + |D|) :
    |TLy| < |N| + |y| := by
  have e0 : |XU - N| = |N - XU| := abs_sub_comm _ _
  have e1 : |N + -PH| = |PH - N| := by rw [← abs_neg]; congr 1; ring
  rw [e0] at h1
  rw [e1] at h2
  have tD : |D| ≤ |D - (DT + LU)| + |DT - (DH - PL)| + |DH - (XU - PH)| + |XU - PH - PL| + |LU| :=
    abs_le_of_eq_add5 (by ring)
  have tX : |XU - PH - PL| ≤ |N - XU| + |PL - (N + -PH)| := by
    have := abs_le_of_eq_add (x := XU - PH - PL) (y := -(N - XU)) (z := -(PL - (N + -PH))) (by ring)
    rwa [abs_neg, abs_neg] at this
  have tA : |XU - PH| ≤ |N - XU| + |PH - N| := by
    have := abs_le_of_eq_add (x := XU - PH) (y := -(N - XU)) (z := -(PH - N)) (by ring)
    rwa [abs_neg, abs_neg] at this
  have tB : |DH - PL| ≤ |DH - (XU - PH)| + |XU - PH - PL| := abs_le_of_eq_add (by ring)
  have tC : |DT + LU| ≤ |DT - (DH - PL)| + |DH - PL| + |LU| := abs_le_of_eq_add3 (by ring)
  have tT : |TLy| ≤ |D| + |TLy - D| := abs_le_of_eq_add (by ring)
  have tU : |XU| ≤ |N| + |N - XU| := by
    have := abs_le_of_eq_add (x := XU) (y := N) (z := -(N - XU)) (by ring)
    rwa [abs_neg] at this
  have n1 := abs_nonneg y
  have n2 := abs_nonneg (N - XU)
  have n3 := abs_nonneg (PH - N)
  have n4 := abs_nonneg (PL - (N + -PH))
  have n5 := abs_nonneg (DH - (XU - PH))
  have n6 := abs_nonneg (DT - (DH - PL))
  have n7 := abs_nonneg (D - (DT + LU))
  have n8 := abs_nonneg (TLy - D)
  have n9 := abs_nonneg LU
  generalize |TLy| = tl at *
  generalize |TLy - D| = eq at *
  generalize |D| = d at *
  generalize |D - (DT + LU)| = e3 at *
  generalize |DT - (DH - PL)| = e2 at *
  generalize |DH - (XU - PH)| = e1' at *
  generalize |XU - PH - PL| = a1 at *
  generalize |XU - PH| = a2 at *
  generalize |DH - PL| = a3 at *
  generalize |DT + LU| = a4 at *
  generalize |PL - (N + -PH)| = f2 at *
  generalize |PH - N| = f1 at *
  generalize |N - XU| = d0 at *
  generalize |LU| = l at *
  generalize |XU| = x at *
  generalize |N| = n at *
  generalize |y| = yy at *
  omega

/-- core of `TwoFloat / f64` (DWDivFP) when the first quotient is BELOW `2^53` units (`|x / y| < 2^-1021`, the case
left open by `dw_div_core_inv`): the correction `tl` is at most `|th|` in magnitude (`th = 0` forces `tl = th`). -/
theorem dw_div_core_inv_sub {x y l : F64} (hwx : x.WF)
    (hl : 2 * |l.toInt| ≤ 2 ^ (Nat.log2 x.toInt.natAbs - 52))
    (hfix : x.toInt = rnI (x.toInt + l.toInt))
    (hq : |x.toInt| * (unit : Int) < 2 ^ 53 * |y.toInt|) :
    (arithmetic.fast_two_sum (F64.div x y)
      (F64.div (F64.add (F64.sub (F64.sub x (TwoFloat.new_mul (F64.div x y) y).hi)
        (TwoFloat.new_mul (F64.div x y) y).lo) l) y)).Inv := by
  rw [new_mul_eq]
  simp only
  by_cases htl : (F64.div (F64.add (F64.sub (F64.sub x (F64.mul (F64.div x y) y))
      (F64.fma (F64.div x y) y (F64.neg (F64.mul (F64.div x y) y)))) l) y).is_finite = true
  · have hUi := unit_pos_int
    have hU := unit_pos
    have fd := is_finite_of_div htl
    obtain ⟨fdt, fl⟩ := is_finite_of_add fd
    obtain ⟨fdh, fpl⟩ := is_finite_of_sub fdt
    obtain ⟨fx, fph⟩ := is_finite_of_sub fdh
    obtain ⟨fth, fy⟩ := is_finite_of_mul fph
    have hy0 : y.toInt ≠ 0 := by
      intro h0
      rw [div_zero_not_finite fx fy h0] at fth
      exact absurd fth (by simp)
    have hyp : 0 < |y.toInt| := abs_pos.2 hy0
    have vth := div_spec_of_finite fx fy hy0 fth
    have vph := mul_spec_of_finite fph
    have vpl := fma_spec_of_finite fpl
    rw [toInt_neg] at vpl
    have vdh := ((IsVal.of_finite fx).sub_of_finite (IsVal.of_finite fph) fdh).2
    have vdt := ((IsVal.of_finite fdh).sub_of_finite (IsVal.of_finite fpl) fdt).2
    have vd := ((IsVal.of_finite fdt).add_of_finite (IsVal.of_finite fl) fd).2
    have vtl := div_spec_of_finite fd fy hy0 htl
    refine fast_two_sum_inv (div_WF _ _) (div_WF _ _) (Or.inr ?_)
    by_cases hT : (F64.div x y).toInt = 0
    · -- `th = 0`: the product vanishes, `d = RN(x + l) = x`, `tl = th`
      have eph : (F64.mul (F64.div x y) y).toInt = 0 := by rw [vph, hT, zero_mul, rqI_zero]
      have epl : (F64.fma (F64.div x y) y (F64.neg (F64.mul (F64.div x y) y))).toInt = 0 := by
        rw [vpl, hT, eph, zero_mul, neg_zero, zero_mul, add_zero, rqI_zero]
      rw [eph, sub_zero, rnI_of_repI hwx.repI] at vdh
      rw [vdh, epl, sub_zero, rnI_of_repI hwx.repI] at vdt
      rw [vdt, ← hfix] at vd
      rw [vd, ← vth] at vtl
      rw [vtl]
    · have hT1 : 1 ≤ |(F64.div x y).toInt| := Int.one_le_abs hT
      have hN1 : |y.toInt| ≤ |(F64.div x y).toInt * y.toInt| := by
        rw [abs_mul]; exact le_mul_of_one_le_left hyp.le hT1
      have hd0 : 2 * |(F64.div x y).toInt * y.toInt - x.toInt * (unit : Int)| ≤ |y.toInt| := by
        rw [vth]
        exact rdI_err_subnormal hy0 (by rw [abs_mul_pos_right _ hUi]; exact hq)
      have hl' := scale_rel hUi (two_pow_mul_abs_le_of_half_ulp hl)
      have h1 := rqI_nearest ((F64.div x y).toInt * y.toInt) hU hwx.repI
      rw [← vph] at h1
      have h2 := rqI_err_le_self ((F64.div x y).toInt * y.toInt
        + -(F64.mul (F64.div x y) y).toInt * (unit : Int)) hU
      rw [← vpl, neg_mul] at h2
      have r1 := scale_rel hUi (rel_err_rnI (x.toInt - (F64.mul (F64.div x y) y).toInt))
      rw [← vdh, sub_mul, sub_mul] at r1
      have r2 := scale_rel hUi (rel_err_rnI ((F64.sub x (F64.mul (F64.div x y) y)).toInt
        - (F64.fma (F64.div x y) y (F64.neg (F64.mul (F64.div x y) y))).toInt))
      rw [← vdt, sub_mul, sub_mul] at r2
      have r3 := scale_rel hUi (rel_err_rnI ((F64.sub (F64.sub x (F64.mul (F64.div x y) y))
        (F64.fma (F64.div x y) y (F64.neg (F64.mul (F64.div x y) y)))).toInt + l.toInt))
      rw [← vd, sub_mul, add_mul] at r3
      have hq' := rdI_err_gen ((F64.add (F64.sub (F64.sub x (F64.mul (F64.div x y) y))
        (F64.fma (F64.div x y) y (F64.neg (F64.mul (F64.div x y) y)))) l).toInt * (unit : Int)) hy0
      rw [← vtl] at hq'
      have key := divfp_sub_int hyp hN1 hd0 hl' h1 h2 r1 r2 r3 hq'
      rw [abs_mul, abs_mul] at key
      have : |(F64.div (F64.add (F64.sub (F64.sub x (F64.mul (F64.div x y) y))
          (F64.fma (F64.div x y) y (F64.neg (F64.mul (F64.div x y) y)))) l) y).toInt| * |y.toInt|
          < (|(F64.div x y).toInt| + 1) * |y.toInt| := by linarith
      have := lt_of_mul_lt_mul_right this hyp.le
      omega
  · exact Inv.of_not_finite (fast_two_sum_hi_not_finite (Or.inr (is_finite_eq_false_iff.2 htl)))

end F64

namespace TwoFloat

open F64

/-- **C01 for `TwoFloat / f64` (and `/=`), all magnitudes** — in particular quotients in the subnormal range, the
case left open in `C01.div_tf_f64_inv_of_normal_quotient` -/
theorem div_tf_inv_all {t : TwoFloat} (c : F64) (hw : t.WF) (hi : t.Inv) :
    (arithmetic.impl_Div_rf64_for_rTwoFloat.div t c).Inv ∧ (arithmetic.impl_Div_rf64_for_rTwoFloat.div t c).WF := by
  by_cases hq : 2 ^ 53 * |c.toInt| ≤ |t.hi.toInt| * (F64.unit : Int)
  · exact C01.div_tf_f64_inv_of_normal_quotient c hw hi hq
  · refine ⟨?_, div_tf_WF t c⟩
    rcases hi with hv | hn
    · rw [div_tf_eq]
      exact dw_div_core_inv_sub hw.1 hv.two_mul_abs_lo_le hv.hi_toInt (not_le.1 hq)
    · exact Or.inr (C01.divTF_hi_not_finite c hn)

end TwoFloat
