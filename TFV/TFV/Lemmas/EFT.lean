/-
Lemmas.EFT — layer L2: error-free transformations (Fast2Sum, 2Sum, 2Prod) for the generated model,
in the scaled-integer setting.  "Exact" always means an equation between `F64.toInt`s in `ℤ`.
-/
import TFV.Spec.F64Ops

namespace F64

/-! ## integer-level lemmas -/

/-- case analysis on the signs of a pair of integers, for predicates invariant under global negation -/
theorem int_sign_cases (P : Int → Int → Prop)
    (hneg : ∀ a b, P a b → P (-a) (-b))
    (hpp : ∀ A B : Nat, P A B)
    (hpn : ∀ A B : Nat, P A (-(B : Int))) : ∀ a b, P a b := by
  have key : ∀ (A : Nat) (b : Int), P A b := by
    intro A b
    rcases Int.lt_or_le b 0 with hb | hb
    · have : b = -((b.natAbs : Nat) : Int) := by omega
      rw [this]; exact hpn _ _
    · have : b = ((b.natAbs : Nat) : Int) := by omega
      rw [this]; exact hpp _ _
  intro a b
  rcases Int.lt_or_le a 0 with ha | ha
  · have h := hneg _ _ (key a.natAbs (-b))
    have e : -((a.natAbs : Nat) : Int) = a := by omega
    rwa [e, Int.neg_neg] at h
  · have e : a = ((a.natAbs : Nat) : Int) := by omega
    rw [e]; exact key _ _

/-- the rounding error of a floating-point addition is representable -/
theorem repI_add_err {a b : Int} (ha : RepI a) (hb : RepI b) : RepI (a + b - rnI (a + b)) := by
  revert ha hb
  refine int_sign_cases (fun a b => RepI a → RepI b → RepI (a + b - rnI (a + b))) ?_ ?_ ?_ a b
  · intro a b h ha hb
    have := h (repI_neg.1 ha) (repI_neg.1 hb)
    have e : -a + -b - rnI (-a + -b) = -(a + b - rnI (a + b)) := by
      rw [← Int.neg_add, rnI_neg]; ring
    rw [e]; exact this.neg
  · intro A B ha hb
    rw [repI_natCast] at ha hb
    rw [← Int.natCast_add, rnI_natCast, repI_sub_comm]
    exact rep_rn53_add_err ha hb
  · intro A B ha hb
    rw [repI_neg, repI_natCast] at hb
    rw [repI_natCast] at ha
    rcases Nat.lt_or_ge A B with h | h
    · have e : (A : Int) + -(B : Int) = -((B - A : Nat) : Int) := by omega
      rw [e, rnI_neg_natCast]
      have e2 : -((B - A : Nat) : Int) - -((rn53 (B - A) : Nat) : Int)
          = ((rn53 (B - A) : Nat) : Int) - ((B - A : Nat) : Int) := by ring
      rw [e2]
      exact rep_rn53_sub_err hb ha (Nat.le_of_lt h)
    · have e : (A : Int) + -(B : Int) = ((A - B : Nat) : Int) := by omega
      rw [e, rnI_natCast, repI_sub_comm]
      exact rep_rn53_sub_err ha hb h

/-- the rounding error is at most the magnitude of either (representable) operand -/
theorem abs_add_err_le_right {a b : Int} (ha : RepI a) : |a + b - rnI (a + b)| ≤ |b| := by
  have h := rnI_nearest (a + b) ha
  have e : a - (a + b) = -b := by ring
  rw [e, abs_neg] at h
  rwa [abs_sub_comm]

theorem abs_add_err_le_left {a b : Int} (hb : RepI b) : |a + b - rnI (a + b)| ≤ |a| := by
  have := abs_add_err_le_right (a := b) (b := a) hb
  rwa [Int.add_comm b a] at this

/-- Fast2Sum, second step: for `|b| ≤ |a|` the difference `RN(a + b) - a` is representable, and at most
`|a|` in magnitude -/
theorem repI_rnI_add_sub {a b : Int} (ha : RepI a) (hb : RepI b) (h : |b| ≤ |a|) :
    RepI (rnI (a + b) - a) ∧ |rnI (a + b) - a| ≤ |a| := by
  revert ha hb h
  refine int_sign_cases
    (fun a b => RepI a → RepI b → |b| ≤ |a| → RepI (rnI (a + b) - a) ∧ |rnI (a + b) - a| ≤ |a|)
    ?_ ?_ ?_ a b
  · intro a b h ha hb hab
    have := h (repI_neg.1 ha) (repI_neg.1 hb) (by rwa [abs_neg, abs_neg] at hab)
    have e : rnI (-a + -b) - -a = -(rnI (a + b) - a) := by
      rw [← Int.neg_add, rnI_neg]; ring
    rw [e, abs_neg, abs_neg]
    exact ⟨this.1.neg, this.2⟩
  · intro A B ha hb hab
    rw [repI_natCast] at ha hb
    have hBA : B ≤ A := by
      rw [abs_of_nonneg (Int.natCast_nonneg B), abs_of_nonneg (Int.natCast_nonneg A)] at hab
      exact Int.ofNat_le.1 hab
    have hr := rn53_add_range ha hBA
    have e : rnI ((A : Int) + (B : Int)) - (A : Int) = ((rn53 (A + B) - A : Nat) : Int) := by
      rw [← Int.natCast_add, rnI_natCast]; omega
    rw [e, repI_natCast, abs_of_nonneg (Int.natCast_nonneg _), abs_of_nonneg (Int.natCast_nonneg _)]
    exact ⟨rep_rn53_add_sub_left ha hBA, by omega⟩
  · intro A B ha hb hab
    rw [repI_neg, repI_natCast] at hb
    rw [repI_natCast] at ha
    have hBA : B ≤ A := by
      rw [abs_neg, abs_of_nonneg (Int.natCast_nonneg B), abs_of_nonneg (Int.natCast_nonneg A)] at hab
      exact Int.ofNat_le.1 hab
    have hs : rn53 (A - B) ≤ A := rn53_le_of_le ha (Nat.sub_le A B)
    have e : rnI ((A : Int) + -(B : Int)) - (A : Int) = -((A - rn53 (A - B) : Nat) : Int) := by
      have e1 : (A : Int) + -(B : Int) = ((A - B : Nat) : Int) := by omega
      rw [e1, rnI_natCast]; omega
    rw [e, repI_neg, repI_natCast, abs_neg, abs_of_nonneg (Int.natCast_nonneg _),
      abs_of_nonneg (Int.natCast_nonneg _)]
    exact ⟨rep_sub_rn53_sub ha hb hBA, by omega⟩

/-- the ulp of `b` divides every representable `a` with `|b| ≤ |a|` -/
theorem RepI.ulp_dvd_of_le {a b : Int} (ha : RepI a) (h : |b| ≤ |a|) :
    (2 : Int) ^ (Nat.log2 b.natAbs - 52) ∣ a := by
  have h' : b.natAbs ≤ a.natAbs := by
    rw [← Int.natCast_natAbs a, ← Int.natCast_natAbs b] at h; exact Int.ofNat_le.1 h
  have := Rep.ulp_dvd_of_le ha h'
  rw [← Int.natCast_dvd_natCast, Int.natCast_pow, Int.dvd_natAbs] at this
  exact this

/-- a representable integer is a multiple of its own ulp -/
theorem RepI.ulp_dvd {b : Int} (hb : RepI b) : (2 : Int) ^ (Nat.log2 b.natAbs - 52) ∣ b :=
  hb.ulp_dvd_of_le (le_refl _)

/-- a multiple of `ulp b` that is smaller than `b` in magnitude is representable -/
theorem repI_of_ulp_dvd_of_lt {z b : Int} (hd : (2 : Int) ^ (Nat.log2 b.natAbs - 52) ∣ z)
    (h : |z| ≤ |b|) : RepI z := by
  apply rep_natAbs_of_dvd_of_le hd
  have hl := lt_ulp_mul b.natAbs
  have h1 : |b| < 2 ^ 53 * 2 ^ (Nat.log2 b.natAbs - 52) := by
    rw [← Int.natCast_natAbs b]
    exact_mod_cast hl
  omega

/-- a representable integer is at least one ulp below the top of its binade -/
theorem RepI.add_ulp_le {b : Int} (hb : RepI b) :
    |b| + 2 ^ (Nat.log2 b.natAbs - 52) ≤ 2 ^ 53 * 2 ^ (Nat.log2 b.natAbs - 52) := by
  have hl := lt_ulp_mul b.natAbs
  obtain ⟨j, hj⟩ := Rep.dvd_ulp' hb
  generalize Nat.log2 b.natAbs - 52 = k at *
  have hk := Nat.two_pow_pos k
  have hj2 : j < 2 ^ 53 := by
    apply Nat.lt_of_mul_lt_mul_left (a := 2 ^ k)
    rw [← hj, Nat.mul_comm]; exact hl
  have h3 : b.natAbs + 2 ^ k ≤ 2 ^ 53 * 2 ^ k := by
    have := Nat.mul_le_mul_left (2 ^ k) (show j + 1 ≤ 2 ^ 53 from hj2)
    rw [Nat.mul_add, ← hj, Nat.mul_one, Nat.mul_comm] at this
    exact this
  rw [← Int.natCast_natAbs b]
  exact_mod_cast h3

/-- Fast2Sum, second step, general form: it suffices that `a` is a multiple of `ulp b`
(`|b| ≤ |a|` is the special case `RepI.ulp_dvd_of_le`; `a = 0` is another).  `M` is any common bound. -/
theorem repI_rnI_add_sub_of_dvd {a b : Int} (ha : RepI a) (hb : RepI b)
    (hd : (2 : Int) ^ (Nat.log2 b.natAbs - 52) ∣ a) {M : Int}
    (hMa : |a| ≤ M) (hMb : |b| ≤ M) (hMs : |rnI (a + b)| ≤ M) :
    RepI (rnI (a + b) - a) ∧ |rnI (a + b) - a| ≤ M := by
  rcases le_or_gt |b| |a| with h | h
  · have := repI_rnI_add_sub ha hb h
    exact ⟨this.1, le_trans this.2 hMa⟩
  · have hdb := hb.ulp_dvd
    have hdab : (2 : Int) ^ (Nat.log2 b.natAbs - 52) ∣ a + b := dvd_add hd hdb
    rcases le_or_gt |a + b| |b| with h2 | h2
    · have hr : RepI (a + b) := repI_of_ulp_dvd_of_lt hdab h2
      have e : a + b - a = b := by ring
      rw [rnI_of_repI hr, e]
      exact ⟨hb, hMb⟩
    · have hSd : (2 : Int) ^ (Nat.log2 b.natAbs - 52) ∣ rnI (a + b) - a :=
        dvd_sub (rnI_dvd hdab) hd
      have hul := hb.add_ulp_le
      have herr : |rnI (a + b) - (a + b)| ≤ 2 ^ (Nat.log2 b.natAbs - 52) := by
        have h1 := two_mul_abs_rnI_sub_le (a + b)
        have h3 : (a + b).natAbs < 2 ^ 53 * 2 ^ (Nat.log2 b.natAbs - 52 + 1) := by
          have h4 : |a + b| < 2 ^ 53 * 2 ^ (Nat.log2 b.natAbs - 52 + 1) := by
            have := abs_add_le a b
            rw [pow_succ]; omega
          rw [← Int.natCast_natAbs (a + b)] at h4
          exact_mod_cast h4
        have h5 := Nat.pow_le_pow_right (show 0 < 2 by decide) (log2_sub_le h3)
        have h6 : ((2 ^ (Nat.log2 (a + b).natAbs - 52) : Nat) : Int)
            ≤ 2 ^ (Nat.log2 b.natAbs - 52 + 1) := by exact_mod_cast h5
        rw [pow_succ] at h6
        omega
      have hS : |b| ≤ |rnI (a + b)| := le_abs_rnI hb (le_of_lt h2)
      have hsg1 := @rnI_nonneg_iff (a + b)
      have hsg2 := @rnI_nonpos_iff (a + b)
      constructor
      · apply rep_natAbs_of_dvd_of_le hSd
        have e : rnI (a + b) - a = b + (rnI (a + b) - (a + b)) := by ring
        rw [e]
        have := abs_add_le b (rnI (a + b) - (a + b))
        omega
      · generalize rnI (a + b) = S at *
        rcases abs_cases a with ⟨e1, _⟩ | ⟨e1, _⟩ <;> rcases abs_cases b with ⟨e2, _⟩ | ⟨e2, _⟩ <;>
        rcases abs_cases (a + b) with ⟨e3, _⟩ | ⟨e3, _⟩ <;> rcases abs_cases S with ⟨e4, _⟩ | ⟨e4, _⟩ <;>
        rcases abs_cases (S - a) with ⟨e5, _⟩ | ⟨e5, _⟩ <;>
        rw [e1, e2] at h <;> rw [e2, e3] at h2 <;> rw [e2, e4] at hS <;> rw [e4] at hMs <;> rw [e5] <;>
        omega

/-- **Knuth's 2Sum on scaled integers.**  `M` is any representable bound with `2|a|, 2|b| ≤ M` (it is
`maxFin` in the application); every intermediate exact result is bounded by `M`, and the final sum
`da + db` is computed exactly and equals the rounding error of `a + b`. -/
theorem twoSum_int {a b M : Int} (ha : RepI a) (hb : RepI b) (hM : RepI M)
    (hA : 2 * |a| ≤ M) (hB : 2 * |b| ≤ M) (s aa bb da db : Int)
    (hs : s = rnI (a + b)) (haa : aa = rnI (s - b)) (hbb : bb = rnI (s - aa))
    (hda : da = rnI (a - aa)) (hdb : db = rnI (b - bb)) :
    |a + b| ≤ M ∧ |s - b| ≤ M ∧ |s - aa| ≤ M ∧ |a - aa| ≤ M ∧ |b - bb| ≤ M ∧ |da + db| ≤ M ∧
      rnI (da + db) = a + b - s := by
  have he : RepI (a + b - s) := by rw [hs]; exact repI_add_err ha hb
  have hea : |a + b - s| ≤ |a| := by rw [hs]; exact abs_add_err_le_left hb
  have heb : |a + b - s| ≤ |b| := by rw [hs]; exact abs_add_err_le_right ha
  have hab := abs_add_le a b
  have hM0 : 0 ≤ M := by have := abs_nonneg a; omega
  have h1 : |a + b| ≤ M := by omega
  have hsM : |s| ≤ M := by
    have := abs_rnI_le (v := a + b) hM (by rw [abs_of_nonneg hM0]; exact h1)
    rwa [abs_of_nonneg hM0, ← hs] at this
  have hsb : s - b = a + -(a + b - s) := by ring
  have h2 : |s - b| ≤ M := by
    have := abs_add_le a (-(a + b - s))
    rw [abs_neg] at this
    rw [hsb]; omega
  rcases le_or_gt |a| |b| with hc | hc
  · -- `|a| ≤ |b|`: `aa = s - b` exactly
    have hz := repI_rnI_add_sub hb ha hc
    rw [Int.add_comm b a, ← hs] at hz
    have e_aa : aa = s - b := by rw [haa, rnI_of_repI hz.1]
    have e_bb : bb = b := by
      have : s - aa = b := by rw [e_aa]; ring
      rw [hbb, this, rnI_of_repI hb]
    have e_da : da = a + b - s := by
      have : a - aa = a + b - s := by rw [e_aa]; ring
      rw [hda, this, rnI_of_repI he]
    have e_db : db = 0 := by
      have : b - bb = 0 := by rw [e_bb]; ring
      rw [hdb, this, rnI_zero]
    have e3 : s - aa = b := by rw [e_aa]; ring
    have e4 : a - aa = a + b - s := by rw [e_aa]; ring
    have e5 : b - bb = 0 := by rw [e_bb]; ring
    have e6 : da + db = a + b - s := by rw [e_da, e_db]; ring
    refine ⟨h1, h2, ?_, ?_, ?_, ?_, ?_⟩
    · rw [e3]; have := abs_nonneg b; omega
    · rw [e4]; have := abs_nonneg a; omega
    · rw [e5, abs_zero]; exact hM0
    · rw [e6]; have := abs_nonneg a; omega
    · rw [e6, rnI_of_repI he]
  · rcases le_or_gt |b| |s| with hc2 | hc2
    · -- `|b| ≤ |s|`: Fast2Sum for `(s, -b)` and for `(a, -e)`
      have hS : RepI s := by rw [hs]; exact repI_rnI _
      have e_sb : s + -b = s - b := by ring
      have f := repI_rnI_add_sub hS hb.neg (by rwa [abs_neg])
      rw [e_sb, ← haa] at f
      have g := repI_add_err hS hb.neg
      rw [e_sb, ← haa] at g
      have g2 := abs_add_err_le_right (a := s) (b := -b) hS
      rw [e_sb, ← haa, abs_neg] at g2
      have k := repI_rnI_add_sub ha he.neg (by rwa [abs_neg])
      rw [← hsb, ← haa] at k
      have e_bb : bb = s - aa := by rw [hbb, rnI_of_repI (repI_sub_comm.1 f.1)]
      have e_da : da = a - aa := by rw [hda, rnI_of_repI (repI_sub_comm.1 k.1)]
      have e5 : b - bb = -(s - b - aa) := by rw [e_bb]; ring
      have e_db : db = b - bb := by rw [hdb, e5, rnI_of_repI g.neg]
      have e6 : da + db = a + b - s := by rw [e_da, e_db, e_bb]; ring
      refine ⟨h1, h2, ?_, ?_, ?_, ?_, ?_⟩
      · rw [abs_sub_comm]; omega
      · rw [abs_sub_comm]; have := abs_nonneg a; omega
      · rw [e5, abs_neg]; have := abs_nonneg b; omega
      · rw [e6]; have := abs_nonneg a; omega
      · rw [e6, rnI_of_repI he]
    · -- `|s| < |b| < |a|`: the first addition is exact
      have hlt : |a + b| ≤ |b| := by
        by_contra hcon
        have := le_abs_rnI (v := a + b) hb (by omega)
        rw [← hs] at this; omega
      have hr : RepI (a + b) :=
        repI_of_ulp_dvd_of_lt (dvd_add (ha.ulp_dvd_of_le (le_of_lt hc)) hb.ulp_dvd) hlt
      have e_s : s = a + b := by rw [hs, rnI_of_repI hr]
      have e_aa : aa = a := by
        have : s - b = a := by rw [e_s]; ring
        rw [haa, this, rnI_of_repI ha]
      have e_bb : bb = b := by
        have : s - aa = b := by rw [e_s, e_aa]; ring
        rw [hbb, this, rnI_of_repI hb]
      have e_da : da = 0 := by
        have : a - aa = 0 := by rw [e_aa]; ring
        rw [hda, this, rnI_zero]
      have e_db : db = 0 := by
        have : b - bb = 0 := by rw [e_bb]; ring
        rw [hdb, this, rnI_zero]
      have e3 : s - aa = b := by rw [e_s, e_aa]; ring
      have e4 : a - aa = 0 := by rw [e_aa]; ring
      have e5 : b - bb = 0 := by rw [e_bb]; ring
      have e6 : da + db = 0 := by rw [e_da, e_db]; ring
      have e7 : a + b - s = 0 := by rw [e_s]; ring
      refine ⟨h1, h2, ?_, ?_, ?_, ?_, ?_⟩
      · rw [e3]; have := abs_nonneg b; omega
      · rw [e4, abs_zero]; exact hM0
      · rw [e5, abs_zero]; exact hM0
      · rw [e6, abs_zero]; exact hM0
      · rw [e6, e7, rnI_zero]

end F64

/-! ## values of finite words -/

namespace F64

/-- `x` is finite with scaled-integer value `v` -/
def IsVal (x : F64) (v : Int) : Prop := x.is_finite = true ∧ x.toInt = v

theorem IsVal.of_finite {x : F64} (h : x.is_finite = true) : IsVal x x.toInt := ⟨h, rfl⟩

theorem repI_maxFin : RepI (maxFin : Int) := repI_natCast.2 rep_maxFin

theorem IsVal.add {x y : F64} {v w : Int} (hx : IsVal x v) (hy : IsVal y w)
    (h : |v + w| ≤ (maxFin : Int)) : IsVal (F64.add x y) (rnI (v + w)) := by
  have := add_spec hx.1 hy.1 (by rw [hx.2, hy.2]; exact rn53_natAbs_le_maxFin h)
  rwa [hx.2, hy.2] at this

theorem IsVal.sub {x y : F64} {v w : Int} (hx : IsVal x v) (hy : IsVal y w)
    (h : |v - w| ≤ (maxFin : Int)) : IsVal (F64.sub x y) (rnI (v - w)) := by
  have := sub_spec hx.1 hy.1 (by rw [hx.2, hy.2]; exact rn53_natAbs_le_maxFin h)
  rwa [hx.2, hy.2] at this

theorem IsVal.add_exact {x y : F64} {v w : Int} (hx : IsVal x v) (hy : IsVal y w)
    (hr : RepI (v + w)) (h : |v + w| ≤ (maxFin : Int)) : IsVal (F64.add x y) (v + w) := by
  have := hx.add hy h
  rwa [rnI_of_repI hr] at this

theorem IsVal.sub_exact {x y : F64} {v w : Int} (hx : IsVal x v) (hy : IsVal y w)
    (hr : RepI (v - w)) (h : |v - w| ≤ (maxFin : Int)) : IsVal (F64.sub x y) (v - w) := by
  have := hx.sub hy h
  rwa [rnI_of_repI hr] at this

theorem IsVal.neg {x : F64} {v : Int} (hx : IsVal x v) : IsVal (F64.neg x) (-v) :=
  ⟨by rw [is_finite_neg]; exact hx.1, by rw [toInt_neg, hx.2]⟩

end F64

/-! ## validity from the value equation -/

namespace TwoFloat

/-- `hi = RN(hi + lo)` on finite words (with `hi` well-formed) is `Valid` -/
theorem valid_of_rnI {hi lo : F64} (h1 : hi.is_finite = true) (h2 : lo.is_finite = true)
    (hw : hi.WF) (h : hi.toInt = F64.rnI (hi.toInt + lo.toInt)) :
    (TwoFloat.mk hi lo).Valid := by
  refine ⟨h1, h2, ?_⟩
  have hm : F64.rn53 (hi.toInt + lo.toInt).natAbs ≤ F64.maxFin := by
    rw [← F64.natAbs_rnI, ← h]; exact hw.natAbs_toInt_le
  have hs := F64.add_spec h1 h2 hm
  show F64.eq (F64.add hi lo) hi = true
  rw [F64.eq_iff_toInt hs.1 h1, hs.2, ← h]

/-- conversely (restating `Valid.hi_toInt`) -/
theorem Valid.rnI_eq {t : TwoFloat} (h : t.Valid) : t.hi.toInt = F64.rnI (t.hi.toInt + t.lo.toInt) :=
  h.hi_toInt

end TwoFloat

/-! ## T2 — Fast2Sum -/

namespace F64

open TwoFloat

theorem fast_two_sum_eq (a b : F64) :
    arithmetic.fast_two_sum a b =
      { hi := F64.add a b, lo := F64.sub b (F64.sub (F64.add a b) a) } := rfl

/-- the overflow hypothesis in the form "the first addition is finite" -/
theorem rn53_le_maxFin_of_add_finite {a b : F64} (ha : a.is_finite = true) (hb : b.is_finite = true)
    (h : (F64.add a b).is_finite = true) : rn53 (a.toInt + b.toInt).natAbs ≤ maxFin := by
  by_contra hc
  rw [add_overflow ha hb (Nat.lt_of_not_le hc)] at h
  exact absurd h (by simp [is_finite])

/-- Fast2Sum, word level, from the exactness of the second step `z = s - a` -/
theorem fast_two_sum_words_of {a b : F64} (ha : a.is_finite = true) (hb : b.is_finite = true)
    (hwa : a.WF) (hwb : b.WF)
    (hov : rn53 (a.toInt + b.toInt).natAbs ≤ maxFin)
    (hz0 : RepI (rnI (a.toInt + b.toInt) - a.toInt) ∧
      |rnI (a.toInt + b.toInt) - a.toInt| ≤ (maxFin : Int)) :
    IsVal (arithmetic.fast_two_sum a b).hi (rnI (a.toInt + b.toInt)) ∧
    IsVal (arithmetic.fast_two_sum a b).lo (a.toInt + b.toInt - rnI (a.toInt + b.toInt)) := by
  rw [fast_two_sum_eq]
  have hA := hwa.repI
  have hB := hwb.repI
  have hs : IsVal (F64.add a b) (rnI (a.toInt + b.toInt)) := add_spec ha hb hov
  have hz : IsVal (F64.sub (F64.add a b) a) (rnI (a.toInt + b.toInt) - a.toInt) :=
    hs.sub_exact (IsVal.of_finite ha) hz0.1 hz0.2
  have he : b.toInt - (rnI (a.toInt + b.toInt) - a.toInt)
      = a.toInt + b.toInt - rnI (a.toInt + b.toInt) := by ring
  have hl : IsVal (F64.sub b (F64.sub (F64.add a b) a))
      (b.toInt - (rnI (a.toInt + b.toInt) - a.toInt)) :=
    (IsVal.of_finite hb).sub_exact hz (by rw [he]; exact repI_add_err hA hB)
      (by rw [he]; exact le_trans (abs_add_err_le_right hA) hwb.abs_toInt_le)
  rw [he] at hl
  exact ⟨hs, hl⟩

/-- Fast2Sum, word level: for finite well-formed `a`, `b` with `|b| ≤ |a|` and a finite rounded sum, the high
word is `RN(a + b)` and the low word is the rounding error `a + b - RN(a + b)`, both finite. -/
theorem fast_two_sum_words {a b : F64} (ha : a.is_finite = true) (hb : b.is_finite = true)
    (hwa : a.WF) (hwb : b.WF) (hab : |b.toInt| ≤ |a.toInt|)
    (hov : rn53 (a.toInt + b.toInt).natAbs ≤ maxFin) :
    IsVal (arithmetic.fast_two_sum a b).hi (rnI (a.toInt + b.toInt)) ∧
    IsVal (arithmetic.fast_two_sum a b).lo (a.toInt + b.toInt - rnI (a.toInt + b.toInt)) := by
  have hz0 := repI_rnI_add_sub hwa.repI hwb.repI hab
  exact fast_two_sum_words_of ha hb hwa hwb hov ⟨hz0.1, le_trans hz0.2 hwa.abs_toInt_le⟩

/-- Fast2Sum, word level, general precondition: `a` is a multiple of `ulp b = 2^(⌊log2 |b|⌋ - 52)`
(this covers `|b| ≤ |a|`, `a = 0`, and "exponent of `a` ≥ exponent of `b`") -/
theorem fast_two_sum_words_of_dvd {a b : F64} (ha : a.is_finite = true) (hb : b.is_finite = true)
    (hwa : a.WF) (hwb : b.WF) (hd : (2 : Int) ^ (Nat.log2 b.toInt.natAbs - 52) ∣ a.toInt)
    (hov : rn53 (a.toInt + b.toInt).natAbs ≤ maxFin) :
    IsVal (arithmetic.fast_two_sum a b).hi (rnI (a.toInt + b.toInt)) ∧
    IsVal (arithmetic.fast_two_sum a b).lo (a.toInt + b.toInt - rnI (a.toInt + b.toInt)) := by
  have hS : |rnI (a.toInt + b.toInt)| ≤ (maxFin : Int) := by
    rw [abs_rnI]; exact Int.ofNat_le.2 hov
  exact fast_two_sum_words_of ha hb hwa hwb hov
    (repI_rnI_add_sub_of_dvd hwa.repI hwb.repI hd hwa.abs_toInt_le hwb.abs_toInt_le hS)

/-- from the two words to the packaged statement -/
theorem eft_package {t : TwoFloat} {v : Int}
    (hh : IsVal t.hi (rnI v)) (hl : IsVal t.lo (v - rnI v)) (hwh : t.hi.WF) (hwl : t.lo.WF) :
    t.hi.toInt = rnI v ∧ t.V = v ∧ t.Valid ∧ t.WF := by
  have hV : t.V = v := by unfold TwoFloat.V; rw [hh.2, hl.2]; ring
  refine ⟨hh.2, hV, ?_, hwh, hwl⟩
  rcases t with ⟨hi, lo⟩
  apply TwoFloat.valid_of_rnI hh.1 hl.1 hwh
  have : hi.toInt + lo.toInt = v := hV
  rw [this]; exact hh.2

theorem fast_two_sum_WF (a b : F64) : (arithmetic.fast_two_sum a b).WF :=
  ⟨add_WF _ _, sub_WF _ _⟩

/-- **T2 (Fast2Sum).**  For finite well-formed `a`, `b` with `|b| ≤ |a|` and no overflow in `a + b`:
`hi = RN(a + b)`, `hi + lo = a + b` exactly, and the result is a valid, well-formed pair. -/
theorem fast_two_sum_spec {a b : F64} (ha : a.is_finite = true) (hb : b.is_finite = true)
    (hwa : a.WF) (hwb : b.WF) (hab : |b.toInt| ≤ |a.toInt|)
    (hov : rn53 (a.toInt + b.toInt).natAbs ≤ maxFin) :
    (arithmetic.fast_two_sum a b).hi.toInt = rnI (a.toInt + b.toInt) ∧
    (arithmetic.fast_two_sum a b).V = a.toInt + b.toInt ∧
    (arithmetic.fast_two_sum a b).Valid ∧ (arithmetic.fast_two_sum a b).WF := by
  have h := fast_two_sum_words ha hb hwa hwb hab hov
  exact eft_package h.1 h.2 (fast_two_sum_WF a b).1 (fast_two_sum_WF a b).2

/-- T2 under the general precondition `ulp b ∣ a` -/
theorem fast_two_sum_spec_of_dvd {a b : F64} (ha : a.is_finite = true) (hb : b.is_finite = true)
    (hwa : a.WF) (hwb : b.WF) (hd : (2 : Int) ^ (Nat.log2 b.toInt.natAbs - 52) ∣ a.toInt)
    (hov : rn53 (a.toInt + b.toInt).natAbs ≤ maxFin) :
    (arithmetic.fast_two_sum a b).hi.toInt = rnI (a.toInt + b.toInt) ∧
    (arithmetic.fast_two_sum a b).V = a.toInt + b.toInt ∧
    (arithmetic.fast_two_sum a b).Valid ∧ (arithmetic.fast_two_sum a b).WF := by
  have h := fast_two_sum_words_of_dvd ha hb hwa hwb hd hov
  exact eft_package h.1 h.2 (fast_two_sum_WF a b).1 (fast_two_sum_WF a b).2

/-- T2 with the hypotheses in the form used downstream: magnitudes as `natAbs`, no overflow stated as
"the first addition is finite" -/
theorem fast_two_sum_of_finite (a b : F64) (hwa : a.WF) (hwb : b.WF)
    (ha : a.is_finite = true) (hb : b.is_finite = true)
    (hab : b.toInt.natAbs ≤ a.toInt.natAbs) (hf : (F64.add a b).is_finite = true) :
    (arithmetic.fast_two_sum a b).V = a.toInt + b.toInt ∧
    (arithmetic.fast_two_sum a b).Valid ∧ (arithmetic.fast_two_sum a b).WF := by
  have hab' : |b.toInt| ≤ |a.toInt| := by
    rw [← Int.natCast_natAbs, ← Int.natCast_natAbs]; exact Int.ofNat_le.2 hab
  exact (fast_two_sum_spec ha hb hwa hwb hab' (rn53_le_maxFin_of_add_finite ha hb hf)).2

/-- T2 when the first operand is zero (either sign) -/
theorem fast_two_sum_zero_left {a b : F64} (ha : a.is_finite = true) (hb : b.is_finite = true)
    (hwa : a.WF) (hwb : b.WF) (h0 : a.toInt = 0) :
    (arithmetic.fast_two_sum a b).hi.toInt = b.toInt ∧
    (arithmetic.fast_two_sum a b).V = b.toInt ∧
    (arithmetic.fast_two_sum a b).Valid ∧ (arithmetic.fast_two_sum a b).WF := by
  have hov : rn53 (a.toInt + b.toInt).natAbs ≤ maxFin := by
    rw [h0, Int.zero_add]; exact rn53_le_maxFin hwb.natAbs_toInt_le
  have := fast_two_sum_spec_of_dvd ha hb hwa hwb (by rw [h0]; exact dvd_zero _) hov
  rw [h0, Int.zero_add, rnI_of_repI hwb.repI] at this
  exact this

/-- the sign symmetry of Fast2Sum, word for word -/
theorem fast_two_sum_neg (a b : F64) (ha : a.is_finite = true) (hb : b.is_finite = true) :
    (arithmetic.fast_two_sum (F64.neg a) (F64.neg b)).hi.toInt = -(arithmetic.fast_two_sum a b).hi.toInt := by
  obtain ⟨s, m, rfl⟩ := is_finite_iff.mp ha
  obtain ⟨t, n, rfl⟩ := is_finite_iff.mp hb
  rw [fast_two_sum_eq, fast_two_sum_eq]
  by_cases hov : rn53 ((fin s m).toInt + (fin t n).toInt).natAbs ≤ maxFin
  · have h1 := add_spec (x := fin s m) (y := fin t n) rfl rfl hov
    have h2 := add_spec (x := F64.neg (fin s m)) (y := F64.neg (fin t n)) rfl rfl
      (by rw [toInt_neg, toInt_neg, ← Int.neg_add, Int.natAbs_neg]; exact hov)
    dsimp only
    rw [h1.2, h2.2, toInt_neg, toInt_neg, ← Int.neg_add, rnI_neg]
  · have hov' := Nat.lt_of_not_le hov
    have h1 := add_overflow (x := fin s m) (y := fin t n) rfl rfl hov'
    have h2 := add_overflow (x := F64.neg (fin s m)) (y := F64.neg (fin t n)) rfl rfl
      (by rw [toInt_neg, toInt_neg, ← Int.neg_add, Int.natAbs_neg]; exact hov')
    dsimp only
    rw [h1, h2]; rfl

/-! ## `from_f64` -/

theorem from_f64_eq (x : F64) : TwoFloat.from_f64 x = { hi := x, lo := fin false 0 } := by
  unfold TwoFloat.from_f64; rw [f64lit_zero]

theorem from_eq (x : F64) :
    convert.impl_From_f64_for_TwoFloat.from x = { hi := x, lo := fin false 0 } := by
  unfold convert.impl_From_f64_for_TwoFloat.from; rw [f64lit_zero]; rfl

/-- a finite well-formed double paired with `+0` is a valid pair with the same value -/
theorem pair_zero_spec {x : F64} (hx : x.is_finite = true) (hw : x.WF) :
    (TwoFloat.mk x (fin false 0)).V = x.toInt ∧ (TwoFloat.mk x (fin false 0)).Valid ∧
      (TwoFloat.mk x (fin false 0)).WF := by
  refine ⟨by simp [TwoFloat.V, toInt], ?_, hw, WF_zero false⟩
  apply TwoFloat.valid_of_rnI hx rfl hw
  rw [toInt_zero, Int.add_zero, rnI_of_repI hw.repI]

/-! ## T3 — 2Sum: `new_add`, `new_sub` -/

theorem new_add_eq (a b : F64) :
    TwoFloat.new_add a b =
      { hi := F64.add a b,
        lo := F64.add (F64.sub a (F64.sub (F64.add a b) b))
                (F64.sub b (F64.sub (F64.add a b) (F64.sub (F64.add a b) b))) } := rfl

theorem new_sub_eq (a b : F64) :
    TwoFloat.new_sub a b =
      { hi := F64.sub a b,
        lo := F64.sub (F64.sub a (F64.add (F64.sub a b) b))
                (F64.add b (F64.sub (F64.sub a b) (F64.add (F64.sub a b) b))) } := rfl

theorem new_add_WF (a b : F64) : (TwoFloat.new_add a b).WF := ⟨add_WF _ _, add_WF _ _⟩
theorem new_sub_WF (a b : F64) : (TwoFloat.new_sub a b).WF := ⟨sub_WF _ _, sub_WF _ _⟩

/-- 2Sum, word level: for finite well-formed `a`, `b` with `2|a|, 2|b| ≤ maxFin` (i.e. `|a|,|b| < 2^1023`) the
high word of `new_add a b` is `RN(a + b)` and the low word is the rounding error, both finite. -/
theorem new_add_words {a b : F64} (ha : a.is_finite = true) (hb : b.is_finite = true)
    (hwa : a.WF) (hwb : b.WF) (hA : 2 * |a.toInt| ≤ (maxFin : Int)) (hB : 2 * |b.toInt| ≤ (maxFin : Int)) :
    IsVal (TwoFloat.new_add a b).hi (rnI (a.toInt + b.toInt)) ∧
    IsVal (TwoFloat.new_add a b).lo (a.toInt + b.toInt - rnI (a.toInt + b.toInt)) := by
  rw [new_add_eq]
  obtain ⟨t1, t2, t3, t4, t5, t6, t7⟩ := twoSum_int hwa.repI hwb.repI repI_maxFin hA hB
    _ _ _ _ _ rfl rfl rfl rfl rfl
  have va := IsVal.of_finite ha
  have vb := IsVal.of_finite hb
  have hs := va.add vb t1
  have haa := hs.sub vb t2
  have hbb := hs.sub haa t3
  have hda := va.sub haa t4
  have hdb := vb.sub hbb t5
  have hlo := hda.add hdb t6
  rw [t7] at hlo
  exact ⟨hs, hlo⟩

/-- 2Sum with a negated right operand, word level -/
theorem new_sub_words {a b : F64} (ha : a.is_finite = true) (hb : b.is_finite = true)
    (hwa : a.WF) (hwb : b.WF) (hA : 2 * |a.toInt| ≤ (maxFin : Int)) (hB : 2 * |b.toInt| ≤ (maxFin : Int)) :
    IsVal (TwoFloat.new_sub a b).hi (rnI (a.toInt - b.toInt)) ∧
    IsVal (TwoFloat.new_sub a b).lo (a.toInt - b.toInt - rnI (a.toInt - b.toInt)) := by
  rw [new_sub_eq]
  obtain ⟨t1, t2, t3, t4, t5, t6, t7⟩ := twoSum_int hwa.repI hwb.repI.neg repI_maxFin hA
    (by rwa [abs_neg]) _ _ _ _ _ rfl rfl rfl rfl rfl
  have va := IsVal.of_finite ha
  have vb := IsVal.of_finite hb
  rw [← Int.sub_eq_add_neg] at t1 t2 t3 t4 t5 t6 t7
  have e1 : ∀ x : Int, x - -b.toInt = x + b.toInt := fun x => by ring
  rw [e1] at t2
  simp only [e1] at t3 t4 t5 t6 t7
  have hs := va.sub vb t1
  have haa := hs.add vb t2
  have hbb := hs.sub haa t3
  have hda := va.sub haa t4
  -- `db' = RN(-b - bb) = -RN(b + bb)`
  have e2 : ∀ y : Int, -b.toInt - y = -(b.toInt + y) := fun y => by ring
  rw [e2, abs_neg] at t5
  simp only [e2, rnI_neg] at t6 t7
  have hdb := vb.add hbb t5
  rw [← Int.sub_eq_add_neg] at t6 t7
  have hlo := hda.sub hdb t6
  rw [t7] at hlo
  exact ⟨hs, hlo⟩

/-- **T3 (2Sum), addition.** -/
theorem new_add_spec {a b : F64} (ha : a.is_finite = true) (hb : b.is_finite = true)
    (hwa : a.WF) (hwb : b.WF) (hA : 2 * |a.toInt| ≤ (maxFin : Int)) (hB : 2 * |b.toInt| ≤ (maxFin : Int)) :
    (TwoFloat.new_add a b).hi.toInt = rnI (a.toInt + b.toInt) ∧
    (TwoFloat.new_add a b).V = a.toInt + b.toInt ∧
    (TwoFloat.new_add a b).Valid ∧ (TwoFloat.new_add a b).WF := by
  have h := new_add_words ha hb hwa hwb hA hB
  exact eft_package h.1 h.2 (new_add_WF a b).1 (new_add_WF a b).2

/-- **T3 (2Sum), subtraction.** -/
theorem new_sub_spec {a b : F64} (ha : a.is_finite = true) (hb : b.is_finite = true)
    (hwa : a.WF) (hwb : b.WF) (hA : 2 * |a.toInt| ≤ (maxFin : Int)) (hB : 2 * |b.toInt| ≤ (maxFin : Int)) :
    (TwoFloat.new_sub a b).hi.toInt = rnI (a.toInt - b.toInt) ∧
    (TwoFloat.new_sub a b).V = a.toInt - b.toInt ∧
    (TwoFloat.new_sub a b).Valid ∧ (TwoFloat.new_sub a b).WF := by
  have h := new_sub_words ha hb hwa hwb hA hB
  exact eft_package h.1 h.2 (new_sub_WF a b).1 (new_sub_WF a b).2

/-! ## T3' — 2Prod: `new_mul` -/

/-- the rounding error of a number with at most 106 significant bits above `2^k` is representable -/
theorem rep_rn53_err_of_dvd {Q k : Nat} (hd : 2 ^ k ∣ Q) (hQ : Q < 2 ^ 106 * 2 ^ k) :
    Rep (((rn53 Q : Nat) : Int) - (Q : Int)).natAbs := by
  apply rep_natAbs_of_dvd_of_le (k := k) (rn53_sub_dvd hd)
  have h1 := rn53_abs_err Q
  have h3 : Q < 2 ^ 53 * 2 ^ (53 + k) := by
    rw [Nat.pow_add, ← Nat.mul_assoc]; exact hQ
  have h5 := Nat.pow_le_pow_right (show 0 < 2 by decide) (log2_sub_le h3)
  have h6 : ((2 ^ (Nat.log2 Q - 52) : Nat) : Int) ≤ 2 ^ 53 * 2 ^ k := by
    rw [Nat.pow_add] at h5; exact_mod_cast h5
  have := abs_nonneg (((rn53 Q : Nat) : Int) - (Q : Int))
  omega

theorem repI_sub_rnI_of_dvd {Q : Int} {k : Nat} (hd : 2 ^ k ∣ Q.natAbs)
    (hlt : Q.natAbs < 2 ^ 106 * 2 ^ k) : RepI (Q - rnI Q) := by
  have h := rep_rn53_err_of_dvd hd hlt
  have e : (Q - rnI Q).natAbs = (((rn53 Q.natAbs : Nat) : Int) - (Q.natAbs : Int)).natAbs := by
    have := congrArg Int.natAbs (abs_rnI_sub Q)
    rw [Int.natAbs_abs, Int.natAbs_abs] at this
    rw [← this, ← Int.natAbs_neg]; congr 1; ring
  unfold RepI; rw [e]; exact h

/-- the product of two representable numbers above `2^L` (`L ≥ U + 106`) is a multiple of `2^U`, and the
quotient has at most 106 significant bits -/
theorem mul_quot_exists {A B U L : Nat} (hA : Rep A) (hB : Rep B) (hUL : 106 + U ≤ L)
    (hlow : 2 ^ L ≤ A * B) : ∃ Q k, A * B = Q * 2 ^ U ∧ 2 ^ k ∣ Q ∧ Q < 2 ^ 106 * 2 ^ k := by
  obtain ⟨ma, ea, hma, rfl⟩ := (rep_iff_exists A).1 hA
  obtain ⟨mb, eb, hmb, rfl⟩ := (rep_iff_exists B).1 hB
  have hN : ma * 2 ^ ea * (mb * 2 ^ eb) = ma * mb * 2 ^ (ea + eb) := by rw [Nat.pow_add]; ring
  have hm : ma * mb < 2 ^ 106 := by
    have : ma * mb < 2 ^ 53 * 2 ^ 53 := Nat.mul_lt_mul'' hma hmb
    have e : (2 : Nat) ^ 53 * 2 ^ 53 = 2 ^ 106 := by norm_num
    omega
  have he : U ≤ ea + eb := by
    by_contra hc
    have h1 : 2 ^ (ea + eb) ≤ 2 ^ U := Nat.pow_le_pow_right (by decide) (by omega)
    have h2 : 2 ^ 106 * 2 ^ U ≤ 2 ^ L := by
      rw [← Nat.pow_add]; exact Nat.pow_le_pow_right (by decide) hUL
    have h3 : ma * mb * 2 ^ (ea + eb) < 2 ^ 106 * 2 ^ U := by
      calc ma * mb * 2 ^ (ea + eb) ≤ ma * mb * 2 ^ U := Nat.mul_le_mul_left _ h1
        _ < 2 ^ 106 * 2 ^ U := Nat.mul_lt_mul_of_pos_right hm (Nat.two_pow_pos U)
    rw [hN] at hlow; omega
  refine ⟨ma * mb * 2 ^ (ea + eb - U), ea + eb - U, ?_, Nat.dvd_mul_left _ _, ?_⟩
  · have e : 2 ^ (ea + eb) = 2 ^ (ea + eb - U) * 2 ^ U := by
      rw [← Nat.pow_add]; congr 1; omega
    rw [hN, e]; ring
  · exact Nat.mul_lt_mul_of_pos_right hm (Nat.two_pow_pos _)

theorem new_mul_eq (a b : F64) :
    TwoFloat.new_mul a b =
      { hi := F64.mul a b, lo := F64.fma a b (F64.neg (F64.mul a b)) } := rfl

theorem new_mul_WF (a b : F64) : (TwoFloat.new_mul a b).WF := ⟨mul_WF _ _, fma_WF _ _ _⟩

/-- 2Prod, word level, from the abstract sufficient condition: the product is an exact multiple `Q·2^1074`
of the unit, `RN(Q)` is in range, and the rounding error `Q - RN(Q)` is representable -/
theorem new_mul_words_of {a b : F64} (ha : a.is_finite = true) (hb : b.is_finite = true) {Q : Int}
    (hQ : a.toInt * b.toInt = Q * (unit : Int)) (hov : rn53 Q.natAbs ≤ maxFin)
    (hr : RepI (Q - rnI Q)) :
    IsVal (TwoFloat.new_mul a b).hi (rnI Q) ∧ IsVal (TwoFloat.new_mul a b).lo (Q - rnI Q) := by
  rw [new_mul_eq]
  have e1 : rqI (a.toInt * b.toInt) unit = rnI Q := by rw [hQ, rqI_mul_right _ unit_pos]
  have hp : IsVal (F64.mul a b) (rnI Q) := by
    have := mul_spec ha hb (by rw [← natAbs_rqI, e1, natAbs_rnI]; exact hov)
    rwa [e1] at this
  have hnp := hp.neg
  have hq : a.toInt * b.toInt + (F64.neg (F64.mul a b)).toInt * (unit : Int)
      = (Q - rnI Q) * (unit : Int) := by rw [hnp.2, hQ]; ring
  have hbound : |Q - rnI Q| ≤ (maxFin : Int) := by
    rw [abs_sub_comm, abs_rnI_sub]
    have h1 := rn53_rel_err Q.natAbs
    have h2 := le_two_mul_rn53 Q.natAbs
    generalize maxFin = M at hov ⊢
    omega
  exact ⟨hp, fma_exact ha hb hnp.1 hq hr hbound⟩

theorem two_pow_2097_le_maxFin : 2 ^ 2097 ≤ maxFin := by
  rw [maxFin_eq]
  have e : (2 : Nat) ^ 2097 = 2 ^ 52 * 2 ^ 2045 := by rw [← Nat.pow_add]
  rw [e]
  exact Nat.mul_le_mul_right _ (by norm_num)

/-- 2Prod, word level: when the exact product is `0`, or `2^-960 ≤ |a·b| < 2^1023` (in the units `2^-2148`
of `toInt a * toInt b`: `2^1188 ≤ |·| < 2^3171`), the product is `Q·2^1074` for an integer `Q`, the high word
is `RN(Q)` and the low word is `Q - RN(Q)`, both finite. -/
theorem new_mul_words {a b : F64} (ha : a.is_finite = true) (hb : b.is_finite = true)
    (hwa : a.WF) (hwb : b.WF)
    (h : a.toInt * b.toInt = 0 ∨
      ((2 : Int) ^ 1188 ≤ |a.toInt * b.toInt| ∧ |a.toInt * b.toInt| < (2 : Int) ^ 3171)) :
    ∃ Q : Int, a.toInt * b.toInt = Q * (unit : Int) ∧
      IsVal (TwoFloat.new_mul a b).hi (rnI Q) ∧ IsVal (TwoFloat.new_mul a b).lo (Q - rnI Q) := by
  rcases h with h0 | ⟨hlo, hhi⟩
  · refine ⟨0, by rw [h0, Int.zero_mul], ?_⟩
    exact new_mul_words_of ha hb (by rw [h0, Int.zero_mul])
      (by rw [Int.natAbs_zero, rn53_zero]; exact Nat.zero_le _) (by simpa using repI_zero)
  · have hN : (a.toInt * b.toInt).natAbs = a.toInt.natAbs * b.toInt.natAbs := Int.natAbs_mul _ _
    have hlo' : 2 ^ 1188 ≤ a.toInt.natAbs * b.toInt.natAbs := by
      rw [← hN]; rw [← Int.natCast_natAbs] at hlo; exact_mod_cast hlo
    have hhi' : a.toInt.natAbs * b.toInt.natAbs < 2 ^ 3171 := by
      rw [← hN]; rw [← Int.natCast_natAbs] at hhi; exact_mod_cast hhi
    obtain ⟨Q0, k, hQ0, hd, hlt⟩ :=
      mul_quot_exists (U := 1074) (L := 1188) hwa.repI hwb.repI (by norm_num) hlo'
    have hP0 : a.toInt * b.toInt ≠ 0 := by
      intro h0
      rw [h0, abs_zero] at hlo
      have : (0 : Int) < 2 ^ 1188 := by positivity
      omega
    have hQ : a.toInt * b.toInt = (Int.sign (a.toInt * b.toInt) * (Q0 : Int)) * (unit : Int) := by
      rw [← unit_eq] at hQ0
      conv_lhs => rw [← Int.sign_mul_natAbs (a.toInt * b.toInt), hN, hQ0]
      push_cast; ring
    have hQabs : (Int.sign (a.toInt * b.toInt) * (Q0 : Int)).natAbs = Q0 := by
      rw [Int.natAbs_mul, Int.natAbs_sign_of_ne_zero hP0, Nat.one_mul, Int.natAbs_natCast]
    have hQlt : Q0 < 2 ^ 2097 := by
      have e : (2 : Nat) ^ 3171 = 2 ^ 2097 * 2 ^ 1074 := by rw [← Nat.pow_add]
      rw [hQ0, e] at hhi'
      exact Nat.lt_of_mul_lt_mul_right hhi'
    refine ⟨_, hQ, new_mul_words_of ha hb hQ ?_ ?_⟩
    · rw [hQabs]
      exact Nat.le_trans (rn53_le_pow (Nat.le_of_lt hQlt)) two_pow_2097_le_maxFin
    · apply repI_sub_rnI_of_dvd (k := k)
      · rw [hQabs]; exact hd
      · rw [hQabs]; exact hlt

/-- **T3' (2Prod).**  `hi` is the correctly rounded product, `hi + lo = a·b` exactly (`V·2^1074 = toInt a · toInt b`),
and the pair is valid. -/
theorem new_mul_spec {a b : F64} (ha : a.is_finite = true) (hb : b.is_finite = true)
    (hwa : a.WF) (hwb : b.WF)
    (h : a.toInt * b.toInt = 0 ∨
      ((2 : Int) ^ 1188 ≤ |a.toInt * b.toInt| ∧ |a.toInt * b.toInt| < (2 : Int) ^ 3171)) :
    (TwoFloat.new_mul a b).hi.toInt = rqI (a.toInt * b.toInt) unit ∧
    (TwoFloat.new_mul a b).V * (unit : Int) = a.toInt * b.toInt ∧
    (TwoFloat.new_mul a b).Valid ∧ (TwoFloat.new_mul a b).WF := by
  obtain ⟨Q, hQ, hh, hl⟩ := new_mul_words ha hb hwa hwb h
  obtain ⟨p1, p2, p3, p4⟩ := eft_package hh hl (new_mul_WF a b).1 (new_mul_WF a b).2
  refine ⟨?_, by rw [p2, hQ], p3, p4⟩
  rw [p1, hQ, rqI_mul_right _ unit_pos]

/-! ## the magnitude hypothesis `|x| < 2^1023` -/

/-- a representable magnitude below `2^1023` (scaled: `2^2097`) is at most `maxFin / 2` -/
theorem two_mul_le_maxFin_of_lt {A : Nat} (hA : Rep A) (h : A < 2 ^ 2097) : 2 * A ≤ maxFin := by
  rw [maxFin_eq]
  have e1 : (2 : Nat) ^ 2097 = 2 ^ 53 * 2 ^ 2044 := by rw [← Nat.pow_add]
  have e2 : (2 : Nat) ^ 2045 = 2 ^ 2044 * 2 := by rw [← Nat.pow_succ]
  rw [e1] at h; rw [e2]
  rcases Nat.lt_or_ge A (2 ^ 52 * 2 ^ 2044) with h1 | h1
  · generalize (2 : Nat) ^ 2044 = E at *
    omega
  · have hd := hA.dvd_of_le h1
    generalize (2 : Nat) ^ 2044 = E at *
    obtain ⟨j, hj0⟩ := hd
    rw [hj0] at h ⊢
    have hj : j < 2 ^ 53 := by
      apply Nat.lt_of_mul_lt_mul_left (a := E)
      rw [Nat.mul_comm _ (2 ^ 53)]; exact h
    have := Nat.mul_le_mul_right E (show j ≤ 2 ^ 53 - 1 by omega)
    rw [Nat.mul_comm E j]
    omega

theorem WF.two_mul_abs_le {x : F64} (hw : x.WF) (h : x.toInt.natAbs < 2 ^ 2097) :
    2 * |x.toInt| ≤ (maxFin : Int) := by
  have := two_mul_le_maxFin_of_lt hw.repI h
  rw [← Int.natCast_natAbs]
  exact_mod_cast this

/-! ## `renorm3` -/

/-- `renorm3 a b c` is a final Fast2Sum of `vh = c ⊕ (a ⊕ b)` and `w = u.lo ⊕ v.lo` where
`u = fast_two_sum a b`, `v = fast_two_sum c u.hi` (NB the crate passes the *small* word `c` first) -/
theorem renorm3_eq (a b c : F64) :
    arithmetic.renorm3 a b c =
      arithmetic.fast_two_sum (F64.add c (F64.add a b))
        (F64.add (arithmetic.fast_two_sum a b).lo (arithmetic.fast_two_sum c (F64.add a b)).lo) := rfl

theorem renorm3_WF (a b c : F64) : (arithmetic.renorm3 a b c).WF := fast_two_sum_WF _ _

/-- `renorm3` returns a valid pair as soon as the precondition of its last Fast2Sum holds -/
theorem renorm3_valid_of {a b c : F64}
    (hvh : (F64.add c (F64.add a b)).is_finite = true)
    (hw : (F64.add (arithmetic.fast_two_sum a b).lo
      (arithmetic.fast_two_sum c (F64.add a b)).lo).is_finite = true)
    (hle : (F64.add (arithmetic.fast_two_sum a b).lo
        (arithmetic.fast_two_sum c (F64.add a b)).lo).toInt.natAbs
      ≤ (F64.add c (F64.add a b)).toInt.natAbs)
    (hov : (F64.add (F64.add c (F64.add a b))
      (F64.add (arithmetic.fast_two_sum a b).lo
        (arithmetic.fast_two_sum c (F64.add a b)).lo)).is_finite = true) :
    (arithmetic.renorm3 a b c).V =
        (F64.add c (F64.add a b)).toInt +
          (F64.add (arithmetic.fast_two_sum a b).lo
            (arithmetic.fast_two_sum c (F64.add a b)).lo).toInt ∧
      (arithmetic.renorm3 a b c).Valid ∧ (arithmetic.renorm3 a b c).WF := by
  rw [renorm3_eq]
  exact fast_two_sum_of_finite _ _ (add_WF _ _) (add_WF _ _) hvh hw hle hov

/-! ## `new_div` (Joldes et al. Alg. 15 with a one-word numerator) -/

/-- exponent bookkeeping for the quotient of two normal magnitudes: with `eA, eB, e` the ulp exponents of
`a`, `b` and of the quotient `a·2^u / b`, one has `eA + u ≤ e + eB + 53` and `e + eB + 52 ≤ eA + u` -/
theorem div_exponents {a b u : Nat} (ha52 : 2 ^ 52 ≤ a) (hb52 : 2 ^ 52 ≤ b) (hq : 2 ^ 52 * b ≤ a * 2 ^ u) :
    Nat.log2 a - 52 + u ≤ Nat.log2 (a * 2 ^ u / b) - 52 + (Nat.log2 b - 52) + 53 ∧
    Nat.log2 (a * 2 ^ u / b) - 52 + (Nat.log2 b - 52) + 52 ≤ Nat.log2 a - 52 + u := by
  have hbpos : 0 < b := by have := Nat.two_pow_pos 52; omega
  have a1 := (log2_sub_spec ha52).1
  have a2 := lt_ulp_mul a
  have b1 := (log2_sub_spec hb52).1
  have b2 := lt_ulp_mul b
  have q1 := roundQ_exp_le hbpos hq
  have q2 := roundQ_exp_lt (a * 2 ^ u) b hbpos
  generalize Nat.log2 a - 52 = eA at *
  generalize Nat.log2 b - 52 = eB at *
  generalize Nat.log2 (a * 2 ^ u / b) - 52 = e at *
  constructor
  · -- 2^52·2^eA·2^u ≤ a·2^u < 2^53·b·2^e < 2^53·2^53·2^eB·2^e
    have h1 : 2 ^ (52 + eA + u) < 2 ^ (106 + eB + e) := by
      calc 2 ^ (52 + eA + u) = 2 ^ 52 * 2 ^ eA * 2 ^ u := by rw [Nat.pow_add, Nat.pow_add]
        _ ≤ a * 2 ^ u := Nat.mul_le_mul_right _ a1
        _ < 2 ^ 53 * (b * 2 ^ e) := q2
        _ ≤ 2 ^ 53 * (2 ^ 53 * 2 ^ eB * 2 ^ e) :=
            Nat.mul_le_mul_left _ (Nat.mul_le_mul_right _ (Nat.le_of_lt b2))
        _ = 2 ^ (106 + eB + e) := by rw [Nat.pow_add, Nat.pow_add]; ring
    have := (Nat.pow_lt_pow_iff_right (by decide : 1 < 2)).1 h1
    omega
  · have h1 : 2 ^ (104 + eB + e) < 2 ^ (53 + eA + u) := by
      calc 2 ^ (104 + eB + e) = 2 ^ 52 * (2 ^ 52 * 2 ^ eB * 2 ^ e) := by
            rw [Nat.pow_add, Nat.pow_add]; ring
        _ ≤ 2 ^ 52 * (b * 2 ^ e) := Nat.mul_le_mul_left _ (Nat.mul_le_mul_right _ b1)
        _ ≤ a * 2 ^ u := q1
        _ < 2 ^ 53 * 2 ^ eA * 2 ^ u := Nat.mul_lt_mul_of_pos_right a2 (Nat.two_pow_pos u)
        _ = 2 ^ (53 + eA + u) := by rw [Nat.pow_add, Nat.pow_add]
    have := (Nat.pow_lt_pow_iff_right (by decide : 1 < 2)).1 h1
    omega

theorem abs_two_pow (k : Nat) : |(2 : Int) ^ k| = 2 ^ k := abs_of_pos (by positivity)

theorem natAbs_mul_two_pow (A : Int) (u : Nat) : (A * 2 ^ u).natAbs = A.natAbs * 2 ^ u := by
  rw [Int.natAbs_mul, Int.natAbs_pow]; rfl

theorem natCast_le_abs_iff {n : Nat} {z : Int} : (n : Int) ≤ |z| ↔ n ≤ z.natAbs := by
  rw [← Int.natCast_natAbs z]; exact Int.ofNat_le

/-- The division residual on scaled integers. -/
theorem div_residual_int {A B : Int} {u : Nat} (hA : RepI A) (hB : RepI B)
    (hB52 : 2 ^ 52 ≤ B.natAbs) (hA105 : 2 ^ 105 ≤ A.natAbs)
    (hq : 2 ^ 52 * B.natAbs ≤ A.natAbs * 2 ^ u) :
    ∃ Q : Int, rdI (A * 2 ^ u) B * B = Q * 2 ^ u ∧
      RepI (Q - rnI Q) ∧ RepI (A - rnI Q) ∧ RepI (A - Q) ∧
      |Q - rnI Q| ≤ |A| ∧ |A - rnI Q| ≤ |A| ∧ |A - Q| ≤ |A| ∧ |Q| ≤ 2 * |A| ∧
      2 * (|A - Q| * 2 ^ u) ≤ |B| * 2 ^ (Nat.log2 (A.natAbs * 2 ^ u / B.natAbs) - 52) := by
  have ha52 : 2 ^ 52 ≤ A.natAbs := Nat.le_trans (by norm_num) hA105
  obtain ⟨x1, x2⟩ := div_exponents ha52 hB52 hq
  have a1 := (log2_sub_spec ha52).1
  have a2 := lt_ulp_mul A.natAbs
  have b2 := lt_ulp_mul B.natAbs
  have hAd := hA.ulp_dvd
  have hBd := hB.ulp_dvd
  have hB0 : B ≠ 0 := by
    intro h; rw [h] at hB52; simp at hB52
  have hTd := rdI_dvd (A * 2 ^ u) B
  have herr := rdI_err (A * 2 ^ u) hB0
  have hTabs := abs_rdI (A * 2 ^ u) hB0
  have hTle := roundQ_le_pow (A * 2 ^ u).natAbs B.natAbs (Int.natAbs_pos.2 hB0)
  rw [natAbs_mul_two_pow] at hTd herr hTabs hTle
  generalize rdI (A * 2 ^ u) B = T at *
  generalize Nat.log2 A.natAbs - 52 = eA at *
  generalize Nat.log2 B.natAbs - 52 = eB at *
  generalize Nat.log2 (A.natAbs * 2 ^ u / B.natAbs) - 52 = e at *
  -- eA ≥ 53
  have heA : 53 ≤ eA := by
    have h1 : 2 ^ 105 < 2 ^ (53 + eA) := by rw [Nat.pow_add]; omega
    have := (Nat.pow_lt_pow_iff_right (by decide : 1 < 2)).1 h1
    omega
  obtain ⟨g, hg⟩ : ∃ g, g + u = e + eB := ⟨e + eB - u, by omega⟩
  have hgA : g + 52 ≤ eA := by omega
  -- magnitudes as integers
  have hTle' : |T| ≤ 2 ^ 53 * 2 ^ e := by rw [hTabs]; exact_mod_cast hTle
  have hBlt : |B| < 2 ^ 53 * 2 ^ eB := by rw [← Int.natCast_natAbs]; exact_mod_cast b2
  have hAge : 2 ^ 52 * 2 ^ eA ≤ |A| := by rw [← Int.natCast_natAbs]; exact_mod_cast a1
  have hpu : (0 : Int) < 2 ^ u := by positivity
  have hpe : (0 : Int) < 2 ^ e := by positivity
  have hpg : (0 : Int) < 2 ^ g := by positivity
  have hpeB : (0 : Int) < 2 ^ eB := by positivity
  have hrel : (2 : Int) ^ g * 2 ^ u = 2 ^ e * 2 ^ eB := by rw [← pow_add, ← pow_add, hg]
  have hgA' : (2 : Int) ^ g * 2 ^ 52 ≤ 2 ^ eA := by
    rw [← pow_add]; exact pow_le_pow_right₀ (by norm_num) hgA
  -- the quotient Q
  have hTB : (2 : Int) ^ g * 2 ^ u ∣ T * B := by rw [hrel]; exact mul_dvd_mul hTd hBd
  obtain ⟨Q, hQ⟩ : (2 : Int) ^ u ∣ T * B := dvd_trans (Dvd.intro_left _ rfl) hTB
  have hQ' : T * B = Q * 2 ^ u := by rw [hQ]; ring
  have hQd : (2 : Int) ^ g ∣ Q := by
    rw [hQ'] at hTB
    exact Int.dvd_of_mul_dvd_mul_right (ne_of_gt hpu) hTB
  have hAdg : (2 : Int) ^ g ∣ A := dvd_trans (pow_dvd_pow 2 (by omega)) hAd
  -- |Q| < 2^106 · 2^g
  have hQlt : |Q| < 2 ^ 106 * 2 ^ g := by
    have h1 : |Q| * 2 ^ u = |T| * |B| := by rw [← abs_two_pow u, ← abs_mul, ← hQ', abs_mul]
    have h2 : |T| * |B| < 2 ^ 53 * 2 ^ e * (2 ^ 53 * 2 ^ eB) :=
      lt_of_le_of_lt (mul_le_mul_of_nonneg_right hTle' (abs_nonneg B))
        (mul_lt_mul_of_pos_left hBlt (by positivity))
    have h3 : (2 : Int) ^ 53 * 2 ^ e * (2 ^ 53 * 2 ^ eB) = 2 ^ 106 * 2 ^ g * 2 ^ u := by
      rw [mul_assoc ((2 : Int) ^ 106), hrel]; ring
    rw [← h1, h3] at h2
    exact lt_of_mul_lt_mul_right h2 (le_of_lt hpu)
  -- the residual
  have hres : 2 * (|A - Q| * 2 ^ u) ≤ |B| * 2 ^ e := by
    have : T * B - A * 2 ^ u = -((A - Q) * 2 ^ u) := by rw [hQ']; ring
    rw [this, abs_neg, abs_mul, abs_two_pow] at herr
    exact herr
  have hAQ : |A - Q| < 2 ^ 52 * 2 ^ g := by
    have h2 : |B| * 2 ^ e < 2 ^ 53 * 2 ^ eB * 2 ^ e := mul_lt_mul_of_pos_right hBlt hpe
    have h3 : (2 : Int) ^ 53 * 2 ^ eB * 2 ^ e = 2 * (2 ^ 52 * 2 ^ g * 2 ^ u) := by
      rw [mul_assoc ((2 : Int) ^ 52), hrel]; ring
    rw [h3] at h2
    have h4 : |A - Q| * 2 ^ u < 2 ^ 52 * 2 ^ g * 2 ^ u := by omega
    exact lt_of_mul_lt_mul_right h4 (le_of_lt hpu)
  -- the rounding error of Q
  have hQerr : |Q - rnI Q| ≤ 2 ^ 52 * 2 ^ g := by
    have h1 := two_mul_abs_rnI_sub_le Q
    have h3 : Q.natAbs < 2 ^ 53 * 2 ^ (53 + g) := by
      have : |Q| < 2 ^ 53 * 2 ^ (53 + g) := by
        rw [pow_add, ← mul_assoc]; exact hQlt
      rw [← Int.natCast_natAbs] at this; exact_mod_cast this
    have h5 := Nat.pow_le_pow_right (show 0 < 2 by decide) (log2_sub_le h3)
    have h6 : ((2 ^ (Nat.log2 Q.natAbs - 52) : Nat) : Int) ≤ 2 ^ 53 * 2 ^ g := by
      rw [Nat.pow_add] at h5; exact_mod_cast h5
    rw [abs_sub_comm]; omega
  have hsmall : (2 : Int) ^ 53 * 2 ^ g ≤ |A| := by
    have : (2 : Int) ^ 53 * 2 ^ g = 2 * (2 ^ g * 2 ^ 52) := by ring
    rw [this]
    have h52 : (2 : Int) ^ 52 * 2 ^ eA = 2 ^ 52 * 2 ^ eA := rfl
    nlinarith [hgA', hAge, hpg]
  have hArn : |A - rnI Q| ≤ 2 ^ 53 * 2 ^ g := by
    have e1 : A - rnI Q = (A - Q) + (Q - rnI Q) := by ring
    have := abs_add_le (A - Q) (Q - rnI Q)
    rw [e1]; omega
  refine ⟨Q, hQ', ?_, ?_, ?_, ?_, ?_, ?_, ?_, hres⟩
  · apply repI_sub_rnI_of_dvd (k := g)
    · have : ((2 ^ g : Nat) : Int) ∣ Q := by rwa [Int.natCast_pow]
      exact Int.natCast_dvd.1 this
    · rw [← Int.natCast_natAbs] at hQlt; exact_mod_cast hQlt
  · exact rep_natAbs_of_dvd_of_le (k := g) (dvd_sub hAdg (rnI_dvd hQd)) hArn
  · exact rep_natAbs_of_dvd_of_le (k := g) (dvd_sub hAdg hQd) (by omega)
  · omega
  · omega
  · omega
  · have := abs_sub_abs_le_abs_sub Q A
    rw [abs_sub_comm Q A] at this
    omega


theorem natAbs_mul_natCast (A : Int) (U : Nat) : (A * (U : Int)).natAbs = A.natAbs * U := by
  rw [Int.natAbs_mul, Int.natAbs_natCast]

/-- `div_residual_int` with the power of two `U = 2^u` kept abstract (so that `U := unit` can be used without
ever exposing the literal `2^1074`) -/
theorem div_residual_int' {A B : Int} {U u : Nat} (hU : U = 2 ^ u) (hA : RepI A) (hB : RepI B)
    (hB52 : 2 ^ 52 ≤ B.natAbs) (hA105 : 2 ^ 105 ≤ A.natAbs)
    (hq : 2 ^ 52 * B.natAbs ≤ A.natAbs * U) :
    ∃ Q : Int, rdI (A * (U : Int)) B * B = Q * (U : Int) ∧
      RepI (Q - rnI Q) ∧ RepI (A - rnI Q) ∧ RepI (A - Q) ∧
      |Q - rnI Q| ≤ |A| ∧ |A - rnI Q| ≤ |A| ∧ |A - Q| ≤ |A| ∧ |Q| ≤ 2 * |A| ∧
      2 * (|A - Q| * (U : Int)) ≤ |B| * 2 ^ (Nat.log2 (A.natAbs * U / B.natAbs) - 52) := by
  subst hU
  have := div_residual_int (u := u) hA hB hB52 hA105 hq
  push_cast
  exact this

theorem new_div_eq (a b : F64) :
    TwoFloat.new_div a b =
      arithmetic.fast_two_sum (F64.div a b)
        (F64.div (F64.sub (F64.sub a (TwoFloat.new_mul (F64.div a b) b).hi)
          (TwoFloat.new_mul (F64.div a b) b).lo) b) := rfl

/-- `new_div`, word level. -/
theorem new_div_words {a b : F64} (ha : a.is_finite = true) (hb : b.is_finite = true)
    (hwa : a.WF) (hwb : b.WF)
    (hB52 : 2 ^ 52 ≤ b.toInt.natAbs) (hA105 : 2 ^ 105 ≤ a.toInt.natAbs)
    (hA2 : 2 * |a.toInt| ≤ (maxFin : Int))
    (hq : 2 ^ 53 * b.toInt.natAbs ≤ a.toInt.natAbs * unit)
    (hov : 2 * roundQ (a.toInt.natAbs * unit) b.toInt.natAbs ≤ maxFin) :
    ∃ Q : Int, rdI (a.toInt * (unit : Int)) b.toInt * b.toInt = Q * (unit : Int) ∧
      2 * (|a.toInt - Q| * (unit : Int)) ≤
        |b.toInt| * 2 ^ (Nat.log2 (a.toInt.natAbs * unit / b.toInt.natAbs) - 52) ∧
      IsVal (F64.div a b) (rdI (a.toInt * (unit : Int)) b.toInt) ∧
      IsVal (TwoFloat.new_div a b).hi
        (rnI (rdI (a.toInt * (unit : Int)) b.toInt + rdI ((a.toInt - Q) * (unit : Int)) b.toInt)) ∧
      IsVal (TwoFloat.new_div a b).lo
        (rdI (a.toInt * (unit : Int)) b.toInt + rdI ((a.toInt - Q) * (unit : Int)) b.toInt
          - rnI (rdI (a.toInt * (unit : Int)) b.toInt + rdI ((a.toInt - Q) * (unit : Int)) b.toInt)) := by
  have hq52 : 2 ^ 52 * b.toInt.natAbs ≤ a.toInt.natAbs * unit := by
    have : (2 : Nat) ^ 53 = 2 * 2 ^ 52 := by norm_num
    rw [this] at hq
    generalize (2 : Nat) ^ 52 = c at *
    generalize a.toInt.natAbs * unit = n at *
    generalize b.toInt.natAbs = m at *
    have := Nat.mul_le_mul_right m (show c ≤ 2 * c by omega)
    omega
  obtain ⟨Q, hQ, r1, r2, r3, m1, m2, m3, m4, hres⟩ :=
    div_residual_int' unit_eq hwa.repI hwb.repI hB52 hA105 hq52
  have hB0 : b.toInt ≠ 0 := by
    intro h; rw [h] at hB52; simp at hB52
  have hbpos : 0 < b.toInt.natAbs := Int.natAbs_pos.2 hB0
  have hAmax := hwa.abs_toInt_le
  -- the rounding exponent is at least 1
  have he1 : 1 ≤ Nat.log2 (a.toInt.natAbs * unit / b.toInt.natAbs) - 52 := by
    apply le_log2_sub
    rw [Nat.le_div_iff_mul_le hbpos]
    have : (2 : Nat) ^ 52 * 2 ^ 1 = 2 ^ 53 := by norm_num
    rw [this]; exact hq
  have hTabs := abs_rdI (a.toInt * (unit : Int)) hB0
  have hTge := pow_le_roundQ hbpos hq52
  rw [natAbs_mul_natCast] at hTabs
  refine ⟨Q, hQ, hres, ?_⟩
  -- th
  have hth : IsVal (F64.div a b) (rdI (a.toInt * (unit : Int)) b.toInt) := by
    have := div_spec ha hb hB0 (by
      rw [natAbs_mul_natCast]; omega)
    exact this
  -- 2Prod of th and b
  have hQmax : rn53 Q.natAbs ≤ maxFin := rn53_natAbs_le_maxFin (by omega)
  have hmul := new_mul_words_of (a := F64.div a b) (b := b) hth.1 hb (Q := Q)
    (by rw [hth.2]; exact hQ) hQmax r1
  -- dh, d
  have hdh := (IsVal.of_finite ha).sub_exact hmul.1 r2 (by omega)
  have e1 : a.toInt - rnI Q - (Q - rnI Q) = a.toInt - Q := by ring
  have hd := hdh.sub_exact hmul.2 (by rw [e1]; exact r3) (by rw [e1]; omega)
  rw [e1] at hd
  -- tl
  obtain ⟨e', he'⟩ : ∃ e', Nat.log2 (a.toInt.natAbs * unit / b.toInt.natAbs) - 52 = e' + 1 :=
    ⟨_, (Nat.sub_add_cancel he1).symm⟩
  rw [he'] at hres hTge
  have htl_le : roundQ ((a.toInt - Q).natAbs * unit) b.toInt.natAbs ≤ 2 ^ e' := by
    apply roundQ_le_of_le hbpos (rep_two_pow e')
    have h1 : (((a.toInt - Q).natAbs * unit : Nat) : Int) ≤ ((2 ^ e' * b.toInt.natAbs : Nat) : Int) := by
      rw [Int.natCast_mul, Int.natCast_mul, Int.natCast_natAbs, Int.natCast_natAbs, Int.natCast_pow,
        Nat.cast_ofNat]
      rw [pow_succ] at hres
      have e2 : |b.toInt| * ((2 : Int) ^ e' * 2) = 2 * (2 ^ e' * |b.toInt|) := by ring
      rw [e2] at hres
      omega
    exact Int.ofNat_le.1 h1
  have hTbig : 2 ^ e' ≤ roundQ (a.toInt.natAbs * unit) b.toInt.natAbs := by
    refine Nat.le_trans ?_ hTge
    have := Nat.two_pow_pos e'
    rw [Nat.pow_succ]
    have h52 : 1 ≤ 2 ^ 52 := Nat.one_le_two_pow
    calc 2 ^ e' = 1 * 2 ^ e' := (Nat.one_mul _).symm
      _ ≤ 2 ^ 52 * (2 ^ e' * 2) := Nat.mul_le_mul h52 (by omega)
  have htl : IsVal (F64.div (F64.sub (F64.sub a (TwoFloat.new_mul (F64.div a b) b).hi)
      (TwoFloat.new_mul (F64.div a b) b).lo) b) (rdI ((a.toInt - Q) * (unit : Int)) b.toInt) := by
    have := div_spec hd.1 hb hB0 (by
      rw [hd.2, natAbs_mul_natCast]; omega)
    rwa [hd.2] at this
  have htlabs := abs_rdI ((a.toInt - Q) * (unit : Int)) hB0
  rw [natAbs_mul_natCast] at htlabs
  -- final Fast2Sum
  rw [new_div_eq]
  have hle : |rdI ((a.toInt - Q) * (unit : Int)) b.toInt| ≤ |rdI (a.toInt * (unit : Int)) b.toInt| := by
    rw [htlabs, hTabs]; exact Int.ofNat_le.2 (Nat.le_trans htl_le hTbig)
  have hf := fast_two_sum_words hth.1 htl.1 (div_WF _ _) (div_WF _ _)
    (by rw [hth.2, htl.2]; exact hle)
    (by
      rw [hth.2, htl.2]
      apply rn53_natAbs_le_maxFin
      have := abs_add_le (rdI (a.toInt * (unit : Int)) b.toInt) (rdI ((a.toInt - Q) * (unit : Int)) b.toInt)
      have h2 : |rdI (a.toInt * (unit : Int)) b.toInt| * 2 ≤ (maxFin : Int) := by
        rw [hTabs]; exact_mod_cast (by omega : roundQ (a.toInt.natAbs * unit) b.toInt.natAbs * 2 ≤ maxFin)
      omega)
  rw [hth.2, htl.2] at hf
  exact ⟨hth, hf.1, hf.2⟩


/-- error bounds of `new_div` from the exactness of the residual, on scaled integers -/
theorem div_bounds_int {A B Q T : Int} {U e : Nat} (hB0 : B ≠ 0) (hT : RepI T)
    (hQ : T * B = Q * (U : Int))
    (hres : 2 * (|A - Q| * (U : Int)) ≤ |B| * 2 ^ e) (he : 1 ≤ e)
    (hn : 2 ^ 52 * (B.natAbs * 2 ^ e) ≤ A.natAbs * U)
    (hq105 : 2 ^ 105 * B.natAbs ≤ A.natAbs * U) :
    2 * |rdI ((A - Q) * (U : Int)) B| ≤ 2 ^ e ∧
    |rnI (T + rdI ((A - Q) * (U : Int)) B) * B - A * (U : Int)| ≤ |B| * 2 ^ e ∧
    2 ^ 106 * |(T + rdI ((A - Q) * (U : Int)) B) * B - A * (U : Int)| ≤ |A| * (U : Int) := by
  have hm : 0 < B.natAbs := Int.natAbs_pos.2 hB0
  have hbpos : (0 : Int) < |B| := abs_pos.2 hB0
  obtain ⟨e', rfl⟩ : ∃ e', e = e' + 1 := ⟨e - 1, by omega⟩
  have hrn : ((A - Q) * (U : Int)).natAbs = (A - Q).natAbs * U := natAbs_mul_natCast _ _
  -- Nat form of the residual bound
  have hres' : 2 * ((A - Q).natAbs * U) ≤ B.natAbs * 2 ^ (e' + 1) := by
    have : ((2 * ((A - Q).natAbs * U) : Nat) : Int) ≤ ((B.natAbs * 2 ^ (e' + 1) : Nat) : Int) := by
      rw [Int.natCast_mul, Int.natCast_mul, Int.natCast_mul, Int.natCast_natAbs, Int.natCast_natAbs,
        Int.natCast_pow, Nat.cast_ofNat]
      exact hres
    exact Int.ofNat_le.1 this
  have hres'' : (A - Q).natAbs * U ≤ 2 ^ e' * B.natAbs := by
    rw [Nat.pow_succ] at hres'
    have : B.natAbs * (2 ^ e' * 2) = 2 * (2 ^ e' * B.natAbs) := by ring
    omega
  -- |tl| ≤ 2^e'
  have htl : roundQ ((A - Q).natAbs * U) B.natAbs ≤ 2 ^ e' :=
    roundQ_le_of_le hm (rep_two_pow e') hres''
  have htlabs := abs_rdI ((A - Q) * (U : Int)) hB0
  rw [hrn] at htlabs
  have herr := rdI_err ((A - Q) * (U : Int)) hB0
  rw [hrn] at herr
  -- the rounding exponent of the residual quotient
  have c1 : Nat.log2 ((A - Q).natAbs * U / B.natAbs) - 52 ≤ e' := by
    apply log2_sub_le
    have h1 : (A - Q).natAbs * U / B.natAbs ≤ 2 ^ e' :=
      Nat.div_le_of_le_mul (by rw [Nat.mul_comm B.natAbs]; exact hres'')
    have h2 : 2 ^ e' < 2 ^ 53 * 2 ^ e' := by
      have := Nat.two_pow_pos e'; omega
    omega
  have c2 : Nat.log2 ((A - Q).natAbs * U / B.natAbs) - 52 = 0 ∨
      Nat.log2 ((A - Q).natAbs * U / B.natAbs) - 52 + 53 ≤ e' + 1 := by
    rcases Nat.lt_or_ge ((A - Q).natAbs * U / B.natAbs) (2 ^ 53) with h | h
    · exact Or.inl (log2_sub_eq_zero h)
    · right
      have h1 : 2 ^ 53 * B.natAbs ≤ (A - Q).natAbs * U := (Nat.le_div_iff_mul_le hm).1 h
      have h2 : 2 ^ 52 * B.natAbs ≤ (A - Q).natAbs * U := by
        have : (2 : Nat) ^ 52 * B.natAbs ≤ 2 ^ 53 * B.natAbs := Nat.mul_le_mul_right _ (by norm_num)
        omega
      have h3 := roundQ_exp_le hm h2
      generalize Nat.log2 ((A - Q).natAbs * U / B.natAbs) - 52 = e2 at *
      have h4 : B.natAbs * 2 ^ (53 + e2) ≤ B.natAbs * 2 ^ (e' + 1) := by
        have : B.natAbs * 2 ^ (53 + e2) = 2 * (2 ^ 52 * (B.natAbs * 2 ^ e2)) := by
          rw [Nat.pow_add]; ring
        omega
      have h5 := Nat.le_of_mul_le_mul_left h4 hm
      have := (Nat.pow_le_pow_iff_right (by decide : 1 < 2)).1 h5
      omega
  generalize Nat.log2 ((A - Q).natAbs * U / B.natAbs) - 52 = e2 at *
  generalize rdI ((A - Q) * (U : Int)) B = tl at *
  have htl' : |tl| ≤ 2 ^ e' := by rw [htlabs]; exact_mod_cast htl
  have hp2 : (2 : Int) ^ e2 ≤ 2 ^ e' := pow_le_pow_right₀ (by norm_num) c1
  have hpe : (0 : Int) < 2 ^ e' := by positivity
  -- the key identities
  have id1 : rnI (T + tl) * B - A * (U : Int)
      = (rnI (T + tl) - (T + tl)) * B + (tl * B - (A - Q) * (U : Int)) := by
    linarith [hQ]
  have id2 : (T + tl) * B - A * (U : Int) = tl * B - (A - Q) * (U : Int) := by
    linarith [hQ]
  have hnear : |rnI (T + tl) - (T + tl)| ≤ |tl| := by
    have := rnI_nearest (T + tl) hT
    have e1 : T - (T + tl) = -tl := by ring
    rwa [e1, abs_neg] at this
  have hx : 2 * |tl * B - (A - Q) * (U : Int)| ≤ |B| * 2 ^ e' :=
    le_trans herr (mul_le_mul_of_nonneg_left hp2 (le_of_lt hbpos))
  refine ⟨by rw [pow_succ]; omega, ?_, ?_⟩
  · rw [id1]
    have h1 := abs_add_le ((rnI (T + tl) - (T + tl)) * B) (tl * B - (A - Q) * (U : Int))
    rw [abs_mul] at h1
    have h2 : |rnI (T + tl) - (T + tl)| * |B| ≤ 2 ^ e' * |B| :=
      mul_le_mul_of_nonneg_right (le_trans hnear htl') (le_of_lt hbpos)
    rw [pow_succ]
    have e3 : |B| * ((2 : Int) ^ e' * 2) = 2 * (2 ^ e' * |B|) := by ring
    have e4 : |B| * (2 : Int) ^ e' = 2 ^ e' * |B| := by ring
    rw [e3]; rw [e4] at hx
    have := mul_pos hpe hbpos
    omega
  · rw [id2]
    have hn' : (2 : Int) ^ 52 * (|B| * 2 ^ (e' + 1)) ≤ |A| * (U : Int) := by
      rw [← Int.natCast_natAbs A, ← Int.natCast_natAbs B]; exact_mod_cast hn
    have hq' : (2 : Int) ^ 105 * |B| ≤ |A| * (U : Int) := by
      rw [← Int.natCast_natAbs A, ← Int.natCast_natAbs B]; exact_mod_cast hq105
    rcases c2 with c2 | c2
    · rw [c2, pow_zero, mul_one] at herr
      have : (2 : Int) ^ 106 = 2 * 2 ^ 105 := by norm_num
      rw [this]
      generalize |tl * B - (A - Q) * (U : Int)| = x at *
      nlinarith [herr, hq']
    · have h6 : (2 : Int) ^ 53 * 2 ^ e2 ≤ 2 ^ (e' + 1) := by
        rw [← pow_add]; exact pow_le_pow_right₀ (by norm_num) (by omega)
      have h7 : (2 : Int) ^ 105 * (|B| * 2 ^ e2) ≤ 2 ^ 52 * (|B| * 2 ^ (e' + 1)) := by
        have : (2 : Int) ^ 105 * (|B| * 2 ^ e2) = 2 ^ 52 * (|B| * (2 ^ 53 * 2 ^ e2)) := by ring
        rw [this]
        exact mul_le_mul_of_nonneg_left (mul_le_mul_of_nonneg_left h6 (le_of_lt hbpos))
          (by positivity)
      have : (2 : Int) ^ 106 = 2 * 2 ^ 105 := by norm_num
      rw [this]
      generalize |tl * B - (A - Q) * (U : Int)| = x at *
      generalize |B| * (2 : Int) ^ e2 = y at *
      nlinarith [herr, h7, hn']

/-- **`new_div` (Alg. 15 of Joldes et al. with a one-word numerator).**  Hypotheses: `b` normal, `|a| ≥ 2^-969`,
`2|a| ≤ maxFin`, `|a/b| ≥ 2^-969` and `2·RN(|a/b|) ≤ maxFin`.  Then with `th = RN(a/b)` (the IEEE quotient) and
`e` the ulp exponent of the binade of `|a/b|`:  the residual `a - th·b` is computed exactly, `tl` is its
correctly rounded quotient by `b`, the result is the valid pair `Fast2Sum(th, tl)`, `hi` is within one
`ulp(a/b) = 2^e` of `a/b`, and `hi + lo` is within `2^-106·|a/b|` of `a/b` (cross-multiplied by `|b|`). -/
theorem new_div_spec {a b : F64} (ha : a.is_finite = true) (hb : b.is_finite = true)
    (hwa : a.WF) (hwb : b.WF)
    (hB52 : 2 ^ 52 ≤ b.toInt.natAbs) (hA105 : 2 ^ 105 ≤ a.toInt.natAbs)
    (hA2 : 2 * |a.toInt| ≤ (maxFin : Int))
    (hq : 2 ^ 105 * b.toInt.natAbs ≤ a.toInt.natAbs * unit)
    (hov : 2 * roundQ (a.toInt.natAbs * unit) b.toInt.natAbs ≤ maxFin) :
    ∃ tl : Int,
      (F64.div a b).is_finite = true ∧ (F64.div a b).toInt = rdI (a.toInt * (unit : Int)) b.toInt ∧
      2 * |tl| ≤ 2 ^ (Nat.log2 (a.toInt.natAbs * unit / b.toInt.natAbs) - 52) ∧
      (TwoFloat.new_div a b).hi.toInt = rnI ((F64.div a b).toInt + tl) ∧
      (TwoFloat.new_div a b).V = (F64.div a b).toInt + tl ∧
      (TwoFloat.new_div a b).Valid ∧ (TwoFloat.new_div a b).WF ∧
      |(TwoFloat.new_div a b).hi.toInt * b.toInt - a.toInt * (unit : Int)|
        ≤ |b.toInt| * 2 ^ (Nat.log2 (a.toInt.natAbs * unit / b.toInt.natAbs) - 52) ∧
      2 ^ 106 * |(TwoFloat.new_div a b).V * b.toInt - a.toInt * (unit : Int)|
        ≤ |a.toInt| * (unit : Int) := by
  have hB0 : b.toInt ≠ 0 := by
    intro h; rw [h] at hB52; simp at hB52
  have hbpos : 0 < b.toInt.natAbs := Int.natAbs_pos.2 hB0
  have hq53 : 2 ^ 53 * b.toInt.natAbs ≤ a.toInt.natAbs * unit :=
    Nat.le_trans (Nat.mul_le_mul_right _ (by norm_num)) hq
  have hq52 : 2 ^ 52 * b.toInt.natAbs ≤ a.toInt.natAbs * unit :=
    Nat.le_trans (Nat.mul_le_mul_right _ (by norm_num)) hq
  obtain ⟨Q, hQ, hres, hth, hhi, hlo⟩ := new_div_words ha hb hwa hwb hB52 hA105 hA2 hq53 hov
  have he1 : 1 ≤ Nat.log2 (a.toInt.natAbs * unit / b.toInt.natAbs) - 52 := by
    apply le_log2_sub
    rw [Nat.le_div_iff_mul_le hbpos]
    have : (2 : Nat) ^ 52 * 2 ^ 1 = 2 ^ 53 := by norm_num
    rw [this]; exact hq53
  obtain ⟨b1, b2, b3⟩ := div_bounds_int hB0 (repI_rdI (a.toInt * (unit : Int)) hB0) hQ hres he1
    (roundQ_exp_le hbpos hq52) hq
  have hw : (TwoFloat.new_div a b).WF := by rw [new_div_eq]; exact fast_two_sum_WF _ _
  obtain ⟨p1, p2, p3, p4⟩ := eft_package hhi hlo hw.1 hw.2
  refine ⟨_, hth.1, hth.2, b1, ?_, ?_, p3, p4, ?_, ?_⟩
  · rw [hth.2]; exact p1
  · rw [hth.2]; exact p2
  · rw [p1]; exact b2
  · rw [p2]; exact b3

end F64
