/-
Lemmas.DivInv — the qd-style long division `TwoFloat / TwoFloat`, `f64 / TwoFloat` returns a VALID pair.

Route (all on scaled integers, `U = 2^1074`):
* crude but uniform (relative + absolute) error bounds of the rounded primitives: `rdI_err_gen`, `rqI_err_gen`;
* value-level specifications with crude error bounds of `TwoFloat * f64` (`mul_tf_val`), `TwoFloat - TwoFloat`
  (`sub_tt_val`), `f64 - TwoFloat` (`sub_ft_val`);
* one step of the long division shrinks the remainder by `2^-48` (`step_bound_int`, `div_step`);
* `renorm3 q1 q2 q3` AS WRITTEN in the crate (`fast_two_sum c u.hi`, small word first) drops a negligible `q3` and
  returns the normalised pair of `q1 + q2` (`renorm3_drop`).
-/
import TFV.Lemmas.Inv
import TFV.Lemmas.ArithExact

set_option exponentiation.threshold 3000

namespace F64

open TwoFloat

/-! ## 1. uniform error bounds of the rounded primitives -/

/-- relative `2^-53` plus absolute half-unit error bound of a rounded quotient, valid for ALL magnitudes -/
theorem roundQ_err_gen (p q : Nat) (hq : 0 < q) :
    2 ^ 53 * |((roundQ p q : Nat) : Int) * (q : Int) - (p : Int)| ≤ 2 ^ 52 * (q : Int) + (p : Int) := by
  have h := roundQ_abs_err p q hq
  by_cases he : Nat.log2 (p / q) - 52 = 0
  · rw [he, Nat.pow_zero, Nat.mul_one] at h
    have := Int.natCast_nonneg p
    omega
  · have h53 := roundQ_exp_pos hq he
    have hle := roundQ_exp_le hq (by omega : 2 ^ 52 * q ≤ p)
    have hle' : (2 : Int) ^ 52 * ((q * 2 ^ (Nat.log2 (p / q) - 52) : Nat) : Int) ≤ (p : Int) := by
      exact_mod_cast hle
    have := Int.natCast_nonneg q
    omega

theorem rdI_err_gen (p : Int) {q : Int} (hq : q ≠ 0) :
    2 ^ 53 * |rdI p q * q - p| ≤ 2 ^ 52 * |q| + |p| := by
  have h := roundQ_err_gen p.natAbs q.natAbs (Int.natAbs_pos.2 hq)
  rw [Int.natCast_natAbs, Int.natCast_natAbs] at h
  have e : rdI p q * q - p
      = Int.sign p * (((roundQ p.natAbs q.natAbs : Nat) : Int) * |q| - |p|) := by
    unfold rdI
    have h1 : Int.sign q * q = |q| := Int.sign_mul_self_eq_abs q
    have h2 : Int.sign p * |p| = p := Int.sign_mul_abs p
    calc Int.sign p * Int.sign q * ((roundQ p.natAbs q.natAbs : Nat) : Int) * q - p
        = Int.sign p * ((roundQ p.natAbs q.natAbs : Nat) : Int) * (Int.sign q * q)
            - Int.sign p * |p| := by rw [h2]; ring
      _ = _ := by rw [h1]; ring
  by_cases hp : p = 0
  · subst hp
    simp only [rdI_zero_left, Int.zero_mul, Int.sub_zero, abs_zero, Int.mul_zero]
    positivity
  · rw [e, abs_mul, Int.abs_sign_of_ne_zero hp, Int.one_mul]
    exact h

theorem rqI_err_gen (p : Int) {U : Nat} (hU : 0 < U) :
    2 ^ 53 * |rqI p U * (U : Int) - p| ≤ 2 ^ 52 * (U : Int) + |p| := by
  have h := roundQ_err_gen p.natAbs U hU
  rw [Int.natCast_natAbs] at h
  have e := natAbs_sub_rqI_mul p U
  rw [Int.natCast_natAbs, Int.natCast_natAbs] at e
  have e2 : rqI p U * (U : Int) - p = -(p + -(rqI p U) * (U : Int)) := by ring
  rw [e2, abs_neg, e]
  exact h

/-! ## 2. a negligible addend is absorbed -/

theorem rnI_add_small_pos {h c : Int} (hh : RepI h) (hpos : 0 < h) (hc : 2 ^ 55 * |c| ≤ h) :
    rnI (h + c) = h := by
  have hc0 := abs_nonneg c
  have hcl := neg_abs_le c
  have hcu := le_abs_self c
  have hn : 0 ≤ h + c := by omega
  rw [rnI_of_nonneg hn]
  have hx : Rep h.natAbs := hh
  have key : rn53 (h + c).natAbs = h.natAbs := by
    apply rn53_eq_of_abs_lt hx
    have hlt := lt_ulp_mul (h + c).natAbs
    have hlt' : (((h + c).natAbs : Nat) : Int)
        < 2 ^ 53 * ((2 ^ (Nat.log2 (h + c).natAbs - 52) : Nat) : Int) := by exact_mod_cast hlt
    have e1 : (((h + c).natAbs : Nat) : Int) = h + c := by omega
    have e2 : ((h.natAbs : Nat) : Int) = h := by omega
    rw [e1] at hlt' ⊢
    rw [e2]
    have e3 : h - (h + c) = -c := by ring
    rw [e3, abs_neg]
    have hp : (0 : Int) < ((2 ^ (Nat.log2 (h + c).natAbs - 52) : Nat) : Int) := by positivity
    generalize ((2 ^ (Nat.log2 (h + c).natAbs - 52) : Nat) : Int) = E at *
    omega
  rw [key]; omega

/-- `RN(h + c) = h` for a representable `h` and `|c| ≤ 2^-55 |h|` -/
theorem rnI_add_small {h c : Int} (hh : RepI h) (hc : 2 ^ 55 * |c| ≤ |h|) : rnI (h + c) = h := by
  rcases lt_trichotomy h 0 with hn | h0 | hp
  · have := rnI_add_small_pos (h := -h) (c := -c) hh.neg (by omega)
      (by rw [abs_neg]; rw [abs_of_neg hn] at hc; exact hc)
    rw [← neg_add, rnI_neg] at this
    omega
  · subst h0
    rw [abs_zero] at hc
    have : |c| = 0 := by have := abs_nonneg c; omega
    rw [abs_eq_zero.1 this]; simp
  · exact rnI_add_small_pos hh hp (by rwa [abs_of_pos hp] at hc)

end F64
