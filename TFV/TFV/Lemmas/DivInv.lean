/-
Lemmas.DivInv — the qd-style long division `TwoFloat / TwoFloat`, `f64 / TwoFloat` returns a VALID pair, and is
accurate to `16 u² = 2^-102`.

Route (all on scaled integers, `U = 2^1074`):
* §1 crude but uniform (relative `2^-53` + absolute half-unit) error bounds of the rounded primitives, valid for ALL
  magnitudes incl. underflow: `roundQ_err_gen`, `rdI_err_gen`, `rqI_err_gen`;
* §2 `rnI_add_small`: `RN(h + c) = h` when `|c| ≤ 2^-55 |h|`;
* §3 `renorm3_drop`: `renorm3 q1 q2 q3` AS WRITTEN in the crate (`fast_two_sum c u.hi`, small word first) drops a
  negligible `q3` and returns the normalised pair of `q1 + q2`;
* §4–6 value-level specifications (validity + crude `2^-103` and tight error bounds) of `TwoFloat * f64`
  (`mul_tf_val`, error `≤ (3u² + u³)|y.hi·q| + 2·2^-1074`), `TwoFloat - TwoFloat` (`sub_tt_val`, via `addCore_val`),
  `f64 - TwoFloat` (`sub_ft_val`);
* §7–8 one step of the long division shrinks the high word of the remainder by `2^-48` (`step_bound_int`,
  `step_core`);
* §9 `DivRange`, `div_tail`, and the main theorems `TwoFloat.div_tt_isV_of_range`, `div_ft_isV_of_range`,
  `div_tt_valid_of_range`, `div_ft_valid_of_range`;
* §10 accuracy: `div_acc_int` (budget `9 + 3 + 2 = 14 < 16` units of `u²`), `TwoFloat.div_tt_acc`, `div_ft_acc`;
* §11 `TwoFloat / f64` (DWDivFP3): `div_tf_val_partial` (valid, relative error `≤ (17/4) u²`; the `3u²` of the
  literature is OPEN).
-/
import TFV.Lemmas.Inv
import TFV.Lemmas.ArithExact

set_option exponentiation.threshold 3000

namespace F64

open TwoFloat

/-! ## 1. uniform error bounds of the rounded primitives -/

/-- relative `2^-53` plus absolute half-unit error bound of a rounded quotient, valid for ALL magnitudes -/
theorem roundQ_err_gen (p q : Nat) (hq : 0 < q) :
    2 ^ 53 * |((roundQ p q : Nat) : Int) * (q : Int) - (p : Int)| ≤ 2 ^ 52 * (q : Int) + (p : Int) := by
  have h := roundQ_abs_err p q hq
  by_cases he : Nat.log2 (p / q) - 52 = 0
  · rw [he, Nat.pow_zero, Nat.mul_one] at h
    have := Int.natCast_nonneg p
    omega
  · have h53 := roundQ_exp_pos hq he
    have hle := roundQ_exp_le hq (by omega : 2 ^ 52 * q ≤ p)
    have hle' : (2 : Int) ^ 52 * ((q * 2 ^ (Nat.log2 (p / q) - 52) : Nat) : Int) ≤ (p : Int) := by
      exact_mod_cast hle
    have := Int.natCast_nonneg q
    omega

theorem rdI_err_gen (p : Int) {q : Int} (hq : q ≠ 0) :
    2 ^ 53 * |rdI p q * q - p| ≤ 2 ^ 52 * |q| + |p| := by
  have h := roundQ_err_gen p.natAbs q.natAbs (Int.natAbs_pos.2 hq)
  rw [Int.natCast_natAbs, Int.natCast_natAbs] at h
  have e : rdI p q * q - p
      = Int.sign p * (((roundQ p.natAbs q.natAbs : Nat) : Int) * |q| - |p|) := by
    unfold rdI
    have h1 : Int.sign q * q = |q| := Int.sign_mul_self_eq_abs q
    have h2 : Int.sign p * |p| = p := Int.sign_mul_abs p
    calc Int.sign p * Int.sign q * ((roundQ p.natAbs q.natAbs : Nat) : Int) * q - p
        = Int.sign p * ((roundQ p.natAbs q.natAbs : Nat) : Int) * (Int.sign q * q)
            - Int.sign p * |p| := by rw [h2]; ring
      _ = _ := by rw [h1]; ring
  by_cases hp : p = 0
  · subst hp
    simp only [rdI_zero_left, Int.zero_mul, Int.sub_zero, abs_zero, Int.mul_zero]
    positivity
  · rw [e, abs_mul, Int.abs_sign_of_ne_zero hp, Int.one_mul]
    exact h

theorem rqI_err_gen (p : Int) {U : Nat} (hU : 0 < U) :
    2 ^ 53 * |rqI p U * (U : Int) - p| ≤ 2 ^ 52 * (U : Int) + |p| := by
  have h := roundQ_err_gen p.natAbs U hU
  rw [Int.natCast_natAbs] at h
  have e := natAbs_sub_rqI_mul p U
  rw [Int.natCast_natAbs, Int.natCast_natAbs] at e
  have e2 : rqI p U * (U : Int) - p = -(p + -(rqI p U) * (U : Int)) := by ring
  rw [e2, abs_neg, e]
  exact h

/-! ## 2. a negligible addend is absorbed -/

theorem rnI_add_small_pos {h c : Int} (hh : RepI h) (hpos : 0 < h) (hc : 2 ^ 55 * |c| ≤ h) :
    rnI (h + c) = h := by
  have hc0 := abs_nonneg c
  have hcl := neg_abs_le c
  have hcu := le_abs_self c
  have hn : 0 ≤ h + c := by omega
  rw [rnI_of_nonneg hn]
  have hx : Rep h.natAbs := hh
  have key : rn53 (h + c).natAbs = h.natAbs := by
    apply rn53_eq_of_abs_lt hx
    have hlt := lt_ulp_mul (h + c).natAbs
    have hlt' : (((h + c).natAbs : Nat) : Int)
        < 2 ^ 53 * ((2 ^ (Nat.log2 (h + c).natAbs - 52) : Nat) : Int) := by exact_mod_cast hlt
    have e1 : (((h + c).natAbs : Nat) : Int) = h + c := by omega
    have e2 : ((h.natAbs : Nat) : Int) = h := by omega
    rw [e1] at hlt' ⊢
    rw [e2]
    have e3 : h - (h + c) = -c := by ring
    rw [e3, abs_neg]
    have hp : (0 : Int) < ((2 ^ (Nat.log2 (h + c).natAbs - 52) : Nat) : Int) := by positivity
    generalize ((2 ^ (Nat.log2 (h + c).natAbs - 52) : Nat) : Int) = E at *
    omega
  rw [key]; omega

/-- `RN(h + c) = h` for a representable `h` and `|c| ≤ 2^-55 |h|` -/
theorem rnI_add_small {h c : Int} (hh : RepI h) (hc : 2 ^ 55 * |c| ≤ |h|) : rnI (h + c) = h := by
  rcases lt_trichotomy h 0 with hn | h0 | hp
  · have := rnI_add_small_pos (h := -h) (c := -c) hh.neg (by omega)
      (by rw [abs_neg]; rw [abs_of_neg hn] at hc; exact hc)
    rw [← neg_add, rnI_neg] at this
    omega
  · subst h0
    rw [abs_zero] at hc
    have : |c| = 0 := by have := abs_nonneg c; omega
    rw [abs_eq_zero.1 this]; simp
  · exact rnI_add_small_pos hh hp (by rwa [abs_of_pos hp] at hc)

/-! ## 3. `renorm3` as written drops a negligible third word -/

/-- **`renorm3 q1 q2 q3` with `|q2| ≤ |q1|/2` and `|q3| ≤ 2^-57 |q1|`.**  The crate calls `fast_two_sum c u.hi` with the
SMALL word first; for a negligible `c = q3` this returns `(u.hi, 0)`: `s = RN(c + u.hi) = u.hi`, `z = RN(s - c) = u.hi`,
`lo = u.hi - z = 0`.  Hence the result is the normalised pair of `q1 + q2` (the third quotient word is dropped). -/
theorem renorm3_drop {q1 q2 q3 : F64} (f1 : q1.is_finite = true) (f2 : q2.is_finite = true)
    (f3 : q3.is_finite = true) (w1 : q1.WF) (w2 : q2.WF)
    (h12 : 2 * |q2.toInt| ≤ |q1.toInt|) (h13 : 2 ^ 57 * |q3.toInt| ≤ |q1.toInt|)
    (hov : 4 * |q1.toInt| ≤ (maxFin : Int)) :
    (arithmetic.renorm3 q1 q2 q3).IsV (rnI (q1.toInt + q2.toInt))
      (q1.toInt + q2.toInt - rnI (q1.toInt + q2.toInt)) := by
  rw [renorm3_eq']
  have a0 := abs_nonneg q1.toInt
  have b0 := abs_nonneg q2.toInt
  have c0 := abs_nonneg q3.toInt
  have hsum : |q1.toInt + q2.toInt| ≤ |q1.toInt| + |q2.toInt| := abs_add_le _ _
  have hsum' : |q1.toInt| ≤ |q1.toInt + q2.toInt| + |q2.toInt| := by
    have := abs_add_le (q1.toInt + q2.toInt) (-q2.toInt)
    rwa [abs_neg, add_neg_cancel_right] at this
  have hrel := rel_err_rnI (q1.toInt + q2.toInt)
  have hh1 : |rnI (q1.toInt + q2.toInt)| ≤ |q1.toInt + q2.toInt| + |rnI (q1.toInt + q2.toInt) - (q1.toInt + q2.toInt)| := by
    have := abs_add_le (q1.toInt + q2.toInt) (rnI (q1.toInt + q2.toInt) - (q1.toInt + q2.toInt))
    rwa [add_sub_cancel] at this
  have hh2 : |q1.toInt + q2.toInt| ≤ |rnI (q1.toInt + q2.toInt)| + |rnI (q1.toInt + q2.toInt) - (q1.toInt + q2.toInt)| := by
    have := abs_add_le (rnI (q1.toInt + q2.toInt)) (-(rnI (q1.toInt + q2.toInt) - (q1.toInt + q2.toInt)))
    rw [abs_neg] at this
    have e : rnI (q1.toInt + q2.toInt) + -(rnI (q1.toInt + q2.toInt) - (q1.toInt + q2.toInt)) = q1.toInt + q2.toInt := by
      ring
    rwa [e] at this
  have hov1 : rn53 (q1.toInt + q2.toInt).natAbs ≤ maxFin := rn53_natAbs_le_maxFin (by omega)
  obtain ⟨uh, ul⟩ := fast_two_sum_words f1 f2 w1 w2 (by omega) hov1
  have wu := fast_two_sum_WF q1 q2
  have hrep : RepI (rnI (q1.toInt + q2.toInt)) := repI_rnI _
  generalize hH : rnI (q1.toInt + q2.toInt) = H at *
  have hsmall : 2 ^ 55 * |q3.toInt| ≤ |H| := by omega
  have hsmall' : 2 ^ 55 * |-q3.toInt| ≤ |H| := by rwa [abs_neg]
  have v3 := IsVal.of_finite f3
  -- `s = RN(c + u.hi) = u.hi`
  have hs : IsVal (F64.add q3 (arithmetic.fast_two_sum q1 q2).hi) H := by
    have := v3.add uh (by have := abs_add_le q3.toInt H; omega)
    rwa [add_comm, rnI_add_small hrep hsmall] at this
  -- `z = RN(s - c) = u.hi`
  have hz : IsVal (F64.sub (F64.add q3 (arithmetic.fast_two_sum q1 q2).hi) q3) H := by
    have := hs.sub v3 (by have := abs_add_le H (-q3.toInt); rw [abs_neg, ← Int.sub_eq_add_neg] at this; omega)
    rwa [Int.sub_eq_add_neg, rnI_add_small hrep hsmall'] at this
  -- `v.lo = u.hi - z = 0`
  have hvl : IsVal (F64.sub (arithmetic.fast_two_sum q1 q2).hi
      (F64.sub (F64.add q3 (arithmetic.fast_two_sum q1 q2).hi) q3)) 0 := by
    have := uh.sub_exact hz (by rw [sub_self]; exact repI_zero) (by rw [sub_self]; exact abs_zero_le_maxFin)
    rwa [sub_self] at this
  have hrl : RepI (q1.toInt + q2.toInt - H) := ul.repI wu.2
  have hw : IsVal (F64.add (arithmetic.fast_two_sum q1 q2).lo
      (arithmetic.fast_two_sum q3 (arithmetic.fast_two_sum q1 q2).hi).lo) (q1.toInt + q2.toInt - H) := by
    have := ul.add_exact hvl (by rw [add_zero]; exact hrl) (by rw [add_zero]; exact ul.abs_le wu.2)
    rwa [add_zero] at this
  exact f2s_isV_fixed hs hw (fast_two_sum_WF _ _).1 (add_WF _ _) (by rw [add_sub_cancel, hH])

/-! ## 4. `TwoFloat * f64` (DWTimesFP3): value with a crude error bound, all magnitudes below overflow -/

/-- error analysis of DWTimesFP3 on scaled integers: `N = yh·q`, `Lq = yl·q`, `ch = RN(N/U)`, `cl1 = RN((N - ch U)/U)`,
`cl3 = RN((Lq + cl1 U)/U)`; each rounding has relative error `2^-53` plus absolute error `1/2` (underflow) -/
theorem mul_err_int {N Lq ch cl1 cl3 U : Int} (hU : 0 < U) (h0 : 2 ^ 53 * |Lq| ≤ |N|)
    (h1 : 2 ^ 53 * |ch * U - N| ≤ 2 ^ 52 * U + |N|)
    (h2 : 2 ^ 53 * |cl1 * U - (N + -ch * U)| ≤ 2 ^ 52 * U + |N + -ch * U|)
    (h3 : 2 ^ 53 * |cl3 * U - (Lq + cl1 * U)| ≤ 2 ^ 52 * U + |Lq + cl1 * U|) :
    2 ^ 103 * |(ch + cl3) * U - (N + Lq)| ≤ 2 ^ 104 * U + |N| ∧
    2 ^ 52 * |N + -ch * U| ≤ 2 ^ 52 * U + |N| ∧
    2 ^ 50 * |Lq + cl1 * U| ≤ 2 ^ 51 * U + |N| ∧
    2 ^ 159 * |(ch + cl3) * U - (N + Lq)| ≤ (3 * 2 ^ 53 + 1) * |N| + 2 ^ 160 * U := by
  have n0 := abs_nonneg N
  have ed : |N + -ch * U| = |ch * U - N| := by
    rw [← abs_neg]; congr 1; ring
  rw [ed] at h2 ⊢
  have tM : |Lq + cl1 * U| ≤ |Lq| + |cl1 * U - (N + -ch * U)| + |ch * U - N| := by
    have e : Lq + cl1 * U = Lq + (cl1 * U - (N + -ch * U)) + -(ch * U - N) := by ring
    rw [e]
    refine le_trans (abs_add_le _ _) ?_
    rw [abs_neg]
    exact add_le_add_left (abs_add_le _ _) _
  have tG : |(ch + cl3) * U - (N + Lq)| ≤ |cl1 * U - (N + -ch * U)| + |cl3 * U - (Lq + cl1 * U)| := by
    have e : (ch + cl3) * U - (N + Lq) = (cl1 * U - (N + -ch * U)) + (cl3 * U - (Lq + cl1 * U)) := by ring
    rw [e]; exact abs_add_le _ _
  generalize |ch * U - N| = d1 at *
  generalize |cl1 * U - (N + -ch * U)| = e1 at *
  generalize |cl3 * U - (Lq + cl1 * U)| = e3 at *
  generalize |Lq + cl1 * U| = m3 at *
  generalize |(ch + cl3) * U - (N + Lq)| = g at *
  generalize |Lq| = lq at *
  generalize |N| = n at *
  refine ⟨?_, ?_, ?_, ?_⟩ <;> omega

theorem rqI_abs_le {p : Int} {U : Nat} (k : Nat) (hU : 0 < U) (h : |p| ≤ 2 ^ k * (U : Int)) :
    |rqI p U| ≤ 2 ^ k := by
  rw [← Int.natCast_natAbs, natAbs_rqI]
  have h' : p.natAbs ≤ 2 ^ k * U := by
    have : ((p.natAbs : Nat) : Int) ≤ ((2 ^ k * U : Nat) : Int) := by
      rw [Int.natCast_natAbs]; push_cast; exact h
    exact_mod_cast this
  have := roundQ_le_of_le hU (rep_two_pow k) h'
  exact_mod_cast this

theorem roundQ_le_maxFin_of_abs_le {p : Int} {U : Nat} (k : Nat) (hk : k ≤ 2097) (hU : 0 < U)
    (h : |p| ≤ 2 ^ k * (U : Int)) : roundQ p.natAbs U ≤ maxFin := by
  have h1 := rqI_abs_le k hU h
  rw [← Int.natCast_natAbs, natAbs_rqI] at h1
  have h2 : roundQ p.natAbs U ≤ 2 ^ k := by exact_mod_cast h1
  exact le_trans h2 (le_trans (Nat.pow_le_pow_right (by decide) hk) two_pow_2097_le_maxFin)

theorem unit_pos_int : (0 : Int) < (unit : Int) := Int.natCast_pos.2 unit_pos

/-- `2^53 |l·q| ≤ |x·q|` for a low word `l` below half an ulp of `x` -/
theorem lo_mul_le {x l q : Int} (hl : 2 * |l| ≤ 2 ^ (Nat.log2 x.natAbs - 52)) :
    2 ^ 53 * |l * q| ≤ |x * q| := by
  have h := two_pow_mul_le_of_half_ulp hl
  have h' : (2 : Int) ^ 53 * |l| ≤ |x| := by
    rw [← Int.natCast_natAbs, ← Int.natCast_natAbs]; exact_mod_cast h
  rw [abs_mul, abs_mul, ← mul_assoc]
  exact mul_le_mul_of_nonneg_right h' (abs_nonneg q)

/-- **`TwoFloat * f64`, value level.**  For a valid `y` and a finite `q` with `|y.hi · q| ≤ 2^1018` (no overflow) —
underflow of any of the three roundings allowed — the product is a valid pair whose value `P` satisfies
`|P − (y.hi + y.lo)·q| ≤ 2^-103 |y.hi·q| + 2·2^-1074`. -/
theorem mul_tf_val {y : TwoFloat} {q : F64} (hy : y.Valid) (hq : q.is_finite = true)
    (hN : |y.hi.toInt * q.toInt| ≤ 2 ^ 2092 * (unit : Int)) :
    (arithmetic.impl_Mul_rf64_for_rTwoFloat.mul y q).Valid ∧
    2 ^ 103 * |(arithmetic.impl_Mul_rf64_for_rTwoFloat.mul y q).V * (unit : Int)
        - (y.hi.toInt * q.toInt + y.lo.toInt * q.toInt)|
      ≤ 2 ^ 104 * (unit : Int) + |y.hi.toInt * q.toInt| ∧
    2 ^ 159 * |(arithmetic.impl_Mul_rf64_for_rTwoFloat.mul y q).V * (unit : Int)
        - (y.hi.toInt * q.toInt + y.lo.toInt * q.toInt)|
      ≤ (3 * 2 ^ 53 + 1) * |y.hi.toInt * q.toInt| + 2 ^ 160 * (unit : Int) := by
  rw [mul_tf_eq, new_mul_eq]
  simp only
  have hU := unit_pos
  have hUi := unit_pos_int
  have h0 := lo_mul_le (q := q.toInt) hy.two_mul_abs_lo_le
  have n0 := abs_nonneg (y.hi.toInt * q.toInt)
  -- ch
  obtain ⟨fch, vch⟩ := mul_spec hy.1 hq (roundQ_le_maxFin_of_abs_le 2092 (by norm_num) hU hN)
  have h1 := rqI_err_gen (y.hi.toInt * q.toInt) hU
  rw [← vch] at h1
  -- cl1
  have fn : (F64.neg (F64.mul y.hi q)).is_finite = true := by rw [is_finite_neg]; exact fch
  have ed : |y.hi.toInt * q.toInt + -(F64.mul y.hi q).toInt * (unit : Int)|
      = |(F64.mul y.hi q).toInt * (unit : Int) - y.hi.toInt * q.toInt| := by
    rw [← abs_neg]; congr 1; ring
  have b1 : |y.hi.toInt * q.toInt + (F64.neg (F64.mul y.hi q)).toInt * (unit : Int)|
      ≤ 2 ^ 2093 * (unit : Int) := by
    rw [toInt_neg, ed]; omega
  obtain ⟨f1, v1⟩ := fma_spec hy.1 hq fn (roundQ_le_maxFin_of_abs_le 2093 (by norm_num) hU b1)
  have h2 := rqI_err_gen (y.hi.toInt * q.toInt + (F64.neg (F64.mul y.hi q)).toInt * (unit : Int)) hU
  rw [← v1, toInt_neg] at h2
  -- cl3
  have b3 : |y.lo.toInt * q.toInt + (F64.fma y.hi q (F64.neg (F64.mul y.hi q))).toInt * (unit : Int)|
      ≤ 2 ^ 2095 * (unit : Int) := by
    have t1 := abs_add_le (y.lo.toInt * q.toInt)
      ((F64.fma y.hi q (F64.neg (F64.mul y.hi q))).toInt * (unit : Int))
    have t2 : |(F64.fma y.hi q (F64.neg (F64.mul y.hi q))).toInt * (unit : Int)|
        ≤ |(F64.fma y.hi q (F64.neg (F64.mul y.hi q))).toInt * (unit : Int)
            - (y.hi.toInt * q.toInt + -(F64.mul y.hi q).toInt * (unit : Int))|
          + |y.hi.toInt * q.toInt + -(F64.mul y.hi q).toInt * (unit : Int)| := by
      have := abs_add_le ((F64.fma y.hi q (F64.neg (F64.mul y.hi q))).toInt * (unit : Int)
            - (y.hi.toInt * q.toInt + -(F64.mul y.hi q).toInt * (unit : Int)))
          (y.hi.toInt * q.toInt + -(F64.mul y.hi q).toInt * (unit : Int))
      rwa [sub_add_cancel] at this
    rw [toInt_neg] at b1
    have l0 := abs_nonneg (y.lo.toInt * q.toInt)
    omega
  obtain ⟨f3, v3⟩ := fma_spec hy.2.1 hq f1 (roundQ_le_maxFin_of_abs_le 2095 (by norm_num) hU b3)
  have h3 := rqI_err_gen (y.lo.toInt * q.toInt
    + (F64.fma y.hi q (F64.neg (F64.mul y.hi q))).toInt * (unit : Int)) hU
  rw [← v3] at h3
  obtain ⟨E1, E2, E3, E4⟩ := mul_err_int hUi h0 h1 h2 h3
  -- the Fast2Sum precondition (as in `dw_mul_core_inv`)
  have hXY : (y.hi.toInt * q.toInt).natAbs = y.hi.toInt.natAbs * q.toInt.natAbs := Int.natAbs_mul _ _
  have aC : (F64.mul y.hi q).toInt.natAbs = roundQ (y.hi.toInt.natAbs * q.toInt.natAbs) unit := by
    rw [vch, natAbs_rqI, hXY]
  have v1' := v1
  rw [toInt_neg, vch] at v1'
  have aC1 : (F64.fma y.hi q (F64.neg (F64.mul y.hi q))).toInt.natAbs
      = roundQ (y.hi.toInt * q.toInt + -rqI (y.hi.toInt * q.toInt) unit * (unit : Int)).natAbs unit := by
    rw [v1', natAbs_rqI]
  have aC3 : (F64.fma y.lo q (F64.fma y.hi q (F64.neg (F64.mul y.hi q)))).toInt.natAbs
      = roundQ (y.lo.toInt * q.toInt
          + (F64.fma y.hi q (F64.neg (F64.mul y.hi q))).toInt * (unit : Int)).natAbs unit := by
    rw [v3, natAbs_rqI]
  have hD : 2 * (y.hi.toInt * q.toInt + -rqI (y.hi.toInt * q.toInt) unit * (unit : Int)).natAbs
      ≤ unit * 2 ^ (Nat.log2 (y.hi.toInt.natAbs * q.toInt.natAbs / unit) - 52) := by
    have h := roundQ_abs_err (y.hi.toInt * q.toInt).natAbs unit unit_pos
    rw [← natAbs_sub_rqI_mul, hXY] at h
    exact_mod_cast h
  have hN3 : (y.lo.toInt * q.toInt
        + (F64.fma y.hi q (F64.neg (F64.mul y.hi q))).toInt * (unit : Int)).natAbs
      ≤ y.lo.toInt.natAbs * q.toInt.natAbs +
        roundQ (y.hi.toInt * q.toInt + -rqI (y.hi.toInt * q.toInt) unit * (unit : Int)).natAbs unit * unit := by
    refine le_trans (Int.natAbs_add_le _ _) ?_
    rw [Int.natAbs_mul, Int.natAbs_mul, Int.natAbs_natCast, aC1]
  have key := dwtimesfp_nat unit_pos (two_pow_mul_le_of_half_ulp hy.two_mul_abs_lo_le) hD hN3
  rw [← aC, ← aC3] at key
  have hsumle : |(F64.mul y.hi q).toInt + (F64.fma y.lo q (F64.fma y.hi q (F64.neg (F64.mul y.hi q)))).toInt|
      ≤ (maxFin : Int) := by
    have hc : |(F64.mul y.hi q).toInt| ≤ 2 ^ 2092 := by
      rw [vch]; exact rqI_abs_le 2092 hU hN
    have hc3 : |(F64.fma y.lo q (F64.fma y.hi q (F64.neg (F64.mul y.hi q)))).toInt| ≤ 2 ^ 2095 := by
      rw [v3]; exact rqI_abs_le 2095 hU b3
    have hm : ((2 ^ 2097 : Nat) : Int) ≤ (maxFin : Int) := Int.ofNat_le.2 two_pow_2097_le_maxFin
    push_cast at hm
    have := abs_add_le (F64.mul y.hi q).toInt
      (F64.fma y.lo q (F64.fma y.hi q (F64.neg (F64.mul y.hi q)))).toInt
    omega
  have hov := rn53_natAbs_le_maxFin hsumle
  have hV : (arithmetic.fast_two_sum (F64.mul y.hi q)
        (F64.fma y.lo q (F64.fma y.hi q (F64.neg (F64.mul y.hi q))))).V
      = (F64.mul y.hi q).toInt + (F64.fma y.lo q (F64.fma y.hi q (F64.neg (F64.mul y.hi q)))).toInt ∧
      (arithmetic.fast_two_sum (F64.mul y.hi q)
        (F64.fma y.lo q (F64.fma y.hi q (F64.neg (F64.mul y.hi q))))).Valid := by
    rcases key with k0 | kle
    · have z : (F64.mul y.hi q).toInt = 0 := Int.natAbs_eq_zero.1 k0
      have := fast_two_sum_zero_left fch f3 (mul_WF _ _) (fma_WF _ _ _) z
      exact ⟨by rw [this.2.1, z, zero_add], this.2.2.1⟩
    · have hle : |(F64.fma y.lo q (F64.fma y.hi q (F64.neg (F64.mul y.hi q)))).toInt|
          ≤ |(F64.mul y.hi q).toInt| := by
        rw [← Int.natCast_natAbs, ← Int.natCast_natAbs]; exact_mod_cast kle
      have := fast_two_sum_spec fch f3 (mul_WF _ _) (fma_WF _ _ _) hle hov
      exact ⟨this.2.1, this.2.2.1⟩
  refine ⟨hV.2, ?_⟩
  rw [hV.1]
  exact ⟨E1, E4⟩

/-! ## 5. `TwoFloat ± TwoFloat` (AccurateDWPlusDW): value with a crude error bound -/

theorem abs_le_add_abs_sub (a b : Int) : |a| ≤ |b| + |a - b| := by
  have := abs_add_le b (a - b)
  rwa [add_sub_cancel] at this

/-- error analysis of the tail of AccurateDWPlusDW on scaled integers -/
theorem addcore_err_int {xh xl yh yl : Int} (hx : 2 ^ 53 * |xl| ≤ |xh|) (hy : 2 ^ 53 * |yl| ≤ |yh|)
    (sh sl th tl c vh vl w : Int)
    (e1 : sh = rnI (xh + yh)) (e2 : sl = xh + yh - sh) (e3 : th = rnI (xl + yl)) (e4 : tl = xl + yl - th)
    (e5 : c = rnI (sl + th)) (e6 : vh = rnI (sh + c)) (e7 : vl = sh + c - vh) (e8 : w = rnI (tl + vl)) :
    2 ^ 103 * |vh + w - (xh + yh + (xl + yl))| ≤ |xh| + |yh| ∧
    |sl + th| ≤ |xh| + |yh| ∧ |sh + c| ≤ 4 * (|xh| + |yh|) ∧ |tl + vl| ≤ |xh| + |yh| ∧
    |vh + w| ≤ 4 * (|xh| + |yh|) ∧
    2 ^ 106 * |vh + w - (xh + yh + (xl + yl))| ≤ 3 * |xh + yh| + (2 ^ 53 + 4) * |xl + yl| := by
  have r1 := rel_err_rnI (xh + yh)
  have r2 := rel_err_rnI (xl + yl)
  have r3 := rel_err_rnI (sl + th)
  have r4 := rel_err_rnI (sh + c)
  have r5 := rel_err_rnI (tl + vl)
  rw [← e1] at r1
  rw [← e3] at r2
  rw [← e5] at r3
  rw [← e6] at r4
  rw [← e8] at r5
  have t1 := abs_add_le xh yh
  have t2 := abs_add_le xl yl
  have esl : |sl| = |sh - (xh + yh)| := by rw [e2, ← abs_neg]; congr 1; ring
  have etl : |tl| = |th - (xl + yl)| := by rw [e4, ← abs_neg]; congr 1; ring
  have evl : |vl| = |vh - (sh + c)| := by rw [e7, ← abs_neg]; congr 1; ring
  have t3 := abs_add_le sl th
  have t4 := abs_le_add_abs_sub th (xl + yl)
  have t5 := abs_le_add_abs_sub sh (xh + yh)
  have t6 := abs_le_add_abs_sub c (sl + th)
  have t7 := abs_add_le sh c
  have t8 := abs_add_le tl vl
  have t9 := abs_le_add_abs_sub vh (sh + c)
  have t10 := abs_le_add_abs_sub w (tl + vl)
  have t11 := abs_add_le vh w
  have tg : |vh + w - (xh + yh + (xl + yl))| ≤ |c - (sl + th)| + |w - (tl + vl)| := by
    have e : vh + w - (xh + yh + (xl + yl)) = (c - (sl + th)) + (w - (tl + vl)) := by
      rw [e7, e4, e2]; ring
    rw [e]; exact abs_add_le _ _
  have n1 := abs_nonneg xh
  have n2 := abs_nonneg yh
  have n3 := abs_nonneg xl
  have n4 := abs_nonneg yl
  have n5 := abs_nonneg (xh + yh)
  have n6 := abs_nonneg (xl + yl)
  have n7 := abs_nonneg (c - (sl + th))
  have n8 := abs_nonneg (w - (tl + vl))
  have n9 := abs_nonneg (sh - (xh + yh))
  have n10 := abs_nonneg (th - (xl + yl))
  have n11 := abs_nonneg (vh - (sh + c))
  rw [← esl] at r1
  rw [← etl] at r2
  rw [← evl] at r4
  generalize |vh + w - (xh + yh + (xl + yl))| = G at *
  generalize |c - (sl + th)| = E3 at *
  generalize |w - (tl + vl)| = E5 at *
  generalize |sh - (xh + yh)| = E1 at *
  generalize |th - (xl + yl)| = E2 at *
  generalize |vh - (sh + c)| = E4 at *
  generalize |sl + th| = A1 at *
  generalize |sh + c| = A2 at *
  generalize |tl + vl| = A3 at *
  generalize |vh + w| = A4 at *
  generalize |xh + yh| = A5 at *
  generalize |xl + yl| = A6 at *
  generalize |sl| = B1 at *
  generalize |tl| = B2 at *
  generalize |vl| = B3 at *
  generalize |sh| = B4 at *
  generalize |th| = B5 at *
  generalize |c| = B6 at *
  generalize |vh| = B7 at *
  generalize |w| = B8 at *
  generalize |xh| = X at *
  generalize |yh| = Y at *
  generalize |xl| = XL at *
  generalize |yl| = YL at *
  have b1 := abs_nonneg (0 : Int)
  refine ⟨?_, ?_, ?_, ?_, ?_, ?_⟩ <;> omega

/-- `2^53 |l| ≤ |x|` (in `ℤ`) for a low word below half an ulp of `x` -/
theorem two_pow_mul_abs_le_of_half_ulp {x l : Int} (hl : 2 * |l| ≤ 2 ^ (Nat.log2 x.natAbs - 52)) :
    2 ^ 53 * |l| ≤ |x| := by
  have h := two_pow_mul_le_of_half_ulp hl
  rw [← Int.natCast_natAbs, ← Int.natCast_natAbs]; exact_mod_cast h

/-- **the tail of AccurateDWPlusDW, value level**: from the two error-free 2Sums `s`, `t` (given by their word values)
to a valid result whose value differs from the exact sum by at most `2^-103 (|xh| + |yh|)` -/
theorem addCore_val {s t : TwoFloat} {xh xl yh yl : Int} (hws : s.WF) (hxh : RepI xh) (hyh : RepI yh)
    (hx : 2 * |xl| ≤ 2 ^ (Nat.log2 xh.natAbs - 52)) (hy : 2 * |yl| ≤ 2 ^ (Nat.log2 yh.natAbs - 52))
    (vsh : IsVal s.hi (rnI (xh + yh))) (vsl : IsVal s.lo (xh + yh - rnI (xh + yh)))
    (vth : IsVal t.hi (rnI (xl + yl))) (vtl : IsVal t.lo (xl + yl - rnI (xl + yl)))
    (hb : 4 * (|xh| + |yh|) ≤ (maxFin : Int)) :
    (addCore s t).Valid ∧ 2 ^ 103 * |(addCore s t).V - (xh + yh + (xl + yl))| ≤ |xh| + |yh| ∧
    2 ^ 106 * |(addCore s t).V - (xh + yh + (xl + yl))| ≤ 3 * |xh + yh| + (2 ^ 53 + 4) * |xl + yl| := by
  unfold addCore
  obtain ⟨G, A1, A2, A3, A4, G'⟩ := addcore_err_int (two_pow_mul_abs_le_of_half_ulp hx)
    (two_pow_mul_abs_le_of_half_ulp hy) _ _ _ _ _ _ _ _ rfl rfl rfl rfl rfl rfl rfl rfl
  have n1 := abs_nonneg xh
  have n2 := abs_nonneg yh
  obtain ⟨P1, P2⟩ := dwplusdw_pre hxh hyh hx hy
  have vc := vsl.add vth (by omega)
  have hov : rn53 (s.hi.toInt + (F64.add s.lo t.hi).toInt).natAbs ≤ maxFin := by
    rw [vsh.2, vc.2]; exact rn53_natAbs_le_maxFin (by omega)
  have Vw : IsVal (arithmetic.fast_two_sum s.hi (F64.add s.lo t.hi)).hi
        (rnI (s.hi.toInt + (F64.add s.lo t.hi).toInt)) ∧
      IsVal (arithmetic.fast_two_sum s.hi (F64.add s.lo t.hi)).lo
        (s.hi.toInt + (F64.add s.lo t.hi).toInt - rnI (s.hi.toInt + (F64.add s.lo t.hi).toInt)) := by
    rcases P1 with p | p
    · exact fast_two_sum_words vsh.1 vc.1 hws.1 (add_WF _ _) (by rw [vsh.2, vc.2]; exact p) hov
    · exact fast_two_sum_words_of_dvd vsh.1 vc.1 hws.1 (add_WF _ _) (by rw [vsh.2, vc.2]; exact p) hov
  rw [vsh.2, vc.2] at Vw
  have vw := vtl.add Vw.2 (by omega)
  have hov2 : rn53 ((arithmetic.fast_two_sum s.hi (F64.add s.lo t.hi)).hi.toInt +
      (F64.add t.lo (arithmetic.fast_two_sum s.hi (F64.add s.lo t.hi)).lo).toInt).natAbs ≤ maxFin := by
    rw [Vw.1.2, vw.2]; exact rn53_natAbs_le_maxFin (by omega)
  have R : (arithmetic.fast_two_sum (arithmetic.fast_two_sum s.hi (F64.add s.lo t.hi)).hi
        (F64.add t.lo (arithmetic.fast_two_sum s.hi (F64.add s.lo t.hi)).lo)).V
      = (arithmetic.fast_two_sum s.hi (F64.add s.lo t.hi)).hi.toInt +
        (F64.add t.lo (arithmetic.fast_two_sum s.hi (F64.add s.lo t.hi)).lo).toInt ∧
      (arithmetic.fast_two_sum (arithmetic.fast_two_sum s.hi (F64.add s.lo t.hi)).hi
        (F64.add t.lo (arithmetic.fast_two_sum s.hi (F64.add s.lo t.hi)).lo)).Valid := by
    rcases P2 with p | p
    · have := fast_two_sum_spec_of_dvd Vw.1.1 vw.1 (fast_two_sum_WF _ _).1 (add_WF _ _)
        (by rw [Vw.1.2, p]; exact dvd_zero _) hov2
      exact ⟨this.2.1, this.2.2.1⟩
    · have := fast_two_sum_spec Vw.1.1 vw.1 (fast_two_sum_WF _ _).1 (add_WF _ _)
        (by rw [vw.2, Vw.1.2]; exact abs_rnI_le (repI_rnI _) p) hov2
      exact ⟨this.2.1, this.2.2.1⟩
  refine ⟨R.2, ?_⟩
  rw [R.1, Vw.1.2, vw.2]
  exact ⟨G, G'⟩

/-- **`TwoFloat - TwoFloat`, value level**: valid operands with high words below `2^1020`: the difference is a valid
pair with `|value − (x − p)| ≤ 2^-103 (|x.hi| + |p.hi|)` -/
theorem sub_tt_val {x p : TwoFloat} (hx : x.Valid) (hp : p.Valid) (hwx : x.WF) (hwp : p.WF)
    (bx : |x.hi.toInt| ≤ 2 ^ 2094) (bp : |p.hi.toInt| ≤ 2 ^ 2094) :
    (arithmetic.impl_Sub_rTwoFloat_for_rTwoFloat.sub x p).Valid ∧
    2 ^ 103 * |(arithmetic.impl_Sub_rTwoFloat_for_rTwoFloat.sub x p).V - (x.V - p.V)|
      ≤ |x.hi.toInt| + |p.hi.toInt| ∧
    2 ^ 106 * |(arithmetic.impl_Sub_rTwoFloat_for_rTwoFloat.sub x p).V - (x.V - p.V)|
      ≤ 3 * |x.hi.toInt - p.hi.toInt| + (2 ^ 53 + 4) * |x.lo.toInt - p.lo.toInt| := by
  rw [sub_tt_eq]
  have hm : ((2 ^ 2097 : Nat) : Int) ≤ (maxFin : Int) := Int.ofNat_le.2 two_pow_2097_le_maxFin
  push_cast at hm
  have lx := hx.abs_lo_le
  have lp := hp.abs_lo_le
  obtain ⟨a1, a2⟩ := new_sub_words hx.1 hp.1 hwx.1 hwp.1 (by omega) (by omega)
  obtain ⟨a3, a4⟩ := new_sub_words hx.2.1 hp.2.1 hwx.2 hwp.2 (by omega) (by omega)
  have key := addCore_val (s := TwoFloat.new_sub x.hi p.hi) (t := TwoFloat.new_sub x.lo p.lo)
    (xh := x.hi.toInt) (xl := x.lo.toInt) (yh := -p.hi.toInt) (yl := -p.lo.toInt)
    (new_sub_WF _ _) hwx.1.repI hwp.1.repI.neg hx.two_mul_abs_lo_le
    (by rw [abs_neg, Int.natAbs_neg]; exact hp.two_mul_abs_lo_le)
    (by rw [← Int.sub_eq_add_neg]; exact a1) (by rw [← Int.sub_eq_add_neg]; exact a2)
    (by rw [← Int.sub_eq_add_neg]; exact a3) (by rw [← Int.sub_eq_add_neg]; exact a4)
    (by rw [abs_neg]; omega)
  rw [abs_neg] at key
  refine ⟨key.1, ?_⟩
  have e : x.V - p.V = x.hi.toInt + -p.hi.toInt + (x.lo.toInt + -p.lo.toInt) := by
    unfold TwoFloat.V; ring
  rw [e, Int.sub_eq_add_neg (a := x.hi.toInt), Int.sub_eq_add_neg (a := x.lo.toInt)]; exact key.2

/-! ## 6. `f64 - TwoFloat`: value with a crude error bound -/

/-- **`f64 - TwoFloat`, value level** -/
theorem sub_ft_val {f : F64} {p : TwoFloat} (hf : f.is_finite = true) (hwf : f.WF) (hp : p.Valid) (hwp : p.WF)
    (bf : |f.toInt| ≤ 2 ^ 2094) (bp : |p.hi.toInt| ≤ 2 ^ 2094) :
    (arithmetic.impl_Sub_rTwoFloat_for_rf64.sub f p).Valid ∧
    2 ^ 103 * |(arithmetic.impl_Sub_rTwoFloat_for_rf64.sub f p).V - (f.toInt - p.V)|
      ≤ |f.toInt| + |p.hi.toInt| ∧
    2 ^ 106 * |(arithmetic.impl_Sub_rTwoFloat_for_rf64.sub f p).V - (f.toInt - p.V)|
      ≤ 3 * |f.toInt - p.hi.toInt| + (2 ^ 53 + 4) * |0 - p.lo.toInt| := by
  rw [sub_ft_eq]
  have hm : ((2 ^ 2097 : Nat) : Int) ≤ (maxFin : Int) := Int.ofNat_le.2 two_pow_2097_le_maxFin
  push_cast at hm
  have lp := two_pow_mul_abs_le_of_half_ulp hp.two_mul_abs_lo_le
  have n1 := abs_nonneg f.toInt
  have n2 := abs_nonneg p.hi.toInt
  have n3 := abs_nonneg p.lo.toInt
  obtain ⟨a1, a2⟩ := new_sub_words hf hp.1 hwf hwp.1 (by omega) (by omega)
  have r1 := rel_err_rnI (f.toInt - p.hi.toInt)
  have t1 : |f.toInt - p.hi.toInt| ≤ |f.toInt| + |p.hi.toInt| := by
    have := abs_add_le f.toInt (-p.hi.toInt)
    rwa [abs_neg, ← Int.sub_eq_add_neg] at this
  have esl : |f.toInt - p.hi.toInt - rnI (f.toInt - p.hi.toInt)|
      = |rnI (f.toInt - p.hi.toInt) - (f.toInt - p.hi.toInt)| := abs_sub_comm _ _
  have t2 : |f.toInt - p.hi.toInt - rnI (f.toInt - p.hi.toInt) - p.lo.toInt|
      ≤ |f.toInt - p.hi.toInt - rnI (f.toInt - p.hi.toInt)| + |p.lo.toInt| := by
    have := abs_add_le (f.toInt - p.hi.toInt - rnI (f.toInt - p.hi.toInt)) (-p.lo.toInt)
    rwa [abs_neg, ← Int.sub_eq_add_neg] at this
  have t3 := abs_le_add_abs_sub (rnI (f.toInt - p.hi.toInt)) (f.toInt - p.hi.toInt)
  have vv := a2.sub (IsVal.of_finite hp.2.1) (by omega)
  have r2 := rel_err_rnI (f.toInt - p.hi.toInt - rnI (f.toInt - p.hi.toInt) - p.lo.toInt)
  have t4 := abs_le_add_abs_sub (rnI (f.toInt - p.hi.toInt - rnI (f.toInt - p.hi.toInt) - p.lo.toInt))
    (f.toInt - p.hi.toInt - rnI (f.toInt - p.hi.toInt) - p.lo.toInt)
  have hov : rn53 ((TwoFloat.new_sub f p.hi).hi.toInt +
      (F64.sub (TwoFloat.new_sub f p.hi).lo p.lo).toInt).natAbs ≤ maxFin := by
    rw [a1.2, vv.2]
    apply rn53_natAbs_le_maxFin
    have := abs_add_le (rnI (f.toInt - p.hi.toInt))
      (rnI (f.toInt - p.hi.toInt - rnI (f.toInt - p.hi.toInt) - p.lo.toInt))
    omega
  have R : (arithmetic.fast_two_sum (TwoFloat.new_sub f p.hi).hi
        (F64.sub (TwoFloat.new_sub f p.hi).lo p.lo)).V
      = (TwoFloat.new_sub f p.hi).hi.toInt + (F64.sub (TwoFloat.new_sub f p.hi).lo p.lo).toInt ∧
      (arithmetic.fast_two_sum (TwoFloat.new_sub f p.hi).hi
        (F64.sub (TwoFloat.new_sub f p.hi).lo p.lo)).Valid := by
    by_cases hs0 : rnI (f.toInt - p.hi.toInt) = 0
    · have := fast_two_sum_spec_of_dvd a1.1 vv.1 (new_sub_WF _ _).1 (sub_WF _ _)
        (by rw [a1.2, hs0]; exact dvd_zero _) hov
      exact ⟨this.2.1, this.2.2.1⟩
    · have e1 : -p.hi.toInt + f.toInt = f.toInt - p.hi.toInt := by ring
      have hs0' : rnI (-p.hi.toInt + f.toInt) ≠ 0 := by rwa [e1]
      have hpre := dwplusfp_pre (l := -p.lo.toInt) hwp.1.repI.neg hwf.repI
        (by rw [abs_neg, Int.natAbs_neg]; exact hp.two_mul_abs_lo_le) hs0'
      rw [e1] at hpre
      have e2 : -p.lo.toInt + (f.toInt - p.hi.toInt - rnI (f.toInt - p.hi.toInt))
          = f.toInt - p.hi.toInt - rnI (f.toInt - p.hi.toInt) - p.lo.toInt := by ring
      rw [e2] at hpre
      have := fast_two_sum_spec a1.1 vv.1 (new_sub_WF _ _).1 (sub_WF _ _)
        (by rw [a1.2, vv.2]; exact abs_rnI_le (repI_rnI _) hpre) hov
      exact ⟨this.2.1, this.2.2.1⟩
  refine ⟨R.2, ?_⟩
  rw [R.1, a1.2, vv.2]
  have e : rnI (f.toInt - p.hi.toInt) +
      rnI (f.toInt - p.hi.toInt - rnI (f.toInt - p.hi.toInt) - p.lo.toInt) - (f.toInt - p.V)
      = rnI (f.toInt - p.hi.toInt - rnI (f.toInt - p.hi.toInt) - p.lo.toInt)
        - (f.toInt - p.hi.toInt - rnI (f.toInt - p.hi.toInt) - p.lo.toInt) := by
    unfold TwoFloat.V; ring
  have e0 : |0 - p.lo.toInt| = |p.lo.toInt| := by rw [zero_sub, abs_neg]
  rw [e, e0]
  have n4 := abs_nonneg (f.toInt - p.hi.toInt)
  constructor <;> omega

/-! ## 7. one step of the long division, on scaled integers -/

theorem abs_mul_pos_right (z : Int) {U : Int} (hU : 0 < U) : |z * U| = |z| * U := by
  rw [abs_mul, abs_of_pos hU]

/-- **one step `r ↦ r − y·RN(r.hi / y.hi)` shrinks the high word by `2^-48`** (up to the absolute underflow terms
`4|y.hi|·2^-1074` and `8` units).  `xh, xl` the words of `r`, `q` the quotient digit, `N = q·B`, `Lq = y.lo·q`,
`P` the value of the computed product, `Ph` its high word, `R` the value of the computed difference, `Rh` its high
word. -/
theorem step_bound_int {xh xl B q N Lq P Ph R Rh U : Int} (hU : 0 < U)
    (hxl : 2 ^ 53 * |xl| ≤ |xh|) (hN : N = q * B)
    (hq : 2 ^ 53 * |q * B - xh * U| ≤ 2 ^ 52 * |B| + |xh * U|)
    (hL : 2 ^ 53 * |Lq| ≤ |N|)
    (hP : 2 ^ 103 * |P * U - (N + Lq)| ≤ 2 ^ 104 * U + |N|)
    (hPh : |Ph| ≤ 2 * |P|)
    (hR : 2 ^ 103 * |R - (xh + xl - P)| ≤ |xh| + |Ph|)
    (hRh : |Rh| ≤ 2 * |R|) :
    2 ^ 48 * |Rh * U| ≤ |xh * U| + 2 ^ 50 * |B| + 2 ^ 51 * U := by
  have hxl' : 2 ^ 53 * |xl * U| ≤ |xh * U| := by
    have := mul_le_mul_of_nonneg_right hxl hU.le
    rw [abs_mul_pos_right _ hU, abs_mul_pos_right _ hU]; linarith
  have hPh' : |Ph * U| ≤ 2 * |P * U| := by
    have := mul_le_mul_of_nonneg_right hPh hU.le
    rw [abs_mul_pos_right _ hU, abs_mul_pos_right _ hU]; linarith
  have hRh' : |Rh * U| ≤ 2 * |R * U| := by
    have := mul_le_mul_of_nonneg_right hRh hU.le
    rw [abs_mul_pos_right _ hU, abs_mul_pos_right _ hU]; linarith
  have hR' : 2 ^ 103 * |R * U - (xh * U + xl * U - P * U)| ≤ |xh * U| + |Ph * U| := by
    have := mul_le_mul_of_nonneg_right hR hU.le
    have e : R * U - (xh * U + xl * U - P * U) = (R - (xh + xl - P)) * U := by ring
    rw [e, abs_mul_pos_right _ hU, abs_mul_pos_right _ hU, abs_mul_pos_right _ hU]; linarith
  have t1 := abs_le_add_abs_sub (R * U) (xh * U + xl * U - P * U)
  have t2 : |xh * U + xl * U - P * U| ≤ |q * B - xh * U| + |xl * U| + |Lq| + |P * U - (N + Lq)| := by
    have e : xh * U + xl * U - P * U = -(q * B - xh * U) + xl * U + -Lq + -(P * U - (N + Lq)) := by
      rw [hN]; ring
    rw [e]
    refine le_trans (abs_add_le _ _) ?_
    rw [abs_neg]
    refine add_le_add_left (le_trans (abs_add_le _ _) ?_) _
    rw [abs_neg]
    refine add_le_add_left (le_trans (abs_add_le _ _) ?_) _
    rw [abs_neg]
  have t3 : |N| ≤ |xh * U| + |q * B - xh * U| := by
    rw [hN]; exact abs_le_add_abs_sub _ _
  have t4 : |P * U| ≤ |N| + |Lq| + |P * U - (N + Lq)| := by
    have := abs_le_add_abs_sub (P * U) (N + Lq)
    have := abs_add_le N Lq
    omega
  have n1 := abs_nonneg B
  have n2 := abs_nonneg (xh * U)
  generalize |Rh * U| = a1 at *
  generalize |R * U| = a2 at *
  generalize |R * U - (xh * U + xl * U - P * U)| = a3 at *
  generalize |xh * U + xl * U - P * U| = a4 at *
  generalize |q * B - xh * U| = a5 at *
  generalize |xl * U| = a6 at *
  generalize |Lq| = a7 at *
  generalize |P * U - (N + Lq)| = a8 at *
  generalize |N| = a9 at *
  generalize |P * U| = a10 at *
  generalize |Ph * U| = a11 at *
  generalize |xh * U| = a12 at *
  generalize |B| = a13 at *
  omega

/-- magnitudes of the three quotient digits -/
theorem digits_int {A B r1 r2 q1 q2 q3 U : Int} (hU : 0 < U) (hB : B ≠ 0)
    (hA1 : 2 ^ 64 * |B| ≤ |A * U|) (hA2 : 2 ^ 64 * U ≤ |A * U|)
    (hS1 : 2 ^ 48 * |r1 * U| ≤ |A * U| + 2 ^ 50 * |B| + 2 ^ 51 * U)
    (hS2 : 2 ^ 48 * |r2 * U| ≤ |r1 * U| + 2 ^ 50 * |B| + 2 ^ 51 * U)
    (hQ1 : 2 ^ 53 * |q1 * B - A * U| ≤ 2 ^ 52 * |B| + |A * U|)
    (hQ2 : 2 ^ 53 * |q2 * B - r1 * U| ≤ 2 ^ 52 * |B| + |r1 * U|)
    (hQ3 : 2 ^ 53 * |q3 * B - r2 * U| ≤ 2 ^ 52 * |B| + |r2 * U|) :
    2 * |q2| ≤ |q1| ∧ 2 ^ 57 * |q3| ≤ |q1| := by
  have hBp : 0 < |B| := abs_pos.2 hB
  have t1 := abs_le_add_abs_sub (A * U) (q1 * B)
  rw [abs_sub_comm] at t1
  have t2 := abs_le_add_abs_sub (q2 * B) (r1 * U)
  have t3 := abs_le_add_abs_sub (q3 * B) (r2 * U)
  have n1 := abs_nonneg (r1 * U)
  have n2 := abs_nonneg (r2 * U)
  have k1 : 2 * |q2 * B| ≤ |q1 * B| := by
    generalize |q1 * B| = b1 at *
    generalize |q2 * B| = b2 at *
    generalize |q3 * B| = b3 at *
    generalize |q1 * B - A * U| = c1 at *
    generalize |q2 * B - r1 * U| = c2 at *
    generalize |q3 * B - r2 * U| = c3 at *
    generalize |A * U| = a at *
    generalize |r1 * U| = d1 at *
    generalize |r2 * U| = d2 at *
    generalize |B| = b at *
    omega
  have k2 : 2 ^ 57 * |q3 * B| ≤ |q1 * B| := by
    generalize |q1 * B| = b1 at *
    generalize |q2 * B| = b2 at *
    generalize |q3 * B| = b3 at *
    generalize |q1 * B - A * U| = c1 at *
    generalize |q2 * B - r1 * U| = c2 at *
    generalize |q3 * B - r2 * U| = c3 at *
    generalize |A * U| = a at *
    generalize |r1 * U| = d1 at *
    generalize |r2 * U| = d2 at *
    generalize |B| = b at *
    omega
  rw [abs_mul, abs_mul] at k1 k2
  constructor
  · have : (2 * |q2|) * |B| ≤ |q1| * |B| := by linarith
    exact le_of_mul_le_mul_right this hBp
  · have : (2 ^ 57 * |q3|) * |B| ≤ |q1| * |B| := by linarith
    exact le_of_mul_le_mul_right this hBp

/-! ## 8. one step of the long division, `F64` level -/

theorem two_pow_le_maxFin_int {k : Nat} (hk : k ≤ 2097) : (2 : Int) ^ k ≤ (maxFin : Int) := by
  have h : ((2 ^ k : Nat) : Int) ≤ (maxFin : Int) :=
    Int.ofNat_le.2 (le_trans (Nat.pow_le_pow_right (by decide) hk) two_pow_2097_le_maxFin)
  push_cast at h; exact h

/-- a quotient digit: finite, correctly rounded, bounded -/
theorem div_digit {x y : F64} (hx : x.is_finite = true) (hy : y.is_finite = true) (hy0 : y.toInt ≠ 0)
    (bq : |x.toInt * (unit : Int)| ≤ 2 ^ 2090 * |y.toInt|) :
    IsVal (F64.div x y) (rdI (x.toInt * (unit : Int)) y.toInt) ∧
    |rdI (x.toInt * (unit : Int)) y.toInt| ≤ 2 ^ 2090 := by
  have h' : (x.toInt * (unit : Int)).natAbs ≤ 2 ^ 2090 * y.toInt.natAbs := by
    have : (((x.toInt * (unit : Int)).natAbs : Nat) : Int) ≤ ((2 ^ 2090 * y.toInt.natAbs : Nat) : Int) := by
      rw [Int.natCast_natAbs]; push_cast; exact bq
    exact_mod_cast this
  have hr := roundQ_le_of_le (Int.natAbs_pos.2 hy0) (rep_two_pow 2090) h'
  have hm : roundQ (x.toInt * (unit : Int)).natAbs y.toInt.natAbs ≤ maxFin :=
    le_trans hr (le_trans (Nat.pow_le_pow_right (by decide) (by norm_num)) two_pow_2097_le_maxFin)
  refine ⟨div_spec hx hy hy0 hm, ?_⟩
  rw [abs_rdI _ hy0]
  exact_mod_cast hr

/-- **one step of the long division** in a form covering both `TwoFloat / TwoFloat` (`sub p = r - p`) and the first
step of `f64 / TwoFloat` (`sub p = f - p`): `xh` the high word of the current remainder, `xl` the value of its low
word.  The new remainder is valid and its high word is at most `2^-48 |xh|` (plus underflow terms). -/
theorem step_core {y : TwoFloat} {xh : F64} {xl : Int} (sub : TwoFloat → TwoFloat)
    (hy : y.Valid) (fx : xh.is_finite = true) (hy0 : y.hi.toInt ≠ 0)
    (hxl : 2 ^ 53 * |xl| ≤ |xh.toInt|)
    (bx : |xh.toInt| ≤ 2 ^ 2090) (bB : |y.hi.toInt| ≤ 2 ^ 2090)
    (bq : |xh.toInt * (unit : Int)| ≤ 2 ^ 2090 * |y.hi.toInt|)
    (hsub : ∀ p : TwoFloat, p.Valid → p.WF → |p.hi.toInt| ≤ 2 ^ 2094 →
      (sub p).Valid ∧ 2 ^ 103 * |(sub p).V - (xh.toInt + xl - p.V)| ≤ |xh.toInt| + |p.hi.toInt| ∧
      2 ^ 106 * |(sub p).V - (xh.toInt + xl - p.V)|
        ≤ 3 * |xh.toInt - p.hi.toInt| + (2 ^ 53 + 4) * |xl - p.lo.toInt|) :
    IsVal (F64.div xh y.hi) (rdI (xh.toInt * (unit : Int)) y.hi.toInt) ∧
    (arithmetic.impl_Mul_rf64_for_rTwoFloat.mul y (F64.div xh y.hi)).Valid ∧
    2 ^ 159 * |(arithmetic.impl_Mul_rf64_for_rTwoFloat.mul y (F64.div xh y.hi)).V * (unit : Int)
        - (y.hi.toInt * (F64.div xh y.hi).toInt + y.lo.toInt * (F64.div xh y.hi).toInt)|
      ≤ (3 * 2 ^ 53 + 1) * |y.hi.toInt * (F64.div xh y.hi).toInt| + 2 ^ 160 * (unit : Int) ∧
    (sub (arithmetic.impl_Mul_rf64_for_rTwoFloat.mul y (F64.div xh y.hi))).Valid ∧
    2 ^ 48 * |(sub (arithmetic.impl_Mul_rf64_for_rTwoFloat.mul y (F64.div xh y.hi))).hi.toInt * (unit : Int)|
      ≤ |xh.toInt * (unit : Int)| + 2 ^ 50 * |y.hi.toInt| + 2 ^ 51 * (unit : Int) ∧
    2 ^ 106 * |(sub (arithmetic.impl_Mul_rf64_for_rTwoFloat.mul y (F64.div xh y.hi))).V
        - (xh.toInt + xl - (arithmetic.impl_Mul_rf64_for_rTwoFloat.mul y (F64.div xh y.hi)).V)|
      ≤ 3 * |xh.toInt - (arithmetic.impl_Mul_rf64_for_rTwoFloat.mul y (F64.div xh y.hi)).hi.toInt|
        + (2 ^ 53 + 4) * |xl - (arithmetic.impl_Mul_rf64_for_rTwoFloat.mul y (F64.div xh y.hi)).lo.toInt| := by
  have hUi := unit_pos_int
  have hU1 : (1 : Int) ≤ (unit : Int) := hUi
  obtain ⟨vq, bqd⟩ := div_digit fx hy.1 hy0 bq
  have hq := rdI_err_gen (xh.toInt * (unit : Int)) hy0
  have exU : |xh.toInt * (unit : Int)| ≤ 2 ^ 2090 * (unit : Int) := by
    rw [abs_mul_pos_right _ hUi]; exact mul_le_mul_of_nonneg_right bx hUi.le
  -- the product
  have hNb : |y.hi.toInt * (F64.div xh y.hi).toInt| ≤ 2 ^ 2092 * (unit : Int) := by
    rw [vq.2, mul_comm]
    have t := abs_le_add_abs_sub (rdI (xh.toInt * (unit : Int)) y.hi.toInt * y.hi.toInt) (xh.toInt * (unit : Int))
    have n1 := abs_nonneg y.hi.toInt
    have : (2 : Int) ^ 2090 ≤ 2 ^ 2090 * (unit : Int) := le_mul_of_one_le_right (by positivity) hU1
    omega
  obtain ⟨pv, hP, hPt⟩ := mul_tf_val hy vq.1 hNb
  have hL := lo_mul_le (q := (F64.div xh y.hi).toInt) hy.two_mul_abs_lo_le
  have hPh : |(arithmetic.impl_Mul_rf64_for_rTwoFloat.mul y (F64.div xh y.hi)).hi.toInt|
      ≤ 2 * |(arithmetic.impl_Mul_rf64_for_rTwoFloat.mul y (F64.div xh y.hi)).V| := by
    rw [pv.hi_toInt]; exact abs_rnI_le_two_mul _
  have hPb : |(arithmetic.impl_Mul_rf64_for_rTwoFloat.mul y (F64.div xh y.hi)).V| ≤ 2 ^ 2093 := by
    have t1 := abs_le_add_abs_sub ((arithmetic.impl_Mul_rf64_for_rTwoFloat.mul y (F64.div xh y.hi)).V * (unit : Int))
      (y.hi.toInt * (F64.div xh y.hi).toInt + y.lo.toInt * (F64.div xh y.hi).toInt)
    have t2 := abs_add_le (y.hi.toInt * (F64.div xh y.hi).toInt) (y.lo.toInt * (F64.div xh y.hi).toInt)
    have t3 : |(arithmetic.impl_Mul_rf64_for_rTwoFloat.mul y (F64.div xh y.hi)).V| * (unit : Int)
        ≤ 2 ^ 2093 * (unit : Int) := by
      rw [← abs_mul_pos_right _ hUi]
      have n1 := abs_nonneg (y.lo.toInt * (F64.div xh y.hi).toInt)
      omega
    exact le_of_mul_le_mul_right t3 hUi
  obtain ⟨rv, hR, hRt⟩ := hsub _ pv (mul_tf_WF _ _) (by omega)
  refine ⟨vq, pv, hPt, rv, ?_, hRt⟩
  have hRh : |(sub (arithmetic.impl_Mul_rf64_for_rTwoFloat.mul y (F64.div xh y.hi))).hi.toInt|
      ≤ 2 * |(sub (arithmetic.impl_Mul_rf64_for_rTwoFloat.mul y (F64.div xh y.hi))).V| := by
    rw [rv.hi_toInt]; exact abs_rnI_le_two_mul _
  rw [vq.2] at hP hL
  exact step_bound_int hUi hxl (mul_comm _ _) hq hL hP hPh hR hRh

/-! ## 9. the long divisions return valid pairs -/

/-- the operand range of the main theorems, on the scaled high words `A = toInt a.hi`, `B = toInt b.hi`
(`U = 2^1074`): `2^-1010 ≤ |a.hi| ≤ 2^1016`, `|b.hi| ≤ 2^1016`, `2^-1010 ≤ |a.hi / b.hi| ≤ 2^1016` -/
structure DivRange (A B : Int) : Prop where
  A_lo : 2 ^ 64 ≤ |A|
  A_hi : |A| ≤ 2 ^ 2090
  B_hi : |B| ≤ 2 ^ 2090
  Q_lo : 2 ^ 64 * |B| ≤ |A * (unit : Int)|
  Q_hi : |A * (unit : Int)| ≤ 2 ^ 2090 * |B|

theorem DivRange.B_ne {A B : Int} (h : DivRange A B) : B ≠ 0 := by
  rintro rfl
  have h1 := h.Q_hi
  have h2 := h.A_lo
  rw [abs_zero, mul_zero, abs_mul_pos_right _ unit_pos_int] at h1
  have : 0 < |A| * (unit : Int) := mul_pos (by omega) unit_pos_int
  omega

theorem DivRange.aux {A B : Int} (h : DivRange A B) :
    (unit : Int) ≤ 2 ^ 2026 * |B| ∧ |B| ≤ 2 ^ 2026 * (unit : Int) ∧ 2 ^ 64 * (unit : Int) ≤ |A * (unit : Int)| := by
  have hUi := unit_pos_int
  have h1 : 2 ^ 64 * (unit : Int) ≤ |A * (unit : Int)| := by
    rw [abs_mul_pos_right _ hUi]; exact mul_le_mul_of_nonneg_right h.A_lo hUi.le
  have h2 : |A * (unit : Int)| ≤ 2 ^ 2090 * (unit : Int) := by
    rw [abs_mul_pos_right _ hUi]; exact mul_le_mul_of_nonneg_right h.A_hi hUi.le
  have h3 := h.Q_lo
  have h4 := h.Q_hi
  refine ⟨?_, ?_, h1⟩ <;> omega

/-- bounds on the next remainder, in the form needed to iterate `step_core` -/
theorem next_bounds_int {x r B U : Int} (hU : 0 < U) (hUB : U ≤ 2 ^ 2026 * |B|) (hBU : |B| ≤ 2 ^ 2026 * U)
    (bx : |x| ≤ 2 ^ 2090) (bq : |x * U| ≤ 2 ^ 2090 * |B|)
    (hS : 2 ^ 48 * |r * U| ≤ |x * U| + 2 ^ 50 * |B| + 2 ^ 51 * U) :
    |r| ≤ 2 ^ 2090 ∧ |r * U| ≤ 2 ^ 2090 * |B| := by
  have exU : |x * U| ≤ 2 ^ 2090 * U := by
    rw [abs_mul_pos_right _ hU]; exact mul_le_mul_of_nonneg_right bx hU.le
  have h1 : |r * U| ≤ 2 ^ 2043 * U := by omega
  constructor
  · have : |r| * U ≤ 2 ^ 2090 * U := by rw [← abs_mul_pos_right _ hU]; omega
    exact le_of_mul_le_mul_right this hU
  · omega

/-- the tail of both long divisions: from a valid first remainder `r1` (high word at most `2^-48 |A|`) on -/
theorem div_tail {q1 : F64} {r1 y : TwoFloat} {A : Int} (hy : y.Valid)
    (R : DivRange A y.hi.toInt)
    (vq1 : IsVal q1 (rdI (A * (unit : Int)) y.hi.toInt)) (hwq1 : q1.WF)
    (rv1 : r1.Valid) (hw1 : r1.WF)
    (hS1 : 2 ^ 48 * |r1.hi.toInt * (unit : Int)|
      ≤ |A * (unit : Int)| + 2 ^ 50 * |y.hi.toInt| + 2 ^ 51 * (unit : Int)) :
    (arithmetic.renorm3 q1 (F64.div r1.hi y.hi) (F64.div (divStep r1 y).hi y.hi)).IsV
      (rnI (q1.toInt + (F64.div r1.hi y.hi).toInt))
      (q1.toInt + (F64.div r1.hi y.hi).toInt - rnI (q1.toInt + (F64.div r1.hi y.hi).toInt)) := by
  have hUi := unit_pos_int
  have hy0 := R.B_ne
  obtain ⟨hUB, hBU, hA2⟩ := R.aux
  obtain ⟨b1, b1'⟩ := next_bounds_int hUi hUB hBU R.A_hi R.Q_hi hS1
  -- second step
  have s2 := step_core (y := y) (xh := r1.hi) (xl := r1.lo.toInt)
    (fun p => arithmetic.impl_Sub_rTwoFloat_for_rTwoFloat.sub r1 p) hy rv1.1 hy0
    (two_pow_mul_abs_le_of_half_ulp rv1.two_mul_abs_lo_le) b1 R.B_hi b1'
    (fun p hp hwp bp => sub_tt_val rv1 hp hw1 hwp (by omega) bp)
  obtain ⟨vq2, -, -, rv2, hS2, -⟩ := s2
  change (divStep r1 y).Valid at rv2
  change 2 ^ 48 * |(divStep r1 y).hi.toInt * (unit : Int)| ≤ _ at hS2
  obtain ⟨b2, b2'⟩ := next_bounds_int hUi hUB hBU b1 b1' hS2
  -- third digit
  obtain ⟨vq3, _⟩ := div_digit rv2.1 hy.1 hy0 b2'
  have hQ1 := rdI_err_gen (A * (unit : Int)) hy0
  have hQ2 := rdI_err_gen (r1.hi.toInt * (unit : Int)) hy0
  have hQ3 := rdI_err_gen ((divStep r1 y).hi.toInt * (unit : Int)) hy0
  obtain ⟨d12, d13⟩ := digits_int hUi hy0 R.Q_lo hA2 hS1 hS2 hQ1 hQ2 hQ3
  have hq1b : |rdI (A * (unit : Int)) y.hi.toInt| ≤ 2 ^ 2090 := by
    rw [abs_rdI _ hy0]
    have h' : (A * (unit : Int)).natAbs ≤ 2 ^ 2090 * y.hi.toInt.natAbs := by
      have : (((A * (unit : Int)).natAbs : Nat) : Int) ≤ ((2 ^ 2090 * y.hi.toInt.natAbs : Nat) : Int) := by
        rw [Int.natCast_natAbs]; push_cast; exact R.Q_hi
      exact_mod_cast this
    have hr := roundQ_le_of_le (Int.natAbs_pos.2 hy0) (rep_two_pow 2090) h'
    exact_mod_cast hr
  have hm := two_pow_le_maxFin_int (k := 2092) (by norm_num)
  exact renorm3_drop vq1.1 vq2.1 vq3.1 hwq1 (div_WF _ _)
    (by rw [vq1.2, vq2.2]; exact d12) (by rw [vq1.2, vq3.2]; exact d13)
    (by rw [vq1.2]; omega)

end F64

namespace F64

/-! ## 10. accuracy of the long division: relative error at most `16 u² = 2^-102` -/

theorem abs_sub_le_add (a b : Int) : |a - b| ≤ |a| + |b| := by
  have := abs_add_le a (-b)
  rwa [abs_neg, ← Int.sub_eq_add_neg] at this

/-- **error analysis of the two effective steps of the long division.**  `A + Al` the numerator, `q1`, `q2` the
two quotient digits that reach the result, `N_i = q_i·B`, `L_i = q_i·Bl` (so that `q_i·b = N_i + L_i`), `P1` the
computed product `b·q1` with words `P1h`, `P1l`, `R1` the computed remainder `a − P1` with words `R1h`, `R1l`.
Error budget in units of `u²|a|`: `9` (rounding of `q2`, the low word of `r1`, `b.lo·q2`; each `≈ 3u·3u`) `+ 3`
(DWTimesFP3) `+ 2` (the rounding of `c = sl ⊕ th` in the subtraction) `= 14 < 16`. -/
theorem div_acc_int {A Al B q1 q2 N1 L1 N2 L2 P1 P1h P1l R1 R1h R1l U : Int} (hU : 0 < U)
    (hAl : 2 ^ 53 * |Al| ≤ |A|)
    (hN1 : N1 = q1 * B) (hN2 : N2 = q2 * B)
    (hq1 : 2 ^ 53 * |q1 * B - A * U| ≤ 2 ^ 52 * |B| + |A * U|)
    (hL1 : 2 ^ 53 * |L1| ≤ |N1|)
    (hP1 : 2 ^ 159 * |P1 * U - (N1 + L1)| ≤ (3 * 2 ^ 53 + 1) * |N1| + 2 ^ 160 * U)
    (hP1s : P1 = P1h + P1l) (hP1l : 2 ^ 53 * |P1l| ≤ |P1h|)
    (hR1 : 2 ^ 106 * |R1 - (A + Al - P1)| ≤ 3 * |A - P1h| + (2 ^ 53 + 4) * |Al - P1l|)
    (hR1s : R1 = R1h + R1l) (hR1l : 2 ^ 53 * |R1l| ≤ |R1h|)
    (hq2 : 2 ^ 53 * |q2 * B - R1h * U| ≤ 2 ^ 52 * |B| + |R1h * U|)
    (hL2 : 2 ^ 53 * |L2| ≤ |N2|)
    (hB : 2 ^ 110 * |B| ≤ |A * U|) (hA : 2 ^ 110 * U ≤ |A * U|) :
    2 ^ 102 * |(A + Al) * U - (N1 + L1 + (N2 + L2))| ≤ |(A + Al) * U| := by
  have hAl' : 2 ^ 53 * |Al * U| ≤ |A * U| := by
    have := mul_le_mul_of_nonneg_right hAl hU.le
    rw [abs_mul_pos_right _ hU, abs_mul_pos_right _ hU]; linarith
  have hP1l' : 2 ^ 53 * |P1l * U| ≤ |P1h * U| := by
    have := mul_le_mul_of_nonneg_right hP1l hU.le
    rw [abs_mul_pos_right _ hU, abs_mul_pos_right _ hU]; linarith
  have hR1l' : 2 ^ 53 * |R1l * U| ≤ |R1h * U| := by
    have := mul_le_mul_of_nonneg_right hR1l hU.le
    rw [abs_mul_pos_right _ hU, abs_mul_pos_right _ hU]; linarith
  have hR1' : 2 ^ 106 * |R1 * U - (A * U + Al * U - P1 * U)|
      ≤ 3 * |A * U - P1h * U| + (2 ^ 53 + 4) * |Al * U - P1l * U| := by
    have := mul_le_mul_of_nonneg_right hR1 hU.le
    have e1 : R1 * U - (A * U + Al * U - P1 * U) = (R1 - (A + Al - P1)) * U := by ring
    have e2 : A * U - P1h * U = (A - P1h) * U := by ring
    have e3 : Al * U - P1l * U = (Al - P1l) * U := by ring
    rw [e1, e2, e3, abs_mul_pos_right _ hU, abs_mul_pos_right _ hU, abs_mul_pos_right _ hU]; linarith
  -- triangle inequalities
  have tG : |(A + Al) * U - (N1 + L1 + (N2 + L2))|
      ≤ |q2 * B - R1h * U| + |R1l * U| + |L2| + |P1 * U - (N1 + L1)|
        + |R1 * U - (A * U + Al * U - P1 * U)| := by
    have e : (A + Al) * U - (N1 + L1 + (N2 + L2))
        = -(q2 * B - R1h * U) + R1l * U + -L2 + (P1 * U - (N1 + L1))
          + -(R1 * U - (A * U + Al * U - P1 * U)) := by
      rw [hN2, hR1s]; ring
    rw [e]
    refine le_trans (abs_add_le _ _) ?_
    rw [abs_neg]
    refine add_le_add_left (le_trans (abs_add_le _ _) ?_) _
    refine add_le_add_left (le_trans (abs_add_le _ _) ?_) _
    rw [abs_neg]
    refine add_le_add_left (le_trans (abs_add_le _ _) ?_) _
    rw [abs_neg]
  have tN2 : |N2| ≤ |R1h * U| + |q2 * B - R1h * U| := by
    rw [hN2]; exact abs_le_add_abs_sub _ _
  have tR1h : |R1h * U| ≤ |R1 * U| + |R1l * U| := by
    have e : R1h * U = R1 * U - R1l * U := by rw [hR1s]; ring
    rw [e]; exact abs_sub_le_add _ _
  have tR1 := abs_le_add_abs_sub (R1 * U) (A * U + Al * U - P1 * U)
  have tX : |A * U + Al * U - P1 * U|
      ≤ |q1 * B - A * U| + |Al * U| + |L1| + |P1 * U - (N1 + L1)| := by
    have e : A * U + Al * U - P1 * U = -(q1 * B - A * U) + Al * U + -L1 + -(P1 * U - (N1 + L1)) := by
      rw [hN1]; ring
    rw [e]
    refine le_trans (abs_add_le _ _) ?_
    rw [abs_neg]
    refine add_le_add_left (le_trans (abs_add_le _ _) ?_) _
    rw [abs_neg]
    refine add_le_add_left (le_trans (abs_add_le _ _) ?_) _
    rw [abs_neg]
  have tN1 : |N1| ≤ |A * U| + |q1 * B - A * U| := by
    rw [hN1]; exact abs_le_add_abs_sub _ _
  have tS : |A * U - P1h * U| ≤ |A * U + Al * U - P1 * U| + |Al * U| + |P1l * U| := by
    have e : A * U - P1h * U = (A * U + Al * U - P1 * U) + -(Al * U) + P1l * U := by rw [hP1s]; ring
    rw [e]
    refine le_trans (abs_add_le _ _) ?_
    refine add_le_add_left (le_trans (abs_add_le _ _) ?_) _
    rw [abs_neg]
  have tP1h : |P1h * U| ≤ |P1 * U| + |P1l * U| := by
    have e : P1h * U = P1 * U - P1l * U := by rw [hP1s]; ring
    rw [e]; exact abs_sub_le_add _ _
  have tP1 : |P1 * U| ≤ |N1| + |L1| + |P1 * U - (N1 + L1)| := by
    have := abs_le_add_abs_sub (P1 * U) (N1 + L1)
    have := abs_add_le N1 L1
    omega
  have tT := abs_sub_le_add (Al * U) (P1l * U)
  have tD : |A * U| ≤ |(A + Al) * U| + |Al * U| := by
    have e : A * U = (A + Al) * U - Al * U := by ring
    conv_lhs => rw [e]
    exact abs_sub_le_add _ _
  have n1 := abs_nonneg B
  have n2 := abs_nonneg (Al * U)
  have n3 := abs_nonneg (P1l * U)
  have n4 := abs_nonneg (R1l * U)
  have n5 := abs_nonneg L1
  have n6 := abs_nonneg L2
  have n7 := abs_nonneg (q1 * B - A * U)
  have n8 := abs_nonneg (q2 * B - R1h * U)
  have n9 := abs_nonneg (P1 * U - (N1 + L1))
  have n10 := abs_nonneg (R1 * U - (A * U + Al * U - P1 * U))
  generalize |(A + Al) * U - (N1 + L1 + (N2 + L2))| = g at *
  generalize |(A + Al) * U| = x at *
  generalize |q2 * B - R1h * U| = d2 at *
  generalize |q1 * B - A * U| = d1 at *
  generalize |R1l * U| = r1l at *
  generalize |R1h * U| = r1h at *
  generalize |R1 * U| = r1 at *
  generalize |L1| = l1 at *
  generalize |L2| = l2 at *
  generalize |N1| = n1' at *
  generalize |N2| = n2' at *
  generalize |P1 * U - (N1 + L1)| = e1 at *
  generalize |R1 * U - (A * U + Al * U - P1 * U)| = e2 at *
  generalize |A * U + Al * U - P1 * U| = xp at *
  generalize |A * U - P1h * U| = s at *
  generalize |Al * U - P1l * U| = t at *
  generalize |Al * U| = al at *
  generalize |P1l * U| = p1l at *
  generalize |P1h * U| = p1h at *
  generalize |P1 * U| = p1 at *
  generalize |A * U| = a at *
  generalize |B| = b at *
  omega

end F64

namespace F64

open TwoFloat

/-- accuracy of `q1 + q2` for both long divisions (`sub p = r − p` resp. `f − p` as in `step_core`) -/
theorem div_acc_core {y : TwoFloat} {xh : F64} {xl : Int} (sub : TwoFloat → TwoFloat)
    (hy : y.Valid) (fx : xh.is_finite = true)
    (hxl : 2 ^ 53 * |xl| ≤ |xh.toInt|)
    (R : DivRange xh.toInt y.hi.toInt)
    (hB : 2 ^ 110 * |y.hi.toInt| ≤ |xh.toInt * (unit : Int)|) (hA : 2 ^ 110 ≤ |xh.toInt|)
    (hsub : ∀ p : TwoFloat, p.Valid → p.WF → |p.hi.toInt| ≤ 2 ^ 2094 →
      (sub p).Valid ∧ 2 ^ 103 * |(sub p).V - (xh.toInt + xl - p.V)| ≤ |xh.toInt| + |p.hi.toInt| ∧
      2 ^ 106 * |(sub p).V - (xh.toInt + xl - p.V)|
        ≤ 3 * |xh.toInt - p.hi.toInt| + (2 ^ 53 + 4) * |xl - p.lo.toInt|) :
    2 ^ 102 * |(xh.toInt + xl) * (unit : Int)
        - ((F64.div xh y.hi).toInt +
            (F64.div (sub (arithmetic.impl_Mul_rf64_for_rTwoFloat.mul y (F64.div xh y.hi))).hi y.hi).toInt) * y.V|
      ≤ |(xh.toInt + xl) * (unit : Int)| := by
  have hUi := unit_pos_int
  have hy0 := R.B_ne
  obtain ⟨hUB, hBU, -⟩ := R.aux
  obtain ⟨vq1, pv1, hPt1, rv1, hS1, hRt1⟩ := step_core sub hy fx hy0 hxl R.A_hi R.B_hi R.Q_hi hsub
  obtain ⟨-, b1'⟩ := next_bounds_int hUi hUB hBU R.A_hi R.Q_hi hS1
  obtain ⟨vq2, -⟩ := div_digit rv1.1 hy.1 hy0 b1'
  have hq1 := rdI_err_gen (xh.toInt * (unit : Int)) hy0
  rw [← vq1.2] at hq1
  have hq2 := rdI_err_gen
    ((sub (arithmetic.impl_Mul_rf64_for_rTwoFloat.mul y (F64.div xh y.hi))).hi.toInt * (unit : Int)) hy0
  rw [← vq2.2] at hq2
  have hA' : 2 ^ 110 * (unit : Int) ≤ |xh.toInt * (unit : Int)| := by
    rw [abs_mul_pos_right _ hUi]; exact mul_le_mul_of_nonneg_right hA hUi.le
  have key := div_acc_int (A := xh.toInt) (Al := xl) (B := y.hi.toInt)
    (q1 := (F64.div xh y.hi).toInt)
    (q2 := (F64.div (sub (arithmetic.impl_Mul_rf64_for_rTwoFloat.mul y (F64.div xh y.hi))).hi y.hi).toInt)
    (N1 := y.hi.toInt * (F64.div xh y.hi).toInt) (L1 := y.lo.toInt * (F64.div xh y.hi).toInt)
    (N2 := y.hi.toInt *
      (F64.div (sub (arithmetic.impl_Mul_rf64_for_rTwoFloat.mul y (F64.div xh y.hi))).hi y.hi).toInt)
    (L2 := y.lo.toInt *
      (F64.div (sub (arithmetic.impl_Mul_rf64_for_rTwoFloat.mul y (F64.div xh y.hi))).hi y.hi).toInt)
    (P1 := (arithmetic.impl_Mul_rf64_for_rTwoFloat.mul y (F64.div xh y.hi)).V)
    (P1h := (arithmetic.impl_Mul_rf64_for_rTwoFloat.mul y (F64.div xh y.hi)).hi.toInt)
    (P1l := (arithmetic.impl_Mul_rf64_for_rTwoFloat.mul y (F64.div xh y.hi)).lo.toInt)
    (R1 := (sub (arithmetic.impl_Mul_rf64_for_rTwoFloat.mul y (F64.div xh y.hi))).V)
    (R1h := (sub (arithmetic.impl_Mul_rf64_for_rTwoFloat.mul y (F64.div xh y.hi))).hi.toInt)
    (R1l := (sub (arithmetic.impl_Mul_rf64_for_rTwoFloat.mul y (F64.div xh y.hi))).lo.toInt)
    hUi hxl (mul_comm _ _) (mul_comm _ _) hq1 (lo_mul_le hy.two_mul_abs_lo_le) hPt1 rfl
    (two_pow_mul_abs_le_of_half_ulp pv1.two_mul_abs_lo_le) hRt1 rfl
    (two_pow_mul_abs_le_of_half_ulp rv1.two_mul_abs_lo_le) hq2 (lo_mul_le hy.two_mul_abs_lo_le) hB hA'
  have e : ((F64.div xh y.hi).toInt +
        (F64.div (sub (arithmetic.impl_Mul_rf64_for_rTwoFloat.mul y (F64.div xh y.hi))).hi y.hi).toInt) * y.V
      = y.hi.toInt * (F64.div xh y.hi).toInt + y.lo.toInt * (F64.div xh y.hi).toInt +
        (y.hi.toInt *
          (F64.div (sub (arithmetic.impl_Mul_rf64_for_rTwoFloat.mul y (F64.div xh y.hi))).hi y.hi).toInt +
        y.lo.toInt *
          (F64.div (sub (arithmetic.impl_Mul_rf64_for_rTwoFloat.mul y (F64.div xh y.hi))).hi y.hi).toInt) := by
    unfold TwoFloat.V; ring
  rw [e]; exact key

end F64

namespace TwoFloat

open F64

/-- **`TwoFloat / TwoFloat`, word level.**  For valid operands in `DivRange` the long division returns exactly the
normalised pair of `q1 + q2` (`q1 = a.hi ⊘ b.hi`, `q2 = r1.hi ⊘ b.hi`); the third quotient word is dropped by the
crate's `renorm3`. -/
theorem div_tt_isV_of_range {a b : TwoFloat} (ha : a.Valid) (hwa : a.WF) (hb : b.Valid)
    (R : DivRange a.hi.toInt b.hi.toInt) :
    (arithmetic.impl_Div_rTwoFloat_for_rTwoFloat.div a b).IsV
      (rnI ((F64.div a.hi b.hi).toInt + (F64.div (divStep a b).hi b.hi).toInt))
      ((F64.div a.hi b.hi).toInt + (F64.div (divStep a b).hi b.hi).toInt
        - rnI ((F64.div a.hi b.hi).toInt + (F64.div (divStep a b).hi b.hi).toInt)) := by
  rw [div_tt_eq]
  have hm := two_pow_le_maxFin_int (k := 2094) (by norm_num)
  have A_hi := R.A_hi
  obtain ⟨vq1, -, -, rv1, hS1, -⟩ := step_core (y := b) (xh := a.hi) (xl := a.lo.toInt)
    (fun p => arithmetic.impl_Sub_rTwoFloat_for_rTwoFloat.sub a p) hb ha.1 R.B_ne
    (two_pow_mul_abs_le_of_half_ulp ha.two_mul_abs_lo_le) R.A_hi R.B_hi R.Q_hi
    (fun p hp hwp bp => sub_tt_val ha hp hwa hwp (by omega) bp)
  exact div_tail hb R vq1 (div_WF _ _) rv1 (divStep_WF _ _) hS1

/-- **`f64 / TwoFloat`, word level** -/
theorem div_ft_isV_of_range {f : F64} {b : TwoFloat} (hf : f.is_finite = true) (hwf : f.WF) (hb : b.Valid)
    (R : DivRange f.toInt b.hi.toInt) :
    (arithmetic.impl_Div_rTwoFloat_for_rf64.div f b).IsV
      (rnI ((F64.div f b.hi).toInt + (F64.div (arithmetic.impl_Sub_rTwoFloat_for_rf64.sub f
          (arithmetic.impl_Mul_rf64_for_rTwoFloat.mul b (F64.div f b.hi))).hi b.hi).toInt))
      ((F64.div f b.hi).toInt + (F64.div (arithmetic.impl_Sub_rTwoFloat_for_rf64.sub f
          (arithmetic.impl_Mul_rf64_for_rTwoFloat.mul b (F64.div f b.hi))).hi b.hi).toInt
        - rnI ((F64.div f b.hi).toInt + (F64.div (arithmetic.impl_Sub_rTwoFloat_for_rf64.sub f
          (arithmetic.impl_Mul_rf64_for_rTwoFloat.mul b (F64.div f b.hi))).hi b.hi).toInt)) := by
  rw [div_ft_eq]
  have A_hi := R.A_hi
  obtain ⟨vq1, -, -, rv1, hS1, -⟩ := step_core (y := b) (xh := f) (xl := 0)
    (fun p => arithmetic.impl_Sub_rTwoFloat_for_rf64.sub f p) hb hf R.B_ne
    (by rw [abs_zero, mul_zero]; exact abs_nonneg _) R.A_hi R.B_hi R.Q_hi
    (fun p hp hwp bp => by
      have := sub_ft_val hf hwf hp hwp (by omega) bp
      rwa [add_zero])
  exact div_tail hb R vq1 (div_WF _ _) rv1 (sub_ft_WF _ _) hS1

/-- **`TwoFloat / TwoFloat` returns a valid pair** for valid operands in `DivRange` -/
theorem div_tt_valid_of_range {a b : TwoFloat} (ha : a.Valid) (hwa : a.WF) (hb : b.Valid)
    (R : DivRange a.hi.toInt b.hi.toInt) :
    (arithmetic.impl_Div_rTwoFloat_for_rTwoFloat.div a b).Valid ∧
    (arithmetic.impl_Div_rTwoFloat_for_rTwoFloat.div a b).WF :=
  ⟨(div_tt_isV_of_range ha hwa hb R).valid (div_tt_WF a b) (by rw [add_sub_cancel]), div_tt_WF a b⟩

/-- **`f64 / TwoFloat` returns a valid pair** for a finite numerator and a valid divisor in `DivRange` -/
theorem div_ft_valid_of_range {f : F64} {b : TwoFloat} (hf : f.is_finite = true) (hwf : f.WF) (hb : b.Valid)
    (R : DivRange f.toInt b.hi.toInt) :
    (arithmetic.impl_Div_rTwoFloat_for_rf64.div f b).Valid ∧
    (arithmetic.impl_Div_rTwoFloat_for_rf64.div f b).WF :=
  ⟨(div_ft_isV_of_range hf hwf hb R).valid (div_ft_WF f b) (by rw [add_sub_cancel]), div_ft_WF f b⟩

/-- **accuracy of `TwoFloat / TwoFloat`: relative error at most `16 u² = 2^-102`**, cross-multiplied
(`q = a / b` computed, `|a − q·b| ≤ 2^-102 |a|`; values in units of `2^-1074`, hence the factor `unit`).
Range: `DivRange` and `|a.hi| ≥ 2^-964`, `|a.hi / b.hi| ≥ 2^-964` (so that the low word of the quotient is not
rounded in the subnormal range). -/
theorem div_tt_acc {a b : TwoFloat} (ha : a.Valid) (hwa : a.WF) (hb : b.Valid)
    (R : DivRange a.hi.toInt b.hi.toInt)
    (hB : 2 ^ 110 * |b.hi.toInt| ≤ |a.hi.toInt * (unit : Int)|) (hA : 2 ^ 110 ≤ |a.hi.toInt|) :
    2 ^ 102 * |a.V * (unit : Int) - (arithmetic.impl_Div_rTwoFloat_for_rTwoFloat.div a b).V * b.V|
      ≤ |a.V * (unit : Int)| := by
  have hV : (arithmetic.impl_Div_rTwoFloat_for_rTwoFloat.div a b).V
      = (F64.div a.hi b.hi).toInt + (F64.div (divStep a b).hi b.hi).toInt := by
    rw [(div_tt_isV_of_range ha hwa hb R).V_eq]; exact add_sub_cancel _ _
  have A_hi := R.A_hi
  rw [hV]
  exact div_acc_core (y := b) (xh := a.hi) (xl := a.lo.toInt)
    (fun p => arithmetic.impl_Sub_rTwoFloat_for_rTwoFloat.sub a p) hb ha.1
    (two_pow_mul_abs_le_of_half_ulp ha.two_mul_abs_lo_le) R hB hA
    (fun p hp hwp bp => sub_tt_val ha hp hwa hwp (by omega) bp)

/-- **accuracy of `f64 / TwoFloat` (and `recip`): relative error at most `16 u² = 2^-102`** -/
theorem div_ft_acc {f : F64} {b : TwoFloat} (hf : f.is_finite = true) (hwf : f.WF) (hb : b.Valid)
    (R : DivRange f.toInt b.hi.toInt)
    (hB : 2 ^ 110 * |b.hi.toInt| ≤ |f.toInt * (unit : Int)|) (hA : 2 ^ 110 ≤ |f.toInt|) :
    2 ^ 102 * |f.toInt * (unit : Int) - (arithmetic.impl_Div_rTwoFloat_for_rf64.div f b).V * b.V|
      ≤ |f.toInt * (unit : Int)| := by
  have hV : (arithmetic.impl_Div_rTwoFloat_for_rf64.div f b).V
      = (F64.div f b.hi).toInt + (F64.div (arithmetic.impl_Sub_rTwoFloat_for_rf64.sub f
          (arithmetic.impl_Mul_rf64_for_rTwoFloat.mul b (F64.div f b.hi))).hi b.hi).toInt := by
    rw [(div_ft_isV_of_range hf hwf hb R).V_eq]; exact add_sub_cancel _ _
  have A_hi := R.A_hi
  rw [hV]
  have key := div_acc_core (y := b) (xh := f) (xl := 0)
    (fun p => arithmetic.impl_Sub_rTwoFloat_for_rf64.sub f p) hb hf
    (by rw [abs_zero, mul_zero]; exact abs_nonneg _) R hB hA
    (fun p hp hwp bp => by
      have := sub_ft_val hf hwf hp hwp (by omega) bp
      rwa [add_zero])
  rwa [add_zero] at key

end TwoFloat

/-! ## 11. `TwoFloat / f64` (DWDivFP3): relative error at most `(4 + 1/4) u²` (partial: the property claims `3 u²`) -/

namespace F64

open TwoFloat

/-- error analysis of DWDivFP3 on scaled integers, from the exactness of the residual `xh − Q` (`T·B = Q·U`):
`d = RN(xh − Q + xl)`, `tl = RN(d·U / B)`; relative rounding errors only (no binade case analysis), which gives
`4u²(1 + O(u))` -/
theorem divtf_acc_int {xh xl Q T tl d B U : Int} (hU : 0 < U) (hTB : T * B = Q * U)
    (hdt : 2 ^ 53 * |(xh - Q) * U| ≤ |xh * U|) (hxl : 2 ^ 53 * |xl| ≤ |xh|)
    (hd : 2 ^ 53 * |d - (xh - Q + xl)| ≤ |xh - Q + xl|)
    (htl : 2 ^ 53 * |tl * B - d * U| ≤ 2 ^ 52 * |B| + |d * U|)
    (hq : 2 ^ 120 * |B| ≤ |xh * U|) :
    2 ^ 108 * |(T + tl) * B - (xh + xl) * U| ≤ 17 * |(xh + xl) * U| := by
  have hxl' : 2 ^ 53 * |xl * U| ≤ |xh * U| := by
    have := mul_le_mul_of_nonneg_right hxl hU.le
    rw [abs_mul_pos_right _ hU, abs_mul_pos_right _ hU]; linarith
  have hd' : 2 ^ 53 * |d * U - (xh - Q + xl) * U| ≤ |(xh - Q + xl) * U| := by
    have := mul_le_mul_of_nonneg_right hd hU.le
    have e : d * U - (xh - Q + xl) * U = (d - (xh - Q + xl)) * U := by ring
    rw [e, abs_mul_pos_right _ hU, abs_mul_pos_right _ hU]; linarith
  have tG : |(T + tl) * B - (xh + xl) * U| ≤ |tl * B - d * U| + |d * U - (xh - Q + xl) * U| := by
    have e : (T + tl) * B - (xh + xl) * U = (tl * B - d * U) + (d * U - (xh - Q + xl) * U) := by
      linarith [hTB]
    rw [e]; exact abs_add_le _ _
  have tS : |(xh - Q + xl) * U| ≤ |(xh - Q) * U| + |xl * U| := by
    have e : (xh - Q + xl) * U = (xh - Q) * U + xl * U := by ring
    rw [e]; exact abs_add_le _ _
  have tD := abs_le_add_abs_sub (d * U) ((xh - Q + xl) * U)
  have tX : |xh * U| ≤ |(xh + xl) * U| + |xl * U| := by
    have e : xh * U = (xh + xl) * U - xl * U := by ring
    conv_lhs => rw [e]
    exact abs_sub_le_add _ _
  have n1 := abs_nonneg B
  have n2 := abs_nonneg (xl * U)
  have n3 := abs_nonneg ((xh - Q) * U)
  have n4 := abs_nonneg (tl * B - d * U)
  have n5 := abs_nonneg (d * U - (xh - Q + xl) * U)
  generalize |(T + tl) * B - (xh + xl) * U| = g at *
  generalize |tl * B - d * U| = e1 at *
  generalize |d * U - (xh - Q + xl) * U| = e2 at *
  generalize |(xh - Q + xl) * U| = s at *
  generalize |(xh - Q) * U| = dt at *
  generalize |xl * U| = l at *
  generalize |d * U| = dd at *
  generalize |xh * U| = a at *
  generalize |(xh + xl) * U| = x at *
  generalize |B| = b at *
  omega

/-- **`TwoFloat / f64` (DWDivFP3), value level, PARTIAL accuracy.**  Hypotheses as for `new_div_spec` (divisor normal,
`|x.hi| ≥ 2^-969`, no overflow) with `|x.hi / c| ≥ 2^-954`: the result is a valid pair with
`|x − q·c| ≤ (17/4)·2^-106 |x|`.

OPEN (full statement of property C05): the constant `3` instead of `17/4`.  The `3u²` of Joldes–Muller–Popescu
(Thm 4.1) needs the case analysis on the binades of `x.hi − th·c + x.lo` and of `tl` (the two half-ulp errors cannot
both be maximal); the analysis here only uses the relative error `u` of each of the two roundings, which gives
`4u²(1 + O(u))`. -/
theorem div_tf_val_partial {x : TwoFloat} {c : F64} (hx : x.Valid) (hwx : x.WF) (hc : c.is_finite = true)
    (hwc : c.WF) (hB52 : 2 ^ 52 ≤ c.toInt.natAbs) (hA105 : 2 ^ 105 ≤ x.hi.toInt.natAbs)
    (hA2 : 2 * |x.hi.toInt| ≤ (maxFin : Int))
    (hq : 2 ^ 120 * c.toInt.natAbs ≤ x.hi.toInt.natAbs * unit)
    (hov : 2 * roundQ (x.hi.toInt.natAbs * unit) c.toInt.natAbs ≤ maxFin) :
    (arithmetic.impl_Div_rf64_for_rTwoFloat.div x c).Valid ∧
    2 ^ 108 * |(arithmetic.impl_Div_rf64_for_rTwoFloat.div x c).V * c.toInt - x.V * (unit : Int)|
      ≤ 17 * |x.V * (unit : Int)| := by
  have hUi := unit_pos_int
  have hq52 : 2 ^ 52 * c.toInt.natAbs ≤ x.hi.toInt.natAbs * unit :=
    Nat.le_trans (Nat.mul_le_mul_right _ (by norm_num)) hq
  obtain ⟨Q, hQ, r1, r2, r3, m1, m2, m3, m4, hres⟩ :=
    div_residual_int' unit_eq hwx.1.repI hwc.repI hB52 hA105 hq52
  have hB0 : c.toInt ≠ 0 := by
    intro h; rw [h] at hB52; simp at hB52
  have hbpos : 0 < c.toInt.natAbs := Int.natAbs_pos.2 hB0
  have hAmax := hwx.1.abs_toInt_le
  have hTabs := abs_rdI (x.hi.toInt * (unit : Int)) hB0
  rw [natAbs_mul_natCast] at hTabs
  -- th
  have hth : IsVal (F64.div x.hi c) (rdI (x.hi.toInt * (unit : Int)) c.toInt) :=
    div_spec hx.1 hc hB0 (by rw [natAbs_mul_natCast]; omega)
  -- 2Prod
  have hQmax : rn53 Q.natAbs ≤ maxFin := rn53_natAbs_le_maxFin (by omega)
  have hmul := new_mul_words_of (a := F64.div x.hi c) (b := c) hth.1 hc (Q := Q)
    (by rw [hth.2]; exact hQ) hQmax r1
  have hdh := (IsVal.of_finite hx.1).sub_exact hmul.1 r2 (by omega)
  have e1 : x.hi.toInt - rnI Q - (Q - rnI Q) = x.hi.toInt - Q := by ring
  have hdt := hdh.sub_exact hmul.2 (by rw [e1]; exact r3) (by rw [e1]; omega)
  rw [e1] at hdt
  -- the residual is at most `u |xh|`
  have hexp := roundQ_exp_le hbpos hq52
  have hdtb : 2 ^ 53 * |(x.hi.toInt - Q) * (unit : Int)| ≤ |x.hi.toInt * (unit : Int)| := by
    rw [abs_mul_pos_right _ hUi, abs_mul_pos_right _ hUi]
    have h1 : (2 : Int) ^ 52 * (|c.toInt| * 2 ^ (Nat.log2 (x.hi.toInt.natAbs * unit / c.toInt.natAbs) - 52))
        ≤ |x.hi.toInt| * (unit : Int) := by
      rw [← Int.natCast_natAbs x.hi.toInt, ← Int.natCast_natAbs c.toInt]; exact_mod_cast hexp
    generalize |c.toInt| * (2 : Int) ^ (Nat.log2 (x.hi.toInt.natAbs * unit / c.toInt.natAbs) - 52) = E at *
    omega
  have hxl := two_pow_mul_abs_le_of_half_ulp hx.two_mul_abs_lo_le
  have hdtb' : 2 ^ 53 * |x.hi.toInt - Q| ≤ |x.hi.toInt| := by
    rw [abs_mul_pos_right _ hUi, abs_mul_pos_right _ hUi] at hdtb
    have : (2 ^ 53 * |x.hi.toInt - Q|) * (unit : Int) ≤ |x.hi.toInt| * (unit : Int) := by linarith
    exact le_of_mul_le_mul_right this hUi
  have n0 := abs_nonneg x.hi.toInt
  have hsle : |x.hi.toInt - Q + x.lo.toInt| ≤ |x.hi.toInt| := by
    have := abs_add_le (x.hi.toInt - Q) x.lo.toInt
    omega
  -- d
  have hd := hdt.add (IsVal.of_finite hx.2.1) (by omega)
  have hdle : |rnI (x.hi.toInt - Q + x.lo.toInt)| ≤ |x.hi.toInt| := abs_rnI_le hwx.1.repI hsle
  -- tl
  have hmono : roundQ ((rnI (x.hi.toInt - Q + x.lo.toInt)).natAbs * unit) c.toInt.natAbs
      ≤ roundQ (x.hi.toInt.natAbs * unit) c.toInt.natAbs :=
    roundQ_mono _ hbpos (Nat.mul_le_mul_right _ (natAbs_le_of_abs_le (by rw [Int.natCast_natAbs]; exact hdle)))
  have htl : IsVal (F64.div (F64.add (F64.sub (F64.sub x.hi (TwoFloat.new_mul (F64.div x.hi c) c).hi)
      (TwoFloat.new_mul (F64.div x.hi c) c).lo) x.lo) c)
      (rdI (rnI (x.hi.toInt - Q + x.lo.toInt) * (unit : Int)) c.toInt) := by
    have := div_spec hd.1 hc hB0 (by rw [hd.2, natAbs_mul_natCast]; omega)
    rwa [hd.2] at this
  have htlabs := abs_rdI (rnI (x.hi.toInt - Q + x.lo.toInt) * (unit : Int)) hB0
  rw [natAbs_mul_natCast] at htlabs
  have hle : |rdI (rnI (x.hi.toInt - Q + x.lo.toInt) * (unit : Int)) c.toInt|
      ≤ |rdI (x.hi.toInt * (unit : Int)) c.toInt| := by
    rw [htlabs, hTabs]; exact Int.ofNat_le.2 hmono
  rw [div_tf_eq]
  have hf := fast_two_sum_words hth.1 htl.1 (div_WF _ _) (div_WF _ _)
    (by rw [hth.2, htl.2]; exact hle)
    (by
      rw [hth.2, htl.2]
      apply rn53_natAbs_le_maxFin
      have := abs_add_le (rdI (x.hi.toInt * (unit : Int)) c.toInt)
        (rdI (rnI (x.hi.toInt - Q + x.lo.toInt) * (unit : Int)) c.toInt)
      have h2 : |rdI (x.hi.toInt * (unit : Int)) c.toInt| * 2 ≤ (maxFin : Int) := by
        rw [hTabs]; exact_mod_cast (by omega : roundQ (x.hi.toInt.natAbs * unit) c.toInt.natAbs * 2 ≤ maxFin)
      omega)
  rw [hth.2, htl.2] at hf
  obtain ⟨-, pV, pValid, -⟩ := eft_package hf.1 hf.2 (fast_two_sum_WF _ _).1 (fast_two_sum_WF _ _).2
  refine ⟨pValid, ?_⟩
  rw [pV]
  have hq' : (2 : Int) ^ 120 * |c.toInt| ≤ |x.hi.toInt * (unit : Int)| := by
    rw [abs_mul_pos_right _ hUi, ← Int.natCast_natAbs x.hi.toInt, ← Int.natCast_natAbs c.toInt]
    exact_mod_cast hq
  exact divtf_acc_int hUi hQ hdtb hxl (rel_err_rnI _) (rdI_err_gen _ hB0) hq'

end F64
