/-
Lemmas.DivInv — the qd-style long division `TwoFloat / TwoFloat`, `f64 / TwoFloat` returns a VALID pair.

Route (all on scaled integers, `U = 2^1074`):
* crude but uniform (relative + absolute) error bounds of the rounded primitives: `rdI_err_gen`, `rqI_err_gen`;
* value-level specifications with crude error bounds of `TwoFloat * f64` (`mul_tf_val`), `TwoFloat - TwoFloat`
  (`sub_tt_val`), `f64 - TwoFloat` (`sub_ft_val`);
* one step of the long division shrinks the remainder by `2^-48` (`step_bound_int`, `div_step`);
* `renorm3 q1 q2 q3` AS WRITTEN in the crate (`fast_two_sum c u.hi`, small word first) drops a negligible `q3` and
  returns the normalised pair of `q1 + q2` (`renorm3_drop`).
-/
import TFV.Lemmas.Inv
import TFV.Lemmas.ArithExact

set_option exponentiation.threshold 3000

namespace F64

open TwoFloat

/-! ## 1. uniform error bounds of the rounded primitives -/

/-- relative `2^-53` plus absolute half-unit error bound of a rounded quotient, valid for ALL magnitudes -/
theorem roundQ_err_gen (p q : Nat) (hq : 0 < q) :
    2 ^ 53 * |((roundQ p q : Nat) : Int) * (q : Int) - (p : Int)| ≤ 2 ^ 52 * (q : Int) + (p : Int) := by
  have h := roundQ_abs_err p q hq
  by_cases he : Nat.log2 (p / q) - 52 = 0
  · rw [he, Nat.pow_zero, Nat.mul_one] at h
    have := Int.natCast_nonneg p
    omega
  · have h53 := roundQ_exp_pos hq he
    have hle := roundQ_exp_le hq (by omega : 2 ^ 52 * q ≤ p)
    have hle' : (2 : Int) ^ 52 * ((q * 2 ^ (Nat.log2 (p / q) - 52) : Nat) : Int) ≤ (p : Int) := by
      exact_mod_cast hle
    have := Int.natCast_nonneg q
    omega

theorem rdI_err_gen (p : Int) {q : Int} (hq : q ≠ 0) :
    2 ^ 53 * |rdI p q * q - p| ≤ 2 ^ 52 * |q| + |p| := by
  have h := roundQ_err_gen p.natAbs q.natAbs (Int.natAbs_pos.2 hq)
  rw [Int.natCast_natAbs, Int.natCast_natAbs] at h
  have e : rdI p q * q - p
      = Int.sign p * (((roundQ p.natAbs q.natAbs : Nat) : Int) * |q| - |p|) := by
    unfold rdI
    have h1 : Int.sign q * q = |q| := Int.sign_mul_self_eq_abs q
    have h2 : Int.sign p * |p| = p := Int.sign_mul_abs p
    calc Int.sign p * Int.sign q * ((roundQ p.natAbs q.natAbs : Nat) : Int) * q - p
        = Int.sign p * ((roundQ p.natAbs q.natAbs : Nat) : Int) * (Int.sign q * q)
            - Int.sign p * |p| := by rw [h2]; ring
      _ = _ := by rw [h1]; ring
  by_cases hp : p = 0
  · subst hp
    simp only [rdI_zero_left, Int.zero_mul, Int.sub_zero, abs_zero, Int.mul_zero]
    positivity
  · rw [e, abs_mul, Int.abs_sign_of_ne_zero hp, Int.one_mul]
    exact h

theorem rqI_err_gen (p : Int) {U : Nat} (hU : 0 < U) :
    2 ^ 53 * |rqI p U * (U : Int) - p| ≤ 2 ^ 52 * (U : Int) + |p| := by
  have h := roundQ_err_gen p.natAbs U hU
  rw [Int.natCast_natAbs] at h
  have e := natAbs_sub_rqI_mul p U
  rw [Int.natCast_natAbs, Int.natCast_natAbs] at e
  have e2 : rqI p U * (U : Int) - p = -(p + -(rqI p U) * (U : Int)) := by ring
  rw [e2, abs_neg, e]
  exact h

/-! ## 2. a negligible addend is absorbed -/

theorem rnI_add_small_pos {h c : Int} (hh : RepI h) (hpos : 0 < h) (hc : 2 ^ 55 * |c| ≤ h) :
    rnI (h + c) = h := by
  have hc0 := abs_nonneg c
  have hcl := neg_abs_le c
  have hcu := le_abs_self c
  have hn : 0 ≤ h + c := by omega
  rw [rnI_of_nonneg hn]
  have hx : Rep h.natAbs := hh
  have key : rn53 (h + c).natAbs = h.natAbs := by
    apply rn53_eq_of_abs_lt hx
    have hlt := lt_ulp_mul (h + c).natAbs
    have hlt' : (((h + c).natAbs : Nat) : Int)
        < 2 ^ 53 * ((2 ^ (Nat.log2 (h + c).natAbs - 52) : Nat) : Int) := by exact_mod_cast hlt
    have e1 : (((h + c).natAbs : Nat) : Int) = h + c := by omega
    have e2 : ((h.natAbs : Nat) : Int) = h := by omega
    rw [e1] at hlt' ⊢
    rw [e2]
    have e3 : h - (h + c) = -c := by ring
    rw [e3, abs_neg]
    have hp : (0 : Int) < ((2 ^ (Nat.log2 (h + c).natAbs - 52) : Nat) : Int) := by positivity
    generalize ((2 ^ (Nat.log2 (h + c).natAbs - 52) : Nat) : Int) = E at *
    omega
  rw [key]; omega

/-- `RN(h + c) = h` for a representable `h` and `|c| ≤ 2^-55 |h|` -/
theorem rnI_add_small {h c : Int} (hh : RepI h) (hc : 2 ^ 55 * |c| ≤ |h|) : rnI (h + c) = h := by
  rcases lt_trichotomy h 0 with hn | h0 | hp
  · have := rnI_add_small_pos (h := -h) (c := -c) hh.neg (by omega)
      (by rw [abs_neg]; rw [abs_of_neg hn] at hc; exact hc)
    rw [← neg_add, rnI_neg] at this
    omega
  · subst h0
    rw [abs_zero] at hc
    have : |c| = 0 := by have := abs_nonneg c; omega
    rw [abs_eq_zero.1 this]; simp
  · exact rnI_add_small_pos hh hp (by rwa [abs_of_pos hp] at hc)

/-! ## 3. `renorm3` as written drops a negligible third word -/

/-- **`renorm3 q1 q2 q3` with `|q2| ≤ |q1|/2` and `|q3| ≤ 2^-57 |q1|`.**  The crate calls `fast_two_sum c u.hi` with the
SMALL word first; for a negligible `c = q3` this returns `(u.hi, 0)`: `s = RN(c + u.hi) = u.hi`, `z = RN(s - c) = u.hi`,
`lo = u.hi - z = 0`.  Hence the result is the normalised pair of `q1 + q2` (the third quotient word is dropped). -/
theorem renorm3_drop {q1 q2 q3 : F64} (f1 : q1.is_finite = true) (f2 : q2.is_finite = true)
    (f3 : q3.is_finite = true) (w1 : q1.WF) (w2 : q2.WF)
    (h12 : 2 * |q2.toInt| ≤ |q1.toInt|) (h13 : 2 ^ 57 * |q3.toInt| ≤ |q1.toInt|)
    (hov : 4 * |q1.toInt| ≤ (maxFin : Int)) :
    (arithmetic.renorm3 q1 q2 q3).IsV (rnI (q1.toInt + q2.toInt))
      (q1.toInt + q2.toInt - rnI (q1.toInt + q2.toInt)) := by
  rw [renorm3_eq']
  have a0 := abs_nonneg q1.toInt
  have b0 := abs_nonneg q2.toInt
  have c0 := abs_nonneg q3.toInt
  have hsum : |q1.toInt + q2.toInt| ≤ |q1.toInt| + |q2.toInt| := abs_add_le _ _
  have hsum' : |q1.toInt| ≤ |q1.toInt + q2.toInt| + |q2.toInt| := by
    have := abs_add_le (q1.toInt + q2.toInt) (-q2.toInt)
    rwa [abs_neg, add_neg_cancel_right] at this
  have hrel := rel_err_rnI (q1.toInt + q2.toInt)
  have hh1 : |rnI (q1.toInt + q2.toInt)| ≤ |q1.toInt + q2.toInt| + |rnI (q1.toInt + q2.toInt) - (q1.toInt + q2.toInt)| := by
    have := abs_add_le (q1.toInt + q2.toInt) (rnI (q1.toInt + q2.toInt) - (q1.toInt + q2.toInt))
    rwa [add_sub_cancel] at this
  have hh2 : |q1.toInt + q2.toInt| ≤ |rnI (q1.toInt + q2.toInt)| + |rnI (q1.toInt + q2.toInt) - (q1.toInt + q2.toInt)| := by
    have := abs_add_le (rnI (q1.toInt + q2.toInt)) (-(rnI (q1.toInt + q2.toInt) - (q1.toInt + q2.toInt)))
    rw [abs_neg] at this
    have e : rnI (q1.toInt + q2.toInt) + -(rnI (q1.toInt + q2.toInt) - (q1.toInt + q2.toInt)) = q1.toInt + q2.toInt := by
      ring
    rwa [e] at this
  have hov1 : rn53 (q1.toInt + q2.toInt).natAbs ≤ maxFin := rn53_natAbs_le_maxFin (by omega)
  obtain ⟨uh, ul⟩ := fast_two_sum_words f1 f2 w1 w2 (by omega) hov1
  have wu := fast_two_sum_WF q1 q2
  have hrep : RepI (rnI (q1.toInt + q2.toInt)) := repI_rnI _
  generalize hH : rnI (q1.toInt + q2.toInt) = H at *
  have hsmall : 2 ^ 55 * |q3.toInt| ≤ |H| := by omega
  have hsmall' : 2 ^ 55 * |-q3.toInt| ≤ |H| := by rwa [abs_neg]
  have v3 := IsVal.of_finite f3
  -- `s = RN(c + u.hi) = u.hi`
  have hs : IsVal (F64.add q3 (arithmetic.fast_two_sum q1 q2).hi) H := by
    have := v3.add uh (by have := abs_add_le q3.toInt H; omega)
    rwa [add_comm, rnI_add_small hrep hsmall] at this
  -- `z = RN(s - c) = u.hi`
  have hz : IsVal (F64.sub (F64.add q3 (arithmetic.fast_two_sum q1 q2).hi) q3) H := by
    have := hs.sub v3 (by have := abs_add_le H (-q3.toInt); rw [abs_neg, ← Int.sub_eq_add_neg] at this; omega)
    rwa [Int.sub_eq_add_neg, rnI_add_small hrep hsmall'] at this
  -- `v.lo = u.hi - z = 0`
  have hvl : IsVal (F64.sub (arithmetic.fast_two_sum q1 q2).hi
      (F64.sub (F64.add q3 (arithmetic.fast_two_sum q1 q2).hi) q3)) 0 := by
    have := uh.sub_exact hz (by rw [sub_self]; exact repI_zero) (by rw [sub_self]; exact abs_zero_le_maxFin)
    rwa [sub_self] at this
  have hrl : RepI (q1.toInt + q2.toInt - H) := ul.repI wu.2
  have hw : IsVal (F64.add (arithmetic.fast_two_sum q1 q2).lo
      (arithmetic.fast_two_sum q3 (arithmetic.fast_two_sum q1 q2).hi).lo) (q1.toInt + q2.toInt - H) := by
    have := ul.add_exact hvl (by rw [add_zero]; exact hrl) (by rw [add_zero]; exact ul.abs_le wu.2)
    rwa [add_zero] at this
  exact f2s_isV_fixed hs hw (fast_two_sum_WF _ _).1 (add_WF _ _) (by rw [add_sub_cancel, hH])

/-! ## 4. `TwoFloat * f64` (DWTimesFP3): value with a crude error bound, all magnitudes below overflow -/

/-- error analysis of DWTimesFP3 on scaled integers: `N = yh·q`, `Lq = yl·q`, `ch = RN(N/U)`, `cl1 = RN((N - ch U)/U)`,
`cl3 = RN((Lq + cl1 U)/U)`; each rounding has relative error `2^-53` plus absolute error `1/2` (underflow) -/
theorem mul_err_int {N Lq ch cl1 cl3 U : Int} (hU : 0 < U) (h0 : 2 ^ 53 * |Lq| ≤ |N|)
    (h1 : 2 ^ 53 * |ch * U - N| ≤ 2 ^ 52 * U + |N|)
    (h2 : 2 ^ 53 * |cl1 * U - (N + -ch * U)| ≤ 2 ^ 52 * U + |N + -ch * U|)
    (h3 : 2 ^ 53 * |cl3 * U - (Lq + cl1 * U)| ≤ 2 ^ 52 * U + |Lq + cl1 * U|) :
    2 ^ 103 * |(ch + cl3) * U - (N + Lq)| ≤ 2 ^ 104 * U + |N| ∧
    2 ^ 52 * |N + -ch * U| ≤ 2 ^ 52 * U + |N| ∧
    2 ^ 50 * |Lq + cl1 * U| ≤ 2 ^ 51 * U + |N| := by
  have n0 := abs_nonneg N
  have ed : |N + -ch * U| = |ch * U - N| := by
    rw [← abs_neg]; congr 1; ring
  rw [ed] at h2 ⊢
  have tM : |Lq + cl1 * U| ≤ |Lq| + |cl1 * U - (N + -ch * U)| + |ch * U - N| := by
    have e : Lq + cl1 * U = Lq + (cl1 * U - (N + -ch * U)) + -(ch * U - N) := by ring
    rw [e]
    refine le_trans (abs_add_le _ _) ?_
    rw [abs_neg]
    exact add_le_add_left (abs_add_le _ _) _
  have tG : |(ch + cl3) * U - (N + Lq)| ≤ |cl1 * U - (N + -ch * U)| + |cl3 * U - (Lq + cl1 * U)| := by
    have e : (ch + cl3) * U - (N + Lq) = (cl1 * U - (N + -ch * U)) + (cl3 * U - (Lq + cl1 * U)) := by ring
    rw [e]; exact abs_add_le _ _
  generalize |ch * U - N| = d1 at *
  generalize |cl1 * U - (N + -ch * U)| = e1 at *
  generalize |cl3 * U - (Lq + cl1 * U)| = e3 at *
  generalize |Lq + cl1 * U| = m3 at *
  generalize |(ch + cl3) * U - (N + Lq)| = g at *
  generalize |Lq| = lq at *
  generalize |N| = n at *
  refine ⟨?_, ?_, ?_⟩ <;> omega

theorem rqI_abs_le {p : Int} {U : Nat} (k : Nat) (hU : 0 < U) (h : |p| ≤ 2 ^ k * (U : Int)) :
    |rqI p U| ≤ 2 ^ k := by
  rw [← Int.natCast_natAbs, natAbs_rqI]
  have h' : p.natAbs ≤ 2 ^ k * U := by
    have : ((p.natAbs : Nat) : Int) ≤ ((2 ^ k * U : Nat) : Int) := by
      rw [Int.natCast_natAbs]; push_cast; exact h
    exact_mod_cast this
  have := roundQ_le_of_le hU (rep_two_pow k) h'
  exact_mod_cast this

theorem roundQ_le_maxFin_of_abs_le {p : Int} {U : Nat} (k : Nat) (hk : k ≤ 2097) (hU : 0 < U)
    (h : |p| ≤ 2 ^ k * (U : Int)) : roundQ p.natAbs U ≤ maxFin := by
  have h1 := rqI_abs_le k hU h
  rw [← Int.natCast_natAbs, natAbs_rqI] at h1
  have h2 : roundQ p.natAbs U ≤ 2 ^ k := by exact_mod_cast h1
  exact le_trans h2 (le_trans (Nat.pow_le_pow_right (by decide) hk) two_pow_2097_le_maxFin)

theorem unit_pos_int : (0 : Int) < (unit : Int) := Int.natCast_pos.2 unit_pos

/-- `2^53 |l·q| ≤ |x·q|` for a low word `l` below half an ulp of `x` -/
theorem lo_mul_le {x l q : Int} (hl : 2 * |l| ≤ 2 ^ (Nat.log2 x.natAbs - 52)) :
    2 ^ 53 * |l * q| ≤ |x * q| := by
  have h := two_pow_mul_le_of_half_ulp hl
  have h' : (2 : Int) ^ 53 * |l| ≤ |x| := by
    rw [← Int.natCast_natAbs, ← Int.natCast_natAbs]; exact_mod_cast h
  rw [abs_mul, abs_mul, ← mul_assoc]
  exact mul_le_mul_of_nonneg_right h' (abs_nonneg q)

/-- **`TwoFloat * f64`, value level.**  For a valid `y` and a finite `q` with `|y.hi · q| ≤ 2^1018` (no overflow) —
underflow of any of the three roundings allowed — the product is a valid pair whose value `P` satisfies
`|P − (y.hi + y.lo)·q| ≤ 2^-103 |y.hi·q| + 2·2^-1074`. -/
theorem mul_tf_val {y : TwoFloat} {q : F64} (hy : y.Valid) (hq : q.is_finite = true)
    (hN : |y.hi.toInt * q.toInt| ≤ 2 ^ 2092 * (unit : Int)) :
    (arithmetic.impl_Mul_rf64_for_rTwoFloat.mul y q).Valid ∧
    2 ^ 103 * |(arithmetic.impl_Mul_rf64_for_rTwoFloat.mul y q).V * (unit : Int)
        - (y.hi.toInt * q.toInt + y.lo.toInt * q.toInt)|
      ≤ 2 ^ 104 * (unit : Int) + |y.hi.toInt * q.toInt| := by
  rw [mul_tf_eq, new_mul_eq]
  simp only
  have hU := unit_pos
  have hUi := unit_pos_int
  have h0 := lo_mul_le (q := q.toInt) hy.two_mul_abs_lo_le
  have n0 := abs_nonneg (y.hi.toInt * q.toInt)
  -- ch
  obtain ⟨fch, vch⟩ := mul_spec hy.1 hq (roundQ_le_maxFin_of_abs_le 2092 (by norm_num) hU hN)
  have h1 := rqI_err_gen (y.hi.toInt * q.toInt) hU
  rw [← vch] at h1
  -- cl1
  have fn : (F64.neg (F64.mul y.hi q)).is_finite = true := by rw [is_finite_neg]; exact fch
  have ed : |y.hi.toInt * q.toInt + -(F64.mul y.hi q).toInt * (unit : Int)|
      = |(F64.mul y.hi q).toInt * (unit : Int) - y.hi.toInt * q.toInt| := by
    rw [← abs_neg]; congr 1; ring
  have b1 : |y.hi.toInt * q.toInt + (F64.neg (F64.mul y.hi q)).toInt * (unit : Int)|
      ≤ 2 ^ 2093 * (unit : Int) := by
    rw [toInt_neg, ed]; omega
  obtain ⟨f1, v1⟩ := fma_spec hy.1 hq fn (roundQ_le_maxFin_of_abs_le 2093 (by norm_num) hU b1)
  have h2 := rqI_err_gen (y.hi.toInt * q.toInt + (F64.neg (F64.mul y.hi q)).toInt * (unit : Int)) hU
  rw [← v1, toInt_neg] at h2
  -- cl3
  have b3 : |y.lo.toInt * q.toInt + (F64.fma y.hi q (F64.neg (F64.mul y.hi q))).toInt * (unit : Int)|
      ≤ 2 ^ 2095 * (unit : Int) := by
    have t1 := abs_add_le (y.lo.toInt * q.toInt)
      ((F64.fma y.hi q (F64.neg (F64.mul y.hi q))).toInt * (unit : Int))
    have t2 : |(F64.fma y.hi q (F64.neg (F64.mul y.hi q))).toInt * (unit : Int)|
        ≤ |(F64.fma y.hi q (F64.neg (F64.mul y.hi q))).toInt * (unit : Int)
            - (y.hi.toInt * q.toInt + -(F64.mul y.hi q).toInt * (unit : Int))|
          + |y.hi.toInt * q.toInt + -(F64.mul y.hi q).toInt * (unit : Int)| := by
      have := abs_add_le ((F64.fma y.hi q (F64.neg (F64.mul y.hi q))).toInt * (unit : Int)
            - (y.hi.toInt * q.toInt + -(F64.mul y.hi q).toInt * (unit : Int)))
          (y.hi.toInt * q.toInt + -(F64.mul y.hi q).toInt * (unit : Int))
      rwa [sub_add_cancel] at this
    rw [toInt_neg] at b1
    have l0 := abs_nonneg (y.lo.toInt * q.toInt)
    omega
  obtain ⟨f3, v3⟩ := fma_spec hy.2.1 hq f1 (roundQ_le_maxFin_of_abs_le 2095 (by norm_num) hU b3)
  have h3 := rqI_err_gen (y.lo.toInt * q.toInt
    + (F64.fma y.hi q (F64.neg (F64.mul y.hi q))).toInt * (unit : Int)) hU
  rw [← v3] at h3
  obtain ⟨E1, E2, E3⟩ := mul_err_int hUi h0 h1 h2 h3
  -- the Fast2Sum precondition (as in `dw_mul_core_inv`)
  have hXY : (y.hi.toInt * q.toInt).natAbs = y.hi.toInt.natAbs * q.toInt.natAbs := Int.natAbs_mul _ _
  have aC : (F64.mul y.hi q).toInt.natAbs = roundQ (y.hi.toInt.natAbs * q.toInt.natAbs) unit := by
    rw [vch, natAbs_rqI, hXY]
  have v1' := v1
  rw [toInt_neg, vch] at v1'
  have aC1 : (F64.fma y.hi q (F64.neg (F64.mul y.hi q))).toInt.natAbs
      = roundQ (y.hi.toInt * q.toInt + -rqI (y.hi.toInt * q.toInt) unit * (unit : Int)).natAbs unit := by
    rw [v1', natAbs_rqI]
  have aC3 : (F64.fma y.lo q (F64.fma y.hi q (F64.neg (F64.mul y.hi q)))).toInt.natAbs
      = roundQ (y.lo.toInt * q.toInt
          + (F64.fma y.hi q (F64.neg (F64.mul y.hi q))).toInt * (unit : Int)).natAbs unit := by
    rw [v3, natAbs_rqI]
  have hD : 2 * (y.hi.toInt * q.toInt + -rqI (y.hi.toInt * q.toInt) unit * (unit : Int)).natAbs
      ≤ unit * 2 ^ (Nat.log2 (y.hi.toInt.natAbs * q.toInt.natAbs / unit) - 52) := by
    have h := roundQ_abs_err (y.hi.toInt * q.toInt).natAbs unit unit_pos
    rw [← natAbs_sub_rqI_mul, hXY] at h
    exact_mod_cast h
  have hN3 : (y.lo.toInt * q.toInt
        + (F64.fma y.hi q (F64.neg (F64.mul y.hi q))).toInt * (unit : Int)).natAbs
      ≤ y.lo.toInt.natAbs * q.toInt.natAbs +
        roundQ (y.hi.toInt * q.toInt + -rqI (y.hi.toInt * q.toInt) unit * (unit : Int)).natAbs unit * unit := by
    refine le_trans (Int.natAbs_add_le _ _) ?_
    rw [Int.natAbs_mul, Int.natAbs_mul, Int.natAbs_natCast, aC1]
  have key := dwtimesfp_nat unit_pos (two_pow_mul_le_of_half_ulp hy.two_mul_abs_lo_le) hD hN3
  rw [← aC, ← aC3] at key
  have hsumle : |(F64.mul y.hi q).toInt + (F64.fma y.lo q (F64.fma y.hi q (F64.neg (F64.mul y.hi q)))).toInt|
      ≤ (maxFin : Int) := by
    have hc : |(F64.mul y.hi q).toInt| ≤ 2 ^ 2092 := by
      rw [vch]; exact rqI_abs_le 2092 hU hN
    have hc3 : |(F64.fma y.lo q (F64.fma y.hi q (F64.neg (F64.mul y.hi q)))).toInt| ≤ 2 ^ 2095 := by
      rw [v3]; exact rqI_abs_le 2095 hU b3
    have hm : ((2 ^ 2097 : Nat) : Int) ≤ (maxFin : Int) := Int.ofNat_le.2 two_pow_2097_le_maxFin
    push_cast at hm
    have := abs_add_le (F64.mul y.hi q).toInt
      (F64.fma y.lo q (F64.fma y.hi q (F64.neg (F64.mul y.hi q)))).toInt
    omega
  have hov := rn53_natAbs_le_maxFin hsumle
  have hV : (arithmetic.fast_two_sum (F64.mul y.hi q)
        (F64.fma y.lo q (F64.fma y.hi q (F64.neg (F64.mul y.hi q))))).V
      = (F64.mul y.hi q).toInt + (F64.fma y.lo q (F64.fma y.hi q (F64.neg (F64.mul y.hi q)))).toInt ∧
      (arithmetic.fast_two_sum (F64.mul y.hi q)
        (F64.fma y.lo q (F64.fma y.hi q (F64.neg (F64.mul y.hi q))))).Valid := by
    rcases key with k0 | kle
    · have z : (F64.mul y.hi q).toInt = 0 := Int.natAbs_eq_zero.1 k0
      have := fast_two_sum_zero_left fch f3 (mul_WF _ _) (fma_WF _ _ _) z
      exact ⟨by rw [this.2.1, z, zero_add], this.2.2.1⟩
    · have hle : |(F64.fma y.lo q (F64.fma y.hi q (F64.neg (F64.mul y.hi q)))).toInt|
          ≤ |(F64.mul y.hi q).toInt| := by
        rw [← Int.natCast_natAbs, ← Int.natCast_natAbs]; exact_mod_cast kle
      have := fast_two_sum_spec fch f3 (mul_WF _ _) (fma_WF _ _ _) hle hov
      exact ⟨this.2.1, this.2.2.1⟩
  refine ⟨hV.2, ?_⟩
  rw [hV.1]
  exact E1

/-! ## 5. `TwoFloat ± TwoFloat` (AccurateDWPlusDW): value with a crude error bound -/

theorem abs_le_add_abs_sub (a b : Int) : |a| ≤ |b| + |a - b| := by
  have := abs_add_le b (a - b)
  rwa [add_sub_cancel] at this

/-- error analysis of the tail of AccurateDWPlusDW on scaled integers -/
theorem addcore_err_int {xh xl yh yl : Int} (hx : 2 ^ 53 * |xl| ≤ |xh|) (hy : 2 ^ 53 * |yl| ≤ |yh|)
    (sh sl th tl c vh vl w : Int)
    (e1 : sh = rnI (xh + yh)) (e2 : sl = xh + yh - sh) (e3 : th = rnI (xl + yl)) (e4 : tl = xl + yl - th)
    (e5 : c = rnI (sl + th)) (e6 : vh = rnI (sh + c)) (e7 : vl = sh + c - vh) (e8 : w = rnI (tl + vl)) :
    2 ^ 103 * |vh + w - (xh + yh + (xl + yl))| ≤ |xh| + |yh| ∧
    |sl + th| ≤ |xh| + |yh| ∧ |sh + c| ≤ 4 * (|xh| + |yh|) ∧ |tl + vl| ≤ |xh| + |yh| ∧
    |vh + w| ≤ 4 * (|xh| + |yh|) := by
  have r1 := rel_err_rnI (xh + yh)
  have r2 := rel_err_rnI (xl + yl)
  have r3 := rel_err_rnI (sl + th)
  have r4 := rel_err_rnI (sh + c)
  have r5 := rel_err_rnI (tl + vl)
  rw [← e1] at r1
  rw [← e3] at r2
  rw [← e5] at r3
  rw [← e6] at r4
  rw [← e8] at r5
  have t1 := abs_add_le xh yh
  have t2 := abs_add_le xl yl
  have esl : |sl| = |sh - (xh + yh)| := by rw [e2, ← abs_neg]; congr 1; ring
  have etl : |tl| = |th - (xl + yl)| := by rw [e4, ← abs_neg]; congr 1; ring
  have evl : |vl| = |vh - (sh + c)| := by rw [e7, ← abs_neg]; congr 1; ring
  have t3 := abs_add_le sl th
  have t4 := abs_le_add_abs_sub th (xl + yl)
  have t5 := abs_le_add_abs_sub sh (xh + yh)
  have t6 := abs_le_add_abs_sub c (sl + th)
  have t7 := abs_add_le sh c
  have t8 := abs_add_le tl vl
  have t9 := abs_le_add_abs_sub vh (sh + c)
  have t10 := abs_le_add_abs_sub w (tl + vl)
  have t11 := abs_add_le vh w
  have tg : |vh + w - (xh + yh + (xl + yl))| ≤ |c - (sl + th)| + |w - (tl + vl)| := by
    have e : vh + w - (xh + yh + (xl + yl)) = (c - (sl + th)) + (w - (tl + vl)) := by
      rw [e7, e4, e2]; ring
    rw [e]; exact abs_add_le _ _
  have n1 := abs_nonneg xh
  have n2 := abs_nonneg yh
  have n3 := abs_nonneg xl
  have n4 := abs_nonneg yl
  rw [← esl] at r1
  rw [← etl] at r2
  rw [← evl] at r4
  generalize |vh + w - (xh + yh + (xl + yl))| = G at *
  generalize |c - (sl + th)| = E3 at *
  generalize |w - (tl + vl)| = E5 at *
  generalize |sh - (xh + yh)| = E1 at *
  generalize |th - (xl + yl)| = E2 at *
  generalize |vh - (sh + c)| = E4 at *
  generalize |sl + th| = A1 at *
  generalize |sh + c| = A2 at *
  generalize |tl + vl| = A3 at *
  generalize |vh + w| = A4 at *
  generalize |xh + yh| = A5 at *
  generalize |xl + yl| = A6 at *
  generalize |sl| = B1 at *
  generalize |tl| = B2 at *
  generalize |vl| = B3 at *
  generalize |sh| = B4 at *
  generalize |th| = B5 at *
  generalize |c| = B6 at *
  generalize |vh| = B7 at *
  generalize |w| = B8 at *
  generalize |xh| = X at *
  generalize |yh| = Y at *
  generalize |xl| = XL at *
  generalize |yl| = YL at *
  have b1 := abs_nonneg (0 : Int)
  refine ⟨?_, ?_, ?_, ?_, ?_⟩ <;> omega

/-- `2^53 |l| ≤ |x|` (in `ℤ`) for a low word below half an ulp of `x` -/
theorem two_pow_mul_abs_le_of_half_ulp {x l : Int} (hl : 2 * |l| ≤ 2 ^ (Nat.log2 x.natAbs - 52)) :
    2 ^ 53 * |l| ≤ |x| := by
  have h := two_pow_mul_le_of_half_ulp hl
  rw [← Int.natCast_natAbs, ← Int.natCast_natAbs]; exact_mod_cast h

/-- **the tail of AccurateDWPlusDW, value level**: from the two error-free 2Sums `s`, `t` (given by their word values)
to a valid result whose value differs from the exact sum by at most `2^-103 (|xh| + |yh|)` -/
theorem addCore_val {s t : TwoFloat} {xh xl yh yl : Int} (hws : s.WF) (hxh : RepI xh) (hyh : RepI yh)
    (hx : 2 * |xl| ≤ 2 ^ (Nat.log2 xh.natAbs - 52)) (hy : 2 * |yl| ≤ 2 ^ (Nat.log2 yh.natAbs - 52))
    (vsh : IsVal s.hi (rnI (xh + yh))) (vsl : IsVal s.lo (xh + yh - rnI (xh + yh)))
    (vth : IsVal t.hi (rnI (xl + yl))) (vtl : IsVal t.lo (xl + yl - rnI (xl + yl)))
    (hb : 4 * (|xh| + |yh|) ≤ (maxFin : Int)) :
    (addCore s t).Valid ∧ 2 ^ 103 * |(addCore s t).V - (xh + yh + (xl + yl))| ≤ |xh| + |yh| := by
  unfold addCore
  obtain ⟨G, A1, A2, A3, A4⟩ := addcore_err_int (two_pow_mul_abs_le_of_half_ulp hx)
    (two_pow_mul_abs_le_of_half_ulp hy) _ _ _ _ _ _ _ _ rfl rfl rfl rfl rfl rfl rfl rfl
  have n1 := abs_nonneg xh
  have n2 := abs_nonneg yh
  obtain ⟨P1, P2⟩ := dwplusdw_pre hxh hyh hx hy
  have vc := vsl.add vth (by omega)
  have hov : rn53 (s.hi.toInt + (F64.add s.lo t.hi).toInt).natAbs ≤ maxFin := by
    rw [vsh.2, vc.2]; exact rn53_natAbs_le_maxFin (by omega)
  have Vw : IsVal (arithmetic.fast_two_sum s.hi (F64.add s.lo t.hi)).hi
        (rnI (s.hi.toInt + (F64.add s.lo t.hi).toInt)) ∧
      IsVal (arithmetic.fast_two_sum s.hi (F64.add s.lo t.hi)).lo
        (s.hi.toInt + (F64.add s.lo t.hi).toInt - rnI (s.hi.toInt + (F64.add s.lo t.hi).toInt)) := by
    rcases P1 with p | p
    · exact fast_two_sum_words vsh.1 vc.1 hws.1 (add_WF _ _) (by rw [vsh.2, vc.2]; exact p) hov
    · exact fast_two_sum_words_of_dvd vsh.1 vc.1 hws.1 (add_WF _ _) (by rw [vsh.2, vc.2]; exact p) hov
  rw [vsh.2, vc.2] at Vw
  have vw := vtl.add Vw.2 (by omega)
  have hov2 : rn53 ((arithmetic.fast_two_sum s.hi (F64.add s.lo t.hi)).hi.toInt +
      (F64.add t.lo (arithmetic.fast_two_sum s.hi (F64.add s.lo t.hi)).lo).toInt).natAbs ≤ maxFin := by
    rw [Vw.1.2, vw.2]; exact rn53_natAbs_le_maxFin (by omega)
  have R : (arithmetic.fast_two_sum (arithmetic.fast_two_sum s.hi (F64.add s.lo t.hi)).hi
        (F64.add t.lo (arithmetic.fast_two_sum s.hi (F64.add s.lo t.hi)).lo)).V
      = (arithmetic.fast_two_sum s.hi (F64.add s.lo t.hi)).hi.toInt +
        (F64.add t.lo (arithmetic.fast_two_sum s.hi (F64.add s.lo t.hi)).lo).toInt ∧
      (arithmetic.fast_two_sum (arithmetic.fast_two_sum s.hi (F64.add s.lo t.hi)).hi
        (F64.add t.lo (arithmetic.fast_two_sum s.hi (F64.add s.lo t.hi)).lo)).Valid := by
    rcases P2 with p | p
    · have := fast_two_sum_spec_of_dvd Vw.1.1 vw.1 (fast_two_sum_WF _ _).1 (add_WF _ _)
        (by rw [Vw.1.2, p]; exact dvd_zero _) hov2
      exact ⟨this.2.1, this.2.2.1⟩
    · have := fast_two_sum_spec Vw.1.1 vw.1 (fast_two_sum_WF _ _).1 (add_WF _ _)
        (by rw [vw.2, Vw.1.2]; exact abs_rnI_le (repI_rnI _) p) hov2
      exact ⟨this.2.1, this.2.2.1⟩
  refine ⟨R.2, ?_⟩
  rw [R.1, Vw.1.2, vw.2]
  exact G

/-- **`TwoFloat - TwoFloat`, value level**: valid operands with high words below `2^1020`: the difference is a valid
pair with `|value − (x − p)| ≤ 2^-103 (|x.hi| + |p.hi|)` -/
theorem sub_tt_val {x p : TwoFloat} (hx : x.Valid) (hp : p.Valid) (hwx : x.WF) (hwp : p.WF)
    (bx : |x.hi.toInt| ≤ 2 ^ 2094) (bp : |p.hi.toInt| ≤ 2 ^ 2094) :
    (arithmetic.impl_Sub_rTwoFloat_for_rTwoFloat.sub x p).Valid ∧
    2 ^ 103 * |(arithmetic.impl_Sub_rTwoFloat_for_rTwoFloat.sub x p).V - (x.V - p.V)|
      ≤ |x.hi.toInt| + |p.hi.toInt| := by
  rw [sub_tt_eq]
  have hm : ((2 ^ 2097 : Nat) : Int) ≤ (maxFin : Int) := Int.ofNat_le.2 two_pow_2097_le_maxFin
  push_cast at hm
  have lx := hx.abs_lo_le
  have lp := hp.abs_lo_le
  obtain ⟨a1, a2⟩ := new_sub_words hx.1 hp.1 hwx.1 hwp.1 (by omega) (by omega)
  obtain ⟨a3, a4⟩ := new_sub_words hx.2.1 hp.2.1 hwx.2 hwp.2 (by omega) (by omega)
  have key := addCore_val (s := TwoFloat.new_sub x.hi p.hi) (t := TwoFloat.new_sub x.lo p.lo)
    (xh := x.hi.toInt) (xl := x.lo.toInt) (yh := -p.hi.toInt) (yl := -p.lo.toInt)
    (new_sub_WF _ _) hwx.1.repI hwp.1.repI.neg hx.two_mul_abs_lo_le
    (by rw [abs_neg, Int.natAbs_neg]; exact hp.two_mul_abs_lo_le)
    (by rw [← Int.sub_eq_add_neg]; exact a1) (by rw [← Int.sub_eq_add_neg]; exact a2)
    (by rw [← Int.sub_eq_add_neg]; exact a3) (by rw [← Int.sub_eq_add_neg]; exact a4)
    (by rw [abs_neg]; omega)
  rw [abs_neg] at key
  refine ⟨key.1, ?_⟩
  have e : x.V - p.V = x.hi.toInt + -p.hi.toInt + (x.lo.toInt + -p.lo.toInt) := by
    unfold TwoFloat.V; ring
  rw [e]; exact key.2

/-! ## 6. `f64 - TwoFloat`: value with a crude error bound -/

/-- **`f64 - TwoFloat`, value level** -/
theorem sub_ft_val {f : F64} {p : TwoFloat} (hf : f.is_finite = true) (hwf : f.WF) (hp : p.Valid) (hwp : p.WF)
    (bf : |f.toInt| ≤ 2 ^ 2094) (bp : |p.hi.toInt| ≤ 2 ^ 2094) :
    (arithmetic.impl_Sub_rTwoFloat_for_rf64.sub f p).Valid ∧
    2 ^ 103 * |(arithmetic.impl_Sub_rTwoFloat_for_rf64.sub f p).V - (f.toInt - p.V)|
      ≤ |f.toInt| + |p.hi.toInt| := by
  rw [sub_ft_eq]
  have hm : ((2 ^ 2097 : Nat) : Int) ≤ (maxFin : Int) := Int.ofNat_le.2 two_pow_2097_le_maxFin
  push_cast at hm
  have lp := two_pow_mul_abs_le_of_half_ulp hp.two_mul_abs_lo_le
  have n1 := abs_nonneg f.toInt
  have n2 := abs_nonneg p.hi.toInt
  have n3 := abs_nonneg p.lo.toInt
  obtain ⟨a1, a2⟩ := new_sub_words hf hp.1 hwf hwp.1 (by omega) (by omega)
  have r1 := rel_err_rnI (f.toInt - p.hi.toInt)
  have t1 : |f.toInt - p.hi.toInt| ≤ |f.toInt| + |p.hi.toInt| := by
    have := abs_add_le f.toInt (-p.hi.toInt)
    rwa [abs_neg, ← Int.sub_eq_add_neg] at this
  have esl : |f.toInt - p.hi.toInt - rnI (f.toInt - p.hi.toInt)|
      = |rnI (f.toInt - p.hi.toInt) - (f.toInt - p.hi.toInt)| := abs_sub_comm _ _
  have t2 : |f.toInt - p.hi.toInt - rnI (f.toInt - p.hi.toInt) - p.lo.toInt|
      ≤ |f.toInt - p.hi.toInt - rnI (f.toInt - p.hi.toInt)| + |p.lo.toInt| := by
    have := abs_add_le (f.toInt - p.hi.toInt - rnI (f.toInt - p.hi.toInt)) (-p.lo.toInt)
    rwa [abs_neg, ← Int.sub_eq_add_neg] at this
  have t3 := abs_le_add_abs_sub (rnI (f.toInt - p.hi.toInt)) (f.toInt - p.hi.toInt)
  have vv := a2.sub (IsVal.of_finite hp.2.1) (by omega)
  have r2 := rel_err_rnI (f.toInt - p.hi.toInt - rnI (f.toInt - p.hi.toInt) - p.lo.toInt)
  have t4 := abs_le_add_abs_sub (rnI (f.toInt - p.hi.toInt - rnI (f.toInt - p.hi.toInt) - p.lo.toInt))
    (f.toInt - p.hi.toInt - rnI (f.toInt - p.hi.toInt) - p.lo.toInt)
  have hov : rn53 ((TwoFloat.new_sub f p.hi).hi.toInt +
      (F64.sub (TwoFloat.new_sub f p.hi).lo p.lo).toInt).natAbs ≤ maxFin := by
    rw [a1.2, vv.2]
    apply rn53_natAbs_le_maxFin
    have := abs_add_le (rnI (f.toInt - p.hi.toInt))
      (rnI (f.toInt - p.hi.toInt - rnI (f.toInt - p.hi.toInt) - p.lo.toInt))
    omega
  have R : (arithmetic.fast_two_sum (TwoFloat.new_sub f p.hi).hi
        (F64.sub (TwoFloat.new_sub f p.hi).lo p.lo)).V
      = (TwoFloat.new_sub f p.hi).hi.toInt + (F64.sub (TwoFloat.new_sub f p.hi).lo p.lo).toInt ∧
      (arithmetic.fast_two_sum (TwoFloat.new_sub f p.hi).hi
        (F64.sub (TwoFloat.new_sub f p.hi).lo p.lo)).Valid := by
    by_cases hs0 : rnI (f.toInt - p.hi.toInt) = 0
    · have := fast_two_sum_spec_of_dvd a1.1 vv.1 (new_sub_WF _ _).1 (sub_WF _ _)
        (by rw [a1.2, hs0]; exact dvd_zero _) hov
      exact ⟨this.2.1, this.2.2.1⟩
    · have e1 : -p.hi.toInt + f.toInt = f.toInt - p.hi.toInt := by ring
      have hs0' : rnI (-p.hi.toInt + f.toInt) ≠ 0 := by rwa [e1]
      have hpre := dwplusfp_pre (l := -p.lo.toInt) hwp.1.repI.neg hwf.repI
        (by rw [abs_neg, Int.natAbs_neg]; exact hp.two_mul_abs_lo_le) hs0'
      rw [e1] at hpre
      have e2 : -p.lo.toInt + (f.toInt - p.hi.toInt - rnI (f.toInt - p.hi.toInt))
          = f.toInt - p.hi.toInt - rnI (f.toInt - p.hi.toInt) - p.lo.toInt := by ring
      rw [e2] at hpre
      have := fast_two_sum_spec a1.1 vv.1 (new_sub_WF _ _).1 (sub_WF _ _)
        (by rw [a1.2, vv.2]; exact abs_rnI_le (repI_rnI _) hpre) hov
      exact ⟨this.2.1, this.2.2.1⟩
  refine ⟨R.2, ?_⟩
  rw [R.1, a1.2, vv.2]
  have e : rnI (f.toInt - p.hi.toInt) +
      rnI (f.toInt - p.hi.toInt - rnI (f.toInt - p.hi.toInt) - p.lo.toInt) - (f.toInt - p.V)
      = rnI (f.toInt - p.hi.toInt - rnI (f.toInt - p.hi.toInt) - p.lo.toInt)
        - (f.toInt - p.hi.toInt - rnI (f.toInt - p.hi.toInt) - p.lo.toInt) := by
    unfold TwoFloat.V; ring
  rw [e]
  omega

end F64
