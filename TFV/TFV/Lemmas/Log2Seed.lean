/-
Lemmas.Log2Seed — coarse accuracy of the libm `log2` port (the Newton seed of `TwoFloat::log2`).

* §1 `trunc32_fin`, `trunc32_spec`: clearing the low 32 bits of the pattern of a finite well-formed double gives a finite
  double of the same sign and no larger magnitude;
* §2 exact values of `IVLN2HI`, `IVLN2LO`; `ivln2_sum_close`: their sum is within `2^-50` of `1 / log 2`;
* §3 `go2Body` (= the body of `Libm.log2.go`, `go2_eq` by `rfl`), `go2Body_ap` (rounding errors `≤ 54·2^-40`; the
  truncated word `hi` is treated as an arbitrary double of magnitude `≤ 1`: it cancels in the exact formula),
  `go2Body_coarse`;
* §4 `go2_normal`, `libm_log2_coarse`.
-/
import TFV.Lemmas.LnSeed

set_option exponentiation.threshold 4000

namespace Log2Seed
open F64 ExpBound LnSeed

attribute [local irreducible] F64.pack

/-! ## 1. clearing the low word of a bit pattern -/

theorem from_bits_sg_small (sg : Bool) {a : ℕ} (h : a < 2 ^ 52) :
    from_bits_nat ((if sg then 2 ^ 63 else 0) + a) = fin sg a := by
  cases sg
  · have a1 : (0 + a) / 2 ^ 63 % 2 = 0 := by omega
    have a2 : (0 + a) / 2 ^ 52 % 2048 = 0 := by omega
    have a3 : (0 + a) % 2 ^ 52 = a := by omega
    unfold from_bits_nat
    simp only [Bool.false_eq_true, if_false]
    simp only [Nat.reducePow] at a1 a2 a3 ⊢
    simp only [a1, a2, a3]
    simp
  · have a1 : (2 ^ 63 + a) / 2 ^ 63 % 2 = 1 := by omega
    have a2 : (2 ^ 63 + a) / 2 ^ 52 % 2048 = 0 := by omega
    have a3 : (2 ^ 63 + a) % 2 ^ 52 = a := by omega
    unfold from_bits_nat
    simp only [if_true]
    simp only [Nat.reducePow] at a1 a2 a3 ⊢
    simp only [a1, a2, a3]
    simp

theorem from_bits_sg_normal (sg : Bool) {e m : ℕ} (he2 : e < 2046) (hm : m < 2 ^ 52) :
    from_bits_nat ((if sg then 2 ^ 63 else 0) + ((e + 1) * 2 ^ 52 + m)) = fin sg ((2 ^ 52 + m) * 2 ^ e) := by
  cases sg
  · have a1 : (0 + ((e + 1) * 2 ^ 52 + m)) / 2 ^ 63 % 2 = 0 := by omega
    have a2 : (0 + ((e + 1) * 2 ^ 52 + m)) / 2 ^ 52 % 2048 = e + 1 := by omega
    have a3 : (0 + ((e + 1) * 2 ^ 52 + m)) % 2 ^ 52 = m := by omega
    unfold from_bits_nat
    simp only [Bool.false_eq_true, if_false]
    simp only [Nat.reducePow] at a1 a2 a3 ⊢
    simp only [a1, a2, a3]
    rw [if_neg (by omega), if_neg (by omega)]
    simp
  · have a1 : (2 ^ 63 + ((e + 1) * 2 ^ 52 + m)) / 2 ^ 63 % 2 = 1 := by omega
    have a2 : (2 ^ 63 + ((e + 1) * 2 ^ 52 + m)) / 2 ^ 52 % 2048 = e + 1 := by omega
    have a3 : (2 ^ 63 + ((e + 1) * 2 ^ 52 + m)) % 2 ^ 52 = m := by omega
    unfold from_bits_nat
    simp only [if_true]
    simp only [Nat.reducePow] at a1 a2 a3 ⊢
    simp only [a1, a2, a3]
    rw [if_neg (by omega), if_neg (by omega)]
    simp

theorem to_bits_sg_small (sg : Bool) {n : ℕ} (h : n < 2 ^ 53) :
    (fin sg n).to_bits_nat = (if sg then 2 ^ 63 else 0) + n := by
  unfold to_bits_nat
  simp only [Nat.reducePow] at h ⊢
  rw [if_pos h]

/-- clearing the low 32 bits of the pattern of a finite double: same sign, magnitude not larger -/
theorem trunc32_fin (sg : Bool) {n : ℕ} (hw : (fin sg n).WF) :
    ∃ n', n' ≤ n ∧ from_bits_nat ((fin sg n).to_bits_nat / 2 ^ 32 * 2 ^ 32) = fin sg n' := by
  by_cases hN : 2 ^ 52 ≤ n
  · obtain ⟨q, s, rfl, hq, hq', hs⟩ := F64.Bits.wf_normal_decomp hN hw.1 hw.2
    rw [F64.Bits.to_bits_nat_normal sg hq hq']
    have hm : (q - 2 ^ 52) / 2 ^ 32 * 2 ^ 32 < 2 ^ 52 := by omega
    have e : ((if sg then 2 ^ 63 else 0) + ((s + 1) * 2 ^ 52 + (q - 2 ^ 52))) / 2 ^ 32 * 2 ^ 32
        = (if sg then 2 ^ 63 else 0) + ((s + 1) * 2 ^ 52 + (q - 2 ^ 52) / 2 ^ 32 * 2 ^ 32) := by
      cases sg
      · simp only [Bool.false_eq_true, if_false]; omega
      · simp only [if_true]; omega
    rw [e, from_bits_sg_normal sg (by omega) hm]
    exact ⟨_, Nat.mul_le_mul_right _ (by omega), rfl⟩
  · have hlt : n < 2 ^ 52 := by omega
    rw [to_bits_sg_small sg (by omega : n < 2 ^ 53)]
    have hm : n / 2 ^ 32 * 2 ^ 32 < 2 ^ 52 := by omega
    have e : ((if sg then 2 ^ 63 else 0) + n) / 2 ^ 32 * 2 ^ 32
        = (if sg then 2 ^ 63 else 0) + n / 2 ^ 32 * 2 ^ 32 := by
      cases sg
      · simp only [Bool.false_eq_true, if_false]; omega
      · simp only [if_true]; omega
    rw [e, from_bits_sg_small sg hm]
    exact ⟨_, by omega, rfl⟩

theorem abs_fv_fin (sg : Bool) (n : ℕ) : |fv (fin sg n)| = (n : ℝ) / 2 ^ 1074 := by
  unfold fv
  rw [abs_div, abs_of_pos (by positivity : (0 : ℝ) < 2 ^ 1074)]
  congr 1
  have := abs_toInt_fin sg n
  have h2 : ((|(fin sg n).toInt| : ℤ) : ℝ) = (((n : ℤ)) : ℝ) := by rw [this]
  rwa [Int.cast_abs, Int.cast_natCast] at h2

theorem trunc32_spec {x : F64} (hf : x.is_finite = true) (hw : x.WF) :
    (from_bits_nat (x.to_bits_nat / 2 ^ 32 * 2 ^ 32)).is_finite = true ∧
      |fv (from_bits_nat (x.to_bits_nat / 2 ^ 32 * 2 ^ 32))| ≤ |fv x| := by
  obtain ⟨sg, n, rfl⟩ := is_finite_iff.mp hf
  obtain ⟨n', hle, e⟩ := trunc32_fin sg hw
  rw [e]
  refine ⟨rfl, ?_⟩
  rw [abs_fv_fin, abs_fv_fin]
  have : (n' : ℝ) ≤ (n : ℝ) := by exact_mod_cast hle
  exact div_le_div_of_nonneg_right this (by positivity)

/-! ## 2. the constants `1/ln 2 = IVLN2HI + IVLN2LO` -/

theorem IVLN2HI_toInt : Libm.IVLN2HI.toInt = 3098164009 * 2 ^ 1043 := by decide +kernel
theorem IVLN2LO_toInt : Libm.IVLN2LO.toInt = 12657236604881 * 2 ^ 998 := by decide +kernel

theorem fv_IVLN2HI : fv Libm.IVLN2HI = 3098164009 / 2 ^ 31 := by
  rw [fv_of_toInt (by norm_num) IVLN2HI_toInt]; norm_num
theorem fv_IVLN2LO : fv Libm.IVLN2LO = 12657236604881 / 2 ^ 76 := by
  rw [fv_of_toInt (by norm_num) IVLN2LO_toInt]; norm_num

theorem apIH : Ap Libm.IVLN2HI (fv Libm.IVLN2HI) 0 (3 / 2) :=
  Ap.const rfl rfl (by rw [fv_IVLN2HI]; norm_num [abs_le])
theorem apIL : Ap Libm.IVLN2LO (fv Libm.IVLN2LO) 0 (1 / 2 ^ 30) :=
  Ap.const rfl rfl (by rw [fv_IVLN2LO]; norm_num [abs_le])

theorem ivln2_sum_close : |fv Libm.IVLN2HI + fv Libm.IVLN2LO - 1 / Real.log 2| ≤ 1 / 2 ^ 50 := by
  obtain ⟨h1, h2⟩ := ConstBounds.log_two_encl.inv ConstBounds.ln2Lo_pos
  have a : (3098164009 / 2 ^ 31 + 12657236604881 / 2 ^ 76 - 1 / 2 ^ 50 : ℚ) ≤ ConstBounds.ln2Hi⁻¹ := by
    decide +kernel
  have b : ConstBounds.ln2Lo⁻¹ ≤ (3098164009 / 2 ^ 31 + 12657236604881 / 2 ^ 76 + 1 / 2 ^ 50 : ℚ) := by
    decide +kernel
  have a' := (Rat.cast_le (K := ℝ)).2 a
  have b' := (Rat.cast_le (K := ℝ)).2 b
  rw [one_div, fv_IVLN2HI, fv_IVLN2LO, abs_le]
  push_cast at a' b' h1 h2
  constructor <;> linarith

/-! ## 3. the body of `Libm.log2.go` -/

open Libm in
/-- the floating-point body of `Libm.log2.go` as a function of the exponent `k` and the reduced argument `x` -/
def go2Body (k : ℤ) (x : F64) : F64 :=
  let f := F64.sub x c1
  let hfsq := F64.mul (F64.mul chalf f) f
  let s := F64.div f (F64.add c2 f)
  let z := F64.mul s s
  let w := F64.mul z z
  let t1 := F64.mul w (F64.add LG2 (F64.mul w (F64.add LG4 (F64.mul w LG6))))
  let t2 := F64.mul z (F64.add LG1 (F64.mul w (F64.add LG3 (F64.mul w (F64.add LG5 (F64.mul w LG7))))))
  let r := F64.add t2 t1
  let hi0 := F64.sub f hfsq
  let hi := F64.from_bits_nat (hi0.to_bits_nat / 2 ^ 32 * 2 ^ 32)
  let lo := F64.add (F64.sub (F64.sub f hi) hfsq) (F64.mul s (F64.add hfsq r))
  let val_hi := F64.mul hi IVLN2HI
  let val_lo := F64.add (F64.mul (F64.add lo hi) IVLN2LO) (F64.mul lo IVLN2HI)
  let y := F64.ofInt k
  let w2 := F64.add y val_hi
  let val_lo2 := F64.add val_lo (F64.add (F64.sub y w2) val_hi)
  F64.add val_lo2 w2

theorem go2_eq (k0 : ℤ) (ui : ℕ) :
    Libm.log2.go k0 ui = go2Body (k0 + (Libm.reduce ui).1) (Libm.reduce ui).2 := rfl

/-- rounding errors of everything after the kernel; `HI` is ANY finite double of magnitude at most 1 -/
theorem tail2_ap {S HF R Fv HI DK : F64} {s hf r f h k : ℝ} (hS : Ap S s (3 / 2 ^ 40) (1 / 2))
    (hH : Ap HF hf (3 / 2 ^ 40) (1 / 8)) (hR : Ap R r (25 / 2 ^ 40) 1)
    (hF : Ap Fv f (1 / 2 ^ 40) (1 / 2)) (hHI : Ap HI h 0 1) (hK : Ap DK k 0 1100) :
    Ap (F64.add (F64.add (F64.add (F64.mul (F64.add (F64.add (F64.sub (F64.sub Fv HI) HF)
            (F64.mul S (F64.add HF R))) HI) Libm.IVLN2LO)
          (F64.mul (F64.add (F64.sub (F64.sub Fv HI) HF) (F64.mul S (F64.add HF R))) Libm.IVLN2HI))
        (F64.add (F64.sub DK (F64.add DK (F64.mul HI Libm.IVLN2HI))) (F64.mul HI Libm.IVLN2HI)))
        (F64.add DK (F64.mul HI Libm.IVLN2HI)))
      ((((f - h - hf + s * (hf + r) + h) * fv Libm.IVLN2LO
          + (f - h - hf + s * (hf + r)) * fv Libm.IVLN2HI)
          + ((k - (k + h * fv Libm.IVLN2HI)) + h * fv Libm.IVLN2HI)) + (k + h * fv Libm.IVLN2HI))
      (54 / 2 ^ 40) 1111 := by
  have a1 := hF.sub hHI (δ := 2 / 2 ^ 40) (C := 3 / 2) (by norm_num) (by norm_num) (by norm_num)
  have a2 := a1.sub hH (δ := 6 / 2 ^ 40) (C := 2) (by norm_num) (by norm_num) (by norm_num)
  have b1 := hH.add hR (δ := 29 / 2 ^ 40) (C := 9 / 8) (by norm_num) (by norm_num) (by norm_num)
  have b2 := hS.mul b1 (δ := 20 / 2 ^ 40) (C := 9 / 16) (by norm_num) (by norm_num) (by norm_num)
  have lo := a2.add b2 (δ := 27 / 2 ^ 40) (C := 3) (by norm_num) (by norm_num) (by norm_num)
  have vh := hHI.mul apIH (δ := 1 / 2 ^ 40) (C := 3 / 2) (by norm_num) (by norm_num) (by norm_num)
  have c1 := lo.add hHI (δ := 28 / 2 ^ 40) (C := 4) (by norm_num) (by norm_num) (by norm_num)
  have c2 := c1.mul apIL (δ := 2 / 2 ^ 40) (C := 1) (by norm_num) (by norm_num) (by norm_num)
  have c3 := lo.mul apIH (δ := 42 / 2 ^ 40) (C := 9 / 2) (by norm_num) (by norm_num) (by norm_num)
  have vl := c2.add c3 (δ := 45 / 2 ^ 40) (C := 6) (by norm_num) (by norm_num) (by norm_num)
  have w := hK.add vh (δ := 2 / 2 ^ 40) (C := 1102) (by norm_num) (by norm_num) (by norm_num)
  have d1 := (hK.sub w (δ := 3 / 2 ^ 40) (C := 2202) (by norm_num) (by norm_num) (by norm_num)).bound
    (B' := 3 / 2) (by
      rw [show k - (k + h * fv Libm.IVLN2HI) = -(h * fv Libm.IVLN2HI) by ring, abs_neg]
      exact vh.2.2)
  have d2 := d1.add vh (δ := 5 / 2 ^ 40) (C := 3) (by norm_num) (by norm_num) (by norm_num)
  have vl2 := vl.add d2 (δ := 51 / 2 ^ 40) (C := 9) (by norm_num) (by norm_num) (by norm_num)
  exact vl2.add w (by norm_num) (by norm_num) (by norm_num)

/-- the exactly evaluated body of `log2.go` collapses: the truncated word `h` cancels -/
theorem ideal2_eq (f h k IL IH R : ℝ) :
    ((((f - h - 1 / 2 * f * f + f / (2 + f) * (1 / 2 * f * f + R) + h) * IL
        + (f - h - 1 / 2 * f * f + f / (2 + f) * (1 / 2 * f * f + R)) * IH)
        + ((k - (k + h * IH)) + h * IH)) + (k + h * IH))
      = (f - 1 / 2 * f * f + f / (2 + f) * (1 / 2 * f * f + R)) * (IH + IL) + k := by
  ring

theorem G_zero (f : ℝ) :
    G 0 f = f - 1 / 2 * f * f + f / (2 + f) * (1 / 2 * f * f
      + (T2 (f / (2 + f) * (f / (2 + f))) (f / (2 + f) * (f / (2 + f)) * (f / (2 + f) * (f / (2 + f))))
          + T1 (f / (2 + f) * (f / (2 + f)) * (f / (2 + f) * (f / (2 + f)))))) := by
  unfold G; ring

/-- **rounding errors of the body of `log2.go`** -/
theorem go2Body_ap {k : ℤ} {X : F64} (hX : X.is_finite = true) (h1 : 7071 / 10000 ≤ fv X)
    (h2 : fv X ≤ 141422 / 100000) (hk : |k| ≤ 1100) :
    Ap (go2Body k X) (G 0 (fv X - 1) * (fv Libm.IVLN2HI + fv Libm.IVLN2LO) + (k : ℝ)) (54 / 2 ^ 40) 1111 := by
  have hF := f_ap hX h1 h2
  obtain ⟨hH, hS⟩ := kernel_ap hF (by linarith)
  obtain ⟨hZ, hW⟩ := zw_ap hS
  have hR := (t2_ap hZ hW).add (t1_ap hW) (δ := 25 / 2 ^ 40) (C := 1) (by norm_num) (by norm_num)
    (by norm_num)
  have hi0 := hF.sub hH (δ := 5 / 2 ^ 40) (C := 5 / 8) (by norm_num) (by norm_num) (by norm_num)
  obtain ⟨tf, tb⟩ := trunc32_spec hi0.1 (sub_WF _ _)
  have hHI : Ap (from_bits_nat ((F64.sub (F64.sub X Libm.c1)
      (F64.mul (F64.mul Libm.chalf (F64.sub X Libm.c1)) (F64.sub X Libm.c1))).to_bits_nat / 2 ^ 32 * 2 ^ 32))
      (fv (from_bits_nat ((F64.sub (F64.sub X Libm.c1)
      (F64.mul (F64.mul Libm.chalf (F64.sub X Libm.c1)) (F64.sub X Libm.c1))).to_bits_nat / 2 ^ 32 * 2 ^ 32)))
      0 1 :=
    Ap.const tf rfl (le_trans tb (le_trans hi0.abs_fv_le (by norm_num)))
  have key := tail2_ap hS hH hR hF hHI (ofInt_ap hk)
  rw [ideal2_eq, ← G_zero] at key
  exact key

theorem log_two_pos : 0 < Real.log 2 := Real.log_pos (by norm_num)

theorem inv_log_two_le : 1 / Real.log 2 ≤ 3 / 2 := by
  obtain ⟨l1, _⟩ := ConstBounds.log_two_encl
  have a : (2 / 3 : ℚ) ≤ ConstBounds.ln2Lo := by decide +kernel
  have a' := (Rat.cast_le (K := ℝ)).2 a
  push_cast at a'
  rw [div_le_iff₀ log_two_pos]; linarith

/-- **`go2Body`, coarse accuracy** -/
theorem go2Body_coarse {k : ℤ} {X : F64} (hX : X.is_finite = true) (h1 : 7071 / 10000 ≤ fv X)
    (h2 : fv X ≤ 141422 / 100000) (hk : |k| ≤ 1100) :
    (go2Body k X).is_finite = true ∧
      |fv (go2Body k X) - ((k : ℝ) + Real.log (fv X) / Real.log 2)| ≤ 1 / 2 ^ 24 := by
  obtain ⟨hf, he, _⟩ := go2Body_ap hX h1 h2 hk
  refine ⟨hf, ?_⟩
  have hg := G_approx (k := 0) (f := fv X - 1) (by norm_num) (by linarith) (by linarith)
  rw [show (1 : ℝ) + (fv X - 1) = fv X by ring, zero_mul, zero_add] at hg
  have hc := ivln2_sum_close
  have hl := log_two_pos
  have hi := inv_log_two_le
  have hi0 : 0 ≤ 1 / Real.log 2 := by positivity
  -- |log (fv X)| ≤ 1/2
  have hxpos : 0 < fv X := by linarith
  have hL1 : Real.log (fv X) ≤ 1 / 2 := by
    have := Real.log_le_sub_one_of_pos hxpos; linarith
  have hL2 : -(1 / 2) ≤ Real.log (fv X) := by
    have := Real.log_le_sub_one_of_pos (inv_pos.2 hxpos)
    rw [Real.log_inv] at this
    have h3 : (fv X)⁻¹ ≤ 10000 / 7071 := by
      rw [inv_le_comm₀ hxpos (by norm_num)]; norm_num; linarith
    have : (10000 : ℝ) / 7071 ≤ 3 / 2 := by norm_num
    linarith
  have hL : |Real.log (fv X)| ≤ 1 / 2 := abs_le.2 ⟨hL2, hL1⟩
  generalize G 0 (fv X - 1) = g at *
  generalize fv Libm.IVLN2HI + fv Libm.IVLN2LO = c at *
  generalize Real.log (fv X) = L at *
  have e : fv (go2Body k X) - ((k : ℝ) + L / Real.log 2)
      = (fv (go2Body k X) - (g * c + (k : ℝ))) + ((g - L) * (1 / Real.log 2)
          + (g - L) * (c - 1 / Real.log 2) + L * (c - 1 / Real.log 2)) := by
    field_simp; ring
  rw [e]
  have t1 : |(g - L) * (1 / Real.log 2)| ≤ 1 / 2 ^ 25 * (3 / 2) := by
    rw [abs_mul, abs_of_nonneg hi0]
    exact mul_le_mul hg hi (by positivity) (by positivity)
  have t2 : |(g - L) * (c - 1 / Real.log 2)| ≤ 1 / 2 ^ 25 * (1 / 2 ^ 50) := by
    rw [abs_mul]; exact mul_le_mul hg hc (abs_nonneg _) (by positivity)
  have t3 : |L * (c - 1 / Real.log 2)| ≤ 1 / 2 * (1 / 2 ^ 50) := by
    rw [abs_mul]; exact mul_le_mul hL hc (abs_nonneg _) (by positivity)
  have s1 := abs_add_le (fv (go2Body k X) - (g * c + (k : ℝ))) ((g - L) * (1 / Real.log 2)
          + (g - L) * (c - 1 / Real.log 2) + L * (c - 1 / Real.log 2))
  have s2 := abs_add_le ((g - L) * (1 / Real.log 2) + (g - L) * (c - 1 / Real.log 2))
    (L * (c - 1 / Real.log 2))
  have s3 := abs_add_le ((g - L) * (1 / Real.log 2)) ((g - L) * (c - 1 / Real.log 2))
  have n : (54 : ℝ) / 2 ^ 40 + (1 / 2 ^ 25 * (3 / 2) + 1 / 2 ^ 25 * (1 / 2 ^ 50) + 1 / 2 * (1 / 2 ^ 50))
      ≤ 1 / 2 ^ 24 := by norm_num
  linarith

/-! ## 4. assembly -/

theorem go2_normal {k0 : ℤ} (hk0 : -54 ≤ k0) (hk0' : k0 ≤ 0) {N : ℕ} (hN : 2 ^ 52 ≤ N)
    (hw : (fin false N).WF) :
    (Libm.log2.go k0 (fin false N).to_bits_nat).is_finite = true ∧
      |fv (Libm.log2.go k0 (fin false N).to_bits_nat)
        - ((k0 : ℝ) + Real.log (fv (fin false N)) / Real.log 2)| ≤ 1 / 2 ^ 24 := by
  obtain ⟨q, s, rfl, hq, hq', hs⟩ := F64.Bits.wf_normal_decomp hN hw.1 hw.2
  rw [F64.Bits.to_bits_nat_normal false hq hq']
  simp only [Bool.false_eq_true, if_false, Nat.zero_add]
  obtain ⟨k, x, hr, hxf, hk1, hk2, hx1, hx2, hval⟩ := reduce_spec hq hq' hs
  rw [go2_eq, hr]
  obtain ⟨hf, he⟩ := go2Body_coarse (k := k0 + k) hxf hx1 hx2 (by rw [abs_le]; constructor <;> omega)
  refine ⟨hf, ?_⟩
  have hxpos : 0 < fv x := by linarith
  have hl := log_two_pos
  rw [hval, Real.log_mul (zpow_ne_zero _ two_ne_zero) hxpos.ne', Real.log_zpow]
  have e : ((k0 + k : ℤ) : ℝ) + Real.log (fv x) / Real.log 2
      = (k0 : ℝ) + ((k : ℝ) * Real.log 2 + Real.log (fv x)) / Real.log 2 := by
    push_cast; field_simp; ring
  rw [e] at he
  exact he

theorem log2_unfold (x0 : F64) : Libm.log2 x0 =
    if x0.to_bits_nat / 2 ^ 32 < 0x00100000 ∨ x0.to_bits_nat / 2 ^ 32 / 2 ^ 31 > 0 then
      if (x0.to_bits_nat * 2) % 2 ^ 64 = 0 then F64.div Libm.cm1 (F64.mul x0 x0)
      else if x0.to_bits_nat / 2 ^ 32 / 2 ^ 31 > 0 then F64.div (F64.sub x0 x0) Libm.c0
      else Libm.log2.go (-54) (F64.mul x0 Libm.x1p54).to_bits_nat
    else if x0.to_bits_nat / 2 ^ 32 ≥ 0x7ff00000 then x0
    else if x0.to_bits_nat / 2 ^ 32 = 0x3ff00000 ∧ x0.to_bits_nat % 2 ^ 32 = 0 then Libm.c0
    else Libm.log2.go 0 x0.to_bits_nat := rfl

/-- coarse accuracy of the libm `log2` port: every finite positive double (normal or subnormal) -/
theorem libm_log2_coarse (n : ℕ) (hn : 0 < n) (hw : (F64.fin false n).WF) :
    (Libm.log2 (F64.fin false n)).is_finite = true ∧
    |fv (Libm.log2 (F64.fin false n)) - Real.log (fv (F64.fin false n)) / Real.log 2| ≤ 1 / 2 ^ 24 := by
  rw [log2_unfold]
  by_cases hN : 2 ^ 52 ≤ n
  · -- normal
    obtain ⟨q, s, hnq, hq, hq', hs⟩ := F64.Bits.wf_normal_decomp hN hw.1 hw.2
    have hbits := F64.Bits.to_bits_nat_normal false hq hq' (s := s)
    simp only [Bool.false_eq_true, if_false, Nat.zero_add] at hbits
    rw [← hnq] at hbits
    have hg := go2_normal (k0 := 0) (by norm_num) le_rfl hN hw
    rw [hbits] at hg ⊢
    rw [if_neg (by omega), if_neg (by omega)]
    by_cases h3 : ((s + 1) * 2 ^ 52 + (q - 2 ^ 52)) / 2 ^ 32 = 0x3ff00000 ∧
        ((s + 1) * 2 ^ 52 + (q - 2 ^ 52)) % 2 ^ 32 = 0
    · rw [if_pos h3]
      have hs' : s = 1022 := by omega
      have hq'' : q = 2 ^ 52 := by omega
      refine ⟨rfl, ?_⟩
      have e0 : fv Libm.c0 = 0 := by unfold fv; rw [c0_toInt]; simp
      have e1 : fv (fin false n) = 1 := by
        rw [hnq, hs', fv_fin_pow q (by norm_num), hq'']
        norm_num
      rw [e0, e1, Real.log_one, zero_div, sub_zero, abs_zero]
      positivity
    · rw [if_neg h3]
      refine ⟨hg.1, ?_⟩
      have := hg.2
      rwa [Int.cast_zero, zero_add] at this
  · -- subnormal
    have hlt : n < 2 ^ 52 := by omega
    rw [to_bits_small (by omega : n < 2 ^ 53)]
    rw [if_pos (Or.inl (by omega)), if_neg (by omega), if_neg (by omega), mul_x1p54 hn hlt]
    have hw' : (fin false (n * 2 ^ 54)).WF := by
      rw [← mul_x1p54 hn hlt]; exact mul_WF _ _
    have hN' : 2 ^ 52 ≤ n * 2 ^ 54 := by
      calc 2 ^ 52 ≤ 1 * 2 ^ 54 := by norm_num
        _ ≤ n * 2 ^ 54 := Nat.mul_le_mul_right _ hn
    obtain ⟨hf, he⟩ := go2_normal (k0 := -54) le_rfl (by norm_num) hN' hw'
    refine ⟨hf, ?_⟩
    have hpos : 0 < fv (fin false n) := by
      rw [fv_fin_nat]; have : (0 : ℝ) < n := by exact_mod_cast hn
      positivity
    have hsc : fv (fin false (n * 2 ^ 54)) = 2 ^ 54 * fv (fin false n) := by
      rw [fv_fin_nat, fv_fin_nat, Nat.cast_mul, Nat.cast_pow, Nat.cast_ofNat]; ring
    have hl := log_two_pos
    rw [hsc, Real.log_mul (by positivity) hpos.ne', Real.log_pow] at he
    have e : ((-54 : ℤ) : ℝ) + (((54 : ℕ) : ℝ) * Real.log 2 + Real.log (fv (fin false n))) / Real.log 2
        = Real.log (fv (fin false n)) / Real.log 2 := by
      push_cast; field_simp; ring
    rw [e] at he
    exact he

end Log2Seed
