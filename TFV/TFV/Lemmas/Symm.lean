/-
Lemmas.Symm — sign symmetry and commutativity of the binary64 primitives and of the error-free transformations,
"up to the sign of a zero".

* `F64.eqz x y` : `x = y`, or both are (finite) zeros — "equal up to the sign of a zero".  It is an equivalence and a
  CONGRUENCE for `neg`, `add`, `sub`, `mul`, `fma` on ALL of `F64` (NaN and infinities included): the sign of a zero
  operand can only influence the sign of a zero result.
* negation: `mul (neg x) y = neg (mul x y)` bit for bit; `add (neg x) (neg y)` and `fma (neg x) y (neg z)` agree with
  `neg (add x y)`, `neg (fma x y z)` up to the sign of an exact zero (`x + (−x) = +0` both ways in IEEE).
* `TwoFloat.eqz`, congruence / negation symmetry of `fast_two_sum`, `new_add`, `new_sub`, `new_mul`.
* `new_sub_eqz_new_add_neg` (all operands), exact when the minuend is not `−0`.
* `new_add_comm` : 2Sum is commutative bit for bit whenever both low words are finite (or an operand / the sum is not
  finite) — condition `CommOK`; `new_add_lo_ne_negZero` : the error word of 2Sum is never `−0`;
  `new_add_not_comm` : the kernel-checked exception at `|a| = f64::MAX` (spurious overflow of `s ⊖ b`).
* `new_sub_swap` : `−new_sub y x ≈ new_sub x y` under `SwapOK`.
* `twoSum_int_top`, `new_add_lo_finite_of_lt_max`, `commOK_of_lt_max`, `swapOK_of_lt_max` : below `f64::MAX` in
  magnitude 2Sum never overflows spuriously, so `CommOK` / `SwapOK` hold for all well-formed words `≠ ±MAX`.
* `TwoFloat.dwTail` : the common tail of `TwoFloat ± TwoFloat`, its congruence and oddness; `TwoFloat.eqz.valid`.
-/
import TFV.Spec.Comm
import TFV.Lemmas.Inv

set_option exponentiation.threshold 3000

namespace F64

attribute [local irreducible] pack

/-! ## equality up to the sign of a zero -/

/-- equal, or both finite zeros -/
def eqz (x y : F64) : Prop :=
  x = y ∨ (x.toInt = 0 ∧ y.toInt = 0 ∧ x.is_finite = true ∧ y.is_finite = true)

instance (x y : F64) : Decidable (eqz x y) := by unfold eqz; infer_instance

theorem eqz_iff {x y : F64} : eqz x y ↔ x = y ∨ ∃ s t, x = fin s 0 ∧ y = fin t 0 := by
  unfold eqz
  constructor
  · rintro (h | ⟨h1, h2, h3, h4⟩)
    · exact Or.inl h
    · obtain ⟨s, m, rfl⟩ := is_finite_iff.mp h3
      obtain ⟨t, n, rfl⟩ := is_finite_iff.mp h4
      rw [TwoFloat.toInt_eq_zero_iff] at h1 h2
      subst h1; subst h2
      exact Or.inr ⟨s, t, rfl, rfl⟩
  · rintro (h | ⟨s, t, rfl, rfl⟩)
    · exact Or.inl h
    · exact Or.inr ⟨toInt_zero s, toInt_zero t, rfl, rfl⟩

theorem eqz.refl (x : F64) : eqz x x := Or.inl rfl

theorem eqz.of_eq {x y : F64} (h : x = y) : eqz x y := Or.inl h

theorem eqz.symm {x y : F64} (h : eqz x y) : eqz y x := by
  rcases h with h | ⟨h1, h2, h3, h4⟩
  · exact Or.inl h.symm
  · exact Or.inr ⟨h2, h1, h4, h3⟩

theorem eqz.trans {x y z : F64} (h : eqz x y) (h' : eqz y z) : eqz x z := by
  rcases h with rfl | ⟨h1, h2, h3, h4⟩
  · exact h'
  · rcases h' with rfl | ⟨g1, g2, g3, g4⟩
    · exact Or.inr ⟨h1, h2, h3, h4⟩
    · exact Or.inr ⟨h1, g2, h3, g4⟩

theorem eqz_zero (s t : Bool) : eqz (fin s 0) (fin t 0) :=
  Or.inr ⟨toInt_zero s, toInt_zero t, rfl, rfl⟩

/-- finite words with the same value are equal up to the sign of a zero -/
theorem eqz_of_toInt_eq {x y : F64} (hx : x.is_finite = true) (hy : y.is_finite = true)
    (h : x.toInt = y.toInt) : eqz x y := by
  obtain ⟨s, m, rfl⟩ := is_finite_iff.mp hx
  obtain ⟨t, n, rfl⟩ := is_finite_iff.mp hy
  by_cases h0 : (fin s m).toInt = 0
  · exact Or.inr ⟨h0, h ▸ h0, rfl, rfl⟩
  · left
    have hm : m ≠ 0 := fun e => h0 (TwoFloat.toInt_eq_zero_iff.2 e)
    rw [toInt_fin, toInt_fin] at h
    cases s <;> cases t <;> simp at h <;> first | (subst h; rfl) | omega

theorem eqz.toInt_eq {x y : F64} (h : eqz x y) : x.toInt = y.toInt := by
  rcases h with rfl | ⟨h1, h2, _, _⟩
  · rfl
  · rw [h1, h2]

theorem eqz.is_finite_eq {x y : F64} (h : eqz x y) : x.is_finite = y.is_finite := by
  rcases h with rfl | ⟨_, _, h3, h4⟩
  · rfl
  · rw [h3, h4]

/-- a non-zero or non-finite word is pinned down exactly -/
theorem eqz.eq_of_ne_zero {x y : F64} (h : eqz x y) (h0 : x.toInt ≠ 0 ∨ x.is_finite = false) : x = y := by
  rcases h with h | ⟨h1, _, h3, _⟩
  · exact h
  · rcases h0 with h0 | h0
    · exact absurd h1 h0
    · rw [h3] at h0; exact absurd h0 (by decide)

/-! ## congruence -/

theorem eqz.neg {x y : F64} (h : eqz x y) : eqz (neg x) (neg y) := by
  rcases eqz_iff.1 h with rfl | ⟨s, t, rfl, rfl⟩
  · exact eqz.refl _
  · exact eqz_zero _ _

theorem roundSigned_eqz (num : Int) (den : Nat) (zs zs' : Bool) :
    eqz (roundSigned num den zs) (roundSigned num den zs') := by
  unfold roundSigned
  by_cases h0 : num = 0
  · rw [if_pos h0, if_pos h0]; exact eqz_zero _ _
  · rw [if_neg h0, if_neg h0]; exact eqz.refl _

theorem add_eqz_left {x x' : F64} (y : F64) (h : eqz x x') : eqz (add x y) (add x' y) := by
  rcases eqz_iff.1 h with rfl | ⟨s, t, rfl, rfl⟩
  · exact eqz.refl _
  · cases y with
    | nan => exact eqz.refl _
    | inf u => exact eqz.refl _
    | fin u n =>
      rw [add_fin_fin, add_fin_fin, toInt_zero, toInt_zero]
      exact roundSigned_eqz _ _ _ _

theorem add_eqz_right (x : F64) {y y' : F64} (h : eqz y y') : eqz (add x y) (add x y') := by
  rw [add_comm x y, add_comm x y']; exact add_eqz_left x h

theorem eqz.add {x x' y y' : F64} (hx : eqz x x') (hy : eqz y y') : eqz (add x y) (add x' y') :=
  (add_eqz_left y hx).trans (add_eqz_right x' hy)

theorem eqz.sub {x x' y y' : F64} (hx : eqz x x') (hy : eqz y y') : eqz (sub x y) (sub x' y') :=
  eqz.add hx hy.neg

theorem mul_eqz_left {x x' : F64} (y : F64) (h : eqz x x') : eqz (mul x y) (mul x' y) := by
  rcases eqz_iff.1 h with rfl | ⟨s, t, rfl, rfl⟩
  · exact eqz.refl _
  · cases y with
    | nan => exact eqz.refl _
    | inf u => exact eqz.refl _
    | fin u n =>
      have e : ∀ r : Bool, mul (fin r 0) (fin u n) = fin (r != u) 0 := fun r => by
        show (if 0 * n = 0 then fin (r != u) 0 else _) = _
        rw [if_pos (Nat.zero_mul n)]
      rw [e, e]; exact eqz_zero _ _

theorem mul_eqz_right (x : F64) {y y' : F64} (h : eqz y y') : eqz (mul x y) (mul x y') := by
  rw [mul_comm x y, mul_comm x y']; exact mul_eqz_left x h

theorem eqz.mul {x x' y y' : F64} (hx : eqz x x') (hy : eqz y y') : eqz (mul x y) (mul x' y') :=
  (mul_eqz_left y hx).trans (mul_eqz_right x' hy)

/-- `fma` on three finite words, as `roundSigned` (the literal `2^1074` folded into `unit`) -/
theorem fma_fin_fin_fin (s t u : Bool) (a b c : Nat) :
    fma (fin s a) (fin t b) (fin u c) =
      roundSigned ((if (s != t) = true then -((a * b : Nat) : Int) else ((a * b : Nat) : Int))
        + (fin u c).toInt * ((unit : Nat) : Int)) unit ((s != t) && u) := rfl

theorem fma_eqz_left {x x' : F64} (y z : F64) (h : eqz x x') : eqz (fma x y z) (fma x' y z) := by
  rcases eqz_iff.1 h with rfl | ⟨s, t, rfl, rfl⟩
  · exact eqz.refl _
  · cases y with
    | nan => cases z <;> exact eqz.refl _
    | inf u => cases z <;> exact eqz.refl _
    | fin u n =>
      cases z with
      | nan => exact eqz.refl _
      | inf v => exact eqz.refl _
      | fin v c =>
        rw [fma_fin_fin_fin, fma_fin_fin_fin]
        simp only [Nat.zero_mul, Int.natCast_zero, Int.neg_zero, ite_self]
        exact roundSigned_eqz _ _ _ _

theorem fma_eqz_mid (x : F64) {y y' : F64} (z : F64) (h : eqz y y') : eqz (fma x y z) (fma x y' z) := by
  rw [fma_comm x y, fma_comm x y']; exact fma_eqz_left x z h

theorem fma_eqz_right (x y : F64) {z z' : F64} (h : eqz z z') : eqz (fma x y z) (fma x y z') := by
  rcases eqz_iff.1 h with rfl | ⟨s, t, rfl, rfl⟩
  · exact eqz.refl _
  · cases x with
    | nan => exact eqz.refl _
    | inf u => cases y <;> exact eqz.refl _
    | fin u a =>
      cases y with
      | nan => exact eqz.refl _
      | inf v => exact eqz.refl _
      | fin v b =>
        rw [fma_fin_fin_fin, fma_fin_fin_fin, toInt_zero, toInt_zero]
        exact roundSigned_eqz _ _ _ _

theorem eqz.fma {x x' y y' z z' : F64} (hx : eqz x x') (hy : eqz y y') (hz : eqz z z') :
    eqz (fma x y z) (fma x' y' z') :=
  ((fma_eqz_left y z hx).trans (fma_eqz_mid x' z hy)).trans (fma_eqz_right x' y' hz)

/-! ## negation symmetry of the primitives -/

theorem pack_not (b : Bool) (m : Nat) : pack (!b) m = neg (pack b m) := by
  by_cases h : m ≤ maxFin
  · rw [pack_fin h, pack_fin h]; rfl
  · rw [pack_inf (Nat.lt_of_not_le h), pack_inf (Nat.lt_of_not_le h)]; rfl

/-- rounding is sign-symmetric; only the sign attached to an exact zero is not -/
theorem roundSigned_neg_of_ne {num : Int} (h0 : num ≠ 0) (den : Nat) (zs zs' : Bool) :
    roundSigned (-num) den zs = neg (roundSigned num den zs') := by
  unfold roundSigned
  rw [if_neg h0, if_neg (by omega : -num ≠ 0), Int.natAbs_neg, ← pack_not]
  congr 1
  by_cases hn : num < 0
  · simp [hn]; omega
  · simp [hn]; omega

theorem roundSigned_neg_eqz (num : Int) (den : Nat) (zs zs' : Bool) :
    eqz (roundSigned (-num) den zs) (neg (roundSigned num den zs')) := by
  by_cases h0 : num = 0
  · subst h0
    unfold roundSigned
    simp only [Int.neg_zero, if_true]
    exact eqz_zero _ _
  · exact eqz.of_eq (roundSigned_neg_of_ne h0 den zs zs')

/-- `(−x) ⊕ (−y)` is `−(x ⊕ y)` up to the sign of an exact zero sum -/
theorem add_neg_neg_eqz (x y : F64) : eqz (add (neg x) (neg y)) (neg (add x y)) := by
  cases x with
  | nan => exact eqz.refl _
  | inf s =>
    cases y with
    | nan => exact eqz.refl _
    | inf t => cases s <;> cases t <;> exact eqz.refl _
    | fin t b => exact eqz.refl _
  | fin s a =>
    cases y with
    | nan => exact eqz.refl _
    | inf t => exact eqz.refl _
    | fin t b =>
      show eqz (add (fin (!s) a) (fin (!t) b)) _
      rw [add_fin_fin, add_fin_fin]
      have e : (fin (!s) a).toInt + (fin (!t) b).toInt = -((fin s a).toInt + (fin t b).toInt) := by
        have := toInt_neg (fin s a); have := toInt_neg (fin t b)
        simp only [neg] at *
        omega
      rw [e]; exact roundSigned_neg_eqz _ _ _ _

/-- the exact version: the only exception is an exact zero sum -/
theorem add_neg_neg_of_ne (x y : F64) (h : x.toInt + y.toInt ≠ 0 ∨ x.is_finite = false ∨ y.is_finite = false) :
    add (neg x) (neg y) = neg (add x y) := by
  cases x with
  | nan => rfl
  | inf s =>
    cases y with
    | nan => rfl
    | inf t => cases s <;> cases t <;> rfl
    | fin t b => rfl
  | fin s a =>
    cases y with
    | nan => rfl
    | inf t => rfl
    | fin t b =>
      have h0 : (fin s a).toInt + (fin t b).toInt ≠ 0 := by
        rcases h with h | h | h
        · exact h
        · simp [is_finite] at h
        · simp [is_finite] at h
      show add (fin (!s) a) (fin (!t) b) = _
      rw [add_fin_fin, add_fin_fin]
      have e : (fin (!s) a).toInt + (fin (!t) b).toInt = -((fin s a).toInt + (fin t b).toInt) := by
        have := toInt_neg (fin s a); have := toInt_neg (fin t b)
        simp only [neg] at *
        omega
      rw [e]; exact roundSigned_neg_of_ne h0 _ _ _

/-- `(−x) ⊗ y = −(x ⊗ y)` bit for bit, for all operands -/
theorem mul_neg_left (x y : F64) : mul (neg x) y = neg (mul x y) := by
  cases x with
  | nan => rfl
  | inf s =>
    cases y with
    | nan => rfl
    | inf t => cases s <;> cases t <;> rfl
    | fin t b =>
      show (if b = 0 then nan else inf ((!s) != t)) = neg (if b = 0 then nan else inf (s != t))
      by_cases hb : b = 0
      · rw [if_pos hb, if_pos hb]; rfl
      · rw [if_neg hb, if_neg hb]; cases s <;> cases t <;> rfl
  | fin s a =>
    cases y with
    | nan => rfl
    | inf t =>
      show (if a = 0 then nan else inf ((!s) != t)) = neg (if a = 0 then nan else inf (s != t))
      by_cases ha : a = 0
      · rw [if_pos ha, if_pos ha]; rfl
      · rw [if_neg ha, if_neg ha]; cases s <;> cases t <;> rfl
    | fin t b =>
      show (if a * b = 0 then fin ((!s) != t) 0 else pack ((!s) != t) (roundQ (a * b) (2 ^ 1074)))
        = neg (if a * b = 0 then fin (s != t) 0 else pack (s != t) (roundQ (a * b) (2 ^ 1074)))
      have eb : ((!s) != t) = !(s != t) := by cases s <;> cases t <;> rfl
      by_cases h0 : a * b = 0
      · rw [if_pos h0, if_pos h0, eb]; rfl
      · rw [if_neg h0, if_neg h0, eb, pack_not]

theorem mul_neg_right (x y : F64) : mul x (neg y) = neg (mul x y) := by
  rw [mul_comm, mul_neg_left, mul_comm]

/-- `fma (−x) y (−z)` is `−fma x y z` up to the sign of an exact zero -/
theorem fma_neg_eqz (x y z : F64) : eqz (fma (neg x) y (neg z)) (neg (fma x y z)) := by
  cases x with
  | nan => exact eqz.refl _
  | inf s =>
    cases y with
    | nan => exact eqz.refl _
    | inf t => cases z <;> cases s <;> cases t <;> (try rename_i u; cases u) <;> exact eqz.refl _
    | fin t b =>
      cases z with
      | nan => exact eqz.refl _
      | inf u =>
        show eqz (if b = 0 then nan else _) (neg (if b = 0 then nan else _))
        by_cases hb : b = 0
        · rw [if_pos hb, if_pos hb]; exact eqz.refl _
        · rw [if_neg hb, if_neg hb]; cases s <;> cases t <;> cases u <;> exact eqz.refl _
      | fin u c =>
        show eqz (if b = 0 then nan else _) (neg (if b = 0 then nan else _))
        by_cases hb : b = 0
        · rw [if_pos hb, if_pos hb]; exact eqz.refl _
        · rw [if_neg hb, if_neg hb]; cases s <;> cases t <;> exact eqz.refl _
  | fin s a =>
    cases y with
    | nan => cases z <;> exact eqz.refl _
    | inf t =>
      cases z with
      | nan => exact eqz.refl _
      | inf u =>
        show eqz (if a = 0 then nan else _) (neg (if a = 0 then nan else _))
        by_cases ha : a = 0
        · rw [if_pos ha, if_pos ha]; exact eqz.refl _
        · rw [if_neg ha, if_neg ha]; cases s <;> cases t <;> cases u <;> exact eqz.refl _
      | fin u c =>
        show eqz (if a = 0 then nan else _) (neg (if a = 0 then nan else _))
        by_cases ha : a = 0
        · rw [if_pos ha, if_pos ha]; exact eqz.refl _
        · rw [if_neg ha, if_neg ha]; cases s <;> cases t <;> exact eqz.refl _
    | fin t b =>
      cases z with
      | nan => exact eqz.refl _
      | inf u => exact eqz.refl _
      | fin u c =>
        show eqz (fma (fin (!s) a) (fin t b) (fin (!u) c)) _
        rw [fma_fin_fin_fin, fma_fin_fin_fin]
        have e : (if ((!s) != t) = true then -((a * b : Nat) : Int) else ((a * b : Nat) : Int))
              + (fin (!u) c).toInt * ((unit : Nat) : Int)
            = -((if (s != t) = true then -((a * b : Nat) : Int) else ((a * b : Nat) : Int))
              + (fin u c).toInt * ((unit : Nat) : Int)) := by
          have h1 : (fin (!u) c).toInt = -(fin u c).toInt := toInt_neg (fin u c)
          rw [h1]
          cases s <;> cases t <;> simp <;> ring
        rw [e]; exact roundSigned_neg_eqz _ _ _ _

end F64

/-! ## "is the negative of, up to the sign of a zero": compositional form of the negation symmetry -/

namespace F64

theorem negz_add {x x' y y' : F64} (hx : eqz x' (neg x)) (hy : eqz y' (neg y)) :
    eqz (add x' y') (neg (add x y)) :=
  (eqz.add hx hy).trans (add_neg_neg_eqz x y)

theorem negz_sub {x x' y y' : F64} (hx : eqz x' (neg x)) (hy : eqz y' (neg y)) :
    eqz (sub x' y') (neg (sub x y)) :=
  negz_add hx hy.neg

theorem negz_mul_left {x x' y y' : F64} (hx : eqz x' (neg x)) (hy : eqz y' y) :
    eqz (mul x' y') (neg (mul x y)) :=
  (eqz.mul hx hy).trans (eqz.of_eq (mul_neg_left x y))

theorem negz_mul_right {x x' y y' : F64} (hx : eqz x' x) (hy : eqz y' (neg y)) :
    eqz (mul x' y') (neg (mul x y)) :=
  (eqz.mul hx hy).trans (eqz.of_eq (mul_neg_right x y))

theorem negz_fma_left {x x' y y' z z' : F64} (hx : eqz x' (neg x)) (hy : eqz y' y) (hz : eqz z' (neg z)) :
    eqz (fma x' y' z') (neg (fma x y z)) :=
  (eqz.fma hx hy hz).trans (fma_neg_eqz x y z)

theorem negz_fma_right {x x' y y' z z' : F64} (hx : eqz x' x) (hy : eqz y' (neg y)) (hz : eqz z' (neg z)) :
    eqz (fma x' y' z') (neg (fma x y z)) := by
  rw [fma_comm x' y', fma_comm x y]; exact negz_fma_left hy hx hz

theorem negz_swap {x x' : F64} (h : eqz x' (neg x)) : eqz (neg x') x := by
  have := h.neg; rwa [neg_neg] at this

end F64

/-! ## pairs -/

namespace TwoFloat

/-- word-wise equality up to the signs of zero words -/
def eqz (s t : TwoFloat) : Prop := F64.eqz s.hi t.hi ∧ F64.eqz s.lo t.lo

instance (s t : TwoFloat) : Decidable (eqz s t) := by unfold eqz; infer_instance

theorem eqz.refl (s : TwoFloat) : eqz s s := ⟨F64.eqz.refl _, F64.eqz.refl _⟩
theorem eqz.of_eq {s t : TwoFloat} (h : s = t) : eqz s t := h ▸ eqz.refl s
theorem eqz.symm {s t : TwoFloat} (h : eqz s t) : eqz t s := ⟨h.1.symm, h.2.symm⟩
theorem eqz.trans {s t u : TwoFloat} (h : eqz s t) (h' : eqz t u) : eqz s u :=
  ⟨h.1.trans h'.1, h.2.trans h'.2⟩

/-- pairs equal up to zero signs have the same exact value -/
theorem eqz.V_eq {s t : TwoFloat} (h : eqz s t) : s.V = t.V := by
  unfold V; rw [h.1.toInt_eq, h.2.toInt_eq]

/-- the negation of a pair (`impl Neg for &TwoFloat`) -/
abbrev tneg (t : TwoFloat) : TwoFloat := arithmetic.impl_Neg_for_rTwoFloat.neg t

theorem tneg_hi (t : TwoFloat) : (tneg t).hi = F64.neg t.hi := rfl
theorem tneg_lo (t : TwoFloat) : (tneg t).lo = F64.neg t.lo := rfl

theorem eqz.tneg_congr {s t : TwoFloat} (h : eqz s t) : eqz (tneg s) (tneg t) := ⟨h.1.neg, h.2.neg⟩

theorem tnegz_swap {s t : TwoFloat} (h : eqz s (tneg t)) : eqz (tneg s) t :=
  ⟨F64.negz_swap h.1, F64.negz_swap h.2⟩

end TwoFloat

namespace F64

open TwoFloat

/-! ### Fast2Sum -/

theorem fast_two_sum_eqz {a a' b b' : F64} (ha : eqz a a') (hb : eqz b b') :
    TwoFloat.eqz (arithmetic.fast_two_sum a b) (arithmetic.fast_two_sum a' b') := by
  rw [fast_two_sum_eq, fast_two_sum_eq]
  exact ⟨eqz.add ha hb, eqz.sub hb (eqz.sub (eqz.add ha hb) ha)⟩

theorem fast_two_sum_negz {a a' b b' : F64} (ha : eqz a' (neg a)) (hb : eqz b' (neg b)) :
    TwoFloat.eqz (arithmetic.fast_two_sum a' b') (tneg (arithmetic.fast_two_sum a b)) := by
  rw [fast_two_sum_eq, fast_two_sum_eq]
  exact ⟨negz_add ha hb, negz_sub hb (negz_sub (negz_add ha hb) ha)⟩

/-- Fast2Sum is odd, up to the signs of zero words (all operands) -/
theorem fast_two_sum_neg_eqz (a b : F64) :
    TwoFloat.eqz (arithmetic.fast_two_sum (neg a) (neg b)) (tneg (arithmetic.fast_two_sum a b)) :=
  fast_two_sum_negz (eqz.refl _) (eqz.refl _)

/-! ### 2Sum -/

theorem new_add_eqz {a a' b b' : F64} (ha : eqz a a') (hb : eqz b b') :
    TwoFloat.eqz (TwoFloat.new_add a b) (TwoFloat.new_add a' b') := by
  rw [new_add_eq, new_add_eq]
  have hs := eqz.add ha hb
  have haa := eqz.sub hs hb
  exact ⟨hs, eqz.add (eqz.sub ha haa) (eqz.sub hb (eqz.sub hs haa))⟩

theorem new_sub_eqz {a a' b b' : F64} (ha : eqz a a') (hb : eqz b b') :
    TwoFloat.eqz (TwoFloat.new_sub a b) (TwoFloat.new_sub a' b') := by
  rw [new_sub_eq, new_sub_eq]
  have hs := eqz.sub ha hb
  have haa := eqz.add hs hb
  exact ⟨hs, eqz.sub (eqz.sub ha haa) (eqz.add hb (eqz.sub hs haa))⟩

theorem new_add_negz {a a' b b' : F64} (ha : eqz a' (neg a)) (hb : eqz b' (neg b)) :
    TwoFloat.eqz (TwoFloat.new_add a' b') (tneg (TwoFloat.new_add a b)) := by
  rw [new_add_eq, new_add_eq]
  have hs := negz_add ha hb
  have haa := negz_sub hs hb
  exact ⟨hs, negz_add (negz_sub ha haa) (negz_sub hb (negz_sub hs haa))⟩

theorem new_sub_negz {a a' b b' : F64} (ha : eqz a' (neg a)) (hb : eqz b' (neg b)) :
    TwoFloat.eqz (TwoFloat.new_sub a' b') (tneg (TwoFloat.new_sub a b)) := by
  rw [new_sub_eq, new_sub_eq]
  have hs := negz_sub ha hb
  have haa := negz_add hs hb
  exact ⟨hs, negz_sub (negz_sub ha haa) (negz_add hb (negz_sub hs haa))⟩

/-- 2Sum is odd, up to the signs of zero words (all operands) -/
theorem new_add_neg_eqz (a b : F64) :
    TwoFloat.eqz (TwoFloat.new_add (neg a) (neg b)) (tneg (TwoFloat.new_add a b)) :=
  new_add_negz (eqz.refl _) (eqz.refl _)

theorem new_sub_neg_eqz (a b : F64) :
    TwoFloat.eqz (TwoFloat.new_sub (neg a) (neg b)) (tneg (TwoFloat.new_sub a b)) :=
  new_sub_negz (eqz.refl _) (eqz.refl _)

/-- `new_sub a b` against `new_add a (−b)`: same high word, low words equal up to the sign of a zero
(ALL operands, non-finite included).  The two texts differ only in `db`: `−(b ⊕ bb)` against `(−b) ⊖ bb`. -/
theorem new_sub_eqz_new_add_neg (a b : F64) :
    (TwoFloat.new_sub a b).hi = (TwoFloat.new_add a (neg b)).hi ∧
    eqz (TwoFloat.new_sub a b).lo (TwoFloat.new_add a (neg b)).lo := by
  rw [new_sub_eq, new_add_eq]
  refine ⟨rfl, ?_⟩
  simp only [sub_eq_add_neg, neg_neg]
  exact add_eqz_right _ (add_neg_neg_eqz _ _).symm

/-! ### 2Prod -/

theorem new_mul_eqz {a a' b b' : F64} (ha : eqz a a') (hb : eqz b b') :
    TwoFloat.eqz (TwoFloat.new_mul a b) (TwoFloat.new_mul a' b') := by
  rw [new_mul_eq, new_mul_eq]
  exact ⟨eqz.mul ha hb, eqz.fma ha hb (eqz.mul ha hb).neg⟩

theorem new_mul_negz_left {a a' b b' : F64} (ha : eqz a' (neg a)) (hb : eqz b' b) :
    TwoFloat.eqz (TwoFloat.new_mul a' b') (tneg (TwoFloat.new_mul a b)) := by
  rw [new_mul_eq, new_mul_eq]
  exact ⟨negz_mul_left ha hb, negz_fma_left ha hb (negz_mul_left ha hb).neg⟩

theorem new_mul_negz_right {a a' b b' : F64} (ha : eqz a' a) (hb : eqz b' (neg b)) :
    TwoFloat.eqz (TwoFloat.new_mul a' b') (tneg (TwoFloat.new_mul a b)) := by
  rw [new_mul_eq, new_mul_eq]
  exact ⟨negz_mul_right ha hb, negz_fma_right ha hb (negz_mul_right ha hb).neg⟩

end F64

/-! ## where a `−0` can come from -/

namespace F64

open TwoFloat

attribute [local irreducible] pack

theorem pack_ne_nan (s : Bool) (m : Nat) : pack s m ≠ nan := by
  by_cases h : m ≤ maxFin
  · rw [pack_fin h]; exact fun e => F64.noConfusion e
  · rw [pack_inf (Nat.lt_of_not_le h)]; exact fun e => F64.noConfusion e

theorem roundSigned_ne_nan (num : Int) (den : Nat) (zs : Bool) : roundSigned num den zs ≠ nan := by
  unfold roundSigned
  by_cases h0 : num = 0
  · rw [if_pos h0]; exact fun e => F64.noConfusion e
  · rw [if_neg h0]; exact pack_ne_nan _ _

/-- a correctly rounded non-zero sum is not a zero: `roundSigned` yields `−0` only from an exact zero -/
theorem roundSigned_one_eq_negZero {num : Int} {zs : Bool} (h : roundSigned num 1 zs = fin true 0) :
    num = 0 ∧ zs = true := by
  unfold roundSigned at h
  by_cases h0 : num = 0
  · rw [if_pos h0] at h
    injection h with h1 _
    exact ⟨h0, h1⟩
  · exfalso
    rw [if_neg h0] at h
    by_cases hm : roundQ num.natAbs 1 ≤ maxFin
    · rw [pack_fin hm] at h
      injection h with _ h2
      have : rn53 num.natAbs = 0 := h2
      rw [rn53_eq_zero_iff] at this
      omega
    · rw [pack_inf (Nat.lt_of_not_le hm)] at h
      exact F64.noConfusion h

/-- IEEE: a sum is `−0` only if both operands are `−0` -/
theorem add_eq_negZero {x y : F64} (h : add x y = fin true 0) : x = fin true 0 ∧ y = fin true 0 := by
  cases x with
  | nan => exact F64.noConfusion h
  | inf s =>
    cases y with
    | nan => exact F64.noConfusion h
    | inf t =>
      exfalso
      have h' : (if s = t then inf s else nan) = fin true 0 := h
      by_cases e : s = t
      · rw [if_pos e] at h'; exact F64.noConfusion h'
      · rw [if_neg e] at h'; exact F64.noConfusion h'
    | fin t b => exact F64.noConfusion h
  | fin s a =>
    cases y with
    | nan => exact F64.noConfusion h
    | inf t => exact F64.noConfusion h
    | fin t b =>
      rw [add_fin_fin] at h
      obtain ⟨h0, hz⟩ := roundSigned_one_eq_negZero h
      have hs : s = true := by cases s <;> simp_all
      have ht : t = true := by cases t <;> simp_all
      subst hs; subst ht
      simp only [toInt] at h0
      have ha : a = 0 := by omega
      have hb : b = 0 := by omega
      subst ha; subst hb
      exact ⟨rfl, rfl⟩

/-- the sign of a zero addend matters only next to a `−0` -/
theorem add_zero_sign_irrelevant {x : F64} (hx : x ≠ fin true 0) (s t : Bool) :
    add x (fin s 0) = add x (fin t 0) := by
  cases x with
  | nan => rfl
  | inf u => rfl
  | fin u n =>
    rw [add_fin_fin, add_fin_fin, toInt_zero, toInt_zero]
    unfold roundSigned
    by_cases h0 : (fin u n).toInt + 0 = 0
    · rw [if_pos h0, if_pos h0]
      have hn : n = 0 := by
        rw [Int.add_zero] at h0; exact TwoFloat.toInt_eq_zero_iff.1 h0
      subst hn
      have hu : u = false := by
        cases u
        · rfl
        · exact absurd rfl hx
      subst hu; rfl
    · rw [if_neg h0, if_neg h0]

/-- the low word of 2Sum is never `−0` (ALL operands) -/
theorem new_add_lo_ne_negZero (a b : F64) : (TwoFloat.new_add a b).lo ≠ fin true 0 := by
  rw [new_add_eq]
  intro h
  obtain ⟨hda, hdb⟩ := add_eq_negZero h
  obtain ⟨ha, _⟩ := add_eq_negZero hda
  obtain ⟨hb, hbb⟩ := add_eq_negZero hdb
  subst ha; subst hb
  revert hbb
  decide

/-! ## `new_sub a b` against `new_add a (−b)`, bit for bit -/

/-- if the minuend is not `−0`, `new_sub a b` and `new_add a (−b)` are bit-identical (ALL `b`) -/
theorem new_sub_eq_new_add_neg {a : F64} (ha : a ≠ fin true 0) (b : F64) :
    TwoFloat.new_sub a b = TwoFloat.new_add a (neg b) := by
  rw [new_sub_eq, new_add_eq]
  simp only [sub_eq_add_neg, neg_neg]
  congr 1
  -- `da ⊕ −(b ⊕ bb)` against `da ⊕ ((−b) ⊕ (−bb))`
  rcases eqz_iff.1 (add_neg_neg_eqz b (add (add a (neg b)) (neg (add (add a (neg b)) b))))
    with e | ⟨s, t, e1, e2⟩
  · rw [e]
  · rw [e1, e2]
    apply add_zero_sign_irrelevant
    intro hda
    exact ha (add_eq_negZero hda).1

/-! ## commutativity of 2Sum -/

theorem add_fin_fin_ne_nan (s t : Bool) (a b : Nat) : add (fin s a) (fin t b) ≠ nan := by
  rw [add_fin_fin]; exact roundSigned_ne_nan _ _ _

/-- a non-finite operand: both orders give the same (non-finite) pair -/
theorem new_add_comm_of_not_finite {a b : F64} (h : a.is_finite = false ∨ b.is_finite = false) :
    TwoFloat.new_add a b = TwoFloat.new_add b a := by
  rw [new_add_eq, new_add_eq]
  cases a with
  | nan => cases b <;> rfl
  | inf s =>
    cases b with
    | nan => rfl
    | inf t => cases s <;> cases t <;> rfl
    | fin t n => cases s <;> rfl
  | fin s m =>
    cases b with
    | nan => rfl
    | inf t => cases t <;> rfl
    | fin t n => simp [is_finite] at h

/-- the sum overflows: both orders give `(±∞, NaN)` -/
theorem new_add_comm_of_overflow {a b : F64} (ha : a.is_finite = true) (hb : b.is_finite = true)
    (h : (add a b).is_finite = false) :
    TwoFloat.new_add a b = TwoFloat.new_add b a := by
  obtain ⟨s, m, rfl⟩ := is_finite_iff.mp ha
  obtain ⟨t, n, rfl⟩ := is_finite_iff.mp hb
  rw [new_add_eq, new_add_eq, add_comm (fin t n) (fin s m)]
  have hn := add_fin_fin_ne_nan s t m n
  generalize add (fin s m) (fin t n) = S at h hn
  cases S with
  | nan => exact absurd rfl hn
  | inf u => cases u <;> rfl
  | fin u k => simp [is_finite] at h

/-- **2Sum is commutative bit for bit** whenever both low words are finite (no spurious overflow of `s ⊖ b`):
the high words agree by `F64.add_comm`, the low words are the same exact error term, and a zero error is `+0` in
both orders. -/
theorem new_add_comm_of_lo_finite {a b : F64} (hwa : a.WF) (hwb : b.WF)
    (h1 : (TwoFloat.new_add a b).lo.is_finite = true) (h2 : (TwoFloat.new_add b a).lo.is_finite = true) :
    TwoFloat.new_add a b = TwoFloat.new_add b a := by
  obtain ⟨ha, hb⟩ := new_add_finite_of_lo h1
  obtain ⟨_, v1⟩ := new_add_words_of_lo_finite ha hb hwa hwb h1
  obtain ⟨_, v2⟩ := new_add_words_of_lo_finite hb ha hwb hwa h2
  have hhi : (TwoFloat.new_add a b).hi = (TwoFloat.new_add b a).hi := add_comm a b
  have hlo : (TwoFloat.new_add a b).lo = (TwoFloat.new_add b a).lo := by
    have hv : (TwoFloat.new_add a b).lo.toInt = (TwoFloat.new_add b a).lo.toInt := by
      rw [v1.2, v2.2, Int.add_comm b.toInt a.toInt]
    rcases eqz_iff.1 (eqz_of_toInt_eq h1 h2 hv) with e | ⟨s, t, e1, e2⟩
    · exact e
    · have n1 := new_add_lo_ne_negZero a b
      have n2 := new_add_lo_ne_negZero b a
      rw [e1] at n1; rw [e2] at n2
      rw [e1, e2]
      cases s
      · cases t
        · rfl
        · exact absurd rfl n2
      · exact absurd rfl n1
  cases hx : TwoFloat.new_add a b; cases hy : TwoFloat.new_add b a
  rw [hx] at hhi hlo; rw [hy] at hhi hlo
  simp only at hhi hlo
  rw [hhi, hlo]

/-- the condition under which the two orders of 2Sum are proved bit-identical: an operand or the rounded sum is
not finite, or both low words are finite -/
def CommOK (a b : F64) : Prop :=
  a.is_finite = false ∨ b.is_finite = false ∨ (add a b).is_finite = false ∨
    ((TwoFloat.new_add a b).lo.is_finite = true ∧ (TwoFloat.new_add b a).lo.is_finite = true)

instance (a b : F64) : Decidable (CommOK a b) := by unfold CommOK; infer_instance

theorem new_add_comm {a b : F64} (hwa : a.WF) (hwb : b.WF) (h : CommOK a b) :
    TwoFloat.new_add a b = TwoFloat.new_add b a := by
  rcases h with h | h | h | ⟨h1, h2⟩
  · exact new_add_comm_of_not_finite (Or.inl h)
  · exact new_add_comm_of_not_finite (Or.inr h)
  · by_cases ha : a.is_finite = true
    · by_cases hb : b.is_finite = true
      · exact new_add_comm_of_overflow ha hb h
      · exact new_add_comm_of_not_finite (Or.inr (is_finite_eq_false_iff.2 hb))
    · exact new_add_comm_of_not_finite (Or.inl (is_finite_eq_false_iff.2 ha))
  · exact new_add_comm_of_lo_finite hwa hwb h1 h2

/-- in particular for finite operands below `2^1023` in magnitude -/
theorem commOK_of_half {a b : F64} (ha : a.is_finite = true) (hb : b.is_finite = true)
    (hwa : a.WF) (hwb : b.WF) (hA : 2 * |a.toInt| ≤ (maxFin : Int)) (hB : 2 * |b.toInt| ≤ (maxFin : Int)) :
    CommOK a b :=
  Or.inr (Or.inr (Or.inr ⟨(new_add_words ha hb hwa hwb hA hB).2.1, (new_add_words hb ha hwb hwa hB hA).2.1⟩))

theorem CommOK.symm {a b : F64} (h : CommOK a b) : CommOK b a := by
  rcases h with h | h | h | ⟨h1, h2⟩
  · exact Or.inr (Or.inl h)
  · exact Or.inl h
  · exact Or.inr (Or.inr (Or.inl (by rwa [add_comm])))
  · exact Or.inr (Or.inr (Or.inr ⟨h2, h1⟩))

/-- the condition cannot be dropped: at `a = f64::MAX`, `b = −1.5·ulp(MAX) = −3·2^970` the subtraction `s ⊖ b`
of 2Sum rounds to `2^1024` (overflow) in the order `(a, b)` but not in the order `(b, a)`:
`new_add a b = (MAX − ulp, NaN)` whereas `new_add b a = (MAX − ulp, −2^970)`. -/
theorem new_add_not_comm :
    TwoFloat.new_add (fin false maxFin) (fin true (3 * 2 ^ 2044))
        = ⟨fin false ((2 ^ 53 - 2) * 2 ^ 2045), nan⟩ ∧
    TwoFloat.new_add (fin true (3 * 2 ^ 2044)) (fin false maxFin)
        = ⟨fin false ((2 ^ 53 - 2) * 2 ^ 2045), fin true (2 ^ 2044)⟩ := by
  decide +kernel

/-! ## the swap symmetry of `new_sub` -/

/-- `−new_sub y x` and `new_sub x y` agree up to zero signs whenever both low words are finite -/
theorem new_sub_swap_eqz {x y : F64} (hwx : x.WF) (hwy : y.WF)
    (h1 : (TwoFloat.new_sub x y).lo.is_finite = true) (h2 : (TwoFloat.new_sub y x).lo.is_finite = true) :
    TwoFloat.eqz (tneg (TwoFloat.new_sub y x)) (TwoFloat.new_sub x y) := by
  obtain ⟨hx, hy⟩ := new_sub_finite_of_lo h1
  obtain ⟨u1, v1⟩ := new_sub_words_of_lo_finite hx hy hwx hwy h1
  obtain ⟨u2, v2⟩ := new_sub_words_of_lo_finite hy hx hwy hwx h2
  have e : y.toInt - x.toInt = -(x.toInt - y.toInt) := by ring
  constructor
  · apply eqz_of_toInt_eq
    · rw [tneg_hi, is_finite_neg]; exact u2.1
    · exact u1.1
    · rw [tneg_hi, toInt_neg, u2.2, u1.2, e, rnI_neg]; ring
  · apply eqz_of_toInt_eq
    · rw [tneg_lo, is_finite_neg]; exact v2.1
    · exact v1.1
    · rw [tneg_lo, toInt_neg, v2.2, v1.2, e, rnI_neg]; ring

/-- a non-finite operand: `−new_sub y x = new_sub x y` bit for bit -/
theorem new_sub_swap_of_not_finite {x y : F64} (h : x.is_finite = false ∨ y.is_finite = false) :
    tneg (TwoFloat.new_sub y x) = TwoFloat.new_sub x y := by
  show (⟨neg (TwoFloat.new_sub y x).hi, neg (TwoFloat.new_sub y x).lo⟩ : TwoFloat) = _
  rw [new_sub_eq, new_sub_eq]
  cases x with
  | nan => cases y <;> rfl
  | inf s =>
    cases y with
    | nan => rfl
    | inf t => cases s <;> cases t <;> rfl
    | fin t n => cases s <;> rfl
  | fin s m =>
    cases y with
    | nan => rfl
    | inf t => cases t <;> rfl
    | fin t n => simp [is_finite] at h

end F64

/-! ## the operators as functions of their error-free transformations -/

namespace TwoFloat

open F64

/-- the common tail of `TwoFloat ± TwoFloat` (AccurateDWPlusDW after the two 2Sums `s`, `t`) -/
def dwTail (s t : TwoFloat) : TwoFloat :=
  arithmetic.fast_two_sum (arithmetic.fast_two_sum s.hi (F64.add s.lo t.hi)).hi
    (F64.add t.lo (arithmetic.fast_two_sum s.hi (F64.add s.lo t.hi)).lo)

theorem add_tt_eq_tail (a b : TwoFloat) :
    arithmetic.impl_Add_rTwoFloat_for_rTwoFloat.add a b
      = dwTail (TwoFloat.new_add a.hi b.hi) (TwoFloat.new_add a.lo b.lo) := rfl

theorem sub_tt_eq_tail (a b : TwoFloat) :
    arithmetic.impl_Sub_rTwoFloat_for_rTwoFloat.sub a b
      = dwTail (TwoFloat.new_sub a.hi b.hi) (TwoFloat.new_sub a.lo b.lo) := rfl

theorem dwTail_eqz {s s' t t' : TwoFloat} (hs : eqz s s') (ht : eqz t t') :
    eqz (dwTail s t) (dwTail s' t') := by
  unfold dwTail
  have hv := fast_two_sum_eqz hs.1 (F64.eqz.add hs.2 ht.1)
  exact fast_two_sum_eqz hv.1 (F64.eqz.add ht.2 hv.2)

theorem dwTail_negz {s s' t t' : TwoFloat} (hs : eqz s' (tneg s)) (ht : eqz t' (tneg t)) :
    eqz (dwTail s' t') (tneg (dwTail s t)) := by
  unfold dwTail
  have hv := fast_two_sum_negz hs.1 (negz_add hs.2 ht.1)
  exact fast_two_sum_negz hv.1 (negz_add ht.2 hv.2)

/-- a finite high word of the tail forces finite low words of both 2Sums -/
theorem dwTail_finite {s t : TwoFloat} (h : (dwTail s t).hi.is_finite = true) :
    s.lo.is_finite = true ∧ t.lo.is_finite = true := by
  unfold dwTail at h
  rw [fast_two_sum_eq (arithmetic.fast_two_sum s.hi (F64.add s.lo t.hi)).hi] at h
  simp only at h
  obtain ⟨_, fw⟩ := is_finite_of_add h
  obtain ⟨ftl, fvl⟩ := is_finite_of_add fw
  rw [fast_two_sum_eq] at fvl
  simp only at fvl
  obtain ⟨fc, _⟩ := is_finite_of_sub fvl
  exact ⟨(is_finite_of_add fc).1, ftl⟩

theorem mul_tt_eq (a b : TwoFloat) :
    arithmetic.impl_Mul_rTwoFloat_for_rTwoFloat.mul a b
      = arithmetic.fast_two_sum (TwoFloat.new_mul a.hi b.hi).hi
          (F64.add (TwoFloat.new_mul a.hi b.hi).lo
            (F64.fma a.lo b.hi (F64.fma a.hi b.lo (F64.mul a.lo b.lo)))) := rfl

end TwoFloat

/-! ## the swap symmetry of `new_sub`, remaining cases; validity is insensitive to zero signs -/

namespace F64

open TwoFloat

/-- `y ⊖ x = −(x ⊖ y)` up to the sign of an exact zero difference -/
theorem sub_swap_eqz (x y : F64) : eqz (sub y x) (neg (sub x y)) := by
  have h := add_neg_neg_eqz x (neg y)
  rw [neg_neg, add_comm] at h
  exact h

/-- the difference overflows: `−new_sub y x = new_sub x y = (±∞, NaN)` bit for bit -/
theorem new_sub_swap_of_overflow {x y : F64} (hx : x.is_finite = true) (hy : y.is_finite = true)
    (h : (sub x y).is_finite = false) :
    tneg (TwoFloat.new_sub y x) = TwoFloat.new_sub x y := by
  have e : sub y x = neg (sub x y) :=
    (sub_swap_eqz x y).eq_of_ne_zero (Or.inr (by rw [(sub_swap_eqz x y).is_finite_eq, is_finite_neg]; exact h))
  obtain ⟨s, m, rfl⟩ := is_finite_iff.mp hx
  obtain ⟨t, n, rfl⟩ := is_finite_iff.mp hy
  show (⟨neg (TwoFloat.new_sub _ _).hi, neg (TwoFloat.new_sub _ _).lo⟩ : TwoFloat) = _
  rw [new_sub_eq, new_sub_eq, e]
  have hn : sub (fin s m) (fin t n) ≠ nan := add_fin_fin_ne_nan s (!t) m n
  generalize sub (fin s m) (fin t n) = S at h hn
  cases S with
  | nan => exact absurd rfl hn
  | inf u => cases u <;> rfl
  | fin u k => simp [is_finite] at h

/-- the condition under which `−new_sub y x` and `new_sub x y` are proved equal up to zero signs -/
def SwapOK (x y : F64) : Prop :=
  x.is_finite = false ∨ y.is_finite = false ∨ (sub x y).is_finite = false ∨
    ((TwoFloat.new_sub x y).lo.is_finite = true ∧ (TwoFloat.new_sub y x).lo.is_finite = true)

instance (x y : F64) : Decidable (SwapOK x y) := by unfold SwapOK; infer_instance

theorem new_sub_swap {x y : F64} (hwx : x.WF) (hwy : y.WF) (h : SwapOK x y) :
    TwoFloat.eqz (tneg (TwoFloat.new_sub y x)) (TwoFloat.new_sub x y) := by
  rcases h with h | h | h | ⟨h1, h2⟩
  · exact TwoFloat.eqz.of_eq (new_sub_swap_of_not_finite (Or.inl h))
  · exact TwoFloat.eqz.of_eq (new_sub_swap_of_not_finite (Or.inr h))
  · by_cases hx : x.is_finite = true
    · by_cases hy : y.is_finite = true
      · exact TwoFloat.eqz.of_eq (new_sub_swap_of_overflow hx hy h)
      · exact TwoFloat.eqz.of_eq (new_sub_swap_of_not_finite (Or.inr (is_finite_eq_false_iff.2 hy)))
    · exact TwoFloat.eqz.of_eq (new_sub_swap_of_not_finite (Or.inl (is_finite_eq_false_iff.2 hx)))
  · exact new_sub_swap_eqz hwx hwy h1 h2

theorem swapOK_of_half {x y : F64} (hx : x.is_finite = true) (hy : y.is_finite = true)
    (hwx : x.WF) (hwy : y.WF) (hX : 2 * |x.toInt| ≤ (maxFin : Int)) (hY : 2 * |y.toInt| ≤ (maxFin : Int)) :
    SwapOK x y :=
  Or.inr (Or.inr (Or.inr ⟨(new_sub_words hx hy hwx hwy hX hY).2.1, (new_sub_words hy hx hwy hwx hY hX).2.1⟩))

/-- the IEEE comparison does not see the sign of a zero -/
theorem partial_cmp_eqz {x x' y y' : F64} (hx : eqz x x') (hy : eqz y y') :
    F64.partial_cmp x y = F64.partial_cmp x' y' := by
  rcases eqz_iff.1 hx with rfl | ⟨s, t, rfl, rfl⟩
  · rcases eqz_iff.1 hy with rfl | ⟨s, t, rfl, rfl⟩
    · rfl
    · cases x with
      | nan => rfl
      | inf u => rfl
      | fin u n => rw [partial_cmp_fin, partial_cmp_fin, toInt_zero, toInt_zero]
  · rcases eqz_iff.1 hy with rfl | ⟨s', t', rfl, rfl⟩
    · cases y with
      | nan => rfl
      | inf u => rfl
      | fin u n => rw [partial_cmp_fin, partial_cmp_fin, toInt_zero, toInt_zero]
    · rw [partial_cmp_fin, partial_cmp_fin, toInt_zero, toInt_zero, toInt_zero, toInt_zero]

end F64

namespace TwoFloat

/-- validity (Definition 1.4: finite words, `hi = RN(hi + lo)` under IEEE `==`) is insensitive to zero signs -/
theorem eqz.valid {s t : TwoFloat} (h : eqz s t) (hs : s.Valid) : t.Valid := by
  obtain ⟨h1, h2, h3⟩ := hs
  refine ⟨by rw [← h.1.is_finite_eq]; exact h1, by rw [← h.2.is_finite_eq]; exact h2, ?_⟩
  unfold F64.addEq F64.eq at h3 ⊢
  rw [← F64.partial_cmp_eqz (F64.eqz.add h.1 h.2) h.1]
  exact h3

theorem eqz.valid_iff {s t : TwoFloat} (h : eqz s t) : s.Valid ↔ t.Valid := ⟨h.valid, h.symm.valid⟩

end TwoFloat

/-! ## 2Sum below the top of the range: no spurious overflow

Boldo–Graillat–Muller: the only way 2Sum can overflow when its first addition does not is `|a| = MAX`.  Here: if both
operands are below `MAX` in magnitude and `RN(a + b)` is finite, then every intermediate step is in range. -/

namespace F64

theorem maxFin_cast : (maxFin : Int) = (2 ^ 53 - 1) * 2 ^ 2045 := by decide +kernel

theorem err_top {v : Int} (h : |v| < 2 ^ 53 * 2 ^ 2045) : 2 * |rnI v - v| ≤ 2 ^ 2045 := by
  have h1 := two_mul_abs_rnI_sub_le v
  have h2 := ulpexp_le_of_abs_lt h
  have h3 : ((2 ^ (Nat.log2 v.natAbs - 52) : Nat) : Int) ≤ 2 ^ 2045 := by
    rw [Int.natCast_pow]
    exact pow_le_pow_right₀ (by norm_num) h2
  exact le_trans h1 h3

theorem abs_rnI_le_maxFin {v : Int} (h : |v| ≤ (maxFin : Int)) : |rnI v| ≤ (maxFin : Int) := by
  have := abs_rnI_le (v := v) repI_maxFin (by rwa [abs_of_nonneg (Int.natCast_nonneg _)])
  rwa [abs_of_nonneg (Int.natCast_nonneg _)] at this

theorem abs_lt_of_rnI_le_maxFin {v : Int} (h : |rnI v| ≤ (maxFin : Int)) : |v| < 2 ^ 53 * 2 ^ 2045 := by
  by_contra hc
  have hc' : |(2 : Int) ^ 2098| ≤ |v| := by
    rw [abs_two_pow]; rw [not_lt] at hc; calc (2:Int)^2098 = 2^53 * 2^2045 := by rw [← pow_add]
      _ ≤ |v| := hc
  have := le_abs_rnI (repI_two_pow 2098) hc'
  rw [abs_two_pow] at this
  have h2 : (maxFin : Int) < 2 ^ 2098 := by decide +kernel
  omega

end F64

namespace F64

theorem two_abs_le {x U : Int} (h : 2 * |x| ≤ U) : -U ≤ 2 * x ∧ 2 * x ≤ U := by
  have h1 := neg_abs_le x
  have h2 := le_abs_self x
  constructor <;> linarith

theorem twoSum_top_abstract (r : Int → Int) (M U : Int) (hU : 0 < U) (hM : M = (2 ^ 53 - 1) * U)
    (err : ∀ v, |v| < 2 ^ 53 * U → 2 * |r v - v| ≤ U)
    (bndU : ∀ v, |v| ≤ U → |r v| ≤ U)
    (big : ∀ v, |r v| ≤ M → |v| < 2 ^ 53 * U)
    {a b : Int} (hA : |a| ≤ M - U) (hB : |b| ≤ M - U) (hs : |r (a + b)| ≤ M) :
    |r (a + b) - b| ≤ M ∧
    |r (a + b) - r (r (a + b) - b)| ≤ M ∧
    |a - r (r (a + b) - b)| ≤ M ∧
    |b - r (r (a + b) - r (r (a + b) - b))| ≤ M ∧
    |r (a - r (r (a + b) - b)) + r (b - r (r (a + b) - r (r (a + b) - b)))| ≤ M := by
  have hlt : ∀ v, |v| ≤ M → |v| < 2 ^ 53 * U := by intro v h; rw [hM] at h; linarith
  have hUM : 2 * U ≤ M := by rw [hM]; linarith
  have e0 := two_abs_le (err _ (big _ hs))
  generalize r (a + b) = s at *
  rw [abs_le] at hA hB
  have h1 : |s - b| ≤ M := by
    rw [abs_le]; constructor <;> linarith [hA.1, hA.2, e0.1, e0.2]
  have e1 := two_abs_le (err _ (hlt _ h1))
  generalize r (s - b) = aa at *
  have h2 : |s - aa| ≤ M := by
    rw [abs_le]; constructor <;> linarith [hB.1, hB.2, e1.1, e1.2]
  have e2 := two_abs_le (err _ (hlt _ h2))
  generalize r (s - aa) = bb at *
  have h3 : |a - aa| ≤ U := by
    rw [abs_le]; constructor <;> linarith [e0.1, e0.2, e1.1, e1.2]
  have h4 : |b - bb| ≤ U := by
    rw [abs_le]; constructor <;> linarith [e1.1, e1.2, e2.1, e2.2]
  have h5 := abs_le.1 (bndU _ h3)
  have h6 := abs_le.1 (bndU _ h4)
  refine ⟨h1, h2, le_trans h3 (by linarith), le_trans h4 (by linarith), ?_⟩
  rw [abs_le]; constructor <;> linarith [h5.1, h5.2, h6.1, h6.2]

/-- 2Sum below the top: if `|a|, |b| ≤ MAX − ulp(MAX)` and `RN(a + b)` is in range, no step of 2Sum overflows -/
theorem twoSum_int_top {a b : Int}
    (hA : |a| ≤ (maxFin : Int) - 2 ^ 2045) (hB : |b| ≤ (maxFin : Int) - 2 ^ 2045)
    (hs : |rnI (a + b)| ≤ (maxFin : Int)) :
    |rnI (a + b) - b| ≤ (maxFin : Int) ∧
    |rnI (a + b) - rnI (rnI (a + b) - b)| ≤ (maxFin : Int) ∧
    |a - rnI (rnI (a + b) - b)| ≤ (maxFin : Int) ∧
    |b - rnI (rnI (a + b) - rnI (rnI (a + b) - b))| ≤ (maxFin : Int) ∧
    |rnI (a - rnI (rnI (a + b) - b)) + rnI (b - rnI (rnI (a + b) - rnI (rnI (a + b) - b)))|
      ≤ (maxFin : Int) :=
  twoSum_top_abstract rnI (maxFin : Int) (2 ^ 2045) (by positivity) maxFin_cast
    (fun v h => err_top h)
    (fun v h => by
      have := abs_rnI_le (v := v) (repI_two_pow 2045) (by rwa [abs_two_pow])
      rwa [abs_two_pow] at this)
    (fun v h => abs_lt_of_rnI_le_maxFin h) hA hB hs

end F64

namespace F64
open TwoFloat

/-- the largest double below `MAX` is `MAX − ulp(MAX)` -/
theorem WF.abs_le_pred_of_lt {x : F64} (hw : x.WF) (h : |x.toInt| < (maxFin : Int)) :
    |x.toInt| ≤ (maxFin : Int) - 2 ^ 2045 := by
  have hr := hw.repI
  generalize x.toInt = z at *
  by_cases hsmall : |z| < 2 ^ 2097
  · have : (2 : Int) ^ 2097 ≤ (maxFin : Int) - 2 ^ 2045 := by decide +kernel
    omega
  · rw [not_lt] at hsmall
    have hn : 2 ^ 2097 ≤ z.natAbs := by
      have : ((2 ^ 2097 : Nat) : Int) ≤ |z| := by rw [Int.natCast_pow]; exact_mod_cast hsmall
      exact natCast_le_abs_iff.1 this
    have hn0 : z.natAbs ≠ 0 := by have := Nat.two_pow_pos 2097; omega
    have hl : 2097 ≤ Nat.log2 z.natAbs := (Nat.le_log2 hn0).2 hn
    have hd : (2 : Int) ^ 2045 ∣ z :=
      dvd_trans (pow_dvd_pow 2 (by omega : 2045 ≤ Nat.log2 z.natAbs - 52)) hr.ulp_dvd
    obtain ⟨k, rfl⟩ := hd
    rw [abs_mul, abs_two_pow] at h ⊢
    rw [maxFin_cast] at h ⊢
    have hU : (0 : Int) < 2 ^ 2045 := by positivity
    generalize (2 : Int) ^ 2045 = U at *
    have hk : |k| < 2 ^ 53 - 1 := by
      by_contra hc
      rw [not_lt] at hc
      have := mul_le_mul_of_nonneg_left hc (le_of_lt hU)
      linarith
    have := mul_le_mul_of_nonneg_left (by omega : |k| ≤ 2 ^ 53 - 2) (le_of_lt hU)
    linarith

/-- **2Sum below the top never overflows spuriously**: finite operands of magnitude below `f64::MAX` with a finite
rounded sum have a finite error word -/
theorem new_add_lo_finite_of_lt_max {a b : F64} (ha : a.is_finite = true) (hb : b.is_finite = true)
    (hwa : a.WF) (hwb : b.WF) (hA : |a.toInt| < (maxFin : Int)) (hB : |b.toInt| < (maxFin : Int))
    (hs : (F64.add a b).is_finite = true) :
    (TwoFloat.new_add a b).lo.is_finite = true := by
  rw [new_add_eq]
  have va := IsVal.of_finite ha
  have vb := IsVal.of_finite hb
  have vs := va.add_of_finite vb hs
  have hS : |rnI (a.toInt + b.toInt)| ≤ (maxFin : Int) := by
    rw [← vs.2]; exact (add_WF a b).abs_toInt_le
  obtain ⟨t2, t3, t4, t5, t6⟩ := twoSum_int_top (hwa.abs_le_pred_of_lt hA) (hwb.abs_le_pred_of_lt hB) hS
  have haa := vs.sub vb t2
  have hbb := vs.sub haa t3
  have hda := va.sub haa t4
  have hdb := vb.sub hbb t5
  exact (hda.add hdb t6).1

theorem new_sub_lo_finite_of_lt_max {a b : F64} (ha : a.is_finite = true) (hb : b.is_finite = true)
    (hwa : a.WF) (hwb : b.WF) (hA : |a.toInt| < (maxFin : Int)) (hB : |b.toInt| < (maxFin : Int))
    (hs : (F64.sub a b).is_finite = true) :
    (TwoFloat.new_sub a b).lo.is_finite = true := by
  have h := new_add_lo_finite_of_lt_max ha (by rw [is_finite_neg]; exact hb) hwa (neg_WF hwb) hA
    (by rw [toInt_neg, abs_neg]; exact hB) hs
  rw [← (new_sub_eqz_new_add_neg a b).2.is_finite_eq] at h
  exact h

end F64

namespace F64

open TwoFloat

/-- no word of magnitude `f64::MAX` (non-finite words allowed): the two orders of 2Sum are bit-identical -/
theorem commOK_of_lt_max {a b : F64} (hwa : a.WF) (hwb : b.WF)
    (hA : |a.toInt| < (maxFin : Int)) (hB : |b.toInt| < (maxFin : Int)) : CommOK a b := by
  by_cases ha : a.is_finite = true
  · by_cases hb : b.is_finite = true
    · by_cases hs : (add a b).is_finite = true
      · exact Or.inr (Or.inr (Or.inr ⟨new_add_lo_finite_of_lt_max ha hb hwa hwb hA hB hs,
          new_add_lo_finite_of_lt_max hb ha hwb hwa hB hA (by rwa [add_comm])⟩))
      · exact Or.inr (Or.inr (Or.inl (is_finite_eq_false_iff.2 hs)))
    · exact Or.inr (Or.inl (is_finite_eq_false_iff.2 hb))
  · exact Or.inl (is_finite_eq_false_iff.2 ha)

theorem swapOK_of_lt_max {x y : F64} (hwx : x.WF) (hwy : y.WF)
    (hX : |x.toInt| < (maxFin : Int)) (hY : |y.toInt| < (maxFin : Int)) : SwapOK x y := by
  by_cases hx : x.is_finite = true
  · by_cases hy : y.is_finite = true
    · by_cases hs : (sub x y).is_finite = true
      · have hs' : (sub y x).is_finite = true := by
          rw [(sub_swap_eqz x y).is_finite_eq, is_finite_neg]; exact hs
        exact Or.inr (Or.inr (Or.inr ⟨new_sub_lo_finite_of_lt_max hx hy hwx hwy hX hY hs,
          new_sub_lo_finite_of_lt_max hy hx hwy hwx hY hX hs'⟩))
      · exact Or.inr (Or.inr (Or.inl (is_finite_eq_false_iff.2 hs)))
    · exact Or.inr (Or.inl (is_finite_eq_false_iff.2 hy))
  · exact Or.inl (is_finite_eq_false_iff.2 hx)

end F64
