/-
Lemmas.Inv — helper lemmas for property C01 (the representation invariant `TwoFloat.Inv`).

 1. propagation of non-finite words through `F64.add/sub`, `Inv` basics, negation of valid pairs;
 2. `fast_two_sum_inv`: the closing Fast2Sum of every operator re-establishes the invariant, overflow and
    non-finite operands included;
 3. 2Sum without a magnitude proviso: `new_add` / `new_sub` of ANY finite operands are exact as soon as the low word
    comes out finite (otherwise the low word is `inf`/`NaN`);
 4. the half-ulp bound of a valid pair and the Fast2Sum precondition of DWPlusFP (`|v| ≤ |sh|`).
-/
import TFV.Lemmas.EFT
import TFV.Lemmas.Fraction

namespace F64

/-! ## 1. non-finite words -/

theorem is_finite_eq_false_iff {x : F64} : x.is_finite = false ↔ ¬ x.is_finite = true := by
  cases x.is_finite <;> simp

theorem add_not_finite_left {x : F64} (y : F64) (h : x.is_finite = false) : (F64.add x y).is_finite = false := by
  rw [is_finite_eq_false_iff] at h ⊢
  exact fun hc => h (is_finite_of_add hc).1

theorem add_not_finite_right (x : F64) {y : F64} (h : y.is_finite = false) : (F64.add x y).is_finite = false := by
  rw [is_finite_eq_false_iff] at h ⊢
  exact fun hc => h (is_finite_of_add hc).2

theorem is_finite_of_sub {x y : F64} (h : (F64.sub x y).is_finite = true) :
    x.is_finite = true ∧ y.is_finite = true := by
  have := is_finite_of_add (x := x) (y := F64.neg y) h
  rwa [is_finite_neg] at this

theorem sub_not_finite_left {x : F64} (y : F64) (h : x.is_finite = false) : (F64.sub x y).is_finite = false := by
  rw [is_finite_eq_false_iff] at h ⊢
  exact fun hc => h (is_finite_of_sub hc).1

theorem sub_not_finite_right (x : F64) {y : F64} (h : y.is_finite = false) : (F64.sub x y).is_finite = false := by
  rw [is_finite_eq_false_iff] at h ⊢
  exact fun hc => h (is_finite_of_sub hc).2

end F64

namespace TwoFloat

open F64

theorem Inv.of_valid {t : TwoFloat} (h : t.Valid) : t.Inv := Or.inl h

theorem Inv.of_not_finite {t : TwoFloat} (h : t.hi.is_finite = false) : t.Inv := Or.inr h

/-- the property as C01 words it: a finite high word is never paired with a non-finite or overlapping low word -/
theorem Inv.lo_of_finite {t : TwoFloat} (h : t.Inv) (hf : t.hi.is_finite = true) :
    t.lo.is_finite = true ∧ F64.addEq t.hi t.lo = true := by
  rcases h with h | h
  · exact ⟨h.2.1, h.2.2⟩
  · rw [hf] at h; exact absurd h (by simp)

theorem inv_iff (t : TwoFloat) :
    t.Inv ↔ (t.hi.is_finite = true → t.lo.is_finite = true ∧ F64.addEq t.hi t.lo = true) := by
  constructor
  · exact fun h hf => h.lo_of_finite hf
  · intro h
    cases hf : t.hi.is_finite
    · exact Or.inr hf
    · exact Or.inl ⟨hf, (h hf).1, (h hf).2⟩

instance (t : TwoFloat) : Decidable t.Inv := by unfold Inv; infer_instance

/-- validity is symmetric under negation of both words -/
theorem Valid.neg {t : TwoFloat} (h : t.Valid) (hw : t.hi.WF) :
    (arithmetic.impl_Neg_for_rTwoFloat.neg t).Valid := by
  unfold arithmetic.impl_Neg_for_rTwoFloat.neg
  apply valid_of_rnI
  · rw [is_finite_neg]; exact h.1
  · rw [is_finite_neg]; exact h.2.1
  · exact neg_WF hw
  · rw [toInt_neg, toInt_neg, ← Int.neg_add, rnI_neg, ← h.rnI_eq]

theorem neg_WF' {t : TwoFloat} (hw : t.WF) : (arithmetic.impl_Neg_for_rTwoFloat.neg t).WF :=
  ⟨neg_WF hw.1, neg_WF hw.2⟩

theorem neg_hi_finite (t : TwoFloat) :
    (arithmetic.impl_Neg_for_rTwoFloat.neg t).hi.is_finite = t.hi.is_finite := by
  unfold arithmetic.impl_Neg_for_rTwoFloat.neg; exact is_finite_neg _

theorem Inv.neg {t : TwoFloat} (h : t.Inv) (hw : t.hi.WF) : (arithmetic.impl_Neg_for_rTwoFloat.neg t).Inv := by
  rcases h with h | h
  · exact Or.inl (h.neg hw)
  · exact Or.inr (by rw [neg_hi_finite]; exact h)

end TwoFloat

/-! ## 2. the closing Fast2Sum -/

namespace F64

open TwoFloat

/-- **Fast2Sum re-establishes the invariant.**  For all well-formed `a`, `b`: if one of them is not finite the high
word of the result is not finite; if both are finite and `|b| ≤ |a|`, the result is a valid pair or — when `a + b`
overflows — has an infinite high word. -/
theorem fast_two_sum_inv {a b : F64} (hwa : a.WF) (hwb : b.WF)
    (h : ¬ (a.is_finite = true ∧ b.is_finite = true) ∨ |b.toInt| ≤ |a.toInt|) :
    (arithmetic.fast_two_sum a b).Inv := by
  by_cases hf : (F64.add a b).is_finite = true
  · obtain ⟨ha, hb⟩ := is_finite_of_add hf
    rcases h with h | h
    · exact absurd ⟨ha, hb⟩ h
    · exact Or.inl (fast_two_sum_spec ha hb hwa hwb h (rn53_le_maxFin_of_add_finite ha hb hf)).2.2.1
  · exact Or.inr (by rw [fast_two_sum_eq]; exact is_finite_eq_false_iff.2 hf)

/-- the same under the weakest classical precondition `ulp(b) ∣ a` (covers `a = 0`) -/
theorem fast_two_sum_inv_of_dvd {a b : F64} (hwa : a.WF) (hwb : b.WF)
    (h : ¬ (a.is_finite = true ∧ b.is_finite = true) ∨
      (2 : Int) ^ (Nat.log2 b.toInt.natAbs - 52) ∣ a.toInt) :
    (arithmetic.fast_two_sum a b).Inv := by
  by_cases hf : (F64.add a b).is_finite = true
  · obtain ⟨ha, hb⟩ := is_finite_of_add hf
    rcases h with h | h
    · exact absurd ⟨ha, hb⟩ h
    · exact Or.inl (fast_two_sum_spec_of_dvd ha hb hwa hwb h (rn53_le_maxFin_of_add_finite ha hb hf)).2.2.1
  · exact Or.inr (by rw [fast_two_sum_eq]; exact is_finite_eq_false_iff.2 hf)

/-- a non-finite operand always yields a non-finite high word -/
theorem fast_two_sum_hi_not_finite {a b : F64} (h : a.is_finite = false ∨ b.is_finite = false) :
    (arithmetic.fast_two_sum a b).hi.is_finite = false := by
  rw [fast_two_sum_eq]
  rcases h with h | h
  · exact add_not_finite_left b h
  · exact add_not_finite_right a h

end F64

/-! ## 3. 2Sum without the magnitude proviso -/

namespace F64

open TwoFloat

theorem rn53_le_maxFin_of_sub_finite {a b : F64} (ha : a.is_finite = true) (hb : b.is_finite = true)
    (h : (F64.sub a b).is_finite = true) : rn53 (a.toInt - b.toInt).natAbs ≤ maxFin := by
  have := rn53_le_maxFin_of_add_finite (a := a) (b := F64.neg b) ha (by rw [is_finite_neg]; exact hb) h
  rwa [toInt_neg, ← Int.sub_eq_add_neg] at this

theorem IsVal.add_of_finite {x y : F64} {v w : Int} (hx : IsVal x v) (hy : IsVal y w)
    (hf : (F64.add x y).is_finite = true) : IsVal (F64.add x y) (rnI (v + w)) := by
  have := add_spec hx.1 hy.1 (rn53_le_maxFin_of_add_finite hx.1 hy.1 hf)
  rwa [hx.2, hy.2] at this

theorem IsVal.sub_of_finite {x y : F64} {v w : Int} (hx : IsVal x v) (hy : IsVal y w)
    (hf : (F64.sub x y).is_finite = true) : IsVal (F64.sub x y) (rnI (v - w)) := by
  have := sub_spec hx.1 hy.1 (rn53_le_maxFin_of_sub_finite hx.1 hy.1 hf)
  rwa [hx.2, hy.2] at this

/-- a representable bound above twice any well-formed magnitude -/
theorem repI_two_maxFin : RepI ((maxFin * 2 ^ 1 : Nat) : Int) := repI_natCast.2 (rep_mul_pow2 1 rep_maxFin)

theorem WF.two_mul_abs_le_two_maxFin {x : F64} (hw : x.WF) :
    2 * |x.toInt| ≤ ((maxFin * 2 ^ 1 : Nat) : Int) := by
  have := hw.abs_toInt_le
  push_cast; omega

/-- Knuth's 2Sum on scaled integers is exact for ALL representable operands (unbounded exponent range) -/
theorem twoSum_int_exact {a b : Int} (ha : RepI a) (hb : RepI b) (hA : |a| ≤ (maxFin : Int))
    (hB : |b| ≤ (maxFin : Int)) :
    rnI (rnI (a - rnI (rnI (a + b) - b)) + rnI (b - rnI (rnI (a + b) - rnI (rnI (a + b) - b))))
      = a + b - rnI (a + b) :=
  (twoSum_int ha hb repI_two_maxFin (by push_cast; omega) (by push_cast; omega)
    _ _ _ _ _ rfl rfl rfl rfl rfl).2.2.2.2.2.2

/-- **2Sum is robust.**  For ALL finite well-formed `a`, `b` (no bound on the magnitudes): if the low word of
`new_add a b` is finite then no intermediate operation overflowed and the transformation is error-free. -/
theorem new_add_words_of_lo_finite {a b : F64} (ha : a.is_finite = true) (hb : b.is_finite = true)
    (hwa : a.WF) (hwb : b.WF) (hlo : (TwoFloat.new_add a b).lo.is_finite = true) :
    IsVal (TwoFloat.new_add a b).hi (rnI (a.toInt + b.toInt)) ∧
    IsVal (TwoFloat.new_add a b).lo (a.toInt + b.toInt - rnI (a.toInt + b.toInt)) := by
  rw [new_add_eq] at hlo ⊢
  simp only at hlo ⊢
  obtain ⟨fda, fdb⟩ := is_finite_of_add hlo
  obtain ⟨_, faa⟩ := is_finite_of_sub fda
  obtain ⟨_, fbb⟩ := is_finite_of_sub fdb
  obtain ⟨fs, _⟩ := is_finite_of_sub faa
  have va := IsVal.of_finite ha
  have vb := IsVal.of_finite hb
  have hs := va.add_of_finite vb fs
  have haa := hs.sub_of_finite vb faa
  have hbb := hs.sub_of_finite haa fbb
  have hda := va.sub_of_finite haa fda
  have hdb := vb.sub_of_finite hbb fdb
  have hl := hda.add_of_finite hdb hlo
  rw [twoSum_int_exact hwa.repI hwb.repI hwa.abs_toInt_le hwb.abs_toInt_le] at hl
  exact ⟨hs, hl⟩

/-- `new_add` of finite operands: the pair is valid as soon as the low word is finite -/
theorem new_add_valid_of_lo_finite {a b : F64} (ha : a.is_finite = true) (hb : b.is_finite = true)
    (hwa : a.WF) (hwb : b.WF) (hlo : (TwoFloat.new_add a b).lo.is_finite = true) :
    (TwoFloat.new_add a b).hi.toInt = rnI (a.toInt + b.toInt) ∧
    (TwoFloat.new_add a b).V = a.toInt + b.toInt ∧
    (TwoFloat.new_add a b).Valid ∧ (TwoFloat.new_add a b).WF := by
  have h := new_add_words_of_lo_finite ha hb hwa hwb hlo
  exact eft_package h.1 h.2 (new_add_WF a b).1 (new_add_WF a b).2

/-- 2Sum with a negated right operand on scaled integers, exact for all representable operands -/
theorem twoSum_int_exact_sub {a b : Int} (ha : RepI a) (hb : RepI b) (hA : |a| ≤ (maxFin : Int))
    (hB : |b| ≤ (maxFin : Int)) :
    rnI (rnI (a - rnI (rnI (a - b) + b)) - rnI (b + rnI (rnI (a - b) - rnI (rnI (a - b) + b))))
      = a - b - rnI (a - b) := by
  have h := twoSum_int_exact ha hb.neg hA (by rwa [abs_neg])
  have e1 : ∀ x : Int, x - -b = x + b := fun x => by ring
  have e2 : ∀ y : Int, -b - y = -(b + y) := fun y => by ring
  simp only [← Int.sub_eq_add_neg, e1, e2, rnI_neg] at h
  exact h

/-- **2Sum (subtraction) is robust**: as `new_add_words_of_lo_finite` -/
theorem new_sub_words_of_lo_finite {a b : F64} (ha : a.is_finite = true) (hb : b.is_finite = true)
    (hwa : a.WF) (hwb : b.WF) (hlo : (TwoFloat.new_sub a b).lo.is_finite = true) :
    IsVal (TwoFloat.new_sub a b).hi (rnI (a.toInt - b.toInt)) ∧
    IsVal (TwoFloat.new_sub a b).lo (a.toInt - b.toInt - rnI (a.toInt - b.toInt)) := by
  rw [new_sub_eq] at hlo ⊢
  simp only at hlo ⊢
  obtain ⟨fda, fdb⟩ := is_finite_of_sub hlo
  obtain ⟨_, faa⟩ := is_finite_of_sub fda
  obtain ⟨_, fbb⟩ := is_finite_of_add fdb
  obtain ⟨fs, _⟩ := is_finite_of_add faa
  have va := IsVal.of_finite ha
  have vb := IsVal.of_finite hb
  have hs := va.sub_of_finite vb fs
  have haa := hs.add_of_finite vb faa
  have hbb := hs.sub_of_finite haa fbb
  have hda := va.sub_of_finite haa fda
  have hdb := vb.add_of_finite hbb fdb
  have hl := hda.sub_of_finite hdb hlo
  rw [twoSum_int_exact_sub hwa.repI hwb.repI hwa.abs_toInt_le hwb.abs_toInt_le] at hl
  exact ⟨hs, hl⟩

theorem new_sub_valid_of_lo_finite {a b : F64} (ha : a.is_finite = true) (hb : b.is_finite = true)
    (hwa : a.WF) (hwb : b.WF) (hlo : (TwoFloat.new_sub a b).lo.is_finite = true) :
    (TwoFloat.new_sub a b).hi.toInt = rnI (a.toInt - b.toInt) ∧
    (TwoFloat.new_sub a b).V = a.toInt - b.toInt ∧
    (TwoFloat.new_sub a b).Valid ∧ (TwoFloat.new_sub a b).WF := by
  have h := new_sub_words_of_lo_finite ha hb hwa hwb hlo
  exact eft_package h.1 h.2 (new_sub_WF a b).1 (new_sub_WF a b).2

/-- a non-finite operand makes the high word of `new_add` / `new_sub` non-finite -/
theorem new_add_hi_not_finite {a b : F64} (h : a.is_finite = false ∨ b.is_finite = false) :
    (TwoFloat.new_add a b).hi.is_finite = false := by
  rw [new_add_eq]
  rcases h with h | h
  · exact add_not_finite_left b h
  · exact add_not_finite_right a h

theorem new_sub_hi_not_finite {a b : F64} (h : a.is_finite = false ∨ b.is_finite = false) :
    (TwoFloat.new_sub a b).hi.is_finite = false := by
  rw [new_sub_eq]
  rcases h with h | h
  · exact sub_not_finite_left b h
  · exact sub_not_finite_right a h

/-- if the high word of `new_add` is not finite neither is the low word (so it poisons what is computed from it) -/
theorem new_add_lo_not_finite {a b : F64} (h : (TwoFloat.new_add a b).hi.is_finite = false) :
    (TwoFloat.new_add a b).lo.is_finite = false := by
  rw [new_add_eq] at h ⊢
  simp only at h ⊢
  exact add_not_finite_left _ (sub_not_finite_right _ (sub_not_finite_left _ h))

theorem new_sub_lo_not_finite {a b : F64} (h : (TwoFloat.new_sub a b).hi.is_finite = false) :
    (TwoFloat.new_sub a b).lo.is_finite = false := by
  rw [new_sub_eq] at h ⊢
  simp only at h ⊢
  exact sub_not_finite_left _ (sub_not_finite_right _ (add_not_finite_left _ h))

end F64
