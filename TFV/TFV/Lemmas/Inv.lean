/-
Lemmas.Inv — helper lemmas for property C01 (the representation invariant `TwoFloat.Inv`).

 1. propagation of non-finite words through `F64.add/sub`, `Inv` basics, negation of valid pairs;
 2. `fast_two_sum_inv`: the closing Fast2Sum of every operator re-establishes the invariant, overflow and
    non-finite operands included;
 3. 2Sum without a magnitude proviso: `new_add` / `new_sub` of ANY finite operands are exact as soon as the low word
    comes out finite (otherwise the low word is `inf`/`NaN`);
 4. the half-ulp bound of a valid pair and the Fast2Sum precondition of DWPlusFP (`dwplusfp_pre`: `|v| ≤ |sh|`);
 5. `dw_add_core_inv`, `dw_sub_core_inv`, `dw_rsub_core_inv`: TwoFloat ± f64, f64 − TwoFloat;
 6. non-finite operands of `mul`, `div`, `fma`;
 7. DWTimesFP (`dwtimesfp_nat`, `dw_mul_core_inv`): TwoFloat × f64 by magnitudes only, underflow included;
 8. DWTimesDW (`dwtimesdw_nat`, `dw_mul_tt_core_inv`): TwoFloat × TwoFloat;
 9. AccurateDWPlusDW (`dwplusdw_pre`, `dw_tail_inv`, `dw_add_tt_core_inv`, `dw_sub_tt_core_inv`): TwoFloat ± TwoFloat;
10. DWDivFP with a normal quotient (`dwdivfp_int`, `dw_div_core_inv`);
11. 2Prod up to the overflow threshold (`new_mul_words_of_hi_finite`).
-/
import TFV.Lemmas.EFT
import TFV.Lemmas.Fraction

namespace F64

/-! ## 1. non-finite words -/

theorem is_finite_eq_false_iff {x : F64} : x.is_finite = false ↔ ¬ x.is_finite = true := by
  cases x.is_finite <;> simp

theorem add_not_finite_left {x : F64} (y : F64) (h : x.is_finite = false) : (F64.add x y).is_finite = false := by
  rw [is_finite_eq_false_iff] at h ⊢
  exact fun hc => h (is_finite_of_add hc).1

theorem add_not_finite_right (x : F64) {y : F64} (h : y.is_finite = false) : (F64.add x y).is_finite = false := by
  rw [is_finite_eq_false_iff] at h ⊢
  exact fun hc => h (is_finite_of_add hc).2

theorem is_finite_of_sub {x y : F64} (h : (F64.sub x y).is_finite = true) :
    x.is_finite = true ∧ y.is_finite = true := by
  have := is_finite_of_add (x := x) (y := F64.neg y) h
  rwa [is_finite_neg] at this

theorem sub_not_finite_left {x : F64} (y : F64) (h : x.is_finite = false) : (F64.sub x y).is_finite = false := by
  rw [is_finite_eq_false_iff] at h ⊢
  exact fun hc => h (is_finite_of_sub hc).1

theorem sub_not_finite_right (x : F64) {y : F64} (h : y.is_finite = false) : (F64.sub x y).is_finite = false := by
  rw [is_finite_eq_false_iff] at h ⊢
  exact fun hc => h (is_finite_of_sub hc).2

end F64

namespace TwoFloat

open F64

theorem Inv.of_valid {t : TwoFloat} (h : t.Valid) : t.Inv := Or.inl h

theorem Inv.of_not_finite {t : TwoFloat} (h : t.hi.is_finite = false) : t.Inv := Or.inr h

/-- the property as C01 words it: a finite high word is never paired with a non-finite or overlapping low word -/
theorem Inv.lo_of_finite {t : TwoFloat} (h : t.Inv) (hf : t.hi.is_finite = true) :
    t.lo.is_finite = true ∧ F64.addEq t.hi t.lo = true := by
  rcases h with h | h
  · exact ⟨h.2.1, h.2.2⟩
  · rw [hf] at h; exact absurd h (by simp)

theorem inv_iff (t : TwoFloat) :
    t.Inv ↔ (t.hi.is_finite = true → t.lo.is_finite = true ∧ F64.addEq t.hi t.lo = true) := by
  constructor
  · exact fun h hf => h.lo_of_finite hf
  · intro h
    cases hf : t.hi.is_finite
    · exact Or.inr hf
    · exact Or.inl ⟨hf, (h hf).1, (h hf).2⟩

instance (t : TwoFloat) : Decidable t.Inv := by unfold Inv; infer_instance

/-- validity is symmetric under negation of both words -/
theorem Valid.neg {t : TwoFloat} (h : t.Valid) (hw : t.hi.WF) :
    (arithmetic.impl_Neg_for_rTwoFloat.neg t).Valid := by
  unfold arithmetic.impl_Neg_for_rTwoFloat.neg
  apply valid_of_rnI
  · rw [is_finite_neg]; exact h.1
  · rw [is_finite_neg]; exact h.2.1
  · exact neg_WF hw
  · rw [toInt_neg, toInt_neg, ← Int.neg_add, rnI_neg, ← h.rnI_eq]

theorem neg_WF' {t : TwoFloat} (hw : t.WF) : (arithmetic.impl_Neg_for_rTwoFloat.neg t).WF :=
  ⟨neg_WF hw.1, neg_WF hw.2⟩

theorem neg_hi_finite (t : TwoFloat) :
    (arithmetic.impl_Neg_for_rTwoFloat.neg t).hi.is_finite = t.hi.is_finite := by
  unfold arithmetic.impl_Neg_for_rTwoFloat.neg; exact is_finite_neg _

theorem Inv.neg {t : TwoFloat} (h : t.Inv) (hw : t.hi.WF) : (arithmetic.impl_Neg_for_rTwoFloat.neg t).Inv := by
  rcases h with h | h
  · exact Or.inl (h.neg hw)
  · exact Or.inr (by rw [neg_hi_finite]; exact h)

end TwoFloat

/-! ## 2. the closing Fast2Sum -/

namespace F64

open TwoFloat

/-- **Fast2Sum re-establishes the invariant.**  For all well-formed `a`, `b`: if one of them is not finite the high
word of the result is not finite; if both are finite and `|b| ≤ |a|`, the result is a valid pair or — when `a + b`
overflows — has an infinite high word. -/
theorem fast_two_sum_inv {a b : F64} (hwa : a.WF) (hwb : b.WF)
    (h : ¬ (a.is_finite = true ∧ b.is_finite = true) ∨ |b.toInt| ≤ |a.toInt|) :
    (arithmetic.fast_two_sum a b).Inv := by
  by_cases hf : (F64.add a b).is_finite = true
  · obtain ⟨ha, hb⟩ := is_finite_of_add hf
    rcases h with h | h
    · exact absurd ⟨ha, hb⟩ h
    · exact Or.inl (fast_two_sum_spec ha hb hwa hwb h (rn53_le_maxFin_of_add_finite ha hb hf)).2.2.1
  · exact Or.inr (by rw [fast_two_sum_eq]; exact is_finite_eq_false_iff.2 hf)

/-- the same under the weakest classical precondition `ulp(b) ∣ a` (covers `a = 0`) -/
theorem fast_two_sum_inv_of_dvd {a b : F64} (hwa : a.WF) (hwb : b.WF)
    (h : ¬ (a.is_finite = true ∧ b.is_finite = true) ∨
      (2 : Int) ^ (Nat.log2 b.toInt.natAbs - 52) ∣ a.toInt) :
    (arithmetic.fast_two_sum a b).Inv := by
  by_cases hf : (F64.add a b).is_finite = true
  · obtain ⟨ha, hb⟩ := is_finite_of_add hf
    rcases h with h | h
    · exact absurd ⟨ha, hb⟩ h
    · exact Or.inl (fast_two_sum_spec_of_dvd ha hb hwa hwb h (rn53_le_maxFin_of_add_finite ha hb hf)).2.2.1
  · exact Or.inr (by rw [fast_two_sum_eq]; exact is_finite_eq_false_iff.2 hf)

/-- a non-finite operand always yields a non-finite high word -/
theorem fast_two_sum_hi_not_finite {a b : F64} (h : a.is_finite = false ∨ b.is_finite = false) :
    (arithmetic.fast_two_sum a b).hi.is_finite = false := by
  rw [fast_two_sum_eq]
  rcases h with h | h
  · exact add_not_finite_left b h
  · exact add_not_finite_right a h

end F64

/-! ## 3. 2Sum without the magnitude proviso -/

namespace F64

open TwoFloat

theorem rn53_le_maxFin_of_sub_finite {a b : F64} (ha : a.is_finite = true) (hb : b.is_finite = true)
    (h : (F64.sub a b).is_finite = true) : rn53 (a.toInt - b.toInt).natAbs ≤ maxFin := by
  have := rn53_le_maxFin_of_add_finite (a := a) (b := F64.neg b) ha (by rw [is_finite_neg]; exact hb) h
  rwa [toInt_neg, ← Int.sub_eq_add_neg] at this

theorem IsVal.add_of_finite {x y : F64} {v w : Int} (hx : IsVal x v) (hy : IsVal y w)
    (hf : (F64.add x y).is_finite = true) : IsVal (F64.add x y) (rnI (v + w)) := by
  have := add_spec hx.1 hy.1 (rn53_le_maxFin_of_add_finite hx.1 hy.1 hf)
  rwa [hx.2, hy.2] at this

theorem IsVal.sub_of_finite {x y : F64} {v w : Int} (hx : IsVal x v) (hy : IsVal y w)
    (hf : (F64.sub x y).is_finite = true) : IsVal (F64.sub x y) (rnI (v - w)) := by
  have := sub_spec hx.1 hy.1 (rn53_le_maxFin_of_sub_finite hx.1 hy.1 hf)
  rwa [hx.2, hy.2] at this

/-- a representable bound above twice any well-formed magnitude -/
theorem repI_two_maxFin : RepI ((maxFin * 2 ^ 1 : Nat) : Int) := repI_natCast.2 (rep_mul_pow2 1 rep_maxFin)

theorem WF.two_mul_abs_le_two_maxFin {x : F64} (hw : x.WF) :
    2 * |x.toInt| ≤ ((maxFin * 2 ^ 1 : Nat) : Int) := by
  have := hw.abs_toInt_le
  push_cast; omega

/-- Knuth's 2Sum on scaled integers is exact for ALL representable operands (unbounded exponent range) -/
theorem twoSum_int_exact {a b : Int} (ha : RepI a) (hb : RepI b) (hA : |a| ≤ (maxFin : Int))
    (hB : |b| ≤ (maxFin : Int)) :
    rnI (rnI (a - rnI (rnI (a + b) - b)) + rnI (b - rnI (rnI (a + b) - rnI (rnI (a + b) - b))))
      = a + b - rnI (a + b) :=
  (twoSum_int ha hb repI_two_maxFin (by push_cast; omega) (by push_cast; omega)
    _ _ _ _ _ rfl rfl rfl rfl rfl).2.2.2.2.2.2

/-- **2Sum is robust.**  For ALL finite well-formed `a`, `b` (no bound on the magnitudes): if the low word of
`new_add a b` is finite then no intermediate operation overflowed and the transformation is error-free. -/
theorem new_add_words_of_lo_finite {a b : F64} (ha : a.is_finite = true) (hb : b.is_finite = true)
    (hwa : a.WF) (hwb : b.WF) (hlo : (TwoFloat.new_add a b).lo.is_finite = true) :
    IsVal (TwoFloat.new_add a b).hi (rnI (a.toInt + b.toInt)) ∧
    IsVal (TwoFloat.new_add a b).lo (a.toInt + b.toInt - rnI (a.toInt + b.toInt)) := by
  rw [new_add_eq] at hlo ⊢
  simp only at hlo ⊢
  obtain ⟨fda, fdb⟩ := is_finite_of_add hlo
  obtain ⟨_, faa⟩ := is_finite_of_sub fda
  obtain ⟨_, fbb⟩ := is_finite_of_sub fdb
  obtain ⟨fs, _⟩ := is_finite_of_sub faa
  have va := IsVal.of_finite ha
  have vb := IsVal.of_finite hb
  have hs := va.add_of_finite vb fs
  have haa := hs.sub_of_finite vb faa
  have hbb := hs.sub_of_finite haa fbb
  have hda := va.sub_of_finite haa fda
  have hdb := vb.sub_of_finite hbb fdb
  have hl := hda.add_of_finite hdb hlo
  rw [twoSum_int_exact hwa.repI hwb.repI hwa.abs_toInt_le hwb.abs_toInt_le] at hl
  exact ⟨hs, hl⟩

/-- `new_add` of finite operands: the pair is valid as soon as the low word is finite -/
theorem new_add_valid_of_lo_finite {a b : F64} (ha : a.is_finite = true) (hb : b.is_finite = true)
    (hwa : a.WF) (hwb : b.WF) (hlo : (TwoFloat.new_add a b).lo.is_finite = true) :
    (TwoFloat.new_add a b).hi.toInt = rnI (a.toInt + b.toInt) ∧
    (TwoFloat.new_add a b).V = a.toInt + b.toInt ∧
    (TwoFloat.new_add a b).Valid ∧ (TwoFloat.new_add a b).WF := by
  have h := new_add_words_of_lo_finite ha hb hwa hwb hlo
  exact eft_package h.1 h.2 (new_add_WF a b).1 (new_add_WF a b).2

/-- 2Sum with a negated right operand on scaled integers, exact for all representable operands -/
theorem twoSum_int_exact_sub {a b : Int} (ha : RepI a) (hb : RepI b) (hA : |a| ≤ (maxFin : Int))
    (hB : |b| ≤ (maxFin : Int)) :
    rnI (rnI (a - rnI (rnI (a - b) + b)) - rnI (b + rnI (rnI (a - b) - rnI (rnI (a - b) + b))))
      = a - b - rnI (a - b) := by
  have h := twoSum_int_exact ha hb.neg hA (by rwa [abs_neg])
  have e1 : ∀ x : Int, x - -b = x + b := fun x => by ring
  have e2 : ∀ y : Int, -b - y = -(b + y) := fun y => by ring
  simp only [← Int.sub_eq_add_neg, e1, e2, rnI_neg] at h
  exact h

/-- **2Sum (subtraction) is robust**: as `new_add_words_of_lo_finite` -/
theorem new_sub_words_of_lo_finite {a b : F64} (ha : a.is_finite = true) (hb : b.is_finite = true)
    (hwa : a.WF) (hwb : b.WF) (hlo : (TwoFloat.new_sub a b).lo.is_finite = true) :
    IsVal (TwoFloat.new_sub a b).hi (rnI (a.toInt - b.toInt)) ∧
    IsVal (TwoFloat.new_sub a b).lo (a.toInt - b.toInt - rnI (a.toInt - b.toInt)) := by
  rw [new_sub_eq] at hlo ⊢
  simp only at hlo ⊢
  obtain ⟨fda, fdb⟩ := is_finite_of_sub hlo
  obtain ⟨_, faa⟩ := is_finite_of_sub fda
  obtain ⟨_, fbb⟩ := is_finite_of_add fdb
  obtain ⟨fs, _⟩ := is_finite_of_add faa
  have va := IsVal.of_finite ha
  have vb := IsVal.of_finite hb
  have hs := va.sub_of_finite vb fs
  have haa := hs.add_of_finite vb faa
  have hbb := hs.sub_of_finite haa fbb
  have hda := va.sub_of_finite haa fda
  have hdb := vb.add_of_finite hbb fdb
  have hl := hda.sub_of_finite hdb hlo
  rw [twoSum_int_exact_sub hwa.repI hwb.repI hwa.abs_toInt_le hwb.abs_toInt_le] at hl
  exact ⟨hs, hl⟩

theorem new_sub_valid_of_lo_finite {a b : F64} (ha : a.is_finite = true) (hb : b.is_finite = true)
    (hwa : a.WF) (hwb : b.WF) (hlo : (TwoFloat.new_sub a b).lo.is_finite = true) :
    (TwoFloat.new_sub a b).hi.toInt = rnI (a.toInt - b.toInt) ∧
    (TwoFloat.new_sub a b).V = a.toInt - b.toInt ∧
    (TwoFloat.new_sub a b).Valid ∧ (TwoFloat.new_sub a b).WF := by
  have h := new_sub_words_of_lo_finite ha hb hwa hwb hlo
  exact eft_package h.1 h.2 (new_sub_WF a b).1 (new_sub_WF a b).2

/-- a non-finite operand makes the high word of `new_add` / `new_sub` non-finite -/
theorem new_add_hi_not_finite {a b : F64} (h : a.is_finite = false ∨ b.is_finite = false) :
    (TwoFloat.new_add a b).hi.is_finite = false := by
  rw [new_add_eq]
  rcases h with h | h
  · exact add_not_finite_left b h
  · exact add_not_finite_right a h

theorem new_sub_hi_not_finite {a b : F64} (h : a.is_finite = false ∨ b.is_finite = false) :
    (TwoFloat.new_sub a b).hi.is_finite = false := by
  rw [new_sub_eq]
  rcases h with h | h
  · exact sub_not_finite_left b h
  · exact sub_not_finite_right a h

/-- if the high word of `new_add` is not finite neither is the low word (so it poisons what is computed from it) -/
theorem new_add_lo_not_finite {a b : F64} (h : (TwoFloat.new_add a b).hi.is_finite = false) :
    (TwoFloat.new_add a b).lo.is_finite = false := by
  rw [new_add_eq] at h ⊢
  simp only at h ⊢
  exact add_not_finite_left _ (sub_not_finite_right _ (sub_not_finite_left _ h))

theorem new_sub_lo_not_finite {a b : F64} (h : (TwoFloat.new_sub a b).hi.is_finite = false) :
    (TwoFloat.new_sub a b).lo.is_finite = false := by
  rw [new_sub_eq] at h ⊢
  simp only at h ⊢
  exact sub_not_finite_left _ (sub_not_finite_right _ (add_not_finite_left _ h))

end F64

/-! ## 4. the half-ulp bound of a valid pair and the Fast2Sum precondition of DWPlusFP -/

namespace F64

open TwoFloat

theorem log2_le_log2_rn53 (n : Nat) : Nat.log2 n ≤ Nat.log2 (rn53 n) := by
  rcases Nat.eq_zero_or_pos n with rfl | hn
  · simp
  · have h1 : 2 ^ Nat.log2 n ≤ n := Nat.log2_self_le (by omega)
    have h2 := pow_le_rn53 h1
    have h3 : rn53 n ≠ 0 := by have := rn53_pos hn; omega
    exact (Nat.le_log2 h3).2 h2

/-- **half-ulp bound**: the low word of a valid pair is at most half an ulp of the high word -/
theorem _root_.TwoFloat.Valid.two_mul_abs_lo_le {t : TwoFloat} (h : t.Valid) :
    2 * |t.lo.toInt| ≤ 2 ^ (Nat.log2 t.hi.toInt.natAbs - 52) := by
  have hx := h.rnI_eq
  have he := two_mul_abs_rnI_sub_le (t.hi.toInt + t.lo.toInt)
  have hn : t.hi.toInt.natAbs = rn53 (t.hi.toInt + t.lo.toInt).natAbs := by
    conv_lhs => rw [hx]
    exact natAbs_rnI _
  have hm := log2_le_log2_rn53 (t.hi.toInt + t.lo.toInt).natAbs
  rw [← hn] at hm
  have hp : (2 : Int) ^ (Nat.log2 (t.hi.toInt + t.lo.toInt).natAbs - 52)
      ≤ 2 ^ (Nat.log2 t.hi.toInt.natAbs - 52) :=
    pow_le_pow_right₀ (by norm_num) (by omega)
  have e : rnI (t.hi.toInt + t.lo.toInt) - (t.hi.toInt + t.lo.toInt) = -t.lo.toInt := by
    rw [← hx]; ring
  rw [e, abs_neg, Int.natCast_pow] at he
  exact le_trans he hp

/-- ulp facts of an arbitrary integer `z` with `u = 2^(⌊log2 |z|⌋ - 52)` -/
theorem abs_lt_ulp_mul (z : Int) : |z| < 2 ^ 53 * 2 ^ (Nat.log2 z.natAbs - 52) := by
  have := lt_ulp_mul z.natAbs
  rw [← Int.natCast_natAbs z]
  exact_mod_cast this

theorem ulp_mul_le_abs {z : Int} (h : Nat.log2 z.natAbs - 52 ≠ 0) :
    2 ^ 52 * 2 ^ (Nat.log2 z.natAbs - 52) ≤ |z| := by
  have h52 : 2 ^ 52 ≤ z.natAbs := by
    by_contra hc
    exact h (log2_sub_eq_zero (by omega))
  have := (log2_sub_spec h52).1
  rw [← Int.natCast_natAbs z]
  exact_mod_cast this

theorem two_pow_pos' (k : Nat) : (0 : Int) < 2 ^ k := by positivity

theorem two_mul_pow_le_of_lt {p q : Nat} (h : p < q) : 2 * (2 : Int) ^ p ≤ 2 ^ q := by
  have : (2 : Int) ^ (p + 1) ≤ 2 ^ q := pow_le_pow_right₀ (by norm_num) h
  rwa [pow_succ, mul_comm] at this

/-- a multiple of its own ulp-grid unit is representable: if `2^k ∣ z` with `k ≥ ⌊log2 |z|⌋ - 52` -/
theorem repI_of_dvd_ulp {z : Int} {k : Nat} (hd : (2 : Int) ^ k ∣ z) (hk : Nat.log2 z.natAbs - 52 ≤ k) :
    RepI z := by
  apply rep_natAbs_of_dvd_of_le (k := Nat.log2 z.natAbs - 52)
  · exact dvd_trans (pow_dvd_pow 2 hk) hd
  · exact le_of_lt (abs_lt_ulp_mul z)

/-- **The Fast2Sum precondition of DWPlusFP (Joldes–Muller–Popescu, Alg. 4).**  `x` the high word, `l` a low word
with `|l| ≤ ulp(x)/2`, `y` a double, `s = RN(x + y)`, `e = x + y − s` the 2Sum error: if `s ≠ 0` then
`|l + e| ≤ |s|` (and a fortiori `|RN(l + e)| ≤ |s|`). -/
theorem dwplusfp_pre {x y l : Int} (hx : RepI x) (hy : RepI y)
    (hl : 2 * |l| ≤ 2 ^ (Nat.log2 x.natAbs - 52)) (hs : rnI (x + y) ≠ 0) :
    |l + (x + y - rnI (x + y))| ≤ |rnI (x + y)| := by
  have dx := hx.ulp_dvd
  have dy := hy.ulp_dvd
  have bx := hx.add_ulp_le
  have by' := hy.add_ulp_le
  have lx := @ulp_mul_le_abs x
  have bw := abs_lt_ulp_mul (x + y)
  have lw := @ulp_mul_le_abs (x + y)
  have ew := two_mul_abs_rnI_sub_le (x + y)
  rw [abs_sub_comm] at ew
  push_cast at ew
  have px := two_pow_pos' (Nat.log2 x.natAbs - 52)
  have py := two_pow_pos' (Nat.log2 y.natAbs - 52)
  have pw := two_pow_pos' (Nat.log2 (x + y).natAbs - 52)
  have hxw : |x| ≤ |x + y| + |y| := by
    have := abs_add_le (x + y) (-y)
    rwa [abs_neg, add_neg_cancel_right] at this
  have htri := abs_add_le l (x + y - rnI (x + y))
  by_cases he : x + y - rnI (x + y) = 0
  · -- the sum is exact
    have hsw : rnI (x + y) = x + y := by omega
    rw [he, add_zero, hsw]
    rw [hsw] at hs
    rcases Nat.lt_or_ge (Nat.log2 y.natAbs - 52) (Nat.log2 x.natAbs - 52) with hc | hc
    · have h2 := two_mul_pow_le_of_lt hc
      have := lx (by omega)
      omega
    · have hd : (2 : Int) ^ (Nat.log2 x.natAbs - 52) ∣ x + y :=
        dvd_add dx (dvd_trans (pow_dvd_pow 2 hc) dy)
      have := Int.le_of_dvd (abs_pos.2 hs) ((dvd_abs _ _).2 hd)
      omega
  · -- the sum is inexact: `x + y` is at least `2^53` and `|s| ≥ 2^52 ulp(x + y)`
    have hnr : ¬ RepI (x + y) := fun hr => he (by rw [rnI_of_repI hr]; ring)
    have hew : Nat.log2 (x + y).natAbs - 52 ≠ 0 := by
      intro h0
      apply hnr
      apply repI_of_dvd_ulp (k := 0) (by simp) (by omega)
    have hlw := lw hew
    have hS : 2 ^ 52 * 2 ^ (Nat.log2 (x + y).natAbs - 52) ≤ |rnI (x + y)| := by
      have hr : RepI ((2 : Int) ^ 52 * 2 ^ (Nat.log2 (x + y).natAbs - 52)) := by
        rw [← pow_add]
        have := repI_natCast.2 (rep_two_pow (52 + (Nat.log2 (x + y).natAbs - 52)))
        rwa [Int.natCast_pow] at this
      have := le_abs_rnI (v := x + y) hr (by rw [abs_of_pos (by positivity)]; exact hlw)
      rwa [abs_of_pos (by positivity)] at this
    rcases Nat.lt_or_ge (Nat.log2 (x + y).natAbs - 52) (Nat.log2 x.natAbs - 52) with hc | hc
    · have h2 := two_mul_pow_le_of_lt hc
      have hlx := lx (by omega)
      have hyw : Nat.log2 y.natAbs - 52 < Nat.log2 (x + y).natAbs - 52 := by
        by_contra hcon
        apply hnr
        apply repI_of_dvd_ulp (k := Nat.log2 (x + y).natAbs - 52) _ (le_refl _)
        exact dvd_add (dvd_trans (pow_dvd_pow 2 (by omega)) dx) (dvd_trans (pow_dvd_pow 2 (by omega)) dy)
      have h3 := two_mul_pow_le_of_lt hyw
      omega
    · have h2 : (2 : Int) ^ (Nat.log2 x.natAbs - 52) ≤ 2 ^ (Nat.log2 (x + y).natAbs - 52) :=
        pow_le_pow_right₀ (by norm_num) hc
      omega

end F64

/-! ## 5. DWPlusFP and its variants re-establish the invariant -/

namespace F64

open TwoFloat

/-- core of `TwoFloat + f64`, `f64 + TwoFloat`: `Fast2Sum(sh, l ⊕ sl)` with `(sh, sl) = 2Sum(x, y)`; `x`, `y` ANY finite
well-formed doubles and `l` any well-formed double with `|l| ≤ ulp(x)/2` (non-finite `l` allowed) -/
theorem dw_add_core_inv {x y l : F64} (hx : x.is_finite = true) (hy : y.is_finite = true)
    (hwx : x.WF) (hwy : y.WF) (hl : 2 * |l.toInt| ≤ 2 ^ (Nat.log2 x.toInt.natAbs - 52)) :
    (arithmetic.fast_two_sum (TwoFloat.new_add x y).hi (F64.add l (TwoFloat.new_add x y).lo)).Inv := by
  by_cases hv : (F64.add l (TwoFloat.new_add x y).lo).is_finite = true
  · obtain ⟨fl, fsl⟩ := is_finite_of_add hv
    obtain ⟨wh, wl⟩ := new_add_words_of_lo_finite hx hy hwx hwy fsl
    have vv := (IsVal.of_finite fl).add_of_finite wl hv
    by_cases hs0 : rnI (x.toInt + y.toInt) = 0
    · exact fast_two_sum_inv_of_dvd (new_add_WF x y).1 (add_WF _ _)
        (Or.inr (by rw [wh.2, hs0]; exact dvd_zero _))
    · refine fast_two_sum_inv (new_add_WF x y).1 (add_WF _ _) (Or.inr ?_)
      rw [vv.2, wh.2]
      have hp := dwplusfp_pre hwx.repI hwy.repI hl hs0
      have := abs_rnI_le (v := l.toInt + (x.toInt + y.toInt - rnI (x.toInt + y.toInt)))
        (repI_rnI (x.toInt + y.toInt)) hp
      exact this
  · exact Inv.of_not_finite (fast_two_sum_hi_not_finite (Or.inr (is_finite_eq_false_iff.2 hv)))

/-- core of `TwoFloat − f64`: `Fast2Sum(sh, l ⊕ sl)` with `(sh, sl) = 2Sum(x, −y)` -/
theorem dw_sub_core_inv {x y l : F64} (hx : x.is_finite = true) (hy : y.is_finite = true)
    (hwx : x.WF) (hwy : y.WF) (hl : 2 * |l.toInt| ≤ 2 ^ (Nat.log2 x.toInt.natAbs - 52)) :
    (arithmetic.fast_two_sum (TwoFloat.new_sub x y).hi (F64.add l (TwoFloat.new_sub x y).lo)).Inv := by
  by_cases hv : (F64.add l (TwoFloat.new_sub x y).lo).is_finite = true
  · obtain ⟨fl, fsl⟩ := is_finite_of_add hv
    obtain ⟨wh, wl⟩ := new_sub_words_of_lo_finite hx hy hwx hwy fsl
    have vv := (IsVal.of_finite fl).add_of_finite wl hv
    by_cases hs0 : rnI (x.toInt - y.toInt) = 0
    · exact fast_two_sum_inv_of_dvd (new_sub_WF x y).1 (add_WF _ _)
        (Or.inr (by rw [wh.2, hs0]; exact dvd_zero _))
    · refine fast_two_sum_inv (new_sub_WF x y).1 (add_WF _ _) (Or.inr ?_)
      rw [vv.2, wh.2]
      have hs0' : rnI (x.toInt + -y.toInt) ≠ 0 := by rwa [← Int.sub_eq_add_neg]
      have hp := dwplusfp_pre hwx.repI hwy.repI.neg hl hs0'
      rw [← Int.sub_eq_add_neg] at hp
      exact abs_rnI_le (repI_rnI (x.toInt - y.toInt)) hp
  · exact Inv.of_not_finite (fast_two_sum_hi_not_finite (Or.inr (is_finite_eq_false_iff.2 hv)))

/-- core of `f64 − TwoFloat`: `Fast2Sum(sh, sl ⊖ l)` with `(sh, sl) = 2Sum(c, −x)` -/
theorem dw_rsub_core_inv {x c l : F64} (hx : x.is_finite = true) (hc : c.is_finite = true)
    (hwx : x.WF) (hwc : c.WF) (hl : 2 * |l.toInt| ≤ 2 ^ (Nat.log2 x.toInt.natAbs - 52)) :
    (arithmetic.fast_two_sum (TwoFloat.new_sub c x).hi (F64.sub (TwoFloat.new_sub c x).lo l)).Inv := by
  by_cases hv : (F64.sub (TwoFloat.new_sub c x).lo l).is_finite = true
  · obtain ⟨fsl, fl⟩ := is_finite_of_sub hv
    obtain ⟨wh, wl⟩ := new_sub_words_of_lo_finite hc hx hwc hwx fsl
    have vv := wl.sub_of_finite (IsVal.of_finite fl) hv
    by_cases hs0 : rnI (c.toInt - x.toInt) = 0
    · exact fast_two_sum_inv_of_dvd (new_sub_WF c x).1 (sub_WF _ _)
        (Or.inr (by rw [wh.2, hs0]; exact dvd_zero _))
    · refine fast_two_sum_inv (new_sub_WF c x).1 (sub_WF _ _) (Or.inr ?_)
      rw [vv.2, wh.2]
      have e1 : -x.toInt + c.toInt = c.toInt - x.toInt := by ring
      have hs0' : rnI (-x.toInt + c.toInt) ≠ 0 := by rwa [e1]
      have hp := dwplusfp_pre (l := -l.toInt) hwx.repI.neg hwc.repI
        (by rwa [abs_neg, Int.natAbs_neg]) hs0'
      rw [e1] at hp
      have e2 : -l.toInt + (c.toInt - x.toInt - rnI (c.toInt - x.toInt))
          = c.toInt - x.toInt - rnI (c.toInt - x.toInt) - l.toInt := by ring
      rw [e2] at hp
      exact abs_rnI_le (repI_rnI (c.toInt - x.toInt)) hp
  · exact Inv.of_not_finite (fast_two_sum_hi_not_finite (Or.inr (is_finite_eq_false_iff.2 hv)))

end F64

/-! ## 6. multiplication, division, fma with non-finite operands -/

namespace F64

theorem is_finite_of_mul {x y : F64} (h : (F64.mul x y).is_finite = true) :
    x.is_finite = true ∧ y.is_finite = true := by
  cases x with
  | nan => exact absurd h (by simp [mul, is_finite])
  | inf s =>
    cases y with
    | nan => exact absurd h (by simp [mul, is_finite])
    | inf t => exact absurd h (by simp [mul, is_finite])
    | fin t b => simp only [mul] at h; split_ifs at h <;> simp [is_finite] at h
  | fin s a =>
    cases y with
    | nan => exact absurd h (by simp [mul, is_finite])
    | inf t => simp only [mul] at h; split_ifs at h <;> simp [is_finite] at h
    | fin t b => exact ⟨rfl, rfl⟩

theorem mul_not_finite_left {x : F64} (y : F64) (h : x.is_finite = false) : (F64.mul x y).is_finite = false := by
  rw [is_finite_eq_false_iff] at h ⊢
  exact fun hc => h (is_finite_of_mul hc).1

theorem mul_not_finite_right (x : F64) {y : F64} (h : y.is_finite = false) : (F64.mul x y).is_finite = false := by
  rw [is_finite_eq_false_iff] at h ⊢
  exact fun hc => h (is_finite_of_mul hc).2

/-- a finite quotient has a finite numerator (the denominator may be infinite: `x / inf = 0`) -/
theorem is_finite_of_div {x y : F64} (h : (F64.div x y).is_finite = true) : x.is_finite = true := by
  cases x with
  | nan => exact absurd h (by simp [div, is_finite])
  | inf s =>
    cases y with
    | nan => exact absurd h (by simp [div, is_finite])
    | inf t => exact absurd h (by simp [div, is_finite])
    | fin t b => exact absurd h (by simp [div, is_finite])
  | fin s a => rfl

theorem div_not_finite_left {x : F64} (y : F64) (h : x.is_finite = false) : (F64.div x y).is_finite = false := by
  rw [is_finite_eq_false_iff] at h ⊢
  exact fun hc => h (is_finite_of_div hc)

theorem div_nan_right (x : F64) : F64.div x nan = nan := by cases x <;> rfl

/-- a finite fused multiply-add has finite operands -/
theorem is_finite_of_fma {x y z : F64} (h : (F64.fma x y z).is_finite = true) :
    x.is_finite = true ∧ y.is_finite = true ∧ z.is_finite = true := by
  cases x with
  | nan => exact absurd h (by simp [fma, is_finite])
  | inf s =>
    cases y with
    | nan => exact absurd h (by simp [fma, is_finite])
    | inf t => cases z <;> simp only [fma] at h <;> (try split_ifs at h) <;> simp [is_finite] at h
    | fin t b =>
      cases z <;> simp only [fma] at h <;> (try split_ifs at h) <;> simp [is_finite] at h
  | fin s a =>
    cases y with
    | nan => exact absurd h (by simp [fma, is_finite])
    | inf t =>
      cases z <;> simp only [fma] at h <;> (try split_ifs at h) <;> simp [is_finite] at h
    | fin t b =>
      cases z with
      | nan => exact absurd h (by simp [fma, is_finite])
      | inf u => exact absurd h (by simp [fma, is_finite])
      | fin u c => exact ⟨rfl, rfl, rfl⟩

end F64

/-! ## 7. the Fast2Sum precondition of DWTimesFP (`TwoFloat * f64`), all magnitudes (underflow included) -/

namespace F64

theorem roundQ_eq_zero_of_two_mul_le {p q : Nat} (hq : 0 < q) (h : 2 * p ≤ q) : roundQ p q = 0 := by
  have hlt : p < q := by omega
  rw [roundQ_of_lt hq (by have : q ≤ 2 ^ 53 * q := Nat.le_mul_of_pos_left q (by positivity); omega)]
  unfold rint
  simp only [Nat.div_eq_of_lt hlt, Nat.mod_eq_of_lt hlt]
  split_ifs <;> omega

/-- magnitudes in DWTimesFP: `C = RN(P/U)` the rounded product, `D` its residual, `C1 = RN(D/U)`, `N3` the exact
argument of the second FMA; then `RN(N3/U) ≤ C` unless `C = 0` -/
theorem dwtimesfp_nat {X Y L U D N3 : Nat} (hU : 0 < U) (hL : 2 ^ 53 * L ≤ X)
    (hD : 2 * D ≤ U * 2 ^ (Nat.log2 (X * Y / U) - 52))
    (hN : N3 ≤ L * Y + roundQ D U * U) :
    roundQ (X * Y) U = 0 ∨ roundQ N3 U ≤ roundQ (X * Y) U := by
  have hLY : 2 ^ 53 * (L * Y) ≤ X * Y := by
    rw [← Nat.mul_assoc]; exact Nat.mul_le_mul_right Y hL
  have hlt := roundQ_exp_lt (X * Y) U hU
  generalize hP : X * Y = P at *
  generalize hLYg : L * Y = LY at *
  by_cases he : Nat.log2 (P / U) - 52 = 0
  · rw [he, Nat.pow_zero, Nat.mul_one] at hD hlt
    rw [roundQ_eq_zero_of_two_mul_le hU hD, Nat.zero_mul, Nat.add_zero] at hN
    have h1 : roundQ N3 U ≤ 1 :=
      roundQ_le_of_le hU (rep_of_lt (by decide)) (by omega)
    by_cases hC : roundQ P U = 0
    · exact Or.inl hC
    · exact Or.inr (by omega)
  · have h53 := roundQ_exp_pos hU he
    have h52 : 2 ^ 52 * U ≤ P := by omega
    have hC := pow_le_roundQ hU h52
    obtain ⟨e', he'⟩ : ∃ e', Nat.log2 (P / U) - 52 = e' + 1 := ⟨Nat.log2 (P / U) - 52 - 1, by omega⟩
    have e2 : 2 ^ (e' + 1) = 2 ^ e' * 2 := Nat.pow_succ 2 e'
    rw [he', e2] at hD hlt hC
    have hT : 0 < 2 ^ e' := Nat.two_pow_pos e'
    have hTr : Rep (2 ^ e') := rep_two_pow e'
    have hTr2 : Rep (2 ^ e' * 2 * 2) := by
      have := rep_two_pow (e' + 1 + 1)
      rwa [Nat.pow_succ, Nat.pow_succ] at this
    generalize 2 ^ e' = T at *
    have e1 : U * (T * 2) = 2 * (U * T) := by ring
    rw [e1] at hD hlt
    have hC1 : roundQ D U ≤ T := by
      apply roundQ_le_of_le hU hTr
      rw [Nat.mul_comm T U]; omega
    have hC1U : roundQ D U * U ≤ U * T := by
      rw [Nat.mul_comm U T]; exact Nat.mul_le_mul_right U hC1
    have hN3 : roundQ N3 U ≤ T * 2 * 2 := by
      apply roundQ_le_of_le hU hTr2
      have e3 : T * 2 * 2 * U = 4 * (U * T) := by ring
      rw [e3]; omega
    right
    omega

end F64

namespace F64

open TwoFloat

theorem roundSigned_finite {num : Int} {den : Nat} {zs : Bool}
    (h : (roundSigned num den zs).is_finite = true) : roundQ num.natAbs den ≤ maxFin := by
  by_contra hc
  rw [roundSigned_overflow num zs (Nat.lt_of_not_le hc)] at h
  exact absurd h (by simp [is_finite])

theorem mul_spec_of_finite {x y : F64} (h : (F64.mul x y).is_finite = true) :
    (F64.mul x y).toInt = rqI (x.toInt * y.toInt) unit := by
  obtain ⟨hx, hy⟩ := is_finite_of_mul h
  obtain ⟨zs, e⟩ := mul_eq hx hy
  rw [e] at h
  exact (mul_spec hx hy (roundSigned_finite h)).2

theorem fma_spec_of_finite {x y z : F64} (h : (F64.fma x y z).is_finite = true) :
    (F64.fma x y z).toInt = rqI (x.toInt * y.toInt + z.toInt * (unit : Int)) unit := by
  obtain ⟨hx, hy, hz⟩ := is_finite_of_fma h
  obtain ⟨zs, e⟩ := fma_eq hx hy hz
  rw [e] at h
  exact (fma_spec hx hy hz (roundSigned_finite h)).2

/-- the residual of a correctly rounded quotient, in magnitudes -/
theorem natAbs_sub_rqI_mul (p : Int) (U : Nat) :
    ((p + -(rqI p U) * (U : Int)).natAbs : Int) = |((roundQ p.natAbs U : Nat) : Int) * (U : Int) - (p.natAbs : Int)| := by
  rw [Int.natCast_natAbs, Int.natCast_natAbs]
  unfold rqI
  by_cases hp : p < 0
  · rw [if_pos hp, abs_of_neg hp]
    have : p + - -((roundQ p.natAbs U : Nat) : Int) * (U : Int) = ((roundQ p.natAbs U : Nat) : Int) * (U : Int) - -p := by
      ring
    rw [this]
  · rw [if_neg hp, abs_of_nonneg (by omega : 0 ≤ p)]
    have : p + -((roundQ p.natAbs U : Nat) : Int) * (U : Int) = -(((roundQ p.natAbs U : Nat) : Int) * (U : Int) - p) := by
      ring
    rw [this, abs_neg]

/-- `2^53 |l| ≤ |x|` for a low word below half an ulp of `x` -/
theorem two_pow_mul_le_of_half_ulp {x l : Int} (hl : 2 * |l| ≤ 2 ^ (Nat.log2 x.natAbs - 52)) :
    2 ^ 53 * l.natAbs ≤ x.natAbs := by
  have hcast : ((2 ^ 53 * l.natAbs : Nat) : Int) ≤ ((x.natAbs : Nat) : Int) := by
    push_cast
    by_cases he : Nat.log2 x.natAbs - 52 = 0
    · rw [he, pow_zero] at hl
      have : |l| = 0 := by have := abs_nonneg l; omega
      rw [this]; have := abs_nonneg x; omega
    · have := ulp_mul_le_abs he
      have hp := two_pow_pos' (Nat.log2 x.natAbs - 52)
      omega
  exact_mod_cast hcast

/-- core of `TwoFloat * f64`: `Fast2Sum(ch, fma(l, y, cl1))` with `(ch, cl1) = 2Prod(x, y)`; ANY doubles
`x`, `y` (underflow, overflow, non-finite included) and `|l| ≤ ulp(x)/2` -/
theorem dw_mul_core_inv {x y l : F64}
    (hl : 2 * |l.toInt| ≤ 2 ^ (Nat.log2 x.toInt.natAbs - 52)) :
    (arithmetic.fast_two_sum (TwoFloat.new_mul x y).hi (F64.fma l y (TwoFloat.new_mul x y).lo)).Inv := by
  rw [new_mul_eq]
  simp only
  by_cases h3 : (F64.fma l y (F64.fma x y (F64.neg (F64.mul x y)))).is_finite = true
  · obtain ⟨_, _, f1⟩ := is_finite_of_fma h3
    obtain ⟨_, _, fn⟩ := is_finite_of_fma f1
    have fch : (F64.mul x y).is_finite = true := by rwa [is_finite_neg] at fn
    have vch := mul_spec_of_finite fch
    have v1 := fma_spec_of_finite f1
    have v3 := fma_spec_of_finite h3
    rw [toInt_neg, vch] at v1
    -- magnitudes
    have hXY : (x.toInt * y.toInt).natAbs = x.toInt.natAbs * y.toInt.natAbs := Int.natAbs_mul _ _
    have aC : (F64.mul x y).toInt.natAbs = roundQ (x.toInt.natAbs * y.toInt.natAbs) unit := by
      rw [vch, natAbs_rqI, hXY]
    have aC1 : (F64.fma x y (F64.neg (F64.mul x y))).toInt.natAbs
        = roundQ (x.toInt * y.toInt + -rqI (x.toInt * y.toInt) unit * (unit : Int)).natAbs unit := by
      rw [v1, natAbs_rqI]
    have aC3 : (F64.fma l y (F64.fma x y (F64.neg (F64.mul x y)))).toInt.natAbs
        = roundQ (l.toInt * y.toInt + (F64.fma x y (F64.neg (F64.mul x y))).toInt * (unit : Int)).natAbs unit := by
      rw [v3, natAbs_rqI]
    have hD : 2 * (x.toInt * y.toInt + -rqI (x.toInt * y.toInt) unit * (unit : Int)).natAbs
        ≤ unit * 2 ^ (Nat.log2 (x.toInt.natAbs * y.toInt.natAbs / unit) - 52) := by
      have h := roundQ_abs_err (x.toInt * y.toInt).natAbs unit unit_pos
      rw [← natAbs_sub_rqI_mul, hXY] at h
      exact_mod_cast h
    have hN : (l.toInt * y.toInt + (F64.fma x y (F64.neg (F64.mul x y))).toInt * (unit : Int)).natAbs
        ≤ l.toInt.natAbs * y.toInt.natAbs +
          roundQ (x.toInt * y.toInt + -rqI (x.toInt * y.toInt) unit * (unit : Int)).natAbs unit * unit := by
      refine le_trans (Int.natAbs_add_le _ _) ?_
      rw [Int.natAbs_mul, Int.natAbs_mul, Int.natAbs_natCast, aC1]
    have key := dwtimesfp_nat unit_pos (two_pow_mul_le_of_half_ulp hl) hD hN
    rw [← aC, ← aC3] at key
    rcases key with k0 | kle
    · refine fast_two_sum_inv_of_dvd (mul_WF _ _) (fma_WF _ _ _) (Or.inr ?_)
      have : (F64.mul x y).toInt = 0 := Int.natAbs_eq_zero.1 k0
      rw [this]; exact dvd_zero _
    · refine fast_two_sum_inv (mul_WF _ _) (fma_WF _ _ _) (Or.inr ?_)
      rw [← Int.natCast_natAbs, ← Int.natCast_natAbs]
      exact_mod_cast kle
  · exact Inv.of_not_finite (fast_two_sum_hi_not_finite (Or.inr (is_finite_eq_false_iff.2 h3)))

end F64

/-! ## 8. the Fast2Sum precondition of DWTimesDW (`TwoFloat * TwoFloat`), all magnitudes -/

namespace F64

open TwoFloat

/-- magnitudes in the crate's DWTimesDW: `C = RN(P/U)`, `C1` its FMA residual, `T0 = RN(Xl·Yl/U)`,
`T1 = RN((Xh·Yl + T0·U)/U)`, `C2 = RN((Xl·Yh + T1·U)/U)`, `C3 = RN(C1 + C2)`: then `C3 ≤ C` -/
theorem dwtimesdw_nat {Xh Xl Yh Yl U D N1 N2 N3 : Nat} (hU : 0 < U)
    (hX : 2 ^ 53 * Xl ≤ Xh) (hY : 2 ^ 53 * Yl ≤ Yh)
    (hD : 2 * D ≤ U * 2 ^ (Nat.log2 (Xh * Yh / U) - 52))
    (h1 : N1 ≤ Xh * Yl + roundQ (Xl * Yl) U * U)
    (h2 : N2 ≤ Xl * Yh + roundQ N1 U * U)
    (h3 : N3 ≤ roundQ D U + roundQ N2 U) :
    rn53 N3 ≤ roundQ (Xh * Yh) U := by
  have hA : 2 ^ 53 * (Xh * Yl) ≤ Xh * Yh := by
    rw [Nat.mul_left_comm]; exact Nat.mul_le_mul_left Xh hY
  have hB : 2 ^ 53 * (Xl * Yh) ≤ Xh * Yh := by
    rw [← Nat.mul_assoc]; exact Nat.mul_le_mul_right Yh hX
  have hZ : 2 ^ 106 * (Xl * Yl) ≤ Xh * Yh := by
    have := Nat.mul_le_mul hX hY
    have e : 2 ^ 53 * Xl * (2 ^ 53 * Yl) = 2 ^ 106 * (Xl * Yl) := by ring
    rwa [e] at this
  have hlt := roundQ_exp_lt (Xh * Yh) U hU
  have hCrep : Rep (roundQ (Xh * Yh) U) := roundQ_rep _ _ hU
  generalize Xh * Yh = P at *
  generalize Xh * Yl = A at *
  generalize Xl * Yh = B at *
  generalize Xl * Yl = Z at *
  by_cases he : Nat.log2 (P / U) - 52 = 0
  · rw [he, Nat.pow_zero, Nat.mul_one] at hD hlt
    rw [roundQ_eq_zero_of_two_mul_le hU hD, Nat.zero_add] at h3
    rw [roundQ_eq_zero_of_two_mul_le hU (by omega : 2 * Z ≤ U), Nat.zero_mul, Nat.add_zero] at h1
    have hT1 := roundQ_mul_le_two_mul N1 U hU
    have hN2 : N2 ≤ P := by omega
    have hC2 : roundQ N2 U ≤ roundQ P U := roundQ_mono U hU hN2
    have := rn53_mono (Nat.le_trans h3 hC2)
    rwa [rn53_of_rep hCrep] at this
  · have h53 := roundQ_exp_pos hU he
    have h52 : 2 ^ 52 * U ≤ P := by omega
    have hC := pow_le_roundQ hU h52
    obtain ⟨e', he'⟩ : ∃ e', Nat.log2 (P / U) - 52 = e' + 1 := ⟨Nat.log2 (P / U) - 52 - 1, by omega⟩
    have e2 : 2 ^ (e' + 1) = 2 ^ e' * 2 := Nat.pow_succ 2 e'
    rw [he', e2] at hD hlt hC
    have hT : 0 < 2 ^ e' := Nat.two_pow_pos e'
    have r1 : Rep (2 ^ e') := rep_two_pow e'
    have r2 : Rep (2 ^ e' * 2) := by
      have := rep_two_pow (e' + 1); rwa [Nat.pow_succ] at this
    have r4 : Rep (2 ^ e' * 2 * 2) := by
      have := rep_two_pow (e' + 1 + 1); rwa [Nat.pow_succ, Nat.pow_succ] at this
    have r8 : Rep (2 ^ e' * 2 * 2 * 2) := by
      have := rep_two_pow (e' + 1 + 1 + 1); rwa [Nat.pow_succ, Nat.pow_succ, Nat.pow_succ] at this
    have r16 : Rep (2 ^ e' * 2 * 2 * 2 * 2) := by
      have := rep_two_pow (e' + 1 + 1 + 1 + 1)
      rwa [Nat.pow_succ, Nat.pow_succ, Nat.pow_succ, Nat.pow_succ] at this
    generalize 2 ^ e' = T at *
    have e1 : U * (T * 2) = 2 * (U * T) := by ring
    rw [e1] at hD hlt
    have hC1 : roundQ D U ≤ T := by
      apply roundQ_le_of_le hU r1
      rw [Nat.mul_comm T U]; omega
    have hT0 : roundQ Z U ≤ T * 2 := by
      apply roundQ_le_of_le hU r2
      have e3 : T * 2 * U = 2 * (U * T) := by ring
      rw [e3]; omega
    have hT0U : roundQ Z U * U ≤ 2 * (U * T) := by
      have := Nat.mul_le_mul_right U hT0
      have e3 : T * 2 * U = 2 * (U * T) := by ring
      rwa [e3] at this
    have hT1 : roundQ N1 U ≤ T * 2 * 2 := by
      apply roundQ_le_of_le hU r4
      have e3 : T * 2 * 2 * U = 4 * (U * T) := by ring
      rw [e3]; omega
    have hT1U : roundQ N1 U * U ≤ 4 * (U * T) := by
      have := Nat.mul_le_mul_right U hT1
      have e3 : T * 2 * 2 * U = 4 * (U * T) := by ring
      rwa [e3] at this
    have hC2 : roundQ N2 U ≤ T * 2 * 2 * 2 := by
      apply roundQ_le_of_le hU r8
      have e3 : T * 2 * 2 * 2 * U = 8 * (U * T) := by ring
      rw [e3]; omega
    have hC3 : rn53 N3 ≤ T * 2 * 2 * 2 * 2 := rn53_le_of_le r16 (by omega)
    omega

end F64

namespace F64

open TwoFloat

theorem natAbs_mul_spec {x y : F64} (h : (F64.mul x y).is_finite = true) :
    (F64.mul x y).toInt.natAbs = roundQ (x.toInt.natAbs * y.toInt.natAbs) unit := by
  rw [mul_spec_of_finite h, natAbs_rqI, Int.natAbs_mul]

/-- magnitude of a finite FMA result, bounded through the triangle inequality and monotonicity of rounding -/
theorem natAbs_fma_le {x y z : F64} (h : (F64.fma x y z).is_finite = true) :
    ∃ N, (F64.fma x y z).toInt.natAbs = roundQ N unit ∧
      N ≤ x.toInt.natAbs * y.toInt.natAbs + z.toInt.natAbs * unit := by
  refine ⟨(x.toInt * y.toInt + z.toInt * (unit : Int)).natAbs, ?_, ?_⟩
  · rw [fma_spec_of_finite h, natAbs_rqI]
  · refine le_trans (Int.natAbs_add_le _ _) ?_
    rw [Int.natAbs_mul, Int.natAbs_mul, Int.natAbs_natCast]

theorem natAbs_add_le_of_finite {x y : F64} (h : (F64.add x y).is_finite = true) :
    ∃ N, (F64.add x y).toInt.natAbs = rn53 N ∧ N ≤ x.toInt.natAbs + y.toInt.natAbs := by
  obtain ⟨hx, hy⟩ := is_finite_of_add h
  refine ⟨(x.toInt + y.toInt).natAbs, ?_, Int.natAbs_add_le _ _⟩
  rw [(add_spec hx hy (rn53_le_maxFin_of_add_finite hx hy h)).2, natAbs_rnI]

/-- core of `TwoFloat * TwoFloat`: ANY doubles `xh`, `yh` (underflow, overflow, non-finite included), low words below
half an ulp of their high words -/
theorem dw_mul_tt_core_inv {xh xl yh yl : F64}
    (hx : 2 * |xl.toInt| ≤ 2 ^ (Nat.log2 xh.toInt.natAbs - 52))
    (hy : 2 * |yl.toInt| ≤ 2 ^ (Nat.log2 yh.toInt.natAbs - 52)) :
    (arithmetic.fast_two_sum (TwoFloat.new_mul xh yh).hi
      (F64.add (TwoFloat.new_mul xh yh).lo (F64.fma xl yh (F64.fma xh yl (F64.mul xl yl))))).Inv := by
  rw [new_mul_eq]
  simp only
  by_cases h3 : (F64.add (F64.fma xh yh (F64.neg (F64.mul xh yh)))
      (F64.fma xl yh (F64.fma xh yl (F64.mul xl yl)))).is_finite = true
  · obtain ⟨f1, f2⟩ := is_finite_of_add h3
    obtain ⟨_, _, ft1⟩ := is_finite_of_fma f2
    obtain ⟨_, _, ft0⟩ := is_finite_of_fma ft1
    obtain ⟨_, _, fn⟩ := is_finite_of_fma f1
    have fch : (F64.mul xh yh).is_finite = true := by rwa [is_finite_neg] at fn
    have aC := natAbs_mul_spec fch
    have aT0 := natAbs_mul_spec ft0
    have v1 := fma_spec_of_finite f1
    rw [toInt_neg, mul_spec_of_finite fch] at v1
    have aC1 : (F64.fma xh yh (F64.neg (F64.mul xh yh))).toInt.natAbs
        = roundQ (xh.toInt * yh.toInt + -rqI (xh.toInt * yh.toInt) unit * (unit : Int)).natAbs unit := by
      rw [v1, natAbs_rqI]
    have hD : 2 * (xh.toInt * yh.toInt + -rqI (xh.toInt * yh.toInt) unit * (unit : Int)).natAbs
        ≤ unit * 2 ^ (Nat.log2 (xh.toInt.natAbs * yh.toInt.natAbs / unit) - 52) := by
      have h := roundQ_abs_err (xh.toInt * yh.toInt).natAbs unit unit_pos
      rw [← natAbs_sub_rqI_mul, Int.natAbs_mul] at h
      exact_mod_cast h
    obtain ⟨N1, aT1, hN1⟩ := natAbs_fma_le ft1
    obtain ⟨N2, aC2, hN2⟩ := natAbs_fma_le f2
    obtain ⟨N3, aC3, hN3⟩ := natAbs_add_le_of_finite h3
    rw [aT0] at hN1
    rw [aT1] at hN2
    rw [aC1, aC2] at hN3
    have key := dwtimesdw_nat unit_pos (two_pow_mul_le_of_half_ulp hx) (two_pow_mul_le_of_half_ulp hy)
      hD hN1 hN2 hN3
    rw [← aC, ← aC3] at key
    refine fast_two_sum_inv (mul_WF _ _) (add_WF _ _) (Or.inr ?_)
    rw [← Int.natCast_natAbs, ← Int.natCast_natAbs]
    exact_mod_cast key
  · exact Inv.of_not_finite (fast_two_sum_hi_not_finite (Or.inr (is_finite_eq_false_iff.2 h3)))

end F64

/-! ## 9. the Fast2Sum preconditions of AccurateDWPlusDW (`TwoFloat ± TwoFloat`) -/

namespace F64

open TwoFloat

theorem rel_err_rnI (v : Int) : 2 ^ 53 * |rnI v - v| ≤ |v| := by
  rw [abs_rnI_sub, ← Int.natCast_natAbs v]
  exact rn53_rel_err v.natAbs

theorem repI_two_pow (k : Nat) : RepI ((2 : Int) ^ k) := by
  have := repI_natCast.2 (rep_two_pow k)
  rwa [Int.natCast_pow] at this

/-- the ulp exponent does not decrease under rounding -/
theorem ulpexp_le_ulpexp_rnI (v : Int) :
    Nat.log2 v.natAbs - 52 ≤ Nat.log2 (rnI v).natAbs - 52 := by
  rw [natAbs_rnI]
  have := log2_le_log2_rn53 v.natAbs
  omega

theorem ulpexp_le_of_abs_lt {z : Int} {e : Nat} (h : |z| < 2 ^ 53 * 2 ^ e) : Nat.log2 z.natAbs - 52 ≤ e := by
  apply log2_sub_le
  rw [← Int.natCast_natAbs z] at h
  exact_mod_cast h

/-- **The two Fast2Sum preconditions of AccurateDWPlusDW** (Joldes–Muller–Popescu, Alg. 6, in the crate's form) on
scaled integers, for all representable high words and low words below half an ulp:
`S = RN(xh + yh)`, `T = RN(xl + yl)`, `c = RN(sl + T)`, `V = RN(S + c)`.
(1) `|c| ≤ |S|` or `ulp(c) ∣ S`;  (2) `V = 0` or `|tl + vl| ≤ |V|` with `vl = S + c − V`. -/
theorem dwplusdw_pre {xh xl yh yl : Int} (hxh : RepI xh) (hyh : RepI yh)
    (hx : 2 * |xl| ≤ 2 ^ (Nat.log2 xh.natAbs - 52)) (hy : 2 * |yl| ≤ 2 ^ (Nat.log2 yh.natAbs - 52)) :
    (|rnI (xh + yh - rnI (xh + yh) + rnI (xl + yl))| ≤ |rnI (xh + yh)| ∨
      (2 : Int) ^ (Nat.log2 (rnI (xh + yh - rnI (xh + yh) + rnI (xl + yl))).natAbs - 52) ∣ rnI (xh + yh)) ∧
    (rnI (rnI (xh + yh) + rnI (xh + yh - rnI (xh + yh) + rnI (xl + yl))) = 0 ∨
      |xl + yl - rnI (xl + yl) +
          (rnI (xh + yh) + rnI (xh + yh - rnI (xh + yh) + rnI (xl + yl)) -
            rnI (rnI (xh + yh) + rnI (xh + yh - rnI (xh + yh) + rnI (xl + yl))))|
        ≤ |rnI (rnI (xh + yh) + rnI (xh + yh - rnI (xh + yh) + rnI (xl + yl)))|) := by
  wlog hexy : Nat.log2 yh.natAbs - 52 ≤ Nat.log2 xh.natAbs - 52 generalizing xh xl yh yl
  · have := this hyh hxh hy hx (by omega)
    rwa [Int.add_comm yh xh, Int.add_comm yl xl] at this
  -- notation
  have pux := two_pow_pos' (Nat.log2 xh.natAbs - 52)
  have puy := two_pow_pos' (Nat.log2 yh.natAbs - 52)
  have hule : (2 : Int) ^ (Nat.log2 yh.natAbs - 52) ≤ 2 ^ (Nat.log2 xh.natAbs - 52) :=
    pow_le_pow_right₀ (by norm_num) hexy
  have dxh := hxh.ulp_dvd
  have dyh := hyh.ulp_dvd
  have dxh' : (2 : Int) ^ (Nat.log2 yh.natAbs - 52) ∣ xh := dvd_trans (pow_dvd_pow 2 hexy) dxh
  -- low sum
  have hL : |xl + yl| ≤ 2 ^ (Nat.log2 xh.natAbs - 52) := by
    have := abs_add_le xl yl; omega
  have hT : |rnI (xl + yl)| ≤ 2 ^ (Nat.log2 xh.natAbs - 52) := by
    have := abs_rnI_le (v := xl + yl) (repI_two_pow (Nat.log2 xh.natAbs - 52))
      (by rwa [abs_of_pos pux])
    rwa [abs_of_pos pux] at this
  have htl := rel_err_rnI (xl + yl)
  rw [abs_sub_comm] at htl
  have hsl := rel_err_rnI (xh + yh)
  rw [abs_sub_comm] at hsl
  generalize hX : xh + yh = X at *
  generalize hLd : xl + yl = L at *
  by_cases hB : |rnI X| < 4 * 2 ^ (Nat.log2 xh.natAbs - 52)
  · -- cancellation: the high sum is exact
    have hXlt : |X| < 4 * 2 ^ (Nat.log2 xh.natAbs - 52) := by
      by_contra hc
      have hr : RepI ((2 : Int) ^ (Nat.log2 xh.natAbs - 52 + 2)) := repI_two_pow _
      have e4 : (2 : Int) ^ (Nat.log2 xh.natAbs - 52 + 2) = 4 * 2 ^ (Nat.log2 xh.natAbs - 52) := by
        rw [pow_add]; ring
      rw [e4] at hr
      have := le_abs_rnI (v := X) hr (by rw [abs_of_pos (by omega)]; omega)
      rw [abs_of_pos (by omega)] at this
      omega
    have h2 : (2 : Int) ^ (Nat.log2 xh.natAbs - 52) ≤ 2 * 2 ^ (Nat.log2 yh.natAbs - 52) := by
      by_cases hex : Nat.log2 xh.natAbs - 52 = 0
      · rw [hex, pow_zero]; omega
      · have lx := ulp_mul_le_abs hex
        by_contra hc
        have hlt : Nat.log2 yh.natAbs - 52 + 2 ≤ Nat.log2 xh.natAbs - 52 := by
          by_contra hcc
          have : Nat.log2 xh.natAbs - 52 ≤ Nat.log2 yh.natAbs - 52 + 1 := by omega
          have := pow_le_pow_right₀ (show (1 : Int) ≤ 2 by norm_num) this
          rw [pow_succ] at this
          omega
        have h4 : (2 : Int) ^ (Nat.log2 yh.natAbs - 52 + 2) ≤ 2 ^ (Nat.log2 xh.natAbs - 52) :=
          pow_le_pow_right₀ (by norm_num) hlt
        have e4 : (2 : Int) ^ (Nat.log2 yh.natAbs - 52 + 2) = 4 * 2 ^ (Nat.log2 yh.natAbs - 52) := by
          rw [pow_add]; ring
        rw [e4] at h4
        have by' := abs_lt_ulp_mul yh
        have htri : |xh| ≤ |X| + |yh| := by
          have := abs_add_le X (-yh)
          rw [abs_neg, ← hX, add_neg_cancel_right] at this
          rwa [← hX]
        omega
    have dX : (2 : Int) ^ (Nat.log2 yh.natAbs - 52) ∣ X := by rw [← hX]; exact dvd_add dxh' dyh
    have hXrep : RepI X := by
      apply rep_natAbs_of_dvd_of_le dX; omega
    have hS : rnI X = X := rnI_of_repI hXrep
    rw [hS, sub_self, zero_add, rnI_of_repI (repI_rnI L)]
    have hTe : Nat.log2 (rnI L).natAbs - 52 ≤ Nat.log2 yh.natAbs - 52 :=
      ulpexp_le_of_abs_lt (by omega)
    have dS : (2 : Int) ^ (Nat.log2 (rnI L).natAbs - 52) ∣ X := dvd_trans (pow_dvd_pow 2 hTe) dX
    refine ⟨Or.inr dS, ?_⟩
    by_cases hV : rnI (X + rnI L) = 0
    · exact Or.inl hV
    · right
      have dT : (2 : Int) ^ (Nat.log2 (rnI L).natAbs - 52) ∣ rnI L := (repI_rnI L).ulp_dvd
      have dV : (2 : Int) ^ (Nat.log2 (rnI L).natAbs - 52) ∣ rnI (X + rnI L) := rnI_dvd (dvd_add dS dT)
      have hVK := Int.le_of_dvd (abs_pos.2 hV) ((dvd_abs _ _).2 dV)
      have hKt : 2 * |L - rnI L| ≤ 2 ^ (Nat.log2 (rnI L).natAbs - 52) := by
        have h1 := two_mul_abs_rnI_sub_le L
        rw [abs_sub_comm] at h1
        push_cast at h1
        have h3 : (2 : Int) ^ (Nat.log2 L.natAbs - 52) ≤ 2 ^ (Nat.log2 (rnI L).natAbs - 52) :=
          pow_le_pow_right₀ (by norm_num) (ulpexp_le_ulpexp_rnI L)
        omega
      have hvl := rel_err_rnI (X + rnI L)
      rw [abs_sub_comm] at hvl
      have t1 : |X + rnI L| ≤ |rnI (X + rnI L)| + |X + rnI L - rnI (X + rnI L)| := by
        have := abs_add_le (rnI (X + rnI L)) (X + rnI L - rnI (X + rnI L))
        rwa [add_sub_cancel] at this
      have t2 := abs_add_le (L - rnI L) (X + rnI L - rnI (X + rnI L))
      omega
  · -- no cancellation: `|S| ≥ 4 ulp(xh)`
    have hB' : 4 * 2 ^ (Nat.log2 xh.natAbs - 52) ≤ |rnI X| := by omega
    have t0 : |X| ≤ |rnI X| + |X - rnI X| := by
      have := abs_add_le (rnI X) (X - rnI X)
      rwa [add_sub_cancel] at this
    have hc := rel_err_rnI (X - rnI X + rnI L)
    have t1 := abs_add_le (X - rnI X) (rnI L)
    have t2 : |rnI (X - rnI X + rnI L)| ≤ |X - rnI X + rnI L| + |rnI (X - rnI X + rnI L) - (X - rnI X + rnI L)| := by
      have := abs_add_le (X - rnI X + rnI L) (rnI (X - rnI X + rnI L) - (X - rnI X + rnI L))
      rwa [add_sub_cancel] at this
    have hcS : |rnI (X - rnI X + rnI L)| ≤ |rnI X| := by omega
    refine ⟨Or.inl hcS, Or.inr ?_⟩
    generalize rnI (X - rnI X + rnI L) = c at *
    have hvl := rel_err_rnI (rnI X + c)
    rw [abs_sub_comm] at hvl
    have t3 : |rnI X| ≤ |rnI X + c| + |c| := by
      have := abs_add_le (rnI X + c) (-c)
      rwa [abs_neg, add_neg_cancel_right] at this
    have t4 : |rnI X + c| ≤ |rnI (rnI X + c)| + |rnI X + c - rnI (rnI X + c)| := by
      have := abs_add_le (rnI (rnI X + c)) (rnI X + c - rnI (rnI X + c))
      rwa [add_sub_cancel] at this
    have t5 := abs_add_le (L - rnI L) (rnI X + c - rnI (rnI X + c))
    omega

end F64

namespace F64

open TwoFloat

/-- the common tail of `TwoFloat + TwoFloat` and `TwoFloat − TwoFloat`: given the two 2Sums `(sh, sl)`, `(th, tl)`,
`c = sl ⊕ th`, `(vh, vl) = Fast2Sum(sh, c)`, `w = tl ⊕ vl`, result `Fast2Sum(vh, w)`.  `H` says that the 2Sums are
error-free whenever their low words are finite. -/
theorem dw_tail_inv {sh sl th tl : F64} {xh xl yh yl : Int} (hwsh : sh.WF)
    (hxh : RepI xh) (hyh : RepI yh)
    (hx : 2 * |xl| ≤ 2 ^ (Nat.log2 xh.natAbs - 52)) (hy : 2 * |yl| ≤ 2 ^ (Nat.log2 yh.natAbs - 52))
    (H : sl.is_finite = true → tl.is_finite = true →
      IsVal sh (rnI (xh + yh)) ∧ IsVal sl (xh + yh - rnI (xh + yh)) ∧
      IsVal th (rnI (xl + yl)) ∧ IsVal tl (xl + yl - rnI (xl + yl))) :
    (arithmetic.fast_two_sum (arithmetic.fast_two_sum sh (F64.add sl th)).hi
      (F64.add tl (arithmetic.fast_two_sum sh (F64.add sl th)).lo)).Inv := by
  by_cases hw : (F64.add tl (arithmetic.fast_two_sum sh (F64.add sl th)).lo).is_finite = true
  · obtain ⟨ftl, fvl⟩ := is_finite_of_add hw
    have fvl' := fvl
    rw [fast_two_sum_eq] at fvl'
    simp only at fvl'
    obtain ⟨fc, fz⟩ := is_finite_of_sub fvl'
    obtain ⟨fsl, fth⟩ := is_finite_of_add fc
    obtain ⟨vsh, vsl, vth, vtl⟩ := H fsl ftl
    have vc := vsl.add_of_finite vth fc
    obtain ⟨fvh, _⟩ := is_finite_of_sub fz
    obtain ⟨P1, P2⟩ := dwplusdw_pre hxh hyh hx hy
    have hov := rn53_le_maxFin_of_add_finite vsh.1 vc.1 fvh
    have Vw : IsVal (arithmetic.fast_two_sum sh (F64.add sl th)).hi
          (rnI (sh.toInt + (F64.add sl th).toInt)) ∧
        IsVal (arithmetic.fast_two_sum sh (F64.add sl th)).lo
          (sh.toInt + (F64.add sl th).toInt - rnI (sh.toInt + (F64.add sl th).toInt)) := by
      rcases P1 with p | p
      · exact fast_two_sum_words vsh.1 vc.1 hwsh (add_WF _ _) (by rw [vsh.2, vc.2]; exact p) hov
      · exact fast_two_sum_words_of_dvd vsh.1 vc.1 hwsh (add_WF _ _) (by rw [vsh.2, vc.2]; exact p) hov
    rw [vsh.2, vc.2] at Vw
    have vw := vtl.add_of_finite Vw.2 hw
    rcases P2 with p | p
    · exact fast_two_sum_inv_of_dvd (fast_two_sum_WF _ _).1 (add_WF _ _)
        (Or.inr (by rw [Vw.1.2, p]; exact dvd_zero _))
    · exact fast_two_sum_inv (fast_two_sum_WF _ _).1 (add_WF _ _)
        (Or.inr (by rw [vw.2, Vw.1.2]; exact abs_rnI_le (repI_rnI _) p))
  · exact Inv.of_not_finite (fast_two_sum_hi_not_finite (Or.inr (is_finite_eq_false_iff.2 hw)))

/-- a finite low word of `new_add` / `new_sub` forces finite operands -/
theorem new_add_finite_of_lo {a b : F64} (h : (TwoFloat.new_add a b).lo.is_finite = true) :
    a.is_finite = true ∧ b.is_finite = true := by
  rw [new_add_eq] at h
  simp only at h
  obtain ⟨fda, fdb⟩ := is_finite_of_add h
  exact ⟨(is_finite_of_sub fda).1, (is_finite_of_sub fdb).1⟩

theorem new_sub_finite_of_lo {a b : F64} (h : (TwoFloat.new_sub a b).lo.is_finite = true) :
    a.is_finite = true ∧ b.is_finite = true := by
  rw [new_sub_eq] at h
  simp only at h
  obtain ⟨fda, fdb⟩ := is_finite_of_sub h
  exact ⟨(is_finite_of_sub fda).1, (is_finite_of_add fdb).1⟩

/-- core of `TwoFloat + TwoFloat`: all well-formed words with the half-ulp bounds (any magnitudes; non-finite words
allowed — they propagate to the high word) -/
theorem dw_add_tt_core_inv {xh xl yh yl : F64} (hwxh : xh.WF) (hwxl : xl.WF) (hwyh : yh.WF) (hwyl : yl.WF)
    (hx : 2 * |xl.toInt| ≤ 2 ^ (Nat.log2 xh.toInt.natAbs - 52))
    (hy : 2 * |yl.toInt| ≤ 2 ^ (Nat.log2 yh.toInt.natAbs - 52)) :
    (arithmetic.fast_two_sum
      (arithmetic.fast_two_sum (TwoFloat.new_add xh yh).hi
        (F64.add (TwoFloat.new_add xh yh).lo (TwoFloat.new_add xl yl).hi)).hi
      (F64.add (TwoFloat.new_add xl yl).lo
        (arithmetic.fast_two_sum (TwoFloat.new_add xh yh).hi
          (F64.add (TwoFloat.new_add xh yh).lo (TwoFloat.new_add xl yl).hi)).lo)).Inv := by
  apply dw_tail_inv (new_add_WF xh yh).1 hwxh.repI hwyh.repI hx hy
  intro fsl ftl
  obtain ⟨f1, f2⟩ := new_add_finite_of_lo fsl
  obtain ⟨f3, f4⟩ := new_add_finite_of_lo ftl
  obtain ⟨a1, a2⟩ := new_add_words_of_lo_finite f1 f2 hwxh hwyh fsl
  obtain ⟨a3, a4⟩ := new_add_words_of_lo_finite f3 f4 hwxl hwyl ftl
  exact ⟨a1, a2, a3, a4⟩

/-- core of `TwoFloat − TwoFloat` -/
theorem dw_sub_tt_core_inv {xh xl yh yl : F64} (hwxh : xh.WF) (hwxl : xl.WF) (hwyh : yh.WF) (hwyl : yl.WF)
    (hx : 2 * |xl.toInt| ≤ 2 ^ (Nat.log2 xh.toInt.natAbs - 52))
    (hy : 2 * |yl.toInt| ≤ 2 ^ (Nat.log2 yh.toInt.natAbs - 52)) :
    (arithmetic.fast_two_sum
      (arithmetic.fast_two_sum (TwoFloat.new_sub xh yh).hi
        (F64.add (TwoFloat.new_sub xh yh).lo (TwoFloat.new_sub xl yl).hi)).hi
      (F64.add (TwoFloat.new_sub xl yl).lo
        (arithmetic.fast_two_sum (TwoFloat.new_sub xh yh).hi
          (F64.add (TwoFloat.new_sub xh yh).lo (TwoFloat.new_sub xl yl).hi)).lo)).Inv := by
  apply dw_tail_inv (xh := xh.toInt) (xl := xl.toInt) (yh := -yh.toInt) (yl := -yl.toInt)
    (new_sub_WF xh yh).1 hwxh.repI hwyh.repI.neg hx (by rwa [abs_neg, Int.natAbs_neg])
  intro fsl ftl
  obtain ⟨f1, f2⟩ := new_sub_finite_of_lo fsl
  obtain ⟨f3, f4⟩ := new_sub_finite_of_lo ftl
  obtain ⟨a1, a2⟩ := new_sub_words_of_lo_finite f1 f2 hwxh hwyh fsl
  obtain ⟨a3, a4⟩ := new_sub_words_of_lo_finite f3 f4 hwxl hwyl ftl
  simp only [← Int.sub_eq_add_neg]
  exact ⟨a1, a2, a3, a4⟩

end F64

/-! ## 10. DWDivFP (`TwoFloat / f64`) with a normal quotient: the correction is bounded by the quotient -/

namespace F64

open TwoFloat

theorem abs_rnI_le_two_mul (v : Int) : |rnI v| ≤ 2 * |v| := by
  rw [abs_rnI, ← Int.natCast_natAbs v]
  have := rn53_le_two_mul v.natAbs
  exact_mod_cast this

theorem abs_sub_rqI_mul (p : Int) {U : Nat} (hU : 0 < U) :
    2 * |p + -(rqI p U) * (U : Int)| ≤ (U : Int) * 2 ^ (Nat.log2 (p.natAbs / U) - 52) := by
  have h := roundQ_abs_err p.natAbs U hU
  rw [← natAbs_sub_rqI_mul, Int.natCast_natAbs] at h
  push_cast at h
  exact h

/-- magnitudes in DWDivFP when the quotient is not subnormal (`|x/y| ≥ 2^-1021`, i.e. `2^53 |y| ≤ |x| U`):
`|dt + l| ≤ |x|`, hence the correction `tl = RN(d / y)` is at most `|th| = |RN(x / y)|` -/
theorem dwdivfp_int {x y l : Int} {U : Nat} (hU : 0 < U) (hy : y ≠ 0) (hl : 2 ^ 53 * |l| ≤ |x|)
    (hq : 2 ^ 53 * |y| ≤ |x| * (U : Int)) :
    |rnI (rnI (x - rqI (rdI (x * (U : Int)) y * y) U)
        - rqI (rdI (x * (U : Int)) y * y + -(rqI (rdI (x * (U : Int)) y * y) U) * (U : Int)) U) + l| ≤ |x| := by
  have hUi : (0 : Int) < (U : Int) := Int.natCast_pos.2 hU
  have hypos : 0 < |y| := abs_pos.2 hy
  have hx1 : 1 ≤ |x| := by
    by_contra hc
    have : |x| = 0 := by have := abs_nonneg x; omega
    rw [this, zero_mul] at hq; omega
  -- the quotient
  have hA : 2 ^ 53 * |rdI (x * (U : Int)) y * y - x * (U : Int)| ≤ |x| * (U : Int) := by
    have h1 := rdI_err (x * (U : Int)) hy
    have hq' : 2 ^ 52 * y.natAbs ≤ (x * (U : Int)).natAbs := by
      have : ((2 ^ 52 * y.natAbs : Nat) : Int) ≤ (((x * (U : Int)).natAbs : Nat) : Int) := by
        push_cast
        rw [abs_mul, abs_of_pos hUi]; omega
      exact_mod_cast this
    have h2 := roundQ_exp_le (Int.natAbs_pos.2 hy) hq'
    have h3 : (2 : Int) ^ 52 * (|y| * 2 ^ (Nat.log2 ((x * (U : Int)).natAbs / y.natAbs) - 52))
        ≤ |x| * (U : Int) := by
      have : ((2 ^ 52 * (y.natAbs * 2 ^ (Nat.log2 ((x * (U : Int)).natAbs / y.natAbs) - 52)) : Nat) : Int)
          ≤ (((x * (U : Int)).natAbs : Nat) : Int) := by exact_mod_cast h2
      push_cast at this
      rwa [abs_mul, abs_of_pos hUi] at this
    omega
  generalize hth : rdI (x * (U : Int)) y = th at *
  generalize hp : th * y = p at *
  have hB := abs_sub_rqI_mul p hU
  have hP : |p| ≤ |x| * (U : Int) + |p - x * (U : Int)| := by
    have := abs_add_le (x * (U : Int)) (p - x * (U : Int))
    rw [add_sub_cancel, abs_mul, abs_of_pos hUi] at this
    exact this
  have hpl : (rqI (p + -(rqI p U) * (U : Int)) U).natAbs = roundQ (p + -(rqI p U) * (U : Int)).natAbs U :=
    natAbs_rqI _ _
  generalize hph : rqI p U = ph at *
  -- `U |x - ph| ≤ |x U - p| + |p - ph U|`
  have hxp : (U : Int) * |x - ph| ≤ |p - x * (U : Int)| + |p + -ph * (U : Int)| := by
    have e : (U : Int) * |x - ph| = |x * (U : Int) - ph * (U : Int)| := by
      rw [← sub_mul, abs_mul, abs_of_pos hUi, mul_comm]
    rw [e]
    have := abs_add_le (-(p - x * (U : Int))) (p + -ph * (U : Int))
    rw [abs_neg] at this
    have e2 : -(p - x * (U : Int)) + (p + -ph * (U : Int)) = x * (U : Int) - ph * (U : Int) := by ring
    rwa [e2] at this
  have hdh := abs_rnI_le_two_mul (x - ph)
  by_cases he1 : Nat.log2 (p.natAbs / U) - 52 = 0
  · rw [he1, pow_zero, mul_one] at hB
    have hD : 2 * (p + -ph * (U : Int)).natAbs ≤ U := by
      have : ((2 * (p + -ph * (U : Int)).natAbs : Nat) : Int) ≤ (U : Int) := by
        push_cast; exact hB
      exact_mod_cast this
    have hpl0 : rqI (p + -ph * (U : Int)) U = 0 := by
      apply Int.natAbs_eq_zero.1
      rw [hpl, roundQ_eq_zero_of_two_mul_le hU hD]
    rw [hpl0, sub_zero, rnI_of_repI (repI_rnI _)]
    have h1 : 2 ^ 54 * |x - ph| ≤ 2 * |x| + 2 ^ 53 := by
      have : (U : Int) * (2 ^ 54 * |x - ph|) ≤ (U : Int) * (2 * |x| + 2 ^ 53) := by
        have e : (U : Int) * (2 * |x| + 2 ^ 53) = 2 * (|x| * (U : Int)) + 2 ^ 53 * (U : Int) := by ring
        have e' : (U : Int) * (2 ^ 54 * |x - ph|) = 2 ^ 54 * ((U : Int) * |x - ph|) := by ring
        rw [e, e']; omega
      exact le_of_mul_le_mul_left this hUi
    have t := abs_add_le (rnI (x - ph)) l
    omega
  · have h53 := roundQ_exp_pos hU he1
    have h52 : 2 ^ 52 * U ≤ p.natAbs := by omega
    have hge := roundQ_exp_le hU h52
    obtain ⟨e', he'⟩ : ∃ e', Nat.log2 (p.natAbs / U) - 52 = e' + 1 :=
      ⟨Nat.log2 (p.natAbs / U) - 52 - 1, by omega⟩
    rw [he'] at hB hge
    have r1 : Rep (2 ^ e') := rep_two_pow e'
    have hge' : (2 : Int) ^ 52 * ((U : Int) * (2 ^ e' * 2)) ≤ |p| := by
      have : ((2 ^ 52 * (U * 2 ^ (e' + 1)) : Nat) : Int) ≤ ((p.natAbs : Nat) : Int) := by exact_mod_cast hge
      push_cast at this
      rw [pow_succ] at this
      have e : (2 : Int) ^ 52 = 4503599627370496 := by norm_num
      rw [e]; exact this
    rw [pow_succ] at hB
    have hD : (p + -ph * (U : Int)).natAbs ≤ 2 ^ e' * U := by
      have : (((p + -ph * (U : Int)).natAbs : Nat) : Int) ≤ ((2 ^ e' * U : Nat) : Int) := by
        push_cast
        have e : (U : Int) * (2 ^ e' * 2) = 2 * (2 ^ e' * (U : Int)) := by ring
        rw [e] at hB; omega
      exact_mod_cast this
    have hplT : |rqI (p + -ph * (U : Int)) U| ≤ 2 ^ e' := by
      rw [← Int.natCast_natAbs, hpl]
      have := roundQ_le_of_le hU r1 hD
      exact_mod_cast this
    have pT := two_pow_pos' e'
    generalize (2 : Int) ^ e' = T at *
    generalize rqI (p + -ph * (U : Int)) U = pl at *
    -- cancel `U`
    have hT : 2 ^ 53 * (2 ^ 53 * T) ≤ 2 ^ 53 * |x| + |x| := by
      have : (U : Int) * (2 ^ 53 * (2 ^ 53 * T)) ≤ (U : Int) * (2 ^ 53 * |x| + |x|) := by
        have e : (U : Int) * (2 ^ 53 * |x| + |x|) = 2 ^ 53 * (|x| * (U : Int)) + |x| * (U : Int) := by ring
        have e' : (U : Int) * (2 ^ 53 * (2 ^ 53 * T)) = 2 ^ 53 * (2 ^ 52 * ((U : Int) * (T * 2))) := by ring
        rw [e, e']; omega
      exact le_of_mul_le_mul_left this hUi
    have hxph : 2 ^ 53 * |x - ph| ≤ |x| + 2 ^ 53 * T := by
      have : (U : Int) * (2 ^ 53 * |x - ph|) ≤ (U : Int) * (|x| + 2 ^ 53 * T) := by
        have e : (U : Int) * (|x| + 2 ^ 53 * T) = |x| * (U : Int) + 2 ^ 53 * ((U : Int) * T) := by ring
        have e' : (U : Int) * (2 ^ 53 * |x - ph|) = 2 ^ 53 * ((U : Int) * |x - ph|) := by ring
        have e'' : (U : Int) * (T * 2) = 2 * ((U : Int) * T) := by ring
        rw [e''] at hB
        rw [e, e']; omega
      exact le_of_mul_le_mul_left this hUi
    have hdt := abs_rnI_le_two_mul (rnI (x - ph) - pl)
    have t1 : |rnI (x - ph) - pl| ≤ |rnI (x - ph)| + |pl| := by
      have := abs_add_le (rnI (x - ph)) (-pl)
      rwa [abs_neg, ← Int.sub_eq_add_neg] at this
    have t2 := abs_add_le (rnI (rnI (x - ph) - pl)) l
    omega

end F64

namespace F64

open TwoFloat

theorem div_zero_not_finite {x y : F64} (hx : x.is_finite = true) (hy : y.is_finite = true)
    (h0 : y.toInt = 0) : (F64.div x y).is_finite = false := by
  obtain ⟨s, a, rfl⟩ := is_finite_iff.mp hx
  obtain ⟨t, b, rfl⟩ := is_finite_iff.mp hy
  have hb : b = 0 := TwoFloat.toInt_eq_zero_iff.1 h0
  subst hb
  simp only [div]
  split_ifs <;> rfl

theorem div_spec_of_finite {x y : F64} (hx : x.is_finite = true) (hy : y.is_finite = true)
    (hy0 : y.toInt ≠ 0) (h : (F64.div x y).is_finite = true) :
    (F64.div x y).toInt = rdI (x.toInt * (unit : Int)) y.toInt := by
  by_cases hr : roundQ (x.toInt * (unit : Int)).natAbs y.toInt.natAbs ≤ maxFin
  · exact (div_spec hx hy hy0 hr).2
  · exfalso
    obtain ⟨s, a, rfl⟩ := is_finite_iff.mp hx
    obtain ⟨t, b, rfl⟩ := is_finite_iff.mp hy
    have hb : b ≠ 0 := fun hb => hy0 (by rw [hb]; exact toInt_zero t)
    have hn : ((fin s a).toInt * (unit : Int)).natAbs = a * unit := by
      rw [Int.natAbs_mul, natAbs_toInt_fin, Int.natAbs_natCast]
    rw [hn, natAbs_toInt_fin] at hr
    simp only [div] at h
    rw [if_neg hb] at h
    by_cases ha : a = 0
    · subst ha
      rw [Nat.zero_mul] at hr
      have : roundQ 0 b = 0 := roundQ_eq_zero_of_two_mul_le (by omega) (by omega)
      omega
    · rw [if_neg ha] at h
      have hp : pack (s != t) (roundQ (a * unit) b) = inf (s != t) := pack_inf (Nat.lt_of_not_le hr)
      change (pack (s != t) (roundQ (a * unit) b)).is_finite = true at h
      rw [hp] at h
      exact absurd h (by simp [is_finite])

theorem natAbs_div_spec {x y : F64} (hx : x.is_finite = true) (hy : y.is_finite = true)
    (hy0 : y.toInt ≠ 0) (h : (F64.div x y).is_finite = true) :
    (F64.div x y).toInt.natAbs = roundQ (x.toInt.natAbs * unit) y.toInt.natAbs := by
  rw [div_spec_of_finite hx hy hy0 h, natAbs_rdI' _ hy0, Int.natAbs_mul, Int.natAbs_natCast]

/-- core of `TwoFloat / f64` (DWDivFP) when the first quotient is not subnormal: `2^53 |y| ≤ |x| · 2^1074`,
i.e. `|x / y| ≥ 2^-1021`.  (`y` may be anything else: zero, infinite, NaN, tiny, huge.) -/
theorem dw_div_core_inv {x y l : F64} (hwx : x.WF)
    (hl : 2 * |l.toInt| ≤ 2 ^ (Nat.log2 x.toInt.natAbs - 52))
    (hq : 2 ^ 53 * |y.toInt| ≤ |x.toInt| * (unit : Int)) :
    (arithmetic.fast_two_sum (F64.div x y)
      (F64.div (F64.add (F64.sub (F64.sub x (TwoFloat.new_mul (F64.div x y) y).hi)
        (TwoFloat.new_mul (F64.div x y) y).lo) l) y)).Inv := by
  rw [new_mul_eq]
  simp only
  by_cases htl : (F64.div (F64.add (F64.sub (F64.sub x (F64.mul (F64.div x y) y))
      (F64.fma (F64.div x y) y (F64.neg (F64.mul (F64.div x y) y)))) l) y).is_finite = true
  · have fd := is_finite_of_div htl
    obtain ⟨fdt, fl⟩ := is_finite_of_add fd
    obtain ⟨fdh, fpl⟩ := is_finite_of_sub fdt
    obtain ⟨fx, fph⟩ := is_finite_of_sub fdh
    obtain ⟨fth, fy⟩ := is_finite_of_mul fph
    have hy0 : y.toInt ≠ 0 := by
      intro h0
      rw [div_zero_not_finite fx fy h0] at fth
      exact absurd fth (by simp)
    have vth := div_spec_of_finite fx fy hy0 fth
    have vph := mul_spec_of_finite fph
    have vpl := fma_spec_of_finite fpl
    rw [toInt_neg, vph, vth] at vpl
    rw [vth] at vph
    have vdh := ((IsVal.of_finite fx).sub_of_finite (IsVal.of_finite fph) fdh).2
    rw [vph] at vdh
    have vdt := ((IsVal.of_finite fdh).sub_of_finite (IsVal.of_finite fpl) fdt).2
    rw [vdh, vpl] at vdt
    have vd := ((IsVal.of_finite fdt).add_of_finite (IsVal.of_finite fl) fd).2
    rw [vdt] at vd
    have hl' : 2 ^ 53 * |l.toInt| ≤ |x.toInt| := by
      have := two_pow_mul_le_of_half_ulp hl
      rw [← Int.natCast_natAbs, ← Int.natCast_natAbs]
      exact_mod_cast this
    have key := dwdivfp_int unit_pos hy0 hl' hq
    have hd : |(F64.add (F64.sub (F64.sub x (F64.mul (F64.div x y) y))
        (F64.fma (F64.div x y) y (F64.neg (F64.mul (F64.div x y) y)))) l).toInt| ≤ |x.toInt| := by
      rw [vd]; exact abs_rnI_le hwx.repI key
    have aT := natAbs_div_spec fd fy hy0 htl
    have aC := natAbs_div_spec fx fy hy0 fth
    refine fast_two_sum_inv (div_WF _ _) (div_WF _ _) (Or.inr ?_)
    rw [← Int.natCast_natAbs, ← Int.natCast_natAbs, aT, aC]
    have hd' := natAbs_le_of_abs_le (v := (F64.add (F64.sub (F64.sub x (F64.mul (F64.div x y) y))
        (F64.fma (F64.div x y) y (F64.neg (F64.mul (F64.div x y) y)))) l).toInt)
      (m := x.toInt.natAbs) (by rw [Int.natCast_natAbs]; exact hd)
    have := roundQ_mono y.toInt.natAbs (Int.natAbs_pos.2 hy0) (Nat.mul_le_mul_right unit hd')
    exact_mod_cast this
  · exact Inv.of_not_finite (fast_two_sum_hi_not_finite (Or.inr (is_finite_eq_false_iff.2 htl)))

end F64

/-! ## 11. 2Prod up to the overflow threshold -/

namespace F64

open TwoFloat

/-- 2Prod, word level, without an upper bound on the product: exact product at least `2^-960` in magnitude and a
finite rounded product (no overflow) -/
theorem new_mul_words_of_hi_finite {a b : F64} (hwa : a.WF) (hwb : b.WF)
    (hlo : (2 : Int) ^ 1188 ≤ |a.toInt * b.toInt|) (hf : (F64.mul a b).is_finite = true) :
    ∃ Q : Int, a.toInt * b.toInt = Q * (unit : Int) ∧
      IsVal (TwoFloat.new_mul a b).hi (rnI Q) ∧ IsVal (TwoFloat.new_mul a b).lo (Q - rnI Q) := by
  obtain ⟨ha, hb⟩ := is_finite_of_mul hf
  have hN : (a.toInt * b.toInt).natAbs = a.toInt.natAbs * b.toInt.natAbs := Int.natAbs_mul _ _
  have hlo' : 2 ^ 1188 ≤ a.toInt.natAbs * b.toInt.natAbs := by
    rw [← hN]; rw [← Int.natCast_natAbs] at hlo; exact_mod_cast hlo
  obtain ⟨Q0, k, hQ0, hd, hlt⟩ :=
    mul_quot_exists (U := 1074) (L := 1188) hwa.repI hwb.repI (by norm_num) hlo'
  have hP0 : a.toInt * b.toInt ≠ 0 := by
    intro h0
    rw [h0, abs_zero] at hlo
    have : (0 : Int) < 2 ^ 1188 := by positivity
    omega
  have hQ : a.toInt * b.toInt = (Int.sign (a.toInt * b.toInt) * (Q0 : Int)) * (unit : Int) := by
    rw [← unit_eq] at hQ0
    conv_lhs => rw [← Int.sign_mul_natAbs (a.toInt * b.toInt), hN, hQ0]
    push_cast; ring
  have hQabs : (Int.sign (a.toInt * b.toInt) * (Q0 : Int)).natAbs = Q0 := by
    rw [Int.natAbs_mul, Int.natAbs_sign_of_ne_zero hP0, Nat.one_mul, Int.natAbs_natCast]
  refine ⟨_, hQ, new_mul_words_of ha hb hQ ?_ ?_⟩
  · rw [hQabs]
    obtain ⟨zs, e⟩ := mul_eq ha hb
    rw [e] at hf
    have := roundSigned_finite hf
    rw [hN, hQ0, ← unit_eq, roundQ_mul_right_eq_rn53 _ _ unit_pos] at this
    exact this
  · apply repI_sub_rnI_of_dvd (k := k)
    · rw [hQabs]; exact hd
    · rw [hQabs]; exact hlt

theorem new_mul_valid_of_hi_finite {a b : F64} (hwa : a.WF) (hwb : b.WF)
    (hlo : (2 : Int) ^ 1188 ≤ |a.toInt * b.toInt|) (hf : (F64.mul a b).is_finite = true) :
    (TwoFloat.new_mul a b).V * (unit : Int) = a.toInt * b.toInt ∧
    (TwoFloat.new_mul a b).Valid ∧ (TwoFloat.new_mul a b).WF := by
  obtain ⟨Q, hQ, hh, hl⟩ := new_mul_words_of_hi_finite hwa hwb hlo hf
  obtain ⟨_, p2, p3, p4⟩ := eft_package hh hl (new_mul_WF a b).1 (new_mul_WF a b).2
  exact ⟨by rw [p2, hQ], p3, p4⟩

end F64
